/-
  C11: inline preparation (`prepN` / `prepL` / `prepT`, the model of `Template._prepare` with the
  `inlined` guard set) always terminates and, under the hypothesis `inH`, produces a prepared
  form (`PrepL`) of the raw stream; hence the loader fact `LoadOK` the simulation needs.
-/
import Genshi.Lemmas.Incl
namespace Genshi.Incl

/-! ## files -/

theorem lookup_mem {β : Type} : ∀ {l : List (Name × β)} {n : Name} {b : β}, l.lookup n = some b → (n, b) ∈ l
  | [], _, _, h => by simp [List.lookup] at h
  | (k, v) :: rest, n, b, h => by
    simp only [List.lookup] at h
    cases hk : (n == k) with
    | true =>
      simp only [hk] at h
      have : n = k := by simpa using hk
      cases h
      simp [this]
    | false =>
      simp only [hk] at h
      exact List.mem_cons_of_mem _ (lookup_mem h)

theorem find_mem : ∀ {files : Files} {n : Name} {f : File}, files.find n = some f → ∃ d ∈ files, (n, f) ∈ d
  | [], _, _, h => by simp [Files.find] at h
  | d :: ds, n, f, h => by
    simp only [Files.find] at h
    cases hl : d.lookup n with
    | some g =>
      simp only [hl] at h
      cases h
      exact ⟨d, by simp, lookup_mem hl⟩
    | none =>
      simp only [hl] at h
      obtain ⟨d', hd', hm⟩ := find_mem h
      exact ⟨d', List.mem_cons_of_mem _ hd', hm⟩

theorem find_mem_names {files : Files} {n : Name} {f : File} (h : files.find n = some f) : n ∈ files.names := by
  obtain ⟨d, hd, hm⟩ := find_mem h
  simp only [Files.names, List.mem_flatten, List.mem_map]
  exact ⟨d.map (·.1), ⟨d, hd, rfl⟩, by simp only [List.mem_map]; exact ⟨(n, f), hm, rfl⟩⟩

theorem find_fileOk {T : List Name} {files : Files} (hH : inH T files = true) {n : Name} {f : File}
    (h : files.find n = some f) : fileOk T files f = true := by
  obtain ⟨d, hd, hm⟩ := find_mem h
  simp only [inH, List.all_eq_true] at hH
  exact hH d hd (n, f) hm

/-! ## the measure: names not yet in the guard set -/

def rem (files : Files) (inl : List Name) : Nat :=
  (files.names.filter fun n => decide (n ∉ inl)).length

theorem filter_length_le {α : Type} (p q : α → Bool) (hpq : ∀ x, q x = true → p x = true) :
    ∀ l : List α, (l.filter q).length ≤ (l.filter p).length
  | [] => Nat.le_refl _
  | x :: l => by
    have ih := filter_length_le p q hpq l
    simp only [List.filter]
    cases hq : q x with
    | true => simp only [hpq x hq, List.length_cons]; omega
    | false =>
      cases hp : p x with
      | true => simp only [List.length_cons]; omega
      | false => exact ih

theorem filter_length_lt {α : Type} (p q : α → Bool) (hpq : ∀ x, q x = true → p x = true) (a : α)
    (hpa : p a = true) (hqa : q a = false) :
    ∀ l : List α, a ∈ l → (l.filter q).length < (l.filter p).length
  | [], h => by simp at h
  | x :: l, h => by
    have hle := filter_length_le p q hpq l
    simp only [List.filter]
    rcases List.mem_cons.mp h with rfl | h'
    · simp only [hpa, hqa, List.length_cons]; omega
    · have ih := filter_length_lt p q hpq a hpa hqa l h'
      cases hq : q x with
      | true => simp only [hpq x hq, List.length_cons]; omega
      | false =>
        cases hp : p x with
        | true => simp only [List.length_cons]; omega
        | false => exact ih

theorem rem_lt {files : Files} {inl : List Name} {n : Name} (hn : n ∉ inl) (hf : n ∈ files.names) :
    rem files (n :: inl) < rem files inl := by
  unfold rem
  apply filter_length_lt _ _ _ n _ _ _ hf
  · intro x hx
    simp only [List.mem_cons, not_or, decide_eq_true_eq] at hx ⊢
    exact hx.2
  · simpa using hn
  · simp

theorem rem_le_names (files : Files) (inl : List Name) : rem files inl ≤ files.names.length := by
  unfold rem
  exact List.length_filter_le _ _

/-! ## preparation is sound -/

/-- what preparing a node list needs from "prepare another template" under guard set `inl` -/
def PJSpec (T : List Name) (files : Files) (J : PJ) (inl : List Name) : Prop :=
  ∀ name c k body, name ∉ inl → files.find name = some ⟨k, some body⟩ → CacheInv T files c →
    ∃ b' c', J (name :: inl) name c = .ok (b', c') ∧ PrepL T files false body b' ∧ CacheInv T files c'

section unfoldP
variable (files : Files) (J : PJ) (inl : List Name) (c : Cache)

theorem prepL_nil : prepL files J inl [] c = .ok ([], c) := rfl
theorem prepL_cons (n : Node) (ns : List Node) :
    prepL files J inl (n :: ns) c =
      (prepN files J inl n c).bind fun r1 =>
        (prepL files J inl ns r1.2).bind fun r2 => .ok (r1.1 ++ r2.1, r2.2) := rfl
theorem prepN_elem (t : Name) (b : List Node) :
    prepN files J inl (.elem t b) c = (prepL files J inl b c).bind fun r => .ok ([.elem t r.1], r.2) := rfl
theorem prepN_cond (cd : Cond) (b : List Node) :
    prepN files J inl (.cond cd b) c = (prepL files J inl b c).bind fun r => .ok ([.cond cd r.1], r.2) := rfl
theorem prepN_loop (x xs : Name) (b : List Node) :
    prepN files J inl (.loop x xs b) c = (prepL files J inl b c).bind fun r => .ok ([.loop x xs r.1], r.2) := rfl
theorem prepN_defn (m : Name) (b : List Node) :
    prepN files J inl (.defn m b) c = (prepL files J inl b c).bind fun r => .ok ([.defn m r.1], r.2) := rfl
theorem prepN_matchT (t : Name) (b : List Node) :
    prepN files J inl (.matchT t b) c = (prepL files J inl b c).bind fun r => .ok ([.matchT t r.1], r.2) := rfl
theorem prepN_inlined (b : List Node) :
    prepN files J inl (.inlined b) c = (prepL files J inl b c).bind fun r => .ok ([.inlined r.1], r.2) := rfl
theorem prepN_dyn (ps : List Part) (cls : Kind) (hasFb : Bool) (fb : List Node) (pos : Name) :
    prepN files J inl (.include (.dyn ps) cls hasFb fb pos) c =
      (prepL files J inl fb c).bind fun r => .ok ([.include (.dyn ps) cls hasFb r.1 pos], r.2) := rfl
theorem prepN_static (h : List Char) (cls : Kind) (hasFb : Bool) (fb : List Node) (pos : Name) :
    prepN files J inl (.include (.static h) cls hasFb fb pos) c =
      match resolve pos h with
      | none => .err .unmodelled
      | some name =>
        match files.find name with
        | none =>
          if hasFb then prepL files J inl fb c
          else (prepL files J inl fb c).bind fun r => .ok ([.include (.static h) cls hasFb r.1 pos], r.2)
        | some f =>
          if f.kind ≠ cls then .err .unmodelled
          else match f.body with
            | none => .err .syntaxErr
            | some _ =>
              if name ∈ inl then
                (prepL files J inl fb c).bind fun r => .ok ([.include (.static h) cls hasFb r.1 pos], r.2)
              else
                (J (name :: inl) name c).bind fun r => .ok ([.inlined r.1], r.2) := rfl
end unfoldP

mutual
theorem prepN_ok {T : List Name} {files : Files} (hH : inH T files = true) {J : PJ} {inl : List Name}
    (hJ : PJSpec T files J inl) : ∀ (n : Node) (z : Bool) (c : Cache),
    tagsOkN T n = true → zoneFreeN files T z n = true → clsOkN files n = true → CacheInv T files c →
    ∃ ns' c', prepN files J inl n c = .ok (ns', c') ∧ PrepL T files z [n] ns' ∧ CacheInv T files c'
  | .text s, z, c, _, _, _, hc => ⟨_, _, rfl, .text .nil, hc⟩
  | .var x, z, c, _, _, _, hc => ⟨_, _, rfl, .var .nil, hc⟩
  | .select, z, c, _, _, _, hc => ⟨_, _, rfl, .select .nil, hc⟩
  | .call m, z, c, _, hz, _, hc => by
    simp only [zoneFreeN, Bool.not_eq_true'] at hz
    subst hz
    exact ⟨_, _, rfl, .call .nil, hc⟩
  | .elem t b, z, c, ht, hz, hk, hc => by
    simp only [tagsOkN] at ht; simp only [zoneFreeN] at hz; simp only [clsOkN] at hk
    obtain ⟨b', c', he, hp, hc'⟩ := prepL_ok hH hJ b _ c ht hz hk hc
    exact ⟨_, _, by rw [prepN_elem, he]; rfl, .elem hp .nil, hc'⟩
  | .cond cd b, z, c, ht, hz, hk, hc => by
    simp only [tagsOkN] at ht; simp only [zoneFreeN] at hz; simp only [clsOkN] at hk
    obtain ⟨b', c', he, hp, hc'⟩ := prepL_ok hH hJ b _ c ht hz hk hc
    exact ⟨_, _, by rw [prepN_cond, he]; rfl, .cond hp .nil, hc'⟩
  | .loop x xs b, z, c, ht, hz, hk, hc => by
    simp only [tagsOkN] at ht; simp only [zoneFreeN] at hz; simp only [clsOkN] at hk
    obtain ⟨b', c', he, hp, hc'⟩ := prepL_ok hH hJ b _ c ht hz hk hc
    exact ⟨_, _, by rw [prepN_loop, he]; rfl, .loop hp .nil, hc'⟩
  | .defn m b, z, c, ht, hz, hk, hc => by
    simp only [tagsOkN] at ht; simp only [zoneFreeN] at hz; simp only [clsOkN] at hk
    obtain ⟨b', c', he, hp, hc'⟩ := prepL_ok hH hJ b _ c ht hz hk hc
    exact ⟨_, _, by rw [prepN_defn, he]; rfl, .defn hp .nil, hc'⟩
  | .matchT t b, z, c, ht, hz, hk, hc => by
    simp only [tagsOkN, Bool.and_eq_true, decide_eq_true_eq] at ht
    simp only [zoneFreeN] at hz; simp only [clsOkN] at hk
    obtain ⟨b', c', he, hp, hc'⟩ := prepL_ok hH hJ b _ c ht.2 hz hk hc
    exact ⟨_, _, by rw [prepN_matchT, he]; rfl, .matchT ht.1 hp .nil, hc'⟩
  | .inlined b, z, c, ht, hz, hk, hc => by
    simp only [tagsOkN] at ht; simp only [zoneFreeN] at hz; simp only [clsOkN] at hk
    obtain ⟨b', c', he, hp, hc'⟩ := prepL_ok hH hJ b _ c ht hz hk hc
    exact ⟨_, _, by rw [prepN_inlined, he]; rfl, .inlined hp .nil, hc'⟩
  | .include (.dyn ps) cls hasFb fb pos, z, c, ht, hz, hk, hc => by
    simp only [tagsOkN] at ht; simp only [zoneFreeN] at hz; simp only [clsOkN] at hk
    obtain ⟨b', c', he, hp, hc'⟩ := prepL_ok hH hJ fb _ c ht hz hk hc
    exact ⟨_, _, by rw [prepN_dyn, he]; rfl, .keep hp .nil, hc'⟩
  | .include (.static h) cls hasFb fb pos, z, c, ht, hz, hk, hc => by
    simp only [tagsOkN] at ht
    simp only [zoneFreeN, Bool.and_eq_true, Bool.or_eq_true, Bool.not_eq_true'] at hz
    simp only [clsOkN, Bool.and_eq_true] at hk
    obtain ⟨hz0, hzfb⟩ := hz
    obtain ⟨hcls, hkfb⟩ := hk
    obtain ⟨fb', c', he, hp, hc'⟩ := prepL_ok hH hJ fb _ c ht hzfb hkfb hc
    rw [prepN_static]
    cases hres : resolve pos h with
    | none => simp [hres] at hcls
    | some name =>
      simp only [hres] at hcls ⊢
      cases hfind : files.find name with
      | none =>
        simp only
        cases hasFb with
        | true =>
          refine ⟨fb', c', by simpa using he, ?_, hc'⟩
          have hw : z = true → winfreeL T fb = true := by
            intro hzt
            rcases hz0 with hz0 | hz0
            · rw [hzt] at hz0; cases hz0
            · simpa [zoneTargetOk, hres, hfind] using hz0
          have := PrepL.inlineMissing (c := cls) hres hfind hw hp (.nil (T := T) (files := files) (z := z))
          simpa using this
        | false =>
          refine ⟨_, c', by simp [he], .keep hp .nil, hc'⟩
      | some f =>
        obtain ⟨fk, fbody⟩ := f
        simp only [hfind, decide_eq_true_eq] at hcls
        subst hcls
        have hok := find_fileOk hH hfind
        simp only [fileOk] at hok
        cases fbody with
        | none => simp at hok
        | some body =>
          simp only [ne_eq, not_true_eq_false, if_false]
          by_cases hin : name ∈ inl
          · simp only [hin, if_true]
            exact ⟨_, c', by simp [he], .keep hp .nil, hc'⟩
          · simp only [hin, if_false]
            obtain ⟨b', c2, hj, hpb, hc2⟩ := hJ name c fk body hin hfind hc
            refine ⟨[.inlined b'], c2, by simp [hj], ?_, hc2⟩
            have hw : z = true → winfreeL T body = true := by
              intro hzt
              rcases hz0 with hz0 | hz0
              · rw [hzt] at hz0; cases hz0
              · simpa [zoneTargetOk, hres, hfind] using hz0
            exact .inlineFound hres hfind hw hpb .nil
termination_by structural n => n
theorem prepL_ok {T : List Name} {files : Files} (hH : inH T files = true) {J : PJ} {inl : List Name}
    (hJ : PJSpec T files J inl) : ∀ (ns : List Node) (z : Bool) (c : Cache),
    tagsOkL T ns = true → zoneFreeL files T z ns = true → clsOkL files ns = true → CacheInv T files c →
    ∃ ns' c', prepL files J inl ns c = .ok (ns', c') ∧ PrepL T files z ns ns' ∧ CacheInv T files c'
  | [], z, c, _, _, _, hc => ⟨[], c, rfl, .nil, hc⟩
  | n :: ns, z, c, ht, hz, hk, hc => by
    simp only [tagsOkL, Bool.and_eq_true] at ht
    simp only [zoneFreeL, Bool.and_eq_true] at hz
    simp only [clsOkL, Bool.and_eq_true] at hk
    obtain ⟨n', c1, he1, hp1, hc1⟩ := prepN_ok hH hJ n z c ht.1 hz.1 hk.1 hc
    obtain ⟨ns', c2, he2, hp2, hc2⟩ := prepL_ok hH hJ ns z c1 ht.2 hz.2 hk.2 hc1
    refine ⟨n' ++ ns', c2, by rw [prepL_cons, he1]; simp [he2], ?_, hc2⟩
    have := PrepL.append hp1 hp2
    simpa using this
termination_by structural ns => ns
end

theorem prepT_ok {T : List Name} {files : Files} (hH : inH T files = true) :
    ∀ (f : Nat) (inl : List Name) (name : Name) (c : Cache) (k : Kind) (body : List Node),
      rem files inl < f → files.find name = some ⟨k, some body⟩ → CacheInv T files c →
      ∃ b' c', prepT files f inl name c = .ok (b', c') ∧ PrepL T files false body b' ∧ CacheInv T files c'
  | 0, _, _, _, _, _, h, _, _ => by omega
  | f + 1, inl, name, c, k, body, hf, hfind, hc => by
    simp only [prepT]
    cases hl : c.lookup name with
    | some b =>
      obtain ⟨k0, body0, hfind0, hp0⟩ := hc name b (lookup_mem hl)
      rw [hfind] at hfind0
      cases hfind0
      exact ⟨b, c, rfl, hp0, hc⟩
    | none =>
      simp only [hfind]
      have hok := find_fileOk hH hfind
      simp only [fileOk, Bool.and_eq_true] at hok
      have hJ : PJSpec T files (prepT files f) inl := by
        intro name' c1 k' body' hn' hfind' hc1
        exact prepT_ok hH f (name' :: inl) name' c1 k' body'
          (by have := rem_lt hn' (find_mem_names hfind'); omega) hfind' hc1
      obtain ⟨b', c', he, hp, hc'⟩ := prepL_ok hH hJ body false c hok.1.1.1 hok.1.1.2 hok.1.2 hc
      refine ⟨b', (name, b') :: c', by simp [he], hp, ?_⟩
      intro n bb hm
      rcases List.mem_cons.mp hm with heq | hm'
      · cases heq
        exact ⟨k, body, hfind, hp⟩
      · exact hc' n bb hm'

/-- under the hypothesis, loading in inline mode yields a prepared form of what loading in
run-time mode yields (or the same error) -/
theorem loadOK_of_inH {T : List Name} {files : Files} (hH : inH T files = true) : LoadOK T files := by
  intro name cls c hc
  simp only [loadRaw, loadInl]
  cases hfind : files.find name with
  | none => rfl
  | some f =>
    obtain ⟨fk, fbody⟩ := f
    simp only
    by_cases hk : fk = cls
    · subst hk
      simp only [ne_eq, not_true_eq_false, if_false]
      cases fbody with
      | none => rfl
      | some body =>
        simp only
        exact prepT_ok hH (prepFuel files) [name] name c fk body
          (by have := rem_le_names files [name]; simp only [prepFuel]; omega) hfind hc
    · simp only [ne_eq, hk, not_false_eq_true, if_true]

theorem textOK_of_inH {T : List Name} {files : Files} (hH : inH T files = true) : TextOK files := by
  intro name body hfind
  have hok := find_fileOk hH hfind
  simp only [fileOk, Bool.and_eq_true] at hok
  exact hok.2

end Genshi.Incl

/-
  C13 — `parse_gen`: comma separated sequences (displays, argument lists, parameter lists) and
  the trailers (attribute access, call, subscript).
-/
import Genshi.Lemmas.PyParseLoops
namespace Genshi.Py
open Genshi.Gen

theorem atomStart_ne {t u : Tok} (h : atomStart t = true) (hu : atomStart u = false) : t ≠ u := by
  intro e; subst e; simp [h] at hu

theorem head_ne {toks : List Tok} (h : headOK toks = true) (rest : List Tok) {u : Tok} (hu : atomStart u = false) :
    ∃ t r, toks ++ rest = t :: r ∧ t ≠ u ∧ atomStart t = true := by
  obtain ⟨t, r, h1, h2⟩ := headOK_cons_append rest h
  exact ⟨t, r, h1, atomStart_ne h2 hu, h2⟩

/-- what follows an item of a sequence: a comma or a closing token -/
def itemEnd : List Tok → Bool
  | [] => true
  | t :: _ => t = tComma || t = tRP || t = tRB || t = tRC || t = tColon

theorem itemEnd_elim {t : Tok} {r : List Tok} (h : itemEnd (t :: r) = true) :
    t = tComma ∨ t = tRP ∨ t = tRB ∨ t = tRC ∨ t = tColon := by
  simp [itemEnd] at h
  rcases h with (((h | h) | h) | h) | h <;> simp [h]

theorem itemEnd_closedE {r : List Tok} (h : itemEnd r = true) : closedE r = true := by
  cases r with
  | nil => rfl
  | cons t r => rcases itemEnd_elim h with rfl | rfl | rfl | rfl | rfl <;> rfl

theorem itemEnd_startsComp {r : List Tok} (h : itemEnd r = true) : startsComp r = false := by
  cases r with
  | nil => rfl
  | cons t r => rcases itemEnd_elim h with rfl | rfl | rfl | rfl | rfl <;> rfl

theorem itemEnd_notEq {r : List Tok} (h : itemEnd r = true) : notEqHead r = true := by
  cases r with
  | nil => rfl
  | cons t r => rcases itemEnd_elim h with rfl | rfl | rfl | rfl | rfl <;> rfl

/-- an item (with token function `tk`) that the parser reads back in `mode` -/
def ItemOK (mode : Mode) (tk : PyExpr → List Tok) (x : PyExpr) : Prop :=
  ∀ M, need x + 1 ≤ M → ∀ rest, itemEnd rest = true → itemF (knot M) mode (tk x ++ rest) = some (x, rest)

/-- items each followed by a comma -/
def trailing (tk : PyExpr → List Tok) : List PyExpr → List Tok
  | [] => []
  | x :: xs => tk x ++ tComma :: trailing tk xs

/-- items separated by commas -/
def sepBy (tk : PyExpr → List Tok) : List PyExpr → List Tok
  | [] => []
  | [x] => tk x
  | x :: y :: xs => tk x ++ tComma :: sepBy tk (y :: xs)

theorem trailing_gen (xs : List PyExpr) : genList [] [tComma] xs = trailing gen xs := by
  induction xs with
  | nil => simp [genList_nil, trailing]
  | cons x xs ih => simp [genList_cons, trailing, ih]

theorem sepBy_gen (xs : List PyExpr) : (genList [tComma] [] xs).drop 1 = sepBy gen xs := by
  induction xs with
  | nil => simp [genList_nil, sepBy]
  | cons x xs ih =>
    cases xs with
    | nil => simp [genList_cons, genList_nil, sepBy]
    | cons y ys =>
      simp only [genList_cons, List.append_nil, List.singleton_append, List.drop_succ_cons, List.drop_zero, sepBy] at ih ⊢
      rw [← ih]
      simp

theorem sepBy_gen_tail (xs : List PyExpr) : (genList [tComma] [] xs).tail = sepBy gen xs := by
  rw [← List.drop_one]; exact sepBy_gen xs

theorem itemsF_at (k : Knot) (mode : Mode) (closer : Tok) (acc : List PyExpr) (c : Bool) (toks : List Tok)
    (h : atCloser closer toks = true) : itemsF k mode closer acc c toks = some ((acc.reverse, c), toks) := by
  simp [itemsF, h]

theorem itemsF_comma (k : Knot) (mode : Mode) (closer : Tok) (acc : List PyExpr) (c : Bool) (toks : List Tok)
    (x : PyExpr) (r : List Tok) (h : atCloser closer toks = false)
    (hi : itemF k mode toks = some (x, tComma :: r)) :
    itemsF k mode closer acc c toks = k.items mode closer (x :: acc) true r := by
  simp [itemsF, h, hi, tComma]

theorem itemsF_last (k : Knot) (mode : Mode) (closer : Tok) (acc : List PyExpr) (c : Bool) (toks : List Tok)
    (x : PyExpr) (r : List Tok) (h : atCloser closer toks = false)
    (hi : itemF k mode toks = some (x, closer :: r)) (hc : closer ≠ tComma) :
    itemsF k mode closer acc c toks = some (((x :: acc).reverse, c), closer :: r) := by
  have : atCloser closer (closer :: r) = true := by simp [atCloser]
  simp only [itemsF, h, hi, Bool.false_eq_true, if_false, Option.bind_eq_bind, Option.bind_some]
  split
  · rename_i heq; exact absurd (List.cons.inj heq).1 (by simpa [tComma] using hc)
  · simp [this]

/-- the items loop on `x1, x2, …, xn,` followed by the closer -/
theorem items_trailing (mode : Mode) (tk : PyExpr → List Tok) (closer : Tok) (xs : List PyExpr)
    (hx : ∀ x ∈ xs, ItemOK mode tk x ∧ ∀ rest, atCloser closer (tk x ++ rest) = false) :
    ∀ (acc : List PyExpr) (c : Bool) (M : Nat), 8 * szL xs + 1 ≤ M → ∀ rest,
      (knot M).items mode closer acc c (trailing tk xs ++ closer :: rest)
        = some ((acc.reverse ++ xs, c || !xs.isEmpty), closer :: rest) := by
  induction xs with
  | nil =>
    intro acc c M hM rest
    obtain ⟨m, rfl⟩ : ∃ m, M = m + 1 := ⟨M - 1, by omega⟩
    simp [trailing, itemsF_at _ _ _ _ _ _ (show atCloser closer (closer :: rest) = true by simp [atCloser])]
  | cons x xs ih =>
    intro acc c M hM rest
    simp only [szL] at hM
    obtain ⟨m, rfl⟩ : ∃ m, M = m + 2 := ⟨M - 2, by omega⟩
    obtain ⟨hok, hnc⟩ := hx x (by simp)
    have hi := hok (m + 1) (by simp only [need]; omega) (tComma :: (trailing tk xs ++ closer :: rest)) rfl
    simp only [trailing, List.append_assoc, List.cons_append, knot_items]
    rw [itemsF_comma _ _ _ _ _ _ _ _ (hnc _) hi]
    rw [ih (fun y hy => hx y (by simp [hy])) (x :: acc) true (m + 1) (by omega) rest]
    simp

/-- the items loop on `x1, x2, …, xn` followed by the closer -/
theorem items_sep (mode : Mode) (tk : PyExpr → List Tok) (closer : Tok) (hcc : closer ≠ tComma)
    (hce : ∀ rest, itemEnd (closer :: rest) = true) (xs : List PyExpr) :
    ∀ (x : PyExpr), (∀ y ∈ x :: xs, ItemOK mode tk y ∧ ∀ rest, atCloser closer (tk y ++ rest) = false) →
    ∀ (acc : List PyExpr) (c : Bool) (M : Nat), 8 * szL (x :: xs) + 1 ≤ M → ∀ rest,
      ∃ c', (knot M).items mode closer acc c (sepBy tk (x :: xs) ++ closer :: rest)
        = some ((acc.reverse ++ x :: xs, c'), closer :: rest) := by
  induction xs with
  | nil =>
    intro x hx acc c M hM rest
    simp only [szL] at hM
    obtain ⟨m, rfl⟩ : ∃ m, M = m + 2 := ⟨M - 2, by omega⟩
    obtain ⟨hok, hnc⟩ := hx x (by simp)
    have hi := hok (m + 1) (by simp only [need]; omega) (closer :: rest) (hce rest)
    refine ⟨c, ?_⟩
    simp only [sepBy, knot_items]
    rw [itemsF_last _ _ _ _ _ _ _ _ (hnc _) hi hcc]
    simp
  | cons y ys ih =>
    intro x hx acc c M hM rest
    simp only [szL] at hM
    obtain ⟨m, rfl⟩ : ∃ m, M = m + 2 := ⟨M - 2, by omega⟩
    obtain ⟨hok, hnc⟩ := hx x (by simp)
    have hi := hok (m + 1) (by simp only [need]; omega) (tComma :: (sepBy tk (y :: ys) ++ closer :: rest)) rfl
    obtain ⟨c', hrec⟩ := ih y (fun z hz => hx z (by simp at hz ⊢; right; exact hz)) (x :: acc) true (m + 1)
      (by simp only [szL]; omega) rest
    refine ⟨c', ?_⟩
    simp only [sepBy, List.append_assoc, List.cons_append, knot_items]
    rw [itemsF_comma _ _ _ _ _ _ _ _ (hnc _) hi, hrec]
    simp

/-! ### elements of displays and call arguments -/

theorem itemEnd_stops {r : List Tok} (h : itemEnd r = true) :
    stopsTrailer r = true ∧ stopsPow r = true ∧ stopsBin r = true := by
  have hb := closedD_belowBool (closedE_D (itemEnd_closedE h))
  exact ⟨belowBool_trailer hb, belowBool_pow hb, belowBool_bin hb⟩

/-- a display element / positional argument: `*y` or an expression -/
def EltGoal (x : PyExpr) : Prop := (∃ y, x = .starred y ∧ ExprGoal y) ∨ (isStarred x = false ∧ ExprGoal x)

theorem elt_item (x : PyExpr) (h : EltGoal x) : ItemOK .elts gen x := by
  intro M hM rest hr
  obtain ⟨m, rfl⟩ : ∃ m, M = m + 1 := ⟨M - 1, by omega⟩
  rcases h with ⟨y, rfl, gy⟩ | ⟨_, gx⟩
  · simp only [need, sz] at hM
    have hs := itemEnd_stops hr
    have := gy.kbin (M := m + 1) (by simp only [need]; omega) 0 rest hs.1 hs.2.1 hs.2.2
    show eltF (knot (m+1)) (gen (.starred y) ++ rest) = _
    simp only [gen, List.cons_append, tStar, eltF, this, Option.bind_eq_bind, Option.bind_some]
  · show eltF (knot (m+1)) (gen x ++ rest) = _
    rw [eltF_expr _ _ (headOK_parenStart (headOK_append _ gx.head))]
    exact gx.kexpr (by omega) rest (itemEnd_closedE hr)

theorem elt_notCloser (x : PyExpr) (h : EltGoal x) (closer : Tok) (hc : atomStart closer = false)
    (hs : closer ≠ tStar) (he : closer ≠ tEOF) (rest : List Tok) : atCloser closer (gen x ++ rest) = false := by
  rcases h with ⟨y, rfl, _⟩ | ⟨_, gx⟩
  · simp only [gen, List.cons_append, atCloser]
    simpa using fun e => hs e.symm
  · obtain ⟨t, r, h1, h2, _⟩ := head_ne gx.head rest hc
    rw [h1]
    simpa [atCloser] using h2

theorem elt_first (x : PyExpr) (h : EltGoal x) {M : Nat} (hM : need x + 1 ≤ M) (rest : List Tok) :
    eltF (knot M) (gen x ++ tComma :: rest) = some (x, tComma :: rest) :=
  elt_item x h M hM (tComma :: rest) rfl

theorem bracketF_comma (k : Knot) (toks : List Tok) (first : PyExpr) (r' : List Tok)
    (hne : ∀ r, toks ≠ tRB :: r) (h : eltF k toks = some (first, tComma :: r')) :
    bracketF k toks = (k.items .elts tRB [first] true r').bind fun y =>
      match y.2 with
      | .op [']'] :: r3 => some (.list y.1.1, r3)
      | _ => none := by
  unfold bracketF
  split
  · rename_i rest; exact absurd rfl (hne rest)
  · simp only [h, Option.bind_eq_bind, Option.bind_some, tComma]
    rfl

theorem parenF_comma (k : Knot) (toks : List Tok) (first : PyExpr) (r' : List Tok)
    (hne : ∀ r, toks ≠ tRP :: r) (hny : ∀ r, toks ≠ kw cs!"yield" :: r)
    (h : eltF k toks = some (first, tComma :: r')) :
    parenF k toks = (k.items .elts tRP [first] true r').bind fun y =>
      match y.2 with
      | .op [')'] :: r3 => some (.tuple y.1.1, r3)
      | _ => none := by
  unfold parenF
  split
  · rename_i rest; exact absurd rfl (hne rest)
  · rename_i rest; exact absurd rfl (hny rest)
  · simp only [h, Option.bind_eq_bind, Option.bind_some, tComma]
    rfl

theorem elts_items (closer : Tok) (hc : atomStart closer = false) (hs : closer ≠ tStar) (he : closer ≠ tEOF)
    (xs : List PyExpr) (hx : ∀ x ∈ xs, EltGoal x) (acc : List PyExpr) (M : Nat) (hM : 8 * szL xs + 1 ≤ M)
    (rest : List Tok) :
    (knot M).items .elts closer acc true (trailing gen xs ++ closer :: rest)
      = some ((acc.reverse ++ xs, true), closer :: rest) := by
  have := items_trailing .elts gen closer xs
    (fun x hxm => ⟨elt_item x (hx x hxm), elt_notCloser x (hx x hxm) closer hc hs he⟩) acc true M hM rest
  simpa using this

theorem goal_list (elts : List PyExpr) (hx : ∀ x ∈ elts, EltGoal x) : ExprGoal (.list elts) := by
  have hg : gen (.list elts) = tLB :: (trailing gen elts ++ [tRB]) := by simp [gen, trailing_gen]
  refine ⟨?_, ?_, ?_⟩
  · intro M hM rest
    rw [hg]
    simp only [need, sz] at hM
    obtain ⟨m, rfl⟩ : ∃ m, M = m + 1 := ⟨M - 1, by omega⟩
    simp only [List.cons_append, List.append_assoc, List.nil_append, cS, Nat.sub_zero, primaryF_def, atomF, tLB]
    simp only [show (['['] : Str) ≠ ['.', '.', '.'] by decide, show (['['] : Str) ≠ ['('] by decide, if_false, if_true]
    cases elts with
    | nil => simp [trailing, bracketF, tRB]
    | cons x xs =>
      simp only [szL] at hM
      have h1 := elt_first x (hx x (by simp)) (M := m+1) (by simp only [need]; omega) (trailing gen xs ++ tRB :: rest)
      have hne : ∀ r, gen x ++ tComma :: (trailing gen xs ++ tRB :: rest) ≠ tRB :: r := by
        intro r e
        have := elt_notCloser x (hx x (by simp)) tRB rfl (by decide) (by decide) (tComma :: (trailing gen xs ++ tRB :: rest))
        simp [e, atCloser] at this
      have h2 := elts_items tRB rfl (by decide) (by decide) xs (fun y hy => hx y (by simp [hy])) [x] (m+1) (by omega) rest
      simp only [trailing, List.append_assoc, List.cons_append]
      rw [bracketF_comma _ _ _ _ hne h1, h2]
      simp [tRB]
  · rw [hg]; rfl
  · intro rest _; rw [hg]; rfl

theorem goal_tuple (elts : List PyExpr) (hx : ∀ x ∈ elts, EltGoal x) : ExprGoal (.tuple elts) := by
  have hg : gen (.tuple elts) = tLP :: (trailing gen elts ++ [tRP]) := by simp [gen, trailing_gen]
  refine ⟨?_, ?_, ?_⟩
  · intro M hM rest
    rw [hg]
    simp only [need, sz] at hM
    obtain ⟨m, rfl⟩ : ∃ m, M = m + 1 := ⟨M - 1, by omega⟩
    simp only [List.cons_append, List.append_assoc, List.nil_append, cS, Nat.sub_zero, primaryF_def, atomF, tLP]
    simp only [show (['('] : Str) ≠ ['.', '.', '.'] by decide, if_false, if_true]
    cases elts with
    | nil => simp [trailing, parenF, tRP]
    | cons x xs =>
      simp only [szL] at hM
      have h1 := elt_first x (hx x (by simp)) (M := m+1) (by simp only [need]; omega) (trailing gen xs ++ tRP :: rest)
      have hne : ∀ r, gen x ++ tComma :: (trailing gen xs ++ tRP :: rest) ≠ tRP :: r := by
        intro r e
        have := elt_notCloser x (hx x (by simp)) tRP rfl (by decide) (by decide) (tComma :: (trailing gen xs ++ tRP :: rest))
        simp [e, atCloser] at this
      have hny : ∀ r, gen x ++ tComma :: (trailing gen xs ++ tRP :: rest) ≠ kw cs!"yield" :: r := by
        intro r e
        have := elt_notCloser x (hx x (by simp)) (kw cs!"yield") (by decide) (by decide) (by decide)
          (tComma :: (trailing gen xs ++ tRP :: rest))
        simp [e, atCloser] at this
      have h2 := elts_items tRP rfl (by decide) (by decide) xs (fun y hy => hx y (by simp [hy])) [x] (m+1) (by omega) rest
      simp only [trailing, List.append_assoc, List.cons_append]
      rw [parenF_comma _ _ _ _ hne hny h1, h2]
      simp [tRP]
  · rw [hg]; rfl
  · intro rest _; rw [hg]; rfl

/-! ### dictionary displays -/

def DItemGoal (x : PyExpr) : Prop := ∃ k v, x = .dictItem (some k) v ∧ ExprGoal k ∧ ExprGoal v

theorem itemF_dict_kv (k : Knot) (toks : List Tok) (hne : ∀ r, toks ≠ tDStar :: r) :
    itemF k .dict toks = (k.expr toks).bind fun a =>
      match a.2 with
      | .op [':'] :: r' => (k.expr r').bind fun b => some (.dictItem (some a.1) b.1, b.2)
      | _ => none := by
  simp only [itemF]
  split
  · rename_i r; exact absurd rfl (hne r)
  · rfl

theorem ditem_item (x : PyExpr) (h : DItemGoal x) :
    ItemOK .dict gen x ∧ ∀ rest, atCloser tRC (gen x ++ rest) = false := by
  obtain ⟨k, v, rfl, gk, gv⟩ := h
  have hg : ∀ rest, gen (.dictItem (some k) v) ++ rest = gen k ++ tColon :: (gen v ++ rest) := by
    intro rest; simp [gen, genOpt]
  constructor
  · intro M hM rest hr
    simp only [need, sz, szO] at hM
    obtain ⟨m, rfl⟩ : ∃ m, M = m + 1 := ⟨M - 1, by omega⟩
    have hk := gk.kexpr (M := m+1) (by simp only [need]; omega) (tColon :: (gen v ++ rest)) rfl
    have hv := gv.kexpr (M := m+1) (by simp only [need]; omega) rest (itemEnd_closedE hr)
    have hne : ∀ r, gen k ++ tColon :: (gen v ++ rest) ≠ tDStar :: r := by
      intro r e
      obtain ⟨t, r', h1, h2, _⟩ := head_ne gk.head (tColon :: (gen v ++ rest)) (u := tDStar) rfl
      rw [h1] at e; exact h2 (List.cons.inj e).1
    rw [hg, itemF_dict_kv _ _ hne, hk]
    simp only [Option.bind_some, tColon, hv]
  · intro rest
    rw [hg]
    obtain ⟨t, r', h1, h2, _⟩ := head_ne gk.head (tColon :: (gen v ++ rest)) (u := tRC) rfl
    rw [h1]; simpa [atCloser] using h2

theorem braceF_def (k : Knot) (toks : List Tok) :
    braceF k toks = (k.items .dict tRC [] false toks).bind fun y =>
      match y.2 with
      | .op ['}'] :: r' => some (.dict y.1.1, r')
      | _ => none := rfl

theorem goal_dict (items : List PyExpr) (hx : ∀ x ∈ items, DItemGoal x) : ExprGoal (.dict items) := by
  have hg : gen (.dict items) = tLC :: (trailing gen items ++ [tRC]) := by simp [gen, trailing_gen]
  refine ⟨?_, ?_, ?_⟩
  · intro M hM rest
    rw [hg]
    simp only [need, sz] at hM
    obtain ⟨m, rfl⟩ : ∃ m, M = m + 1 := ⟨M - 1, by omega⟩
    simp only [List.cons_append, List.append_assoc, List.nil_append, cS, Nat.sub_zero, primaryF_def, atomF, tLC]
    simp only [show (['{'] : Str) ≠ ['.', '.', '.'] by decide, show (['{'] : Str) ≠ ['('] by decide,
      show (['{'] : Str) ≠ ['['] by decide, if_false, if_true]
    have := items_trailing .dict gen tRC items (fun x hxm => ditem_item x (hx x hxm)) [] false (m+1) (by omega) rest
    rw [braceF_def, this]
    simp [tRC]
  · rw [hg]; rfl
  · intro rest _; rw [hg]; rfl

/-! ### trailers: attribute access, call, subscript -/

theorem trailersF_attr (k : Knot) (e : PyExpr) (a : Str) (rest : List Tok) :
    trailersF k e (tDot :: .name a :: rest) = k.trailers (.attribute e a) rest := rfl

theorem gen_attribute (v : PyExpr) (a : Str) (h : isIntConst v = false) :
    gen (.attribute v a) = gen v ++ [tDot, .name a] := by
  cases v with
  | const c =>
    obtain ⟨kind, t⟩ := c
    cases kind <;> first | rfl | (simp [isIntConst] at h)
  | _ => rfl

theorem goal_attribute (v : PyExpr) (a : Str) (gv : ExprGoal v) (h : isIntConst v = false) :
    ExprGoal (.attribute v a) := by
  have hg := gen_attribute v a h
  refine ⟨?_, ?_, ?_⟩
  · intro M hM rest
    have h1 := need_ge v
    have h2 := cS_lt_sz v
    simp only [need, sz] at hM
    rw [hg, List.append_assoc, gv.spine M (by simp only [need]; omega)]
    obtain ⟨m, hm⟩ : ∃ m, M - cS v = m + 1 := ⟨M - cS v - 1, by omega⟩
    have : M - cS (.attribute v a) = m := by simp only [cS]; omega
    rw [hm, this, knot_trailers]
    exact trailersF_attr _ _ _ _
  · rw [hg]; exact headOK_append _ gv.head
  · intro rest _
    rw [hg, List.append_assoc]
    exact gv.nokw _ rfl

def KwGoal (x : PyExpr) : Prop := ∃ n v, x = .keyword n v ∧ (∀ s, n = some s → IdentOK s) ∧ ExprGoal v

theorem itemF_args_expr (k : Knot) (toks : List Tok) (h1 : ∀ r, toks ≠ tStar :: r) (h2 : ∀ r, toks ≠ tDStar :: r)
    (h3 : noKwStart toks = true) :
    itemF k .args toks = (k.expr toks).bind fun a =>
      if startsComp a.2 then (k.comps [] a.2).bind fun g => some (.genExp a.1 g.1, g.2) else some (a.1, a.2) := by
  simp only [itemF]
  split
  · rename_i r; exact absurd rfl (h1 r)
  · rename_i r; exact absurd rfl (h2 r)
  · simp [noKwStart] at h3
  · rfl

theorem itemF_args_kw (k : Knot) (n : Str) (r : List Tok) (h : isKeyword n = false) :
    itemF k .args (.name n :: tEq :: r) = (k.expr r).bind fun a => some (.keyword (some n) a.1, a.2) := by
  simp [itemF, tEq, h]

theorem arg_item (x : PyExpr) (h : EltGoal x) :
    ItemOK .args gen x ∧ ∀ rest, atCloser tRP (gen x ++ rest) = false := by
  refine ⟨?_, elt_notCloser x h tRP rfl (by decide) (by decide)⟩
  intro M hM rest hr
  obtain ⟨m, rfl⟩ : ∃ m, M = m + 1 := ⟨M - 1, by omega⟩
  rcases h with ⟨y, rfl, gy⟩ | ⟨_, gx⟩
  · simp only [need, sz] at hM
    have := gy.kexpr (M := m + 1) (by simp only [need]; omega) rest (itemEnd_closedE hr)
    simp only [gen, List.cons_append, tStar, itemF, this, Option.bind_eq_bind, Option.bind_some]
  · have h1 : ∀ r, gen x ++ rest ≠ tStar :: r := by
      intro r e
      obtain ⟨t, r', ht, hne, _⟩ := head_ne gx.head rest (u := tStar) rfl
      rw [ht] at e; exact hne (List.cons.inj e).1
    have h2 : ∀ r, gen x ++ rest ≠ tDStar :: r := by
      intro r e
      obtain ⟨t, r', ht, hne, _⟩ := head_ne gx.head rest (u := tDStar) rfl
      rw [ht] at e; exact hne (List.cons.inj e).1
    rw [itemF_args_expr _ _ h1 h2 (gx.nokw rest (itemEnd_notEq hr)), gx.kexpr (by omega) rest (itemEnd_closedE hr)]
    simp [itemEnd_startsComp hr]

theorem kw_item (x : PyExpr) (h : KwGoal x) :
    ItemOK .args gen x ∧ ∀ rest, atCloser tRP (gen x ++ rest) = false := by
  obtain ⟨n, v, rfl, hn, gv⟩ := h
  cases n with
  | none =>
    constructor
    · intro M hM rest hr
      simp only [need, sz] at hM
      have := gv.kexpr (M := M) (by simp only [need]; omega) rest (itemEnd_closedE hr)
      simp only [gen, List.cons_append, tDStar, itemF, this, Option.bind_eq_bind, Option.bind_some]
    · intro rest; simp [gen, atCloser, tDStar, tRP]
  | some n =>
    constructor
    · intro M hM rest hr
      simp only [need, sz] at hM
      have := gv.kexpr (M := M) (by simp only [need]; omega) rest (itemEnd_closedE hr)
      simp only [gen, List.cons_append]
      rw [itemF_args_kw _ _ _ (hn n rfl), this]
      rfl
    · intro rest; simp [gen, atCloser, tRP]

theorem exprGoal_not_kw {x : PyExpr} (g : ExprGoal x) : isKw x = false := by
  cases x with
  | keyword n v =>
    cases n with
    | none => have := g.head; simp [gen, headOK, atomStart, tDStar] at this
    | some n => have := g.nokw [] rfl; simp [gen, noKwStart, tEq] at this
  | _ => rfl

theorem eltGoal_not_kw {x : PyExpr} (g : EltGoal x) : isKw x = false := by
  rcases g with ⟨y, rfl, _⟩ | ⟨_, gx⟩
  · rfl
  · exact exprGoal_not_kw gx

theorem filter_args (args kws : List PyExpr) (ha : ∀ x ∈ args, isKw x = false) (hk : ∀ x ∈ kws, isKw x = true) :
    (args ++ kws).filter (fun x => !isKw x) = args ∧ (args ++ kws).filter isKw = kws := by
  constructor
  · rw [List.filter_append]
    have h1 : args.filter (fun x => !isKw x) = args := List.filter_eq_self.mpr (fun x hx => by simp [ha x hx])
    have h2 : kws.filter (fun x => !isKw x) = [] := List.filter_eq_nil_iff.mpr (fun x hx => by simp [hk x hx])
    simp [h1, h2]
  · rw [List.filter_append]
    have h1 : args.filter isKw = [] := List.filter_eq_nil_iff.mpr (fun x hx => by simp [ha x hx])
    have h2 : kws.filter isKw = kws := List.filter_eq_self.mpr (fun x hx => hk x hx)
    simp [h1, h2]

theorem trailersF_call (k : Knot) (e : PyExpr) (r : List Tok) :
    trailersF k e (tLP :: r) = (k.items .args tRP [] false r).bind fun y =>
      match y.2 with
      | .op [')'] :: r2 => k.trailers (.call e (y.1.1.filter (fun x => !isKw x)) (y.1.1.filter isKw)) r2
      | _ => none := rfl

theorem szL_append (a b : List PyExpr) : szL (a ++ b) = szL a + szL b := by
  induction a with
  | nil => simp [szL]
  | cons x xs ih => simp [szL, ih]; omega

theorem goal_call (f : PyExpr) (args kws : List PyExpr) (gf : ExprGoal f) (ha : ∀ x ∈ args, EltGoal x)
    (hk : ∀ x ∈ kws, KwGoal x) : ExprGoal (.call f args kws) := by
  have hg : gen (.call f args kws) = gen f ++ tLP :: (sepBy gen (args ++ kws) ++ [tRP]) := by
    simp [gen, ← genList_append, sepBy_gen_tail]
  have hfil := filter_args args kws (fun x hx => eltGoal_not_kw (ha x hx))
    (fun x hx => by obtain ⟨n, v, rfl, _⟩ := hk x hx; rfl)
  refine ⟨?_, ?_, ?_⟩
  · intro M hM rest
    have h1 := need_ge f
    have h2 := cS_lt_sz f
    simp only [need, sz] at hM
    rw [hg, List.append_assoc, gf.spine M (by simp only [need]; omega)]
    obtain ⟨m, hm⟩ : ∃ m, M - cS f = m + 1 := ⟨M - cS f - 1, by omega⟩
    have hcs : M - cS (.call f args kws) = m := by simp only [cS]; omega
    have hfuel : 8 * szL (args ++ kws) + 1 ≤ m := by rw [szL_append]; omega
    rw [hm, hcs, knot_trailers]
    simp only [List.cons_append, List.append_assoc, List.nil_append]
    rw [trailersF_call]
    cases hxs : args ++ kws with
    | nil =>
      obtain ⟨m', rfl⟩ : ∃ m', m = m' + 1 := ⟨m - 1, by omega⟩
      have ha0 : args = [] := by cases args <;> simp_all
      have hk0 : kws = [] := by cases kws <;> simp_all
      subst ha0; subst hk0
      have hat := itemsF_at (knot m') .args tRP [] false (tRP :: rest) rfl
      simp only [tRP] at hat
      simp [sepBy, tRP, hat]
    | cons x xs =>
      have hall : ∀ y ∈ x :: xs, ItemOK .args gen y ∧ ∀ rest, atCloser tRP (gen y ++ rest) = false := by
        intro y hy
        rw [← hxs] at hy
        rcases List.mem_append.mp hy with h | h
        · exact arg_item y (ha y h)
        · exact kw_item y (hk y h)
      obtain ⟨c', hit⟩ := items_sep .args gen tRP (by decide) (fun _ => rfl) xs x hall [] false m
        (by rw [← hxs]; exact hfuel) rest
      rw [hit]
      simp only [Option.bind_some, tRP, List.reverse_nil, List.nil_append]
      rw [← hxs, hfil.1, hfil.2]
  · rw [hg]; exact headOK_append _ gf.head
  · intro rest _
    rw [hg, List.append_assoc]
    exact gf.nokw _ rfl

end Genshi.Py

/-
  Helper lemmas for C08: the round-trip simulations extended by processing
  instructions, DOCTYPE events (written once) and, for xhtml, the XML declaration.
-/
import Genshi.Lemmas.ReaderProlog
namespace Genshi.Reader
open Genshi Genshi.Escape Genshi.Output

theorem ctxAfter_flags (m : Method) (o : Opts) (c : Ctx) (ev : FEv)
    (h1 : ∀ n p s, ev ≠ .doctype n p s) (h2 : ∀ v e s, ev ≠ .xmlDecl v e s) :
    (ctxAfter m o c ev).haveDoctype = c.haveDoctype ∧ (ctxAfter m o c ev).haveDecl = c.haveDecl := by
  cases ev with
  | doctype n p s => exact absurd rfl (h1 n p s)
  | xmlDecl v e s => exact absurd rfl (h2 v e s)
  | start t a => simp only [ctxAfter]; split <;> simp
  | end_ t => simp only [ctxAfter]; split <;> simp
  | startCdata => simp only [ctxAfter]; split <;> simp
  | endCdata => simp only [ctxAfter]; split <;> simp
  | _ => simp [ctxAfter]

/-! ### html -/

/-- specification with PI and DOCTYPE events; `hd`: a DOCTYPE has been written -/
def htmlEvP (r : RS) (hd : Bool) (ev : FEv) : RS × Bool :=
  match ev with
  | .doctype n p s =>
      if hd then (r, hd)
      else (⟨false, ['\n'], .doctype (doctypeContent n p s) :: flushToks r.buf r.toks⟩, true)
  | .pi t d => (⟨false, [], .pi (t ++ ' ' :: d ++ ['?']) :: flushToks r.buf r.toks⟩, hd)
  | _ => (htmlEv r ev, hd)

def HtmlOkP (raw hd : Bool) (ev : FEv) : Prop :=
  match ev with
  | .doctype n p s => raw = false ∧ (hd = false → dtScan false none (doctypeContent n p s) = true)
  | .pi t d => raw = false ∧ piSafe false false (t ++ ' ' :: d) = true
  | _ => HtmlOk raw ev

theorem html_eventP (o : Opts) (r : RS) (hd : Bool) (c : Ctx) (ev : FEv) (hraw : c.raw = r.raw)
    (hhd : c.haveDoctype = hd) (hok : HtmlOkP r.raw hd ev) :
    feed false r.toRSt (emit .html o c ev).flatten = (htmlEvP r hd ev).1.toRSt ∧
    (ctxAfter .html o c ev).raw = (htmlEvP r hd ev).1.raw ∧
    (ctxAfter .html o c ev).haveDoctype = (htmlEvP r hd ev).2 := by
  have other : (∀ n p s, ev ≠ .doctype n p s) → (∀ t d, ev ≠ .pi t d) → HtmlOk r.raw ev →
      htmlEvP r hd ev = (htmlEv r ev, hd) →
      feed false r.toRSt (emit .html o c ev).flatten = (htmlEvP r hd ev).1.toRSt ∧
      (ctxAfter .html o c ev).raw = (htmlEvP r hd ev).1.raw ∧
      (ctxAfter .html o c ev).haveDoctype = (htmlEvP r hd ev).2 := by
    intro h1 _ hk hdef
    have he := html_event o r c ev hraw hk
    have hx : ∀ v e s, ev ≠ .xmlDecl v e s ∨ True := fun _ _ _ => Or.inr trivial
    rw [hdef]
    refine ⟨he.1, he.2, ?_⟩
    cases ev with
    | doctype n p s => exact absurd rfl (h1 n p s)
    | xmlDecl v e s => simp [ctxAfter, hhd]
    | start t a => simp only [ctxAfter]; split <;> simp [hhd]
    | end_ t => simp [ctxAfter, hhd]
    | startCdata => simp [ctxAfter, hhd]
    | endCdata => simp [ctxAfter, hhd]
    | _ => simp [ctxAfter, hhd]
  obtain ⟨rraw, rbuf, rtoks⟩ := r
  cases ev with
  | doctype n p s =>
    obtain ⟨hr, hs⟩ := hok
    simp only at hr; subst hr
    cases hd with
    | true =>
      exact ⟨by simp [emit, hhd, htmlEvP, feed], by simp [ctxAfter, htmlEvP, hraw], by simp [ctxAfter, htmlEvP]⟩
    | false =>
      refine ⟨?_, by simp [ctxAfter, htmlEvP, hraw], by simp [ctxAfter, htmlEvP]⟩
      simp only [emit, hhd, Bool.false_eq_true, ↓reduceIte, flatten_singleton, htmlEvP, toRSt_eq, doctypeOut_eq]
      exact feed_doctype false rbuf rtoks _ (hs rfl)
  | pi t d =>
    obtain ⟨hr, hs⟩ := hok
    simp only at hr; subst hr
    refine ⟨?_, by simp [ctxAfter, htmlEvP, hraw], by simp [ctxAfter, htmlEvP, hhd]⟩
    simp only [emit, flatten_singleton, htmlEvP, toRSt_eq, piOut_eq, Bool.false_eq_true, ↓reduceIte]
    have := feed_pi false rbuf rtoks (t ++ ' ' :: d) hs
    simpa using this
  | start t a => exact other (by intro n p s h; cases h) (by intro t d h; cases h) hok rfl
  | empty t a => exact other (by intro n p s h; cases h) (by intro t d h; cases h) hok rfl
  | end_ t => exact other (by intro n p s h; cases h) (by intro t d h; cases h) hok rfl
  | text s f => exact other (by intro n p s h; cases h) (by intro t d h; cases h) hok rfl
  | comment s => exact other (by intro n p s h; cases h) (by intro t d h; cases h) hok rfl
  | xmlDecl v e s => exact other (by intro n p s h; cases h) (by intro t d h; cases h) hok rfl
  | startNs p u => exact other (by intro n p s h; cases h) (by intro t d h; cases h) hok rfl
  | endNs p => exact other (by intro n p s h; cases h) (by intro t d h; cases h) hok rfl
  | startCdata => exact other (by intro n p s h; cases h) (by intro t d h; cases h) hok rfl
  | endCdata => exact other (by intro n p s h; cases h) (by intro t d h; cases h) hok rfl

/-- the hypotheses along the stream -/
def HtmlOkAllP : Bool → Bool → List FEv → Prop
  | _, _, [] => True
  | raw, hd, ev :: rest => HtmlOkP raw hd ev ∧ HtmlOkAllP (rawAfter raw ev) (hd || isDoctypeEv ev) rest
where isDoctypeEv : FEv → Bool
  | .doctype _ _ _ => true
  | _ => false

theorem htmlEvP_flags (r : RS) (hd : Bool) (ev : FEv) (hok : HtmlOkP r.raw hd ev) :
    (htmlEvP r hd ev).1.raw = rawAfter r.raw ev ∧ (htmlEvP r hd ev).2 = (hd || HtmlOkAllP.isDoctypeEv ev) := by
  cases ev with
  | doctype n p s =>
    have hr : r.raw = false := hok.1
    cases hd <;> simp [htmlEvP, rawAfter, HtmlOkAllP.isDoctypeEv, hr]
  | pi t d =>
    have hr : r.raw = false := hok.1
    simp [htmlEvP, rawAfter, HtmlOkAllP.isDoctypeEv, hr]
  | _ => simp [htmlEvP, htmlEv_raw, HtmlOkAllP.isDoctypeEv]

def foldP (evs : List FEv) (r : RS) (hd : Bool) : RS × Bool :=
  evs.foldl (fun st ev => htmlEvP st.1 st.2 ev) (r, hd)

def rawEndP (raw : Bool) (evs : List FEv) : Bool := evs.foldl rawAfter raw

theorem html_streamP (o : Opts) (evs : List FEv) :
    ∀ (r : RS) (hd : Bool) (c : Ctx), c.raw = r.raw → c.haveDoctype = hd → HtmlOkAllP r.raw hd evs →
      feed false r.toRSt (serSpec .html o c evs).flatten = (foldP evs r hd).1.toRSt ∧
      (foldP evs r hd).1.raw = rawEndP r.raw evs := by
  induction evs with
  | nil => intro r hd c _ _ _; simp [serSpec, feed, foldP, rawEndP]
  | cons ev rest ih =>
    intro r hd c hraw hhd hok
    have he := html_eventP o r hd c ev hraw hhd hok.1
    have hf := htmlEvP_flags r hd ev hok.1
    simp only [serSpec, List.flatten_append, feed_append]
    rw [he.1]
    have := ih (htmlEvP r hd ev).1 (htmlEvP r hd ev).2 _ he.2.1 he.2.2 (by rw [hf.1, hf.2]; exact hok.2)
    simp only [foldP, List.foldl_cons, rawEndP] at this ⊢
    rw [hf.1] at this
    exact this

/-- the tokens `html.parser` must deliver, PI and DOCTYPE events included -/
def htmlExpectedP (evs : List FEv) : List Tok :=
  let r := (foldP evs {} false).1
  (flushToks r.buf r.toks).reverse

theorem html_tokensP (o : Opts) (evs : List FEv) (hok : HtmlOkAllP false false evs)
    (hend : (foldP evs {} false).1.raw = false) :
    tokens false (serSpec .html o {} evs).flatten = some (htmlExpectedP evs) := by
  have h := (html_streamP o evs {} false {} rfl rfl hok).1
  have h0 : ({} : RS).toRSt = ({} : RSt) := rfl
  rw [h0] at h
  unfold tokens htmlExpectedP
  simp only [h]
  generalize (foldP evs {} false).1 = r at hend ⊢
  obtain ⟨rraw, rbuf, rtoks⟩ := r
  simp only at hend
  subst hend
  simp [toRSt_eq, mk, flush_eq]

/-! ### xhtml -/

/-- flags: a DOCTYPE / an XML declaration has been written -/
structure Flags where
  hd : Bool := false
  hx : Bool := false
  deriving DecidableEq, Repr

/-- specification with CDATA sections, PI, DOCTYPE events and the XML declaration -/
def xhtmlEvP (o : Opts) (r : RC) (f : Flags) (ev : FEv) : RC × Flags :=
  match r.cd with
  | some _ => (xhtmlEvC r ev, f)
  | none =>
      match ev with
      | .doctype n p s =>
          if f.hd then (r, f)
          else (⟨none, ['\n'], .doctype (doctypeContent n p s) :: flushToks r.buf r.toks⟩, { f with hd := true })
      | .pi t d => (⟨none, [], .pi (t ++ ' ' :: d) :: flushToks r.buf r.toks⟩, f)
      | .xmlDecl v e s =>
          if f.hx || o.dropXmlDecl then (r, f)
          else (⟨none, ['\n'], .pi (xmlDeclContent v e s) :: flushToks r.buf r.toks⟩, { f with hx := true })
      | _ => (xhtmlEvC r ev, f)

def XhtmlOkP (o : Opts) (inCd : Bool) (f : Flags) (ev : FEv) : Prop :=
  if inCd then XhtmlOkC o true ev
  else
    match ev with
    | .doctype n p s => f.hd = false → dtScan true none (doctypeContent n p s) = true
    | .pi t d => piSafe true false (t ++ ' ' :: d) = true
    | .xmlDecl v e s => (f.hx = false ∧ o.dropXmlDecl = false) → piSafe true false (xmlDeclContent v e s) = true
    | _ => XhtmlOkC o false ev

theorem xhtml_eventP (o : Opts) (r : RC) (f : Flags) (c : Ctx) (ev : FEv)
    (hcd : c.raw = r.cd.isSome) (hhd : c.haveDoctype = f.hd) (hhx : c.haveDecl = f.hx)
    (hb : ∀ b, r.cd = some b → b ≤ 2) (hok : XhtmlOkP o r.cd.isSome f ev) :
    feed true r.toRSt (emit .xhtml o c ev).flatten = (xhtmlEvP o r f ev).1.toRSt ∧
    (ctxAfter .xhtml o c ev).raw = (xhtmlEvP o r f ev).1.cd.isSome ∧
    (ctxAfter .xhtml o c ev).haveDoctype = (xhtmlEvP o r f ev).2.hd ∧
    (ctxAfter .xhtml o c ev).haveDecl = (xhtmlEvP o r f ev).2.hx ∧
    (∀ b, (xhtmlEvP o r f ev).1.cd = some b → b ≤ 2) := by
  -- events handled by the CDATA-aware simulation
  have other : (∀ n p s, ev ≠ .doctype n p s) → (∀ v e s, ev ≠ .xmlDecl v e s) → XhtmlOkC o r.cd.isSome ev →
      xhtmlEvP o r f ev = (xhtmlEvC r ev, f) →
      feed true r.toRSt (emit .xhtml o c ev).flatten = (xhtmlEvP o r f ev).1.toRSt ∧
      (ctxAfter .xhtml o c ev).raw = (xhtmlEvP o r f ev).1.cd.isSome ∧
      (ctxAfter .xhtml o c ev).haveDoctype = (xhtmlEvP o r f ev).2.hd ∧
      (ctxAfter .xhtml o c ev).haveDecl = (xhtmlEvP o r f ev).2.hx ∧
      (∀ b, (xhtmlEvP o r f ev).1.cd = some b → b ≤ 2) := by
    intro h1 h2 hk hdef
    have he := xhtml_eventC o r c ev hcd hb hk
    have hfl := ctxAfter_flags .xhtml o c ev h1 h2
    rw [hdef]
    exact ⟨he.1, he.2.1, by rw [hfl.1]; exact hhd, by rw [hfl.2]; exact hhx, he.2.2⟩
  obtain ⟨rcd, rbuf, rtoks⟩ := r
  cases rcd with
  | some b =>
    have hok' : XhtmlOkC o true ev := by simpa [XhtmlOkP] using hok
    have hdef : xhtmlEvP o ⟨some b, rbuf, rtoks⟩ f ev = (xhtmlEvC ⟨some b, rbuf, rtoks⟩ ev, f) := rfl
    have h1 : ∀ n p s, ev ≠ .doctype n p s := by
      intro n p s h; subst h; simp [XhtmlOkC] at hok'
    have h2 : ∀ v e s, ev ≠ .xmlDecl v e s := by
      intro v e s h; subst h; simp [XhtmlOkC] at hok'
    exact other h1 h2 (by simpa using hok') hdef
  | none =>
    simp only [Option.isSome_none] at hcd
    simp only [XhtmlOkP, Option.isSome_none, Bool.false_eq_true, ↓reduceIte] at hok
    cases ev with
    | doctype n p s =>
      cases hfd : f.hd with
      | true =>
        exact ⟨by simp [emit, hhd, hfd, xhtmlEvP, feed], by simp [ctxAfter, xhtmlEvP, hfd, hcd],
          by simp [ctxAfter, xhtmlEvP, hfd], by simp [ctxAfter, xhtmlEvP, hfd, hhx], by simp [xhtmlEvP, hfd]⟩
      | false =>
        refine ⟨?_, by simp [ctxAfter, xhtmlEvP, hfd, hcd], by simp [ctxAfter, xhtmlEvP, hfd],
          by simp [ctxAfter, xhtmlEvP, hfd, hhx], by simp [xhtmlEvP, hfd]⟩
        simp only [emit, hhd, hfd, Bool.false_eq_true, ↓reduceIte, flatten_singleton, xhtmlEvP, toRSt_none,
          doctypeOut_eq]
        exact feed_doctype true rbuf rtoks _ (hok hfd)
    | pi t d =>
      refine ⟨?_, by simp [ctxAfter, xhtmlEvP, hcd], by simp [ctxAfter, xhtmlEvP, hhd],
        by simp [ctxAfter, xhtmlEvP, hhx], by simp [xhtmlEvP]⟩
      simp only [emit, flatten_singleton, xhtmlEvP, toRSt_none, piOut_eq]
      have := feed_pi true rbuf rtoks (t ++ ' ' :: d) hok
      simpa using this
    | xmlDecl v e s =>
      by_cases hw : (f.hx || o.dropXmlDecl) = true
      · have hw' : (c.haveDecl || o.dropXmlDecl) = true := by rw [hhx]; exact hw
        have hem : emit .xhtml o c (.xmlDecl v e s) = [] := by
          simp only [emit]
          simp only [Bool.or_eq_true] at hw'
          rcases hw' with h | h <;> simp [h]
        have hca : ctxAfter .xhtml o c (.xmlDecl v e s) = (if o.dropXmlDecl then c else { c with haveDecl := true }) := by
          simp [ctxAfter]
        refine ⟨by simp [hem, xhtmlEvP, hw, feed], ?_, ?_, ?_, by simp [xhtmlEvP, hw]⟩
        · rw [hca]; split <;> simp [xhtmlEvP, hw, hcd]
        · rw [hca]; split <;> simp [xhtmlEvP, hw, hhd]
        · rw [hca]
          simp only [Bool.or_eq_true] at hw
          cases hdx : o.dropXmlDecl with
          | true => simp [xhtmlEvP, hdx, hhx]
          | false =>
            have : f.hx = true := by rcases hw with h | h; exact h; simp [hdx] at h
            simp [xhtmlEvP, this]
      · have hw2 : f.hx = false ∧ o.dropXmlDecl = false := by simpa using hw
        have hem : emit .xhtml o c (.xmlDecl v e s) = [xmlDeclOut v e s] := by
          simp [emit, hhx, hw2.1, hw2.2]
        refine ⟨?_, by simp [ctxAfter, hw2.2, xhtmlEvP, hw2.1, hcd], by simp [ctxAfter, hw2.2, xhtmlEvP, hw2.1, hhd],
          by simp [ctxAfter, hw2.2, xhtmlEvP, hw2.1], by simp [xhtmlEvP, hw2.1, hw2.2]⟩
        simp only [hem, flatten_singleton, xhtmlEvP, hw2.1, hw2.2, Bool.or_self, Bool.false_eq_true, ↓reduceIte,
          toRSt_none, xmlDeclOut_eq]
        exact feed_xmlDecl rbuf rtoks _ (hok hw2)
    | start t a => exact other (by intro n p s h; cases h) (by intro v e s h; cases h) (by simpa using hok) rfl
    | empty t a => exact other (by intro n p s h; cases h) (by intro v e s h; cases h) (by simpa using hok) rfl
    | end_ t => exact other (by intro n p s h; cases h) (by intro v e s h; cases h) (by simpa using hok) rfl
    | text s f' => exact other (by intro n p s h; cases h) (by intro v e s h; cases h) (by simpa using hok) rfl
    | comment s => exact other (by intro n p s h; cases h) (by intro v e s h; cases h) (by simpa using hok) rfl
    | startNs p u => exact other (by intro n p s h; cases h) (by intro v e s h; cases h) (by simpa using hok) rfl
    | endNs p => exact other (by intro n p s h; cases h) (by intro v e s h; cases h) (by simpa using hok) rfl
    | startCdata => exact other (by intro n p s h; cases h) (by intro v e s h; cases h) (by simpa using hok) rfl
    | endCdata => exact other (by intro n p s h; cases h) (by intro v e s h; cases h) (by simpa using hok) rfl

/-- flags behind an event -/
def flagsAfter (o : Opts) (inCd : Bool) (f : Flags) : FEv → Flags
  | .doctype _ _ _ => if inCd then f else { f with hd := true }
  | .xmlDecl _ _ _ => if inCd || f.hx || o.dropXmlDecl then f else { f with hx := true }
  | _ => f

def XhtmlOkAllP (o : Opts) : Bool → Flags → List FEv → Prop
  | _, _, [] => True
  | inCd, f, ev :: rest => XhtmlOkP o inCd f ev ∧ XhtmlOkAllP o (cdAfter inCd ev) (flagsAfter o inCd f ev) rest

theorem xhtmlEvP_flags (o : Opts) (r : RC) (f : Flags) (ev : FEv) (hok : XhtmlOkP o r.cd.isSome f ev) :
    (xhtmlEvP o r f ev).1.cd.isSome = cdAfter r.cd.isSome ev ∧ (xhtmlEvP o r f ev).2 = flagsAfter o r.cd.isSome f ev := by
  obtain ⟨rcd, rbuf, rtoks⟩ := r
  cases rcd with
  | some b =>
    have hok' : XhtmlOkC o true ev := by simpa [XhtmlOkP] using hok
    have h1 := xhtmlEvC_cd ⟨some b, rbuf, rtoks⟩ ev o (by simpa using hok')
    refine ⟨by simpa [xhtmlEvP] using h1, ?_⟩
    cases ev <;> simp_all [xhtmlEvP, flagsAfter, XhtmlOkC]
  | none =>
    simp only [XhtmlOkP, Option.isSome_none, Bool.false_eq_true, ↓reduceIte] at hok
    cases ev with
    | doctype n p s => obtain ⟨fhd, fhx⟩ := f; cases fhd <;> simp [xhtmlEvP, cdAfter, flagsAfter]
    | pi t d => simp [xhtmlEvP, cdAfter, flagsAfter]
    | xmlDecl v e s =>
      by_cases hw : (f.hx || o.dropXmlDecl) = true <;> simp [xhtmlEvP, hw, cdAfter, flagsAfter]
    | start t a => exact ⟨xhtmlEvC_cd _ _ o (by simpa using hok), rfl⟩
    | empty t a => exact ⟨xhtmlEvC_cd _ _ o (by simpa using hok), rfl⟩
    | end_ t => exact ⟨xhtmlEvC_cd _ _ o (by simpa using hok), rfl⟩
    | text s f' => exact ⟨xhtmlEvC_cd _ _ o (by simpa using hok), rfl⟩
    | comment s => exact ⟨xhtmlEvC_cd _ _ o (by simpa using hok), rfl⟩
    | startNs p u => exact ⟨xhtmlEvC_cd _ _ o (by simpa using hok), rfl⟩
    | endNs p => exact ⟨xhtmlEvC_cd _ _ o (by simpa using hok), rfl⟩
    | startCdata => exact ⟨xhtmlEvC_cd _ _ o (by simpa using hok), rfl⟩
    | endCdata => exact ⟨xhtmlEvC_cd _ _ o (by simpa using hok), rfl⟩

def foldXP (o : Opts) (evs : List FEv) (r : RC) (f : Flags) : RC × Flags :=
  evs.foldl (fun st ev => xhtmlEvP o st.1 st.2 ev) (r, f)

theorem xhtml_streamP (o : Opts) (evs : List FEv) :
    ∀ (r : RC) (f : Flags) (c : Ctx), c.raw = r.cd.isSome → c.haveDoctype = f.hd → c.haveDecl = f.hx →
      (∀ b, r.cd = some b → b ≤ 2) → XhtmlOkAllP o r.cd.isSome f evs →
      feed true r.toRSt (serSpec .xhtml o c evs).flatten = (foldXP o evs r f).1.toRSt := by
  induction evs with
  | nil => intro r f c _ _ _ _ _; simp [serSpec, feed, foldXP]
  | cons ev rest ih =>
    intro r f c hcd hhd hhx hb hok
    have he := xhtml_eventP o r f c ev hcd hhd hhx hb hok.1
    have hf := xhtmlEvP_flags o r f ev hok.1
    simp only [serSpec, List.flatten_append, feed_append]
    rw [he.1]
    have := ih (xhtmlEvP o r f ev).1 (xhtmlEvP o r f ev).2 _ he.2.1 he.2.2.1 he.2.2.2.1 he.2.2.2.2
      (by rw [hf.1, hf.2]; exact hok.2)
    simpa [foldXP] using this

/-- the tokens the XML tokenizer must deliver for the whole output language -/
def xhtmlExpectedP (o : Opts) (evs : List FEv) : List Tok :=
  let r := (foldXP o evs {} {}).1
  (flushToks r.buf r.toks).reverse

theorem xhtml_tokensP (o : Opts) (evs : List FEv) (hok : XhtmlOkAllP o false {} evs)
    (hend : (foldXP o evs {} {}).1.cd = none) :
    tokens true (serSpec .xhtml o {} evs).flatten = some (xhtmlExpectedP o evs) := by
  have h := xhtml_streamP o evs {} {} {} rfl rfl rfl (by intro b hb; cases hb) hok
  have h0 : ({} : RC).toRSt = ({} : RSt) := rfl
  rw [h0] at h
  unfold tokens xhtmlExpectedP
  simp only [h]
  generalize (foldXP o evs {} {}).1 = r at hend ⊢
  obtain ⟨rcd, rbuf, rtoks⟩ := r
  simp only at hend
  subst hend
  simp [toRSt_none, mk, flush_eq]

end Genshi.Reader

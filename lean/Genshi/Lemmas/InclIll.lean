/-
  C11: preparation that fails part-way.  `pcN/pcL/pcT` (the loader's cache after a preparation, success
  or failure) keep the cache a cache of prepared forms — for file sets that may contain ill-formed
  templates (`inHW`) — and the only error a preparation raises there is the syntax error.
-/
import Genshi.Lemmas.InclPrep
namespace Genshi.Incl

theorem find_fileOkW {T : List Name} {files : Files} (hH : inHW T files = true) {n : Name} {f : File}
    (h : files.find n = some f) : fileOkW T files f = true := by
  obtain ⟨d, hd, hm⟩ := find_mem h
  simp only [inHW, List.all_eq_true] at hH
  exact hH d hd (n, f) hm

theorem fileOkW_of_fileOk {T : List Name} {files : Files} {f : File} (h : fileOk T files f = true) :
    fileOkW T files f = true := by
  unfold fileOk at h
  unfold fileOkW
  cases hb : f.body with
  | none => rfl
  | some b => simpa [hb] using h

theorem inHW_of_inH {T : List Name} {files : Files} (h : inH T files = true) : inHW T files = true := by
  simp only [inH, List.all_eq_true] at h
  simp only [inHW, List.all_eq_true]
  intro d hd e he
  exact fileOkW_of_fileOk (h d hd e he)

/-- outcome of a preparation together with the cache it leaves when it fails: a prepared form and a sound
cache, or the syntax error and a sound cache -/
def POut (T : List Name) (files : Files) (z : Bool) (raw : List Node) (x : Res (List Node × Cache)) (cf : Cache) : Prop :=
  match x with
  | .ok r => PrepL T files z raw r.1 ∧ CacheInv T files r.2
  | .err e => e = .syntaxErr ∧ CacheInv T files cf
  | .fuel => False

theorem POut.wrap {T files z z' raw raw'} {x : Res (List Node × Cache)} {cf : Cache} (g : List Node → List Node)
    (h : POut T files z' raw x cf) (hg : ∀ b', PrepL T files z' raw b' → PrepL T files z raw' (g b')) :
    POut T files z raw' (x.bind fun r => .ok (g r.1, r.2)) cf := by
  cases x with
  | fuel => exact h
  | err e => exact h
  | ok r => exact ⟨hg _ h.1, h.2⟩

theorem POut.mono {T files z z' raw raw'} {x : Res (List Node × Cache)} {cf : Cache}
    (h : POut T files z' raw x cf) (hg : ∀ b', PrepL T files z' raw b' → PrepL T files z raw' b') :
    POut T files z raw' x cf := by
  cases x with
  | fuel => exact h
  | err e => exact h
  | ok r => exact ⟨hg _ h.1, h.2⟩

/-- what preparing a node list needs from "prepare another template" under guard set `inl` -/
def PJSpecW (T : List Name) (files : Files) (J : PJ) (JC : PCJ) (inl : List Name) : Prop :=
  ∀ name c k body, name ∉ inl → files.find name = some ⟨k, some body⟩ → CacheInv T files c →
    POut T files false body (J (name :: inl) name c) (JC (name :: inl) name c)

section unfoldPC
variable (files : Files) (J : PJ) (JC : PCJ) (inl : List Name) (c : Cache)

theorem pcL_nil : pcL files J JC inl [] c = c := rfl
theorem pcL_cons (n : Node) (ns : List Node) :
    pcL files J JC inl (n :: ns) c =
      match prepN files J inl n c with
      | .ok r => pcL files J JC inl ns r.2
      | _ => pcN files J JC inl n c := rfl
theorem pcN_elem (t : Name) (b : List Node) : pcN files J JC inl (.elem t b) c = pcL files J JC inl b c := rfl
theorem pcN_cond (cd : Cond) (b : List Node) : pcN files J JC inl (.cond cd b) c = pcL files J JC inl b c := rfl
theorem pcN_loop (x xs : Name) (b : List Node) : pcN files J JC inl (.loop x xs b) c = pcL files J JC inl b c := rfl
theorem pcN_defn (m : Name) (b : List Node) : pcN files J JC inl (.defn m b) c = pcL files J JC inl b c := rfl
theorem pcN_matchT (t : Name) (b : List Node) : pcN files J JC inl (.matchT t b) c = pcL files J JC inl b c := rfl
theorem pcN_inlined (b : List Node) : pcN files J JC inl (.inlined b) c = pcL files J JC inl b c := rfl
theorem pcN_dyn (ps : List Part) (cls : Kind) (hasFb : Bool) (fb : List Node) (pos : Name) :
    pcN files J JC inl (.include (.dyn ps) cls hasFb fb pos) c = pcL files J JC inl fb c := rfl
theorem pcN_static (h : List Char) (cls : Kind) (hasFb : Bool) (fb : List Node) (pos : Name) :
    pcN files J JC inl (.include (.static h) cls hasFb fb pos) c =
      match resolve pos h with
      | none => c
      | some name =>
        match files.find name with
        | none => pcL files J JC inl fb c
        | some f =>
          if f.kind ≠ cls then c
          else match f.body with
            | none => c
            | some _ => if name ∈ inl then pcL files J JC inl fb c else JC (name :: inl) name c := rfl
end unfoldPC

mutual
theorem prepN_okW {T : List Name} {files : Files} (hH : inHW T files = true) {J : PJ} {JC : PCJ} {inl : List Name}
    (hJ : PJSpecW T files J JC inl) : ∀ (n : Node) (z : Bool) (c : Cache),
    tagsOkN T n = true → zoneFreeN files T z n = true → clsOkN files n = true → CacheInv T files c →
    POut T files z [n] (prepN files J inl n c) (pcN files J JC inl n c)
  | .text s, z, c, _, _, _, hc => by show _ ∧ _; exact ⟨.text .nil, hc⟩
  | .var x, z, c, _, _, _, hc => by show _ ∧ _; exact ⟨.var .nil, hc⟩
  | .select, z, c, _, _, _, hc => by show _ ∧ _; exact ⟨.select .nil, hc⟩
  | .call m, z, c, _, hz, _, hc => by
    simp only [zoneFreeN, Bool.not_eq_true'] at hz
    subst hz
    show _ ∧ _; exact ⟨.call .nil, hc⟩
  | .elem t b, z, c, ht, hz, hk, hc => by
    simp only [tagsOkN] at ht; simp only [zoneFreeN] at hz; simp only [clsOkN] at hk
    rw [prepN_elem, pcN_elem]
    exact (prepL_okW hH hJ b _ c ht hz hk hc).wrap (fun b' => [.elem t b']) (fun _ hp => .elem hp .nil)
  | .cond cd b, z, c, ht, hz, hk, hc => by
    simp only [tagsOkN] at ht; simp only [zoneFreeN] at hz; simp only [clsOkN] at hk
    rw [prepN_cond, pcN_cond]
    exact (prepL_okW hH hJ b _ c ht hz hk hc).wrap (fun b' => [.cond cd b']) (fun _ hp => .cond hp .nil)
  | .loop x xs b, z, c, ht, hz, hk, hc => by
    simp only [tagsOkN] at ht; simp only [zoneFreeN] at hz; simp only [clsOkN] at hk
    rw [prepN_loop, pcN_loop]
    exact (prepL_okW hH hJ b _ c ht hz hk hc).wrap (fun b' => [.loop x xs b']) (fun _ hp => .loop hp .nil)
  | .defn m b, z, c, ht, hz, hk, hc => by
    simp only [tagsOkN] at ht; simp only [zoneFreeN] at hz; simp only [clsOkN] at hk
    rw [prepN_defn, pcN_defn]
    exact (prepL_okW hH hJ b _ c ht hz hk hc).wrap (fun b' => [.defn m b']) (fun _ hp => .defn hp .nil)
  | .matchT t b, z, c, ht, hz, hk, hc => by
    simp only [tagsOkN, Bool.and_eq_true, decide_eq_true_eq] at ht
    simp only [zoneFreeN] at hz; simp only [clsOkN] at hk
    rw [prepN_matchT, pcN_matchT]
    exact (prepL_okW hH hJ b _ c ht.2 hz hk hc).wrap (fun b' => [.matchT t b']) (fun _ hp => .matchT ht.1 hp .nil)
  | .inlined b, z, c, ht, hz, hk, hc => by
    simp only [tagsOkN] at ht; simp only [zoneFreeN] at hz; simp only [clsOkN] at hk
    rw [prepN_inlined, pcN_inlined]
    exact (prepL_okW hH hJ b _ c ht hz hk hc).wrap (fun b' => [.inlined b']) (fun _ hp => .inlined hp .nil)
  | .include (.dyn ps) cls hasFb fb pos, z, c, ht, hz, hk, hc => by
    simp only [tagsOkN] at ht; simp only [zoneFreeN] at hz; simp only [clsOkN] at hk
    rw [prepN_dyn, pcN_dyn]
    exact (prepL_okW hH hJ fb _ c ht hz hk hc).wrap (fun b' => [.include (.dyn ps) cls hasFb b' pos])
      (fun _ hp => .keep hp .nil)
  | .include (.static h) cls hasFb fb pos, z, c, ht, hz, hk, hc => by
    simp only [tagsOkN] at ht
    simp only [zoneFreeN, Bool.and_eq_true, Bool.or_eq_true, Bool.not_eq_true'] at hz
    simp only [clsOkN, Bool.and_eq_true] at hk
    obtain ⟨hz0, hzfb⟩ := hz
    obtain ⟨hcls, hkfb⟩ := hk
    have ihfb := prepL_okW hH hJ fb false c ht hzfb hkfb hc
    rw [prepN_static, pcN_static]
    cases hres : resolve pos h with
    | none => simp [hres] at hcls
    | some name =>
      simp only [hres] at hcls ⊢
      cases hfind : files.find name with
      | none =>
        simp only
        cases hasFb with
        | true =>
          simp only [if_true]
          refine ihfb.mono fun fb' hp => ?_
          have hw : z = true → winfreeL T fb = true := by
            intro hzt
            rcases hz0 with hz0 | hz0
            · rw [hzt] at hz0; cases hz0
            · simpa [zoneTargetOk, hres, hfind] using hz0
          have := PrepL.inlineMissing (c := cls) hres hfind hw hp (.nil (T := T) (files := files) (z := z))
          simpa using this
        | false =>
          simp only [Bool.false_eq_true, if_false]
          exact ihfb.wrap (fun b' => [.include (.static h) cls false b' pos]) (fun _ hp => .keep hp .nil)
      | some f =>
        obtain ⟨fk, fbody⟩ := f
        simp only [hfind, decide_eq_true_eq] at hcls
        subst hcls
        have hok := find_fileOkW hH hfind
        cases fbody with
        | none =>
          simp only [ne_eq, not_true_eq_false, if_false]
          exact ⟨rfl, hc⟩
        | some body =>
          simp only [ne_eq, not_true_eq_false, if_false]
          by_cases hin : name ∈ inl
          · simp only [hin, if_true]
            exact ihfb.wrap (fun b' => [.include (.static h) fk hasFb b' pos]) (fun _ hp => .keep hp .nil)
          · simp only [hin, if_false]
            have hw : z = true → winfreeL T body = true := by
              intro hzt
              rcases hz0 with hz0 | hz0
              · rw [hzt] at hz0; cases hz0
              · simpa [zoneTargetOk, hres, hfind] using hz0
            exact (hJ name c fk body hin hfind hc).wrap (fun b' => [.inlined b'])
              (fun _ hpb => .inlineFound hres hfind hw hpb .nil)
termination_by structural n => n
theorem prepL_okW {T : List Name} {files : Files} (hH : inHW T files = true) {J : PJ} {JC : PCJ} {inl : List Name}
    (hJ : PJSpecW T files J JC inl) : ∀ (ns : List Node) (z : Bool) (c : Cache),
    tagsOkL T ns = true → zoneFreeL files T z ns = true → clsOkL files ns = true → CacheInv T files c →
    POut T files z ns (prepL files J inl ns c) (pcL files J JC inl ns c)
  | [], z, c, _, _, _, hc => by show _ ∧ _; exact ⟨.nil, hc⟩
  | n :: ns, z, c, ht, hz, hk, hc => by
    simp only [tagsOkL, Bool.and_eq_true] at ht
    simp only [zoneFreeL, Bool.and_eq_true] at hz
    simp only [clsOkL, Bool.and_eq_true] at hk
    have h1 := prepN_okW hH hJ n z c ht.1 hz.1 hk.1 hc
    rw [prepL_cons, pcL_cons]
    cases hn : prepN files J inl n c with
    | fuel => rw [hn] at h1; exact h1
    | err e => rw [hn] at h1; exact h1
    | ok r1 =>
      rw [hn] at h1
      have h2 := prepL_okW hH hJ ns z r1.2 ht.2 hz.2 hk.2 h1.2
      simp only [Res.bind_ok]
      refine h2.wrap (fun b' => r1.1 ++ b') (fun b' hp2 => ?_)
      have := PrepL.append h1.1 hp2
      simpa using this
termination_by structural ns => ns
end

theorem prepT_okW {T : List Name} {files : Files} (hH : inHW T files = true) :
    ∀ (f : Nat) (inl : List Name) (name : Name) (c : Cache) (k : Kind) (body : List Node),
      rem files inl < f → files.find name = some ⟨k, some body⟩ → CacheInv T files c →
      POut T files false body (prepT files f inl name c) (pcT files f inl name c)
  | 0, _, _, _, _, _, h, _, _ => by omega
  | f + 1, inl, name, c, k, body, hf, hfind, hc => by
    simp only [prepT, pcT]
    cases hl : c.lookup name with
    | some b =>
      obtain ⟨k0, body0, hfind0, hp0⟩ := hc name b (lookup_mem hl)
      rw [hfind] at hfind0
      cases hfind0
      exact ⟨hp0, hc⟩
    | none =>
      simp only [hfind]
      have hok := find_fileOkW hH hfind
      simp only [fileOkW, Bool.and_eq_true] at hok
      have hJ : PJSpecW T files (prepT files f) (pcT files f) inl := by
        intro name' c1 k' body' hn' hfind' hc1
        exact prepT_okW hH f (name' :: inl) name' c1 k' body'
          (by have := rem_lt hn' (find_mem_names hfind'); omega) hfind' hc1
      have h := prepL_okW hH hJ body false c hok.1.1.1 hok.1.1.2 hok.1.2 hc
      cases hx : prepL files (prepT files f) inl body c with
      | fuel => rw [hx] at h; exact h
      | err e => rw [hx] at h; exact h
      | ok r =>
        rw [hx] at h
        refine ⟨h.1, ?_⟩
        intro n bb hm
        rcases List.mem_cons.mp hm with heq | hm'
        · cases heq
          exact ⟨k, body, hfind, h.1⟩
        · exact h.2 n bb hm'

/-- loading in inline mode from a file set that may contain ill-formed templates: a prepared form of what
run-time mode loads, or the syntax error (raised while preparing); in both cases the loader's cache stays a
cache of prepared forms -/
def LoadOKW (T : List Name) (files : Files) : Prop :=
  ∀ name cls c, CacheInv T files c →
    match loadRaw files name cls with
    | .ok body => POut T files false body (loadInl files name cls c) (loadInlC files name cls c)
    | .err e => loadInl files name cls c = .err e ∧ loadInlC files name cls c = c
    | .fuel => False

theorem loadOKW_of_inHW {T : List Name} {files : Files} (hH : inHW T files = true) : LoadOKW T files := by
  intro name cls c hc
  simp only [loadRaw, loadInl, loadInlC]
  cases hfind : files.find name with
  | none => exact ⟨rfl, rfl⟩
  | some f =>
    obtain ⟨fk, fbody⟩ := f
    simp only
    by_cases hk : fk = cls
    · subst hk
      simp only [ne_eq, not_true_eq_false, if_false]
      cases fbody with
      | none => exact ⟨rfl, rfl⟩
      | some body =>
        simp only
        exact prepT_okW hH (prepFuel files) [name] name c fk body
          (by have := rem_le_names files [name]; simp only [prepFuel]; omega) hfind hc
    · simp [hk]

/-- the cache after a load — returned or raised — is a cache of prepared forms -/
theorem loadInl_cache_inv {T : List Name} {files : Files} (hH : inHW T files = true) (name : Name) (cls : Kind)
    (c : Cache) (hc : CacheInv T files c) :
    CacheInv T files (match loadInl files name cls c with | .ok r => r.2 | _ => loadInlC files name cls c) := by
  have hl := loadOKW_of_inHW hH name cls c hc
  cases hraw : loadRaw files name cls with
  | fuel => simp [hraw] at hl
  | err e =>
    simp only [hraw] at hl
    rw [hl.1, hl.2]; exact hc
  | ok body =>
    simp only [hraw] at hl
    cases hx : loadInl files name cls c with
    | fuel => rw [hx] at hl; exact hl.elim
    | err e => rw [hx] at hl; exact hl.2
    | ok r => rw [hx] at hl; exact hl.2

theorem replayLoads_invW {T : List Name} {files : Files} (hH : inHW T files = true) :
    ∀ (ls : List Load) (c : Cache), CacheInv T files c → CacheInv T files (replayLoads files c ls)
  | [], c, hc => hc
  | l :: ls, c, hc => by
    have h := loadInl_cache_inv hH l.1 l.2 c hc
    simp only [replayLoads]
    cases hx : loadInl files l.1 l.2 c with
    | fuel => rw [hx] at h; exact replayLoads_invW hH ls _ h
    | err e => rw [hx] at h; exact replayLoads_invW hH ls _ h
    | ok r => rw [hx] at h; exact replayLoads_invW hH ls _ h

/-! ## the cache-after functions agree with the preparation where it succeeds (every file set) -/

def PCAgree (J : PJ) (JC : PCJ) : Prop :=
  ∀ inl name c r, J inl name c = .ok r → JC inl name c = r.2

theorem bind_wrap_ok {x : Res (List Node × Cache)} {g : List Node → List Node} {r : List Node × Cache}
    (h : (x.bind fun r => .ok (g r.1, r.2)) = .ok r) : ∃ r0, x = .ok r0 ∧ r.2 = r0.2 := by
  cases x with
  | fuel => simp at h
  | err e => simp at h
  | ok r0 =>
    simp only [Res.bind_ok, Res.ok.injEq] at h
    exact ⟨r0, rfl, by rw [← h]⟩

theorem pcL_agree (files : Files) {J : PJ} {JC : PCJ} (hJ : PCAgree J JC) (inl : List Name) :
    ∀ (ns : List Node) (c : Cache) (r : List Node × Cache), prepL files J inl ns c = .ok r → pcL files J JC inl ns c = r.2
  | [], c, r, h => by cases h; rfl
  | n :: ns, c, r, h => by
    rw [prepL_cons] at h
    rw [pcL_cons]
    cases hn : prepN files J inl n c with
    | fuel => simp [hn] at h
    | err e => simp [hn] at h
    | ok r1 =>
      simp only [hn, Res.bind_ok] at h ⊢
      obtain ⟨r0, h0, he⟩ := bind_wrap_ok (g := fun b' => r1.1 ++ b') h
      rw [he]; exact pcL_agree files hJ inl ns r1.2 r0 h0


theorem pcN_agree (files : Files) {J : PJ} {JC : PCJ} (hJ : PCAgree J JC) (inl : List Name) :
    ∀ (n : Node) (c : Cache) (r : List Node × Cache), prepN files J inl n c = .ok r → pcN files J JC inl n c = r.2
  | .text s, c, r, h => by cases h; rfl
  | .var x, c, r, h => by cases h; rfl
  | .call m, c, r, h => by cases h; rfl
  | .select, c, r, h => by cases h; rfl
  | .elem t b, c, r, h => by
    rw [prepN_elem] at h; obtain ⟨r0, h0, he⟩ := bind_wrap_ok (g := fun b' => [.elem t b']) h
    rw [pcN_elem, he]; exact pcL_agree files hJ inl b c r0 h0
  | .cond cd b, c, r, h => by
    rw [prepN_cond] at h; obtain ⟨r0, h0, he⟩ := bind_wrap_ok (g := fun b' => [.cond cd b']) h
    rw [pcN_cond, he]; exact pcL_agree files hJ inl b c r0 h0
  | .loop x xs b, c, r, h => by
    rw [prepN_loop] at h; obtain ⟨r0, h0, he⟩ := bind_wrap_ok (g := fun b' => [.loop x xs b']) h
    rw [pcN_loop, he]; exact pcL_agree files hJ inl b c r0 h0
  | .defn m b, c, r, h => by
    rw [prepN_defn] at h; obtain ⟨r0, h0, he⟩ := bind_wrap_ok (g := fun b' => [.defn m b']) h
    rw [pcN_defn, he]; exact pcL_agree files hJ inl b c r0 h0
  | .matchT t b, c, r, h => by
    rw [prepN_matchT] at h; obtain ⟨r0, h0, he⟩ := bind_wrap_ok (g := fun b' => [.matchT t b']) h
    rw [pcN_matchT, he]; exact pcL_agree files hJ inl b c r0 h0
  | .inlined b, c, r, h => by
    rw [prepN_inlined] at h; obtain ⟨r0, h0, he⟩ := bind_wrap_ok (g := fun b' => [.inlined b']) h
    rw [pcN_inlined, he]; exact pcL_agree files hJ inl b c r0 h0
  | .include (.dyn ps) cls hasFb fb pos, c, r, h => by
    rw [prepN_dyn] at h
    obtain ⟨r0, h0, he⟩ := bind_wrap_ok (g := fun b' => [.include (.dyn ps) cls hasFb b' pos]) h
    rw [pcN_dyn, he]; exact pcL_agree files hJ inl fb c r0 h0
  | .include (.static hh) cls hasFb fb pos, c, r, h => by
    rw [prepN_static] at h
    rw [pcN_static]
    cases hres : resolve pos hh with
    | none => simp [hres] at h
    | some name =>
      simp only [hres] at h ⊢
      cases hfind : files.find name with
      | none =>
        simp only [hfind] at h ⊢
        cases hasFb with
        | true =>
          simp only [if_true] at h
          exact pcL_agree files hJ inl fb c r h
        | false =>
          simp only [Bool.false_eq_true, if_false] at h
          obtain ⟨r0, h0, he⟩ := bind_wrap_ok (g := fun b' => [.include (.static hh) cls false b' pos]) h
          rw [he]; exact pcL_agree files hJ inl fb c r0 h0
      | some f =>
        simp only [hfind] at h ⊢
        by_cases hk : f.kind = cls
        · simp only [hk, ne_eq, not_true_eq_false, if_false] at h ⊢
          cases hb : f.body with
          | none => simp [hb] at h
          | some body =>
            simp only [hb] at h ⊢
            by_cases hin : name ∈ inl
            · simp only [hin, if_true] at h ⊢
              obtain ⟨r0, h0, he⟩ := bind_wrap_ok (g := fun b' => [.include (.static hh) cls hasFb b' pos]) h
              rw [he]; exact pcL_agree files hJ inl fb c r0 h0
            · simp only [hin, if_false] at h ⊢
              obtain ⟨r0, h0, he⟩ := bind_wrap_ok (g := fun b' => [.inlined b']) h
              rw [he]; exact hJ _ _ _ _ h0
        · simp [hk] at h

theorem pcT_agree (files : Files) : ∀ f : Nat, PCAgree (prepT files f) (pcT files f)
  | 0 => by intro inl name c r h; simp [prepT] at h
  | f + 1 => by
    intro inl name c r h
    simp only [prepT] at h
    simp only [pcT]
    cases hl : c.lookup name with
    | some b => simp only [hl] at h; cases h; rfl
    | none =>
      simp only [hl] at h
      cases hfind : files.find name with
      | none => simp [hfind] at h
      | some ff =>
        obtain ⟨k, fb⟩ := ff
        cases fb with
        | none => simp [hfind] at h
        | some body =>
          simp only [hfind] at h
          cases hx : prepL files (prepT files f) inl body c with
          | fuel => simp [hx] at h
          | err e => simp [hx] at h
          | ok r0 =>
            simp only [hx, Res.bind_ok, Res.ok.injEq] at h
            simp only [hx]
            rw [← h]

/-- where the load returns, the cache-after function is the cache it returns -/
theorem loadInlC_agree (files : Files) (name : Name) (cls : Kind) (c : Cache) (r : List Node × Cache)
    (h : loadInl files name cls c = .ok r) : loadInlC files name cls c = r.2 := by
  simp only [loadInl] at h
  simp only [loadInlC]
  cases hfind : files.find name with
  | none => simp [hfind] at h
  | some f =>
    simp only [hfind] at h ⊢
    by_cases hk : f.kind = cls
    · simp only [hk, ne_eq, not_true_eq_false, if_false] at h ⊢
      cases hb : f.body with
      | none => simp [hb] at h
      | some body =>
        simp only [hb] at h ⊢
        exact pcT_agree files _ _ _ _ _ h
    · simp [hk] at h

end Genshi.Incl

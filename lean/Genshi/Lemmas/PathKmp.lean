/-
  The combinatorics behind SimplePathStrategy's KMP matching: prefixes of the fragment that
  are suffixes of the text read so far, borders, the failure function `calculate_pi`, and the
  back-stepping loop that both `calculate_pi` and the matcher run.
-/
import Genshi.Model.PathStrategy
namespace Genshi.Path.Kmp
open Genshi Genshi.Path

/-- the node tests SimplePathStrategy supports -/
def simpleT : NodeTest → Bool
  | .localName false _ | .comment | .text => true
  | _ => false

theorem simpleT_cases (t : NodeTest) (h : simpleT t = true) :
    (∃ n, t = .localName false n) ∨ t = .comment ∨ t = .text := by
  cases t with
  | localName b n => cases b <;> simp_all [simpleT]
  | comment => exact Or.inr (Or.inl rfl)
  | text => exact Or.inr (Or.inr rfl)
  | _ => simp [simpleT] at h

theorem nodesEqual_refl (t : NodeTest) (h : simpleT t = true) : nodesEqual t t = true := by
  cases t <;> simp_all [simpleT, nodesEqual]

theorem nodesEqual_symm (t u : NodeTest) (h : nodesEqual t u = true) : nodesEqual u t = true := by
  cases t <;> cases u <;> simp_all [nodesEqual]

theorem nodesEqual_trans (t u v : NodeTest) (h1 : nodesEqual t u = true) (h2 : nodesEqual u v = true) :
    nodesEqual t v = true := by
  cases t <;> cases u <;> simp_all [nodesEqual] <;> cases v <;> simp_all [nodesEqual]

/-- a text symbol: which tests it satisfies -/
abbrev Sym := NodeTest → Bool

/-- a symbol treats equal tests alike, and tests satisfied by one symbol are equal -/
structure Compat (σ : Sym) : Prop where
  congr : ∀ t u, simpleT t = true → simpleT u = true → nodesEqual t u = true → σ t = σ u
  eqv : ∀ t u, simpleT t = true → simpleT u = true → σ t = true → σ u = true → nodesEqual t u = true

section
variable (F : Nat → NodeTest) (n : Nat)

/-- the prefix of length `b` of the fragment matches the last `b` symbols of the text
    (`τ k` = the symbol `k` steps back, `L` = length of the text) -/
def Suf (τ : Nat → Sym) (L b : Nat) : Prop :=
  b ≤ n ∧ b ≤ L ∧ ∀ i, i < b → τ (b - 1 - i) (F i) = true

theorem Suf.zero (τ : Nat → Sym) (L : Nat) : Suf F n τ L 0 := ⟨Nat.zero_le _, Nat.zero_le _, fun i hi => by omega⟩

/-- the text extended by one symbol -/
def push (σ : Sym) (τ : Nat → Sym) : Nat → Sym
  | 0 => σ
  | k + 1 => τ k

theorem Suf_push (σ : Sym) (τ : Nat → Sym) (L b : Nat) :
    Suf F n (push σ τ) (L + 1) (b + 1) ↔ (b < n ∧ σ (F b) = true ∧ Suf F n τ L b) := by
  constructor
  · rintro ⟨h1, h2, h3⟩
    refine ⟨by omega, ?_, by omega, by omega, ?_⟩
    · have := h3 b (by omega)
      simpa [push] using this
    · intro i hi
      have := h3 i (by omega)
      have e : b + 1 - 1 - i = (b - 1 - i) + 1 := by omega
      rw [e] at this
      simpa [push] using this
  · rintro ⟨h1, h2, h3, h4, h5⟩
    refine ⟨by omega, by omega, ?_⟩
    intro i hi
    by_cases hib : i = b
    · subst hib
      have e : i + 1 - 1 - i = 0 := by omega
      rw [e]; simpa [push] using h2
    · have e : b + 1 - 1 - i = (b - 1 - i) + 1 := by omega
      rw [e]
      simpa [push] using h5 i (by omega)

/-- the text "the first `q` tests of the fragment" -/
def selfText (q : Nat) : Nat → Sym := fun k t => nodesEqual t (F (q - 1 - k))

/-- `b` is the length of a proper border of the prefix of length `q` -/
def Bord (q b : Nat) : Prop := b < q ∧ Suf F n (selfText F q) q b

def CompatOn (τ : Nat → Sym) (L : Nat) : Prop := ∀ k, k < L → Compat (τ k)

/-- all tests of the fragment are supported ones -/
def Simple : Prop := ∀ i, i < n → simpleT (F i) = true

theorem compat_self (hs : Simple F n) (q : Nat) (hq : q ≤ n) : CompatOn (selfText F q) q := by
  intro k hk
  have hsF : simpleT (F (q - 1 - k)) = true := hs _ (by omega)
  constructor
  · intro t u _ _ htu
    simp only [selfText]
    cases h : nodesEqual u (F (q - 1 - k)) with
    | true => exact nodesEqual_trans _ _ _ htu h
    | false =>
      cases h' : nodesEqual t (F (q - 1 - k)) with
      | false => rfl
      | true =>
        have := nodesEqual_trans _ _ _ (nodesEqual_symm _ _ htu) h'
        rw [h] at this; cases this
  · intro t u _ _ h1 h2
    simp only [selfText] at h1 h2
    exact nodesEqual_trans _ _ _ h1 (nodesEqual_symm _ _ h2)

/-- a border of a matched prefix is matched -/
theorem Suf.of_bord (hs : Simple F n) (τ : Nat → Sym) (L : Nat) (hc : CompatOn τ L) (q b : Nat)
    (hq : Suf F n τ L q) (hb : Bord F n q b) : Suf F n τ L b := by
  obtain ⟨q1, q2, q3⟩ := hq
  obtain ⟨hbq, _, _, b3⟩ := hb
  refine ⟨by omega, by omega, ?_⟩
  intro i hi
  have h1 := b3 i hi                      -- F i ≈ F (q - 1 - (b - 1 - i))
  simp only [selfText] at h1
  have h2 := q3 (q - 1 - (b - 1 - i)) (by omega)
  have e : q - 1 - (q - 1 - (b - 1 - i)) = b - 1 - i := by omega
  rw [e] at h2
  have hcomp := hc (b - 1 - i) (by omega)
  rw [hcomp.congr (F i) (F (q - 1 - (b - 1 - i))) (hs _ (by omega)) (hs _ (by omega)) h1]
  exact h2

/-- two matched prefixes: the shorter is a border of the longer -/
theorem Bord.of_suf (hs : Simple F n) (τ : Nat → Sym) (L : Nat) (hc : CompatOn τ L) (q b : Nat)
    (hq : Suf F n τ L q) (hb : Suf F n τ L b) (hlt : b < q) : Bord F n q b := by
  obtain ⟨q1, q2, q3⟩ := hq
  obtain ⟨b1, b2, b3⟩ := hb
  refine ⟨hlt, by omega, by omega, ?_⟩
  intro i hi
  simp only [selfText]
  have h1 := b3 i hi
  have h2 := q3 (q - 1 - (b - 1 - i)) (by omega)
  have e : q - 1 - (q - 1 - (b - 1 - i)) = b - 1 - i := by omega
  rw [e] at h2
  exact (hc (b - 1 - i) (by omega)).eqv _ _ (hs _ (by omega)) (hs _ (by omega)) h1 h2

theorem Bord.trans (hs : Simple F n) (q b c : Nat) (hq : q ≤ n) (h1 : Bord F n q b) (h2 : Bord F n b c) :
    Bord F n q c :=
  ⟨by have := h1.1; have := h2.1; omega,
   Suf.of_bord F n hs (selfText F q) q (compat_self F n hs q hq) b c h1.2 h2⟩

theorem Bord.zero (q : Nat) (hq : 0 < q) : Bord F n q 0 := ⟨hq, Suf.zero F n _ _⟩

/-- `b` is the longest proper border of the prefix of length `q` -/
def IsLB (q b : Nat) : Prop := Bord F n q b ∧ ∀ c, Bord F n q c → c ≤ b

/-- the failure table is right for the prefixes of lengths `1 … m` -/
def PiOK (pi : List Nat) (m : Nat) : Prop :=
  ∀ q, 1 ≤ q → q ≤ m → IsLB F n q (pi.getD (q - 1) 0)

/-- the back-stepping loop shared by `calculate_pi` and the matcher:
    `while s > 0 and bad(s): s = pi[s-1]` -/
def back (pi : List Nat) (bad : Nat → Bool) : Nat → Nat → Nat
  | 0, s => s
  | fuel + 1, s => if s > 0 && bad s then back pi bad fuel (pi.getD (s - 1) 0) else s

/-- from a matched prefix `s0` that bounds all candidates, the loop finds the longest
    candidate that is good (or 0) -/
theorem back_spec (hs : Simple F n) (τ : Nat → Sym) (L : Nat) (hc : CompatOn τ L)
    (pi : List Nat) (m : Nat) (hm : m ≤ n) (hpi : PiOK F n pi m)
    (bad : Nat → Bool) (good cand : Nat → Prop)
    (hcand : ∀ b, cand b → Suf F n τ L b) :
    ∀ (fuel s0 : Nat), s0 < fuel → s0 ≤ m → Suf F n τ L s0 →
      (∀ s, s ≤ s0 → (bad s = true ↔ ¬ good s)) →
      (∀ b, cand b → good b → b ≤ s0) →
      Suf F n τ L (back pi bad fuel s0) ∧
      (∀ b, cand b → good b → b ≤ back pi bad fuel s0) ∧
      (0 < back pi bad fuel s0 → good (back pi bad fuel s0)) ∧
      back pi bad fuel s0 ≤ s0 := by
  intro fuel
  induction fuel with
  | zero => intro s0 h; omega
  | succ fuel ih =>
    intro s0 hfuel hs0m hsuf hbad hmax
    by_cases hgo : (decide (s0 > 0) && bad s0) = true
    · have hpos : 0 < s0 := by
        simp only [Bool.and_eq_true, decide_eq_true_eq] at hgo; exact hgo.1
      have hbd : bad s0 = true := by
        simp only [Bool.and_eq_true] at hgo; exact hgo.2
      have hng : ¬ good s0 := (hbad s0 (Nat.le_refl _)).mp hbd
      obtain ⟨hb1, hb2⟩ := hpi s0 hpos hs0m
      have hlt : pi.getD (s0 - 1) 0 < s0 := hb1.1
      have hrec := ih (pi.getD (s0 - 1) 0) (by omega) (by omega)
        (Suf.of_bord F n hs τ L hc s0 _ hsuf hb1)
        (fun s hs' => hbad s (by omega))
        (fun b hcb hgb => by
          have hle := hmax b hcb hgb
          have hne : b ≠ s0 := fun h => hng (h ▸ hgb)
          exact hb2 b (Bord.of_suf F n hs τ L hc s0 b hsuf (hcand b hcb) (by omega)))
      simp only [back, hgo, if_true]
      exact ⟨hrec.1, hrec.2.1, hrec.2.2.1, by have := hrec.2.2.2; omega⟩
    · simp only [back, hgo, Bool.false_eq_true, if_false]
      refine ⟨hsuf, hmax, ?_, Nat.le_refl _⟩
      intro hpos
      have hnb : bad s0 = false := by
        cases hb : bad s0 with
        | false => rfl
        | true => simp [hpos, hb] at hgo
      by_cases hg : good s0
      · exact hg
      · have := (hbad s0 (Nat.le_refl _)).mpr hg
        rw [hnb] at this; cases this

/-- `p` is the longest prefix of the fragment matching the end of the text -/
def IsMax (τ : Nat → Sym) (L p : Nat) : Prop := Suf F n τ L p ∧ ∀ b, Suf F n τ L b → b ≤ p

/-- one matcher step: back-step from the longest matched prefix until the next test is
    satisfied by the new symbol, then advance — the result is the longest matched prefix of
    the extended text -/
theorem step_max (hs : Simple F n) (τ : Nat → Sym) (L : Nat) (hc : CompatOn τ L)
    (pi : List Nat) (hpi : PiOK F n pi n) (σ : Sym) (bad : Nat → Bool)
    (hbad : ∀ s, bad s = true ↔ ¬ (s < n ∧ σ (F s) = true))
    (p fuel : Nat) (hfuel : p < fuel) (hp : IsMax F n τ L p) :
    IsMax F n (push σ τ) (L + 1)
      (if bad (back pi bad fuel p) then back pi bad fuel p else back pi bad fuel p + 1) := by
  have hpn : p ≤ n := hp.1.1
  obtain ⟨h1, h2, h3, _⟩ := back_spec F n hs τ L hc pi n (Nat.le_refl _) hpi bad
    (fun b => b < n ∧ σ (F b) = true) (fun b => Suf F n τ L b) (fun b h => h)
    fuel p hfuel hpn hp.1 (fun s _ => hbad s) (fun b hb _ => hp.2 b hb)
  cases hb : bad (back pi bad fuel p) with
  | false =>
    have hg : back pi bad fuel p < n ∧ σ (F (back pi bad fuel p)) = true := by
      by_cases hg : back pi bad fuel p < n ∧ σ (F (back pi bad fuel p)) = true
      · exact hg
      · have := (hbad _).mpr hg; rw [hb] at this; cases this
    simp only [Bool.false_eq_true, if_false]
    refine ⟨(Suf_push F n σ τ L _).mpr ⟨hg.1, hg.2, h1⟩, ?_⟩
    intro b' hb'
    cases b' with
    | zero => omega
    | succ b =>
      obtain ⟨g1, g2, g3⟩ := (Suf_push F n σ τ L b).mp hb'
      have := h2 b g3 ⟨g1, g2⟩
      omega
  | true =>
    have hng := (hbad _).mp hb
    have hz : back pi bad fuel p = 0 := by
      by_cases hpos : 0 < back pi bad fuel p
      · exact absurd (h3 hpos) hng
      · omega
    simp only [if_true, hz]
    refine ⟨Suf.zero F n _ _, ?_⟩
    intro b' hb'
    cases b' with
    | zero => omega
    | succ b =>
      obtain ⟨g1, g2, g3⟩ := (Suf_push F n σ τ L b).mp hb'
      have hb0 := h2 b g3 ⟨g1, g2⟩
      rw [hz] at hb0 hng
      have : b = 0 := by omega
      subst this
      exact absurd ⟨g1, g2⟩ hng

theorem selfText_push (q : Nat) (hq : 1 ≤ q) :
    selfText F q = push (fun t => nodesEqual t (F (q - 1))) (selfText F (q - 1)) := by
  funext k t
  cases k with
  | zero => simp [selfText, push]
  | succ k =>
    simp only [selfText, push]
    have : q - 1 - (k + 1) = q - 1 - 1 - k := by omega
    rw [this]

theorem isLB_one : IsLB F n 1 0 := ⟨Bord.zero F n 1 (by omega), fun c hc => by have := hc.1; omega⟩

theorem bord_succ (m b : Nat) (hm : m < n) :
    Bord F n (m + 1) (b + 1) ↔ (Bord F n m b ∧ nodesEqual (F b) (F m) = true) := by
  unfold Bord
  rw [selfText_push F (m + 1) (by omega)]
  simp only [Nat.add_sub_cancel]
  rw [Suf_push]
  constructor
  · rintro ⟨h1, h2, h3, h4⟩
    exact ⟨⟨by omega, h4⟩, h3⟩
  · rintro ⟨⟨h1, h2⟩, h3⟩
    exact ⟨by omega, by omega, h3, h2⟩

/-- one round of `calculate_pi` -/
theorem pi_step (hs : Simple F n) (pi : List Nat) (m : Nat) (hm1 : 1 ≤ m) (hmn : m < n)
    (hpi : PiOK F n pi m) (fuel : Nat) (hfuel : pi.getD (m - 1) 0 < fuel) :
    let bad := fun x => !(nodesEqual (F x) (F m))
    let s1 := back pi bad fuel (pi.getD (m - 1) 0)
    IsLB F n (m + 1) (if bad s1 then s1 else s1 + 1) := by
  intro bad s1
  obtain ⟨hlb1, hlb2⟩ := hpi m hm1 (Nat.le_refl _)
  obtain ⟨h1, h2, h3, h4⟩ := back_spec F n hs (selfText F m) m (compat_self F n hs m (by omega)) pi m (by omega) hpi
    bad (fun b => nodesEqual (F b) (F m) = true) (fun b => Bord F n m b) (fun b h => h.2)
    fuel (pi.getD (m - 1) 0) hfuel (by have := hlb1.1; omega) hlb1.2
    (fun s _ => by simp [bad]) (fun b hb _ => hlb2 b hb)
  have hs1 : back pi bad fuel (pi.getD (m - 1) 0) = s1 := rfl
  rw [hs1] at h1 h2 h3 h4
  clear_value s1
  have hs1m : s1 < m := by have := hlb1.1; omega
  cases hb : bad s1 with
  | false =>
    have hg : nodesEqual (F s1) (F m) = true := by simpa [bad] using hb
    simp only [Bool.false_eq_true, if_false]
    refine ⟨(bord_succ F n m s1 hmn).mpr ⟨⟨hs1m, h1⟩, hg⟩, ?_⟩
    intro c hc
    cases c with
    | zero => omega
    | succ b =>
      obtain ⟨g1, g2⟩ := (bord_succ F n m b hmn).mp hc
      have := h2 b g1 g2
      omega
  | true =>
    have hng : ¬ nodesEqual (F s1) (F m) = true := by simpa [bad] using hb
    have hz : s1 = 0 := by
      by_cases hpos : 0 < s1
      · exact absurd (h3 hpos) hng
      · omega
    simp only [if_true]
    rw [hz]
    refine ⟨Bord.zero F n _ (by omega), ?_⟩
    intro c hc
    cases c with
    | zero => omega
    | succ b =>
      obtain ⟨g1, g2⟩ := (bord_succ F n m b hmn).mp hc
      have hb0 := h2 b g1 g2
      rw [hz] at hb0 hng
      have : b = 0 := by omega
      subst this
      exact absurd g2 hng

end

/-! ## `calculate_pi` of the model -/

section
variable (f : List NodeTest)

/-- the fragment as a total function -/
def Fof : Nat → NodeTest := fun i => f.getD i .text

theorem getElem?_Fof (i : Nat) (hi : i < f.length) : f[i]? = some (Fof f i) := by
  simp [Fof, List.getD, List.getElem?_eq_getElem hi]

theorem piBack_eq_back (pi : List Nat) (fi : NodeTest) : ∀ (fuel s : Nat),
    piBack f pi fi fuel s
      = back pi (fun x => !(match f[x]? with | some t => nodesEqual t fi | none => false)) fuel s := by
  intro fuel
  induction fuel with
  | zero => intro s; rfl
  | succ fuel ih =>
    intro s
    cases hfs : f[s]? <;> simp only [piBack, back, ih, hfs]

theorem back_congr (pi : List Nat) (bad bad' : Nat → Bool) : ∀ (fuel s : Nat),
    (∀ x, x ≤ s → bad x = bad' x) → (∀ x, 1 ≤ x → x ≤ s → pi.getD (x - 1) 0 < x) →
    back pi bad fuel s = back pi bad' fuel s := by
  intro fuel
  induction fuel with
  | zero => intro s _ _; rfl
  | succ fuel ih =>
    intro s h hdec
    simp only [back, h s (Nat.le_refl _)]
    split
    · rename_i hc
      have hpos : 0 < s := by
        simp only [Bool.and_eq_true, decide_eq_true_eq] at hc; exact hc.1
      have hlt := hdec s hpos (Nat.le_refl _)
      exact ih _ (fun x hx => h x (by omega)) (fun x h1 hx => hdec x h1 (by omega))
    · rfl

/-- **`calculate_pi` computes the failure function**: entry `q-1` is the length of the
    longest proper border of the first `q` tests of the fragment -/
theorem piLoop_ok (hs : Simple (Fof f) f.length) : ∀ (rest : List NodeTest) (pi : List Nat) (m : Nat),
    1 ≤ m → m ≤ f.length → pi.length = m → rest = f.drop m → PiOK (Fof f) f.length pi m →
    PiOK (Fof f) f.length (piLoop f rest pi (pi.getD (m - 1) 0)) f.length ∧
    (piLoop f rest pi (pi.getD (m - 1) 0)).length = f.length := by
  intro rest
  induction rest with
  | nil =>
    intro pi m hm1 hmn hlen hrest hpi
    have : m = f.length := by
      have := congrArg List.length hrest
      simp at this; omega
    subst this
    exact ⟨by simpa [piLoop] using hpi, by simpa [piLoop] using hlen⟩
  | cons fi rest ih =>
    intro pi m hm1 hmn hlen hrest hpi
    have hmlt : m < f.length := by
      have := congrArg List.length hrest
      simp at this; omega
    have hfi : fi = Fof f m := by
      have h1 : (f.drop m)[0]? = some fi := by rw [← hrest]; rfl
      rw [List.getElem?_drop] at h1
      have h2 := getElem?_Fof f m hmlt
      simp only [Nat.add_zero] at h1
      rw [h2] at h1
      exact (Option.some.inj h1).symm
    have hrest' : rest = f.drop (m + 1) := by
      have := congrArg List.tail hrest
      simpa [List.tail_drop] using this
    have hdec : ∀ x, 1 ≤ x → x ≤ pi.getD (m - 1) 0 → pi.getD (x - 1) 0 < x := by
      intro x h1 hx
      have hlb := (hpi m hm1 (Nat.le_refl _)).1.1
      exact (hpi x h1 (by omega)).1.1
    have hstep := pi_step (Fof f) f.length hs pi m hm1 hmlt hpi (pi.getD (m - 1) 0 + 1) (by omega)
    simp only at hstep
    -- the model's loop is the abstract one
    have hback : piBack f pi fi (pi.getD (m - 1) 0 + 1) (pi.getD (m - 1) 0)
        = back pi (fun x => !(nodesEqual (Fof f x) (Fof f m))) (pi.getD (m - 1) 0 + 1) (pi.getD (m - 1) 0) := by
      rw [piBack_eq_back]
      apply back_congr _ _ _ _ _ _ hdec
      intro x hx
      have hlb := (hpi m hm1 (Nat.le_refl _)).1.1
      rw [getElem?_Fof f x (by omega), hfi]
    simp only [piLoop, hback]
    generalize hs1 : back pi (fun x => !(nodesEqual (Fof f x) (Fof f m))) (pi.getD (m - 1) 0 + 1) (pi.getD (m - 1) 0) = s1 at *
    have hs1lt : s1 < f.length := by
      have hb := (back_spec (Fof f) f.length hs (selfText (Fof f) m) m (compat_self _ _ hs m (by omega)) pi m (by omega) hpi
        (fun x => !(nodesEqual (Fof f x) (Fof f m))) (fun b => nodesEqual (Fof f b) (Fof f m) = true)
        (fun b => Bord (Fof f) f.length m b) (fun b h => h.2)
        (pi.getD (m - 1) 0 + 1) (pi.getD (m - 1) 0) (by omega)
        (by have := (hpi m hm1 (Nat.le_refl _)).1.1; omega) (hpi m hm1 (Nat.le_refl _)).1.2
        (fun s _ => by simp) (fun b hb _ => (hpi m hm1 (Nat.le_refl _)).2 b hb)).2.2.2
      rw [hs1] at hb
      have := (hpi m hm1 (Nat.le_refl _)).1.1
      omega
    rw [getElem?_Fof f s1 hs1lt, hfi]
    simp only
    -- the new entry
    have hnew : (if nodesEqual (Fof f s1) (Fof f m) = true then s1 + 1 else s1)
        = (if (!(nodesEqual (Fof f s1) (Fof f m))) = true then s1 else s1 + 1) := by
      cases nodesEqual (Fof f s1) (Fof f m) <;> simp
    rw [hnew]
    generalize hs' : (if (!(nodesEqual (Fof f s1) (Fof f m))) = true then s1 else s1 + 1) = s' at *
    have hpi' : PiOK (Fof f) f.length (pi ++ [s']) (m + 1) := by
      intro q hq1 hqm
      by_cases hq : q ≤ m
      · have : (pi ++ [s']).getD (q - 1) 0 = pi.getD (q - 1) 0 := by
          simp only [List.getD_eq_getElem?_getD]
          rw [List.getElem?_append_left (by omega)]
        rw [this]; exact hpi q hq1 hq
      · have hqe : q = m + 1 := by omega
        subst hqe
        have : (pi ++ [s']).getD (m + 1 - 1) 0 = s' := by
          simp only [List.getD_eq_getElem?_getD, Nat.add_sub_cancel]
          rw [List.getElem?_append_right (by omega)]
          simp [hlen]
        rw [this]; exact hstep
    have hget : (pi ++ [s']).getD (m + 1 - 1) 0 = s' := by
      simp only [List.getD_eq_getElem?_getD, Nat.add_sub_cancel]
      rw [List.getElem?_append_right (by omega)]
      simp [hlen]
    have := ih (pi ++ [s']) (m + 1) (by omega) (by omega) (by simp [hlen]) hrest' hpi'
    rw [hget] at this
    exact this

theorem calculatePi_ok (hne : f ≠ []) (hs : Simple (Fof f) f.length) :
    PiOK (Fof f) f.length (calculatePi f) f.length ∧ (calculatePi f).length = f.length := by
  cases hf : f with
  | nil => exact absurd hf hne
  | cons t rest =>
    rw [← hf]
    have h1 : PiOK (Fof f) f.length [0] 1 := by
      intro q hq1 hq
      have : q = 1 := by omega
      subst this
      exact isLB_one (Fof f) f.length
    have := piLoop_ok f hs rest [0] 1 (by omega) (by rw [hf]; simp) rfl (by rw [hf]; rfl) h1
    simpa [calculatePi, hf] using this

end
end Genshi.Path.Kmp

/-
  C19 — `extract_from_code` (model: `Genshi/Model/I18nPyExpr.lean`) reports exactly the calls
  of the gettext functions that occur in the syntax tree, at any depth (also inside the
  arguments of another gettext call: fix fbd47f1), each with its literal arguments.
-/
import Genshi.Model.I18nPyExpr
namespace Genshi.I18n
open Genshi

/-! ### completeness -/

theorem walkList_of_mem {gf : List Str} {m : CodeMsg} :
    ∀ {l : List PyExpr} {a : PyExpr}, a ∈ l → m ∈ walk gf a → m ∈ walkList gf l
  | [], _, h, _ => by cases h
  | b :: l, a, h, hm => by
      simp only [walkList, List.mem_append]
      rcases List.mem_cons.1 h with rfl | h
      · exact Or.inl hm
      · exact Or.inr (walkList_of_mem h hm)

/-- what the walk finds in a sub-expression it finds in the whole expression -/
theorem walk_of_subExpr {gf : List Str} {m : CodeMsg} {s e : PyExpr} (h : SubExpr s e) :
    m ∈ walk gf s → m ∈ walk gf e := by
  induction h with
  | refl => exact id
  | func args kws _ ih =>
      intro hm; simp only [walk, List.mem_append]; exact Or.inr (Or.inl (ih hm))
  | arg f kws ha _ ih =>
      intro hm; simp only [walk, List.mem_append]
      exact Or.inr (Or.inr (Or.inl (walkList_of_mem ha (ih hm))))
  | kw f args hk _ ih =>
      intro hm; simp only [walk, List.mem_append]
      exact Or.inr (Or.inr (Or.inr (walkList_of_mem hk (ih hm))))
  | child hc _ ih =>
      intro hm; simp only [walk]; exact walkList_of_mem hc (ih hm)

theorem callMsg_self {gf : List Str} {f : Str} (args kws : List PyExpr) (hf : f ∈ gf) :
    callMsg gf (.call (.name f) args kws) = [⟨f, argVal args⟩] := by
  simp [callMsg, hf]

/-- **every gettext call is reported**: a call `f(args…, kw=…)` of a name `f` among the
    gettext functions, occurring anywhere in the expression / code block, is reported with
    one entry per positional argument (the text of a string / bytes literal, `None` for
    anything else). -/
theorem code_call_reported (gf : List Str) (e : PyExpr) (f : Str) (args kws : List PyExpr)
    (hs : SubExpr (.call (.name f) args kws) e) (hf : f ∈ gf) :
    ⟨f, argVal args⟩ ∈ extractFromCode gf e := by
  refine walk_of_subExpr hs ?_
  simp [walk, callMsg_self args kws hf]

theorem argVal_literalArgs_one (s : Str) : argVal (literalArgs [s]) = .one (some s) := rfl

theorem map_litVal_literalArgs (ss : List Str) : (literalArgs ss).map litVal = ss.map some := by
  induction ss with
  | nil => rfl
  | cons s ss ih => simp [literalArgs, litVal]

theorem argVal_literalArgs_many (ss : List Str) (h : ss.length ≠ 1) :
    argVal (literalArgs ss) = .many (ss.map some) := by
  unfold argVal
  rw [map_litVal_literalArgs]
  match ss, h with
  | [], _ => rfl
  | [_], h => exact absurd rfl h
  | _ :: _ :: _, _ => rfl

/-- when all positional arguments are string literals the reported value holds exactly those
    strings, in order -/
theorem code_literal_call_reported (gf : List Str) (e : PyExpr) (f : Str) (ss : List Str)
    (kws : List PyExpr) (hs : SubExpr (.call (.name f) (literalArgs ss) kws) e) (hf : f ∈ gf) :
    ⟨f, match ss with | [s] => .one (some s) | _ => .many (ss.map some)⟩ ∈ extractFromCode gf e := by
  have h := code_call_reported gf e f (literalArgs ss) kws hs hf
  match ss, h with
  | [], h => simpa [argVal_literalArgs_many [] (by decide)] using h
  | [s], h => simpa [argVal_literalArgs_one] using h
  | a :: b :: r, h => simpa [argVal_literalArgs_many (a :: b :: r) (by simp)] using h

/-! ### soundness -/

/-- `m` is the report of a gettext call occurring in `e` -/
def FromCall (gf : List Str) (m : CodeMsg) (e : PyExpr) : Prop :=
  ∃ args kws, SubExpr (.call (.name m.func) args kws) e ∧ m.func ∈ gf ∧ m.val = argVal args

theorem callMsg_sound {gf : List Str} {e : PyExpr} {m : CodeMsg} (h : m ∈ callMsg gf e) :
    FromCall gf m e := by
  match e, h with
  | .call (.name id) args kws, h =>
      by_cases hc : id ∈ gf
      · simp [callMsg, hc] at h
        subst h
        exact ⟨args, kws, SubExpr.refl _, hc, rfl⟩
      · simp [callMsg, hc] at h
  | .call (.str _) _ _, h | .call (.bytes _) _ _, h | .call (.call ..) _ _, h
  | .call (.node _) _ _, h | .str _, h | .bytes _, h | .name _, h | .node _, h =>
      simp [callMsg] at h

mutual
  theorem walk_sound (gf : List Str) : ∀ (e : PyExpr) (m : CodeMsg), m ∈ walk gf e → FromCall gf m e
    | .call f args kws, m, h => by
        simp only [walk, List.mem_append] at h
        rcases h with h | h | h | h
        · exact callMsg_sound h
        · obtain ⟨a, k, hs, r⟩ := walk_sound gf f m h
          exact ⟨a, k, SubExpr.func _ _ hs, r⟩
        · obtain ⟨x, hx, a, k, hs, r⟩ := walkList_sound gf args m h
          exact ⟨a, k, SubExpr.arg _ _ hx hs, r⟩
        · obtain ⟨x, hx, a, k, hs, r⟩ := walkList_sound gf kws m h
          exact ⟨a, k, SubExpr.kw _ _ hx hs, r⟩
    | .node cs, m, h => by
        simp only [walk] at h
        obtain ⟨x, hx, a, k, hs, r⟩ := walkList_sound gf cs m h
        exact ⟨a, k, SubExpr.child hx hs, r⟩
    | .str _, m, h | .bytes _, m, h | .name _, m, h => by simp [walk] at h
  theorem walkList_sound (gf : List Str) :
      ∀ (l : List PyExpr) (m : CodeMsg), m ∈ walkList gf l → ∃ x ∈ l, FromCall gf m x
    | [], m, h => by simp [walkList] at h
    | e :: es, m, h => by
        simp only [walkList, List.mem_append] at h
        rcases h with h | h
        · exact ⟨e, List.mem_cons_self, walk_sound gf e m h⟩
        · obtain ⟨x, hx, r⟩ := walkList_sound gf es m h
          exact ⟨x, List.mem_cons_of_mem _ hx, r⟩
end

/-- **nothing else is reported**: every reported pair is the report of a call of one of the
    gettext functions occurring in the expression -/
theorem code_reported_is_call (gf : List Str) (e : PyExpr) (m : CodeMsg)
    (h : m ∈ extractFromCode gf e) :
    ∃ args kws, SubExpr (.call (.name m.func) args kws) e ∧ m.func ∈ gf ∧ m.val = argVal args :=
  walk_sound gf e m h

/-! ### the exact answer: the gettext calls in source order, once each -/

def callReport (c : Str × List PyExpr) : CodeMsg := ⟨c.1, argVal c.2⟩

theorem callMsg_eq (gf : List Str) (f : PyExpr) (args kws : List PyExpr) :
    callMsg gf (.call f args kws) =
      ((headCall f args).filter fun c => gf.contains c.1).map callReport := by
  cases f with
  | name id => by_cases hc : id ∈ gf <;> simp [callMsg, headCall, hc, callReport]
  | _ => simp [callMsg, headCall]

mutual
  theorem walk_eq (gf : List Str) : ∀ e : PyExpr,
      walk gf e = ((nameCalls e).filter fun c => gf.contains c.1).map callReport
    | .call f args kws => by
        simp only [walk, nameCalls, List.filter_append, List.map_append, callMsg_eq,
          walk_eq gf f, walkList_eq gf args, walkList_eq gf kws]
    | .node cs => by simp only [walk, nameCalls, walkList_eq gf cs]
    | .str _ | .bytes _ | .name _ => by simp [walk, nameCalls]
  theorem walkList_eq (gf : List Str) : ∀ l : List PyExpr,
      walkList gf l = ((nameCallsList l).filter fun c => gf.contains c.1).map callReport
    | [] => by simp [walkList, nameCallsList]
    | e :: es => by
        simp only [walkList, nameCallsList, List.filter_append, List.map_append, walk_eq gf e,
          walkList_eq gf es]
end

/-- `extract_from_code` answers with the calls of the gettext functions in source order
    (a call before the calls inside it), one report per call -/
theorem extractFromCode_eq_gettextCalls (gf : List Str) (e : PyExpr) :
    extractFromCode gf e = (gettextCalls gf e).map callReport := walk_eq gf e

/-! ### the behaviour before fix fbd47f1, and non-vacuity -/

/-- `ngettext('one', 'many', len(_('Unknown')))` -/
def nestedExample : PyExpr :=
  .call (.name ['n','g','e','t','t','e','x','t'])
    [.str ['o','n','e'], .str ['m','a','n','y'],
     .call (.name ['l','e','n']) [.call (.name ['_']) [.str ['U','n','k','n','o','w','n']] []] []] []

/-- before the fix the walk stopped at a gettext call: `_('Unknown')` inside the arguments of
    `ngettext(...)` was missed although it is looked up when the expression is evaluated; the
    repaired walk reports it -/
theorem nested_call_was_missed :
    (⟨['_'], .one (some ['U','n','k','n','o','w','n'])⟩ : CodeMsg) ∉
        extractFromCodeOld Gen.I18n.gettextFunctions nestedExample ∧
    SubExpr (.call (.name ['_']) [.str ['U','n','k','n','o','w','n']] []) nestedExample ∧
    extractFromCode Gen.I18n.gettextFunctions nestedExample =
      [⟨['n','g','e','t','t','e','x','t'], .many [some ['o','n','e'], some ['m','a','n','y'], none]⟩,
       ⟨['_'], .one (some ['U','n','k','n','o','w','n'])⟩] := by
  refine ⟨by decide, ?_, by decide⟩
  exact SubExpr.arg _ _ (a := .call (.name ['l','e','n']) [.call (.name ['_']) [.str ['U','n','k','n','o','w','n']] []] [])
    (by simp) (SubExpr.arg _ _ (List.mem_singleton.2 rfl) (SubExpr.refl _))

/-- `_('Hello')` -/
example : extractFromCode Gen.I18n.gettextFunctions (.call (.name ['_']) [.str ['H','e','l','l','o']] []) =
    [⟨['_'], .one (some ['H','e','l','l','o'])⟩] := by decide

/-- `ngettext('a', 'b', n)` -/
example : extractFromCode Gen.I18n.gettextFunctions
    (.call (.name ['n','g','e','t','t','e','x','t']) [.str ['a'], .str ['b'], .name ['n']] []) =
    [⟨['n','g','e','t','t','e','x','t'], .many [some ['a'], some ['b'], none]⟩] := by decide

/-- `_()` reports the empty tuple; `_(b'x', k=_('y'))` decodes the bytes literal and finds the
    call in the keyword argument; `x._('no')` and `len('no')` are no gettext calls -/
example : extractFromCode Gen.I18n.gettextFunctions
    (.node [.call (.name ['_']) [] [],
            .call (.name ['_']) [.bytes ['x']] [.call (.name ['_']) [.str ['y']] []],
            .call (.node [.name ['x']]) [.str ['n','o']] [],
            .call (.name ['l','e','n']) [.str ['n','o']] []]) =
    [⟨['_'], .many []⟩, ⟨['_'], .one (some ['x'])⟩, ⟨['_'], .one (some ['y'])⟩] := by decide

end Genshi.I18n

/-
  C02 — the reader's tokenizer reads back what the serializer writes, part A:
  names, quoted values, attribute lists.
-/
import Genshi.Lemmas.XmlRefs
import Mathlib.Data.List.TakeDrop
namespace Genshi.Xml
open Genshi Genshi.Escape Genshi.Xml.Reader

theorem span_until {p : Char → Bool} (l : Str) (x : Char) (r : Str)
    (hl : ∀ c ∈ l, p c = true) (hx : p x = false) : (l ++ x :: r).span p = (l, x :: r) := by
  rw [List.span_eq_takeWhile_dropWhile]
  induction l with
  | nil => simp [hx]
  | cons c cs ih =>
    have hc := hl c (by simp)
    have := ih (fun d hd => hl d (by simp [hd]))
    simp only [List.cons_append, List.takeWhile_cons, List.dropWhile_cons, hc, if_true]
    simp only [Prod.mk.injEq] at this ⊢
    exact ⟨by rw [this.1], this.2⟩

theorem span_all {p : Char → Bool} (l : Str) (hl : ∀ c ∈ l, p c = true) : l.span p = (l, []) := by
  rw [List.span_eq_takeWhile_dropWhile]
  induction l with
  | nil => simp
  | cons c cs ih =>
    have hc := hl c (by simp)
    have := ih (fun d hd => hl d (by simp [hd]))
    simp only [List.takeWhile_cons, List.dropWhile_cons, hc, if_true]
    simp only [Prod.mk.injEq] at this ⊢
    exact ⟨by rw [this.1], this.2⟩

/-- a name is read up to the first stop character -/
theorem takeName_until (n : Str) (x : Char) (r : Str) (hn : validName n = true) (hx : isNameStop x = true) :
    takeName (n ++ x :: r) = (n, x :: r) := by
  unfold takeName
  apply span_until
  · intro c hc
    unfold validName at hn
    cases n with
    | nil => simp at hc
    | cons d ds =>
      simp only [Bool.and_eq_true, List.all_eq_true] at hn
      exact hn.2 c hc
  · simp [hx]

theorem takeName_end (n : Str) (hn : validName n = true) : takeName n = (n, []) := by
  unfold takeName
  apply span_all
  intro c hc
  unfold validName at hn
  cases n with
  | nil => simp at hc
  | cons d ds =>
    simp only [Bool.and_eq_true, List.all_eq_true] at hn
    exact hn.2 c hc

theorem validName_head {n : Str} (hn : validName n = true) :
    ∃ c cs, n = c :: cs ∧ isNameStop c = false := by
  unfold validName at hn
  cases n with
  | nil => simp at hn
  | cons d ds =>
    simp only [Bool.and_eq_true, List.all_eq_true] at hn
    exact ⟨d, ds, rfl, by simpa using hn.2 d (by simp)⟩

theorem not_space_of_not_stop {c : Char} (h : isNameStop c = false) : isSpace c = false := by
  cases hs : isSpace c with
  | false => rfl
  | true => simp [isNameStop, hs] at h

theorem dropSpaces_of_head {c : Char} {cs : Str} (h : isSpace c = false) : dropSpaces (c :: cs) = c :: cs := by
  simp [dropSpaces, List.dropWhile, h]

theorem takeQuoted_dq (v rest : Str) (hv : '"' ∉ v) : takeQuoted ('"' :: (v ++ '"' :: rest)) = some (v, rest) := by
  simp only [takeQuoted]
  rw [span_until v '"' rest (fun c hc => by simp; intro e; subst e; exact hv hc) (by simp)]
  rfl

theorem takeQuoted_sq (v rest : Str) (hv : '\'' ∉ v) :
    takeQuoted ('\'' :: (v ++ '\'' :: rest)) = some (v, rest) := by
  simp only [takeQuoted]
  rw [span_until v '\'' rest (fun c hc => by simp; intro e; subst e; exact hv hc) (by simp)]
  rfl

/-- an attribute value as it stands between the quotes, and what it decodes to -/
structure AttrEnc (ev v : Str) : Prop where
  noquote : '"' ∉ ev
  decodes : decodeAttr ev = some v

/-- attribute lists written as ` name="value"` … -/
def emitAttrsWith : List (Str × Str) → Str
  | [] => []
  | (a, ev) :: rest => ' ' :: a ++ ('=' :: '"' :: ev) ++ '"' :: emitAttrsWith rest

theorem isNameStop_eq : isNameStop '=' = true := by decide
theorem isNameStop_gt : isNameStop '>' = true := by decide
theorem isNameStop_slash : isNameStop '/' = true := by decide
theorem isSpace_sp : isSpace ' ' = true := by decide

theorem takeAttrs_close (f : Nat) (rest : Str) : takeAttrs (f + 1) ('>' :: rest) = some ([], false, rest) := by
  simp [takeAttrs]

theorem takeAttrs_selfclose (f : Nat) (rest : Str) :
    takeAttrs (f + 1) ('/' :: '>' :: rest) = some ([], true, rest) := by
  simp [takeAttrs]

theorem takeAttrs_attr (f : Nat) (a ev v more : Str) (ha : validName a = true) (he : AttrEnc ev v) :
    takeAttrs (f + 1) (' ' :: a ++ ('=' :: '"' :: ev) ++ '"' :: more) =
      match takeAttrs f more with
      | some (as, e, rest) => some ((a, v) :: as, e, rest)
      | none => none := by
  obtain ⟨c, cs, rfl, hc⟩ := validName_head ha
  have hsp := not_space_of_not_stop hc
  have hgt : c ≠ '>' := by intro e; subst e; simp [isNameStop_gt] at hc
  have hsl : c ≠ '/' := by intro e; subst e; simp [isNameStop_slash] at hc
  have e1 : ' ' :: (c :: cs) ++ ('=' :: '"' :: ev) ++ '"' :: more =
      ' ' :: c :: (cs ++ '=' :: '"' :: (ev ++ '"' :: more)) := by simp
  rw [e1]
  rw [takeAttrs]
  · simp only [isSpace_sp, Bool.not_true, Bool.false_eq_true, if_false]
    rw [dropSpaces_of_head hsp]
    split
    · rename_i heq; simp only [List.cons.injEq] at heq; exact absurd heq.1 hgt
    · rename_i heq; simp only [List.cons.injEq] at heq; exact absurd heq.1 hsl
    · have e2 : c :: (cs ++ '=' :: '"' :: (ev ++ '"' :: more)) = (c :: cs) ++ '=' :: ('"' :: (ev ++ '"' :: more)) := by simp
      rw [e2, takeName_until (c :: cs) '=' _ ha isNameStop_eq]
      simp only [ha, Bool.not_true, Bool.false_eq_true, if_false]
      rw [dropSpaces_of_head (c := '=') (by decide)]
      simp only
      rw [dropSpaces_of_head (c := '"') (by decide), takeQuoted_dq ev more he.noquote]
      simp only [he.decodes]
      cases takeAttrs f more with
      | none => rfl
      | some r => obtain ⟨as, e, rest⟩ := r; rfl
  · intro h; exact absurd h (by decide)
  · intro rest h; exact absurd h (by decide)

/-- the whole attribute list of a start tag, then `>` or `/>` -/
theorem takeAttrs_emit (enc : List (Str × Str)) (attrs : List (Str × Str))
    (h : List.Forall₂ (fun e a => e.1 = a.1 ∧ validName a.1 = true ∧ AttrEnc e.2 a.2) enc attrs)
    (closing : Str) (selfc : Bool) (hc : closing = if selfc then ['/', '>'] else ['>']) (rest : Str) :
    ∀ f, attrs.length < f →
      takeAttrs f (emitAttrsWith enc ++ closing ++ rest) = some (attrs, selfc, rest) := by
  induction h with
  | nil =>
    intro f hf
    obtain ⟨g, rfl⟩ : ∃ g, f = g + 1 := ⟨f - 1, by simp at hf; omega⟩
    subst hc
    cases selfc
    · simpa [emitAttrsWith] using takeAttrs_close g rest
    · simpa [emitAttrsWith] using takeAttrs_selfclose g rest
  | @cons e a enc attrs h1 _ ih =>
    intro f hf
    obtain ⟨g, rfl⟩ : ∃ g, f = g + 1 := ⟨f - 1, by simp at hf; omega⟩
    obtain ⟨en, ev⟩ := e
    obtain ⟨an, av⟩ := a
    simp only at h1
    obtain ⟨rfl, hv, he⟩ := h1
    have e1 : emitAttrsWith ((en, ev) :: enc) ++ closing ++ rest =
        ' ' :: en ++ ('=' :: '"' :: ev) ++ '"' :: (emitAttrsWith enc ++ closing ++ rest) := by
      simp [emitAttrsWith]
    rw [e1, takeAttrs_attr g en ev av _ hv he, ih g (by simp at hf; omega)]

end Genshi.Xml

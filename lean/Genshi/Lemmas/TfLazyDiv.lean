/-
  The buffer-feedback finding (C20-buffer-feedback) in the lazy model: an injector that iterates
  a buffer while a link further down appends every injected event to the same buffer never
  reaches the end of the buffer — for every fuel.
-/
import Genshi.Model.TfLazy
namespace Genshi.Tf

@[simp] theorem seqR_div (k : List Ctl → BufF → R) : seqR .div k = .div := rfl
@[simp] theorem seqR_err (k : List Ctl → BufF → R) : seqR .err k = .err := rfl

theorem BufF.set_same (b : BufF) (id : Nat) (v : List MEv) : (b.set id v) id = v := by simp [BufF.set]

/-- a `copy(id, accumulate=True)` link in the middle of an ENTER … EXIT selection appends every
    unmarked item it is fed to the buffer and yields nothing -/
theorem push_copy_inEnter (F id : Nat) (pend : MStream) (b : BufF) (x : MEv) :
    pushItem F [.copy id true] [.copy .inEnter pend] b (none, x) =
      .ok ([.copy .inEnter (pend ++ [(none, x)])], b.set id (b id ++ [x]), []) := by
  simp [pushItem, stepOp, copyStep, execActs]

/-- … so iterating that buffer in front of it never ends -/
theorem injLoop_feedback (F id : Nat) : ∀ (n i : Nat) (pend : MStream) (b : BufF), i < (b id).length →
    injLoop (pushItem F [.copy id true]) id n i [.copy .inEnter pend] b = .div := by
  intro n
  induction n with
  | zero => intro i pend b _; rfl
  | succ n ih =>
    intro i pend b hi
    have hx : (b id)[i]? = some ((b id)[i]) := List.getElem?_eq_getElem hi
    simp only [injLoop, hx, push_copy_inEnter]
    have := ih (i + 1) (pend ++ [(none, (b id)[i])]) (b.set id (b id ++ [(b id)[i]]))
      (by rw [BufF.set_same]; simp; omega)
    simp [seqR, this]

end Genshi.Tf

namespace Genshi.Tf

def fbQn (c : Char) : QName := ⟨[], [c]⟩

/-- `Transformer('a').copy(b).append(b).copy(b, accumulate=True)` -/
def fbOps : List Op := [.select [.none, .hit, .none, .none], .copy 1 false, .append (.buf 1), .copy 1 true]

/-- `<r><a/></r>` -/
def fbDoc : Stream := [.start (fbQn 'r') [], .start (fbQn 'a') [], .end_ (fbQn 'a'), .end_ (fbQn 'r')]

theorem feedback_diverges (F : Nat) : runLazy F fbOps (fun _ => []) (markAll fbDoc) = .div := by
  simp only [runLazy, fbOps, segs, runSegs, runSeg, fbDoc, markAll, List.map, initCtl, proBufs, proOf, effs,
    pushList]
  simp [pushItem, stepOp, selStep, copyStep, execActs, seqR, List.headD, MEv.isStart, MEv.isEnd, subDepth,
    startSt, newSel, outs, BufF.set, injLoop_feedback]

end Genshi.Tf

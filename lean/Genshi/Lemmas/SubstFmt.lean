/-
  C01 — `Markup(fmt) % operands` when `fmt` is markup with tags written by the template author:
  the result is the author's tags and text with every operand escaped in its hole, and reading
  it gives the author's elements with the operands verbatim.
-/
import Genshi.Lemmas.SubstTmpl
import Genshi.Model.SubstFmt
namespace Genshi.Subst
open Genshi.Escape Genshi.Str

/-- `%`-formatting read directly off the format string (positional operands, `%s` and `%%`) -/
def direct : List Char → List (List Char) → Option (List Char)
  | [], [] => some []
  | [], _ :: _ => none
  | '%' :: '%' :: r, as => (direct r as).map ('%' :: ·)
  | '%' :: 's' :: _, [] => none
  | '%' :: 's' :: r, a :: as => (direct r as).map (a ++ ·)
  | '%' :: _, _ => none
  | c :: r, as => (direct r as).map (c :: ·)

theorem fmtPos_lit_pre (acc : List Char) (ps : List Piece) (args : List (List Char)) (out : List Char)
    (h : fmtPos ps args = .ok out) :
    fmtPos ((if acc.isEmpty then [] else [Piece.lit acc.reverse]) ++ ps) args = .ok (acc.reverse ++ out) := by
  cases acc with
  | nil => simpa using h
  | cons c cs => simp [fmtPos, h, Except.map]

/-- `parseFmt` then `fmtPos` computes what `direct` reads off the string -/
theorem parse_direct : ∀ (fuel : Nat) (s acc : List Char) (args : List (List Char)) (out : List Char),
    s.length < fuel → direct s args = some out →
    ∃ ps, parseFmt fuel s acc = some ps ∧ fmtPos ps args = .ok (acc.reverse ++ out) := by
  intro fuel
  induction fuel with
  | zero => intro s acc args out h; omega
  | succ n ih =>
    intro s acc args out hlen hd
    cases s with
    | nil =>
      cases args with
      | nil =>
        simp only [direct, Option.some.injEq] at hd
        subst hd
        refine ⟨_, rfl, ?_⟩
        have := fmtPos_lit_pre acc [] [] [] rfl
        simpa using this
      | cons a as => simp [direct] at hd
    | cons c r =>
      by_cases hc : c = '%'
      · subst hc
        cases r with
        | nil => simp [direct] at hd
        | cons d r' =>
          by_cases hd1 : d = '%'
          · subst hd1
            simp only [direct, Option.map_eq_some_iff] at hd
            obtain ⟨o, ho, rfl⟩ := hd
            obtain ⟨ps, hp, hf⟩ := ih r' [] args o (by simp at hlen ⊢; omega) ho
            refine ⟨(if acc.isEmpty then [] else [Piece.lit acc.reverse]) ++ Piece.pct :: ps,
              by simp [parseFmt, hp], ?_⟩
            have h1 : fmtPos (Piece.pct :: ps) args = .ok ('%' :: o) := by
              simp only [fmtPos, hf, Except.map]; simp
            have := fmtPos_lit_pre acc (Piece.pct :: ps) args _ h1
            simpa using this
          by_cases hd2 : d = 's'
          · subst hd2
            cases args with
            | nil => simp [direct] at hd
            | cons a as =>
              simp only [direct, Option.map_eq_some_iff] at hd
              obtain ⟨o, ho, rfl⟩ := hd
              obtain ⟨ps, hp, hf⟩ := ih r' [] as o (by simp at hlen ⊢; omega) ho
              refine ⟨(if acc.isEmpty then [] else [Piece.lit acc.reverse]) ++ Piece.arg :: ps,
                by simp [parseFmt, hp], ?_⟩
              have h1 : fmtPos (Piece.arg :: ps) (a :: as) = .ok (a ++ o) := by
                simp only [fmtPos, hf, Except.map]; simp
              have := fmtPos_lit_pre acc (Piece.arg :: ps) (a :: as) _ h1
              simpa using this
          · exfalso
            rw [direct] at hd
            · cases hd
            all_goals (intros; simp_all)
      · rw [direct] at hd
        · simp only [Option.map_eq_some_iff] at hd
          obtain ⟨o, ho, rfl⟩ := hd
          obtain ⟨ps, hp, hf⟩ := ih r (c :: acc) args o (by simp at hlen ⊢; omega) ho
          refine ⟨ps, ?_, by simpa using hf⟩
          rw [parseFmt]
          · exact hp
          all_goals (intros; simp_all)
        all_goals (intros; simp_all)

theorem direct_cons_ne (c : Char) (r : List Char) (as : List (List Char)) (hc : c ≠ '%') :
    direct (c :: r) as = (direct r as).map (c :: ·) := by
  rw [direct]
  all_goals (intros; simp_all)

theorem direct_nopct (x tail : List Char) (as : List (List Char)) (hx : ∀ c ∈ x, c ≠ '%') :
    direct (x ++ tail) as = (direct tail as).map (x ++ ·) := by
  induction x with
  | nil => simp
  | cons c cs ih =>
    rw [List.cons_append, direct_cons_ne c _ as (hx c (by simp)), ih fun d hd => hx d (List.mem_cons_of_mem _ hd)]
    simp [Option.map_map, Function.comp_def]

theorem direct_pctDouble (l tail : List Char) (as : List (List Char)) :
    direct (pctDouble l ++ tail) as = (direct tail as).map (l ++ ·) := by
  induction l with
  | nil => simp [pctDouble]
  | cons c cs ih =>
    simp only [pctDouble, List.flatMap_cons] at ih ⊢
    by_cases hc : c = '%'
    · subst hc
      simp only [↓reduceIte, List.cons_append, List.nil_append, List.append_assoc, direct, ih]
      simp [Option.map_map, Function.comp_def]
    · simp only [hc, ↓reduceIte, List.cons_append, List.nil_append]
      rw [direct_cons_ne c _ as hc, ih]
      simp [Option.map_map, Function.comp_def]

theorem direct_hole (tail : List Char) (a : List Char) (as : List (List Char)) :
    direct ('%' :: 's' :: tail) (a :: as) = (direct tail as).map (a ++ ·) := by
  simp [direct]

def nameNoPct (n : Name) : Prop := ∀ c ∈ n, c ≠ '%'

def piecesNoPct : List FPiece → Prop
  | [] => True
  | .open t attrs :: rest => nameNoPct t ∧ (∀ p ∈ attrs, nameNoPct p.1) ∧ piecesNoPct rest
  | .close t :: rest => nameNoPct t ∧ piecesNoPct rest
  | _ :: rest => piecesNoPct rest

theorem direct_attr_lit (n : Name) (v tail : List Char) (as : List (List Char)) (hn : nameNoPct n) :
    direct (fmtAttr (n, .lit v) ++ tail) as = (direct tail as).map (attrRaw n (escapePy true v) ++ ·) := by
  have e : fmtAttr (n, .lit v) ++ tail
      = ' ' :: (n ++ ('=' :: '"' :: (pctDouble (escapePy true v) ++ ('"' :: tail)))) := by
    simp [fmtAttr]
  rw [e, direct_cons_ne ' ' _ _ (by decide), direct_nopct n _ _ hn, direct_cons_ne '=' _ _ (by decide),
    direct_cons_ne '"' _ _ (by decide), direct_pctDouble, direct_cons_ne '"' _ _ (by decide)]
  simp [Option.map_map, Function.comp_def, attrRaw]

theorem direct_attr_hole (n : Name) (a tail : List Char) (as : List (List Char)) (hn : nameNoPct n) :
    direct (fmtAttr (n, .hole) ++ tail) (a :: as) = (direct tail as).map (attrRaw n a ++ ·) := by
  have e : fmtAttr (n, .hole) ++ tail = ' ' :: (n ++ ('=' :: '"' :: '%' :: 's' :: '"' :: tail)) := by
    simp [fmtAttr]
  rw [e, direct_cons_ne ' ' _ _ (by decide), direct_nopct n _ _ hn, direct_cons_ne '=' _ _ (by decide),
    direct_cons_ne '"' _ _ (by decide), direct_hole, direct_cons_ne '"' _ _ (by decide)]
  simp [Option.map_map, Function.comp_def, attrRaw]

theorem direct_attrs (attrs : List (Name × FAttr)) (hn : ∀ p ∈ attrs, nameNoPct p.1) :
    ∀ (args : List (List Char)) (at_ : List (Name × List Char)) (args' : List (List Char)) (tail : List Char),
      fillAttrs attrs args = some (at_, args') →
      direct (attrs.flatMap fmtAttr ++ tail) (args.map (escapePy true)) =
        (direct tail (args'.map (escapePy true))).map
          (attrsRaw (at_.map fun p => (p.1, escapePy true p.2)) ++ ·) := by
  induction attrs with
  | nil =>
    intro args at_ args' tail h
    simp only [fillAttrs, Option.some.injEq, Prod.mk.injEq] at h
    obtain ⟨rfl, rfl⟩ := h
    simp [attrsRaw]
  | cons p ps ih =>
    intro args at_ args' tail h
    obtain ⟨n, fa⟩ := p
    have hnn : nameNoPct n := hn (n, fa) (by simp)
    have ih' := ih fun q hq => hn q (List.mem_cons_of_mem _ hq)
    cases fa with
    | lit v =>
      simp only [fillAttrs, Option.map_eq_some_iff] at h
      obtain ⟨⟨at1, a1⟩, h1, h2⟩ := h
      simp only [Prod.mk.injEq] at h2
      obtain ⟨rfl, rfl⟩ := h2
      rw [List.flatMap_cons, List.append_assoc, direct_attr_lit n v _ _ hnn, ih' args at1 a1 tail h1]
      simp [Option.map_map, Function.comp_def, attrsRaw]
    | hole =>
      cases args with
      | nil => simp [fillAttrs] at h
      | cons a as =>
        simp only [fillAttrs, Option.map_eq_some_iff] at h
        obtain ⟨⟨at1, a1⟩, h1, h2⟩ := h
        simp only [Prod.mk.injEq] at h2
        obtain ⟨rfl, rfl⟩ := h2
        rw [List.flatMap_cons, List.append_assoc, List.map_cons, direct_attr_hole n _ _ _ hnn,
          ih' as at1 a1 tail h1]
        simp [Option.map_map, Function.comp_def, attrsRaw]

/-- the format string applied to the escaped operands is the author's markup with each operand
    escaped in its hole -/
theorem direct_fmtString : ∀ (pieces : List FPiece) (args : List (List Char)) (toks : List Tok),
    piecesNoPct pieces → fillEsc pieces args = some toks →
    direct (fmtString pieces) (args.map (escapePy true)) = some ((toks.map rawOf).flatMap (emitRTok .xml)) := by
  intro pieces
  induction pieces with
  | nil =>
    intro args toks _ h
    cases args with
    | nil => simp [fillEsc] at h; subst h; simp [fmtString, direct]
    | cons a as => simp [fillEsc] at h
  | cons p ps ih =>
    intro args toks hn h
    cases p with
    | text s =>
      simp only [fillEsc, Option.map_eq_some_iff] at h
      obtain ⟨ts, h1, rfl⟩ := h
      have := ih args ts (by simpa [piecesNoPct] using hn) h1
      simp only [fmtString, direct_pctDouble, this, Option.map_some, List.map_cons, List.flatMap_cons, rawOf,
        emitRTok]
    | hole =>
      cases args with
      | nil => simp [fillEsc] at h
      | cons a as =>
        simp only [fillEsc, Option.map_eq_some_iff] at h
        obtain ⟨ts, h1, rfl⟩ := h
        have := ih as ts (by simpa [piecesNoPct] using hn) h1
        simp only [fmtString, List.map_cons, direct_hole, this, Option.map_some, List.flatMap_cons, rawOf, emitRTok]
    | «open» t attrs =>
      simp only [piecesNoPct] at hn
      obtain ⟨ht, hat, hrest⟩ := hn
      simp only [fillEsc] at h
      cases hfa : fillAttrs attrs args with
      | none => simp [hfa] at h
      | some r =>
        obtain ⟨at_, args'⟩ := r
        simp only [hfa, Option.map_eq_some_iff] at h
        obtain ⟨ts, h1, rfl⟩ := h
        have hrec := ih args' ts hrest h1
        have hattrs := direct_attrs attrs hat args at_ args' ('>' :: fmtString ps) hfa
        simp only [fmtString]
        rw [direct_cons_ne '<' _ _ (by decide), direct_nopct t _ _ ht, hattrs,
          direct_cons_ne '>' _ _ (by decide), hrec]
        simp [rawOf, emitRTok]
    | close t =>
      simp only [piecesNoPct] at hn
      simp only [fillEsc, Option.map_eq_some_iff] at h
      obtain ⟨ts, h1, rfl⟩ := h
      have hrec := ih args ts hn.2 h1
      simp only [fmtString]
      rw [direct_cons_ne '<' _ _ (by decide), direct_cons_ne '/' _ _ (by decide), direct_nopct t _ _ hn.1,
        direct_cons_ne '>' _ _ (by decide), hrec]
      simp [rawOf, emitRTok]

/-- **`Markup(fmt) % operands` with author markup**: every operand escaped in its hole -/
theorem mMod_pieces (pieces : List FPiece) (args : List (List Char)) (toks : List Tok)
    (hn : piecesNoPct pieces) (hf : fillEsc pieces args = some toks) :
    mMod escapePy (fmtString pieces) (.tup (args.map Opnd.plain)) =
      .ok ((toks.map rawOf).flatMap (emitRTok .xml)) := by
  have hd := direct_fmtString pieces args toks hn hf
  obtain ⟨ps, hp, hfp⟩ := parse_direct ((fmtString pieces).length + 1) (fmtString pieces) []
    (args.map (escapePy true)) _ (by omega) hd
  unfold mMod
  rw [hp]
  simp only [List.map_map]
  have : (args.map ((escOpnd escapePy true) ∘ Opnd.plain)) = args.map (escapePy true) := by
    apply List.map_congr_left; intro a _; rfl
  rw [this, hfp]
  simp

/-- what `fillEsc` produces: no EMPTY tokens, and its `Markup` texts are escaped operands -/
theorem fillEsc_toks : ∀ (pieces : List FPiece) (args : List (List Char)) (toks : List Tok),
    fillEsc pieces args = some toks →
    ∀ tok ∈ toks, (∀ t a, tok ≠ .empty t a) ∧ (∀ s, tok = .text s true → ∃ a, s = escapePy true a) := by
  intro pieces
  induction pieces with
  | nil =>
    intro args toks h tok htok
    cases args with
    | nil => simp [fillEsc] at h; subst h; cases htok
    | cons a as => simp [fillEsc] at h
  | cons p ps ih =>
    intro args toks h tok htok
    cases p with
    | text s =>
      simp only [fillEsc, Option.map_eq_some_iff] at h
      obtain ⟨ts, h1, rfl⟩ := h
      rcases List.mem_cons.mp htok with rfl | h'
      · exact ⟨by simp, by simp⟩
      · exact ih args ts h1 tok h'
    | hole =>
      cases args with
      | nil => simp [fillEsc] at h
      | cons a as =>
        simp only [fillEsc, Option.map_eq_some_iff] at h
        obtain ⟨ts, h1, rfl⟩ := h
        rcases List.mem_cons.mp htok with rfl | h'
        · exact ⟨by simp, by intro s hs; simp at hs; exact ⟨a, hs.symm⟩⟩
        · exact ih as ts h1 tok h'
    | «open» t attrs =>
      simp only [fillEsc] at h
      cases hfa : fillAttrs attrs args with
      | none => simp [hfa] at h
      | some r =>
        obtain ⟨at_, args'⟩ := r
        simp only [hfa, Option.map_eq_some_iff] at h
        obtain ⟨ts, h1, rfl⟩ := h
        rcases List.mem_cons.mp htok with rfl | h'
        · exact ⟨by simp, by simp⟩
        · exact ih args' ts h1 tok h'
    | close t =>
      simp only [fillEsc, Option.map_eq_some_iff] at h
      obtain ⟨ts, h1, rfl⟩ := h
      rcases List.mem_cons.mp htok with rfl | h'
      · exact ⟨by simp, by simp⟩
      · exact ih args ts h1 tok h'

theorem emitRTok_rawOf_method (m : Method) (tok : Tok) (h : ∀ t a, tok ≠ .empty t a) :
    emitRTok m (rawOf tok) = emitRTok .xml (rawOf tok) := by
  cases tok with
  | text s f => cases f <;> rfl
  | «open» t a => rfl
  | close t => rfl
  | empty t a => exact absurd rfl (h t a)

/-- reading `Markup(fmt) % operands`: the author's elements, the operands as data -/
theorem readDoc_mMod_pieces (m : Method) (pieces : List FPiece) (args : List (List Char)) (toks : List Tok)
    (hn : piecesNoPct pieces) (hf : fillEsc pieces args = some toks)
    (hok : ∀ t ∈ toks, tokOkB m t = true) (hopen : ∀ t a, Tok.open t a ∈ toks → openOk m t = true) :
    ∃ s, mMod escapePy (fmtString pieces) (.tup (args.map Opnd.plain)) = .ok s ∧
      readDoc m s = some (coalesce (toks.flatMap tokEvents)) := by
  refine ⟨_, mMod_pieces pieces args toks hn hf, ?_⟩
  have hprops := fillEsc_toks pieces args toks hf
  have hsafe : ∀ s, Tok.text s true ∈ toks → SafeOk s := by
    intro s hs
    obtain ⟨a, rfl⟩ := (hprops _ hs).2 s rfl
    exact SafeOk.escaped true a
  have hem : (toks.map rawOf).flatMap (emitRTok .xml) = (toks.map rawOf).flatMap (emitRTok m) := by
    rw [List.flatMap_map, List.flatMap_map]
    clear hf hok hopen hsafe
    induction toks with
    | nil => rfl
    | cons t ts ih =>
      simp only [List.flatMap_cons]
      rw [emitRTok_rawOf_method m t (hprops t (by simp)).1, ih fun x hx => hprops x (List.mem_cons_of_mem _ hx)]
  rw [hem, readDoc_rtoks]
  · have := absorb_coalesce m toks hsafe hopen [] []
    rw [escapeMixed_nil] at this
    rw [this]
    simp [coalesce]
  · intro rt hrt
    obtain ⟨tok, htok, rfl⟩ := List.mem_map.mp hrt
    exact rtokOk_rawOf m tok (hok tok htok) (fun s hs => hsafe s (hs ▸ htok))

end Genshi.Subst

/-
  Helper lemmas for C08: the round trips over whole documents — a prolog (XML
  declaration, DOCTYPE) followed by a forest in one namespace whose leaves may be
  text, comments, processing instructions and CDATA sections — with or without a
  doctype option.  The expected tokens are defined by recursion on the forest.
-/
import Genshi.Lemmas.ReaderTreeNs
import Genshi.Lemmas.ReaderPrologSim
import Genshi.Lemmas.ReaderLiterals
namespace Genshi.Reader
open Genshi Genshi.Escape Genshi.Output

/-! ### html: pieces of an event list with PI and DOCTYPE events -/

def dtPieces (n : Str) (p s : Option Str) : List Piece := [.tok (.doctype (doctypeContent n p s)), .chars ['\n']]

/-- the pieces one event is read back as; `hd`: a DOCTYPE has been written before -/
def evPieceH (hd : Bool) : FEv → List Piece
  | .doctype n p s => if hd then [] else dtPieces n p s
  | .pi t d => [.tok (.pi (t ++ ' ' :: d ++ ['?']))]
  | ev => evPieces ev

def hdAfter (hd : Bool) : FEv → Bool
  | .doctype _ _ _ => true
  | _ => hd

def evsPiecesH : Bool → List FEv → List Piece
  | _, [] => []
  | hd, ev :: rest => evPieceH hd ev ++ evsPiecesH (hdAfter hd ev) rest

theorem htmlEvP_pieces (r : RS) (hd : Bool) (ev : FEv) :
    bt (htmlEvP r hd ev).1 = (evPieceH hd ev).foldl applyPiece (bt r) ∧ (htmlEvP r hd ev).2 = hdAfter hd ev := by
  cases ev with
  | doctype n p s => cases hd <;> simp [htmlEvP, evPieceH, dtPieces, hdAfter, bt, applyPiece]
  | pi t d => simp [htmlEvP, evPieceH, hdAfter, bt, applyPiece]
  | start t a => exact ⟨bt_htmlEv r _, rfl⟩
  | empty t a => exact ⟨bt_htmlEv r _, rfl⟩
  | end_ t => exact ⟨bt_htmlEv r _, rfl⟩
  | text s f => exact ⟨bt_htmlEv r _, rfl⟩
  | comment s => exact ⟨bt_htmlEv r _, rfl⟩
  | xmlDecl v e s => exact ⟨bt_htmlEv r _, rfl⟩
  | startNs p u => exact ⟨bt_htmlEv r _, rfl⟩
  | endNs p => exact ⟨bt_htmlEv r _, rfl⟩
  | startCdata => exact ⟨bt_htmlEv r _, rfl⟩
  | endCdata => exact ⟨bt_htmlEv r _, rfl⟩

theorem foldP_pieces (evs : List FEv) : ∀ (r : RS) (hd : Bool),
    bt (foldP evs r hd).1 = (evsPiecesH hd evs).foldl applyPiece (bt r) := by
  induction evs with
  | nil => intro r hd; rfl
  | cons ev rest ih =>
    intro r hd
    have h := htmlEvP_pieces r hd ev
    have := ih (htmlEvP r hd ev).1 (htmlEvP r hd ev).2
    simp only [foldP, List.foldl_cons] at this ⊢
    rw [this, h.1, h.2]
    simp [evsPiecesH, List.foldl_append]

theorem htmlExpectedP_eq_assemble (evs : List FEv) : htmlExpectedP evs = assemble (evsPiecesH false evs) := by
  have := foldP_pieces evs {} false
  simp only [htmlExpectedP, assemble]
  have h1 : (foldP evs {} false).1.buf = (bt (foldP evs {} false).1).1 := rfl
  have h2 : (foldP evs {} false).1.toks = (bt (foldP evs {} false).1).2 := rfl
  rw [h1, h2, this]; rfl

/-! ### html: the forest -/

/-- leaves of the document body outside script/style: plain text, comments without `--`, processing
    instructions without `>`, CDATA markers (not written under html).  DOCTYPE and XML declaration
    belong to the prolog. -/
def leafOkH : Event → Bool
  | .text _ f => !f
  | .comment s => commentOk s
  | .pi t d => piSafe false false (t ++ ' ' :: d)
  | .startCdata => true
  | .endCdata => true
  | _ => false

mutual
  def htmlTreeOkP : Node → Bool
    | .elem t a ks =>
        nameOkB t.loc && (fAttrs a).all (fun p => nameOkB p.1) &&
          (if rawTextElems.contains t.loc then rawKidsOk ks else htmlForestOkP ks)
    | .leaf e => leafOkH e
  def htmlForestOkP : List Node → Bool
    | [] => true
    | n :: ns => htmlTreeOkP n && htmlForestOkP ns
end

mutual
  /-- html: as `treePieces`, plus processing instructions (html.parser's convention: the `?` of the
      closing `?>` is part of the data) -/
  def treePiecesP : Node → List Piece
    | .elem t a ks =>
        .tok (.start t.loc (htmlAttrToks (fAttrs a)) false) ::
          (if ks.isEmpty then (if inTable (emptyElems .html) t.loc then [] else [.tok (.end_ t.loc)])
           else forestPiecesP ks ++ [.tok (.end_ t.loc)])
    | .leaf (.text s _) => [.chars s]
    | .leaf (.comment s) => [.tok (.comment s)]
    | .leaf (.pi t d) => [.tok (.pi (t ++ ' ' :: d ++ ['?']))]
    | .leaf _ => []
  def forestPiecesP : List Node → List Piece
    | [] => []
    | n :: ns => treePiecesP n ++ forestPiecesP ns
end

/-- what the three parts of the lemmas below say about a list of events standing in front of `rest` -/
structure BodyH (evs : List FEv) (ps : List Piece) : Prop where
  ok : ∀ hd rest, HtmlOkAllP false hd rest → HtmlOkAllP false hd (evs ++ rest)
  raw : ∀ rest, rawEndP false (evs ++ rest) = rawEndP false rest
  pieces : ∀ hd rest, evsPiecesH hd (evs ++ rest) = ps ++ evsPiecesH hd rest

theorem BodyH.nil : BodyH [] [] := ⟨fun _ _ h => h, fun _ => rfl, fun _ _ => rfl⟩

theorem BodyH.append {a b : List FEv} {pa pb : List Piece} (ha : BodyH a pa) (hb : BodyH b pb) :
    BodyH (a ++ b) (pa ++ pb) := by
  refine ⟨?_, ?_, ?_⟩
  · intro hd rest h; rw [List.append_assoc]; exact ha.ok hd _ (hb.ok hd rest h)
  · intro rest; rw [List.append_assoc, ha.raw, hb.raw]
  · intro hd rest; rw [List.append_assoc, ha.pieces, hb.pieces, List.append_assoc]

/-- raw-text children in front of the end tag of their element -/
theorem rawKids_bodyU (u : Str) (s : Bool) (t : Str) (ht : NameOk t) (ks : List Node) (h : rawKidsOk ks = true) :
    (∀ hd rest, HtmlOkAllP false hd rest → HtmlOkAllP true hd (forestFu u s ks ++ .end_ t :: rest)) ∧
    (∀ rest, rawEndP true (forestFu u s ks ++ .end_ t :: rest) = rawEndP false rest) ∧
    (∀ hd rest, evsPiecesH hd (forestFu u s ks ++ .end_ t :: rest) =
       forestPiecesP ks ++ .tok (.end_ t) :: evsPiecesH hd rest) := by
  induction ks with
  | nil =>
    refine ⟨?_, ?_, ?_⟩
    · intro hd rest hr
      simp only [forestFu, List.nil_append, HtmlOkAllP, HtmlOkP, HtmlOk, rawAfter, HtmlOkAllP.isDoctypeEv,
        Bool.or_false]
      exact ⟨ht, hr⟩
    · intro rest; simp [forestFu, rawEndP, rawAfter]
    · intro hd rest; simp [forestFu, forestPiecesP, evsPiecesH, evPieceH, evPieces, hdAfter]
  | cons k ks' ih =>
    cases k with
    | elem t' a kk => simp [rawKidsOk] at h
    | leaf e =>
      cases e with
      | text x f =>
        simp only [rawKidsOk, Bool.and_eq_true, Bool.not_eq_true'] at h
        obtain ⟨⟨hf, hs⟩, hr⟩ := h
        have ih' := ih hr
        subst hf
        refine ⟨?_, ?_, ?_⟩
        · intro hd rest hrest
          simp only [forestFu, treeFu, leafF, Option.toList_some, List.cons_append,
            HtmlOkAllP, HtmlOkP, HtmlOk, rawAfter, HtmlOkAllP.isDoctypeEv, Bool.or_false, true_and]
          exact ⟨fun _ => hs, ih'.1 hd rest hrest⟩
        · intro rest
          have := ih'.2.1 rest
          simpa [forestFu, treeFu, leafF, rawEndP, rawAfter] using this
        · intro hd rest
          have := ih'.2.2 hd rest
          simp [forestFu, treeFu, leafF, forestPiecesP, treePiecesP, evsPiecesH, evPieceH, evPieces, hdAfter, this]
      | _ => simp [rawKidsOk] at h

theorem nameOk_attrsU (u : Str) (s : Bool) (a : AttrList) (ha : (fAttrs a).all (fun p => nameOkB p.1) = true) :
    ∀ p ∈ declAttr u s ++ fAttrs a, NameOk p.1 := by
  intro p hp
  rcases List.mem_append.mp hp with h1 | h1
  · exact declAttr_names u s p h1
  · exact nameOk_of_B (List.all_eq_true.mp ha p h1)

mutual
  theorem bodyH_treeU (u : Str) : ∀ (s : Bool) (n : Node), htmlTreeOkP n = true → BodyH (treeFu u s n) (treePiecesP n)
    | s, .elem t a ks, h => by
        simp only [htmlTreeOkP, Bool.and_eq_true] at h
        obtain ⟨⟨ht, ha⟩, hk⟩ := h
        have hT := nameOk_of_B ht
        have hA := nameOk_attrsU u s a ha
        cases ks with
        | nil =>
          refine ⟨?_, ?_, ?_⟩
          · intro hd rest hr
            simp only [treeFu, List.isEmpty_nil, ↓reduceIte, List.singleton_append, HtmlOkAllP, HtmlOkP, HtmlOk,
              rawAfter, HtmlOkAllP.isDoctypeEv, Bool.or_false]
            exact ⟨⟨trivial, hT, hA⟩, hr⟩
          · intro rest; simp [treeFu, rawEndP, rawAfter]
          · intro hd rest
            simp only [treeFu, List.isEmpty_nil, ↓reduceIte, List.singleton_append, evsPiecesH, evPieceH, evPieces,
              hdAfter, treePiecesP, htmlAttrToks_decl]
            split <;> simp
        | cons k ks' =>
          by_cases hr : rawTextElems.contains t.loc = true
          · simp only [hr, ↓reduceIte] at hk
            have hkids := rawKids_bodyU u true t.loc hT (k :: ks') hk
            refine ⟨?_, ?_, ?_⟩
            · intro hd rest hrest
              simp only [treeFu, List.isEmpty_cons, Bool.false_eq_true, ↓reduceIte, List.cons_append,
                List.append_assoc, HtmlOkAllP, HtmlOkP, HtmlOk, rawAfter, hr,
                HtmlOkAllP.isDoctypeEv, Bool.or_false]
              exact ⟨⟨trivial, hT, hA⟩, hkids.1 hd rest hrest⟩
            · intro rest
              simp [treeFu, rawEndP, rawAfter]
            · intro hd rest
              have := hkids.2.2 hd rest
              simp only [treeFu, List.isEmpty_cons, Bool.false_eq_true, ↓reduceIte, List.cons_append,
                List.append_assoc, evsPiecesH, evPieceH, evPieces, hdAfter, treePiecesP,
                htmlAttrToks_decl]
              first | exact this | simp [this]
          · simp only [hr, Bool.false_eq_true, ↓reduceIte] at hk
            have hr' : rawTextElems.contains t.loc = false := by simpa using hr
            have hkids := bodyH_forestU u true (k :: ks') hk
            refine ⟨?_, ?_, ?_⟩
            · intro hd rest hrest
              simp only [treeFu, List.isEmpty_cons, Bool.false_eq_true, ↓reduceIte, List.cons_append,
                List.append_assoc, HtmlOkAllP, HtmlOkP, HtmlOk, rawAfter, hr',
                HtmlOkAllP.isDoctypeEv, Bool.or_false]
              refine ⟨⟨trivial, hT, hA⟩, hkids.ok hd _ ?_⟩
              simp only [HtmlOkAllP, HtmlOkP, HtmlOk, rawAfter, HtmlOkAllP.isDoctypeEv, Bool.or_false]
              exact ⟨hT, hrest⟩
            · intro rest
              have := hkids.raw (.end_ t.loc :: rest)
              simp only [treeFu, List.isEmpty_cons, Bool.false_eq_true, ↓reduceIte, List.cons_append,
                List.append_assoc]
              simp only [rawEndP, List.foldl_cons, rawAfter, hr'] at this ⊢
              exact this
            · intro hd rest
              have := hkids.pieces hd (.end_ t.loc :: rest)
              simp only [treeFu, List.isEmpty_cons, Bool.false_eq_true, ↓reduceIte, List.cons_append,
                List.append_assoc, evsPiecesH, evPieceH, evPieces, hdAfter, treePiecesP,
                htmlAttrToks_decl, List.nil_append] at this ⊢
              rw [this]
    | s, .leaf e, h => by
        cases e <;> simp [htmlTreeOkP, leafOkH] at h <;>
          refine ⟨?_, ?_, ?_⟩ <;>
          simp [treeFu, leafF, HtmlOkAllP, HtmlOkP, HtmlOk, rawAfter, rawEndP, HtmlOkAllP.isDoctypeEv, evsPiecesH,
            evPieceH, evPieces, hdAfter, treePiecesP, h]
  theorem bodyH_forestU (u : Str) : ∀ (s : Bool) (ns : List Node), htmlForestOkP ns = true →
      BodyH (forestFu u s ns) (forestPiecesP ns)
    | s, [], _ => by simpa [forestFu, forestPiecesP] using BodyH.nil
    | s, n :: ns, h => by
        simp only [htmlForestOkP, Bool.and_eq_true] at h
        simp only [forestFu, forestPiecesP]
        exact (bodyH_treeU u s n h.1).append (bodyH_forestU u s ns h.2)
end

/-! ### xhtml: pieces of an event list with CDATA sections, PI, DOCTYPE and XML declaration -/

def xdPieces (v : Str) (e : Option Str) (s : Int) : List Piece :=
  [.tok (.pi (xmlDeclContent v e s)), .chars ['\n']]

/-- outside a CDATA section -/
def evPieceX (o : Opts) (f : Flags) : FEv → List Piece
  | .doctype n p s => if f.hd then [] else dtPieces n p s
  | .xmlDecl v e s => if f.hx || o.dropXmlDecl then [] else xdPieces v e s
  | .pi t d => [.tok (.pi (t ++ ' ' :: d))]
  | ev => evPiecesX ev

/-- inside a CDATA section -/
def evPieceCd : FEv → List Piece
  | .text s _ => [.chars s]
  | _ => []

def evsPiecesX (o : Opts) : Bool → Flags → List FEv → List Piece
  | _, _, [] => []
  | c, f, ev :: rest =>
      (if c then evPieceCd ev else evPieceX o f ev) ++ evsPiecesX o (cdAfter c ev) (flagsAfter o c f ev) rest

def btC (r : RC) : Str × List Tok := (r.buf, r.toks)

theorem xhtmlEvP_pieces (o : Opts) (r : RC) (f : Flags) (ev : FEv) :
    btC (xhtmlEvP o r f ev).1 =
      (if r.cd.isSome then evPieceCd ev else evPieceX o f ev).foldl applyPiece (btC r) := by
  obtain ⟨rcd, rbuf, rtoks⟩ := r
  cases rcd with
  | some b => cases ev <;> simp [xhtmlEvP, xhtmlEvC, evPieceCd, btC, applyPiece]
  | none =>
    have other : ∀ ev : FEv, (∀ n p s, ev ≠ .doctype n p s) → (∀ t d, ev ≠ .pi t d) → (∀ v e s, ev ≠ .xmlDecl v e s) →
        ev ≠ .startCdata → xhtmlEvP o ⟨none, rbuf, rtoks⟩ f ev = (RC.ofRS (xhtmlEv ⟨false, rbuf, rtoks⟩ ev), f) ∧
        evPieceX o f ev = evPiecesX ev := by
      intro ev h1 h2 h3 h4
      cases ev with
      | doctype n p s => exact absurd rfl (h1 n p s)
      | pi t d => exact absurd rfl (h2 t d)
      | xmlDecl v e s => exact absurd rfl (h3 v e s)
      | startCdata => exact absurd rfl h4
      | _ => exact ⟨rfl, rfl⟩
    have fin : ∀ ev : FEv, (xhtmlEvP o ⟨none, rbuf, rtoks⟩ f ev = (RC.ofRS (xhtmlEv ⟨false, rbuf, rtoks⟩ ev), f) ∧
        evPieceX o f ev = evPiecesX ev) →
        btC (xhtmlEvP o ⟨none, rbuf, rtoks⟩ f ev).1 =
          (if (⟨none, rbuf, rtoks⟩ : RC).cd.isSome then evPieceCd ev else evPieceX o f ev).foldl applyPiece
            (btC ⟨none, rbuf, rtoks⟩) := by
      intro ev h
      rw [h.1, h.2]
      have := bt_xhtmlEv ⟨false, rbuf, rtoks⟩ ev
      simpa [btC, RC.ofRS, bt] using this
    cases ev with
    | doctype n p s =>
      cases hf : f.hd <;> simp [xhtmlEvP, evPieceX, dtPieces, btC, applyPiece, hf]
    | pi t d => simp [xhtmlEvP, evPieceX, btC, applyPiece]
    | xmlDecl v e s =>
      by_cases hw : (f.hx || o.dropXmlDecl) = true <;> simp [xhtmlEvP, evPieceX, xdPieces, btC, applyPiece, hw]
    | startCdata => simp [xhtmlEvP, xhtmlEvC, evPieceX, evPiecesX, btC]
    | start t a => exact fin _ (other _ (by intro n p s h; cases h) (by intro t d h; cases h) (by intro v e s h; cases h) (by intro h; cases h))
    | empty t a => exact fin _ (other _ (by intro n p s h; cases h) (by intro t d h; cases h) (by intro v e s h; cases h) (by intro h; cases h))
    | end_ t => exact fin _ (other _ (by intro n p s h; cases h) (by intro t d h; cases h) (by intro v e s h; cases h) (by intro h; cases h))
    | text s f' => exact fin _ (other _ (by intro n p s h; cases h) (by intro t d h; cases h) (by intro v e s h; cases h) (by intro h; cases h))
    | comment s => exact fin _ (other _ (by intro n p s h; cases h) (by intro t d h; cases h) (by intro v e s h; cases h) (by intro h; cases h))
    | startNs p u => exact fin _ (other _ (by intro n p s h; cases h) (by intro t d h; cases h) (by intro v e s h; cases h) (by intro h; cases h))
    | endNs p => exact fin _ (other _ (by intro n p s h; cases h) (by intro t d h; cases h) (by intro v e s h; cases h) (by intro h; cases h))
    | endCdata => exact fin _ (other _ (by intro n p s h; cases h) (by intro t d h; cases h) (by intro v e s h; cases h) (by intro h; cases h))

def cdEnd (c : Bool) (evs : List FEv) : Bool := evs.foldl cdAfter c

theorem foldXP_pieces (o : Opts) (evs : List FEv) : ∀ (r : RC) (f : Flags), XhtmlOkAllP o r.cd.isSome f evs →
    btC (foldXP o evs r f).1 = (evsPiecesX o r.cd.isSome f evs).foldl applyPiece (btC r) ∧
    (foldXP o evs r f).1.cd.isSome = cdEnd r.cd.isSome evs := by
  induction evs with
  | nil => intro r f _; exact ⟨rfl, rfl⟩
  | cons ev rest ih =>
    intro r f hok
    have hp := xhtmlEvP_pieces o r f ev
    have hf := xhtmlEvP_flags o r f ev hok.1
    have := ih (xhtmlEvP o r f ev).1 (xhtmlEvP o r f ev).2 (by rw [hf.1, hf.2]; exact hok.2)
    simp only [foldXP, List.foldl_cons] at this ⊢
    rw [this.1, this.2, hp, hf.1, hf.2]
    simp [evsPiecesX, List.foldl_append, cdEnd]

theorem xhtmlExpectedP_eq_assemble (o : Opts) (evs : List FEv) (hok : XhtmlOkAllP o false {} evs) :
    xhtmlExpectedP o evs = assemble (evsPiecesX o false {} evs) := by
  have := (foldXP_pieces o evs {} {} hok).1
  simp only [xhtmlExpectedP, assemble]
  have h1 : (foldXP o evs {} {}).1.buf = (btC (foldXP o evs {} {}).1).1 := rfl
  have h2 : (foldXP o evs {} {}).1.toks = (btC (foldXP o evs {} {}).1).2 := rfl
  rw [h1, h2, this]; rfl

/-! ### xhtml: the forest -/

/-- leaves of the document body; `inCd`: inside a CDATA section (only plain text that cannot close
    it, and the end marker) -/
def leafOkX (inCd : Bool) : Event → Bool
  | .text s f => !f && (!inCd || cdataSafe 2 s)
  | .comment s => !inCd && commentOk s
  | .pi t d => !inCd && piSafe true false (t ++ ' ' :: d)
  | .startCdata => !inCd
  | .endCdata => inCd
  | _ => false

def cdAfterE (inCd : Bool) : Event → Bool
  | .startCdata => true
  | .endCdata => false
  | _ => inCd

mutual
  def xNodeOkP : Node → Bool
    | .elem t a ks =>
        nameOkB t.loc && (fAttrs a).all (fun p => nameOkB p.1 && attrValOkB p.2) && xKidsOkP false ks
    | .leaf _ => true
  /-- a list of siblings; a CDATA section is a run of siblings `START_CDATA, text…, END_CDATA` and
      must be closed in the same list -/
  def xKidsOkP : Bool → List Node → Bool
    | c, [] => !c
    | c, n :: rest =>
        match n with
        | .leaf e => leafOkX c e && xKidsOkP (cdAfterE c e) rest
        | .elem _ _ _ => !c && xNodeOkP n && xKidsOkP false rest
end

mutual
  /-- xhtml pieces of a tree in namespace `u`, processing instructions included; CDATA markers
      vanish, the text between them is ordinary character data -/
  def treePiecesXP (u : Str) (s : Bool) : Node → List Piece
    | .elem t a ks =>
        let at_ := (declAttr u s).map (fun p => (p.1, some p.2)) ++ xhtmlAttrToks (fAttrs a)
        if ks.isEmpty then
          (if inTable (emptyElems .xhtml) t.loc then [.tok (.start t.loc at_ true)]
           else [.tok (.start t.loc at_ false), .tok (.end_ t.loc)])
        else .tok (.start t.loc at_ false) :: (forestPiecesXP u true ks ++ [.tok (.end_ t.loc)])
    | .leaf (.text x _) => [.chars x]
    | .leaf (.comment x) => [.tok (.comment x)]
    | .leaf (.pi t d) => [.tok (.pi (t ++ ' ' :: d))]
    | .leaf _ => []
  def forestPiecesXP (u : Str) (s : Bool) : List Node → List Piece
    | [] => []
    | n :: ns => treePiecesXP u s n ++ forestPiecesXP u s ns
end

/-- a list of events that leads from CDATA state `c` to `c'`, in front of `rest` -/
structure BodyX (o : Opts) (c c' : Bool) (evs : List FEv) (ps : List Piece) : Prop where
  ok : ∀ f rest, XhtmlOkAllP o c' f rest → XhtmlOkAllP o c f (evs ++ rest)
  cd : ∀ rest, cdEnd c (evs ++ rest) = cdEnd c' rest
  pieces : ∀ f rest, evsPiecesX o c f (evs ++ rest) = ps ++ evsPiecesX o c' f rest

theorem BodyX.nil (o : Opts) (c : Bool) : BodyX o c c [] [] := ⟨fun _ _ h => h, fun _ => rfl, fun _ _ => rfl⟩

theorem BodyX.append {o : Opts} {c c' c'' : Bool} {a b : List FEv} {pa pb : List Piece}
    (ha : BodyX o c c' a pa) (hb : BodyX o c' c'' b pb) : BodyX o c c'' (a ++ b) (pa ++ pb) := by
  refine ⟨?_, ?_, ?_⟩
  · intro f rest h; rw [List.append_assoc]; exact ha.ok f _ (hb.ok f rest h)
  · intro rest; rw [List.append_assoc, ha.cd, hb.cd]
  · intro f rest; rw [List.append_assoc, ha.pieces, hb.pieces, List.append_assoc]

theorem bodyX_leaf (o : Opts) (u : Str) (s c : Bool) (e : Event) (h : leafOkX c e = true) :
    BodyX o c (cdAfterE c e) (treeFu u s (.leaf e)) (treePiecesXP u s (.leaf e)) := by
  cases c <;> cases e <;> simp [leafOkX] at h <;>
    refine ⟨?_, ?_, ?_⟩ <;>
    simp [treeFu, leafF, XhtmlOkAllP, XhtmlOkP, XhtmlOkC, XhtmlOk, cdAfter, cdAfterE, flagsAfter, cdEnd, evsPiecesX,
      evPieceX, evPieceCd, evPiecesX, treePiecesXP, h]

theorem xattrsOkU (u : Str) (hu : attrValOkB u = true) (s : Bool) (a : AttrList)
    (ha : (fAttrs a).all (fun p => nameOkB p.1 && attrValOkB p.2) = true) : XAttrsOk (declAttr u s ++ fAttrs a) := by
  intro p hp
  rcases List.mem_append.mp hp with h1 | h1
  · exact declAttr_ok u s hu p h1
  · have := List.all_eq_true.mp ha p h1
    simp only [Bool.and_eq_true] at this
    exact ⟨nameOk_of_B this.1, fun _ => this.2⟩

theorem bodyX_kids (o : Opts) (u : Str) (hu : attrValOkB u = true) : ∀ (ns : List Node) (s c : Bool),
    xKidsOkP c ns = true → BodyX o c false (forestFu u s ns) (forestPiecesXP u s ns)
  | [], s, c, h => by
      have hc : c = false := by simpa [xKidsOkP] using h
      subst hc
      simpa [forestFu, forestPiecesXP] using BodyX.nil o false
  | .leaf e :: rest, s, c, h => by
      simp only [xKidsOkP, Bool.and_eq_true] at h
      simp only [forestFu, forestPiecesXP]
      exact (bodyX_leaf o u s c e h.1).append (bodyX_kids o u hu rest s (cdAfterE c e) h.2)
  | .elem t a ks :: rest, s, c, h => by
      simp only [xKidsOkP, xNodeOkP, Bool.and_eq_true, Bool.not_eq_true'] at h
      obtain ⟨⟨hc, ⟨ht, ha⟩, hk⟩, hrest⟩ := h
      subst hc
      have hT := nameOk_of_B ht
      have hA := xattrsOkU u hu s a ha
      have hR := bodyX_kids o u hu rest s false hrest
      simp only [forestFu, forestPiecesXP]
      refine BodyX.append ?_ hR
      cases ks with
      | nil =>
        refine ⟨?_, ?_, ?_⟩
        · intro f rest' hr
          simp only [treeFu, List.isEmpty_nil, ↓reduceIte, List.singleton_append, XhtmlOkAllP, XhtmlOkP, XhtmlOkC,
            XhtmlOk, Bool.false_eq_true, cdAfter, flagsAfter]
          exact ⟨⟨hT, hA⟩, hr⟩
        · intro rest'; simp [treeFu, cdEnd, cdAfter]
        · intro f rest'
          simp only [treeFu, List.isEmpty_nil, ↓reduceIte, List.singleton_append, evsPiecesX, evPieceX, evPiecesX,
            Bool.false_eq_true, cdAfter, flagsAfter, treePiecesXP, xhtmlAttrToks_decl]
      | cons k ks' =>
        have hK := bodyX_kids o u hu (k :: ks') true false hk
        refine ⟨?_, ?_, ?_⟩
        · intro f rest' hr
          simp only [treeFu, List.isEmpty_cons, Bool.false_eq_true, ↓reduceIte, List.cons_append, List.append_assoc,
            XhtmlOkAllP, XhtmlOkP, XhtmlOkC, XhtmlOk, cdAfter, flagsAfter]
          refine ⟨⟨hT, hA⟩, hK.ok f _ ?_⟩
          simp only [XhtmlOkAllP, XhtmlOkP, XhtmlOkC, XhtmlOk, Bool.false_eq_true, ↓reduceIte,
            cdAfter, flagsAfter]
          exact ⟨hT, hr⟩
        · intro rest'
          have := hK.cd (.end_ t.loc :: rest')
          simp only [treeFu, List.isEmpty_cons, Bool.false_eq_true, ↓reduceIte, List.cons_append, List.append_assoc]
          simp only [cdEnd, List.foldl_cons, cdAfter] at this ⊢
          exact this
        · intro f rest'
          have := hK.pieces f (.end_ t.loc :: rest')
          simp only [treeFu, List.isEmpty_cons, Bool.false_eq_true, ↓reduceIte, List.cons_append, List.append_assoc,
            evsPiecesX, evPieceX, evPiecesX, cdAfter, flagsAfter, treePiecesXP,
            xhtmlAttrToks_decl, List.nil_append] at this ⊢
          rw [this]
termination_by ns => sizeOf ns

end Genshi.Reader

/-
  The invariant of marked streams under which every transformation is safe
  (`Good`: selections are balanced blocks or ENTER … EXIT brackets around a
  balanced interior) and the behaviour of the shared selection loop `runGo`
  (replace / before / after / wrap) on such streams.
-/
import Genshi.Lemmas.Tf
namespace Genshi.Tf

def Uniform (m : Mark) (blk : MStream) : Prop := ∀ p ∈ blk, p.1 = some m
def NoneMarked (l : MStream) : Prop := ∀ p ∈ l, p.1 = none
def NoExit (l : MStream) : Prop := ∀ p ∈ l, p.1 ≠ some .exit

inductive Flat : MStream → Prop
  | nil : Flat []
  | plain (x : MEv) {s : MStream} : Flat s → Flat ((none, x) :: s)
  | block (m : Mark) (blk : MStream) {s : MStream} : m ≠ .enter → m ≠ .exit → Uniform m blk →
      Bal (unmark blk) → Flat s → Flat (blk ++ s)

inductive Good : MStream → Prop
  | nil : Good []
  | plain (x : MEv) {s : MStream} : Good s → Good ((none, x) :: s)
  | block (m : Mark) (blk : MStream) {s : MStream} : m ≠ .enter → m ≠ .exit → Uniform m blk →
      Bal (unmark blk) → Good s → Good (blk ++ s)
  | elem (t : QName) (a : AttrList) (mid : MStream) {s : MStream} : Flat mid → Bal (unmark mid) →
      Good s → Good ((some .enter, .ev (.start t a)) :: (mid ++ (some .exit, .ev (.end_ t)) :: s))

theorem Flat.noExit {l : MStream} (h : Flat l) : NoExit l := by
  induction h with
  | nil => intro p hp; simp at hp
  | plain x _ ih =>
    intro p hp
    rcases List.mem_cons.mp hp with rfl | hp
    · simp
    · exact ih p hp
  | block m blk hne hnx hu _ _ ih =>
    intro p hp
    rcases List.mem_append.mp hp with hp | hp
    · rw [hu p hp]; intro h; exact hnx (by injection h)
    · exact ih p hp

def K (keep : Bool) (blk : MStream) : MStream := if keep then blk else []

section run
variable (pre post : MStream) (keep : Bool)

theorem runGo_inRun_block (m : Mark) (blk s : MStream) (h : Uniform m blk) :
    runGo pre post keep (.inRun m) (blk ++ s) = K keep blk ++ runGo pre post keep (.inRun m) s := by
  induction blk with
  | nil => simp [K]
  | cons p blk ih =>
    obtain ⟨m', x⟩ := p
    have hm : m' = some m := h (m', x) (by simp)
    have hu : Uniform m blk := fun q hq => h q (by simp [hq])
    subst hm
    simp only [List.cons_append, runGo, ↓reduceIte, ih hu]
    cases keep <;> simp [K]

theorem runGo_idle_block (m : Mark) (hm : m ≠ .enter) (p : MItem) (blk s : MStream)
    (h : Uniform m (p :: blk)) :
    runGo pre post keep .idle ((p :: blk) ++ s) =
      pre ++ (K keep (p :: blk) ++ runGo pre post keep (.inRun m) s) := by
  obtain ⟨m', x⟩ := p
  have hm' : m' = some m := h (m', x) (by simp)
  have hu : Uniform m blk := fun q hq => h q (by simp [hq])
  subst hm'
  simp only [List.cons_append, runGo, startSt, hm, ↓reduceIte, runGo_inRun_block pre post keep m blk s hu]
  cases keep <;> simp [K]

theorem runGo_inRun_other (m0 m : Mark) (hne : m ≠ m0) (hm : m ≠ .enter) (p : MItem) (blk s : MStream)
    (h : Uniform m (p :: blk)) :
    runGo pre post keep (.inRun m0) ((p :: blk) ++ s) =
      post ++ (pre ++ (K keep (p :: blk) ++ runGo pre post keep (.inRun m) s)) := by
  obtain ⟨m', x⟩ := p
  have hm' : m' = some m := h (m', x) (by simp)
  have hu : Uniform m blk := fun q hq => h q (by simp [hq])
  subst hm'
  have : (some m = some m0) = False := by simp [hne]
  simp only [List.cons_append, runGo, this, ↓reduceIte, startSt, hm,
    runGo_inRun_block pre post keep m blk s hu]
  cases keep <;> simp [K]

theorem runGo_inEnter_mid (mid : MStream) (x : MEv) (s : MStream) (h : NoExit mid) :
    runGo pre post keep .inEnter (mid ++ (some .exit, x) :: s) =
      K keep (mid ++ [(some .exit, x)]) ++ (post ++ runGo pre post keep .idle s) := by
  induction mid with
  | nil => cases keep <;> simp [runGo, K]
  | cons p mid ih =>
    obtain ⟨m', y⟩ := p
    have hp : m' ≠ some .exit := h (m', y) (by simp)
    have hu : NoExit mid := fun q hq => h q (by simp [hq])
    simp only [List.cons_append, runGo, hp, ↓reduceIte, ih hu]
    cases keep <;> simp [K]

theorem runGo_idle_elem (e : MEv) (mid : MStream) (x : MEv) (s : MStream) (h : NoExit mid) :
    runGo pre post keep .idle ((some .enter, e) :: (mid ++ (some .exit, x) :: s)) =
      pre ++ (K keep ((some .enter, e) :: (mid ++ [(some .exit, x)])) ++
        (post ++ runGo pre post keep .idle s)) := by
  simp only [runGo, startSt, ↓reduceIte, runGo_inEnter_mid pre post keep mid x s h]
  cases keep <;> simp [K]

theorem runGo_inRun_elem (m0 : Mark) (hm0 : m0 ≠ .enter) (e : MEv) (mid : MStream) (x : MEv)
    (s : MStream) (h : NoExit mid) :
    runGo pre post keep (.inRun m0) ((some .enter, e) :: (mid ++ (some .exit, x) :: s)) =
      post ++ (pre ++ (K keep ((some .enter, e) :: (mid ++ [(some .exit, x)])) ++
        (post ++ runGo pre post keep .idle s))) := by
  have : (some Mark.enter = some m0) = False := by
    simp; intro h; exact hm0 h.symm
  simp only [runGo, this, ↓reduceIte, startSt, runGo_inEnter_mid pre post keep mid x s h]
  cases keep <;> simp [K]

end run



theorem unmark_K_bal (keep : Bool) (blk : MStream) (h : Bal (unmark blk)) : Bal (unmark (K keep blk)) := by
  cases keep <;> simp [K, h, unmark, Bal.nil]

theorem unmark_elem (t : QName) (a : AttrList) (mid s : MStream) :
    unmark ((some .enter, .ev (.start t a)) :: (mid ++ (some .exit, .ev (.end_ t)) :: s)) =
      (.start t a :: (unmark mid ++ [.end_ t])) ++ unmark s := by
  simp [unmark, unmark_append]

theorem unmark_elem' (t : QName) (a : AttrList) (mid : MStream) :
    unmark ((some .enter, .ev (.start t a)) :: (mid ++ [(some .exit, .ev (.end_ t))])) =
      (.start t a :: (unmark mid ++ [.end_ t])) := by
  simp [unmark, unmark_append]

theorem bal_elem (t : QName) (a : AttrList) {mid : Stream} (h : Bal mid) :
    Bal (.start t a :: (mid ++ [.end_ t])) := wellNested_wrap t a h

def Wrapper (pre post : Stream) : Prop :=
  ∀ (X : Stream) (st : List QName) (rest : Stream), Bal X →
    balance st (pre ++ (X ++ (post ++ rest))) = balance st rest

theorem runGo_balance {pre post : MStream} (keep : Bool)
    (hw : Wrapper (unmark pre) (unmark post)) {s : MStream} (hg : Good s) :
    (∀ st, balance st (unmark (runGo pre post keep .idle s)) = balance st (unmark s)) ∧
    (∀ m, m ≠ .enter → ∀ (X : Stream) st, Bal X →
      balance st (unmark pre ++ (X ++ unmark (runGo pre post keep (.inRun m) s))) =
        balance st (unmark s)) := by
  induction hg with
  | nil =>
    refine ⟨fun st => by simp [runGo], fun m _ X st hX => ?_⟩
    have := hw X st [] hX
    simpa [runGo, unmark] using this
  | @plain x s' _ ih =>
    have ha : ∀ st, balance st (unmark (runGo pre post keep .idle ((none, x) :: s'))) =
        balance st (unmark ((none, x) :: s')) := by
      intro st
      cases x with
      | ev e => simp only [runGo, unmark]; exact balance_cons_congr e ih.1 st
      | attr t a => simp only [runGo, unmark]; exact ih.1 st
      | brk => simp only [runGo, unmark]; exact ih.1 st
    refine ⟨ha, fun m _ X st hX => ?_⟩
    have hne : ((none : Option Mark) = some m) = False := by simp
    have := ha st
    simp only [runGo] at this
    simp only [runGo, hne, ↓reduceIte, unmark_append]
    rw [hw X st _ hX]
    exact this
  | @block m' blk s' hne hnx hu hb _ ih =>
    cases blk with
    | nil => simpa using ih
    | cons p blk =>
      have hK := unmark_K_bal keep (p :: blk) hb
      constructor
      · intro st
        rw [runGo_idle_block pre post keep m' hne p blk _ hu]
        simp only [unmark_append]
        rw [ih.2 m' hne _ st hK, balance_bal st hb]
      · intro m hm X st hX
        by_cases hmm : m' = m
        · subst hmm
          rw [runGo_inRun_block pre post keep m' (p :: blk) _ hu]
          simp only [unmark_append]
          rw [← List.append_assoc X, ih.2 m' hm _ st (hX.append hK), balance_bal st hb]
        · rw [runGo_inRun_other pre post keep m m' hmm hne p blk _ hu]
          simp only [unmark_append]
          rw [hw X st _ hX, ih.2 m' hne _ st hK, balance_bal st hb]
  | @elem t a mid s' hf hb _ ih =>
    have hE : Bal (unmark ((some Mark.enter, MEv.ev (.start t a)) :: (mid ++ [(some Mark.exit, MEv.ev (.end_ t))]))) := by
      rw [unmark_elem']; exact bal_elem t a hb
    have hK := unmark_K_bal keep _ hE
    constructor
    · intro st
      rw [runGo_idle_elem pre post keep _ mid _ _ hf.noExit]
      simp only [unmark_append]
      rw [hw _ st _ hK, ih.1 st, unmark_elem, balance_bal st (bal_elem t a hb)]
    · intro m hm X st hX
      rw [runGo_inRun_elem pre post keep m hm _ mid _ _ hf.noExit]
      simp only [unmark_append]
      rw [hw X st _ hX, hw _ st _ hK, ih.1 st, unmark_elem, balance_bal st (bal_elem t a hb)]



theorem Good.append_plain {l s : MStream} (hl : NoneMarked l) (hs : Good s) : Good (l ++ s) := by
  induction l with
  | nil => exact hs
  | cons p l ih =>
    obtain ⟨m, x⟩ := p
    have hm : m = none := hl (m, x) (by simp)
    subst hm
    exact Good.plain x (ih (fun q hq => hl q (by simp [hq])))

theorem Flat.append_plain {l s : MStream} (hl : NoneMarked l) (hs : Flat s) : Flat (l ++ s) := by
  induction l with
  | nil => exact hs
  | cons p l ih =>
    obtain ⟨m, x⟩ := p
    have hm : m = none := hl (m, x) (by simp)
    subst hm
    exact Flat.plain x (ih (fun q hq => hl q (by simp [hq])))

theorem Good.K_block (keep : Bool) {m : Mark} {blk s : MStream} (hne : m ≠ .enter) (hnx : m ≠ .exit)
    (hu : Uniform m blk) (hb : Bal (unmark blk)) (hs : Good s) : Good (K keep blk ++ s) := by
  cases keep
  · simpa [K] using hs
  · simpa [K] using Good.block m blk hne hnx hu hb hs

theorem Good.K_elem (keep : Bool) {t : QName} {a : AttrList} {mid s : MStream} (hf : Flat mid)
    (hb : Bal (unmark mid)) (hs : Good s) :
    Good (K keep ((some .enter, .ev (.start t a)) :: (mid ++ [(some .exit, .ev (.end_ t))])) ++ s) := by
  cases keep
  · simpa [K] using hs
  · simpa [K] using Good.elem t a mid hf hb hs

theorem runGo_good {pre post : MStream} (keep : Bool) (hpre : NoneMarked pre) (hpost : NoneMarked post)
    {s : MStream} (hg : Good s) :
    Good (runGo pre post keep .idle s) ∧
    (∀ m, m ≠ .enter → Good (runGo pre post keep (.inRun m) s)) := by
  induction hg with
  | nil =>
    refine ⟨by simpa [runGo] using Good.nil, fun m _ => ?_⟩
    simpa [runGo] using Good.append_plain hpost Good.nil
  | @plain x s' _ ih =>
    have ha : Good (runGo pre post keep .idle ((none, x) :: s')) := by
      simpa [runGo] using Good.plain x ih.1
    refine ⟨ha, fun m _ => ?_⟩
    have hne : ((none : Option Mark) = some m) = False := by simp
    simp only [runGo] at ha
    simp only [runGo, hne, ↓reduceIte]
    exact Good.append_plain hpost ha
  | @block m' blk s' hne hnx hu hb _ ih =>
    cases blk with
    | nil => simpa using ih
    | cons p blk =>
      constructor
      · rw [runGo_idle_block pre post keep m' hne p blk _ hu]
        exact Good.append_plain hpre (Good.K_block keep hne hnx hu hb (ih.2 m' hne))
      · intro m hm
        by_cases hmm : m' = m
        · subst hmm
          rw [runGo_inRun_block pre post keep m' (p :: blk) _ hu]
          exact Good.K_block keep hne hnx hu hb (ih.2 m' hm)
        · rw [runGo_inRun_other pre post keep m m' hmm hne p blk _ hu]
          exact Good.append_plain hpost (Good.append_plain hpre
            (Good.K_block keep hne hnx hu hb (ih.2 m' hne)))
  | @elem t a mid s' hf hb _ ih =>
    have h1 : Good (pre ++ (K keep ((some Mark.enter, MEv.ev (.start t a)) ::
        (mid ++ [(some Mark.exit, MEv.ev (.end_ t))])) ++ (post ++ runGo pre post keep .idle s'))) :=
      Good.append_plain hpre (Good.K_elem keep hf hb (Good.append_plain hpost ih.1))
    constructor
    · rw [runGo_idle_elem pre post keep _ mid _ _ hf.noExit]; exact h1
    · intro m hm
      rw [runGo_inRun_elem pre post keep m hm _ mid _ _ hf.noExit]
      exact Good.append_plain hpost h1

end Genshi.Tf


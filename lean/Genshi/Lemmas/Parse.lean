/-
  C07 — lemmas about the shared part of the parser model: `mkQName`, `_coalesce`,
  and the `_generate` loop (batches never matter).
-/
import Genshi.Model.Parse
import Genshi.Lemmas.Core
namespace Genshi.Parse
open Genshi

/-! ### `balance` congruences -/

theorem balance_cons_congr {a b : Stream} (h : ∀ st, balance st a = balance st b) (e : Event)
    (st : List QName) : balance st (e :: a) = balance st (e :: b) := by
  cases e with
  | start t at_ => simp only [balance]; exact h _
  | end_ t =>
    cases st with
    | nil => simp [balance]
    | cons t' st => simp only [balance]; split <;> simp [h]
  | _ => cases st <;> simp only [balance] <;> exact h _

theorem balance_text (s : Str) (f : Bool) (st : List QName) (es : Stream) :
    balance st (.text s f :: es) = balance st es :=
  balance_skip _ rfl st es

theorem balance_flushBuf (buf : Option Str) (st : List QName) (rest : Stream) :
    balance st (flushBuf buf ++ rest) = balance st rest := by
  cases buf with
  | none => simp [flushBuf]
  | some b => simp only [flushBuf, List.cons_append, List.nil_append]; exact balance_text _ _ _ _

/-! ### `_coalesce` -/

theorem coalesceGo_text (f : Bool) (buf : Option Str) (s : Str) (b : Bool) (es : Stream) :
    coalesceGo f buf (.text s b :: es) = coalesceGo f (some (buf.getD [] ++ s)) es := by
  simp [coalesceGo]

theorem coalesceGo_nontext (f : Bool) (buf : Option Str) (e : Event) (es : Stream)
    (h : isText e = false) :
    coalesceGo f buf (e :: es) = flushBuf buf ++ e :: coalesceGo f none es := by
  cases e <;> simp_all [coalesceGo, isText]

@[simp] theorem isText_text (s : Str) (b : Bool) : isText (.text s b) = true := rfl

theorem isText_iff (e : Event) : isText e = true ↔ ∃ s b, e = .text s b := by
  cases e <;> simp [isText]

/-- `_coalesce` only touches TEXT events: nesting is unaffected -/
theorem balance_coalesceGo (f : Bool) : ∀ (s : Stream) (buf : Option Str) (st : List QName),
    balance st (coalesceGo f buf s) = balance st s
  | [], buf, st => by
      cases f
      · simp [coalesceGo]
      · simp only [coalesceGo, ↓reduceIte]
        have := balance_flushBuf buf st []
        simpa using this
  | e :: es, buf, st => by
      by_cases h : isText e = true
      · obtain ⟨s, b, rfl⟩ := (isText_iff e).1 h
        rw [coalesceGo_text, balance_coalesceGo f es _ st, balance_text]
      · have h' : isText e = false := by simpa using h
        rw [coalesceGo_nontext f buf e es h', balance_flushBuf]
        exact balance_cons_congr (fun st => balance_coalesceGo f es none st) _ st

theorem noAdjText_cons_nontext (e : Event) (es : Stream) (h : isText e = false) :
    noAdjText (e :: es) = noAdjText es := by
  simp [noAdjText, h]

/-- after `_coalesce` no two TEXT events are adjacent -/
theorem noAdjText_coalesceGo (f : Bool) : ∀ (s : Stream) (buf : Option Str),
    noAdjText (coalesceGo f buf s) = true
  | [], buf => by
      cases f <;> cases buf <;> simp [coalesceGo, flushBuf, noAdjText, headIsText]
  | e :: es, buf => by
      by_cases h : isText e = true
      · obtain ⟨s, b, rfl⟩ := (isText_iff e).1 h
        rw [coalesceGo_text]; exact noAdjText_coalesceGo f es _
      · have h' : isText e = false := by simpa using h
        rw [coalesceGo_nontext f buf e es h']
        cases buf with
        | none =>
          simp only [flushBuf, List.nil_append]
          rw [noAdjText_cons_nontext e _ h']; exact noAdjText_coalesceGo f es none
        | some b =>
          simp only [flushBuf, List.cons_append, List.nil_append]
          simp only [noAdjText, headIsText, h', isText_text, Bool.and_false, Bool.not_false, Bool.true_and,
            Bool.false_and]
          exact noAdjText_coalesceGo f es none

theorem headIsEnd_coalesceGo (f : Bool) (t : QName) (s : Stream) (h : headIsEnd t s = true) :
    headIsEnd t (coalesceGo f none s) = true := by
  cases s with
  | nil => simp [headIsEnd] at h
  | cons e es =>
    cases e <;> simp_all [headIsEnd, coalesceGo, flushBuf]

theorem voidClosed_flushBuf (v : List Str) (buf : Option Str) (s : Stream) :
    voidClosed v (flushBuf buf ++ s) = voidClosed v s := by
  cases buf <;> simp [flushBuf, voidClosed]

/-- `_coalesce` never separates a START from the END that follows it -/
theorem voidClosed_coalesceGo (v : List Str) (f : Bool) : ∀ (s : Stream) (buf : Option Str),
    voidClosed v s = true → voidClosed v (coalesceGo f buf s) = true
  | [], buf, _ => by
      cases f <;> cases buf <;> simp [coalesceGo, flushBuf, voidClosed]
  | e :: es, buf, h => by
      by_cases ht : isText e = true
      · obtain ⟨s, b, rfl⟩ := (isText_iff e).1 ht
        rw [coalesceGo_text]
        exact voidClosed_coalesceGo v f es _ (by simpa [voidClosed] using h)
      · have h' : isText e = false := by simpa using ht
        rw [coalesceGo_nontext f buf e es h', voidClosed_flushBuf]
        cases e with
        | start t at_ =>
          simp only [voidClosed, Bool.and_eq_true, Bool.or_eq_true, Bool.not_eq_true'] at h ⊢
          refine ⟨?_, voidClosed_coalesceGo v f es none h.2⟩
          rcases h.1 with h1 | h1
          · exact Or.inl h1
          · exact Or.inr (headIsEnd_coalesceGo f t es h1)
        | text s b => simp [isText] at h'
        | _ =>
          simp only [voidClosed] at h ⊢
          exact voidClosed_coalesceGo v f es none h

/-- what `_coalesce` has yielded when its source fails is the beginning of what it yields when
    the source goes on -/
theorem coalesceGo_prefix (f : Bool) : ∀ (a b : Stream) (buf : Option Str),
    coalesceGo false buf a <+: coalesceGo f buf (a ++ b)
  | [], b, buf => by simp [coalesceGo]
  | e :: es, b, buf => by
      by_cases ht : isText e = true
      · obtain ⟨s, b', rfl⟩ := (isText_iff e).1 ht
        simp only [List.cons_append, coalesceGo_text]
        exact coalesceGo_prefix f es b _
      · have h' : isText e = false := by simpa using ht
        simp only [List.cons_append]
        rw [coalesceGo_nontext false buf e es h', coalesceGo_nontext f buf e (es ++ b) h']
        rw [List.prefix_append_right_inj, List.cons_prefix_cons]
        exact ⟨rfl, coalesceGo_prefix f es b none⟩

/-- the non-TEXT events are kept, in order -/
theorem filter_nontext_coalesceGo : ∀ (s : Stream) (buf : Option Str),
    (coalesceGo true buf s).filter (fun e => !isText e) = s.filter (fun e => !isText e)
  | [], buf => by cases buf <;> simp [coalesceGo, flushBuf]
  | e :: es, buf => by
      by_cases ht : isText e = true
      · obtain ⟨s, b, rfl⟩ := (isText_iff e).1 ht
        rw [coalesceGo_text, filter_nontext_coalesceGo es]; simp
      · have h' : isText e = false := by simpa using ht
        rw [coalesceGo_nontext true buf e es h']
        cases buf <;> simp [flushBuf, h', filter_nontext_coalesceGo es none]

/-- all character data is kept, in order -/
def textOf : Stream → Str
  | [] => []
  | .text s _ :: es => s ++ textOf es
  | _ :: es => textOf es

theorem textOf_nontext (e : Event) (es : Stream) (h : isText e = false) : textOf (e :: es) = textOf es := by
  cases e <;> simp_all [textOf, isText]

theorem textOf_coalesceGo : ∀ (s : Stream) (buf : Option Str),
    textOf (coalesceGo true buf s) = buf.getD [] ++ textOf s
  | [], buf => by cases buf <;> simp [coalesceGo, flushBuf, textOf]
  | e :: es, buf => by
      by_cases ht : isText e = true
      · obtain ⟨s, b, rfl⟩ := (isText_iff e).1 ht
        rw [coalesceGo_text, textOf_coalesceGo es]; simp [textOf]
      · have h' : isText e = false := by simpa using ht
        rw [coalesceGo_nontext true buf e es h', textOf_nontext e es h']
        cases buf <;> simp [flushBuf, textOf, textOf_nontext e _ h', textOf_coalesceGo es none]

/-- a stream that is already merged (and carries plain text) is left alone -/
theorem coalesceGo_fixed : ∀ (s : Stream), noAdjText s = true →
    (∀ t b, Event.text t b ∈ s → b = false) → coalesceGo true none s = s
  | [], _, _ => by simp [coalesceGo, flushBuf]
  | [e], _, hp => by
      cases e <;> simp_all [coalesceGo, flushBuf]
  | e :: e' :: es, h, hp => by
      have ih := coalesceGo_fixed (e' :: es)
        (by simp only [noAdjText, Bool.and_eq_true] at h; simp only [noAdjText, Bool.and_eq_true]; exact h.2)
        (fun t b hm => hp t b (List.mem_cons_of_mem _ hm))
      by_cases ht : isText e = true
      · obtain ⟨s, b, rfl⟩ := (isText_iff e).1 ht
        have hb : b = false := hp s b (by simp)
        subst hb
        have h2 : isText e' = false := by
          simp only [noAdjText, headIsText, isText, Bool.true_and, Bool.and_eq_true, Bool.not_eq_true'] at h
          exact h.1
        rw [coalesceGo_text, coalesceGo_nontext true _ e' es h2]
        have ih' := ih
        rw [coalesceGo_nontext true none e' es h2] at ih'
        simp only [flushBuf, List.nil_append, List.cons.injEq, true_and] at ih'
        simp [flushBuf, ih']
      · have h' : isText e = false := by simpa using ht
        rw [coalesceGo_nontext true none e _ h']
        simp [flushBuf, ih]

theorem coalesceGo_allPlain (f : Bool) : ∀ (s : Stream) (buf : Option Str) (t : Str) (b : Bool),
    Event.text t b ∈ coalesceGo f buf s → b = false
  | [], buf, t, b, h => by cases f <;> cases buf <;> simp_all [coalesceGo, flushBuf]
  | e :: es, buf, t, b, h => by
      by_cases ht : isText e = true
      · obtain ⟨s, b', rfl⟩ := (isText_iff e).1 ht
        rw [coalesceGo_text] at h
        exact coalesceGo_allPlain f es _ t b h
      · have h' : isText e = false := by simpa using ht
        rw [coalesceGo_nontext f buf e es h'] at h
        simp only [List.mem_append, List.mem_cons] at h
        rcases h with h | h | h
        · cases buf <;> simp_all [flushBuf]
        · subst h; simp [isText] at h'
        · exact coalesceGo_allPlain f es none t b h

/-- `_coalesce` is idempotent -/
theorem coalesce_idem (s : Stream) : coalesce (coalesce s) = coalesce s := by
  unfold coalesce
  exact coalesceGo_fixed _ (noAdjText_coalesceGo true s none) (coalesceGo_allPlain true s none)

/-! ### the loop: `feed` with its queue against a queue-free run -/

/-- one batch without the queue: the new state and the events of the batch -/
def run {κ cb ε : Type} (L : LayerG κ cb ε) : κ → List (Item cb) → Except PyExc (κ × List ε)
  | k, [] => .ok (k, [])
  | _, .raise e :: _ => .error e
  | k, .cb c :: rest =>
    match L.step k c with
    | .error e => .error e
    | .ok (k', evs) =>
      match run L k' rest with
      | .error e => .error e
      | .ok (k'', q) => .ok (k'', evs ++ q)

theorem feed_eq_run {κ cb ε : Type} (L : LayerG κ cb ε) : ∀ (items : List (Item cb)) (k : κ) (q : List ε),
    feed L k q items = (match run L k items with
      | .error e => .error e
      | .ok (k', q') => .ok (k', q ++ q'))
  | [], k, q => by simp [feed, run]
  | .raise e :: rest, k, q => by simp [feed, run]
  | .cb c :: rest, k, q => by
      simp only [feed, run]
      cases hs : L.step k c with
      | error e => simp
      | ok r =>
        obtain ⟨k', evs⟩ := r
        simp only
        rw [feed_eq_run L rest k' (q ++ evs)]
        cases run L k' rest with
        | error e => simp
        | ok r' => obtain ⟨k'', q'⟩ := r'; simp [List.append_assoc]

theorem feed_nil_eq_run {κ cb ε : Type} (L : LayerG κ cb ε) (items : List (Item cb)) (k : κ) :
    feed L k [] items = run L k items := by
  rw [feed_eq_run]
  cases run L k items with
  | error e => rfl
  | ok r => obtain ⟨k', q'⟩ := r; simp

theorem eager_append_ok {κ cb ε : Type} (L : LayerG κ cb ε) : ∀ (a b : List (Item cb)) (k k' : κ) (q : List ε),
    run L k a = .ok (k', q) →
    eager L k (a ++ b) = (q ++ (eager L k' b).1, (eager L k' b).2)
  | [], b, k, k', q, h => by
      simp only [run, Except.ok.injEq, Prod.mk.injEq] at h
      obtain ⟨rfl, rfl⟩ := h; simp
  | .raise e :: rest, b, k, k', q, h => by simp [run] at h
  | .cb c :: rest, b, k, k', q, h => by
      simp only [run] at h
      simp only [List.cons_append, eager]
      cases hs : L.step k c with
      | error e => simp [hs] at h
      | ok r =>
        obtain ⟨k1, evs⟩ := r
        simp only [hs] at h
        cases hr : run L k1 rest with
        | error e => simp [hr] at h
        | ok r' =>
          obtain ⟨k2, q2⟩ := r'
          simp only [hr, Except.ok.injEq, Prod.mk.injEq] at h
          obtain ⟨rfl, rfl⟩ := h
          simp only
          rw [eager_append_ok L rest b k1 k2 q2 hr]
          simp [List.append_assoc]

theorem eager_append_error {κ cb ε : Type} (L : LayerG κ cb ε) : ∀ (a b : List (Item cb)) (k : κ) (e : PyExc),
    run L k a = .error e → (eager L k (a ++ b)).2 = some e
  | [], b, k, e, h => by simp [run] at h
  | .raise e' :: rest, b, k, e, h => by
      simp only [run, Except.error.injEq] at h; subst h; simp [eager]
  | .cb c :: rest, b, k, e, h => by
      simp only [run] at h
      simp only [List.cons_append, eager]
      cases hs : L.step k c with
      | error e' => simp only [hs, Except.error.injEq] at h; subst h; rfl
      | ok r =>
        obtain ⟨k1, evs⟩ := r
        simp only [hs] at h
        cases hr : run L k1 rest with
        | error e' =>
          simp only [hr, Except.error.injEq] at h; subst h
          simp only
          exact eager_append_error L rest b k1 _ hr
        | ok r' => obtain ⟨k2, q2⟩ := r'; simp [hr] at h

theorem eager_none_run_ok {κ cb ε : Type} (L : LayerG κ cb ε) (items : List (Item cb)) (k : κ)
    (h : (eager L k items).2 = none) :
    ∃ k' q, run L k items = .ok (k', q) ∧ eager L k items = (q ++ L.finish k', none) := by
  cases hr : run L k items with
  | error e =>
    have := eager_append_error L items [] k e hr
    simp only [List.append_nil] at this
    rw [this] at h; simp at h
  | ok r =>
    obtain ⟨k', q⟩ := r
    have := eager_append_ok L items [] k k' q hr
    simp only [List.append_nil, eager] at this
    exact ⟨k', q, rfl, this⟩

/-- **batches never matter**: `_generate` ends with the exception the queue-free run of the
    concatenated batches ends with; it has yielded a beginning of that run's events, and all of
    them when nothing was raised -/
theorem generate_vs_eager {κ cb ε : Type} (L : LayerG κ cb ε) : ∀ (reads : List (Read cb)) (k : κ)
    (close : List (Item cb)),
    (generate L k reads close).2 = (eager L k (reads.flatMap Read.toItems ++ close)).2 ∧
    (generate L k reads close).1 <+: (eager L k (reads.flatMap Read.toItems ++ close)).1 ∧
    ((generate L k reads close).2 = none →
      (generate L k reads close).1 = (eager L k (reads.flatMap Read.toItems ++ close)).1)
  | [], k, close => by
      simp only [generate, List.flatMap_nil, List.nil_append]
      rw [feed_nil_eq_run]
      cases hr : run L k close with
      | error e =>
        have := eager_append_error L close [] k e hr
        simp only [List.append_nil] at this
        simp [this]
      | ok r =>
        obtain ⟨k', q⟩ := r
        have := eager_append_ok L close [] k k' q hr
        simp only [List.append_nil, eager] at this
        simp [this]
  | .fail e :: rs, k, close => by
      simp [generate, Read.toItems, eager]
  | .items l :: rs, k, close => by
      simp only [generate, List.flatMap_cons, Read.toItems, List.append_assoc]
      rw [feed_nil_eq_run]
      cases hr : run L k l with
      | error e =>
        have := eager_append_error L l (rs.flatMap Read.toItems ++ close) k e hr
        simp [this]
      | ok r =>
        obtain ⟨k', q⟩ := r
        have h1 := eager_append_ok L l (rs.flatMap Read.toItems ++ close) k k' q hr
        obtain ⟨i1, i2, i3⟩ := generate_vs_eager L rs k' close
        simp only [h1]
        refine ⟨i1, ?_, ?_⟩
        · rw [List.prefix_append_right_inj]; exact i2
        · intro hn; rw [i3 hn]

/-- the same one level up, for what the consumer of `parse()` sees -/
theorem parse_vs_eager {κ cb : Type} (L : Layer κ cb) (handler : PyExc → Raised) (k : κ)
    (reads : List (Read cb)) (close : List (Item cb)) :
    let e := eager L k (reads.flatMap Read.toItems ++ close)
    let p := parse L handler k reads close
    p.2 = e.2.map handler ∧ p.1 <+: coalesce e.1 ∧ (e.2 = none → p.1 = coalesce e.1) := by
  intro e p
  obtain ⟨h1, h2, h3⟩ := generate_vs_eager L reads k close
  simp only [p, parse, e]
  cases hg : generate L k reads close with
  | mk evs err =>
    rw [hg] at h1 h2 h3
    simp only at h1 h2 h3
    cases err with
    | none =>
      have := h3 rfl
      simp only [← h1, ← this, coalesce, Option.map_none, true_and]
      exact ⟨List.prefix_refl _, fun _ => trivial⟩
    | some x =>
      simp only [← h1, Option.map_some, true_and]
      refine ⟨?_, fun h => by simp at h⟩
      obtain ⟨t, ht⟩ := h2
      rw [← ht]
      exact coalesceGo_prefix true evs t none

/-- whatever `parse` delivers, its TEXT events carry plain `str` data (never `Markup`) -/
theorem parse_text_plain {κ cb : Type} (L : Layer κ cb) (handler : PyExc → Raised) (k : κ)
    (reads : List (Read cb)) (close : List (Item cb)) (t : Str) (b : Bool)
    (h : Event.text t b ∈ (parse L handler k reads close).1) : b = false := by
  unfold parse at h
  split at h
  · exact coalesceGo_allPlain true _ none t b h
  · exact coalesceGo_allPlain false _ none t b h

/-! ### `mkQName` -/

theorem lstripBrace_of_tagOk (s : Str) (h : tagOk s = true) : lstripBrace s = s := by
  cases s with
  | nil => rfl
  | cons c cs =>
    simp only [tagOk, Bool.and_eq_true, bne_iff_ne, ne_eq] at h
    unfold lstripBrace
    split
    · rename_i heq; simp only [List.cons.injEq] at heq; exact absurd heq.1 h.1
    · rfl

theorem splitBrace_ns_nil (s ns loc : Str) (h : splitBrace s = some (ns, loc)) (hn : ns = []) :
    s.head? = some '}' := by
  cases s with
  | nil => simp [splitBrace] at h
  | cons c cs =>
    simp only [splitBrace] at h
    by_cases hc : c = '}'
    · simp [hc]
    · simp only [hc, ↓reduceIte] at h
      cases hs : splitBrace cs with
      | none => simp [hs] at h
      | some r => obtain ⟨a, b⟩ := r; simp [hs] at h; simp [← h.1] at hn

/-- for a tag name that does not begin with a brace: an un-namespaced QName has the tag as local name -/
theorem mkQName_loc_of_tagOk (s : Str) (h : tagOk s = true) (hn : (mkQName s).ns = []) :
    (mkQName s).loc = s := by
  unfold mkQName at hn ⊢
  rw [lstripBrace_of_tagOk s h] at hn ⊢
  cases hs : splitBrace s with
  | none => rfl
  | some r =>
    obtain ⟨ns, loc⟩ := r
    simp only [hs] at hn
    have := splitBrace_ns_nil s ns loc hs hn
    cases s with
    | nil => simp at this
    | cons c cs =>
      simp only [List.head?_cons, Option.some.injEq] at this
      subst this
      simp [tagOk] at h

theorem splitBrace_append (uri loc : Str) (h : '}' ∉ uri) :
    splitBrace (uri ++ '}' :: loc) = some (uri, loc) := by
  induction uri with
  | nil => simp [splitBrace]
  | cons c cs ih =>
    simp only [List.mem_cons, not_or] at h
    have hc : c ≠ '}' := fun e => h.1 e.symm
    simp [splitBrace, hc, ih h.2]

theorem lstripBrace_of_head (s : Str) (h : s.head? ≠ some '{') : lstripBrace s = s := by
  cases s with
  | nil => rfl
  | cons c cs =>
    unfold lstripBrace
    split
    · rename_i heq; simp only [List.cons.injEq] at heq; simp [heq.1] at h
    · rfl

/-- Expat reports a namespaced name as `uri}local` (it refuses URIs containing the separator).
    `QName` recovers `(uri, local)` from it — provided the URI does not begin with `{` -/
theorem mkQName_expat_name (uri loc : Str) (h1 : '}' ∉ uri) (h2 : uri.head? ≠ some '{') (h3 : uri ≠ []) :
    mkQName (uri ++ '}' :: loc) = ⟨uri, loc⟩ := by
  have hh : (uri ++ '}' :: loc).head? ≠ some '{' := by
    cases uri with
    | nil => exact absurd rfl h3
    | cons c cs => simpa using h2
  unfold mkQName
  rw [lstripBrace_of_head _ hh, splitBrace_append uri loc h1]

theorem splitBrace_none (s : Str) (h : '}' ∉ s) : splitBrace s = none := by
  induction s with
  | nil => rfl
  | cons c cs ih =>
    simp only [List.mem_cons, not_or] at h
    have hc : c ≠ '}' := fun e => h.1 e.symm
    simp [splitBrace, hc, ih h.2]

/-- a name without namespace (no separator in it, as XML names never contain braces) stays as it is -/
theorem mkQName_plain_name (s : Str) (h1 : '}' ∉ s) (h2 : s.head? ≠ some '{') : mkQName s = ⟨[], s⟩ := by
  unfold mkQName
  rw [lstripBrace_of_head s h2, splitBrace_none s h1]

/-! ### `QName(str)` exactly: every leading `{` goes, the first `}` of what is left separates -/

theorem lstripBrace_cons_open (cs : Str) : lstripBrace ('{' :: cs) = lstripBrace cs := by
  rw [lstripBrace]

theorem lstripBrace_cons_other (c : Char) (cs : Str) (h : c ≠ '{') : lstripBrace (c :: cs) = c :: cs := by
  unfold lstripBrace
  split
  · rename_i heq; simp only [List.cons.injEq] at heq; exact absurd heq.1 h
  · rfl

theorem lstripBrace_append_sep (uri loc : Str) :
    lstripBrace (uri ++ '}' :: loc) = lstripBrace uri ++ '}' :: loc := by
  induction uri with
  | nil => exact lstripBrace_cons_other '}' loc (by decide)
  | cons c cs ih =>
    by_cases hc : c = '{'
    · subst hc
      simp only [List.cons_append, lstripBrace_cons_open]
      exact ih
    · simp only [List.cons_append, lstripBrace_cons_other c _ hc]

theorem lstripBrace_subset (s : Str) (x : Char) (h : x ∈ lstripBrace s) : x ∈ s := by
  induction s with
  | nil => simp [lstripBrace] at h
  | cons c cs ih =>
    by_cases hc : c = '{'
    · subst hc
      rw [lstripBrace_cons_open] at h
      exact List.mem_cons_of_mem _ (ih h)
    · rw [lstripBrace_cons_other c cs hc] at h; exact h

theorem lstripBrace_length_le (s : Str) : (lstripBrace s).length ≤ s.length := by
  induction s with
  | nil => simp [lstripBrace]
  | cons c cs ih =>
    by_cases hc : c = '{'
    · subst hc
      rw [lstripBrace_cons_open]
      simp only [List.length_cons]
      omega
    · rw [lstripBrace_cons_other c cs hc]; exact Nat.le_refl _

/-- `lstrip('{')` leaves a string alone exactly when it does not begin with `{` -/
theorem lstripBrace_eq_self_iff (s : Str) : lstripBrace s = s ↔ s.head? ≠ some '{' := by
  constructor
  · intro h
    cases s with
    | nil => simp
    | cons c cs =>
      intro hh
      simp only [List.head?_cons, Option.some.injEq] at hh
      subst hh
      rw [lstripBrace_cons_open] at h
      have := lstripBrace_length_le cs
      rw [h] at this
      simp only [List.length_cons] at this
      omega
  · exact lstripBrace_of_head s

/-- what the stripped text does not begin with -/
theorem lstripBrace_head (s : Str) : (lstripBrace s).head? ≠ some '{' := by
  induction s with
  | nil => simp [lstripBrace]
  | cons c cs ih =>
    by_cases hc : c = '{'
    · subst hc; rw [lstripBrace_cons_open]; exact ih
    · rw [lstripBrace_cons_other c cs hc]
      simp only [List.head?_cons, ne_eq, Option.some.injEq]
      exact hc

/-- **`QName('uri}local')`, exactly** — for every URI without the separator (Expat refuses the others) and
    every local part (it may contain `}`: only the first one separates): the namespace is the URI without
    its leading `{`s -/
theorem mkQName_expat_name_exact (uri loc : Str) (h1 : '}' ∉ uri) :
    mkQName (uri ++ '}' :: loc) = ⟨lstripBrace uri, loc⟩ := by
  unfold mkQName
  rw [lstripBrace_append_sep, splitBrace_append (lstripBrace uri) loc (fun h => h1 (lstripBrace_subset uri _ h))]

/-- a name without separator, exactly: the local name is the name without its leading `{`s -/
theorem mkQName_plain_name_exact (s : Str) (h1 : '}' ∉ s) : mkQName s = ⟨[], lstripBrace s⟩ := by
  unfold mkQName
  rw [splitBrace_none (lstripBrace s) (fun h => h1 (lstripBrace_subset s _ h))]

/-- `splitBrace` is `str.partition('}')` when the separator occurs -/
theorem splitBrace_some (s a b : Str) (h : splitBrace s = some (a, b)) : s = a ++ '}' :: b ∧ '}' ∉ a := by
  induction s generalizing a b with
  | nil => simp [splitBrace] at h
  | cons c cs ih =>
    by_cases hc : c = '}'
    · subst hc
      simp only [splitBrace, ↓reduceIte, Option.some.injEq, Prod.mk.injEq] at h
      obtain ⟨rfl, rfl⟩ := h
      simp
    · simp only [splitBrace, hc, ↓reduceIte] at h
      cases hs : splitBrace cs with
      | none => simp [hs] at h
      | some p =>
        obtain ⟨a', b'⟩ := p
        simp only [hs, Option.some.injEq, Prod.mk.injEq] at h
        obtain ⟨rfl, rfl⟩ := h
        obtain ⟨h1, h2⟩ := ih a' b' hs
        refine ⟨by rw [h1]; rfl, ?_⟩
        simp only [List.mem_cons, not_or]
        exact ⟨fun e => hc e.symm, h2⟩

end Genshi.Parse

/-
  The whole filter as a chain of tree rewrites, one per template in declaration order.
-/
import Genshi.Lemmas.MatchSpec
import Genshi.Lemmas.MatchPipeline2
namespace Genshi.Match
open Genshi
variable {σ : Type}

/-! ### every well-nested stream is the flattening of a forest -/

theorem neutral_tail_of_other {e : Event} {es : List Event} (hs : isStart e = false) (he : isEnd e = false)
    (h : Neutral (e :: es)) : Neutral es := by
  intro st
  have := h st
  rw [track_other e hs he] at this
  exact this

theorem forest_of_neutral : ∀ (n : Nat) (es : List Event), es.length ≤ n → Neutral es →
    ∃ ns, okList ns = true ∧ flattenList ns = es := by
  intro n
  induction n with
  | zero =>
    intro es hl _
    have : es = [] := List.length_eq_zero_iff.mp (by omega)
    subst this
    exact ⟨[], rfl, rfl⟩
  | succ n ih =>
    intro es hl hn
    cases es with
    | nil => exact ⟨[], rfl, rfl⟩
    | cons e rest =>
      simp only [List.length_cons] at hl
      by_cases hS : isStart e = true
      · cases e with
        | start tg at_ =>
          -- use the item-level decomposition on `evItems rest`
          have hneu' : Neutral (Event.start tg at_ :: evs (evItems rest : List (Item Unit))) := by simpa using hn
          have hcl := closed_of_neutral hn
          have hl1 : lvl 1 (evs (evItems rest : List (Item Unit))) = some 0 := by
            simpa [Closed, lvl, isStart] using hcl
          obtain ⟨inner, tail, a'', hst, _, _⟩ := strip_append (evItems rest : List (Item Unit)) 0 0 [] (by simpa using hl1)
          obtain ⟨hrest, hnin, htail, hnre⟩ := neutral_start_split hneu' hst
          subst htail
          have hevs : rest = evs inner ++ Event.end_ tg :: evs a'' := by
            have := congrArg evs hrest
            simpa [evs_append] using this
          have hlen : (evs inner).length + (evs a'').length + 1 = rest.length := by rw [hevs]; simp; omega
          obtain ⟨ks, hks, hkf⟩ := ih (evs inner) (by omega) hnin
          obtain ⟨rs, hrs, hrf⟩ := ih (evs a'') (by omega) hnre
          refine ⟨Node.elem tg at_ ks :: rs, by simp [okList, Node.ok, hks, hrs], ?_⟩
          simp [flattenList, Node.flatten, hkf, hrf, hevs]
        | _ => simp [isStart] at hS
      · by_cases hE : isEnd e = true
        · exfalso
          have := hn []
          cases e with
          | end_ tg => simp [track] at this
          | _ => simp [isEnd] at hE
        · have hS' : isStart e = false := by simpa using hS
          have hE' : isEnd e = false := by simpa using hE
          obtain ⟨rs, hrs, hrf⟩ := ih rest (by omega) (neutral_tail_of_other hS' hE' hn)
          refine ⟨Node.leaf e :: rs, ?_, by simp [flattenList, Node.flatten, hrf]⟩
          have : e.isStartEnd = false := by cases e <;> simp_all [Event.isStartEnd, isStart, isEnd]
          simp [okList, Node.ok, this, hrs]

theorem neutral_flattenList (ns : List Node) (h : okList ns = true) : Neutral (flattenList ns) := by
  have hw := wellNested_flattenList ns h
  rw [wellNested_iff_track] at hw
  exact (neutral_of_closed (closed_flattenList ns h) hw).2

/-! ### the chain -/

/-- what a template of the chain must be: live, without `once`, lawful, not reading `updateonly`, with a
    well-nested body -/
def StageOK (t : MT σ) : Prop :=
  t.once = false ∧ t.retired = false ∧ Lawful t ∧ FlagFree t ∧ BodyOK t.body

/-- `Chain M s k ns out`: rewriting the forest `ns` by the templates of the slots `s, s+1, …, s+k-1`
    of `M`, one whole-document tree rewrite (`specList`) after the other, gives the events `out` -/
inductive Chain (M : List (MT σ)) : Nat → Nat → List Node → List Event → Prop
  | done (s : Nat) (ns : List Node) : Chain M s 0 ns (flattenList ns)
  | step {s k : Nat} {ns ns' : List Node} {out : List Event} {t : MT σ} :
      M[s]? = some t → okList ns' = true → flattenList ns' = specList t t.st [] ns →
      Chain M (s + 1) k ns' out → Chain M s (k + 1) ns out

theorem chain_congr {M M' : List (MT σ)} : ∀ {s k : Nat} {ns : List Node} {out : List Event},
    (∀ j, s ≤ j → M'[j]? = M[j]?) → Chain M s k ns out → Chain M' s k ns out := by
  intro s k ns out h hc
  induction hc with
  | done s ns => exact Chain.done s ns
  | @step s k ns ns' out t ht hok hfl _ ih =>
    exact Chain.step (by rw [h s (Nat.le_refl s)]; exact ht) hok hfl (ih (fun j hj => h j (by omega)))

/-- **The filter is the chain of tree rewrites**, one per template in declaration order:
    for the templates of the window `[s, s+k)` and every forest. -/
theorem run_is_chain : ∀ (k s f : Nat) (ns : List Node) (M : List (MT σ)) (r : List (MT σ) × List Event),
    okList ns = true → (∀ j t, s ≤ j → j < s + k → M[j]? = some t → StageOK t) → s + k ≤ M.length →
    (∀ t ∈ M, OKt t) →
    run f s (some (s + k)) (evItems (flattenList ns)) M = some r → Chain M s k ns r.2 := by
  intro k
  induction k with
  | zero =>
    intro s f ns M r _ _ _ _ h
    have := run_empty_window f s (some (s + 0)) _ M r (by intro j; simpa using win_empty' s j) (noReg_evItems _) h
    rw [this]
    simp only [evs_evItems]
    exact Chain.done s ns
  | succ k ih =>
    intro s f ns M r hns hst hlen hok h
    have hneu : Neutral (evs (evItems (flattenList ns) : List (Item σ))) := by
      simp only [evs_evItems]; exact neutral_flattenList ns hns
    obtain ⟨f', out1, L, hL, hH⟩ := pipeline_seq f s (some (s + (k + 1))) _ M r.1 r.2 (s + 1) (noReg_evItems _) hneu hok
      (by omega) (by intro n hn; cases hn; omega) h
    -- the first stage is the tree rewrite of slot s
    obtain ⟨t, ht⟩ : ∃ t, M[s]? = some t := ⟨M[s]'(by omega), List.getElem?_eq_getElem (by omega)⟩
    obtain ⟨ho, hr, hl, _, _⟩ := hst s t (Nat.le_refl s) (by omega) ht
    have hslot : SlotAt s t t.st [] M := ⟨t, ht, Shape.refl t, hr, rfl⟩
    obtain ⟨hout1, _⟩ := stage_is_spec t t.st s hl ho f' ns [] M (L, out1) hns hslot hL
    simp only at hout1
    -- its output is a forest again
    have hn1 : Neutral out1 := fun s2 => by
      have := run_track _ _ _ _ _ _ (fun y hy => (hok y hy).1) (fun y hy => absurd hy (noReg_evItems _ y)) hL s2 s2
        (by simpa using hneu s2)
      exact this
    obtain ⟨ns', hns', hfl⟩ := forest_of_neutral out1.length out1 (Nat.le_refl _) hn1
    -- the remaining stages, on the list the first stage leaves
    have hLout := run_outside (noReg_evItems _) hL
    have hLlen := run_len (noReg_evItems _) hL
    have hokL := run_forall static_okt _ _ _ _ _ _ hok (fun y hy => absurd hy (noReg_evItems _ y)) hL
    have hLget : ∀ j, s + 1 ≤ j → L[j]? = M[j]? := fun j hj => hLout j (win_lo_false hj)
    rw [← hfl, show s + (k + 1) = (s + 1) + k by omega] at hH
    have hc := ih (s + 1) f' ns' L r hns'
      (by intro j t' h1 h2 h3; rw [hLget j h1] at h3; exact hst j t' (by omega) (by omega) h3)
      (by rw [hLlen]; omega) hokL hH
    refine Chain.step ht hns' (by rw [hfl, hout1]) (chain_congr (fun j hj => (hLget j hj).symm) hc)

end Genshi.Match

/-
  C01 — the reader state machine run over the pieces the serializers write.
-/
import Genshi.Lemmas.Subst
namespace Genshi.Subst
open Genshi.Escape Genshi.Str

theorem run_nil (m : Method) (st : RS) : run m st [] = some st := rfl

theorem run_cons (m : Method) (st : RS) (c : Char) (cs : List Char) :
    run m st (c :: cs) = (step m st c).bind fun st' => run m st' cs := by
  simp [run, List.foldlM_cons]

theorem run_append (m : Method) (st : RS) (a b : List Char) :
    run m st (a ++ b) = (run m st a).bind fun st' => run m st' b := by
  simp [run, List.foldlM_append]

/-- a name: non-empty, made of name characters -/
def IsName (t : Name) : Prop := t ≠ [] ∧ ∀ c ∈ t, isNameChar c = true

/-- character data without `<` is collected -/
theorem run_text_chars (m : Method) (s : List Char) (hs : ∀ c ∈ s, c ≠ '<') :
    ∀ st : RS, st.mode = .text → run m st s = some { st with buf := st.buf ++ s } := by
  induction s with
  | nil => intro st _; simp [run_nil]
  | cons c cs ih =>
    intro st hm
    have hc : c ≠ '<' := hs c (by simp)
    rw [run_cons]
    simp only [step, hm, hc, ↓reduceIte, Option.bind_some]
    rw [ih (fun x hx => hs x (List.mem_cons_of_mem _ hx)) _ rfl]
    simp

/-- inside the quotes everything but `"` is collected -/
theorem run_attrVal_chars (m : Method) (s : List Char) (hs : ∀ c ∈ s, c ≠ '"') :
    ∀ st : RS, st.mode = .attrVal → run m st s = some { st with buf := st.buf ++ s } := by
  induction s with
  | nil => intro st _; simp [run_nil]
  | cons c cs ih =>
    intro st hm
    have hc : c ≠ '"' := hs c (by simp)
    rw [run_cons]
    simp only [step, hm, hc, ↓reduceIte, Option.bind_some]
    rw [ih (fun x hx => hs x (List.mem_cons_of_mem _ hx)) _ rfl]
    simp

theorem run_openName_chars (m : Method) (s : List Char) (hs : ∀ c ∈ s, isNameChar c = true) :
    ∀ st : RS, st.mode = .openName → run m st s = some { st with buf := st.buf ++ s } := by
  induction s with
  | nil => intro st _; simp [run_nil]
  | cons c cs ih =>
    intro st hm
    have hc : isNameChar c = true := hs c (by simp)
    rw [run_cons]
    simp only [step, hm, hc, ↓reduceIte, Option.bind_some]
    rw [ih (fun x hx => hs x (List.mem_cons_of_mem _ hx)) _ rfl]
    simp

theorem run_closeName_chars (m : Method) (s : List Char) (hs : ∀ c ∈ s, isNameChar c = true) :
    ∀ st : RS, st.mode = .closeName → run m st s = some { st with buf := st.buf ++ s } := by
  induction s with
  | nil => intro st _; simp [run_nil]
  | cons c cs ih =>
    intro st hm
    have hc : isNameChar c = true := hs c (by simp)
    have hgt : c ≠ '>' := by intro e; subst e; simp [isNameChar] at hc
    rw [run_cons]
    simp only [step, hm, hc, hgt, ↓reduceIte, Option.bind_some]
    rw [ih (fun x hx => hs x (List.mem_cons_of_mem _ hx)) _ rfl]
    simp

theorem run_attrName_chars (m : Method) (s : List Char) (hs : ∀ c ∈ s, isNameChar c = true) :
    ∀ st : RS, st.mode = .attrName → run m st s = some { st with aname := st.aname ++ s } := by
  induction s with
  | nil => intro st _; simp [run_nil]
  | cons c cs ih =>
    intro st hm
    have hc : isNameChar c = true := hs c (by simp)
    rw [run_cons]
    simp only [step, hm, hc, ↓reduceIte, Option.bind_some]
    rw [ih (fun x hx => hs x (List.mem_cons_of_mem _ hx)) _ rfl]
    simp

/-- inside a start tag of element `t` whose attributes read so far are `acc` -/
def InStart (st : RS) (t : Name) (acc : List (Name × List Char)) : Prop :=
  (st.mode = .openName ∧ st.buf = t ∧ acc = []) ∨ (st.mode = .inTag ∧ st.tag = t ∧ st.attrs = acc)

/-- one attribute ` name="raw"` -/
theorem run_attr (m : Method) (st : RS) (t : Name) (acc : List (Name × List Char))
    (n raw : List Char) (hn : IsName n) (hraw : ∀ c ∈ raw, c ≠ '"') (hst : InStart st t acc) :
    ∃ st', run m st (attrRaw n raw) = some st' ∧ InStart st' t (acc ++ [(n, unescape raw)]) ∧
      st'.out = st.out := by
  -- after the blank: attribute-name mode with tag `t`, attributes `acc`, empty name
  have h1 : ∃ s1 : RS, step m st ' ' = some s1 ∧ s1.mode = .attrName ∧ s1.tag = t ∧ s1.attrs = acc ∧
      s1.aname = [] ∧ s1.out = st.out := by
    rcases hst with ⟨hm, hb, ha⟩ | ⟨hm, ht, ha⟩
    · exact ⟨{ st with mode := .attrName, tag := st.buf, attrs := [], aname := [], buf := [] },
        by simp [step, hm, isNameChar], rfl, hb, ha.symm, rfl, rfl⟩
    · exact ⟨{ st with mode := .attrName, aname := [] }, by simp [step, hm], rfl, ht, ha, rfl, rfl⟩
  obtain ⟨s1, hs1, hm1, ht1, ha1, hn1, ho1⟩ := h1
  unfold attrRaw
  rw [run_cons, hs1]
  simp only [Option.bind_some]
  rw [run_append, run_attrName_chars m n hn.2 s1 hm1]
  simp only [Option.bind_some, hn1, List.nil_append]
  have hne : n.isEmpty = false := by
    cases n with
    | nil => exact absurd rfl hn.1
    | cons _ _ => rfl
  rw [run_cons]
  simp only [step, hm1, isNameChar, hne]
  simp only [Option.bind_some, run_cons, step]
  simp only [Option.bind_some, ↓reduceIte]
  rw [run_append, run_attrVal_chars m raw hraw _ rfl]
  simp only [Option.bind_some, List.nil_append, run_cons, step, ↓reduceIte, run_nil]
  exact ⟨_, rfl, Or.inr ⟨rfl, ht1, by simp [ha1]⟩, ho1⟩

end Genshi.Subst

/-
  C01 — the reader state machine run over the pieces the serializers write.
-/
import Genshi.Lemmas.Subst
namespace Genshi.Subst
open Genshi.Escape Genshi.Str

theorem run_nil (m : Method) (st : RS) : run m st [] = some st := rfl

theorem run_cons (m : Method) (st : RS) (c : Char) (cs : List Char) :
    run m st (c :: cs) = (step m st c).bind fun st' => run m st' cs := by
  simp [run, List.foldlM_cons]

theorem run_append (m : Method) (st : RS) (a b : List Char) :
    run m st (a ++ b) = (run m st a).bind fun st' => run m st' b := by
  simp [run, List.foldlM_append]

/-- a name: non-empty, made of name characters -/
def IsName (t : Name) : Prop := t ≠ [] ∧ ∀ c ∈ t, isNameChar c = true

/-- character data without `<` is collected -/
theorem run_text_chars (m : Method) (s : List Char) (hs : ∀ c ∈ s, c ≠ '<') :
    ∀ st : RS, st.mode = .text → run m st s = some { st with buf := st.buf ++ s } := by
  induction s with
  | nil => intro st _; simp [run_nil]
  | cons c cs ih =>
    intro st hm
    have hc : c ≠ '<' := hs c (by simp)
    rw [run_cons]
    simp only [step, hm, hc, ↓reduceIte, Option.bind_some]
    rw [ih (fun x hx => hs x (List.mem_cons_of_mem _ hx)) _ rfl]
    simp

/-- inside the quotes everything but `"` is collected -/
theorem run_attrVal_chars (m : Method) (s : List Char) (hs : ∀ c ∈ s, c ≠ '"') :
    ∀ st : RS, st.mode = .attrVal → run m st s = some { st with buf := st.buf ++ s } := by
  induction s with
  | nil => intro st _; simp [run_nil]
  | cons c cs ih =>
    intro st hm
    have hc : c ≠ '"' := hs c (by simp)
    rw [run_cons]
    simp only [step, hm, hc, ↓reduceIte, Option.bind_some]
    rw [ih (fun x hx => hs x (List.mem_cons_of_mem _ hx)) _ rfl]
    simp

theorem run_openName_chars (m : Method) (s : List Char) (hs : ∀ c ∈ s, isNameChar c = true) :
    ∀ st : RS, st.mode = .openName → run m st s = some { st with buf := st.buf ++ s } := by
  induction s with
  | nil => intro st _; simp [run_nil]
  | cons c cs ih =>
    intro st hm
    have hc : isNameChar c = true := hs c (by simp)
    rw [run_cons]
    simp only [step, hm, hc, ↓reduceIte, Option.bind_some]
    rw [ih (fun x hx => hs x (List.mem_cons_of_mem _ hx)) _ rfl]
    simp

theorem run_closeName_chars (m : Method) (s : List Char) (hs : ∀ c ∈ s, isNameChar c = true) :
    ∀ st : RS, st.mode = .closeName → run m st s = some { st with buf := st.buf ++ s } := by
  induction s with
  | nil => intro st _; simp [run_nil]
  | cons c cs ih =>
    intro st hm
    have hc : isNameChar c = true := hs c (by simp)
    have hgt : c ≠ '>' := by intro e; subst e; simp [isNameChar] at hc
    rw [run_cons]
    simp only [step, hm, hc, hgt, ↓reduceIte, Option.bind_some]
    rw [ih (fun x hx => hs x (List.mem_cons_of_mem _ hx)) _ rfl]
    simp

theorem run_attrName_chars (m : Method) (s : List Char) (hs : ∀ c ∈ s, isNameChar c = true) :
    ∀ st : RS, st.mode = .attrName → run m st s = some { st with aname := st.aname ++ s } := by
  induction s with
  | nil => intro st _; simp [run_nil]
  | cons c cs ih =>
    intro st hm
    have hc : isNameChar c = true := hs c (by simp)
    rw [run_cons]
    simp only [step, hm, hc, ↓reduceIte, Option.bind_some]
    rw [ih (fun x hx => hs x (List.mem_cons_of_mem _ hx)) _ rfl]
    simp

/-- inside a start tag of element `t` whose attributes read so far are `acc` -/
def InStart (st : RS) (t : Name) (acc : List (Name × List Char)) : Prop :=
  (st.mode = .openName ∧ st.buf = t ∧ acc = []) ∨ (st.mode = .inTag ∧ st.tag = t ∧ st.attrs = acc)

/-! single transitions -/

theorem step_text_lt (m : Method) (st : RS) (h : st.mode = .text) :
    step m st '<' = some { st with mode := .lt, buf := [], out := st.out ++ flushText st.buf } := by
  simp [step, h]

theorem step_lt_slash (m : Method) (st : RS) (h : st.mode = .lt) :
    step m st '/' = some { st with mode := .closeName, buf := [] } := by
  simp [step, h]

theorem step_lt_name (m : Method) (st : RS) (c : Char) (h : st.mode = .lt) (hc : isNameChar c = true) :
    step m st c = some { st with mode := .openName, buf := [c] } := by
  have : c ≠ '/' := by intro e; subst e; simp [isNameChar] at hc
  simp [step, h, hc, this]

theorem step_closeName_gt (m : Method) (st : RS) (h : st.mode = .closeName) (hb : st.buf ≠ []) :
    step m st '>' = some { st with mode := .text, buf := [], out := st.out ++ [.end_ st.buf] } := by
  have : st.buf.isEmpty = false := by cases hbb : st.buf <;> simp_all
  simp [step, h, this]

theorem step_openName_sp (m : Method) (st : RS) (h : st.mode = .openName) :
    step m st ' ' = some { st with mode := .attrName, tag := st.buf, attrs := [], aname := [], buf := [] } := by
  simp [step, h, isNameChar]

theorem step_openName_slash (m : Method) (st : RS) (h : st.mode = .openName) :
    step m st '/' = some { st with mode := .slash, tag := st.buf, attrs := [], buf := [] } := by
  simp [step, h, isNameChar]

theorem step_openName_gt (m : Method) (st : RS) (h : st.mode = .openName) :
    step m st '>' = some { st with mode := (if isRawElem m st.buf then .raw else .text), buf := [],
                                   out := st.out ++ startEvents m st.buf [] } := by
  simp [step, h, isNameChar]

theorem step_attrName_eq (m : Method) (st : RS) (h : st.mode = .attrName) (hn : st.aname ≠ []) :
    step m st '=' = some { st with mode := .attrEq } := by
  have : st.aname.isEmpty = false := by cases hbb : st.aname <;> simp_all
  simp [step, h, isNameChar, this]

theorem step_attrName_slash (m : Method) (st : RS) (h : st.mode = .attrName) (hn : st.aname = []) :
    step m st '/' = some { st with mode := .slash } := by
  simp [step, h, isNameChar, hn]

theorem step_attrEq_quote (m : Method) (st : RS) (h : st.mode = .attrEq) :
    step m st '"' = some { st with mode := .attrVal, buf := [] } := by
  simp [step, h]

theorem step_attrVal_quote (m : Method) (st : RS) (h : st.mode = .attrVal) :
    step m st '"' = some { st with mode := .inTag, buf := [],
                                   attrs := st.attrs ++ [(st.aname, unescape st.buf)] } := by
  simp [step, h]

theorem step_inTag_sp (m : Method) (st : RS) (h : st.mode = .inTag) :
    step m st ' ' = some { st with mode := .attrName, aname := [] } := by
  simp [step, h]

theorem step_inTag_slash (m : Method) (st : RS) (h : st.mode = .inTag) :
    step m st '/' = some { st with mode := .slash } := by
  simp [step, h]

theorem step_inTag_gt (m : Method) (st : RS) (h : st.mode = .inTag) :
    step m st '>' = some { st with mode := (if isRawElem m st.tag then .raw else .text), buf := [],
                                   out := st.out ++ startEvents m st.tag st.attrs } := by
  simp [step, h]

theorem step_slash_gt (m : Method) (st : RS) (h : st.mode = .slash) :
    step m st '>' = some { st with mode := .text, buf := [],
                                   out := st.out ++ [.start st.tag st.attrs, .end_ st.tag] } := by
  simp [step, h]

/-- one attribute ` name="raw"` -/
theorem run_attr (m : Method) (st : RS) (t : Name) (acc : List (Name × List Char))
    (n raw : List Char) (hn : IsName n) (hraw : ∀ c ∈ raw, c ≠ '"') (hst : InStart st t acc) :
    ∃ st', run m st (attrRaw n raw) = some st' ∧ InStart st' t (acc ++ [(n, unescape raw)]) ∧
      st'.out = st.out := by
  -- after the blank: attribute-name mode with tag `t`, attributes `acc`, empty name
  have h1 : ∃ s1 : RS, step m st ' ' = some s1 ∧ s1.mode = .attrName ∧ s1.tag = t ∧ s1.attrs = acc ∧
      s1.aname = [] ∧ s1.out = st.out := by
    rcases hst with ⟨hm, hb, ha⟩ | ⟨hm, ht, ha⟩
    · exact ⟨_, step_openName_sp m st hm, rfl, hb, ha.symm, rfl, rfl⟩
    · exact ⟨_, step_inTag_sp m st hm, rfl, ht, ha, rfl, rfl⟩
  obtain ⟨s1, hs1, hm1, ht1, ha1, hn1, ho1⟩ := h1
  unfold attrRaw
  rw [run_cons, hs1]
  simp only [Option.bind_some]
  rw [run_append, run_attrName_chars m n hn.2 s1 hm1]
  simp only [Option.bind_some, hn1, List.nil_append]
  have e2 := step_attrName_eq m { s1 with aname := n } hm1 hn.1
  rw [run_cons, e2]
  simp only [Option.bind_some]
  rw [run_cons, step_attrEq_quote m _ rfl]
  simp only [Option.bind_some]
  rw [run_append, run_attrVal_chars m raw hraw _ rfl]
  simp only [Option.bind_some, List.nil_append]
  rw [run_cons, step_attrVal_quote m _ rfl]
  simp only [Option.bind_some, run_nil]
  exact ⟨_, rfl, Or.inr ⟨rfl, ht1, by simp [ha1]⟩, ho1⟩

def RawAttrsOk (a : List (Name × List Char)) : Prop :=
  ∀ p ∈ a, IsName p.1 ∧ ∀ c ∈ p.2, c ≠ '"'

theorem run_attrs (m : Method) (t : Name) (a : List (Name × List Char)) (ha : RawAttrsOk a) :
    ∀ (st : RS) (acc : List (Name × List Char)), InStart st t acc →
    ∃ st', run m st (attrsRaw a) = some st' ∧ InStart st' t (acc ++ decodeAttrs a) ∧ st'.out = st.out := by
  induction a with
  | nil => intro st acc hst; exact ⟨st, rfl, by simpa [decodeAttrs] using hst, rfl⟩
  | cons p ps ih =>
    intro st acc hst
    have hp := ha p (by simp)
    obtain ⟨s1, hr1, hs1, ho1⟩ := run_attr m st t acc p.1 p.2 hp.1 hp.2 hst
    obtain ⟨s2, hr2, hs2, ho2⟩ := ih (fun q hq => ha q (List.mem_cons_of_mem _ hq)) s1 _ hs1
    refine ⟨s2, ?_, ?_, by rw [ho2, ho1]⟩
    · simp only [attrsRaw, List.flatMap_cons] at hr2 ⊢
      rw [run_append, hr1]; exact hr2
    · simpa [decodeAttrs, List.append_assoc] using hs2

/-- `<name` from character data: pending text is flushed, the reader is inside the start tag -/
theorem run_tagStart (m : Method) (st : RS) (t : Name) (ht : IsName t) (hm : st.mode = .text) :
    ∃ st', run m st ('<' :: t) = some st' ∧ InStart st' t [] ∧ st'.out = st.out ++ flushText st.buf := by
  obtain ⟨hne, hall⟩ := ht
  cases t with
  | nil => exact absurd rfl hne
  | cons c cs =>
    rw [run_cons, step_text_lt m st hm]
    simp only [Option.bind_some]
    rw [run_cons, step_lt_name m _ c rfl (hall c (by simp))]
    simp only [Option.bind_some]
    rw [run_openName_chars m cs (fun x hx => hall x (List.mem_cons_of_mem _ hx)) _ rfl]
    exact ⟨_, rfl, Or.inl ⟨rfl, by simp, rfl⟩, rfl⟩

theorem run_gt' (m : Method) (st : RS) (t : Name) (acc : List (Name × List Char)) (hst : InStart st t acc) :
    ∃ st', run m st ['>'] = some st' ∧ st'.mode = (if isRawElem m t then .raw else .text) ∧ st'.buf = [] ∧
      st'.out = st.out ++ startEvents m t acc := by
  rcases hst with ⟨hm, hb, ha⟩ | ⟨hm, ht, ha⟩
  · rw [run_cons, step_openName_gt m st hm]
    exact ⟨_, rfl, by simp [hb], rfl, by simp [hb, ha]⟩
  · rw [run_cons, step_inTag_gt m st hm]
    exact ⟨_, rfl, by simp [ht], rfl, by simp [ht, ha]⟩

theorem run_gt (m : Method) (st : RS) (t : Name) (acc : List (Name × List Char)) (hst : InStart st t acc)
    (hraw : isRawElem m t = false) :
    ∃ st', run m st ['>'] = some st' ∧ st'.mode = .text ∧ st'.buf = [] ∧
      st'.out = st.out ++ startEvents m t acc := by
  obtain ⟨s, h1, h2, h3, h4⟩ := run_gt' m st t acc hst
  exact ⟨s, h1, by simpa [hraw] using h2, h3, h4⟩

theorem run_slash_gt (m : Method) (st : RS) (t : Name) (acc : List (Name × List Char)) (hst : InStart st t acc) :
    ∃ st', run m st ['/', '>'] = some st' ∧ st'.mode = .text ∧ st'.buf = [] ∧
      st'.out = st.out ++ [.start t acc, .end_ t] := by
  rcases hst with ⟨hm, hb, ha⟩ | ⟨hm, ht, ha⟩
  · rw [run_cons, step_openName_slash m st hm]
    simp only [Option.bind_some]
    rw [run_cons, step_slash_gt m _ rfl]
    exact ⟨_, rfl, rfl, rfl, by simp [hb, ha]⟩
  · rw [run_cons, step_inTag_slash m st hm]
    simp only [Option.bind_some]
    rw [run_cons, step_slash_gt m _ rfl]
    exact ⟨_, rfl, rfl, rfl, by simp [ht, ha]⟩

theorem run_sp_slash_gt (m : Method) (st : RS) (t : Name) (acc : List (Name × List Char))
    (hst : InStart st t acc) :
    ∃ st', run m st [' ', '/', '>'] = some st' ∧ st'.mode = .text ∧ st'.buf = [] ∧
      st'.out = st.out ++ [.start t acc, .end_ t] := by
  rcases hst with ⟨hm, hb, ha⟩ | ⟨hm, ht, ha⟩
  · rw [run_cons, step_openName_sp m st hm]
    simp only [Option.bind_some]
    rw [run_cons, step_attrName_slash m _ rfl rfl]
    simp only [Option.bind_some]
    rw [run_cons, step_slash_gt m _ rfl]
    exact ⟨_, rfl, rfl, rfl, by simp [hb, ha]⟩
  · rw [run_cons, step_inTag_sp m st hm]
    simp only [Option.bind_some]
    rw [run_cons, step_attrName_slash m _ rfl rfl]
    simp only [Option.bind_some]
    rw [run_cons, step_slash_gt m _ rfl]
    exact ⟨_, rfl, rfl, rfl, by simp [ht, ha]⟩

/-- an end tag from character data -/
theorem run_close (m : Method) (st : RS) (t : Name) (ht : IsName t) (hm : st.mode = .text) :
    ∃ st', run m st ('<' :: '/' :: (t ++ ['>'])) = some st' ∧ st'.mode = .text ∧ st'.buf = [] ∧
      st'.out = st.out ++ flushText st.buf ++ [.end_ t] := by
  rw [run_cons, step_text_lt m st hm]
  simp only [Option.bind_some]
  rw [run_cons, step_lt_slash m _ rfl]
  simp only [Option.bind_some]
  rw [run_append, run_closeName_chars m t ht.2 _ rfl]
  simp only [Option.bind_some, List.nil_append]
  rw [run_cons, step_closeName_gt m _ rfl (by exact ht.1)]
  exact ⟨_, rfl, rfl, rfl, rfl⟩

/-- a start tag with its attributes up to (not including) what closes it -/
theorem run_tagHead (m : Method) (st : RS) (t : Name) (a : List (Name × List Char))
    (ht : IsName t) (ha : RawAttrsOk a) (hm : st.mode = .text) :
    ∃ st', run m st ('<' :: (t ++ attrsRaw a)) = some st' ∧ InStart st' t (decodeAttrs a) ∧
      st'.out = st.out ++ flushText st.buf := by
  obtain ⟨s1, hr1, hs1, ho1⟩ := run_tagStart m st t ht hm
  obtain ⟨s2, hr2, hs2, ho2⟩ := run_attrs m t a ha s1 [] hs1
  refine ⟨s2, ?_, by simpa using hs2, by rw [ho2, ho1]⟩
  rw [← List.cons_append, run_append, hr1]
  exact hr2

/-- what the reader needs of a raw token: names are names, character data has no `<`,
    raw attribute values no `"` -/
def RTokOk (m : Method) : RTok → Prop
  | .text raw => ∀ c ∈ raw, c ≠ '<'
  | .open t a => (IsName t ∧ RawAttrsOk a) ∧ isRawElem m t = false
  | .empty t a => (IsName t ∧ RawAttrsOk a) ∧ isRawElem m t = false
  | .close t => IsName t

theorem startEvents_nonvoid (m : Method) (t : Name) (a : List (Name × List Char))
    (h : m = .html → (voidElems .html).contains t = false) : startEvents m t a = [.start t a] := by
  unfold startEvents
  cases m <;> simp_all

theorem startEvents_void (t : Name) (a : List (Name × List Char))
    (h : (voidElems .html).contains t = true) : startEvents .html t a = [.start t a, .end_ t] := by
  unfold startEvents
  rw [h]; rfl

/-- the reader over one raw token, from character-data mode -/
theorem run_rtok (m : Method) (tok : RTok) (hok : RTokOk m tok) (st : RS) (hm : st.mode = .text) :
    ∃ st', run m st (emitRTok m tok) = some st' ∧ st'.mode = .text ∧
      (st'.out, st'.buf) = absorb m (st.out, st.buf) tok := by
  cases tok with
  | text raw =>
    refine ⟨_, run_text_chars m raw hok st hm, hm, rfl⟩
  | close t =>
    obtain ⟨s1, hr, hm1, hb1, ho1⟩ := run_close m st t hok hm
    exact ⟨s1, hr, hm1, by simp [absorb, hb1, ho1]⟩
  | «open» t a =>
    obtain ⟨hok, hnr⟩ := hok
    obtain ⟨s1, hr1, hs1, ho1⟩ := run_tagHead m st t a hok.1 hok.2 hm
    obtain ⟨s2, hr2, hm2, hb2, ho2⟩ := run_gt m s1 t _ hs1 hnr
    refine ⟨s2, ?_, hm2, by simp [absorb, hb2, ho2, ho1]⟩
    simp only [emitRTok]
    rw [← List.append_assoc, ← List.cons_append, run_append, hr1]
    exact hr2
  | empty t a =>
    obtain ⟨hok, hnr⟩ := hok
    obtain ⟨s1, hr1, hs1, ho1⟩ := run_tagHead m st t a hok.1 hok.2 hm
    -- the three ways an element without content is written
    have hslash : ∃ st', run m st ('<' :: (t ++ (attrsRaw a ++ ['/', '>']))) = some st' ∧ st'.mode = .text ∧
        (st'.out, st'.buf) = absorb m (st.out, st.buf) (.empty t a) := by
      obtain ⟨s2, hr2, hm2, hb2, ho2⟩ := run_slash_gt m s1 t _ hs1
      refine ⟨s2, ?_, hm2, by simp [absorb, hb2, ho2, ho1]⟩
      rw [← List.append_assoc, ← List.cons_append, run_append, hr1]; exact hr2
    have hspslash : ∃ st', run m st ('<' :: (t ++ (attrsRaw a ++ [' ', '/', '>']))) = some st' ∧ st'.mode = .text ∧
        (st'.out, st'.buf) = absorb m (st.out, st.buf) (.empty t a) := by
      obtain ⟨s2, hr2, hm2, hb2, ho2⟩ := run_sp_slash_gt m s1 t _ hs1
      refine ⟨s2, ?_, hm2, by simp [absorb, hb2, ho2, ho1]⟩
      rw [← List.append_assoc, ← List.cons_append, run_append, hr1]; exact hr2
    have hpair : (m = .html → (voidElems .html).contains t = false) →
        ∃ st', run m st ('<' :: (t ++ (attrsRaw a ++ '>' :: '<' :: '/' :: (t ++ ['>'])))) = some st' ∧
        st'.mode = .text ∧ (st'.out, st'.buf) = absorb m (st.out, st.buf) (.empty t a) := by
      intro hnv
      obtain ⟨s2, hr2, hm2, hb2, ho2⟩ := run_gt m s1 t _ hs1 hnr
      obtain ⟨s3, hr3, hm3, hb3, ho3⟩ := run_close m s2 t hok.1 hm2
      refine ⟨s3, ?_, hm3, ?_⟩
      · have e : '<' :: (t ++ (attrsRaw a ++ '>' :: '<' :: '/' :: (t ++ ['>'])))
            = ('<' :: (t ++ attrsRaw a)) ++ (['>'] ++ '<' :: '/' :: (t ++ ['>'])) := by simp
        rw [e, run_append, hr1]
        simp only [Option.bind_some]
        rw [run_append, hr2]
        exact hr3
      · simp [absorb, hb3, ho3, ho2, ho1, hb2, flushText, startEvents_nonvoid m t _ hnv]
    have hvoid : m = .html → (voidElems .html).contains t = true →
        ∃ st', run m st ('<' :: (t ++ (attrsRaw a ++ ['>']))) = some st' ∧
        st'.mode = .text ∧ (st'.out, st'.buf) = absorb m (st.out, st.buf) (.empty t a) := by
      intro hmh hv
      subst hmh
      obtain ⟨s2, hr2, hm2, hb2, ho2⟩ := run_gt .html s1 t _ hs1 hnr
      refine ⟨s2, ?_, hm2, by simp [absorb, hb2, ho2, ho1, startEvents_void t _ hv]⟩
      rw [← List.append_assoc, ← List.cons_append, run_append, hr1]; exact hr2
    cases m with
    | xml => simpa [emitRTok] using hslash
    | xhtml =>
      simp only [emitRTok]
      split
      · exact hspslash
      · exact hpair (by simp)
    | html =>
      simp only [emitRTok]
      split
      · rename_i hv; exact hvoid rfl hv
      · rename_i hv; exact hpair (fun _ => by simpa using hv)

/-- the reader over a sequence of raw tokens -/
theorem run_rtoks (m : Method) (toks : List RTok) (hok : ∀ t ∈ toks, RTokOk m t) :
    ∀ st : RS, st.mode = .text →
    ∃ st', run m st (toks.flatMap (emitRTok m)) = some st' ∧ st'.mode = .text ∧
      (st'.out, st'.buf) = absorbAll m (st.out, st.buf) toks := by
  induction toks with
  | nil => intro st hm; exact ⟨st, rfl, hm, rfl⟩
  | cons t ts ih =>
    intro st hm
    obtain ⟨s1, hr1, hm1, he1⟩ := run_rtok m t (hok t (by simp)) st hm
    obtain ⟨s2, hr2, hm2, he2⟩ := ih (fun x hx => hok x (List.mem_cons_of_mem _ hx)) s1 hm1
    refine ⟨s2, ?_, hm2, ?_⟩
    · rw [List.flatMap_cons, run_append, hr1]; exact hr2
    · rw [he2, he1]; rfl

/-- **the reader accepts the serializers' output language** and reads it as `absorbAll` says -/
theorem readDoc_rtoks (m : Method) (toks : List RTok) (hok : ∀ t ∈ toks, RTokOk m t) :
    readDoc m (toks.flatMap (emitRTok m)) =
      some ((absorbAll m ([], []) toks).1 ++ flushText (absorbAll m ([], []) toks).2) := by
  obtain ⟨st, hr, hm, he⟩ := run_rtoks m toks hok initRS rfl
  unfold readDoc
  rw [hr]
  have h1 : st.out = (absorbAll m ([], []) toks).1 := congrArg Prod.fst he
  have h2 : st.buf = (absorbAll m ([], []) toks).2 := congrArg Prod.snd he
  simp [hm, h1, h2]

end Genshi.Subst

/-
  C04: the simulation theorem — whatever the documentation semantics renders,
  the implementation model renders identically (for successful renders).
-/
import Genshi.Lemmas.TmplSim
namespace Genshi.Tmpl

theorem wfNodes_cons {n : TNode} {ns : List TNode} (h : wfNodes (n :: ns) = true) :
    wfNode n = true ∧ wfNodes ns = true := by
  simpa [wfNodes] using h

theorem compileNodes_cons (n : TNode) (ns : List TNode) :
    compileNodes (n :: ns) = compileNode n ++ compileNodes ns := by simp [compileNodes]

theorem getLast_body (t a) (ks : List CEv) (e : CEv) :
    (CEv.start t a :: (ks ++ [e])).getLast?.getD (.start t a) = e := by
  simp [List.getLast?_cons]

theorem dropLast_body (ks : List CEv) (e : CEv) : (ks ++ [e]).dropLast = ks := by simp


theorem sorted_after_strip {c : Option Expr} {ds : List Dir} (h : StrictSorted (.strip c :: ds)) :
    ds = [] := by
  cases ds with
  | nil => rfl
  | cons d ds =>
    have := h.head_lt d (List.mem_cons_self ..)
    cases d <;> simp [Dir.rank] at this

theorem sorted_after_attrs {e : Expr} {ds : List Dir} (h : StrictSorted (.attrs e :: ds)) :
    ds = [] ∨ ∃ c, ds = [.strip c] := by
  cases ds with
  | nil => exact Or.inl rfl
  | cons d ds =>
    have h1 := h.head_lt d (List.mem_cons_self ..)
    cases d <;> simp [Dir.rank] at h1
    rename_i c
    exact Or.inr ⟨c, by rw [sorted_after_strip h.tail]⟩

theorem apply_passthrough_attrs {e : Expr} {x : XExpr} {st s1 : St} {o : List Event}
    (h : IOk (.ev (.xexpr x)) st o s1) : IOk (.apply [.attrs e] [.xexpr x]) st o s1 := by
  obtain ⟨k, hk⟩ := IOk.flat_single h
  exact ⟨k + 1, by simp [run, attrsHead, hk, bind, Except.bind]⟩

theorem apply_passthrough_strip {c : Option Expr} {x : XExpr} {st s1 : St} {o : List Event}
    (h : IOk (.ev (.xexpr x)) st o s1) : IOk (.apply [.strip c] [.xexpr x]) st o s1 := by
  obtain ⟨k, hk⟩ := IOk.flat_single h
  exact ⟨k + 1, by simp [run, stripBody, hk, bind, Except.bind]⟩

theorem apply_passthrough_attrs_strip {e : Expr} {c : Option Expr} {x : XExpr} {st s1 : St}
    {o : List Event} (h : IOk (.ev (.xexpr x)) st o s1) :
    IOk (.apply [.attrs e, .strip c] [.xexpr x]) st o s1 := by
  obtain ⟨k, hk⟩ := IOk.flat_single h
  exact ⟨k + 1, by simp [run, attrsHead, stripBody, hk, bind, Except.bind]⟩

/-- after `py:replace` nothing else on the element has any effect -/
theorem tail_after_replace {x : XExpr} {st s1 : St} {o : List Event}
    (h : IOk (.ev (.xexpr x)) st o s1) :
    ∀ ds : List Dir, StrictSorted ds → (∀ d ∈ ds, 8 < d.rank) →
    IOk (.apply (attach ds [.xexpr x]).1 (attach ds [.xexpr x]).2) st o s1 := by
  intro ds
  induction ds with
  | nil => intro _ _; exact IOk.apply_nil (IOk.flat_single h)
  | cons d ds ih =>
    intro hs hr
    have hd := hr d (List.mem_cons_self ..)
    cases d <;> simp [Dir.rank] at hd
    · -- content
      simp only [attach]
      exact ih hs.tail (fun y hy => hr y (List.mem_cons_of_mem _ hy))
    · -- attrs
      rename_i e
      rcases sorted_after_attrs hs with rfl | ⟨c, rfl⟩
      · simpa [attach] using apply_passthrough_attrs h
      · simpa [attach] using apply_passthrough_attrs_strip h
    · -- strip
      rw [sorted_after_strip hs]
      simpa [attach] using apply_passthrough_strip h

theorem SimG.setMatched {d : DSt} {st : St} (h : SimG d st) (c : Choice) (cs : List Choice) (m : Bool) :
    SimG (d.setMatched c m) (st.setMatched c cs m) :=
  ⟨h.glob, rfl, h.mlen, h.macros⟩

/-- precondition on the state for the assignment phase of `py:with` -/
def BindsPre : DTask → St → Prop
  | .binds _ _ _, st => st.scopes ≠ []
  | _, _ => True

theorem sim_ok : ∀ (n : Nat) (T : DTask) (loc : Env) (d : DSt) (o : List Event) (d' : DSt),
    doc n T loc d = .ok (o, d') → TaskWF T →
    ∀ st : St, loc = st.scopes.flatten → SimG d st → BindsPre T st →
    ∃ st', IOk (taskOf T) st o st' ∧ SimG d' st' := by
  intro n
  induction n with
  | zero => intro T loc d o d' h; simp [doc] at h
  | succ n ih =>
    intro T loc d o d' h hwf st hl hg hb
    cases T with
    | nodes ns =>
      cases ns with
      | nil =>
        simp only [doc, Except.ok.injEq, Prod.mk.injEq] at h
        obtain ⟨rfl, rfl⟩ := h
        exact ⟨st, by simpa [taskOf, compileNodes] using IOk.flat_nil st, hg⟩
      | cons nd rest =>
        simp only [doc, seq_ok] at h
        obtain ⟨o1, d1, o2, h1, h2, rfl⟩ := h
        obtain ⟨w1, w2⟩ := wfNodes_cons hwf
        obtain ⟨s1, r1, g1⟩ := ih _ _ _ _ _ h1 w1 st hl hg trivial
        have hs1 : s1.scopes = st.scopes := r1.scopes
        obtain ⟨s2, r2, g2⟩ := ih _ _ _ _ _ h2 w2 s1 (by rw [hs1]; exact hl) g1 trivial
        refine ⟨s2, ?_, g2⟩
        simp only [taskOf, compileNodes_cons] at r1 r2 ⊢
        exact IOk.flat_append r1 r2
    | node nd =>
      cases nd with
      | text s =>
        simp only [doc, Except.ok.injEq, Prod.mk.injEq] at h
        obtain ⟨rfl, rfl⟩ := h
        exact ⟨st, by simpa [taskOf, compileNode] using IOk.flat_single (IOk.ev_text s st), hg⟩
      | expr x =>
        simp only [doc] at h
        obtain ⟨s1, r1, g1⟩ := ih _ _ _ _ _ h trivial st hl hg trivial
        exact ⟨s1, by simpa [taskOf, compileNode] using IOk.flat_single r1, g1⟩
      | elem tag attrs dirs kids =>
        simp only [doc] at h
        have hw : wfNode (.elem tag attrs dirs kids) = true := hwf
        simp only [wfNode, Bool.and_eq_true, decide_eq_true_eq] at hw
        have hdw : DirsWF (sortBy Dir.docIdx dirs) (.elem tag attrs kids) :=
          ⟨sortBy_docIdx_strict dirs hw.1, trivial, hw.2⟩
        obtain ⟨s1, r1, g1⟩ := ih _ _ _ _ _ h hdw st hl hg trivial
        refine ⟨s1, ?_, g1⟩
        simp only [taskOf, compileNode, implIdx_eq_docIdx]
        exact IOk.mkSub r1
      | delem dd kids =>
        simp only [doc] at h
        have hw : wfNode (.delem dd kids) = true := hwf
        simp only [wfNode, Bool.and_eq_true, Bool.not_eq_true'] at hw
        have hdw : DirsWF [dd] (.frag kids) :=
          ⟨by simp [StrictSorted], by intro x hx; simp at hx; subst hx; exact hw.1, hw.2⟩
        obtain ⟨s1, r1, g1⟩ := ih _ _ _ _ _ h hdw st hl hg trivial
        refine ⟨s1, ?_, g1⟩
        simp only [taskOf, compileNode]
        exact IOk.mkSub r1
    | xexpr x =>
      cases x with
      | pure e =>
        simp only [doc, bind_ok, pure, Except.pure, Except.ok.injEq, Prod.mk.injEq] at h
        obtain ⟨v, hv, out, hout, rfl, rfl⟩ := h
        refine ⟨st, ⟨1, ?_⟩, hg⟩
        rw [look_sim hl hg.glob] at hv
        simp [taskOf, run, hv, hout, bind, Except.bind, pure, Except.pure]
      | call f args =>
        simp only [doc, bind_ok] at h
        obtain ⟨fv, hfv, vs, hvs, dm, hdm, scope, hsc, h2⟩ := h
        rw [look_sim hl hg.glob] at hfv hvs hsc
        obtain ⟨m, hm, ms⟩ := getMacro_sim hg hdm
        obtain ⟨hp, hdw, hd1, hd2⟩ := ms
        have hg' : SimG d (st.push scope) := hg.of_same rfl rfl rfl
        obtain ⟨s1, r1, g1⟩ := ih _ _ _ _ _ h2 hdw (st.push scope)
          (by simp [St.push, hl]) hg' trivial
        refine ⟨s1.pop, ?_, g1.of_same rfl rfl rfl⟩
        obtain ⟨k, r1⟩ := r1
        refine ⟨k + 1, ?_⟩
        simp only [taskOf] at r1
        rw [← hd1, ← hd2] at r1
        rw [hp] at hsc
        simp [taskOf, run, hfv, hvs, hm, hsc, r1, bind, Except.bind, mapSt]
    | dirs ds t =>
      have hdw : DirsWF ds t := hwf
      cases ds with
      | nil =>
        cases t with
        | elem tag attrs kids =>
          simp only [doc, wrapOut_ok] at h
          obtain ⟨o1, h1, rfl⟩ := h
          obtain ⟨s1, r1, g1⟩ := ih _ _ _ _ _ h1 hdw.wf st hl hg trivial
          refine ⟨s1, ?_, g1⟩
          simp only [taskOf, attach, targetBody] at r1 ⊢
          have := IOk.flat_cons (IOk.ev_start tag attrs st)
            (IOk.flat_append r1 (IOk.flat_single (IOk.ev_end tag s1)))
          exact IOk.apply_nil (by simpa using this)
        | frag kids =>
          simp only [doc] at h
          obtain ⟨s1, r1, g1⟩ := ih _ _ _ _ _ h hdw.wf st hl hg trivial
          exact ⟨s1, IOk.apply_nil (by simpa [taskOf, attach, targetBody] using r1), g1⟩
      | cons dd ds =>
        have hdt : DirsWF ds t := hdw.tail
        have hlook := look_sim hl hg.glob
        cases dd with
        | def_ name params =>
          simp only [doc, Except.ok.injEq, Prod.mk.injEq] at h
          obtain ⟨rfl, rfl⟩ := h
          refine ⟨_, ⟨1, ?_⟩, hg.define name params ds t hdt⟩
          simp only [taskOf, attach_keep (.def_ name params) ds _ (by simp [Dir.rank]), run]
        | when e =>
          simp only [doc] at h
          have hch := hg.ch
          cases hcs : st.choice with
          | nil => simp [hcs] at hch; simp [hch] at h
          | cons c cs =>
            simp only [hcs, List.head?_cons] at hch
            simp only [hch] at h
            cases hm : c.matched with
            | true =>
              simp only [hm, if_true, Except.ok.injEq, Prod.mk.injEq] at h
              obtain ⟨rfl, rfl⟩ := h
              refine ⟨st, ⟨1, ?_⟩, hg⟩
              simp [taskOf, attach_keep (.when e) ds _ (by simp [Dir.rank]), run, hcs, hm]
            | false =>
              simp only [hm, Bool.false_eq_true, if_false, bind_ok] at h
              obtain ⟨m, hmm, h2⟩ := h
              rw [hlook] at hmm
              have htest := whenMatches_ok_test hmm
              cases m with
              | true =>
                simp only [if_true] at h2
                obtain ⟨s1, ⟨k, r1⟩, g1⟩ := ih _ _ _ _ _ h2 hdt (st.setMatched c cs true)
                  (by simpa [St.setMatched] using hl) (hg.setMatched c cs true) trivial
                refine ⟨s1, ⟨k + 1, ?_⟩, g1⟩
                simp only [taskOf] at r1
                simp [taskOf, attach_keep (.when e) ds _ (by simp [Dir.rank]), run, hcs, hm, htest, hmm,
                  r1, bind, Except.bind]
              | false =>
                simp only [Bool.false_eq_true, if_false, pure, Except.pure, Except.ok.injEq, Prod.mk.injEq] at h2
                obtain ⟨rfl, rfl⟩ := h2
                refine ⟨st.setMatched c cs false, ⟨1, ?_⟩, hg.setMatched c cs false⟩
                simp [taskOf, attach_keep (.when e) ds _ (by simp [Dir.rank]), run, hcs, hm, htest, hmm,
                  bind, Except.bind, pure, Except.pure]
        | otherwise =>
          simp only [doc] at h
          have hch := hg.ch
          cases hcs : st.choice with
          | nil => simp [hcs] at hch; simp [hch] at h
          | cons c cs =>
            simp only [hcs, List.head?_cons] at hch
            simp only [hch] at h
            cases hm : c.matched with
            | true =>
              simp only [hm, if_true, Except.ok.injEq, Prod.mk.injEq] at h
              obtain ⟨rfl, rfl⟩ := h
              refine ⟨st, ⟨1, ?_⟩, hg⟩
              simp [taskOf, attach_keep .otherwise ds _ (by simp [Dir.rank]), run, hcs, hm]
            | false =>
              simp only [hm, Bool.false_eq_true, if_false] at h
              obtain ⟨s1, ⟨k, r1⟩, g1⟩ := ih _ _ _ _ _ h hdt (st.setMatched c cs true)
                (by simpa [St.setMatched] using hl) (hg.setMatched c cs true) trivial
              refine ⟨s1, ⟨k + 1, ?_⟩, g1⟩
              simp only [taskOf] at r1
              simp [taskOf, attach_keep .otherwise ds _ (by simp [Dir.rank]), run, hcs, hm, r1]
        | for_ v e =>
          simp only [doc, bind_ok] at h
          obtain ⟨it, hit, items, hitems, h2⟩ := h
          rw [hlook] at hit
          obtain ⟨s1, ⟨k, r1⟩, g1⟩ := ih _ _ _ _ _ h2 hdt st hl hg trivial
          refine ⟨s1, ⟨k + 1, ?_⟩, g1⟩
          simp only [taskOf] at r1
          simp [taskOf, attach_keep (.for_ v e) ds _ (by simp [Dir.rank]), run, hit, hitems, r1,
            bind, Except.bind]
        | if_ e =>
          simp only [doc, bind_ok] at h
          obtain ⟨v, hv, h2⟩ := h
          rw [hlook] at hv
          cases ht : v.truthy with
          | true =>
            simp only [ht, if_true] at h2
            obtain ⟨s1, ⟨k, r1⟩, g1⟩ := ih _ _ _ _ _ h2 hdt st hl hg trivial
            refine ⟨s1, ⟨k + 1, ?_⟩, g1⟩
            simp only [taskOf] at r1
            simp [taskOf, attach_keep (.if_ e) ds _ (by simp [Dir.rank]), run, hv, ht, r1, bind, Except.bind]
          | false =>
            simp only [ht, Bool.false_eq_true, if_false, pure, Except.pure, Except.ok.injEq, Prod.mk.injEq] at h2
            obtain ⟨rfl, rfl⟩ := h2
            refine ⟨st, ⟨1, ?_⟩, hg⟩
            simp [taskOf, attach_keep (.if_ e) ds _ (by simp [Dir.rank]), run, hv, ht, bind, Except.bind,
              pure, Except.pure]
        | choose e =>
          simp only [doc, bind_ok, mapSt_ok] at h
          obtain ⟨v, hv, d1, h2, rfl⟩ := h
          rw [hlook] at hv
          let st0 : St := { st with choice := ⟨false, e.isSome, v⟩ :: st.choice }
          have hg0 : SimG { d with ch := some ⟨false, e.isSome, v⟩ } st0 :=
            ⟨hg.glob, rfl, hg.mlen, hg.macros⟩
          obtain ⟨s1, ⟨k, r1⟩, g1⟩ := ih _ _ _ _ _ h2 hdt st0 hl hg0 trivial
          have htail : s1.choice.tail = st.choice := by
            rcases (run_inv k _ _ _ _ r1).1 with h3 | ⟨c, cs, h3, _, h4⟩
            · rw [h3]; rfl
            · simp only [st0, List.cons.injEq] at h3
              rw [h4, List.tail_cons, h3.2]
          refine ⟨s1.popChoice, ⟨k + 1, ?_⟩, ⟨g1.glob, ?_, g1.mlen, g1.macros⟩⟩
          · simp only [taskOf] at r1
            simp [taskOf, attach_keep (.choose e) ds _ (by simp [Dir.rank]), run, hv, st0, r1, bind,
              Except.bind, mapSt] at r1 ⊢
          · simp only [St.popChoice, htail]; exact hg.ch
        | with_ bs =>
          simp only [doc] at h
          obtain ⟨s1, ⟨k, r1⟩, g1⟩ := ih _ _ _ _ _ h hdt (st.push [])
            (by simp [St.push, hl]) (hg.of_same rfl rfl rfl) (by simp [BindsPre, St.push])
          refine ⟨s1.pop, ⟨k + 1, ?_⟩, g1.of_same rfl rfl rfl⟩
          simp only [taskOf] at r1
          simp [taskOf, attach_keep (.with_ bs) ds _ (by simp [Dir.rank]), run, r1, mapSt]
        | replace x =>
          simp only [doc] at h
          obtain ⟨s1, r1, g1⟩ := ih _ _ _ _ _ h trivial st hl hg trivial
          refine ⟨s1, ?_, g1⟩
          simp only [taskOf, attach] at r1 ⊢
          exact tail_after_replace r1 ds hdt.sorted
            (fun y hy => by simpa [Dir.rank] using hdw.sorted.head_lt y hy)
        | content x =>
          cases t with
          | frag kids =>
            have := hdw.tok (.content x) (List.mem_cons_self ..)
            simp [Dir.elemOnly] at this
          | elem tag attrs kids =>
            simp only [doc] at h
            have hdt' : DirsWF ds (.elem tag attrs [.expr x]) :=
              ⟨hdt.sorted, trivial, by simp [Target.kids, wfNodes, wfNode]⟩
            obtain ⟨s1, r1, g1⟩ := ih _ _ _ _ _ h hdt' st hl hg trivial
            refine ⟨s1, ?_, g1⟩
            simp only [taskOf, targetBody, attach, getLast_body] at r1 ⊢
            simpa [compileNodes, compileNode] using r1
        | attrs e =>
          cases t with
          | frag kids =>
            have := hdw.tok (.attrs e) (List.mem_cons_self ..)
            simp [Dir.elemOnly] at this
          | elem tag attrs kids =>
            simp only [doc, bind_ok] at h
            obtain ⟨v, hv, ps, hps, h2⟩ := h
            rw [hlook] at hv
            have hdt' : DirsWF ds (.elem tag (Genshi.Escape.Attrs.or attrs ps) kids) :=
              ⟨hdt.sorted, trivial, hdt.wf⟩
            obtain ⟨s1, ⟨k, r1⟩, g1⟩ := ih _ _ _ _ _ h2 hdt' st hl hg trivial
            refine ⟨s1, ?_, g1⟩
            rcases sorted_after_attrs hdw.sorted with rfl | ⟨c, rfl⟩
            · cases k with
              | zero => simp [run] at r1
              | succ k =>
                simp only [taskOf, attach, targetBody, run] at r1
                refine ⟨k + 1, ?_⟩
                simp [taskOf, attach, targetBody, run, attrsHead, hv, hps, r1, bind, Except.bind, pure, Except.pure]
            · cases k with
              | zero => simp [run] at r1
              | succ k =>
                simp only [taskOf, attach, targetBody, run] at r1
                refine ⟨k + 1, ?_⟩
                simp only [taskOf, attach, targetBody, run, attrsHead, hv, hps, bind, Except.bind, pure,
                  Except.pure]
                exact r1
        | strip c =>
          cases t with
          | frag kids =>
            have := hdw.tok (.strip c) (List.mem_cons_self ..)
            simp [Dir.elemOnly] at this
          | elem tag attrs kids =>
            have hnil := sorted_after_strip hdw.sorted
            subst hnil
            simp only [doc, bind_ok] at h
            obtain ⟨b, hb', h2⟩ := h
            rw [hlook] at hb'
            cases b with
            | true =>
              simp only [if_true] at h2
              obtain ⟨s1, r1, g1⟩ := ih _ _ _ _ _ h2 ⟨by simp [StrictSorted], by intro y hy; simp at hy, hdt.wf⟩
                st hl hg trivial
              obtain ⟨k, r1⟩ := IOk.apply_nil_inv (by simpa [taskOf, attach, targetBody] using r1)
              refine ⟨s1, ⟨k + 1, ?_⟩, g1⟩
              cases hck : compileNodes kids ++ [CEv.end_ tag] with
              | nil => simp at hck
              | cons e0 rest0 =>
                have hdl : (e0 :: rest0).dropLast = compileNodes kids := by rw [← hck]; simp
                simp [taskOf, attach, targetBody, run, stripBody, hb', hck, hdl, r1, bind, Except.bind, pure,
                  Except.pure]
            | false =>
              simp only [Bool.false_eq_true, if_false] at h2
              obtain ⟨s1, r1, g1⟩ := ih _ _ _ _ _ h2 ⟨by simp [StrictSorted], trivial, hdt.wf⟩
                st hl hg trivial
              obtain ⟨k, r1⟩ := IOk.apply_nil_inv (by simpa [taskOf, attach] using r1)
              refine ⟨s1, ⟨k + 1, ?_⟩, g1⟩
              simp only [targetBody] at r1
              simp [taskOf, attach, targetBody, run, stripBody, hb', r1, bind, Except.bind, pure, Except.pure]
    | loop v items ds t =>
      cases items with
      | nil =>
        simp only [doc, Except.ok.injEq, Prod.mk.injEq] at h
        obtain ⟨rfl, rfl⟩ := h
        exact ⟨st, ⟨1, rfl⟩, hg⟩
      | cons item items =>
        simp only [doc, seq_ok] at h
        obtain ⟨o1, d1, o2, h1, h2, rfl⟩ := h
        have hdw : DirsWF ds t := hwf
        obtain ⟨s1, r1, g1⟩ := ih _ _ _ _ _ h1 hdw (st.push [(v, item)])
          (by simp [St.push, hl]) (hg.of_same rfl rfl rfl) trivial
        have hs1 : s1.scopes = (st.push [(v, item)]).scopes := r1.scopes
        obtain ⟨s2, r2, g2⟩ := ih _ _ _ _ _ h2 hdw s1.pop
          (by simp [St.pop, hs1, St.push, hl]) (g1.of_same rfl rfl rfl) trivial
        refine ⟨s2, ?_, g2⟩
        obtain ⟨k1, r1⟩ := r1
        obtain ⟨k2, r2⟩ := r2
        refine ⟨max k1 k2 + 1, ?_⟩
        simp only [taskOf] at r1 r2 ⊢
        simp only [run, seq_ok]
        exact ⟨o1, s1, o2, IOk.lift r1 (Nat.le_max_left _ _), IOk.lift r2 (Nat.le_max_right _ _), rfl⟩
    | binds bs ds t =>
      cases bs with
      | nil =>
        simp only [doc] at h
        have hdw : DirsWF ds t := hwf
        obtain ⟨s1, ⟨k, r1⟩, g1⟩ := ih _ _ _ _ _ h hdw st hl hg trivial
        exact ⟨s1, ⟨k + 1, by simpa only [taskOf, run] using r1⟩, g1⟩
      | cons p bs =>
        obtain ⟨x, e⟩ := p
        simp only [doc, bind_ok] at h
        obtain ⟨v, hv, h2⟩ := h
        rw [look_sim hl hg.glob] at hv
        have hdw : DirsWF ds t := hwf
        have hne : st.scopes ≠ [] := hb
        obtain ⟨f, fs, hfs⟩ : ∃ f fs, st.scopes = f :: fs := by
          cases hsc : st.scopes with
          | nil => exact absurd hsc hne
          | cons f fs => exact ⟨f, fs, rfl⟩
        have hset : (st.setTop x v).scopes = ((x, v) :: f) :: fs := by simp [St.setTop, hfs]
        obtain ⟨s1, ⟨k, r1⟩, g1⟩ := ih _ _ _ _ _ h2 hdw (st.setTop x v)
          (by rw [hset, hl, hfs]; simp)
          (hg.of_same (by simp [St.setTop, hfs]) (by simp [St.setTop, hfs]) (by simp [St.setTop, hfs]))
          (by show (st.setTop x v).scopes ≠ []; rw [hset]; simp)
        refine ⟨s1, ⟨k + 1, ?_⟩, g1⟩
        simp only [taskOf] at r1
        simp [taskOf, run, hv, r1, bind, Except.bind]

end Genshi.Tmpl

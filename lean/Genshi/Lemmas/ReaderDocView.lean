/-
  Helper lemmas for C08: the parsers' views (`htmlView` = html.parser, `xmlView` =
  expat with namespace resolution) of the tokens read back for a whole document:
  the DOCTYPE and the XML declaration are recovered as fields, processing
  instructions as target and data, elements in their namespace.
-/
import Genshi.Lemmas.ReaderDocTop
import Genshi.Lemmas.ReaderXmlView
import Genshi.Lemmas.OutputNoCR
namespace Genshi.Reader
open Genshi Genshi.Escape Genshi.Output

/-- no carriage return in the DOCTYPE / XML declaration fields -/
def dtNcr : Option DocTypeT → Bool
  | some x => ncr x.1 && oncr x.2.1 && oncr x.2.2
  | none => true

def declNcr : Option DeclT → Bool
  | some x => ncr x.1 && oncr x.2.1
  | none => true

/-- no carriage return anywhere in the document (with one, XML line-end normalisation changes the text) -/
def docNcr (u : Str) (dopt : Option DocTypeT) (decl : Option DeclT) (dt : Option DocTypeT) (body : List Node) : Bool :=
  ncr u && forestNcr body && declNcr decl && dtNcr dopt && dtNcr dt

/-! ### `assemble` with a prolog in front -/

def startsTok : List Piece → Bool
  | .chars _ :: _ => false
  | _ => true

theorem mergeGo_startsTok (buf : Str) (ps : List Piece) (h : startsTok ps = true) :
    mergeGo buf ps = textTok buf ++ mergeGo [] ps := by
  cases ps with
  | nil => simp [mergeGo, textTok]
  | cons p rest =>
    cases p with
    | chars s => simp [startsTok] at h
    | tok t => simp [mergeGo, textTok]

def nlTok : List Tok := [.text ['\n']]

def dtToksOf : Option DocTypeT → List Tok
  | some x => .doctype (doctypeContent x.1 x.2.1 x.2.2) :: nlTok
  | none => []

def xdToksOf (o : Opts) : Option DeclT → List Tok
  | some x => if o.dropXmlDecl then [] else .pi (xmlDeclContent x.1 x.2.1 x.2.2) :: nlTok
  | none => []

theorem startsTok_dt (d : Option DocTypeT) (ps : List Piece) (h : startsTok ps = true) :
    startsTok (dtPiecesOf d ++ ps) = true := by
  cases d with
  | none => simpa [dtPiecesOf] using h
  | some x => rfl

/-- the tokens of a document: prolog tokens (each followed by the line feed the serializer writes),
    then the tokens of the body -/
theorem assemble_doc (o : Opts) (decl : Option DeclT) (d : Option DocTypeT) (ps : List Piece)
    (h : startsTok ps = true) :
    assemble (xdPiecesOf o decl ++ (dtPiecesOf d ++ ps)) = xdToksOf o decl ++ (dtToksOf d ++ assemble ps) := by
  have hdt : ∀ buf, mergeGo buf (dtPiecesOf d ++ ps) = textTok buf ++ (dtToksOf d ++ mergeGo [] ps) := by
    intro buf
    rw [mergeGo_startsTok buf _ (startsTok_dt d ps h)]
    cases d with
    | none => simp [dtPiecesOf, dtToksOf]
    | some x =>
      simp only [dtPiecesOf, dtPieces, List.cons_append, List.nil_append, mergeGo, dtToksOf, nlTok]
      rw [mergeGo_startsTok _ ps h]
      simp [textTok]
  rw [assemble_eq_merge, assemble_eq_merge]
  cases decl with
  | none => simpa [xdPiecesOf, xdToksOf, textTok] using hdt []
  | some x =>
    cases hx : o.dropXmlDecl with
    | true => simpa [xdPiecesOf, xdToksOf, hx, textTok] using hdt []
    | false =>
      simp only [xdPiecesOf, hx, Bool.false_eq_true, ↓reduceIte, xdPieces, List.cons_append, List.nil_append, mergeGo,
        xdToksOf, nlTok]
      rw [hdt]
      simp [textTok]

/-! ### html.parser's view -/

def dtHOf : Option DocTypeT → List HTok
  | some x => [.doctype x.1 (normOpt x.2.1) (normOpt x.2.2), .text ['\n']]
  | none => []

theorem htmlView_append (a b : List Tok) : htmlView (a ++ b) = htmlView a ++ htmlView b := by
  induction a with
  | nil => rfl
  | cons t ts ih => cases t <;> simp [htmlView, ih] <;> split <;> simp

theorem htmlView_dt (d : Option DocTypeT) (h : dtOkOf d = true) : htmlView (dtToksOf d) = dtHOf d := by
  cases d with
  | none => rfl
  | some x =>
    simp only [dtOkOf] at h
    simp [dtToksOf, nlTok, htmlView, parseDoctype_doctypeContent _ _ _ h, dtHOf]

/-- what html.parser delivers for a document whose DOCTYPE `win` is written in front of the body
    pieces `ps`: the DOCTYPE with its fields, then the body; the line feed the serializer writes
    behind the DOCTYPE is dropped (`dropDoctypeNl`) -/
def htmlDocView (win : Option DocTypeT) (ps : List Piece) : List HTok :=
  dropDoctypeNl (match win with
    | some x => .doctype x.1 (normOpt x.2.1) (normOpt x.2.2) :: htmlView (assemble (.chars ['\n'] :: ps))
    | none => htmlView (assemble ps))

theorem htmlView_doc (win : Option DocTypeT) (ps : List Piece) (h : dtOkOf win = true) :
    dropDoctypeNl (htmlView (assemble (dtPiecesOf win ++ ps))) = htmlDocView win ps := by
  cases win with
  | none => rfl
  | some x =>
    simp only [dtOkOf] at h
    have : assemble (dtPiecesOf (some x) ++ ps) =
        .doctype (doctypeContent x.1 x.2.1 x.2.2) :: assemble (.chars ['\n'] :: ps) := by
      rw [assemble_eq_merge, assemble_eq_merge]
      simp [dtPiecesOf, dtPieces, mergeGo, textTok]
    rw [this]
    simp [htmlDocView, htmlView, parseDoctype_doctypeContent _ _ _ h]

/-! ### expat's view -/

/-- the XML declaration is written and parsed back: no `>` and no `"` in version and encoding -/
def xdViewOk (o : Opts) : Option DeclT → Bool
  | some x => o.dropXmlDecl || (xdNoGt x.1 x.2.1 && xdFieldsOk x.1 x.2.1)
  | none => true

theorem xdOkOf_of_view (o : Opts) (decl : Option DeclT) (h : xdViewOk o decl = true) : xdOkOf o decl = true := by
  cases decl with
  | none => rfl
  | some x =>
    simp only [xdViewOk, Bool.or_eq_true, Bool.and_eq_true] at h
    simp only [xdOkOf, Bool.or_eq_true]
    rcases h with h | h
    · exact Or.inl h
    · exact Or.inr h.1

def xdXOf (o : Opts) : Option DeclT → List XTok
  | some x => if o.dropXmlDecl then [] else [.xmlDecl x.1 (normOpt x.2.1) (standaloneNorm x.2.2)]
  | none => []

def dtXOf : Option DocTypeT → List XTok
  | some x => [.doctype x.1 (normOpt x.2.1) (normOpt x.2.2)]
  | none => []

theorem xmlDeclContent_pfx (v : Str) (e : Option Str) (s : Int) :
    List.isPrefixOf ['x', 'm', 'l', ' '] (xmlDeclContent v e s) = true := by
  simp [xmlDeclContent, List.isPrefixOf]

/-- namespace resolution of the prolog tokens: declaration and DOCTYPE as fields, the line feeds
    behind them (white space outside the root) dropped -/
theorem xmlView_prolog (o : Opts) (decl : Option DeclT) (d : Option DocTypeT) (T : List Tok)
    (hx : xdViewOk o decl = true) (hd : dtOkOf d = true) :
    xmlView [] (xdToksOf o decl ++ (dtToksOf d ++ T)) = (xmlView [] T).map (fun r => xdXOf o decl ++ (dtXOf d ++ r)) := by
  have hdt : xmlView [] (dtToksOf d ++ T) = (xmlView [] T).map (fun r => dtXOf d ++ r) := by
    cases d with
    | none => simp [dtToksOf, dtXOf]
    | some x =>
      simp only [dtOkOf] at hd
      simp only [dtToksOf, nlTok, List.cons_append, List.nil_append, xmlView, parseDoctype_doctypeContent _ _ _ hd,
        List.isEmpty_nil, ↓reduceIte, dtXOf]
      have : allSpace ['\n'] = true := by decide
      simp only [this, ↓reduceIte]
  cases decl with
  | none => simpa [xdToksOf, xdXOf] using hdt
  | some x =>
    cases hdx : o.dropXmlDecl with
    | true => simpa [xdToksOf, xdXOf, hdx] using hdt
    | false =>
      have hf : xdFieldsOk x.1 x.2.1 = true := by
        simp only [xdViewOk, hdx, Bool.false_or, Bool.and_eq_true] at hx; exact hx.2
      have : allSpace ['\n'] = true := by decide
      simp only [xdToksOf, hdx, Bool.false_eq_true, ↓reduceIte, nlTok, List.cons_append, List.nil_append, xmlView,
        xmlDeclContent_pfx, parseXmlDecl_xmlDeclContent _ _ _ hf, List.isEmpty_nil, this, hdt, xdXOf]
      cases xmlView [] T <;> simp

/-! ### the body with processing instructions: well scoped -/

/-- the instruction is not an XML declaration -/
def piNotDecl (t d : Str) : Bool := !xmlDeclPfx.isPrefixOf (t ++ ' ' :: d)

mutual
  /-- hypotheses of the namespace resolution (as `xmlTreeOk`), processing instructions included -/
  def xmlTreeOkP (top : Bool) : Node → Bool
    | .elem t a ks => nameNoColon t.loc && xmlAttrNamesOk a && xmlForestOkP false ks
    | .leaf (.text _ _) => !top
    | .leaf (.pi t d) => piNotDecl t d
    | .leaf _ => true
  def xmlForestOkP (top : Bool) : List Node → Bool
    | [] => true
    | n :: ns => xmlTreeOkP top n && xmlForestOkP top ns
end

mutual
  theorem scoped_treeP (u : Str) : ∀ (n : Node) (s : Bool) (d : Nat) (rest : List Piece),
      (s = true → d ≠ 0) → xmlTreeOkP (!s) n = true →
      scopedP u d (treePiecesXP u s n ++ rest) = scopedP u d rest
    | .elem t a ks, s, d, rest, hd, h => by
        simp only [xmlTreeOkP, Bool.and_eq_true] at h
        obtain ⟨⟨hn, ha⟩, hk⟩ := h
        have hn' : (t.loc.any (· == ':')) = false := by simpa [nameNoColon] using hn
        have hA := attrsOkX_tree u s d a hd ha
        cases ks with
        | nil =>
          simp only [treePiecesXP, List.isEmpty_nil, ↓reduceIte]
          split
          · simp [scopedP, hn', hA]
          · simp [scopedP, hn', hA]
        | cons k ks' =>
          simp only [treePiecesXP, List.isEmpty_cons, Bool.false_eq_true, ↓reduceIte, List.cons_append,
            List.append_assoc, scopedP, hn', Bool.not_false, hA, Bool.true_and]
          rw [scoped_forestP u (k :: ks') true (d + 1) _ (by intro _; omega) (by simpa using hk)]
          simp [scopedP]
    | .leaf e, s, d, rest, hd, h => by
        cases e with
        | text x f =>
          have hs : s = true := by simpa [xmlTreeOkP] using h
          have := hd hs
          simp [treePiecesXP, scopedP, this]
        | comment x => simp [treePiecesXP, scopedP]
        | pi t x =>
          have hp : piNotDecl t x = true := by simpa [xmlTreeOkP] using h
          simp only [piNotDecl] at hp
          simp [treePiecesXP, scopedP, hp]
        | _ => simp [treePiecesXP]
  theorem scoped_forestP (u : Str) : ∀ (ns : List Node) (s : Bool) (d : Nat) (rest : List Piece),
      (s = true → d ≠ 0) → xmlForestOkP (!s) ns = true →
      scopedP u d (forestPiecesXP u s ns ++ rest) = scopedP u d rest
    | [], s, d, rest, _, _ => by simp [forestPiecesXP]
    | n :: ns, s, d, rest, hd, h => by
        simp only [xmlForestOkP, Bool.and_eq_true] at h
        simp only [forestPiecesXP, List.append_assoc]
        rw [scoped_treeP u n s d _ hd h.1, scoped_forestP u ns s d rest hd h.2]
end

/-- namespace resolution of the tokens read back for a body forest in namespace `u` -/
theorem xmlView_forestP (u : Str) (ns : List Node) (h : xmlForestOkP true ns = true) :
    xmlView [] (assemble (forestPiecesXP u false ns)) =
      some ((assemble (forestPiecesXP u false ns)).flatMap (xmlMapTok u)) := by
  have hs := scoped_forestP u ns false 0 [] (by intro h; cases h) (by simpa using h)
  simp only [List.append_nil, scopedP] at hs
  rw [assemble_eq_merge]
  have := xmlView_mergeGo u (forestPiecesXP u false ns) 0 [] (by intro h; exact absurd rfl h) hs
  simpa using this

/-- no character data at the top of the body: its pieces start with a token -/
theorem startsTok_forestP (u : Str) (ns : List Node) (h : xmlForestOkP true ns = true) :
    startsTok (forestPiecesXP u false ns) = true := by
  induction ns with
  | nil => rfl
  | cons n rest ih =>
    simp only [xmlForestOkP, Bool.and_eq_true] at h
    have ih' := ih h.2
    cases n with
    | elem t a ks =>
      cases ks with
      | nil => simp only [forestPiecesXP, treePiecesXP, List.isEmpty_nil, ↓reduceIte]; split <;> rfl
      | cons k ks' => simp [forestPiecesXP, treePiecesXP, startsTok]
    | leaf e =>
      cases e <;> simp [xmlTreeOkP] at h <;> simp only [forestPiecesXP, treePiecesXP, List.nil_append] <;>
        first | exact ih' | rfl

/-- a processing instruction comes back as target and data when the target holds no white space
    and the data does not start with any -/
theorem xmlMapTok_pi (u t d : Str) (hn : piNotDecl t d = true) (ht : t.all (fun c => !isSpace c) = true)
    (hd : (match d with | c :: _ => !isSpace c | [] => true) = true) :
    xmlMapTok u (.pi (t ++ ' ' :: d)) = [.pi t d] := by
  have hp : xmlDeclPfx.isPrefixOf (t ++ ' ' :: d) = false := by simpa [piNotDecl] using hn
  have h1 : takeUntil isSpace (t ++ ' ' :: d) = (t, ' ' :: d) :=
    takeUntil_append isSpace t ' ' d (by
      intro x hx; have := List.all_eq_true.mp ht x hx; simpa using this) (by decide)
  have h2 : (' ' :: d).dropWhile isSpace = d := by
    have h0 : isSpace ' ' = true := by decide
    rw [List.dropWhile_cons_of_pos h0]
    cases d with
    | nil => rfl
    | cons c cs =>
      have : isSpace c = false := by simpa using hd
      simp [List.dropWhile, this]
  simp [xmlMapTok, hp, h1, h2]

end Genshi.Reader

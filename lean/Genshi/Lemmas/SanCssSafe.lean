/-
  C06 — the style text `sanitize_css` emits, read as a browser reads it: decoding is the
  identity on it, it holds no `expression(`, and every `url(` argument was accepted by
  `is_safe_uri`.
-/
import Genshi.Lemmas.SanCssComments
import Genshi.Lemmas.SanUri
set_option linter.unusedSimpArgs false
namespace Genshi.San
open Genshi.Gen Genshi.San.Spec

/-! ### `str.strip()` twice is once -/

theorem lstripBy_head {p : Char → Bool} : ∀ {s : Str} {c : Char} {cs : Str},
    Genshi.Str.lstripBy p s = c :: cs → p c = false := by
  intro s
  induction s with
  | nil => intro c cs h; simp [Genshi.Str.lstripBy] at h
  | cons a as ih =>
    intro c cs h
    unfold Genshi.Str.lstripBy at h
    by_cases hp : p a = true
    · simp only [hp, ↓reduceIte] at h; exact ih h
    · simp only [hp, Bool.false_eq_true, ↓reduceIte] at h
      simp at h; obtain ⟨rfl, _⟩ := h
      simpa using hp

theorem lstripBy_id {p : Char → Bool} {s : Str} (h : ∀ c cs, s = c :: cs → p c = false) :
    Genshi.Str.lstripBy p s = s := by
  cases s with
  | nil => rfl
  | cons c cs =>
    unfold Genshi.Str.lstripBy
    simp [h c cs rfl]

theorem pyStrip_idem (s : Str) : pyStrip (pyStrip s) = pyStrip s := by
  unfold pyStrip Genshi.Str.stripBy
  -- u = rstrip (lstrip s)
  have hu_rev : ∀ c cs, (Genshi.Str.rstripBy isSpace (Genshi.Str.lstripBy isSpace s)).reverse = c :: cs → isSpace c = false := by
    intro c cs h
    unfold Genshi.Str.rstripBy at h
    simp at h
    exact lstripBy_head h
  have hu_head : ∀ c cs, Genshi.Str.rstripBy isSpace (Genshi.Str.lstripBy isSpace s) = c :: cs → isSpace c = false := by
    intro c cs h
    obtain ⟨t, ht, _⟩ := rstripBy_decomp isSpace (Genshi.Str.lstripBy isSpace s)
    rw [h] at ht
    simp at ht
    exact lstripBy_head ht
  rw [lstripBy_id hu_head]
  generalize hu : Genshi.Str.rstripBy isSpace (Genshi.Str.lstripBy isSpace s) = u at hu_rev
  unfold Genshi.Str.rstripBy
  rw [lstripBy_id hu_rev]
  simp

/-! ### decoding the emitted text is the identity -/

theorem cssDecode_fixed {s : Str} (h1 : Stable s) (h2 : NoComment s) : cssDecode s = s := by
  unfold cssDecode
  simp only [cssDecodeGo, unescapeOnce_stable h1, stripOnce_noComment h2, ↓reduceIte]

theorem sanitizeCss_decode_fixed (hd : SanClass.commentsDotall = true) {cfg : Cfg} {x : Str} {decls : List Str}
    (h : sanitizeCss cfg x = .ok decls) :
    cssDecode (Genshi.Str.join declSep decls) = Genshi.Str.join declSep decls :=
  cssDecode_fixed (sanitizeCss_stable h) (sanitizeCss_noComment hd h)

/-! ### what each emitted declaration went through -/

structure DeclFacts (cfg : Cfg) (d : Str) : Prop where
  ex : ∃ pn value, split1 ':' d = (pn, some value) ∧
    cfg.safeCss.contains (pyLower (pyStrip pn)) = true ∧
    expressionSearch value = false ∧
    ∀ g ∈ urlFind value, isSafeUri cfg g = true

theorem cssDecl_facts {cfg : Cfg} {piece d : Str} (h : cssDecl cfg piece = some d) : DeclFacts cfg d := by
  unfold cssDecl at h
  simp only at h
  split at h
  · cases h
  · split at h
    · cases h
    · rename_i pn value hsp
      split at h
      · cases h
      · rename_i hsafe
        split at h
        · cases h
        · rename_i hexp
          split at h
          · cases h
          · rename_i hurl
            simp at h; subst h
            rw [pyStrip_idem]
            refine ⟨pn, value, hsp, ?_, by simpa using hexp, ?_⟩
            · unfold isSafeCss at hsafe
              cases hc : cfg.safeCss.contains (pyLower (pyStrip pn)) with
              | true => rfl
              | false => rw [hc] at hsafe; simp at hsafe
            · intro g hg
              cases hs : isSafeUri cfg g with
              | true => rfl
              | false =>
                exfalso
                apply hurl
                simp only [List.any_eq_true]
                exact ⟨g, hg, by simp [hs]⟩

theorem sanitizeCss_facts {cfg : Cfg} {x : Str} {decls : List Str} (h : sanitizeCss cfg x = .ok decls) :
    ∀ d ∈ decls, DeclFacts cfg d := by
  unfold sanitizeCss at h
  cases ht : replaceUnicodeEscapes x with
  | error e => simp [ht] at h; cases h
  | ok t =>
    simp only [ht, ok_bind, pure_eq_ok, Except.ok.injEq] at h
    subst h
    intro d hd
    obtain ⟨piece, _, hdecl⟩ := List.mem_filterMap.mp hd
    exact cssDecl_facts hdecl

/-! ### keyword calls as blocks of text -/

/-- the text `w` spells the keyword whose letter classes are `cls` -/
def Spells (cls : List (List Nat)) (w : Str) : Prop := w.length = cls.length ∧ matchClasses cls w = true

theorem matchClasses_split : ∀ (cls : List (List Nat)) (s : Str), matchClasses cls s = true →
    ∃ w, s = w ++ dropClasses cls s ∧ Spells cls w := by
  intro cls
  induction cls with
  | nil => intro s _; exact ⟨[], by simp [dropClasses], rfl, rfl⟩
  | cons cl cls ih =>
    intro s h
    cases s with
    | nil => simp [matchClasses] at h
    | cons c cs =>
      simp only [matchClasses, Bool.and_eq_true] at h
      obtain ⟨w, hw, hl, hm⟩ := ih cs h.2
      refine ⟨c :: w, ?_, ?_, ?_⟩
      · simp only [dropClasses, List.cons_append]; rw [← hw]
      · simp [hl]
      · simp [matchClasses, h.1, hm]

theorem matchClasses_append : ∀ (cls : List (List Nat)) (w t : Str), Spells cls w →
    matchClasses cls (w ++ t) = true ∧ dropClasses cls (w ++ t) = t := by
  intro cls
  induction cls with
  | nil =>
    intro w t h
    have : w = [] := List.length_eq_zero_iff.mp h.1
    subst this; simp [matchClasses, dropClasses]
  | cons cl cls ih =>
    intro w t h
    cases w with
    | nil => simp [Spells] at h
    | cons c w' =>
      obtain ⟨hl, hm⟩ := h
      simp only [matchClasses, Bool.and_eq_true] at hm
      have := ih w' t ⟨by simpa using hl, hm.2⟩
      simp [matchClasses, dropClasses, hm.1, this.1, this.2]

theorem spells_mem {cls : List (List Nat)} {w : Str} (h : Spells cls w) :
    ∀ c ∈ w, ∃ cl ∈ cls, inClass cl c = true := by
  induction cls generalizing w with
  | nil =>
    have : w = [] := List.length_eq_zero_iff.mp h.1
    subst this; simp
  | cons cl cls ih =>
    cases w with
    | nil => simp [Spells] at h
    | cons c w' =>
      obtain ⟨hl, hm⟩ := h
      simp only [matchClasses, Bool.and_eq_true] at hm
      intro x hx
      simp at hx
      rcases hx with rfl | hx
      · exact ⟨cl, by simp, hm.1⟩
      · obtain ⟨cl', hcl', hin⟩ := ih ⟨by simpa using hl, hm.2⟩ x hx
        exact ⟨cl', by simp [hcl'], hin⟩

theorem mem_takeWhile_imp {p : Char → Bool} : ∀ {l : Str} {c : Char}, c ∈ l.takeWhile p → p c = true := by
  intro l
  induction l with
  | nil => intro c h; simp at h
  | cons a as ih =>
    intro c h
    by_cases hp : p a = true
    · simp [List.takeWhile, hp] at h
      rcases h with rfl | h
      · exact hp
      · exact ih h
    · simp [List.takeWhile, hp] at h

/-- `callAt` succeeds exactly on `keyword · white space · ( · rest` -/
theorem callAt_some {wide : Bool} {word s r : Str} (h : callAt wide word s = some r) :
    ∃ w sp, s = w ++ sp ++ '(' :: r ∧ Spells (wordClasses wide word) w ∧ ∀ c ∈ sp, isSpace c = true := by
  unfold callAt at h
  split at h
  · rename_i hm
    obtain ⟨w, hw, hsp⟩ := matchClasses_split _ s hm
    split at h
    · rename_i r' hd
      simp at h; subst h
      refine ⟨w, (dropClasses (wordClasses wide word) s).takeWhile isSpace, ?_, hsp, ?_⟩
      · have := List.takeWhile_append_dropWhile (p := isSpace) (l := dropClasses (wordClasses wide word) s)
        rw [hd] at this
        rw [List.append_assoc, this]; exact hw
      · intro c hc; exact mem_takeWhile_imp hc
    · cases h
  · cases h

theorem isSpace_paren : isSpace '(' = false := by decide

theorem callAt_of_block {wide : Bool} {word w sp r : Str} (hw : Spells (wordClasses wide word) w)
    (hsp : ∀ c ∈ sp, isSpace c = true) : callAt wide word (w ++ sp ++ '(' :: r) = some r := by
  unfold callAt
  rw [List.append_assoc]
  obtain ⟨h1, h2⟩ := matchClasses_append _ w (sp ++ '(' :: r) hw
  simp only [h1, ↓reduceIte, h2]
  have : (sp ++ '(' :: r).dropWhile isSpace = '(' :: r := by
    rw [List.dropWhile_append_of_pos hsp]
    simp [List.dropWhile, isSpace_paren]
  simp only [this]

/-- the chunk of text a keyword call occupies -/
def IsBlock (wide : Bool) (word : Str) (b : Str) : Prop :=
  ∃ w sp, b = w ++ sp ++ ['('] ∧ Spells (wordClasses wide word) w ∧ ∀ c ∈ sp, isSpace c = true

theorem callAt_block {wide : Bool} {word s r : Str} (h : callAt wide word s = some r) :
    ∃ b, IsBlock wide word b ∧ s = b ++ r := by
  obtain ⟨w, sp, hs, hw, hsp⟩ := callAt_some h
  exact ⟨w ++ sp ++ ['('], ⟨w, sp, rfl, hw, hsp⟩, by simp [hs]⟩

theorem block_callAt {wide : Bool} {word b r : Str} (h : IsBlock wide word b) :
    callAt wide word (b ++ r) = some r := by
  obtain ⟨w, sp, rfl, hw, hsp⟩ := h
  have := callAt_of_block (r := r) hw hsp
  simpa using this

theorem block_ne_nil {wide : Bool} {word b : Str} (h : IsBlock wide word b) : b ≠ [] := by
  obtain ⟨w, sp, rfl, _, _⟩ := h
  simp

theorem block_paren_mem {wide : Bool} {word b : Str} (h : IsBlock wide word b) : '(' ∈ b := by
  obtain ⟨w, sp, rfl, _, _⟩ := h
  simp

/-- a character that is no letter of the keyword, no white space and no parenthesis is not in a block -/
theorem block_not_mem {wide : Bool} {word b : Str} (h : IsBlock wide word b) {x : Char}
    (h1 : ∀ cl ∈ wordClasses wide word, inClass cl x = false) (h2 : isSpace x = false) (h3 : x ≠ '(') :
    x ∉ b := by
  obtain ⟨w, sp, rfl, hw, hsp⟩ := h
  intro hx
  simp at hx
  rcases hx with hx | hx | hx
  · obtain ⟨cl, hcl, hin⟩ := spells_mem hw x hx
    rw [h1 cl hcl] at hin; cases hin
  · rw [hsp x hx] at h2; cases h2
  · exact h3 hx

/-- a block of text that avoids the separator lies on one side of it -/
theorem block_split {x y a b r : Str} {sep : Char} (h : x ++ sep :: y = a ++ b ++ r) (hs : sep ∉ b) (hb : b ≠ []) :
    (∃ r', x = a ++ b ++ r') ∨ (∃ a', y = a' ++ b ++ r) := by
  rw [List.append_assoc] at h
  rcases List.append_eq_append_iff.mp h with ⟨w, hw1, hw2⟩ | ⟨w, hw1, hw2⟩
  · -- a = x ++ w
    cases w with
    | nil =>
      simp at hw2
      cases b with
      | nil => exact absurd rfl hb
      | cons b0 b' =>
        simp at hw2
        exact absurd (by simp [hw2.1]) hs
    | cons w0 w' =>
      simp at hw2
      exact Or.inr ⟨w', by rw [List.append_assoc]; exact hw2.2⟩
  · -- x = a ++ w, b ++ r = w ++ sep :: y
    rcases List.append_eq_append_iff.mp hw2 with ⟨v, hv1, hv2⟩ | ⟨v, hv1, hv2⟩
    · -- w = b ++ v
      exact Or.inl ⟨v, by rw [hw1, hv1, List.append_assoc]⟩
    · -- b = w ++ v, sep :: y = v ++ r
      cases v with
      | nil =>
        simp at hv1
        exact Or.inl ⟨[], by simp [hw1, hv1]⟩
      | cons v0 v' =>
        simp at hv2
        exact absurd (by rw [hv1, hv2.1]; simp) hs

/-! ### `expression(` -/

theorem hasExpression_iff (s : Str) : hasExpression s = true ↔
    ∃ a b r, IsBlock true expressionWord b ∧ s = a ++ b ++ r := by
  induction s with
  | nil =>
    simp only [hasExpression, Bool.false_eq_true, false_iff]
    rintro ⟨a, b, r, hb, h⟩
    have : b = [] := by
      have := congrArg List.length h; simp at this; exact List.length_eq_zero_iff.mp (by omega)
    exact block_ne_nil hb this
  | cons c cs ih =>
    simp only [hasExpression, Bool.or_eq_true]
    constructor
    · rintro (h | h)
      · cases hc : callAt true expressionWord (c :: cs) with
        | none => simp [hc] at h
        | some r =>
          obtain ⟨b, hb, hs⟩ := callAt_block hc
          exact ⟨[], b, r, hb, by simpa using hs⟩
      · obtain ⟨a, b, r, hb, hs⟩ := ih.mp h
        exact ⟨c :: a, b, r, hb, by simp [hs]⟩
    · rintro ⟨a, b, r, hb, hs⟩
      cases a with
      | nil =>
        left
        simp at hs
        rw [hs, block_callAt hb]; rfl
      | cons a0 a' =>
        right
        simp at hs
        exact ih.mpr ⟨a', b, r, hb, by rw [List.append_assoc]; exact hs.2⟩

theorem expr_class_semicolon : ∀ cl ∈ wordClasses true expressionWord, inClass cl ';' = false := by decide
theorem expr_class_colon : ∀ cl ∈ wordClasses true expressionWord, inClass cl ':' = false := by decide
theorem expr_class_space : ∀ cl ∈ wordClasses true expressionWord, inClass cl ' ' = false := by decide

theorem hasExpression_sep {x y : Str} {sep : Char}
    (h1 : ∀ cl ∈ wordClasses true expressionWord, inClass cl sep = false) (h2 : isSpace sep = false)
    (h3 : sep ≠ '(') (h : hasExpression (x ++ sep :: y) = true) :
    hasExpression x = true ∨ hasExpression y = true := by
  obtain ⟨a, b, r, hb, hs⟩ := (hasExpression_iff _).mp h
  rcases block_split hs (block_not_mem hb h1 h2 h3) (block_ne_nil hb) with ⟨r', hx⟩ | ⟨a', hy⟩
  · exact Or.inl ((hasExpression_iff _).mpr ⟨a, b, r', hb, hx⟩)
  · exact Or.inr ((hasExpression_iff _).mpr ⟨a', b, r, hb, hy⟩)

theorem hasExpression_space {y : Str} (h : hasExpression (' ' :: y) = true) : hasExpression y = true := by
  obtain ⟨a, b, r, hb, hs⟩ := (hasExpression_iff _).mp h
  cases a with
  | nil =>
    exfalso
    obtain ⟨w, sp, rfl, hw, hsp⟩ := hb
    cases w with
    | nil => simp [Spells, wordClasses, expressionWord] at hw
    | cons w0 w' =>
      simp at hs
      obtain ⟨hw0, _⟩ := hs
      obtain ⟨cl, hcl, hin⟩ := spells_mem hw w0 (by simp)
      rw [← hw0, expr_class_space cl hcl] at hin
      cases hin
  | cons a0 a' =>
    simp at hs
    exact (hasExpression_iff _).mpr ⟨a', b, r, hb, by rw [List.append_assoc]; exact hs.2⟩

/-- class-wise inclusion of keyword spellings -/
def classesSubset : List (List Nat) → List (List Nat) → Bool
  | [], [] => true
  | a :: as, b :: bs => a.all (fun n => b.contains n) && classesSubset as bs
  | _, _ => false

theorem matchClasses_mono : ∀ (a b : List (List Nat)) (s : Str), classesSubset a b = true →
    matchClasses a s = true → matchClasses b s = true := by
  intro a
  induction a with
  | nil =>
    intro b s hab _
    cases b with
    | nil => rfl
    | cons _ _ => simp [classesSubset] at hab
  | cons a0 as ih =>
    intro b s hab hm
    cases b with
    | nil => simp [classesSubset] at hab
    | cons b0 bs =>
      cases s with
      | nil => simp [matchClasses] at hm
      | cons c cs =>
        simp only [classesSubset, Bool.and_eq_true, List.all_eq_true] at hab
        simp only [matchClasses, Bool.and_eq_true] at hm ⊢
        refine ⟨?_, ih bs cs hab.2 hm.2⟩
        unfold inClass at hm ⊢
        have : c.toNat ∈ a0 := by simpa using hm.1
        exact hab.1 _ this

/-- every spelling of `expression` the browser side knows is matched by `_EXPRESSION_SEARCH` as
    compiled (re-checked against the generated classes) -/
theorem expression_classes_cover :
    classesSubset (wordClasses true expressionWord) SanClass.expressionClasses = true := by decide

theorem searchClasses_of_suffix (cls : List (List Nat)) : ∀ (a t : Str), matchClasses cls t = true →
    searchClasses cls (a ++ t) = true := by
  intro a
  induction a with
  | nil =>
    intro t h
    cases t with
    | nil => simpa [searchClasses] using h
    | cons c cs => simp [searchClasses, h]
  | cons a0 a' ih =>
    intro t h
    simp [searchClasses, ih t h]

theorem expressionSearch_of_hasExpression {v : Str} (h : hasExpression v = true) : expressionSearch v = true := by
  obtain ⟨a, b, r, ⟨w, sp, rfl, hw, _⟩, rfl⟩ := (hasExpression_iff _).mp h
  unfold expressionSearch
  rw [List.append_assoc]
  apply searchClasses_of_suffix
  have := (matchClasses_append _ w ((sp ++ ['(']) ++ r) hw).1
  have h2 := matchClasses_mono _ _ _ expression_classes_cover this
  simpa using h2

/-! ### no `expression(` in the emitted text -/

theorem split1_eq {sep : Char} : ∀ {l a b : Str}, split1 sep l = (a, some b) → l = a ++ sep :: b := by
  intro l
  induction l with
  | nil => intro a b h; simp [split1] at h
  | cons c cs ih =>
    intro a b h
    unfold split1 at h
    by_cases hc : c = sep
    · simp [hc] at h; obtain ⟨rfl, rfl⟩ := h; simp [hc]
    · simp only [hc, ↓reduceIte] at h
      cases hsp : split1 sep cs with
      | mk a' b' =>
        simp only [hsp] at h
        simp at h
        obtain ⟨rfl, rfl⟩ := h
        simp [ih hsp]

theorem pyStrip_decomp (s : Str) : ∃ t1 t2, s = t1 ++ pyStrip s ++ t2 ∧
    (∀ c ∈ t1, isSpace c = true) ∧ (∀ c ∈ t2, isSpace c = true) := by
  unfold pyStrip Genshi.Str.stripBy
  obtain ⟨t1, h1, ha1⟩ := lstripBy_decomp isSpace s
  obtain ⟨t2, h2, ha2⟩ := rstripBy_decomp isSpace (Genshi.Str.lstripBy isSpace s)
  refine ⟨t1, t2, ?_, ha1, ha2⟩
  rw [List.append_assoc, ← h2, ← h1]

theorem mem_pyStrip {s : Str} {c : Char} (h : c ∈ s) (hc : isSpace c = false) : c ∈ pyStrip s := by
  obtain ⟨t1, t2, hs, h1, h2⟩ := pyStrip_decomp s
  rw [hs] at h
  simp at h
  rcases h with h | h | h
  · rw [h1 c h] at hc; cases hc
  · exact h
  · rw [h2 c h] at hc; cases hc

/-- the hypothesis on the configuration: no CSS property name holds a parenthesis -/
def CssNamesPlain (cfg : Cfg) : Prop := ∀ p ∈ cfg.safeCss, '(' ∉ p

theorem paren_not_in_propname {cfg : Cfg} (hcfg : CssNamesPlain cfg) {pn : Str}
    (h : cfg.safeCss.contains (pyLower (pyStrip pn)) = true) : '(' ∉ pn := by
  intro hm
  have h1 : '(' ∈ pyStrip pn := mem_pyStrip hm isSpace_paren
  have h2 : '(' ∈ pyLower (pyStrip pn) := by
    unfold pyLower
    rw [List.mem_flatMap]
    refine ⟨'(', h1, ?_⟩
    rw [pyLowerChar_ascii (by decide)]
    decide
  exact hcfg _ (by simpa using h) h2

theorem decl_no_expression {cfg : Cfg} (hcfg : CssNamesPlain cfg) {d : Str} (hf : DeclFacts cfg d) :
    hasExpression d = false := by
  obtain ⟨pn, value, hsp, hsafe, hexp, _⟩ := hf.ex
  cases hh : hasExpression d with
  | false => rfl
  | true =>
    exfalso
    rw [split1_eq hsp] at hh
    rcases hasExpression_sep expr_class_colon (by decide) (by decide) hh with h | h
    · obtain ⟨a, b, r, hb, hs⟩ := (hasExpression_iff _).mp h
      apply paren_not_in_propname hcfg hsafe
      rw [hs]; simp [block_paren_mem hb]
    · rw [expressionSearch_of_hasExpression h] at hexp; cases hexp

theorem join_no_expression : ∀ (ds : List Str), (∀ d ∈ ds, hasExpression d = false) →
    hasExpression (Genshi.Str.join declSep ds) = false := by
  intro ds
  induction ds with
  | nil => intro _; rfl
  | cons d ds ih =>
    intro h
    cases ds with
    | nil => simpa [Genshi.Str.join] using h d (by simp)
    | cons d2 ds' =>
      rw [join_cons_cons]
      cases hh : hasExpression (d ++ declSep ++ Genshi.Str.join declSep (d2 :: ds')) with
      | false => rfl
      | true =>
        exfalso
        have hh' : hasExpression (d ++ ';' :: ' ' :: Genshi.Str.join declSep (d2 :: ds')) = true := by
          simpa [declSep] using hh
        rcases hasExpression_sep expr_class_semicolon (by decide) (by decide) hh' with h1 | h2
        · rw [h d (by simp)] at h1; cases h1
        · have := hasExpression_space h2
          rw [ih (fun x hx => h x (by simp [hx]))] at this; cases this

/-- **no `expression(` in the style text that `sanitize_css` emits, as the browser decodes it** -/
theorem sanitizeCss_no_expression (hd : SanClass.commentsDotall = true) {cfg : Cfg} (hcfg : CssNamesPlain cfg)
    {x : Str} {decls : List Str} (h : sanitizeCss cfg x = .ok decls) :
    hasExpression (cssDecode (Genshi.Str.join declSep decls)) = false := by
  rw [sanitizeCss_decode_fixed hd h]
  exact join_no_expression decls (fun d hd' => decl_no_expression hcfg (sanitizeCss_facts h d hd'))

end Genshi.San

/-
  Unfolding the reference semantics `Ref.reach` one tree level at a time, for
  steps whose predicates are not position tests: the form in which the
  top-down matchers can be compared with it.
-/
import Genshi.Lemmas.PathFilter
import Genshi.Lemmas.PathEval
namespace Genshi.Path
open Genshi Genshi.Path.Ref

section
variable (ns : NsMap) (xvs : XVars)

/-- node test and all predicates hold (predicates that are not position tests) -/
def hitR (s : Step) (c : LNode) : Bool :=
  testNode s.test c.node ns && s.preds.all fun p => predHolds p c.node 0 ns xvs

/-- no predicate of the step evaluates to a number on any node: none is a position test -/
def NonPositional (s : Step) : Prop :=
  ∀ p ∈ s.preds, ∀ (n : Node) (pos : Nat), predHolds p n pos ns xvs = predHolds p n 0 ns xvs

theorem filterPred_nonpos (p : Expr) (hp : ∀ (n : Node) (pos : Nat), predHolds p n pos ns xvs = predHolds p n 0 ns xvs)
    (L : List LNode) : filterPred p ns xvs L = L.filter fun c => predHolds p c.node 0 ns xvs := by
  unfold filterPred
  rw [← zipIdx_filter_fst (fun c => predHolds p c.node 0 ns xvs) L 0]
  congr 1
  apply List.filter_congr
  intro ⟨c, i⟩ _
  exact hp c.node (i + 1)

theorem filterPreds_nonpos (ps : List Expr)
    (hp : ∀ p ∈ ps, ∀ (n : Node) (pos : Nat), predHolds p n pos ns xvs = predHolds p n 0 ns xvs) :
    ∀ (L : List LNode), filterPreds ps ns xvs L = L.filter fun c => ps.all fun p => predHolds p c.node 0 ns xvs := by
  induction ps with
  | nil =>
    intro L
    simp only [filterPreds, List.foldl_nil, List.all_nil]
    exact (List.filter_eq_self.mpr (fun _ _ => rfl)).symm
  | cons p ps ih =>
    intro L
    simp only [filterPreds, List.foldl_cons]
    have := ih (fun q hq => hp q (List.mem_cons_of_mem _ hq)) (filterPred p ns xvs L)
    simp only [filterPreds] at this
    rw [this, filterPred_nonpos ns xvs p (hp p List.mem_cons_self), List.filter_filter]
    apply List.filter_congr
    intro c _
    simp [List.all_cons, Bool.and_comm]

theorem stepNodes_nonpos (s : Step) (hs : NonPositional ns xvs s) (c : LNode) :
    stepNodes s ns xvs c = (axisNodes s.axis c).filter (hitR ns xvs s) := by
  unfold stepNodes hitR
  rw [filterPreds_nonpos ns xvs s.preds hs, List.filter_filter]
  apply List.filter_congr
  intro n _
  rw [Bool.and_comm]

theorem reach_cons (s : Step) (rest : LocPath) (hs : NonPositional ns xvs s) (c t : LNode) :
    reach ns xvs (s :: rest) c t = (axisNodes s.axis c).any fun m => hitR ns xvs s m && reach ns xvs rest m t := by
  simp only [reach, stepNodes_nonpos ns xvs s hs, List.any_filter]

/-- the proper descendants are the children, each followed by its own descendants -/
theorem descList_eq (ks : List Node) (loc : List Nat) (i : Nat) :
    descList ks loc i = ((ks.zipIdx i).map fun (k, j) => (⟨loc ++ [j], k⟩ : LNode)).flatMap
      fun k => k :: descendants k := by
  induction ks generalizing i with
  | nil => simp [descList]
  | cons k ks ih => simp [descList, List.zipIdx_cons, ih (i + 1), descendants]

theorem descendants_eq (c : LNode) : descendants c = (childrenOf c).flatMap fun k => k :: descendants k := by
  obtain ⟨loc, node⟩ := c
  cases node with
  | leaf e => simp [descendants, descOf, childrenOf]
  | elem t a ks => simp only [descendants, descOf, childrenOf]; exact descList_eq ks loc 0

def withAxis (a : Axis) (s : Step) : Step := ⟨a, s.test, s.preds⟩

theorem nonpos_withAxis (a : Axis) (s : Step) (hs : NonPositional ns xvs s) : NonPositional ns xvs (withAxis a s) := hs

theorem hitR_withAxis (a : Axis) (s : Step) (c : LNode) : hitR ns xvs (withAxis a s) c = hitR ns xvs s c := rfl

/-- (U1) self -/
theorem reach_self (s : Step) (rest : LocPath) (hs : NonPositional ns xvs s) (hax : s.axis = .self) (c t : LNode) :
    reach ns xvs (s :: rest) c t = (hitR ns xvs s c && reach ns xvs rest c t) := by
  rw [reach_cons ns xvs s rest hs, hax]; simp [axisNodes]

/-- (U2) child -/
theorem reach_child (s : Step) (rest : LocPath) (hs : NonPositional ns xvs s) (hax : s.axis = .child) (c t : LNode) :
    reach ns xvs (s :: rest) c t
      = (childrenOf c).any fun k => reach ns xvs (withAxis .self s :: rest) k t := by
  rw [reach_cons ns xvs s rest hs, hax]
  simp only [axisNodes]
  apply List.any_congr rfl
  intro k
  rw [reach_self ns xvs (withAxis .self s) rest (nonpos_withAxis ns xvs _ s hs) rfl, hitR_withAxis]

/-- (U3) descendant-or-self -/
theorem reach_dos (s : Step) (rest : LocPath) (hs : NonPositional ns xvs s) (hax : s.axis = .descendantOrSelf)
    (c t : LNode) :
    reach ns xvs (s :: rest) c t
      = ((hitR ns xvs s c && reach ns xvs rest c t) ||
         (childrenOf c).any fun k => reach ns xvs (s :: rest) k t) := by
  rw [reach_cons ns xvs s rest hs, hax]
  simp only [axisNodes, List.any_cons]
  congr 1
  rw [descendants_eq c, List.any_flatMap]
  apply List.any_congr rfl
  intro k
  rw [reach_cons ns xvs s rest hs, hax]
  simp [axisNodes]

/-- (U4) descendant -/
theorem reach_desc (s : Step) (rest : LocPath) (hs : NonPositional ns xvs s) (hax : s.axis = .descendant)
    (c t : LNode) :
    reach ns xvs (s :: rest) c t
      = (childrenOf c).any fun k => reach ns xvs (withAxis .descendantOrSelf s :: rest) k t := by
  rw [reach_cons ns xvs s rest hs, hax]
  simp only [axisNodes]
  rw [descendants_eq c, List.any_flatMap]
  apply List.any_congr rfl
  intro k
  rw [reach_cons ns xvs (withAxis .descendantOrSelf s) rest (nonpos_withAxis ns xvs _ s hs)]
  simp [withAxis, axisNodes, hitR]

/-! ## Positions of a step list as seen from a candidate node -/

/-- the axis of a step when the node at hand *is* a candidate for it -/
def convAxis : Axis → Axis
  | .child => .self
  | .descendant => .descendantOrSelf
  | a => a

/-- what is left to do when the node at hand is a candidate for step `x` -/
def pathAt (S : List Step) (x : Nat) : LocPath :=
  match S.drop x with
  | [] => []
  | s :: rest => withAxis (convAxis s.axis) s :: rest

/-- `t` is reached from candidate `c` of step `x` -/
def RR (S : List Step) (x : Nat) (c t : LNode) : Bool := reach ns xvs (pathAt S x) c t

theorem drop_of_getElem? {S : List Step} {x : Nat} {s : Step} (h : S[x]? = some s) :
    S.drop x = s :: S.drop (x + 1) := by
  obtain ⟨hlt, hs⟩ := List.getElem?_eq_some_iff.mp h
  rw [List.drop_eq_getElem_cons hlt, hs]

/-- (F1) a candidate either passes the step itself, or (descendant axes) hands the position
    to its children -/
theorem RR_unfold (S : List Step) (x : Nat) (s : Step) (h : S[x]? = some s)
    (hs : NonPositional ns xvs s) (hna : s.axis ≠ .attribute) (c t : LNode) :
    RR ns xvs S x c t =
      ((hitR ns xvs s c && reach ns xvs (S.drop (x + 1)) c t) ||
       ((s.axis == .descendant || s.axis == .descendantOrSelf) &&
         (childrenOf c).any fun k => RR ns xvs S x k t)) := by
  unfold RR pathAt
  rw [drop_of_getElem? h]
  simp only
  cases hax : s.axis with
  | «attribute» => exact absurd hax hna
  | self =>
    simp only [convAxis]
    rw [reach_self ns xvs _ _ (nonpos_withAxis ns xvs _ s hs) rfl, hitR_withAxis]
    simp
  | child =>
    simp only [convAxis]
    rw [reach_self ns xvs _ _ (nonpos_withAxis ns xvs _ s hs) rfl, hitR_withAxis]
    simp
  | descendant =>
    simp only [convAxis]
    rw [reach_dos ns xvs _ _ (nonpos_withAxis ns xvs _ s hs) rfl, hitR_withAxis]
    simp
  | descendantOrSelf =>
    simp only [convAxis]
    rw [reach_dos ns xvs _ _ (nonpos_withAxis ns xvs _ s hs) rfl, hitR_withAxis]
    simp

/-- (F2) after the last step -/
theorem reach_drop_end (S : List Step) (x : Nat) (h : S[x]? = none) (c t : LNode) :
    reach ns xvs (S.drop x) c t = (c.loc == t.loc) := by
  have : S.length ≤ x := by simpa using h
  rw [List.drop_eq_nil_of_le this]; rfl

/-- (F2) the remaining steps, seen from the node that passed the previous step -/
theorem reach_drop (S : List Step) (x : Nat) (s : Step) (h : S[x]? = some s)
    (hs : NonPositional ns xvs s) (hna : s.axis ≠ .attribute) (c t : LNode) :
    reach ns xvs (S.drop x) c t =
      if s.axis == .self || s.axis == .descendantOrSelf then RR ns xvs S x c t
      else (childrenOf c).any fun k => RR ns xvs S x k t := by
  unfold RR pathAt
  rw [drop_of_getElem? h]
  simp only
  cases hax : s.axis with
  | «attribute» => exact absurd hax hna
  | self =>
    have : withAxis (convAxis .self) s = s := by rw [← hax]; cases s; simp [withAxis, convAxis] at *; simp [hax, convAxis]
    simp [this]
  | descendantOrSelf =>
    have : withAxis (convAxis .descendantOrSelf) s = s := by cases s; simp [withAxis, convAxis] at *; simp [hax]
    simp [this]
  | child =>
    simp only [convAxis]
    rw [reach_child ns xvs s _ hs hax]; simp
  | descendant =>
    simp only [convAxis]
    rw [reach_desc ns xvs s _ hs hax]; simp

/-! ## `descendant::t` and `descendant-or-self::node()/child::t` -/

def kidsAt (ks : List Node) (loc : List Nat) (i : Nat) : List LNode :=
  (ks.zipIdx i).map fun (k, j) => (⟨loc ++ [j], k⟩ : LNode)

mutual
  theorem descOf_any (f : LNode → Bool) : ∀ (n : Node) (loc : List Nat),
      (descOf n loc).any f
        = ((childrenOf ⟨loc, n⟩).any f || (descOf n loc).any fun m => (childrenOf m).any f)
    | .elem _ _ ks, loc => by
        simp only [descOf, childrenOf]
        exact descList_any f ks loc 0
    | .leaf _, _ => by simp [descOf, childrenOf]
  theorem descList_any (f : LNode → Bool) : ∀ (ks : List Node) (loc : List Nat) (i : Nat),
      (descList ks loc i).any f
        = ((kidsAt ks loc i).any f || (descList ks loc i).any fun m => (childrenOf m).any f)
    | [], _, _ => by simp [descList, kidsAt]
    | k :: ks, loc, i => by
        have h1 := descOf_any f k (loc ++ [i])
        have h2 := descList_any f ks loc (i + 1)
        simp only [descList, kidsAt, List.zipIdx_cons, List.map_cons, List.any_cons, List.any_append] at *
        rw [h1, h2]
        generalize f ⟨loc ++ [i], k⟩ = A
        generalize (childrenOf ⟨loc ++ [i], k⟩).any f = B
        generalize ((descOf k (loc ++ [i])).any fun m => (childrenOf m).any f) = C
        generalize ((List.map (fun x => (⟨loc ++ [x.2], x.1⟩ : LNode)) (ks.zipIdx (i + 1))).any f) = D
        generalize ((descList ks loc (i + 1)).any fun m => (childrenOf m).any f) = E
        cases A <;> cases B <;> cases C <;> cases D <;> cases E <;> rfl
end

/-- XPath's abbreviation `//`: with a step that has no position test,
    `descendant-or-self::node()/child::t[…]` selects what `descendant::t[…]` selects -/
theorem reach_dslash (s : Step) (rest : LocPath) (hs : NonPositional ns xvs s) (hax : s.axis = .child)
    (c t : LNode) :
    reach ns xvs (⟨.descendantOrSelf, .node, []⟩ :: s :: rest) c t
      = reach ns xvs (withAxis .descendant s :: rest) c t := by
  rw [reach_cons ns xvs _ _ (by intro q hq; simp at hq), reach_cons ns xvs _ rest (nonpos_withAxis ns xvs _ s hs)]
  simp only [axisNodes, withAxis, List.any_cons]
  have hn : ∀ m : LNode, hitR ns xvs ⟨.descendantOrSelf, .node, []⟩ m = true := by
    intro m; simp [hitR, testNode]
  simp only [hn, Bool.true_and]
  have hstep : ∀ m : LNode, reach ns xvs (s :: rest) m t
      = (childrenOf m).any fun k => hitR ns xvs s k && reach ns xvs rest k t := by
    intro m
    rw [reach_cons ns xvs s rest hs, hax]; rfl
  simp only [hstep]
  have := descOf_any (fun k => hitR ns xvs s k && reach ns xvs rest k t) c.node c.loc
  simp only [descendants]
  exact this.symm

end
end Genshi.Path

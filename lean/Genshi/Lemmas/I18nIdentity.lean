/-
  C19 — the identity translation: the translation tree of a message itself, its
  linearisation, compatibility, numbering; what it renders to (the content with adjacent
  text merged).
-/
import Genshi.Lemmas.I18nMsg
import Genshi.Lemmas.I18nYield
namespace Genshi.I18n
open Genshi Genshi.Str

/-- the leading text and expressions of a forest -/
def firstSeg : List MNode → List Piece
  | .text s :: ns => .text s :: firstSeg ns
  | .expr n i cm :: ns => .expr n i cm :: firstSeg ns
  | _ => []

mutual
  /-- the placeholder of an element numbered `o` -/
  def xNodeOf (o : Nat) : MNode → Option XNode
    | .elem _ _ _ ks => some (.ph o (segStr (firstSeg ks)) (xRestOf (o + 1) ks))
    | _ => none
  /-- the translation tree of the forest itself (after its first segment) -/
  def xRestOf (o : Nat) : List MNode → XRest
    | [] => .nil
    | n :: ns =>
        match xNodeOf o n with
        | some x => .cons x (segStr (firstSeg ns)) (xRestOf (o + n.size) ns)
        | none => xRestOf (o + n.size) ns
end

mutual
  /-- clean text, well-formed parameter names -/
  def MNode.cleanB : MNode → Bool
    | .text s => cleanTextB s
    | .expr n _ _ => wordName n
    | .elem _ _ _ ks => cleanB ks
  def cleanB : List MNode → Bool
    | [] => true
    | n :: ns => n.cleanB && cleanB ns
end

theorem xRestOf_text (o : Nat) (s : Str) (ns : List MNode) : xRestOf o (.text s :: ns) = xRestOf o ns := by
  simp [xRestOf, xNodeOf, MNode.size]

theorem xRestOf_expr (o : Nat) (n : Str) (i : Nat) (cm : List CodeMsg) (ns : List MNode) :
    xRestOf o (.expr n i cm :: ns) = xRestOf o ns := by
  simp [xRestOf, xNodeOf, MNode.size]

theorem xRestOf_elem (o : Nat) (t : QName) (a : TAttrs) (ks ns : List MNode) :
    xRestOf o (.elem sd t a ks :: ns) =
      .cons (.ph o (segStr (firstSeg ks)) (xRestOf (o + 1) ks)) (segStr (firstSeg ns)) (xRestOf (o + (sizeM ks + 1)) ns) := by
  simp [xRestOf, xNodeOf, MNode.size]

/-! ### linearisation -/

mutual
  theorem fmt_xNode (o : Nat) : ∀ (n : MNode), n.cleanB = true →
      ∀ x, xNodeOf o n = some x → x.fmt = n.fmt o
    | .elem sd t a ks, h, x, hx => by
        simp only [xNodeOf, Option.some.injEq] at hx
        subst hx
        simp only [XNode.fmt, MNode.fmt]
        have := fmt_xRest (o + 1) ks (by simpa [MNode.cleanB] using h)
        simp [← this, List.append_assoc]
    | .text _, _, x, hx => by simp [xNodeOf] at hx
    | .expr _ _ _, _, x, hx => by simp [xNodeOf] at hx
  theorem fmt_xRest (o : Nat) : ∀ (ns : List MNode), cleanB ns = true →
      segStr (firstSeg ns) ++ (xRestOf o ns).fmt = fmtM o ns
    | [], _ => by simp [firstSeg, segStr, xRestOf, XRest.fmt, fmtM]
    | .text s :: ns, h => by
        simp only [cleanB, MNode.cleanB, Bool.and_eq_true] at h
        rw [xRestOf_text]
        simp only [firstSeg, segStr, Piece.str, fmtM, MNode.fmt, MNode.size, Nat.add_zero, List.append_assoc]
        rw [fmt_xRest o ns h.2]
    | .expr n i cm :: ns, h => by
        simp only [cleanB, MNode.cleanB, Bool.and_eq_true] at h
        rw [xRestOf_expr]
        simp only [firstSeg, segStr, Piece.str, fmtM, MNode.fmt, MNode.size, Nat.add_zero, List.append_assoc, paramStr]
        rw [← fmt_xRest o ns h.2]
    | .elem sd t a ks :: ns, h => by
        simp only [cleanB, MNode.cleanB, Bool.and_eq_true] at h
        rw [xRestOf_elem]
        simp only [firstSeg, segStr, List.nil_append, XRest.fmt, XNode.fmt, fmtM, MNode.fmt, MNode.size]
        rw [← fmt_xRest (o + 1) ks h.1, ← fmt_xRest (o + (sizeM ks + 1)) ns h.2]
        simp [List.append_assoc]
end

/-! ### numbering -/

theorem nums_xRest : ∀ (ns : List MNode) (o : Nat), (xRestOf o ns).nums = List.range' o (sizeM ns)
  | [], o => by simp [xRestOf, XRest.nums, sizeM]
  | .text s :: ns, o => by rw [xRestOf_text]; simpa [sizeM, MNode.size] using nums_xRest ns o
  | .expr n i cm :: ns, o => by rw [xRestOf_expr]; simpa [sizeM, MNode.size] using nums_xRest ns o
  | .elem sd t a ks :: ns, o => by
      rw [xRestOf_elem]
      simp only [XRest.nums, XNode.nums, sizeM, MNode.size]
      rw [nums_xRest ks (o + 1), nums_xRest ns (o + (sizeM ks + 1))]
      have h1 : sizeM ks + 1 + sizeM ns = (sizeM ks + 1) + sizeM ns := rfl
      rw [h1, ← List.range'_append_1]
      simp [List.range'_succ]

theorem length_xRest : ∀ (ns : List MNode) (o : Nat), (xRestOf o ns).length = countE ns
  | [], o => by simp [xRestOf, XRest.length, countE]
  | .text s :: ns, o => by rw [xRestOf_text]; simpa [countE] using length_xRest ns o
  | .expr n i cm :: ns, o => by rw [xRestOf_expr]; simpa [countE] using length_xRest ns o
  | .elem sd t a ks :: ns, o => by
      rw [xRestOf_elem]; simp only [XRest.length, countE]; rw [length_xRest ns]


/-! ### compatibility with the message -/

theorem info_none_of_lt (o : Nat) (n : MNode) (k : Nat) (h : o + n.size ≤ k) : n.info o k = none := by
  cases hi : n.info o k with
  | none => rfl
  | some x => have := MNode.info_range o n k x hi; omega

mutual
  /-- no directive-carrying element inside another one -/
  def MNode.subsOK : Bool → MNode → Bool
    | inSub, .elem sd _ _ ks => !(sd.isSome && inSub) && subsOKM (inSub || sd.isSome) ks
    | _, _ => true
  def subsOKM : Bool → List MNode → Bool
    | _, [] => true
    | inSub, n :: ns => n.subsOK inSub && subsOKM inSub ns
end

mutual
  theorem compat_xNode (I : Info) : ∀ (n : MNode) (o : Nat) (inSub : Bool),
      (∀ k x, n.info o k = some x → I k = some x) → n.subsOK inSub = true →
      ∀ x, xNodeOf o n = some x → XNode.compat I inSub x
    | .elem sd t a ks, o, inSub, h, hs, x, hx => by
        simp only [xNodeOf, Option.some.injEq] at hx
        subst hx
        simp only [MNode.subsOK, Bool.and_eq_true, Bool.not_eq_true'] at hs
        have hio : I o = some (t, a, countE ks, sd) := h o _ (by simp [MNode.info])
        have hsub : isSubAt I o = sd.isSome := by simp only [isSubAt, hio]; cases sd <;> rfl
        refine ⟨⟨t, a, sd, ?_⟩, ?_, ?_⟩
        · rw [length_xRest]; exact hio
        · intro hsb
          rw [hsub] at hsb
          have := hs.1
          simp only [hsb, Bool.true_and] at this
          exact this
        · rw [hsub]
          refine compat_xRest I ks (o + 1) _ (fun k y hk => h k y ?_) hs.2
          have := (infoM_range (o + 1) ks k y hk).1
          have hne : k ≠ o := by omega
          simp [MNode.info, hne, hk]
    | .text _, _, _, _, _, x, hx => by simp [xNodeOf] at hx
    | .expr _ _ _, _, _, _, _, x, hx => by simp [xNodeOf] at hx
  theorem compat_xRest (I : Info) : ∀ (ns : List MNode) (o : Nat) (inSub : Bool),
      (∀ k x, infoM o ns k = some x → I k = some x) → subsOKM inSub ns = true →
      XRest.compat I inSub (xRestOf o ns)
    | [], _, _, _, _ => by simp [xRestOf, XRest.compat]
    | n :: ns, o, inSub, h, hs => by
        simp only [subsOKM, Bool.and_eq_true] at hs
        have hhead : ∀ k x, n.info o k = some x → I k = some x := fun k x hk => h k x (by simp [infoM, hk])
        have htail : ∀ k x, infoM (o + n.size) ns k = some x → I k = some x := fun k x hk => by
          apply h k x
          have := (infoM_range _ ns k x hk).1
          simp [infoM, info_none_of_lt o n k this, hk]
        simp only [xRestOf]
        cases hx : xNodeOf o n with
        | none => simpa [hx] using compat_xRest I ns (o + n.size) inSub htail hs.2
        | some x =>
          simp only [hx, XRest.compat]
          exact ⟨compat_xNode I n o inSub hhead hs.1 x hx, compat_xRest I ns (o + n.size) inSub htail hs.2⟩
end

/-! ### plain segments -/

theorem isWord_lbracket : isWord '[' = false := by decide +kernel
theorem isWord_rbracket : isWord ']' = false := by decide +kernel
theorem isWord_backslash : isWord '\\' = false := by decide +kernel

theorem Piece.ok_firstSeg : ∀ (ns : List MNode), cleanB ns = true → (firstSeg ns).all Piece.ok = true
  | [], _ => rfl
  | .text s :: ns, h => by
      simp only [cleanB, MNode.cleanB, Bool.and_eq_true] at h
      simp [firstSeg, Piece.ok, h.1, Piece.ok_firstSeg ns h.2]
  | .expr n i cm :: ns, h => by
      simp only [cleanB, MNode.cleanB, Bool.and_eq_true] at h
      simp [firstSeg, Piece.ok, h.1, Piece.ok_firstSeg ns h.2]
  | .elem _ _ _ _ :: _, _ => rfl

theorem cleanB_tail_of (n : MNode) (ns : List MNode) (h : cleanB (n :: ns) = true) : cleanB ns = true := by
  simp only [cleanB, Bool.and_eq_true] at h; exact h.2

/-- every segment of the message string of the forest is one `parse_msg` leaves alone: the
    brackets of the text are escaped and no escaped opening bracket is followed by digits and a
    colon (finding C19-placeholder-text).  A condition on the whole `format()` string: the
    digits and the colon may come from different text events. -/
def segsOK (F : List MNode) : Bool := plainSeg (segStr (firstSeg F)) && (xRestOf 1 F).plain

/-! ### what `yield_parts` makes of the segments of the message itself -/

/-- `yield_parts` as a function (the empty list where it raises) -/
def Yv (vs : List (Str × TEvent)) (s : Str) : List TEvent :=
  match yieldParts vs s with
  | .ok e => e
  | .error _ => []

theorem Yv_ok (vs : List (Str × TEvent)) (s : Str) (e : List TEvent) (h : yieldParts vs s = .ok e) :
    yieldParts vs s = .ok (Yv vs s) := by simp [Yv, h]

/-- every parameter of the forest is bound in `vs` to its expression -/
def Bound (vs : List (Str × TEvent)) (ns : List MNode) : Prop :=
  ∀ p ∈ valsM ns, lookupValue vs p.1 = some p.2

theorem Bound.tail {vs : List (Str × TEvent)} {n : MNode} {ns : List MNode} (h : Bound vs (n :: ns)) : Bound vs ns :=
  fun p hp => h p (by simp [valsM, hp])

theorem Bound.kids {vs : List (Str × TEvent)} {t : QName} {a : TAttrs} {ks ns : List MNode}
    (h : Bound vs (.elem sd t a ks :: ns)) : Bound vs ks :=
  fun p hp => h p (by simp [valsM, MNode.vals, hp])

theorem bound_firstSeg (vs : List (Str × TEvent)) : ∀ (ns : List MNode), Bound vs ns →
    ∀ p ∈ firstSeg ns, p.bound vs
  | [], _, p, hp => by simp [firstSeg] at hp
  | .text s :: ns, h, p, hp => by
      simp only [firstSeg, List.mem_cons] at hp
      rcases hp with rfl | hp
      · trivial
      · exact bound_firstSeg vs ns h.tail p hp
  | .expr n i cm :: ns, h, p, hp => by
      simp only [firstSeg, List.mem_cons] at hp
      rcases hp with rfl | hp
      · exact h (n, .expr i cm) (by simp [valsM, MNode.vals])
      · exact bound_firstSeg vs ns h.tail p hp
  | .elem _ _ _ _ :: _, _, p, hp => by simp [firstSeg] at hp

theorem Yv_firstSeg (vs : List (Str × TEvent)) (ns : List MNode) (hc : cleanB ns = true) (hb : Bound vs ns) :
    yieldParts vs (segStr (firstSeg ns)) = .ok (segEvents (firstSeg ns)) ∧
    Yv vs (segStr (firstSeg ns)) = segEvents (firstSeg ns) := by
  have := yieldParts_segStr vs (firstSeg ns) (Piece.ok_firstSeg ns hc) (bound_firstSeg vs ns hb)
  exact ⟨this, by simp [Yv, this]⟩

theorem cleanB_cons (n : MNode) (ns : List MNode) : cleanB (n :: ns) = (n.cleanB && cleanB ns) := rfl

/-- all segments of the tree of the message itself are accepted by `yield_parts` -/
theorem segs_xRest (vs : List (Str × TEvent)) : ∀ (ns : List MNode) (o : Nat), cleanB ns = true → Bound vs ns →
    ∀ s ∈ (xRestOf o ns).segs, yieldParts vs s = .ok (Yv vs s)
  | [], o, _, _, s, hs => by simp [xRestOf, XRest.segs] at hs
  | .text t :: ns, o, hc, hb, s, hs => by
      rw [xRestOf_text] at hs
      exact segs_xRest vs ns o (by simpa [cleanB, MNode.cleanB] using (show cleanB ns = true from cleanB_tail_of _ _ hc)) hb.tail s hs
  | .expr n i cm :: ns, o, hc, hb, s, hs => by
      rw [xRestOf_expr] at hs
      exact segs_xRest vs ns o (cleanB_tail_of _ _ hc) hb.tail s hs
  | .elem sd t a ks :: ns, o, hc, hb, s, hs => by
      have hck : cleanB ks = true := by simp only [cleanB, MNode.cleanB, Bool.and_eq_true] at hc; exact hc.1
      have hcn : cleanB ns = true := cleanB_tail_of _ _ hc
      rw [xRestOf_elem] at hs
      simp only [XRest.segs, XNode.segs, List.mem_append, List.mem_cons] at hs
      rcases hs with (rfl | hs) | rfl | hs
      · exact Yv_ok vs _ _ (Yv_firstSeg vs ks hck hb.kids).1
      · exact segs_xRest vs ks (o + 1) hck hb.kids s hs
      · exact Yv_ok vs _ _ (Yv_firstSeg vs ns hcn hb.tail).1
      · exact segs_xRest vs ns _ hcn hb.tail s hs

/-! ### rendering: the content with adjacent text merged -/

def flushText (cur : Str) : List TEvent := if cur.isEmpty then [] else [.text cur]

mutual
  /-- merge adjacent TEXT events, drop empty ones — also inside the sub-streams of SUB events -/
  def coalEv : TEvent → TEvent
    | .sub d b => .sub d (coalGo [] b)
    | e => e
  def coalGo (cur : Str) : List TEvent → List TEvent
    | [] => flushText cur
    | .text s :: es => coalGo (cur ++ s) es
    | .start t a :: es => flushText cur ++ (.start t a :: coalGo [] es)
    | .end_ t :: es => flushText cur ++ (.end_ t :: coalGo [] es)
    | .expr i m :: es => flushText cur ++ (.expr i m :: coalGo [] es)
    | .exec m :: es => flushText cur ++ (.exec m :: coalGo [] es)
    | .other l :: es => flushText cur ++ (.other l :: coalGo [] es)
    | .sub d b :: es => flushText cur ++ (coalEv (.sub d b) :: coalGo [] es)
end

def coalesce (es : List TEvent) : List TEvent := coalGo [] es

def TEvent.isText : TEvent → Bool
  | .text _ => true
  | _ => false

/-- a continuation of the stream that does not start with text -/
def tailOK : List TEvent → Bool
  | [] => true
  | e :: _ => !e.isText

theorem coalGo_tail (cur : Str) (tail : List TEvent) (h : tailOK tail = true) :
    coalGo cur tail = flushText cur ++ coalGo [] tail := by
  cases tail with
  | nil => simp [coalGo, flushText]
  | cons e es =>
    cases e <;> simp_all [coalGo, coalEv, flushText, tailOK, TEvent.isText]

theorem segEventsGo_nil (cur : Str) : segEventsGo cur [] = flushText cur := rfl

theorem coal_forest (vs : List (Str × TEvent)) (W : WorldK) : ∀ (ns : List MNode) (o : Nat) (cur : Str) (tail : List TEvent),
    cleanB ns = true → Bound vs ns → (∀ k t a c kd, infoM o ns k = some (t, a, c, kd) → W k = some (t, a, kd)) →
    tailOK tail = true →
    coalGo cur (flattenM ns ++ tail) =
      segEventsGo cur (firstSeg ns) ++ ((xRestOf o ns).renderK W (Yv vs) ++ coalGo [] tail)
  | [], o, cur, tail, _, _, _, ht => by
      simp [flattenM, firstSeg, xRestOf, XRest.renderK, segEventsGo_nil, coalGo_tail cur tail ht]
  | .text s :: ns, o, cur, tail, hc, hb, hw, ht => by
      rw [xRestOf_text]
      simp only [flattenM, MNode.flatten, List.cons_append, List.nil_append, coalGo, firstSeg, segEventsGo]
      exact coal_forest vs W ns o (cur ++ s) tail (cleanB_tail_of _ _ hc) hb.tail
        (fun k t a c kd h => hw k t a c kd (by simpa [infoM, MNode.info, MNode.size] using h)) ht
  | .expr n i cm :: ns, o, cur, tail, hc, hb, hw, ht => by
      rw [xRestOf_expr]
      simp only [flattenM, MNode.flatten, List.cons_append, List.nil_append, coalGo, firstSeg, segEventsGo]
      rw [coal_forest vs W ns o [] tail (cleanB_tail_of _ _ hc) hb.tail
        (fun k t a c kd h => hw k t a c kd (by simpa [infoM, MNode.info, MNode.size] using h)) ht]
      simp [flushText, List.append_assoc]
  | .elem sd t a ks :: ns, o, cur, tail, hc, hb, hw, ht => by
      have hck : cleanB ks = true := by simp only [cleanB, MNode.cleanB, Bool.and_eq_true] at hc; exact hc.1
      have hcn : cleanB ns = true := cleanB_tail_of _ _ hc
      have hwo : W o = some (t, a, sd) := hw o t a (countE ks) sd (by simp [infoM, MNode.info])
      have hwk : ∀ k t' a' c kd, infoM (o + 1) ks k = some (t', a', c, kd) → W k = some (t', a', kd) := fun k t' a' c kd h => by
        apply hw k t' a' c kd
        have := (infoM_range (o + 1) ks k _ h).1
        have hne : k ≠ o := by omega
        simp [infoM, MNode.info, hne, h]
      have hwn : ∀ k t' a' c kd, infoM (o + (sizeM ks + 1)) ns k = some (t', a', c, kd) → W k = some (t', a', kd) := fun k t' a' c kd h => by
        apply hw k t' a' c kd
        have := (infoM_range _ ns k _ h).1
        have hnone : (MNode.elem sd t a ks).info o k = none := info_none_of_lt o _ k (by simp [MNode.size]; omega)
        simp only [infoM, hnone, MNode.size]; exact h
      rw [xRestOf_elem]
      have hkids := coal_forest vs W ks (o + 1) []
      have hrest := coal_forest vs W ns (o + (sizeM ks + 1)) [] tail hcn hb.tail hwn ht
      cases sd with
      | none =>
        simp only [flattenM, MNode.flatten, List.cons_append, List.append_assoc, List.nil_append, coalGo, firstSeg,
          segEventsGo_nil, XRest.renderK, XNode.renderK, hwo]
        rw [hkids (.end_ t :: (flattenM ns ++ tail)) hck hb.kids hwk rfl]
        simp only [coalGo, flushText, List.isEmpty_nil, ↓reduceIte, List.nil_append]
        rw [hrest, (Yv_firstSeg vs ks hck hb.kids).2, (Yv_firstSeg vs ns hcn hb.tail).2]
        simp [segEvents, List.append_assoc]
      | some ds =>
        simp only [flattenM, MNode.flatten, List.cons_append, List.append_assoc, List.nil_append, coalGo, coalEv,
          firstSeg, segEventsGo_nil, XRest.renderK, XNode.renderK, hwo]
        have hin := hkids [.end_ t] hck hb.kids hwk rfl
        simp only [coalGo, flushText, List.isEmpty_nil, ↓reduceIte, List.nil_append] at hin
        rw [hin, hrest, (Yv_firstSeg vs ks hck hb.kids).2, (Yv_firstSeg vs ns hcn hb.tail).2]
        simp [segEvents, flushText]

/-! ### the message translated by itself -/

theorem lookupValue_mem (l : List (Str × TEvent)) (p : Str × TEvent) (hnd : (l.map Prod.fst).Nodup) (hp : p ∈ l) :
    lookupValue l p.1 = some p.2 := by
  induction l with
  | nil => simp at hp
  | cons q qs ih =>
    simp only [List.map_cons, List.nodup_cons, List.mem_map, not_exists, not_and] at hnd
    simp only [List.mem_cons] at hp
    unfold lookupValue
    rcases hp with rfl | hp
    · simp
    · have hne : q.1 ≠ p.1 := fun h => hnd.1 p hp h.symm
      have := ih hnd.2 hp
      unfold lookupValue at this
      simp [List.find?, hne, this]

mutual
  theorem MNode.vals_keys : ∀ (n : MNode), n.vals.map Prod.fst = n.names
    | .text _ => rfl
    | .expr _ _ _ => rfl
    | .elem _ _ _ ks => by simp [MNode.vals, MNode.names, valsM_keys ks]
  theorem valsM_keys : ∀ (ns : List MNode), (valsM ns).map Prod.fst = namesM ns
    | [] => rfl
    | n :: ns => by simp [valsM, namesM, MNode.vals_keys n, valsM_keys ns]
end

theorem bound_self (F : List MNode) (h : (namesM F).Nodup) : Bound (valsM F).reverse F := by
  intro p hp
  apply lookupValue_mem
  · rw [List.map_reverse, valsM_keys]; exact (List.reverse_perm _).nodup_iff.mpr h
  · simpa using hp

theorem topSegs_noTop : ∀ (ns : List MNode) (o : Nat), hasTopText ns = false →
    segStr (firstSeg ns) = [] ∧ ∀ s ∈ (xRestOf o ns).topSegs, s = []
  | [], o, _ => by simp [firstSeg, segStr, xRestOf, XRest.topSegs]
  | .text _ :: _, _, h => by simp [hasTopText] at h
  | .expr _ _ _ :: _, _, h => by simp [hasTopText] at h
  | .elem sd t a ks :: ns, o, h => by
      have := topSegs_noTop ns (o + (sizeM ks + 1)) (by simpa [hasTopText] using h)
      rw [xRestOf_elem]
      refine ⟨by simp [firstSeg, segStr], ?_⟩
      intro s hs
      simp only [XRest.topSegs, List.mem_cons] at hs
      rcases hs with rfl | hs
      · exact this.1
      · exact this.2 s hs

/-- **translate ∘ format, without the edge white space**: translating the message with its
    own message string gives back the content, adjacent text merged. -/
theorem translate_fmt_self (F : List MNode) (extra : List Str)
    (hc : cleanB F = true) (hsg : segsOK F = true)
    (hna : deepNoAdjM F = true) (hnd : (namesM F).Nodup) (hso : subsOKM false F = true) :
    ∃ b, mbAppendList (MB.new (namesM F ++ extra)) (flattenM F) = .ok b ∧
      b.format = strip (fmtM 1 F) ∧
      b.translate (fmtM 1 F) = .ok (coalesce (flattenM F)) := by
  have hb := bound_self F hnd
  have hseg : ∀ s ∈ segStr (firstSeg F) :: (xRestOf 1 F).segs,
      yieldParts (valsM F).reverse s = .ok (Yv (valsM F).reverse s) := by
    intro s hs
    simp only [List.mem_cons] at hs
    rcases hs with rfl | hs
    · exact Yv_ok _ _ _ (Yv_firstSeg _ F hc hb).1
    · exact segs_xRest _ F 1 hc hb s hs
  have htop : (∀ s ∈ segStr (firstSeg F) :: (xRestOf 1 F).topSegs, s = []) ∨ hasTopText F = true := by
    cases h : hasTopText F with
    | true => exact Or.inr rfl
    | false =>
      left
      have := topSegs_noTop F 1 h
      intro s hs
      simp only [List.mem_cons] at hs
      rcases hs with rfl | hs
      · exact this.1
      · exact this.2 s hs
  obtain ⟨b, hrun, hfmt, htr⟩ := translate_message F extra (Yv (valsM F).reverse) (segStr (firstSeg F)) (xRestOf 1 F)
    hna (compat_xRest (infoM 1 F) F 1 false (fun _ _ h => h) hso)
    (by rw [nums_xRest]; exact List.nodup_range')
    (by simp only [segsOK, Bool.and_eq_true] at hsg; exact hsg.1)
    (by simp only [segsOK, Bool.and_eq_true] at hsg; exact hsg.2) hseg htop
  refine ⟨b, hrun, hfmt, ?_⟩
  rw [fmt_xRest 1 F hc] at htr
  rw [htr]
  have := coal_forest (valsM F).reverse (worldOf F) F 1 [] [] hc hb
    (fun k t a c kd h => by simp [worldOf, h]) rfl
  simp only [List.append_nil] at this
  rw [coalesce, this, (Yv_firstSeg _ F hc hb).2]
  simp [segEvents, coalGo, flushText]

end Genshi.I18n

/-
  C06 — CSS comments: the text `sanitize_css` emits holds no complete comment, so the
  browser-side comment removal changes nothing.
-/
import Genshi.Lemmas.SanCssStable
set_option linter.unusedSimpArgs false
namespace Genshi.San
open Genshi.Gen Genshi.San.Spec

/-- `*/` occurs in the text -/
def HasClose (s : Str) : Prop := ∃ x y, s = x ++ '*' :: '/' :: y

/-- no complete comment: after a `/*` there is no `*/` -/
def NoComment (s : Str) : Prop := ∀ a b, s = a ++ '/' :: '*' :: b → ¬ HasClose b

theorem hasClose_mono {b : Str} (x y : Str) (h : HasClose b) : HasClose (x ++ b ++ y) := by
  obtain ⟨u, v, rfl⟩ := h
  exact ⟨x ++ u, v ++ y, by simp⟩

theorem hasClose_cons {c : Char} {s : Str} (h : HasClose s) : HasClose (c :: s) := by
  have := hasClose_mono [c] [] h
  simpa using this

/-! ### the spec-side scanner -/

theorem ass_hit (r : Str) : afterStarSlash ('*' :: '/' :: r) = some r := by
  simp [afterStarSlash]

theorem ass_miss (c : Char) (r : Str) (h : ¬ (c = '*' ∧ ∃ r', r = '/' :: r')) :
    afterStarSlash (c :: r) = afterStarSlash r := by
  conv => lhs; unfold afterStarSlash
  split
  · rename_i r'
    exact absurd ⟨rfl, r', rfl⟩ h
  · rfl

theorem afterStarSlash_none_iff (s : Str) : afterStarSlash s = none ↔ ¬ HasClose s := by
  induction s with
  | nil =>
    simp [afterStarSlash, HasClose]
  | cons c r ih =>
    by_cases hh : c = '*' ∧ ∃ r', r = '/' :: r'
    · obtain ⟨rfl, r', rfl⟩ := hh
      rw [ass_hit]
      simp
      exact ⟨[], r', rfl⟩
    · rw [ass_miss c r hh, ih]
      constructor
      · intro hn hc
        obtain ⟨x, y, hxy⟩ := hc
        cases x with
        | nil =>
          simp at hxy
          exact hh ⟨hxy.1, y, hxy.2⟩
        | cons x0 x' =>
          simp at hxy
          exact hn ⟨x', y, hxy.2⟩
      · intro hn hc
        exact hn (hasClose_cons hc)

theorem sog_hit (f : Nat) (r' rest : Str) (h : afterStarSlash r' = some rest) :
    stripOnceGo (f + 1) ('/' :: '*' :: r') = stripOnceGo f rest := by
  simp [stripOnceGo, h]

theorem sog_open (f : Nat) (r' : Str) (h : afterStarSlash r' = none) :
    stripOnceGo (f + 1) ('/' :: '*' :: r') = '/' :: stripOnceGo f ('*' :: r') := by
  simp [stripOnceGo, h]

theorem sog_miss (f : Nat) (c : Char) (r : Str) (h : ¬ (c = '/' ∧ ∃ r', r = '*' :: r')) :
    stripOnceGo (f + 1) (c :: r) = c :: stripOnceGo f r := by
  conv => lhs; unfold stripOnceGo
  split
  · rename_i r'
    exact absurd ⟨rfl, r', rfl⟩ h
  · rfl

/-- without a complete comment the browser-side comment removal is the identity -/
theorem stripOnceGo_noComment : ∀ (s : Str), NoComment s → ∀ f, s.length < f → stripOnceGo f s = s := by
  intro s
  induction s with
  | nil => intro _ f hf; cases f with
    | zero => simp at hf
    | succ f => rfl
  | cons c r ih =>
    intro hq f hf
    cases f with
    | zero => simp at hf
    | succ f =>
      have hqr : NoComment r := by
        intro a b hab
        exact hq (c :: a) b (by simp [hab])
      have hfr : r.length < f := by simp at hf; omega
      by_cases hh : c = '/' ∧ ∃ r', r = '*' :: r'
      · obtain ⟨rfl, r', rfl⟩ := hh
        have : afterStarSlash r' = none := (afterStarSlash_none_iff r').mpr (hq [] r' rfl)
        rw [sog_open f r' this, ih hqr f hfr]
      · rw [sog_miss f c r hh, ih hqr f hfr]

theorem stripOnce_noComment {s : Str} (h : NoComment s) : stripOnce s = s :=
  stripOnceGo_noComment s h _ (Nat.lt_succ_self _)

/-! ### the model's scanner with DOTALL is the spec-side scanner -/

theorem afterCommentEnd_true (s : Str) : afterCommentEnd true s = afterStarSlash s := by
  induction s with
  | nil => rfl
  | cons c r ih =>
    by_cases hh : c = '*' ∧ ∃ r', r = '/' :: r'
    · obtain ⟨rfl, r', rfl⟩ := hh
      rw [ace_hit, ass_hit]
    · rw [ace_miss true c r hh, ass_miss c r hh, ih]
      simp

theorem stripCommentsGo_true (f : Nat) : ∀ s, stripCommentsGo true f s = stripOnceGo f s := by
  induction f with
  | zero => intro s; rfl
  | succ f ih =>
    intro s
    cases s with
    | nil => rfl
    | cons c r =>
      by_cases hh : c = '/' ∧ ∃ r', r = '*' :: r'
      · obtain ⟨rfl, r', rfl⟩ := hh
        cases ha : afterStarSlash r' with
        | some rest =>
          rw [scg_hit true f r' rest (by rw [afterCommentEnd_true, ha]), sog_hit f r' rest ha, ih]
        | none =>
          rw [scg_open true f r' (by rw [afterCommentEnd_true, ha]), sog_open f r' ha, ih]
      · rw [scg_miss true f c r hh, sog_miss f c r hh, ih]

/-! ### a fixed point of the removal holds no complete comment -/

theorem stripOnceGo_len : ∀ (n : Nat) (s : Str), s.length ≤ n → ∀ f, s.length < f →
    stripOnceGo f s = s ∨ (stripOnceGo f s).length < s.length := by
  intro n
  induction n using Nat.strongRecOn with
  | _ n ih =>
    intro s hl f hf
    cases f with
    | zero => simp at hf
    | succ f =>
      cases s with
      | nil => exact Or.inl rfl
      | cons c r =>
        have hlr : r.length < f := by simp at hf; omega
        by_cases hh : c = '/' ∧ ∃ r', r = '*' :: r'
        · obtain ⟨rfl, r', rfl⟩ := hh
          cases ha : afterStarSlash r' with
          | some rest =>
            rw [sog_hit f r' rest ha]
            have hrl : rest.length < r'.length := by
              have := afterCommentEnd_length true r' rest (by rw [afterCommentEnd_true, ha])
              exact this
            right
            rcases ih rest.length (by simp at hl; omega) rest (Nat.le_refl _) f (by simp at hlr; omega) with h | h
            · rw [h]; simp; omega
            · simp; omega
          | none =>
            rw [sog_open f r' ha]
            rcases ih (n - 1) (by simp at hl; omega) ('*' :: r') (by simp at hl ⊢; omega) f hlr with h | h
            · left; rw [h]
            · right; simp at h ⊢; omega
        · rw [sog_miss f c r hh]
          rcases ih (n - 1) (by simp at hl; omega) r (by simp at hl; omega) f hlr with h | h
          · left; rw [h]
          · right; simp at h ⊢; omega

theorem noComment_of_fixed : ∀ (s : Str) (f : Nat), s.length < f → stripOnceGo f s = s → NoComment s := by
  intro s
  induction s with
  | nil => intro f _ _ a b hab; simp at hab
  | cons c r ih =>
    intro f hf hfix
    cases f with
    | zero => simp at hf
    | succ f =>
      have hlr : r.length < f := by simp at hf; omega
      by_cases hh : c = '/' ∧ ∃ r', r = '*' :: r'
      · obtain ⟨rfl, r', rfl⟩ := hh
        cases ha : afterStarSlash r' with
        | some rest =>
          exfalso
          rw [sog_hit f r' rest ha] at hfix
          have hrl : rest.length < r'.length :=
            afterCommentEnd_length true r' rest (by rw [afterCommentEnd_true, ha])
          have := congrArg List.length hfix
          rcases stripOnceGo_len rest.length rest (Nat.le_refl _) f (by simp at hlr; omega) with h | h
          · rw [h] at this; simp at this; omega
          · simp at this; omega
        | none =>
          rw [sog_open f r' ha] at hfix
          simp at hfix
          have hqr := ih f hlr hfix
          intro a b hab
          cases a with
          | nil =>
            simp at hab; subst hab
            exact (afterStarSlash_none_iff _).mp ha
          | cons a0 a' =>
            simp at hab
            exact hqr a' b hab.2
      · rw [sog_miss f c r hh] at hfix
        simp at hfix
        have hqr := ih f hlr hfix
        intro a b hab
        cases a with
        | nil =>
          simp at hab
          exact absurd ⟨hab.1, b, hab.2⟩ hh
        | cons a0 a' =>
          simp at hab
          exact hqr a' b hab.2

/-- the repeated removal ends in a text that one more removal leaves alone -/
theorem stripCommentsFix_fixed : ∀ (f : Nat) (s : Str), s.length < f →
    stripCommentsOnce true (stripCommentsFix true f s) = stripCommentsFix true f s := by
  intro f
  induction f with
  | zero => intro s hf; simp at hf
  | succ f ih =>
    intro s hf
    unfold stripCommentsFix
    simp only
    by_cases he : stripCommentsOnce true s = s
    · simp [he]
    · simp only [he, ↓reduceIte]
      apply ih
      have : stripCommentsOnce true s = stripOnceGo (s.length + 1) s := stripCommentsGo_true _ s
      rcases stripOnceGo_len s.length s (Nat.le_refl _) (s.length + 1) (Nat.lt_succ_self _) with h | h
      · exact absurd (this.trans h) he
      · rw [this]; omega

theorem stripCssComments_noComment (hd : SanClass.commentsDotall = true) (s : Str) :
    NoComment (stripCssComments s) := by
  unfold stripCssComments
  rw [hd]
  have hfix := stripCommentsFix_fixed (s.length + 1) s (Nat.lt_succ_self _)
  unfold stripCommentsOnce at hfix
  rw [stripCommentsGo_true] at hfix
  exact noComment_of_fixed _ _ (Nat.lt_succ_self _) hfix

/-! ### from the comment-free text to the joined declarations -/

/-- `d` is a contiguous part of `p` -/
def Sub (d p : Str) : Prop := ∃ x y, p = x ++ d ++ y

/-- `/*` occurs in the text -/
def HasOpen (s : Str) : Prop := ∃ a b, s = a ++ '/' :: '*' :: b

theorem hasClose_sub {d p : Str} (h : HasClose d) (hs : Sub d p) : HasClose p := by
  obtain ⟨x, y, rfl⟩ := hs
  exact hasClose_mono x y h

theorem hasOpen_sub {d p : Str} (h : HasOpen d) (hs : Sub d p) : HasOpen p := by
  obtain ⟨x, y, rfl⟩ := hs
  obtain ⟨a, b, rfl⟩ := h
  exact ⟨x ++ a, b ++ y, by simp⟩

theorem noComment_sub {d p : Str} (h : NoComment p) (hs : Sub d p) : NoComment d := by
  obtain ⟨x, y, rfl⟩ := hs
  intro a b hab hc
  subst hab
  exact h (x ++ a) (b ++ y) (by simp) (by simpa using hasClose_mono [] y hc)

theorem sub_refl (s : Str) : Sub s s := ⟨[], [], by simp⟩

theorem sub_trans {a b c : Str} (h1 : Sub a b) (h2 : Sub b c) : Sub a c := by
  obtain ⟨x, y, rfl⟩ := h1
  obtain ⟨u, v, rfl⟩ := h2
  exact ⟨u ++ x, y ++ v, by simp⟩

theorem pyStrip_sub (s : Str) : Sub (pyStrip s) s := by
  unfold pyStrip Genshi.Str.stripBy
  obtain ⟨t1, h1, _⟩ := lstripBy_decomp isSpace s
  obtain ⟨t2, h2, _⟩ := rstripBy_decomp isSpace (Genshi.Str.lstripBy isSpace s)
  refine ⟨t1, t2, ?_⟩
  rw [List.append_assoc, ← h2, ← h1]

theorem hasClose_semi {x y : Str} (h : HasClose (x ++ ';' :: y)) : HasClose x ∨ HasClose y := by
  obtain ⟨u, v, huv⟩ := h
  rcases List.append_eq_append_iff.mp huv with ⟨w, hw1, hw2⟩ | ⟨w, hw1, hw2⟩
  · -- u = x ++ w
    cases w with
    | nil => simp at hw2
    | cons w0 w' =>
      simp at hw2
      exact Or.inr ⟨w', v, hw2.2⟩
  · -- x = u ++ w
    cases w with
    | nil => simp at hw2
    | cons w0 w' =>
      simp at hw2
      obtain ⟨rfl, hw2⟩ := hw2
      cases w' with
      | nil => simp at hw2
      | cons w1 w'' =>
        simp at hw2
        obtain ⟨rfl, _⟩ := hw2
        exact Or.inl ⟨u, w'', hw1⟩

theorem hasClose_space {y : Str} (h : HasClose (' ' :: y)) : HasClose y := by
  obtain ⟨u, v, huv⟩ := h
  cases u with
  | nil => simp at huv
  | cons u0 u' => simp at huv; exact ⟨u', v, huv.2⟩

theorem noComment_space {y : Str} (h : NoComment y) : NoComment (' ' :: y) := by
  intro a b hab
  cases a with
  | nil => simp at hab
  | cons a0 a' => simp at hab; exact h a' b hab.2

theorem noComment_semi_parts {x y : Str} (h : NoComment (x ++ ';' :: y)) :
    NoComment x ∧ NoComment y ∧ (HasOpen x → ¬ HasClose y) := by
  refine ⟨?_, ?_, ?_⟩
  · exact noComment_sub h ⟨[], ';' :: y, by simp⟩
  · exact noComment_sub h ⟨x ++ [';'], [], by simp⟩
  · intro ho hc
    obtain ⟨a, b, rfl⟩ := ho
    refine h a (b ++ ';' :: y) (by simp) ?_
    have := hasClose_mono (b ++ [';']) [] hc
    simpa using this

theorem noComment_semi_build {x y : Str} (hx : NoComment x) (hy : NoComment y)
    (hxy : HasOpen x → ¬ HasClose y) : NoComment (x ++ ';' :: y) := by
  intro a b hab
  rcases List.append_eq_append_iff.mp hab with ⟨w, hw1, hw2⟩ | ⟨w, hw1, hw2⟩
  · -- a = x ++ w, the comment opens in y
    cases w with
    | nil => simp at hw2
    | cons w0 w' =>
      simp at hw2
      exact hy w' b hw2.2
  · -- x = a ++ w, the comment opens in x
    cases w with
    | nil => simp at hw2
    | cons w0 w' =>
      simp at hw2
      obtain ⟨rfl, hw2⟩ := hw2
      cases w' with
      | nil => simp at hw2
      | cons w1 w'' =>
        simp at hw2
        obtain ⟨rfl, hb⟩ := hw2
        subst hb
        intro hc
        rcases hasClose_semi hc with h1 | h2
        · exact hx a w'' hw1 h1
        · exact hxy ⟨a, w'', hw1⟩ h2

theorem join_cons_cons (sep x y : Str) (r : List Str) :
    Genshi.Str.join sep (x :: y :: r) = x ++ sep ++ Genshi.Str.join sep (y :: r) := by
  simp [Genshi.Str.join]

theorem join_splitOn (s : Str) : Genshi.Str.join [';'] (splitOn ';' s) = s := by
  induction s with
  | nil => simp [splitOn, Genshi.Str.join]
  | cons c cs ih =>
    by_cases h : c = ';'
    · subst h
      rw [splitOn_cons_eq]
      cases hs : splitOn ';' cs with
      | nil => exact absurd hs (splitOn_ne_nil _ _)
      | cons p ps =>
        rw [join_cons_cons, ← hs, ih]; simp
    · obtain ⟨p, ps, hp, hsp⟩ := splitOn_cons_ne h cs
      rw [hsp]
      rw [hp] at ih
      cases ps with
      | nil => simp [Genshi.Str.join] at ih ⊢; exact ih
      | cons q qs =>
        rw [join_cons_cons] at ih ⊢
        simp at ih ⊢; exact ih

section derived
variable (f : Str → Option Str) (hf : ∀ p d, f p = some d → Sub d p)
include hf

theorem derived_close : ∀ (ps : List Str),
    HasClose (Genshi.Str.join declSep (ps.filterMap f)) → HasClose (Genshi.Str.join [';'] ps) := by
  intro ps
  induction ps with
  | nil => intro h; simpa [Genshi.Str.join] using h
  | cons p ps ih =>
    intro h
    -- the close found in the rest lifts to the whole
    have lift : HasClose (Genshi.Str.join [';'] ps) → HasClose (Genshi.Str.join [';'] (p :: ps)) := by
      intro hc
      cases ps with
      | nil => simp [Genshi.Str.join, HasClose] at hc
      | cons q qs =>
        rw [join_cons_cons]
        have := hasClose_mono (p ++ [';']) [] hc
        simpa using this
    have here : HasClose p → HasClose (Genshi.Str.join [';'] (p :: ps)) := by
      intro hc
      cases ps with
      | nil => simpa [Genshi.Str.join] using hc
      | cons q qs =>
        rw [join_cons_cons]
        have := hasClose_mono [] ([';'] ++ Genshi.Str.join [';'] (q :: qs)) hc
        simpa using this
    cases hfp : f p with
    | none =>
      simp only [List.filterMap_cons, hfp] at h
      exact lift (ih h)
    | some d =>
      simp only [List.filterMap_cons, hfp] at h
      cases hds : ps.filterMap f with
      | nil =>
        rw [hds] at h
        simp [Genshi.Str.join] at h
        exact here (hasClose_sub h (hf p d hfp))
      | cons d2 ds =>
        rw [hds, join_cons_cons] at h
        have h' : HasClose (d ++ ';' :: ' ' :: Genshi.Str.join declSep (d2 :: ds)) := by
          simpa [declSep] using h
        rcases hasClose_semi h' with h1 | h2
        · exact here (hasClose_sub h1 (hf p d hfp))
        · rw [← hds] at h2
          exact lift (ih (hasClose_space h2))

theorem derived_noComment : ∀ (ps : List Str),
    NoComment (Genshi.Str.join [';'] ps) → NoComment (Genshi.Str.join declSep (ps.filterMap f)) := by
  intro ps
  induction ps with
  | nil => intro h; simpa [Genshi.Str.join] using h
  | cons p ps ih =>
    intro h
    cases ps with
    | nil =>
      simp only [Genshi.Str.join] at h
      cases hfp : f p with
      | none => simp [hfp, Genshi.Str.join]; intro a b hab; simp at hab
      | some d =>
        simp [hfp, Genshi.Str.join]
        exact noComment_sub h (hf p d hfp)
    | cons q qs =>
      rw [join_cons_cons] at h
      have h' : NoComment (p ++ ';' :: Genshi.Str.join [';'] (q :: qs)) := by simpa using h
      obtain ⟨hp, hrest, hcross⟩ := noComment_semi_parts h'
      have ihr := ih hrest
      cases hfp : f p with
      | none => rw [List.filterMap_cons_none hfp]; exact ihr
      | some d =>
        rw [List.filterMap_cons_some hfp]
        cases hds : (q :: qs).filterMap f with
        | nil =>
          simp only [Genshi.Str.join]
          exact noComment_sub hp (hf p d hfp)
        | cons d2 ds =>
          rw [join_cons_cons]
          have : d ++ declSep ++ Genshi.Str.join declSep (d2 :: ds) =
              d ++ ';' :: ' ' :: Genshi.Str.join declSep (d2 :: ds) := by simp [declSep]
          rw [this]
          rw [hds] at ihr
          apply noComment_semi_build (noComment_sub hp (hf p d hfp)) (noComment_space ihr)
          intro ho hc
          have hc' : HasClose (Genshi.Str.join declSep ((q :: qs).filterMap f)) := by
            rw [hds]; exact hasClose_space hc
          exact hcross (hasOpen_sub ho (hf p d hfp)) (derived_close f hf (q :: qs) hc')

end derived

theorem cssDecl_sub (cfg : Cfg) : ∀ p d, cssDecl cfg p = some d → Sub d p := by
  intro p d h
  unfold cssDecl at h
  simp only at h
  split at h
  · cases h
  · split at h
    · cases h
    · split at h
      · cases h
      · split at h
        · cases h
        · split at h
          · cases h
          · simp at h; subst h
            exact sub_trans (pyStrip_sub _) (pyStrip_sub _)

/-- **the text `sanitize_css` emits holds no complete comment** (with `re.DOTALL` on
    `_CSS_COMMENTS`, which the translator reads from the compiled pattern) -/
theorem sanitizeCss_noComment (hd : SanClass.commentsDotall = true) {cfg : Cfg} {x : Str} {decls : List Str}
    (h : sanitizeCss cfg x = .ok decls) : NoComment (Genshi.Str.join declSep decls) := by
  unfold sanitizeCss at h
  cases ht : replaceUnicodeEscapes x with
  | error e => simp [ht] at h; cases h
  | ok t =>
    simp only [ht, ok_bind, pure_eq_ok, Except.ok.injEq] at h
    subst h
    apply derived_noComment (cssDecl cfg) (cssDecl_sub cfg)
    rw [join_splitOn]
    exact stripCssComments_noComment hd t

end Genshi.San

/-
  C06 — nesting: the `waiting_for`/`depth` state against the START/END stack of the input.
-/
import Genshi.Lemmas.SanFilter
set_option linter.unusedSimpArgs false
namespace Genshi.San

/-- while an element named like `w` is being dropped: the open input elements above the output's
    open elements are `ys ++ [b]` with `b` the dropped element, and `depth` counts the elements
    of that name among them -/
def Dropping (w : QName) (d : Nat) (dr : List QName) : Prop :=
  ∃ ys b, dr = ys ++ [b] ∧ (b.text == w.text) = true ∧
    d = ys.countP (fun q => q.text == w.text) + 1

/-- the invariant of the filter loop: input stack vs output stack -/
def Inv (st : St) (stI stO : List QName) : Prop :=
  match st.waiting with
  | none => stI = stO
  | some w => ∃ dr, stI = dr ++ stO ∧ Dropping w st.depth dr

theorem inv_init : Inv St.init [] [] := rfl

theorem nest_inv (cfg : Cfg) : ∀ (s : Stream) (st : St) (stI stO stI' : List QName) (o : Stream),
    Inv st stI stO → balance stI s = some stI' → sanitizeFrom cfg st s = .ok o →
    ∃ st' stO', balance stO o = some stO' ∧ Inv st' stI' stO' := by
  intro s
  induction s with
  | nil =>
    intro st stI stO stI' o hinv hb hs
    simp [sanitizeFrom] at hs; subst hs
    simp [balance] at hb; subst hb
    exact ⟨st, stO, rfl, hinv⟩
  | cons e es ih =>
    intro st stI stO stI' o hinv hb hs
    obtain ⟨r, rest, hr, hrest, rfl⟩ := sanitizeFrom_cons hs
    cases e with
    | start tag attrs =>
      simp only [balance] at hb
      unfold step at hr
      cases hw : st.waiting with
      | some w =>
        simp only [hw, pure_eq_ok, Except.ok.injEq] at hr
        subst hr
        simp only [List.nil_append]
        unfold Inv at hinv
        simp only [hw] at hinv
        obtain ⟨dr, hdr, ys, b, hys, hbw, hd⟩ := hinv
        refine ih _ (tag :: stI) stO stI' rest ?_ hb hrest
        unfold Inv
        by_cases ht : (tag.text == w.text) = true
        · simp only [ht, ↓reduceIte, hw]
          refine ⟨tag :: dr, by simp [hdr], tag :: ys, b, by simp [hys], hbw, ?_⟩
          simp [List.countP_cons, ht, hd]
        · simp only [ht, Bool.false_eq_true, ↓reduceIte, hw]
          refine ⟨tag :: dr, by simp [hdr], tag :: ys, b, by simp [hys], hbw, ?_⟩
          simp [List.countP_cons, ht, hd]
      | none =>
        simp only [hw] at hr
        unfold Inv at hinv
        simp only [hw] at hinv
        subst hinv
        by_cases hsafe : isSafeElem cfg tag attrs = true
        · obtain ⟨as, has⟩ := sanAttrs_ok cfg attrs
          simp [hsafe, has] at hr; subst hr
          simp only [List.cons_append, List.nil_append, balance]
          refine ih _ (tag :: stI) (tag :: stI) stI' rest ?_ hb hrest
          unfold Inv; simp [hw]
        · simp [hsafe] at hr; subst hr
          simp only [List.nil_append]
          refine ih _ (tag :: stI) stI stI' rest ?_ hb hrest
          unfold Inv
          exact ⟨[tag], by simp, [], tag, by simp, by simp, by simp⟩
    | end_ tag =>
      cases stI with
      | nil => simp [balance] at hb
      | cons t' stI0 =>
        simp only [balance] at hb
        by_cases htt : tag = t'
        · subst htt
          simp only [↓reduceIte] at hb
          unfold step at hr
          cases hw : st.waiting with
          | some w =>
            simp only [hw] at hr
            unfold Inv at hinv
            simp only [hw] at hinv
            obtain ⟨dr, hdr, ys, b, hys, hbw, hd⟩ := hinv
            subst hys
            cases ys with
            | nil =>
              simp at hdr
              obtain ⟨rfl, rfl⟩ := hdr
              have hwt : (w.text == tag.text) = true := by
                have : tag.text = w.text := by simpa using hbw
                simp [this]
              simp at hd
              simp [hwt, hd] at hr; subst hr
              simp only [List.nil_append]
              exact ih _ stI0 stI0 stI' rest (by unfold Inv; rfl) hb hrest
            | cons y ys' =>
              simp at hdr
              obtain ⟨rfl, rfl⟩ := hdr
              by_cases hwt : (w.text == tag.text) = true
              · have hcnt : (tag.text == w.text) = true := by
                  have : w.text = tag.text := by simpa using hwt
                  simp [this]
                simp [List.countP_cons, hcnt] at hd
                simp [hwt, hd] at hr; subst hr
                simp only [List.nil_append]
                refine ih _ _ stO stI' rest ?_ hb hrest
                unfold Inv
                simp only [hw]
                exact ⟨ys' ++ [b], by simp, ys', b, rfl, hbw, by simp⟩
              · have hcnt : (tag.text == w.text) = false := by
                  cases hq : (tag.text == w.text) with
                  | false => rfl
                  | true =>
                    have : tag.text = w.text := by simpa using hq
                    simp [this] at hwt
                simp [List.countP_cons, hcnt] at hd
                simp [hwt] at hr; subst hr
                simp only [List.nil_append]
                refine ih _ _ stO stI' rest ?_ hb hrest
                unfold Inv
                simp only [hw]
                exact ⟨ys' ++ [b], by simp, ys', b, rfl, hbw, hd⟩
          | none =>
            simp [hw] at hr; subst hr
            unfold Inv at hinv
            simp only [hw] at hinv
            subst hinv
            simp only [List.cons_append, List.nil_append, balance, ↓reduceIte]
            exact ih _ stI0 stI0 stI' rest (by unfold Inv; simp [hw]) hb hrest
        · simp [htt] at hb
    | comment c =>
      simp [step] at hr; subst hr
      rw [balance_skip _ (by simp [Event.isStartEnd])] at hb
      simp only [List.nil_append]
      exact ih _ stI stO stI' rest hinv hb hrest
    | text s f =>
      simp [step] at hr; subst hr
      rw [balance_skip _ (by simp [Event.isStartEnd])] at hb
      cases hw : st.waiting with
      | some w => simp; exact ih _ stI stO stI' rest hinv hb hrest
      | none =>
        simp; rw [balance_skip _ (by simp [Event.isStartEnd])]
        exact ih _ stI stO stI' rest hinv hb hrest
    | pi t d =>
      unfold step at hr
      rw [balance_skip _ (by simp [Event.isStartEnd])] at hb
      by_cases hgt : (List.contains t '>' || List.contains d '>') = true
      · simp only [hgt, ↓reduceIte, pure_eq_ok, Except.ok.injEq] at hr
        subst hr
        simp only [List.nil_append]
        exact ih _ stI stO stI' rest hinv hb hrest
      · simp only [hgt, Bool.false_eq_true, ↓reduceIte, pure_eq_ok, Except.ok.injEq] at hr
        subst hr
        cases hw : st.waiting with
        | some w => simp; exact ih _ stI stO stI' rest hinv hb hrest
        | none =>
          simp; rw [balance_skip _ (by simp [Event.isStartEnd])]
          exact ih _ stI stO stI' rest hinv hb hrest
    | doctype n p s =>
      unfold step at hr
      rw [balance_skip _ (by simp [Event.isStartEnd])] at hb
      by_cases hgt : dtHasGt n p s = true
      · simp only [hgt, ↓reduceIte, pure_eq_ok, Except.ok.injEq] at hr
        subst hr
        simp only [List.nil_append]
        exact ih _ stI stO stI' rest hinv hb hrest
      · simp only [hgt, Bool.false_eq_true, ↓reduceIte, pure_eq_ok, Except.ok.injEq] at hr
        subst hr
        cases hw : st.waiting with
        | some w => simp; exact ih _ stI stO stI' rest hinv hb hrest
        | none =>
          simp; rw [balance_skip _ (by simp [Event.isStartEnd])]
          exact ih _ stI stO stI' rest hinv hb hrest
    | xmlDecl v e s =>
      simp [step] at hr; subst hr
      rw [balance_skip _ (by simp [Event.isStartEnd])] at hb
      cases hw : st.waiting with
      | some w => simp; exact ih _ stI stO stI' rest hinv hb hrest
      | none =>
        simp; rw [balance_skip _ (by simp [Event.isStartEnd])]
        exact ih _ stI stO stI' rest hinv hb hrest
    | startNs p u =>
      simp [step] at hr; subst hr
      rw [balance_skip _ (by simp [Event.isStartEnd])] at hb
      cases hw : st.waiting with
      | some w => simp; exact ih _ stI stO stI' rest hinv hb hrest
      | none =>
        simp; rw [balance_skip _ (by simp [Event.isStartEnd])]
        exact ih _ stI stO stI' rest hinv hb hrest
    | endNs p =>
      simp [step] at hr; subst hr
      rw [balance_skip _ (by simp [Event.isStartEnd])] at hb
      cases hw : st.waiting with
      | some w => simp; exact ih _ stI stO stI' rest hinv hb hrest
      | none =>
        simp; rw [balance_skip _ (by simp [Event.isStartEnd])]
        exact ih _ stI stO stI' rest hinv hb hrest
    | startCdata =>
      simp [step] at hr; subst hr
      rw [balance_skip _ (by simp [Event.isStartEnd])] at hb
      simp only [List.nil_append]
      exact ih _ stI stO stI' rest hinv hb hrest
    | endCdata =>
      simp [step] at hr; subst hr
      rw [balance_skip _ (by simp [Event.isStartEnd])] at hb
      simp only [List.nil_append]
      exact ih _ stI stO stI' rest hinv hb hrest

/-- a well-nested input gives a well-nested output, and the filter ends outside any dropped element -/
theorem wellNested_sanitize {cfg : Cfg} {s o : Stream} (hs : WellNested s)
    (h : sanitize cfg s = .ok o) : WellNested o := by
  obtain ⟨st', stO', hb, hinv⟩ := nest_inv cfg s St.init [] [] [] o inv_init hs h
  unfold Inv at hinv
  cases hw : st'.waiting with
  | none => simp only [hw] at hinv; subst hinv; exact hb
  | some w =>
    simp only [hw] at hinv
    obtain ⟨dr, hdr, ys, b, hys, _, _⟩ := hinv
    subst hys; simp at hdr

end Genshi.San

/-
  SimplePathStrategy = GenericStrategy, event by event, on `descendant::t1/…/tn` and
  `descendant-or-self::t1/…/tn` (the fragment that is matched with KMP).
-/
import Genshi.Lemmas.PathKmpStep
import Genshi.Lemmas.PathAbstract
import Genshi.Lemmas.PathXp
import Genshi.Lemmas.PathSimple
namespace Genshi.Path.Kmp
open Genshi Genshi.Path

section
variable (ns : NsMap) (vs : Vars)

/-- no step after the first is on the self / descendant-or-self axis -/
def PlainNext (S : List Step) : Prop :=
  ∀ x s, S[x + 1]? = some s → s.axis = .child ∨ s.axis = .descendant

/-- the loop of the position machine on such a step list: what it hands down and whether it
    matched, as sets -/
theorem aLoop_plain (S : List Step) (hpl : PlainNext S) (e : Event) :
    ∀ (Q : List AEntry) (fuel : Nat) (a : AAcc), Q.length ≤ fuel → (∀ en ∈ Q, en.1 < S.length) →
      (∀ y, y ∈ (aLoop ns vs S S.length e fuel Q a).nextPos ↔
        (y ∈ a.nextPos ∨ ∃ en ∈ Q, ∃ s, S[en.1]? = some s ∧
          ((y = en.1 ∧ isDescLike s.axis = true ∧ en.2 = true) ∨
           (y = en.1 + 1 ∧ hitE ns vs s e = true ∧ en.1 + 1 ≠ S.length)))) ∧
      ((aLoop ns vs S S.length e fuel Q a).matched =
        (a.matched || Q.any fun en => match S[en.1]? with
          | some s => hitE ns vs s e && (en.1 + 1 == S.length)
          | none => false)) := by
  intro Q
  induction Q with
  | nil =>
    intro fuel a _ _
    cases fuel <;> simp [aLoop]
  | cons en q ih =>
    intro fuel a hfuel hb
    obtain ⟨x, fp⟩ := en
    obtain ⟨f, rfl⟩ : ∃ f, fuel = f + 1 := ⟨fuel - 1, by simp at hfuel; omega⟩
    have hx : x < S.length := hb (x, fp) List.mem_cons_self
    obtain ⟨s, hs⟩ : ∃ s, S[x]? = some s := ⟨S[x], List.getElem?_eq_getElem hx⟩
    have hq : ∀ en ∈ q, en.1 < S.length := fun en hen => hb en (List.mem_cons_of_mem _ hen)
    have hfq : q.length ≤ f := by simp at hfuel; omega
    simp only [aLoop, hs]
    -- membership in the inherited part
    have hN1 : ∀ y, y ∈ (if (isDescLike s.axis && fp) = true then pushDescA a.nextPos x else a.nextPos) ↔
        (y ∈ a.nextPos ∨ (y = x ∧ isDescLike s.axis = true ∧ fp = true)) := by
      intro y
      by_cases hc : (isDescLike s.axis && fp) = true
      · simp only [hc, if_true, pushDescA_mem]
        simp only [Bool.and_eq_true] at hc
        constructor
        · rintro (h | h)
          · exact Or.inl h
          · exact Or.inr ⟨h, hc.1, hc.2⟩
        · rintro (h | ⟨h, _, _⟩)
          · exact Or.inl h
          · exact Or.inr h
      · simp only [hc, Bool.false_eq_true, if_false]
        constructor
        · exact Or.inl
        · rintro (h | ⟨_, h1, h2⟩)
          · exact h
          · simp [h1, h2] at hc
    by_cases hh : hitE ns vs s e = true
    · simp only [hh, Bool.not_true, Bool.false_eq_true, if_false]
      by_cases hl : (x + 1 == S.length) = true
      · simp only [hl, if_true]
        obtain ⟨i1, i2⟩ := ih f ⟨_, true⟩ hfq hq
        have hxl : x + 1 = S.length := by simpa using hl
        refine ⟨fun y => ?_, ?_⟩
        · rw [i1 y]
          simp only [hN1 y, List.mem_cons, exists_eq_or_imp, hs, Option.some.injEq, exists_eq_left']
          constructor
          · rintro ((h | h) | h)
            · exact Or.inl h
            · exact Or.inr (Or.inl (Or.inl h))
            · exact Or.inr (Or.inr h)
          · rintro (h | (h | ⟨_, _, h⟩) | h)
            · exact Or.inl (Or.inl h)
            · exact Or.inl (Or.inr h)
            · exact absurd hxl h
            · exact Or.inr h
        · rw [i2]; simp [hs, hh, hl]
      · simp only [hl, Bool.false_eq_true, if_false]
        have hxl : x + 1 ≠ S.length := by simpa using hl
        have hx1 : x + 1 < S.length := by omega
        obtain ⟨s', hs'⟩ : ∃ s', S[x + 1]? = some s' := ⟨S[x + 1], List.getElem?_eq_getElem hx1⟩
        have hax := hpl x s' hs'
        have h1 : ((S[x + 1]?.map Step.axis).getD .child == Axis.descendantOrSelf ||
            (S[x + 1]?.map Step.axis).getD .child == Axis.self) = false := by
          rcases hax with h | h <;> simp [hs', h]
        have h2 : ((S[x + 1]?.map Step.axis).getD .child != Axis.self) = true := by
          rcases hax with h | h <;> simp [hs', h]
        simp only [h1, h2, Bool.false_eq_true, if_false, if_true]
        obtain ⟨i1, i2⟩ := ih f ⟨_, a.matched⟩ hfq hq
        refine ⟨fun y => ?_, ?_⟩
        · rw [i1 y]
          simp only [List.mem_append, hN1 y, List.mem_cons, List.not_mem_nil, or_false, exists_eq_or_imp, hs,
            Option.some.injEq, exists_eq_left']
          constructor
          · rintro (((h | h) | h) | h)
            · exact Or.inl h
            · exact Or.inr (Or.inl (Or.inl h))
            · exact Or.inr (Or.inl (Or.inr ⟨h, hh, hxl⟩))
            · exact Or.inr (Or.inr h)
          · rintro (h | (h | ⟨h, _, _⟩) | h)
            · exact Or.inl (Or.inl (Or.inl h))
            · exact Or.inl (Or.inl (Or.inr h))
            · exact Or.inl (Or.inr h)
            · exact Or.inr h
        · rw [i2]; simp [hs, hh, hl]
    · have hh' : hitE ns vs s e = false := by simpa using hh
      simp only [hh', Bool.not_false, if_true]
      obtain ⟨i1, i2⟩ := ih f ⟨_, a.matched⟩ hfq hq
      refine ⟨fun y => ?_, ?_⟩
      · rw [i1 y]
        simp only [hN1 y, List.mem_cons, exists_eq_or_imp, hs, Option.some.injEq, exists_eq_left', hh',
          Bool.false_eq_true, false_and, and_false, or_false]
        constructor
        · rintro ((h | h) | h)
          · exact Or.inl h
          · exact Or.inr (Or.inl h)
          · exact Or.inr (Or.inr h)
        · rintro (h | h | h)
          · exact Or.inl (Or.inl h)
          · exact Or.inl (Or.inr h)
          · exact Or.inr h
      · rw [i2]; simp [hs, hh']

/-! ## The fragment as a step list -/

/-- the positions of the fragment inside GenericStrategy's step list: first test at `base`
    on a descendant-like axis, the others on the child axis -/
structure FragAt (S : List Step) (base : Nat) (tests : List NodeTest) : Prop where
  len : S.length = base + tests.length
  first : ∃ ax, isDescLike ax = true ∧ S[base]? = some ⟨ax, Fof tests 0, []⟩
  others : ∀ i, 1 ≤ i → i < tests.length → S[base + i]? = some ⟨.child, Fof tests i, []⟩
  plain : PlainNext S
  rl : realLen S = S.length

/-- the candidate positions of GenericStrategy below a chain of ancestors: the start of the
    fragment (it can start anywhere), and one position per prefix that matches the end of
    the chain -/
def PosOK (base : Nat) (tests : List NodeTest) (rw : List Event) (P : List Nat) : Prop :=
  ∀ x, x ∈ P ↔ (x = base ∨ (base < x ∧ x < base + tests.length ∧
    Suf (Fof tests) tests.length (textOf ns rw) rw.length (x - base)))

theorem hitE_nopreds (ax : Axis) (t : NodeTest) (e : Event) : hitE ns vs ⟨ax, t, []⟩ e = t.matches e ns := by
  simp [hitE]

variable (S : List Step) (base : Nat) (tests : List NodeTest)

theorem FragAt.get (h : FragAt S base tests) (i : Nat) (hi : i < tests.length) :
    ∃ ax, (i = 0 → isDescLike ax = true) ∧ (1 ≤ i → ax = .child) ∧
      S[base + i]? = some ⟨ax, Fof tests i, []⟩ := by
  by_cases h0 : i = 0
  · subst h0
    obtain ⟨ax, ha, hg⟩ := h.first
    exact ⟨ax, fun _ => ha, fun h1 => by omega, by simpa using hg⟩
  · exact ⟨.child, fun h1 => absurd h1 h0, fun _ => rfl, h.others i (by omega) hi⟩

/-- one event for GenericStrategy's position machine -/
theorem visitA (hne : tests ≠ []) (h : FragAt S base tests) (Fu : Nat) (rw : List Event) (P : List Nat)
    (A : AState) (hP : PosOK ns base tests rw P) (e : Event) (he : e.isEnd = false) (hm : e.isNsOrCdata = false) :
    ∃ (N : List Nat) (m : Bool),
      aStep ns vs S Fu (P :: A) e = (if e.isStart then N :: P :: A else P :: A, if m then .bool true else .none) ∧
      PosOK ns base tests (e :: rw) N ∧
      (m = true ↔ Suf (Fof tests) tests.length (textOf ns (e :: rw)) (rw.length + 1) tests.length) := by
  have hn : 0 < tests.length := by cases tests <;> simp_all
  have hbound : ∀ en ∈ P.map (fun x => ((x, true) : AEntry)), en.1 < S.length := by
    intro en hen
    simp only [List.mem_map] at hen
    obtain ⟨x, hx, rfl⟩ := hen
    rw [h.len]
    rcases (hP x).mp hx with h1 | ⟨_, h2, _⟩ <;> simp only <;> omega
  obtain ⟨i1, i2⟩ := aLoop_plain ns vs S h.plain e (P.map fun x => ((x, true) : AEntry))
    (2 * Fu + (P.map fun x => ((x, true) : AEntry)).length + 2) ⟨[], false⟩ (by omega) hbound
  simp only [List.length_map] at i1 i2
  refine ⟨(aLoop ns vs S S.length e (2 * Fu + P.length + 2) (P.map fun x => ((x, true) : AEntry)) ⟨[], false⟩).nextPos,
    (aLoop ns vs S S.length e (2 * Fu + P.length + 2) (P.map fun x => ((x, true) : AEntry)) ⟨[], false⟩).matched,
    by simp [aStep, he, hm, h.rl], ?_, ?_⟩
  · -- the positions handed down
    have i1' : ∀ y, y ∈ (aLoop ns vs S S.length e (2 * Fu + P.length + 2) (P.map fun x => ((x, true) : AEntry))
          ⟨[], false⟩).nextPos ↔
        ∃ x ∈ P, ∃ s, S[x]? = some s ∧
          ((y = x ∧ isDescLike s.axis = true) ∨ (y = x + 1 ∧ hitE ns vs s e = true ∧ x + 1 ≠ S.length)) := by
      intro y
      rw [i1 y]
      constructor
      · rintro (h | ⟨en, hen, s, hs, hc⟩)
        · simp at h
        · obtain ⟨x, hx, rfl⟩ := List.mem_map.mp hen
          exact ⟨x, hx, s, hs, by simpa using hc⟩
      · rintro ⟨x, hx, s, hs, hc⟩
        exact Or.inr ⟨(x, true), List.mem_map_of_mem hx, s, hs, by simpa using hc⟩
    intro y
    rw [i1' y]
    simp only [List.length_cons]
    rw [textOf_cons]
    constructor
    · rintro ⟨x, hx, s, hs, hcase⟩
      rcases (hP x).mp hx with rfl | ⟨hx1, hx2, hx3⟩
      · -- x = base
        obtain ⟨ax, ha, _, hg⟩ := h.get S x tests 0 hn
        simp only [Nat.add_zero] at hg
        rw [hg] at hs; cases hs
        rcases hcase with ⟨rfl, _⟩ | ⟨rfl, hh, hl⟩
        · exact Or.inl rfl
        · refine Or.inr ⟨by omega, by rw [h.len] at hl; omega, ?_⟩
          have : x + 1 - x = 0 + 1 := by omega
          rw [this, Suf_push]
          rw [hitE_nopreds] at hh
          exact ⟨hn, hh, Suf.zero _ _ _ _⟩
      · obtain ⟨ax, _, ha, hg⟩ := h.get S base tests (x - base) (by omega)
        have hxe : base + (x - base) = x := by omega
        rw [hxe] at hg
        rw [hg] at hs; cases hs
        have hax : ax = .child := ha (by omega)
        subst hax
        rcases hcase with ⟨_, hd⟩ | ⟨rfl, hh, hl⟩
        · simp [isDescLike] at hd
        · refine Or.inr ⟨by omega, by rw [h.len] at hl; omega, ?_⟩
          have : x + 1 - base = (x - base) + 1 := by omega
          rw [this, Suf_push]
          rw [hitE_nopreds] at hh
          exact ⟨by omega, hh, hx3⟩
    · rintro (rfl | ⟨hy1, hy2, hy3⟩)
      · obtain ⟨ax, ha, _, hg⟩ := h.get S y tests 0 hn
        simp only [Nat.add_zero] at hg
        exact ⟨y, (hP y).mpr (Or.inl rfl), _, hg, Or.inl ⟨rfl, ha rfl⟩⟩
      · obtain ⟨b, hb⟩ : ∃ b, y - base = b + 1 := ⟨y - base - 1, by omega⟩
        rw [hb, Suf_push] at hy3
        obtain ⟨g1, g2, g3⟩ := hy3
        obtain ⟨ax, _, _, hg⟩ := h.get S base tests b g1
        refine ⟨base + b, (hP _).mpr ?_, _, hg, Or.inr ⟨by omega, by rw [hitE_nopreds]; exact g2, by rw [h.len]; omega⟩⟩
        by_cases hb0 : b = 0
        · exact Or.inl (by omega)
        · refine Or.inr ⟨by omega, by omega, ?_⟩
          have : base + b - base = b := by omega
          rw [this]; exact g3
  · -- matched
    rw [i2, textOf_cons]
    simp only [Bool.false_or, List.any_map, List.any_eq_true, Function.comp]
    obtain ⟨b, hb⟩ : ∃ b, tests.length = b + 1 := ⟨tests.length - 1, by omega⟩
    rw [hb, Suf_push, ← hb]
    constructor
    · rintro ⟨x, hx, hcase⟩
      have hxl : x < S.length := hbound (x, true) (List.mem_map_of_mem hx)
      obtain ⟨s, hs⟩ : ∃ s, S[x]? = some s := ⟨S[x], List.getElem?_eq_getElem hxl⟩
      simp only [hs, Bool.and_eq_true, beq_iff_eq] at hcase
      have hxb : x = base + b := by rw [h.len] at hcase; omega
      rcases (hP x).mp hx with h1 | ⟨hx1, hx2, hx3⟩
      · have hb0 : b = 0 := by omega
        obtain ⟨ax, _, _, hg⟩ := h.get S base tests 0 hn
        simp only [Nat.add_zero] at hg
        rw [h1, hg] at hs; cases hs
        subst hb0
        rw [hitE_nopreds] at hcase
        exact ⟨by omega, hcase.1, Suf.zero _ _ _ _⟩
      · obtain ⟨ax, _, _, hg⟩ := h.get S base tests b (by omega)
        rw [← hxb, hs] at hg; cases hg
        rw [hitE_nopreds] at hcase
        have : x - base = b := by omega
        rw [this] at hx3
        exact ⟨by omega, hcase.1, hx3⟩
    · rintro ⟨g1, g2, g3⟩
      obtain ⟨ax, _, _, hg⟩ := h.get S base tests b (by omega)
      refine ⟨base + b, (hP _).mpr ?_, ?_⟩
      · by_cases hb0 : b = 0
        · exact Or.inl (by omega)
        · refine Or.inr ⟨by omega, by omega, ?_⟩
          have : base + b - base = b := by omega
          rw [this]; exact g3
      · simp only [hg, hitE_nopreds, g2, Bool.true_and, beq_iff_eq]
        rw [h.len]; omega

/-- one event for SimplePathStrategy -/
theorem visitS (hne : tests ≠ []) (hs : Simple (Fof tests) tests.length) (sb ic0 : Bool) (rw : List Event) (p : Nat)
    (rest : PState) (hp : IsMax (Fof tests) tests.length (textOf ns rw) rw.length p) (e : Event)
    (he : e.isEnd = false) (hm : e.isNsOrCdata = false) :
    ∃ (p' : Nat) (m : Bool),
      pStep (some (frags2 tests sb)) ic0 ns (⟨some (1, p), true⟩ :: rest) e
        = ((if e.isStart then ⟨some (1, p'), true⟩ :: ⟨some (1, p), true⟩ :: rest else ⟨some (1, p), true⟩ :: rest),
           if m then .bool true else .none) ∧
      IsMax (Fof tests) tests.length (textOf ns (e :: rw)) (rw.length + 1) p' ∧
      (m = true ↔ Suf (Fof tests) tests.length (textOf ns (e :: rw)) (rw.length + 1) tests.length) := by
  have hmax := kmpStep_max ns ⟨tests, calculatePi tests, none, sb⟩ hne hs rfl rw p hp e
  refine ⟨kmpStep ns ⟨tests, calculatePi tests, none, sb⟩ p e,
    kmpStep ns ⟨tests, calculatePi tests, none, sb⟩ p e == tests.length,
    pStep_kmp ns tests sb ic0 p rest e he hm, hmax, ?_⟩
  simp only [beq_iff_eq]
  constructor
  · intro h; have := hmax.1; rw [h] at this; exact this
  · intro h
    have h1 := hmax.2 _ h
    have h2 := hmax.1.1
    simp only at h1 h2
    omega

mutual
  /-- below a chain of ancestors the two matchers report the same at every event -/
  theorem kmp_tree (hne : tests ≠ []) (hs : Simple (Fof tests) tests.length) (hS : FragAt S base tests)
      (sb ic0 : Bool) (Fu : Nat) :
      ∀ (n : Node), n.clean = true → ∀ (rw : List Event) (p : Nat) (P : List Nat) (rest : PState) (A : AState),
        IsMax (Fof tests) tests.length (textOf ns rw) rw.length p → PosOK ns base tests rw P →
        (runOne (pStep (some (frags2 tests sb)) ic0 ns) (⟨some (1, p), true⟩ :: rest) n.flatten).1
          = (runOne (aStep ns vs S Fu) (P :: A) n.flatten).1 ∧
        (runOne (pStep (some (frags2 tests sb)) ic0 ns) (⟨some (1, p), true⟩ :: rest) n.flatten).2
          = ⟨some (1, p), true⟩ :: rest ∧
        (runOne (aStep ns vs S Fu) (P :: A) n.flatten).2 = P :: A
    | .elem tg ats ks, hcl, rw, p, P, rest, A, hp, hP => by
        obtain ⟨p', m, e1, e2, e3⟩ := visitS ns tests hne hs sb ic0 rw p rest hp (.start tg ats) rfl rfl
        obtain ⟨N, m', f1, f2, f3⟩ := visitA ns vs S base tests hne hS Fu rw P A hP (.start tg ats) rfl rfl
        simp only [Event.isStart, if_true] at e1 f1
        have hk := kmp_treeList hne hs hS sb ic0 Fu ks (by simpa [Node.clean] using hcl) (.start tg ats :: rw) p' N
          (⟨some (1, p), true⟩ :: rest) (P :: A) e2 f2
        have hmm : m = m' := by
          cases m <;> cases m' <;> simp_all
        simp only [Node.flatten, runOne_cons, runOne_append, e1, f1, hk.1, hk.2.1, hk.2.2, hmm]
        simp [runOne, pStep, aStep, Event.isEnd]
    | .leaf e, hcl, rw, p, P, rest, A, hp, hP => by
        simp only [Node.clean, Bool.and_eq_true, Bool.not_eq_true'] at hcl
        obtain ⟨hend, hstart⟩ := isEnd_of_not_startEnd hcl.1
        obtain ⟨p', m, e1, e2, e3⟩ := visitS ns tests hne hs sb ic0 rw p rest hp e hend hcl.2
        obtain ⟨N, m', f1, f2, f3⟩ := visitA ns vs S base tests hne hS Fu rw P A hP e hend hcl.2
        simp only [hstart, Bool.false_eq_true, if_false] at e1 f1
        have hmm : m = m' := by
          cases m <;> cases m' <;> simp_all
        simp only [Node.flatten, runOne, e1, f1, hmm]
        exact ⟨trivial, trivial, trivial⟩
  theorem kmp_treeList (hne : tests ≠ []) (hs : Simple (Fof tests) tests.length) (hS : FragAt S base tests)
      (sb ic0 : Bool) (Fu : Nat) :
      ∀ (ks : List Node), cleanList ks = true → ∀ (rw : List Event) (p : Nat) (P : List Nat) (rest : PState)
        (A : AState),
        IsMax (Fof tests) tests.length (textOf ns rw) rw.length p → PosOK ns base tests rw P →
        (runOne (pStep (some (frags2 tests sb)) ic0 ns) (⟨some (1, p), true⟩ :: rest) (flattenList ks)).1
          = (runOne (aStep ns vs S Fu) (P :: A) (flattenList ks)).1 ∧
        (runOne (pStep (some (frags2 tests sb)) ic0 ns) (⟨some (1, p), true⟩ :: rest) (flattenList ks)).2
          = ⟨some (1, p), true⟩ :: rest ∧
        (runOne (aStep ns vs S Fu) (P :: A) (flattenList ks)).2 = P :: A
    | [], _, _, _, _, _, _, _, _ => by simp [Genshi.flattenList, runOne]
    | k :: ks, hcl, rw, p, P, rest, A, hp, hP => by
        simp only [cleanList, Bool.and_eq_true] at hcl
        have h1 := kmp_tree hne hs hS sb ic0 Fu k hcl.1 rw p P rest A hp hP
        have h2 := kmp_treeList hne hs hS sb ic0 Fu ks hcl.2 rw p P rest A hp hP
        simp only [Genshi.flattenList, runOne_append, h1.1, h1.2.1, h1.2.2, h2.1, h2.2.1, h2.2.2]
        exact ⟨trivial, trivial, trivial⟩
end

end

/-! ## The two paths -/

/-- `ax0::t1/child::t2/…/child::tn` -/
def fragPath (ax0 : Axis) (tests : List NodeTest) : LocPath :=
  match tests with
  | [] => []
  | t0 :: ts => ⟨ax0, t0, []⟩ :: childChain ts

theorem fragLoop_chain' (ts : List NodeTest) (frags : List Frag) (acc : List NodeTest) (sb : Bool) :
    fragLoop (childChain ts) frags acc sb = some (frags ++ [⟨acc ++ ts, calculatePi (acc ++ ts), none, sb⟩]) := by
  induction ts generalizing acc with
  | nil => simp [childChain, fragLoop]
  | cons t ts ih =>
    simp only [childChain, List.map_cons, fragLoop]
    have := ih (acc ++ [t])
    simp only [childChain] at this
    rw [this]
    simp

theorem fragments_desc (tests : List NodeTest) (hne : tests ≠ []) :
    fragments (fragPath .descendant tests) = some (frags2 tests false) := by
  cases tests with
  | nil => exact absurd rfl hne
  | cons t0 ts =>
    simp only [fragments, fragPath, fragLoop, List.nil_append, fragLoop_chain', frags2, calculatePi]
    simp

theorem fragments_dos (tests : List NodeTest) (hne : tests ≠ []) :
    fragments (fragPath .descendantOrSelf tests) = some (frags2 tests true) := by
  cases tests with
  | nil => exact absurd rfl hne
  | cons t0 ts =>
    simp only [fragments, fragPath, fragLoop, List.nil_append, fragLoop_chain', frags2, calculatePi]
    simp

theorem Fof_cons_zero (t0 : NodeTest) (ts : List NodeTest) : Fof (t0 :: ts) 0 = t0 := rfl

theorem Fof_cons_succ (t0 : NodeTest) (ts : List NodeTest) (i : Nat) : Fof (t0 :: ts) (i + 1) = Fof ts i := by
  simp [Fof, List.getD]

theorem fragAt_desc (tests : List NodeTest) (hne : tests ≠ []) :
    FragAt (dotSlash :: fragPath .descendant tests) 1 tests := by
  cases tests with
  | nil => exact absurd rfl hne
  | cons t0 ts =>
    refine ⟨by simp [fragPath, childChain]; omega, ⟨.descendant, rfl, by simp [fragPath, Fof_cons_zero]⟩, ?_, ?_, ?_⟩
    · intro i h1 hi
      obtain ⟨j, rfl⟩ : ∃ j, i = j + 1 := ⟨i - 1, by omega⟩
      have hj : j < ts.length := by simp at hi; omega
      simp only [fragPath, childChain]
      have : 1 + (j + 1) = (j + 1) + 1 := by omega
      rw [this, List.getElem?_cons_succ, List.getElem?_cons_succ, List.getElem?_map, Fof_cons_succ,
        getElem?_Fof ts j hj]
      rfl
    · intro x s hx
      cases x with
      | zero =>
        simp [fragPath] at hx
        subst hx; exact Or.inr rfl
      | succ x =>
        simp only [fragPath, childChain, List.getElem?_cons_succ, List.getElem?_map] at hx
        cases hg : ts[x]? with
        | none => simp [hg] at hx
        | some t => simp [hg] at hx; subst hx; exact Or.inl rfl
    · simp [realLen, fragPath, childChain]
      cases hl : (ts.map fun t => (⟨.child, t, []⟩ : Step)).getLast? with
      | none => simp [List.getLast?_cons, hl]
      | some l =>
        have : l.axis = .child := by
          simp only [List.getLast?_map] at hl
          cases hg : ts.getLast? <;> simp [hg] at hl
          rw [← hl]
        simp [List.getLast?_cons, hl, this]

theorem fragAt_dos (tests : List NodeTest) (hne : tests ≠ []) :
    FragAt (fragPath .descendantOrSelf tests) 0 tests := by
  cases tests with
  | nil => exact absurd rfl hne
  | cons t0 ts =>
    refine ⟨by simp [fragPath, childChain], ⟨.descendantOrSelf, rfl, by simp [fragPath, Fof_cons_zero]⟩, ?_, ?_, ?_⟩
    · intro i h1 hi
      obtain ⟨j, rfl⟩ : ∃ j, i = j + 1 := ⟨i - 1, by omega⟩
      have hj : j < ts.length := by simp at hi; omega
      simp only [fragPath, childChain]
      have : 0 + (j + 1) = j + 1 := by omega
      rw [this, List.getElem?_cons_succ, List.getElem?_map, Fof_cons_succ, getElem?_Fof ts j hj]
      rfl
    · intro x s hx
      simp only [fragPath, childChain, List.getElem?_cons_succ, List.getElem?_map] at hx
      cases hg : ts[x]? with
      | none => simp [hg] at hx
      | some t => simp [hg] at hx; subst hx; exact Or.inl rfl
    · simp [realLen, fragPath, childChain]
      cases hl : (ts.map fun t => (⟨.child, t, []⟩ : Step)).getLast? with
      | none => simp [List.getLast?_cons, hl]
      | some l =>
        have : l.axis = .child := by
          simp only [List.getLast?_map] at hl
          cases hg : ts.getLast? <;> simp [hg] at hl
          rw [← hl]
        simp [List.getLast?_cons, hl, this]

section
variable (ns : NsMap) (vs : Vars)

theorem isMax_nil (tests : List NodeTest) : IsMax (Fof tests) tests.length (textOf ns []) ([] : List Event).length 0 :=
  ⟨Suf.zero _ _ _ _, fun b hb => hb.2.1⟩

/-- `descendant::t1/…/tn`: SimplePathStrategy and the position machine of GenericStrategy
    report the same at every event of an element tree -/
theorem kmp_run_desc (tests : List NodeTest) (hne : tests ≠ []) (hs : Simple (Fof tests) tests.length) (Fu : Nat)
    (tag : QName) (attrs : AttrList) (kids : List Node) (hcl : cleanList kids = true) :
    (runOne (pStep (some (frags2 tests false)) false ns) [] (Node.elem tag attrs kids).flatten).1
      = (runOne (aStep ns vs (dotSlash :: fragPath .descendant tests) Fu) [[0]] (Node.elem tag attrs kids).flatten).1 := by
  have hS := fragAt_desc tests hne
  have hn : 0 < tests.length := by cases tests <;> simp_all
  have hS0 : (dotSlash :: fragPath .descendant tests)[0]? = some dotSlash := rfl
  generalize dotSlash :: fragPath .descendant tests = S at hS hS0 ⊢
  have hlen : S.length = 1 + tests.length := hS.len
  -- the context node
  obtain ⟨i1, i2⟩ := aLoop_plain ns vs S hS.plain (.start tag attrs)
    [((0, true) : AEntry)] (2 * Fu + 1 + 2) ⟨[], false⟩ (by simp) (by simp; omega)
  have hm : (aLoop ns vs S S.length (.start tag attrs) (2 * Fu + 1 + 2) [((0, true) : AEntry)] ⟨[], false⟩).matched
      = false := by
    rw [i2]
    have : (0 + 1 == S.length) = false := by simp; omega
    simp [hS0, this]
  have hroot : aStep ns vs S Fu [[0]] (.start tag attrs)
      = ((aLoop ns vs S S.length (.start tag attrs) (2 * Fu + 1 + 2) [((0, true) : AEntry)] ⟨[], false⟩).nextPos
          :: [[0]], .none) := by
    simp [aStep, Event.isEnd, Event.isNsOrCdata, Event.isStart, hS.rl, hm]
  have hP : PosOK ns 1 tests [] (aLoop ns vs S S.length (.start tag attrs) (2 * Fu + 1 + 2) [((0, true) : AEntry)]
      ⟨[], false⟩).nextPos := by
    intro y
    rw [i1 y]
    simp only [List.not_mem_nil, false_or, List.mem_singleton, exists_eq_left, hS0,
      Option.some.injEq, exists_eq_left', List.length_nil]
    constructor
    · rintro (⟨_, hd, _⟩ | ⟨rfl, _, _⟩)
      · simp [dotSlash, isDescLike] at hd
      · exact Or.inl rfl
    · rintro (rfl | ⟨h1, _, h3⟩)
      · refine Or.inr ⟨rfl, by simp [dotSlash, hitE, NodeTest.matches, NodeTest.apply, Val.truthy], ?_⟩
        omega
      · have := h3.2.1; omega
  have hk := kmp_treeList ns vs S 1 tests hne hs hS false false Fu kids hcl
    [] 0 _ [] [[0]] (isMax_nil ns tests) hP
  simp only [Node.flatten, runOne_cons, runOne_append]
  rw [pStep_kmp_root_desc ns tests hne (.start tag attrs) rfl rfl, hroot]
  simp only [hk.1, hk.2.1, hk.2.2]
  simp [runOne, pStep, aStep, Event.isEnd]

/-- `descendant-or-self::t1/…/tn` (a leading `//t1/…/tn`): the same -/
theorem kmp_run_dos (tests : List NodeTest) (hne : tests ≠ []) (hs : Simple (Fof tests) tests.length) (Fu : Nat)
    (tag : QName) (attrs : AttrList) (kids : List Node) (hcl : cleanList kids = true) :
    (runOne (pStep (some (frags2 tests true)) false ns) [] (Node.elem tag attrs kids).flatten).1
      = (runOne (aStep ns vs (fragPath .descendantOrSelf tests) Fu) [[0]] (Node.elem tag attrs kids).flatten).1 := by
  have hS := fragAt_dos tests hne
  have hP0 : PosOK ns 0 tests [] [0] := by
    intro x
    simp only [List.mem_singleton, List.length_nil]
    constructor
    · exact Or.inl
    · rintro (h | ⟨h1, _, h3⟩)
      · exact h
      · have := h3.2.1; omega
  obtain ⟨N, m', f1, f2, f3⟩ := visitA ns vs _ 0 tests hne hS Fu [] [0] [] hP0 (.start tag attrs) rfl rfl
  have hmax := kmpStep_max ns ⟨tests, calculatePi tests, none, true⟩ hne hs rfl [] 0 (isMax_nil ns tests)
    (.start tag attrs)
  simp only [Event.isStart, if_true] at f1
  have hk := kmp_treeList ns vs _ 0 tests hne hs hS true false Fu kids hcl
    [.start tag attrs] _ N [] [[0]] hmax f2
  have hmm : (kmpStep ns ⟨tests, calculatePi tests, none, true⟩ 0 (.start tag attrs) == tests.length) = m' := by
    have h1 : (kmpStep ns ⟨tests, calculatePi tests, none, true⟩ 0 (.start tag attrs) == tests.length) = true ↔
        Suf (Fof tests) tests.length (textOf ns [.start tag attrs]) 1 tests.length := by
      simp only [beq_iff_eq]
      constructor
      · intro h; have := hmax.1; rw [h] at this; exact this
      · intro h
        have h1 := hmax.2 _ h
        have h2 := hmax.1.1
        simp only at h1 h2
        omega
    cases hm : m' <;> cases hk' : (kmpStep ns ⟨tests, calculatePi tests, none, true⟩ 0 (.start tag attrs) == tests.length) <;>
      simp_all
  simp only [Node.flatten, runOne_cons, runOne_append]
  rw [pStep_kmp_root_dos ns tests hne (.start tag attrs) rfl rfl, f1]
  simp only [Event.isStart, if_true, hk.1, hk.2.1, hk.2.2, hmm]
  simp [runOne, pStep, aStep, Event.isEnd]

end

section
variable (ns : NsMap) (vs : Vars)

theorem lastResult_of_fragAt (S : List Step) (base : Nat) (tests : List NodeTest) (hne : tests ≠ [])
    (h : FragAt S base tests) (e : Event) : lastResult S e ns = .bool true := by
  have hn : 0 < tests.length := by cases tests <;> simp_all
  have hrl := h.rl
  have hlen := h.len
  unfold lastResult
  unfold realLen at hrl
  cases hl : S.getLast? with
  | none => rfl
  | some last =>
    rw [hl] at hrl
    simp only at hrl ⊢
    by_cases ha : (last.axis == Axis.attribute) = true
    · simp only [ha, if_true] at hrl; omega
    · simp [ha]

theorem noPositional_of_fragAt (S : List Step) (hp : ∀ s ∈ S, s.preds = []) : NoPositional ns vs S := by
  intro s hs q hq
  rw [hp s hs] at hq
  simp at hq

/-- GenericStrategy itself, from the position machine -/
theorem generic_of_abstract (S : List Step) (base : Nat) (tests : List NodeTest) (hne : tests ≠ [])
    (h : FragAt S base tests) (hp : ∀ s ∈ S, s.preds = []) (es : List Event) :
    (runOne (gStep S ns vs) gInit es).1 = (runOne (aStep ns vs S S.length) [[0]] es).1 := by
  have hn : 0 < tests.length := by cases tests <;> simp_all
  have htake : S.take (realLen S) = S := by rw [h.rl]; exact List.take_length
  rw [generic_eq_abstract ns vs S (by rw [htake]) (by rw [htake]; exact noPositional_of_fragAt ns vs S hp)
    (by rw [h.rl, h.len]; omega)]
  have hlast : (fun e v => gate (lastResult S e ns) v) = fun (_ : Event) v => gate (.bool true) v := by
    funext e v; rw [lastResult_of_fragAt ns S base tests hne h e]
  rw [hlast, htake, zipWith_gate_true]

theorem preds_fragPath (ax0 : Axis) (tests : List NodeTest) : ∀ s ∈ fragPath ax0 tests, s.preds = [] := by
  intro s hs
  cases tests with
  | nil => simp [fragPath] at hs
  | cons t0 ts =>
    simp only [fragPath, childChain, List.mem_cons, List.mem_map] at hs
    rcases hs with rfl | ⟨t, _, rfl⟩ <;> rfl

/-- **SimplePathStrategy ≡ GenericStrategy on the KMP fragment.**  For `descendant::t1/…/tn`
    and `descendant-or-self::t1/…/tn` (= a leading `//t1/…/tn`), name / `text()` / `comment()`
    tests, relative mode, every element tree: the two strategies report the same result at
    every event. -/
theorem kmp_runs (ax0 : Axis) (hax : ax0 = .descendant ∨ ax0 = .descendantOrSelf)
    (tests : List NodeTest) (hne : tests ≠ []) (hs : Simple (Fof tests) tests.length)
    (tag : QName) (attrs : AttrList) (kids : List Node) (hcl : cleanList kids = true) :
    (runOne (pStep (fragments (fragPath ax0 tests)) false ns) [] (Node.elem tag attrs kids).flatten).1
      = (runOne (gStep (gSteps (fragPath ax0 tests) false) ns vs) gInit (Node.elem tag attrs kids).flatten).1 := by
  rcases hax with rfl | rfl
  · have hg : gSteps (fragPath .descendant tests) false = dotSlash :: fragPath .descendant tests := by
      cases tests with
      | nil => exact absurd rfl hne
      | cons t0 ts => simp [gSteps, fragPath]
    rw [fragments_desc tests hne, hg,
      generic_of_abstract ns vs _ 1 tests hne (fragAt_desc tests hne)
        (by intro s hs'
            rcases List.mem_cons.mp hs' with rfl | h
            · rfl
            · exact preds_fragPath _ _ s h)]
    exact kmp_run_desc ns vs tests hne hs _ tag attrs kids hcl
  · have hg : gSteps (fragPath .descendantOrSelf tests) false = fragPath .descendantOrSelf tests := by
      cases tests with
      | nil => exact absurd rfl hne
      | cons t0 ts => simp [gSteps, fragPath]
    rw [fragments_dos tests hne, hg,
      generic_of_abstract ns vs _ 0 tests hne (fragAt_dos tests hne) (preds_fragPath _ _)]
    exact kmp_run_dos ns vs tests hne hs _ tag attrs kids hcl

end

theorem simple_of_mem (tests : List NodeTest) (h : ∀ t ∈ tests, simpleT t = true) :
    Simple (Fof tests) tests.length := by
  intro i hi
  have : Fof tests i = tests[i] := by simp [Fof, List.getD, List.getElem?_eq_getElem hi]
  rw [this]
  exact h _ (List.getElem_mem hi)

end Genshi.Path.Kmp

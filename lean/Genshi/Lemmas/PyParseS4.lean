/-
  C13 — statement layer, part 4: `def` / `class` (decorators, parameter lists, class arguments).
-/
import Genshi.Lemmas.PyParseS3
namespace Genshi.Py
open Genshi.Gen

/-! ### parameters with annotations -/

def AParamGoal (p : PyExpr) : Prop := ∃ n ann d, p = .param n ann d ∧ IdentOK n ∧ OptGoal ann ∧ OptGoal d

def AVarGoal (o : Option PyExpr) : Prop := ∀ p, o = some p → ∃ n ann, p = .param n ann none ∧ IdentOK n ∧ OptGoal ann

theorem goals_aparam {es : List PyExpr} (he : es.all isParam = true) (g : ∀ x ∈ es, Goal x) :
    ∀ x ∈ es, AParamGoal x := by
  intro x hx
  have h1 := List.all_eq_true.mp he x hx
  have h2 := g x hx
  cases x with
  | param n ann d => exact ⟨n, ann, d, rfl, h2.1, h2.2.1, h2.2.2⟩
  | _ => simp [isParam] at h1

theorem goal_avar {o : Option PyExpr} (he : ∀ v, o = some v → isAnyVarParam v = true)
    (g : ∀ x, o = some x → Goal x) : AVarGoal o := by
  intro p hp
  have h1 := he p hp
  have h2 := g p hp
  cases p with
  | param n ann d =>
    cases d with
    | some a => simp [isAnyVarParam] at h1
    | none => exact ⟨n, ann, rfl, h2.1, h2.2.1⟩
  | _ => simp [isAnyVarParam] at h1

theorem aparam_isParam {p : PyExpr} (h : AParamGoal p) : isParam p = true := by
  obtain ⟨n, ann, d, rfl, _⟩ := h; rfl

theorem genParams_flatA (po ar : List PyExpr) (va : Option PyExpr) (ko : List PyExpr) (ka : Option PyExpr)
    (hpo : ∀ x ∈ po, isParam x = true) (har : ∀ x ∈ ar, isParam x = true) (hko : ∀ x ∈ ko, isParam x = true)
    (hva : AVarGoal va) :
    genParams po ar va ko ka = sepBy paramTk (flatParams po ar va ko ka) := by
  unfold genParams
  rw [← preBy_drop]
  unfold paramsToks flatParams
  congr 1
  rw [preBy_append, preBy_append, preBy_append, preBy_append, preBy_append]
  rw [preBy_params po hpo, preBy_params ar har, preBy_params ko hko]
  have h1 : (if po.isEmpty then [] else [tComma, tSlash]) = preBy paramTk (if po.isEmpty then [] else [slashMark]) := by
    split <;> rfl
  have h2 : varargToks (genOpt [tComma, tStar] va) va.isNone ko.isEmpty = preBy paramTk (starPart va ko) := by
    cases va with
    | none =>
      simp only [varargToks, Option.isNone_none, Bool.not_true, Bool.false_eq_true, if_false, starPart]
      split <;> rfl
    | some v =>
      obtain ⟨n, ann, rfl, _⟩ := hva v rfl
      simp [varargToks, starPart, genOpt, preBy, paramTk]
  have h3 : genOpt [tComma, tDStar] ka = preBy paramTk (kwPart ka) := by
    cases ka with
    | none => rfl
    | some k => simp [genOpt, kwPart, preBy, paramTk]
  rw [h1, h2, h3]
  simp only [List.append_assoc]

def AFlatGoal (x : PyExpr) : Prop :=
  AParamGoal x ∨ x = slashMark ∨ x = bareStar
    ∨ (∃ n ann, x = .starred (.param n ann none) ∧ IdentOK n ∧ OptGoal ann)
    ∨ (∃ n ann, x = .keyword none (.param n ann none) ∧ IdentOK n ∧ OptGoal ann)

theorem flat_goalsA (po ar : List PyExpr) (va : Option PyExpr) (ko : List PyExpr) (ka : Option PyExpr)
    (hpo : ∀ x ∈ po, AParamGoal x) (har : ∀ x ∈ ar, AParamGoal x) (hko : ∀ x ∈ ko, AParamGoal x)
    (hva : AVarGoal va) (hka : AVarGoal ka) : ∀ x ∈ flatParams po ar va ko ka, AFlatGoal x := by
  intro x hx
  simp only [flatParams, List.mem_append] at hx
  rcases hx with h | h | h | h | h | h
  · exact Or.inl (hpo x h)
  · split at h
    · simp at h
    · simp at h; exact Or.inr (Or.inl h)
  · exact Or.inl (har x h)
  · cases va with
    | some v =>
      obtain ⟨n, ann, rfl, hn, ga⟩ := hva v rfl
      simp [starPart] at h
      exact Or.inr (Or.inr (Or.inr (Or.inl ⟨n, ann, h, hn, ga⟩)))
    | none =>
      simp only [starPart] at h
      split at h
      · simp at h
      · simp at h; exact Or.inr (Or.inr (Or.inl h))
  · exact Or.inl (hko x h)
  · cases ka with
    | some k =>
      obtain ⟨n, ann, rfl, hn, ga⟩ := hka k rfl
      simp [kwPart] at h
      exact Or.inr (Or.inr (Or.inr (Or.inr ⟨n, ann, h, hn, ga⟩)))
    | none => simp [kwPart] at h

theorem itemF_defparams (k : Knot) (toks : List Tok) : itemF k .defparams toks = dparamF k toks := by
  simp only [itemF]

/-- the optional annotation is read back (what follows: `=`, `,` or `)`) -/
theorem ann_ok (ann : Option PyExpr) (ga : OptGoal ann) (M : Nat) (hM : 8 * szO ann + 1 ≤ M) (rest : List Tok)
    (hs : stopsAll rest = true) (hnc : ∀ r, rest ≠ tColon :: r) :
    annF (knot M) (genOpt [tColon] ann ++ rest) = some (ann, rest) := by
  cases ann with
  | none =>
    simp only [genOpt, List.nil_append]
    unfold annF
    split
    · rename_i r; exact absurd rfl (hnc r)
    · rfl
  | some a =>
    obtain ⟨m, rfl⟩ : ∃ m, M = m + 1 := ⟨M - 1, by omega⟩
    simp only [szO] at hM
    have := (ga a rfl).expr' (M := m) (by simp only [need]; omega) rest hs
    simp [genOpt, annF, tColon, this]

/-- what follows a parameter of a `def`: a comma or the closing parenthesis -/
def DefEnd (rest : List Tok) : Prop := ∃ r, rest = tComma :: r ∨ rest = tRP :: r

theorem defEnd_facts {rest : List Tok} (h : DefEnd rest) :
    stopsAll rest = true ∧ closedE rest = true ∧ (∀ r, rest ≠ tColon :: r) ∧ (∀ r, rest ≠ tEq :: r) := by
  obtain ⟨r, rfl | rfl⟩ := h
  · exact ⟨stopsAll_closedE rfl, rfl, fun _ e => by simp [tComma, tColon] at e, fun _ e => by simp [tComma, tEq] at e⟩
  · exact ⟨stopsAll_closedE rfl, rfl, fun _ e => by simp [tRP, tColon] at e, fun _ e => by simp [tRP, tEq] at e⟩

/-- `items_sep` with the item hypothesis restricted to the two contexts that occur -/
theorem items_sepE (mode : Mode) (tk : PyExpr → List Tok) (closer : Tok) (hcc : closer ≠ tComma)
    (E : List Tok → Prop) (hE1 : ∀ r, E (tComma :: r)) (hE2 : ∀ r, E (closer :: r)) (xs : List PyExpr) :
    ∀ (x : PyExpr), (∀ y ∈ x :: xs,
        (∀ M, need y + 1 ≤ M → ∀ rest, E rest → itemF (knot M) mode (tk y ++ rest) = some (y, rest))
        ∧ ∀ rest, atCloser closer (tk y ++ rest) = false) →
    ∀ (acc : List PyExpr) (c : Bool) (M : Nat), 8 * szL (x :: xs) + 1 ≤ M → ∀ rest,
      ∃ c', (knot M).items mode closer acc c (sepBy tk (x :: xs) ++ closer :: rest)
        = some ((acc.reverse ++ x :: xs, c'), closer :: rest) := by
  induction xs with
  | nil =>
    intro x hx acc c M hM rest
    simp only [szL] at hM
    obtain ⟨m, rfl⟩ : ∃ m, M = m + 2 := ⟨M - 2, by omega⟩
    obtain ⟨hok, hnc⟩ := hx x (by simp)
    have hi := hok (m + 1) (by simp only [need]; omega) (closer :: rest) (hE2 rest)
    refine ⟨c, ?_⟩
    simp only [sepBy, knot_items]
    rw [itemsF_last _ _ _ _ _ _ _ _ (hnc _) hi hcc]
    simp
  | cons y ys ih =>
    intro x hx acc c M hM rest
    simp only [szL] at hM
    obtain ⟨m, rfl⟩ : ∃ m, M = m + 2 := ⟨M - 2, by omega⟩
    obtain ⟨hok, hnc⟩ := hx x (by simp)
    have hi := hok (m + 1) (by simp only [need]; omega) (tComma :: (sepBy tk (y :: ys) ++ closer :: rest)) (hE1 _)
    obtain ⟨c', hrec⟩ := ih y (fun z hz => hx z (by simp at hz ⊢; right; exact hz)) (x :: acc) true (m + 1)
      (by simp only [szL]; omega) rest
    refine ⟨c', ?_⟩
    simp only [sepBy, List.append_assoc, List.cons_append, knot_items]
    rw [itemsF_comma _ _ _ _ _ _ _ _ (hnc _) hi, hrec]
    simp

theorem annF_end (k : Knot) (rest : List Tok) (h : ∀ r, rest ≠ tColon :: r) : annF k rest = some (none, rest) := by
  unfold annF
  split
  · rename_i r; exact absurd rfl (h r)
  · rfl

theorem flat_itemA (x : PyExpr) (h : AFlatGoal x) :
    (∀ M, need x + 1 ≤ M → ∀ rest, DefEnd rest → itemF (knot M) .defparams (paramTk x ++ rest) = some (x, rest))
      ∧ ∀ rest, atCloser tRP (paramTk x ++ rest) = false := by
  rcases h with ⟨n, ann, d, rfl, hn, ga, gd⟩ | rfl | rfl | ⟨n, ann, rfl, hn, ga⟩ | ⟨n, ann, rfl, hn, ga⟩
  · have hn' : isKeyword n = false := hn
    constructor
    · intro M hM rest hr
      obtain ⟨f1, f2, f3, f4⟩ := defEnd_facts hr
      rw [itemF_defparams]
      simp only [need, sz] at hM
      cases d with
      | none =>
        have ha := ann_ok ann ga M (by omega) rest f1 f3
        simp only [paramTk, gen, genOpt, List.append_nil, List.cons_append]
        simp only [dparamF, hn', Bool.false_eq_true, if_false, ha, Option.bind_eq_bind, Option.bind_some]
        split
        · rename_i r2; exact absurd rfl (f4 r2)
        · rfl
      | some e =>
        have ha := ann_ok ann ga M (by simp only [szO] at hM; omega) (tEq :: (gen e ++ rest)) (stopsAll_eq _)
          (fun r e => by simp [tEq, tColon] at e)
        have he := (gd e rfl).kexpr (M := M) (by simp only [need, szO] at hM ⊢; omega) rest f2
        simp only [paramTk, gen, genOpt, List.cons_append, List.append_assoc, List.nil_append]
        simp only [tEq] at ha
        simp only [dparamF, hn', Bool.false_eq_true, if_false, tEq, ha, he, Option.bind_eq_bind, Option.bind_some]
    · intro rest; simp [paramTk, gen, atCloser, tRP]
  · constructor
    · intro M _ rest _; rw [itemF_defparams]; rfl
    · intro rest; rfl
  · constructor
    · intro M _ rest hr
      rw [itemF_defparams]
      obtain ⟨r, rfl | rfl⟩ := hr <;> rfl
    · intro rest; rfl
  · have hn' : isKeyword n = false := hn
    constructor
    · intro M hM rest hr
      obtain ⟨f1, f2, f3, f4⟩ := defEnd_facts hr
      rw [itemF_defparams]
      simp only [need, sz] at hM
      have ha := ann_ok ann ga M (by omega) rest f1 f3
      simp only [paramTk, gen, genOpt, List.append_nil, List.cons_append, tStar]
      simp only [dparamF, hn', Bool.false_eq_true, if_false, ha, Option.bind_eq_bind, Option.bind_some]
    · intro rest; simp [paramTk, atCloser, tRP, tStar]
  · have hn' : isKeyword n = false := hn
    constructor
    · intro M hM rest hr
      obtain ⟨f1, f2, f3, f4⟩ := defEnd_facts hr
      rw [itemF_defparams]
      simp only [need, sz] at hM
      have ha := ann_ok ann ga M (by omega) rest f1 f3
      simp only [paramTk, gen, genOpt, List.append_nil, List.cons_append, tDStar]
      simp only [dparamF, hn', Bool.false_eq_true, if_false, ha, Option.bind_eq_bind, Option.bind_some]
    · intro rest; simp [paramTk, atCloser, tRP, tDStar]

/-- the parameter list of a `def` is read back -/
theorem params_ok (po ar : List PyExpr) (va : Option PyExpr) (ko : List PyExpr) (ka : Option PyExpr)
    (hp : ParamsOK po ar va ko ka) (tail : List Tok) :
    itemsP .defparams tRP (genParams po ar va ko ka ++ tRP :: tail) = some (flatParams po ar va ko ka, tRP :: tail)
      ∧ assembleParams (flatParams po ar va ko ka) = some (po, ar, va, ko, ka) := by
  obtain ⟨h1, h2, h3, h4, h5, h8, h9, h10, h11, h12⟩ := hp
  have hpo := goals_aparam h8 (mainL po h1)
  have har := goals_aparam h9 (mainL ar h2)
  have hko := goals_aparam h10 (mainL ko h4)
  have hva := goal_avar h11 (mainO va h3)
  have hka := goal_avar h12 (mainO ka h5)
  have hflat : genParams po ar va ko ka = sepBy paramTk (flatParams po ar va ko ka) :=
    genParams_flatA po ar va ko ka (List.all_eq_true.mp h8) (List.all_eq_true.mp h9) (List.all_eq_true.mp h10) hva
  have hasm := assemble_flat po ar va ko ka (List.all_eq_true.mp h8) (List.all_eq_true.mp h9) (List.all_eq_true.mp h10)
    (fun v hv => by obtain ⟨n, ann, rfl, _⟩ := hva v hv; rfl) (fun v hv => by obtain ⟨n, ann, rfl, _⟩ := hka v hv; rfl)
  have hgoals := flat_goalsA po ar va ko ka hpo har hko hva hka
  refine ⟨?_, hasm⟩
  -- fuel
  have l1 := szL_le po h1 [tComma] []
  have l2 := szL_le ar h2 [tComma] []
  have l3 := szO_le va h3 [tComma, tStar]
  have l4 := szL_le ko h4 [tComma] []
  have l5 := szO_le ka h5 [tComma, tDStar]
  have l6 : (varargToks (genOpt [tComma, tStar] va) va.isNone ko.isEmpty).length ≥ (genOpt [tComma, tStar] va).length := by
    cases va with
    | none => simp [genOpt]
    | some v => simp [varargToks]
  have l7 := paramsToks_len (genList [tComma] [] po) po.isEmpty (genList [tComma] [] ar)
    (varargToks (genOpt [tComma, tStar] va) va.isNone ko.isEmpty) (genList [tComma] [] ko) (genOpt [tComma, tDStar] ka)
  have hsf := szL_flat po ar va ko ka
  have hgp : (genParams po ar va ko ka).length = (paramsToks (genList [tComma] [] po) po.isEmpty (genList [tComma] [] ar)
    (varargToks (genOpt [tComma, tStar] va) va.isNone ko.isEmpty) (genList [tComma] [] ko) (genOpt [tComma, tDStar] ka)).length := rfl
  rw [hflat] at hgp ⊢
  unfold itemsP
  obtain ⟨m, hm⟩ : ∃ m, parseFuel (sepBy paramTk (flatParams po ar va ko ka) ++ tRP :: tail) + 64 = m + 1 := ⟨_, rfl⟩
  have hfuel : 8 * szL (flatParams po ar va ko ka) + 1 ≤ m := by
    simp only [parseFuel, List.length_append, List.length_cons] at hm
    omega
  rw [hm]
  cases hfl : flatParams po ar va ko ka with
  | nil =>
    simp [sepBy, itemsF_at _ _ _ _ _ _ (show atCloser tRP (tRP :: tail) = true by rfl)]
  | cons x xs =>
    obtain ⟨c', hit⟩ := items_sepE .defparams paramTk tRP (by decide) DefEnd (fun r => ⟨r, Or.inl rfl⟩)
      (fun r => ⟨r, Or.inr rfl⟩) xs x
      (fun y hy => flat_itemA y (hgoals y (by rw [hfl]; exact hy))) [] false (m + 1) (by rw [← hfl]; omega) tail
    simp at hit
    simp [hit]

/-- the argument list of a `class` header is read back -/
theorem classArgs_ok (bases kws : List PyExpr) (hb : WFL bases) (hbe : bases.all isElt = true) (hk : WFL kws)
    (hke : kws.all isKw = true) (tail : List Tok) :
    itemsP .args tRP (sepBy gen (bases ++ kws) ++ tRP :: tail) = some (bases ++ kws, tRP :: tail) := by
  have ha := goals_elt hbe (mainL bases hb)
  have hkw := goals_kw hke (mainL kws hk)
  have hwf : WF (.call (.name ['x']) bases kws) := by
    simp only [WF]
    exact ⟨by decide, rfl, hb, hbe, hk, hke⟩
  have hsz := sz_le _ hwf
  have hlen : (gen (.call (.name ['x']) bases kws)).length = (sepBy gen (bases ++ kws)).length + 3 := by
    simp [gen, ← genList_append, sepBy_gen_tail]
  simp only [sz] at hsz
  unfold itemsP
  obtain ⟨m, hm⟩ : ∃ m, parseFuel (sepBy gen (bases ++ kws) ++ tRP :: tail) + 64 = m + 1 := ⟨_, rfl⟩
  have hfuel : 8 * szL (bases ++ kws) + 1 ≤ m := by
    rw [szL_append]
    simp only [parseFuel, List.length_append, List.length_cons] at hm
    omega
  rw [hm]
  cases hxs : bases ++ kws with
  | nil =>
    simp [sepBy, itemsF_at _ _ _ _ _ _ (show atCloser tRP (tRP :: tail) = true by rfl)]
  | cons x xs =>
    have hall : ∀ y ∈ x :: xs, ItemOK .args gen y ∧ ∀ rest, atCloser tRP (gen y ++ rest) = false := by
      intro y hy
      rw [← hxs] at hy
      rcases List.mem_append.mp hy with h | h
      · exact arg_item y (ha y h)
      · exact kw_item y (hkw y h)
    obtain ⟨c', hit⟩ := items_sep .args gen tRP (by decide) (fun _ => rfl) xs x hall [] false (m + 1)
      (by rw [← hxs]; omega) tail
    simp at hit
    simp [hit]

theorem classArgs_eq (bases kws : List PyExpr) (h : (bases.isEmpty && kws.isEmpty) = false) :
    classArgs bases kws = tLP :: (sepBy gen (bases ++ kws) ++ [tRP]) := by
  simp [classArgs, h, ← genList_append, sepBy_gen_tail]

/-! ### decorators -/

def decoLines (ind : Nat) (decos : List PyExpr) : List Line := decos.map fun d => ⟨ind, tAt :: gen d⟩

theorem decorators_ok (ind : Nat) (decos : List PyExpr) (hd : ∀ d ∈ decos, Supported d) (L : List Line)
    (hL : ∀ i ts r, L ≠ ⟨i, tAt :: ts⟩ :: r) : decoratorsP ind (decoLines ind decos ++ L) = some (decos, L) := by
  induction decos with
  | nil =>
    simp only [decoLines, List.map_nil, List.nil_append]
    unfold decoratorsP
    split
    · rename_i i ts r
      exact absurd rfl (hL i ts r)
    · rfl
  | cons d ds ih =>
    have := ih (fun x hx => hd x (by simp [hx]))
    simp only [decoLines, tAt] at this
    simp [decoLines, decoratorsP, tAt, pyParse_gen d (hd d (by simp)), this]

/-- a (possibly decorated) `def` / `class` header line is handed to `defOrClass` -/
theorem decorated_ok (ind n : Nat) (decos : List PyExpr) (hd : ∀ d ∈ decos, Supported d) (tl : List Tok)
    (w : Str) (hw : w = cs!"def" ∨ w = cs!"class") (rest : List Line) :
    parseStmt (n + 1) ind (decoLines ind decos ++ ⟨ind, kw w :: tl⟩ :: rest) = defOrClass n ind decos (kw w :: tl) rest := by
  cases decos with
  | nil =>
    rcases hw with rfl | rfl <;> simp [decoLines, parseStmt, kw]
  | cons d ds =>
    have hdeco := decorators_ok ind (d :: ds) hd (⟨ind, kw w :: tl⟩ :: rest)
      (fun i ts r e => by simp [kw, tAt] at e)
    simp only [decoLines, List.map_cons, List.cons_append, tAt] at hdeco ⊢
    simp only [parseStmt, hdeco, Option.bind_eq_bind, Option.bind_some, if_true]

/-! ### `def` -/

theorem def_core (name : Str) (po ar : List PyExpr) (va : Option PyExpr) (ko : List PyExpr) (ka : Option PyExpr)
    (body : List PyStmt) (ret : Option PyExpr) (hp : ParamsOK po ar va ko ka) (hret : SupportedO ret)
    (hb : BlockOK body) (decos : List PyExpr) (ind m : Nat) (hm : szSL body + 1 ≤ m) (rest : List Line)
    (hr : Ends (ind + 1) rest) :
    defOrClass m ind decos
        (kw cs!"def" :: Tok.name name :: tLP :: (genParams po ar va ko ka ++ tRP :: (genOpt [tArrow] ret ++ [tColon])))
        (genBody (ind + 1) body ++ rest)
      = some (.functionDef name po ar va ko ka body decos ret false, rest) := by
  obtain ⟨n, rfl⟩ : ∃ n, m = n + 1 := ⟨m - 1, by omega⟩
  obtain ⟨hit, hasm⟩ := params_ok po ar va ko ka hp (genOpt [tArrow] ret ++ [tColon])
  have hbody := hb (ind + 1) n (by omega) rest hr
  simp only [defOrClass, kw, tLP, hit, hasm, Option.bind_eq_bind, Option.bind_some]
  cases ret with
  | none =>
    simp only [genOpt, List.nil_append, tRP, tColon]
    simp [headerEnd, tColon, hbody]
  | some e =>
    have hex := exprP_gen e (hret e rfl) [tColon] (stopsAll_closedE rfl)
    simp only [genOpt, List.cons_append, List.nil_append, List.append_assoc, tRP, tArrow]
    simp [hex, headerEnd, hbody]

theorem def_ok (name : Str) (po ar : List PyExpr) (va : Option PyExpr) (ko : List PyExpr) (ka : Option PyExpr)
    (body : List PyStmt) (decos : List PyExpr) (ret : Option PyExpr) (hp : ParamsOK po ar va ko ka)
    (hret : SupportedO ret) (hd : ∀ d ∈ decos, Supported d) (hb : BlockOK body) :
    StmtOK (.functionDef name po ar va ko ka body decos ret false) := by
  intro ind fuel hf rest hr
  simp only [szS] at hf
  obtain ⟨n, rfl⟩ : ∃ n, fuel = n + 1 := ⟨fuel - 1, by omega⟩
  have hcore := def_core name po ar va ko ka body ret hp hret hb decos ind n (by omega) rest hr.ends
  have hdec := decorated_ok ind n decos hd
    (Tok.name name :: tLP :: (genParams po ar va ko ka ++ tRP :: (genOpt [tArrow] ret ++ [tColon]))) cs!"def"
    (Or.inl rfl) (genBody (ind + 1) body ++ rest)
  simp only [decoLines] at hdec
  simp only [genStmt, List.append_assoc, List.cons_append]
  rw [hdec, hcore]

/-! ### `class` -/

theorem class_core (name : Str) (bases kws : List PyExpr) (body : List PyStmt) (hb0 : WFL bases)
    (hbe : bases.all isElt = true) (hk : WFL kws) (hke : kws.all isKw = true) (hb : BlockOK body)
    (decos : List PyExpr) (ind m : Nat) (hm : szSL body + 1 ≤ m) (rest : List Line) (hr : Ends (ind + 1) rest) :
    defOrClass m ind decos (kw cs!"class" :: Tok.name name :: (classArgs bases kws ++ [tColon]))
        (genBody (ind + 1) body ++ rest)
      = some (.classDef name bases kws body decos false, rest) := by
  obtain ⟨n, rfl⟩ : ∃ n, m = n + 1 := ⟨m - 1, by omega⟩
  have hbody := hb (ind + 1) n (by omega) rest hr
  cases hem : (bases.isEmpty && kws.isEmpty) with
  | true =>
    simp only [Bool.and_eq_true, List.isEmpty_iff] at hem
    obtain ⟨rfl, rfl⟩ := hem
    simp [classArgs, defOrClass, kw, tColon, headerEnd, hbody]
  | false =>
    have hit := classArgs_ok bases kws hb0 hbe hk hke [tColon]
    have hfil := filter_args bases kws (fun x hx => eltGoal_not_kw (goals_elt hbe (mainL bases hb0) x hx))
      (fun x hx => List.all_eq_true.mp hke x hx)
    rw [classArgs_eq bases kws hem]
    simp only [List.cons_append, List.append_assoc, List.nil_append]
    simp only [defOrClass, kw, tLP, hit, Option.bind_eq_bind, Option.bind_some]
    simp [tRP, tColon, headerEnd, hbody, hfil.1, hfil.2]

theorem class_ok (name : Str) (bases kws : List PyExpr) (body : List PyStmt) (decos : List PyExpr) (hb0 : WFL bases)
    (hbe : bases.all isElt = true) (hk : WFL kws) (hke : kws.all isKw = true) (hd : ∀ d ∈ decos, Supported d)
    (hb : BlockOK body) : StmtOK (.classDef name bases kws body decos false) := by
  intro ind fuel hf rest hr
  simp only [szS] at hf
  obtain ⟨n, rfl⟩ : ∃ n, fuel = n + 1 := ⟨fuel - 1, by omega⟩
  have hcore := class_core name bases kws body hb0 hbe hk hke hb decos ind n (by omega) rest hr.ends
  have hdec := decorated_ok ind n decos hd (Tok.name name :: (classArgs bases kws ++ [tColon])) cs!"class"
    (Or.inr rfl) (genBody (ind + 1) body ++ rest)
  simp only [decoLines] at hdec
  simp only [genStmt, List.append_assoc, List.cons_append]
  rw [hdec, hcore]

end Genshi.Py

/-
  C13 — statement layer, part 4: `def` / `class` (decorators, parameter lists, class arguments).
-/
import Genshi.Lemmas.PyParseS3
namespace Genshi.Py
open Genshi.Gen

theorem flat_item_rp (x : PyExpr) (h : FlatGoal x) :
    ItemOK .params paramTk x ∧ ∀ rest, atCloser tRP (paramTk x ++ rest) = false := by
  refine ⟨(flat_item x h).1, ?_⟩
  rcases h with ⟨n, d, rfl, hn, gd⟩ | rfl | rfl | ⟨n, rfl, hn⟩ | ⟨n, rfl, hn⟩
  · cases d <;> (intro rest; simp [paramTk, gen, genOpt, atCloser, tRP])
  · intro rest; rfl
  · intro rest; rfl
  · intro rest; simp [paramTk, gen, genOpt, atCloser, tRP, tStar]
  · intro rest; simp [paramTk, gen, genOpt, atCloser, tRP, tDStar]

/-- the parameter list of a `def` is read back -/
theorem params_ok (po ar : List PyExpr) (va : Option PyExpr) (ko : List PyExpr) (ka : Option PyExpr)
    (hp : ParamsOK po ar va ko ka) (tail : List Tok) :
    itemsP .params tRP (genParams po ar va ko ka ++ tRP :: tail) = some (flatParams po ar va ko ka, tRP :: tail)
      ∧ assembleParams (flatParams po ar va ko ka) = some (po, ar, va, ko, ka) := by
  obtain ⟨h1, h2, h3, h4, h5, h8, h9, h10, h11, h12⟩ := hp
  have hpo := goals_param h8 (mainL po h1)
  have har := goals_param h9 (mainL ar h2)
  have hko := goals_param h10 (mainL ko h4)
  have hva := goal_var h11 (mainO va h3)
  have hka := goal_var h12 (mainO ka h5)
  have hflat : genParams po ar va ko ka = sepBy paramTk (flatParams po ar va ko ka) :=
    genParams_flat po ar va ko ka hpo har hko hva hka
  have hasm := assemble_flat po ar va ko ka (fun x hx => paramGoal_isParam (hpo x hx))
    (fun x hx => paramGoal_isParam (har x hx)) (fun x hx => paramGoal_isParam (hko x hx))
    (fun v hv => by obtain ⟨n, rfl, _⟩ := hva v hv; rfl) (fun v hv => by obtain ⟨n, rfl, _⟩ := hka v hv; rfl)
  have hgoals := flat_goals po ar va ko ka hpo har hko hva hka
  refine ⟨?_, hasm⟩
  -- fuel: the size of the parameters is bounded through the lambda with the same parameters
  have hwf : WF (.lambda po ar va ko ka (.name ['x'])) := by
    simp only [WF]
    exact ⟨h1, h2, h3, h4, h5, by decide, rfl, h8, h9, h10, h11, h12⟩
  have hsz := sz_le _ hwf
  have hlen : (gen (.lambda po ar va ko ka (.name ['x']))).length = (genParams po ar va ko ka).length + 5 := by
    simp [gen, wrapP, parens_all.2.2.2.1, genParams]
  have hsf := szL_flat po ar va ko ka
  simp only [sz] at hsz
  rw [hflat] at hlen ⊢
  unfold itemsP
  obtain ⟨m, hm⟩ : ∃ m, parseFuel (sepBy paramTk (flatParams po ar va ko ka) ++ tRP :: tail) + 64 = m + 1 := ⟨_, rfl⟩
  have hfuel : 8 * szL (flatParams po ar va ko ka) + 1 ≤ m := by
    simp only [parseFuel, List.length_append, List.length_cons] at hm
    omega
  rw [hm]
  cases hfl : flatParams po ar va ko ka with
  | nil =>
    simp [sepBy, itemsF_at _ _ _ _ _ _ (show atCloser tRP (tRP :: tail) = true by rfl)]
  | cons x xs =>
    obtain ⟨c', hit⟩ := items_sep .params paramTk tRP (by decide) (fun _ => rfl) xs x
      (fun y hy => flat_item_rp y (hgoals y (by rw [hfl]; exact hy))) [] false (m + 1) (by rw [← hfl]; omega) tail
    simp at hit
    simp [hit]

/-- the argument list of a `class` header is read back -/
theorem classArgs_ok (bases kws : List PyExpr) (hb : WFL bases) (hbe : bases.all isElt = true) (hk : WFL kws)
    (hke : kws.all isKw = true) (tail : List Tok) :
    itemsP .args tRP (sepBy gen (bases ++ kws) ++ tRP :: tail) = some (bases ++ kws, tRP :: tail) := by
  have ha := goals_elt hbe (mainL bases hb)
  have hkw := goals_kw hke (mainL kws hk)
  have hwf : WF (.call (.name ['x']) bases kws) := by
    simp only [WF]
    exact ⟨by decide, rfl, hb, hbe, hk, hke⟩
  have hsz := sz_le _ hwf
  have hlen : (gen (.call (.name ['x']) bases kws)).length = (sepBy gen (bases ++ kws)).length + 3 := by
    simp [gen, ← genList_append, sepBy_gen_tail]
  simp only [sz] at hsz
  unfold itemsP
  obtain ⟨m, hm⟩ : ∃ m, parseFuel (sepBy gen (bases ++ kws) ++ tRP :: tail) + 64 = m + 1 := ⟨_, rfl⟩
  have hfuel : 8 * szL (bases ++ kws) + 1 ≤ m := by
    rw [szL_append]
    simp only [parseFuel, List.length_append, List.length_cons] at hm
    omega
  rw [hm]
  cases hxs : bases ++ kws with
  | nil =>
    simp [sepBy, itemsF_at _ _ _ _ _ _ (show atCloser tRP (tRP :: tail) = true by rfl)]
  | cons x xs =>
    have hall : ∀ y ∈ x :: xs, ItemOK .args gen y ∧ ∀ rest, atCloser tRP (gen y ++ rest) = false := by
      intro y hy
      rw [← hxs] at hy
      rcases List.mem_append.mp hy with h | h
      · exact arg_item y (ha y h)
      · exact kw_item y (hkw y h)
    obtain ⟨c', hit⟩ := items_sep .args gen tRP (by decide) (fun _ => rfl) xs x hall [] false (m + 1)
      (by rw [← hxs]; omega) tail
    simp at hit
    simp [hit]

theorem classArgs_eq (bases kws : List PyExpr) (h : (bases.isEmpty && kws.isEmpty) = false) :
    classArgs bases kws = tLP :: (sepBy gen (bases ++ kws) ++ [tRP]) := by
  simp [classArgs, h, ← genList_append, sepBy_gen_tail]

/-! ### decorators -/

def decoLines (ind : Nat) (decos : List PyExpr) : List Line := decos.map fun d => ⟨ind, tAt :: gen d⟩

theorem decorators_ok (ind : Nat) (decos : List PyExpr) (hd : ∀ d ∈ decos, Supported d) (L : List Line)
    (hL : ∀ i ts r, L ≠ ⟨i, tAt :: ts⟩ :: r) : decoratorsP ind (decoLines ind decos ++ L) = some (decos, L) := by
  induction decos with
  | nil =>
    simp only [decoLines, List.map_nil, List.nil_append]
    unfold decoratorsP
    split
    · rename_i i ts r
      exact absurd rfl (hL i ts r)
    · rfl
  | cons d ds ih =>
    have := ih (fun x hx => hd x (by simp [hx]))
    simp only [decoLines, tAt] at this
    simp [decoLines, decoratorsP, tAt, pyParse_gen d (hd d (by simp)), this]

/-- a (possibly decorated) `def` / `class` header line is handed to `defOrClass` -/
theorem decorated_ok (ind n : Nat) (decos : List PyExpr) (hd : ∀ d ∈ decos, Supported d) (tl : List Tok)
    (w : Str) (hw : w = cs!"def" ∨ w = cs!"class") (rest : List Line) :
    parseStmt (n + 1) ind (decoLines ind decos ++ ⟨ind, kw w :: tl⟩ :: rest) = defOrClass n ind decos (kw w :: tl) rest := by
  cases decos with
  | nil =>
    rcases hw with rfl | rfl <;> simp [decoLines, parseStmt, kw]
  | cons d ds =>
    have hdeco := decorators_ok ind (d :: ds) hd (⟨ind, kw w :: tl⟩ :: rest)
      (fun i ts r e => by simp [kw, tAt] at e)
    simp only [decoLines, List.map_cons, List.cons_append, tAt] at hdeco ⊢
    simp only [parseStmt, hdeco, Option.bind_eq_bind, Option.bind_some, if_true]

/-! ### `def` -/

theorem def_core (name : Str) (po ar : List PyExpr) (va : Option PyExpr) (ko : List PyExpr) (ka : Option PyExpr)
    (body : List PyStmt) (ret : Option PyExpr) (hp : ParamsOK po ar va ko ka) (hret : SupportedO ret)
    (hb : BlockOK body) (decos : List PyExpr) (ind m : Nat) (hm : szSL body + 1 ≤ m) (rest : List Line)
    (hr : Ends (ind + 1) rest) :
    defOrClass m ind decos
        (kw cs!"def" :: Tok.name name :: tLP :: (genParams po ar va ko ka ++ tRP :: (genOpt [tArrow] ret ++ [tColon])))
        (genBody (ind + 1) body ++ rest)
      = some (.functionDef name po ar va ko ka body decos ret false, rest) := by
  obtain ⟨n, rfl⟩ : ∃ n, m = n + 1 := ⟨m - 1, by omega⟩
  obtain ⟨hit, hasm⟩ := params_ok po ar va ko ka hp (genOpt [tArrow] ret ++ [tColon])
  have hbody := hb (ind + 1) n (by omega) rest hr
  simp only [defOrClass, kw, tLP, hit, hasm, Option.bind_eq_bind, Option.bind_some]
  cases ret with
  | none =>
    simp only [genOpt, List.nil_append, tRP, tColon]
    simp [headerEnd, tColon, hbody]
  | some e =>
    have hex := exprP_gen e (hret e rfl) [tColon] (stopsAll_closedE rfl)
    simp only [genOpt, List.cons_append, List.nil_append, List.append_assoc, tRP, tArrow]
    simp [hex, headerEnd, hbody]

theorem def_ok (name : Str) (po ar : List PyExpr) (va : Option PyExpr) (ko : List PyExpr) (ka : Option PyExpr)
    (body : List PyStmt) (decos : List PyExpr) (ret : Option PyExpr) (hp : ParamsOK po ar va ko ka)
    (hret : SupportedO ret) (hd : ∀ d ∈ decos, Supported d) (hb : BlockOK body) :
    StmtOK (.functionDef name po ar va ko ka body decos ret false) := by
  intro ind fuel hf rest hr
  simp only [szS] at hf
  obtain ⟨n, rfl⟩ : ∃ n, fuel = n + 1 := ⟨fuel - 1, by omega⟩
  have hcore := def_core name po ar va ko ka body ret hp hret hb decos ind n (by omega) rest hr.ends
  have hdec := decorated_ok ind n decos hd
    (Tok.name name :: tLP :: (genParams po ar va ko ka ++ tRP :: (genOpt [tArrow] ret ++ [tColon]))) cs!"def"
    (Or.inl rfl) (genBody (ind + 1) body ++ rest)
  simp only [decoLines] at hdec
  simp only [genStmt, List.append_assoc, List.cons_append]
  rw [hdec, hcore]

/-! ### `class` -/

theorem class_core (name : Str) (bases kws : List PyExpr) (body : List PyStmt) (hb0 : WFL bases)
    (hbe : bases.all isElt = true) (hk : WFL kws) (hke : kws.all isKw = true) (hb : BlockOK body)
    (decos : List PyExpr) (ind m : Nat) (hm : szSL body + 1 ≤ m) (rest : List Line) (hr : Ends (ind + 1) rest) :
    defOrClass m ind decos (kw cs!"class" :: Tok.name name :: (classArgs bases kws ++ [tColon]))
        (genBody (ind + 1) body ++ rest)
      = some (.classDef name bases kws body decos false, rest) := by
  obtain ⟨n, rfl⟩ : ∃ n, m = n + 1 := ⟨m - 1, by omega⟩
  have hbody := hb (ind + 1) n (by omega) rest hr
  cases hem : (bases.isEmpty && kws.isEmpty) with
  | true =>
    simp only [Bool.and_eq_true, List.isEmpty_iff] at hem
    obtain ⟨rfl, rfl⟩ := hem
    simp [classArgs, defOrClass, kw, tColon, headerEnd, hbody]
  | false =>
    have hit := classArgs_ok bases kws hb0 hbe hk hke [tColon]
    have hfil := filter_args bases kws (fun x hx => eltGoal_not_kw (goals_elt hbe (mainL bases hb0) x hx))
      (fun x hx => List.all_eq_true.mp hke x hx)
    rw [classArgs_eq bases kws hem]
    simp only [List.cons_append, List.append_assoc, List.nil_append]
    simp only [defOrClass, kw, tLP, hit, Option.bind_eq_bind, Option.bind_some]
    simp [tRP, tColon, headerEnd, hbody, hfil.1, hfil.2]

theorem class_ok (name : Str) (bases kws : List PyExpr) (body : List PyStmt) (decos : List PyExpr) (hb0 : WFL bases)
    (hbe : bases.all isElt = true) (hk : WFL kws) (hke : kws.all isKw = true) (hd : ∀ d ∈ decos, Supported d)
    (hb : BlockOK body) : StmtOK (.classDef name bases kws body decos false) := by
  intro ind fuel hf rest hr
  simp only [szS] at hf
  obtain ⟨n, rfl⟩ : ∃ n, fuel = n + 1 := ⟨fuel - 1, by omega⟩
  have hcore := class_core name bases kws body hb0 hbe hk hke hb decos ind n (by omega) rest hr.ends
  have hdec := decorated_ok ind n decos hd (Tok.name name :: (classArgs bases kws ++ [tColon])) cs!"class"
    (Or.inr rfl) (genBody (ind + 1) body ++ rest)
  simp only [decoLines] at hdec
  simp only [genStmt, List.append_assoc, List.cons_append]
  rw [hdec, hcore]

end Genshi.Py

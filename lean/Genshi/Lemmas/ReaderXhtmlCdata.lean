/-
  Helper lemmas for C08: the xhtml round trip with CDATA sections (the XML
  tokenizer keeps CDATA content in the pending character data, as expat with
  merged text does).
-/
import Genshi.Lemmas.ReaderXhtml
namespace Genshi.Reader
open Genshi Genshi.Escape Genshi.Output

/-- text that can stand in a CDATA section when `b` closing brackets precede it: no `]]>` arises -/
def cdataSafe : Nat → Str → Bool
  | _, [] => true
  | b, c :: cs =>
      if c == '>' then (b != 2 && cdataSafe 0 cs)
      else if c == ']' then cdataSafe (if b == 2 then 2 else b + 1) cs
      else cdataSafe 0 cs

/-- trailing closing brackets (capped at 2) after reading the text -/
def cdataB : Nat → Str → Nat
  | b, [] => b
  | b, c :: cs => if c == ']' then cdataB (if b == 2 then 2 else b + 1) cs else cdataB 0 cs

theorem cdataSafe_mono (s : Str) : ∀ b : Nat, b ≤ 2 → cdataSafe 2 s = true → cdataSafe b s = true := by
  induction s with
  | nil => intro b _ _; rfl
  | cons c cs ih =>
    intro b hb h
    simp only [cdataSafe] at h ⊢
    by_cases h1 : (c == '>') = true
    · simp [h1] at h
    · simp only [h1, Bool.false_eq_true, ↓reduceIte] at h ⊢
      by_cases h2 : (c == ']') = true
      · simp only [h2, ↓reduceIte, BEq.rfl] at h ⊢
        by_cases hb2 : b = 2
        · subst hb2; simpa using h
        · have : (b == 2) = false := by simpa using hb2
          simp only [this, Bool.false_eq_true, ↓reduceIte]
          exact ih (b + 1) (by omega) h
      · simpa [h2] using h

theorem cdataB_le (s : Str) : ∀ b : Nat, b ≤ 2 → cdataB b s ≤ 2 := by
  induction s with
  | nil => intro b hb; simpa [cdataB] using hb
  | cons c cs ih =>
    intro b hb
    simp only [cdataB]
    split
    · split
      · exact ih 2 (by omega)
      · rename_i h; exact ih (b + 1) (by have : b ≠ 2 := by simpa using h
                                         omega)
    · exact ih 0 (by omega)

/-- CDATA content is read verbatim into the pending character data -/
theorem feed_cdata (s : Str) : ∀ (b : Nat) (st : RSt), st.mode = .cdata b → cdataSafe b s = true →
    feed true st s = { st with mode := .cdata (cdataB b s), buf := st.buf ++ s } := by
  induction s with
  | nil => intro b st hm _; simp [feed, cdataB, ← hm]
  | cons c cs ih =>
    intro b st hm h
    simp only [cdataSafe] at h
    by_cases h1 : (c == '>') = true
    · simp only [h1, ↓reduceIte, Bool.and_eq_true, bne_iff_ne, ne_eq] at h
      have hb : (b == 2) = false := by simpa using h.1
      have s1 : step true st c = { st with mode := .cdata 0, buf := st.buf ++ [c] } := by
        have hc : (c == ']') = false := by
          have : c = '>' := by simpa using h1
          subst this; decide
        simp [step, hm, h1, hb, hc]
      have hc : (c == ']') = false := by
        have : c = '>' := by simpa using h1
        subst this; decide
      rw [feed_cons, s1, ih 0 _ rfl h.2]
      simp [cdataB, hc]
    · simp only [h1, Bool.false_eq_true, ↓reduceIte] at h
      by_cases h2 : (c == ']') = true
      · simp only [h2, ↓reduceIte] at h
        have s1 : step true st c = { st with mode := .cdata (if b == 2 then 2 else b + 1), buf := st.buf ++ [c] } := by
          simp [step, hm, h1, h2]
        rw [feed_cons, s1, ih _ _ rfl h]
        simp [cdataB, h2]
      · simp only [h2, Bool.false_eq_true, ↓reduceIte] at h
        have s1 : step true st c = { st with mode := .cdata 0, buf := st.buf ++ [c] } := by
          simp [step, hm, h1, h2]
        rw [feed_cons, s1, ih 0 _ rfl h]
        simp [cdataB, h2]

/-- `<![CDATA[` read from character data: the pending text is kept -/
theorem feed_cdataOpen (buf : Str) (toks : List Tok) :
    feed true (mk .data buf toks) cdataOpen = mk (.cdata 0) buf toks := by
  simp [feed, step, mk, cdataOpen, kwComment, kwDoctype, kwCdata, List.isPrefixOf]

theorem take_append_two {α : Type} (l : List α) (a b : α) : (l ++ [a, b]).take ((l ++ [a, b]).length - 2) = l := by
  simp

/-- `]]>` ends the section; the content stays in the pending character data -/
theorem feed_cdataClose (b : Nat) (hb : b ≤ 2) (buf : Str) (toks : List Tok) :
    feed true (mk (.cdata b) buf toks) cdataClose = mk .data buf toks := by
  have h3 : b = 0 ∨ b = 1 ∨ b = 2 := by omega
  rcases h3 with h | h | h <;> subst h <;> simp [feed, step, mk, cdataClose]

/-! ### simulation with CDATA sections -/

/-- abstract reader state: inside a CDATA section (with the bracket count) or not -/
structure RC where
  cd : Option Nat := none
  buf : Str := []
  toks : List Tok := []
  deriving Repr, DecidableEq

def RC.toRSt (r : RC) : RSt :=
  Genshi.Reader.mk (match r.cd with | none => Mode.data | some b => Mode.cdata b) r.buf r.toks

def RC.toRS (r : RC) : RS := ⟨false, r.buf, r.toks⟩
def RC.ofRS (r : RS) : RC := ⟨none, r.buf, r.toks⟩

/-- specification: one (filtered) event of an xhtml serialisation, CDATA sections included -/
def xhtmlEvC (r : RC) (ev : FEv) : RC :=
  match r.cd with
  | none =>
      match ev with
      | .startCdata => { r with cd := some 0 }
      | _ => RC.ofRS (xhtmlEv r.toRS ev)
  | some b =>
      match ev with
      | .text s _ => { r with cd := some (cdataB b s), buf := r.buf ++ s }
      | .endCdata => { r with cd := none }
      | _ => r

/-- hypotheses per event: outside CDATA as `XhtmlOk` plus START_CDATA; inside only plain text that
    cannot close the section, and END_CDATA -/
def XhtmlOkC (o : Opts) (inCd : Bool) (ev : FEv) : Prop :=
  if inCd then
    (match ev with
     | .text s safe => safe = false ∧ cdataSafe 2 s = true
     | .endCdata => True
     | _ => False)
  else
    (match ev with
     | .startCdata => True
     | _ => XhtmlOk o ev)

theorem toRSt_none (buf : Str) (toks : List Tok) : RC.toRSt ⟨none, buf, toks⟩ = mk .data buf toks := rfl
theorem toRSt_some (b : Nat) (buf : Str) (toks : List Tok) : RC.toRSt ⟨some b, buf, toks⟩ = mk (.cdata b) buf toks := rfl

theorem xhtml_eventC (o : Opts) (r : RC) (c : Ctx) (ev : FEv)
    (hcd : c.raw = r.cd.isSome) (hb : ∀ b, r.cd = some b → b ≤ 2) (hok : XhtmlOkC o r.cd.isSome ev) :
    feed true r.toRSt (emit .xhtml o c ev).flatten = (xhtmlEvC r ev).toRSt ∧
    (ctxAfter .xhtml o c ev).raw = (xhtmlEvC r ev).cd.isSome ∧
    (∀ b, (xhtmlEvC r ev).cd = some b → b ≤ 2) := by
  obtain ⟨rcd, rbuf, rtoks⟩ := r
  cases rcd with
  | none =>
    simp only [Option.isSome_none] at hcd hok
    simp only [XhtmlOkC, Bool.false_eq_true, ↓reduceIte] at hok
    by_cases hs : ev = .startCdata
    · subst hs
      refine ⟨?_, by simp [ctxAfter, xhtmlEvC], by intro b hb'; simp [xhtmlEvC] at hb'; omega⟩
      simp only [emit, flatten_singleton, xhtmlEvC, toRSt_none, toRSt_some]
      simpa using feed_cdataOpen rbuf rtoks
    · have hok' : XhtmlOk o ev := by
        cases ev <;> simp_all
      have he := xhtml_event o ⟨false, rbuf, rtoks⟩ c ev rfl hcd hok'
      have hx : xhtmlEvC ⟨none, rbuf, rtoks⟩ ev = RC.ofRS (xhtmlEv ⟨false, rbuf, rtoks⟩ ev) := by
        cases ev <;> simp_all [xhtmlEvC, RC.toRS]
      rw [hx]
      refine ⟨?_, by simpa [RC.ofRS] using he.2.1, by intro b hb'; simp [RC.ofRS] at hb'⟩
      have h1 : RC.toRSt ⟨none, rbuf, rtoks⟩ = RS.toRSt ⟨false, rbuf, rtoks⟩ := rfl
      rw [h1, he.1]
      have hr := he.2.2
      generalize xhtmlEv ⟨false, rbuf, rtoks⟩ ev = q at hr ⊢
      obtain ⟨qr, qb, qt⟩ := q
      simp only at hr; subst hr
      rfl
  | some b =>
    have hb2 : b ≤ 2 := hb b rfl
    simp only [Option.isSome_some] at hcd hok
    simp only [XhtmlOkC, ↓reduceIte] at hok
    cases ev with
    | text s f =>
      obtain ⟨hf, hsafe⟩ := hok
      subst hf
      refine ⟨?_, by simp [ctxAfter, xhtmlEvC, hcd], by
        intro b' hb'; simp [xhtmlEvC] at hb'; subst hb'; exact cdataB_le s b hb2⟩
      simp only [emit, hcd, ↓reduceIte, flatten_singleton, xhtmlEvC, toRSt_some]
      rw [feed_cdata s b _ rfl (cdataSafe_mono s b hb2 hsafe)]
      simp [mk]
    | endCdata =>
      refine ⟨?_, by simp [ctxAfter, xhtmlEvC], by intro b' hb'; simp [xhtmlEvC] at hb'⟩
      simp only [emit, flatten_singleton, xhtmlEvC, toRSt_some, toRSt_none]
      simpa using feed_cdataClose b hb2 rbuf rtoks
    | _ => exact absurd hok (by simp)

/-- inside a CDATA section after this event? -/
def cdAfter (inCd : Bool) : FEv → Bool
  | .startCdata => true
  | .endCdata => false
  | _ => inCd

/-- the hypotheses along the stream -/
def XhtmlOkAllC (o : Opts) : Bool → List FEv → Prop
  | _, [] => True
  | inCd, ev :: rest => XhtmlOkC o inCd ev ∧ XhtmlOkAllC o (cdAfter inCd ev) rest

theorem xhtmlEvC_cd (r : RC) (ev : FEv) (o : Opts) (hok : XhtmlOkC o r.cd.isSome ev) :
    (xhtmlEvC r ev).cd.isSome = cdAfter r.cd.isSome ev := by
  obtain ⟨rcd, rbuf, rtoks⟩ := r
  cases rcd with
  | none =>
    cases ev <;> simp [xhtmlEvC, RC.ofRS, RC.toRS, cdAfter] <;> simp_all [XhtmlOkC, XhtmlOk]
  | some b =>
    cases ev <;> simp_all [xhtmlEvC, XhtmlOkC, cdAfter]

theorem xhtml_streamC (o : Opts) (evs : List FEv) :
    ∀ (r : RC) (c : Ctx), c.raw = r.cd.isSome → (∀ b, r.cd = some b → b ≤ 2) → XhtmlOkAllC o r.cd.isSome evs →
      feed true r.toRSt (serSpec .xhtml o c evs).flatten = (evs.foldl xhtmlEvC r).toRSt := by
  induction evs with
  | nil => intro r c _ _ _; simp [serSpec, feed]
  | cons ev rest ih =>
    intro r c hcd hb hok
    have he := xhtml_eventC o r c ev hcd hb hok.1
    simp only [serSpec, List.flatten_append, feed_append, List.foldl_cons]
    rw [he.1]
    refine ih _ _ he.2.1 he.2.2 ?_
    rw [xhtmlEvC_cd r ev o hok.1]
    exact hok.2

/-- the tokens the XML tokenizer must deliver, CDATA sections included -/
def xhtmlExpectedC (evs : List FEv) : List Tok :=
  let r := evs.foldl xhtmlEvC {}
  (flushToks r.buf r.toks).reverse

theorem xhtml_tokensC (o : Opts) (evs : List FEv) (hok : XhtmlOkAllC o false evs)
    (hend : (evs.foldl xhtmlEvC {}).cd = none) :
    tokens true (serSpec .xhtml o {} evs).flatten = some (xhtmlExpectedC evs) := by
  have h := xhtml_streamC o evs {} {} rfl (by intro b hb; cases hb) hok
  have h0 : ({} : RC).toRSt = ({} : RSt) := rfl
  rw [h0] at h
  unfold tokens xhtmlExpectedC
  simp only [h]
  generalize evs.foldl xhtmlEvC {} = r at hend ⊢
  obtain ⟨rcd, rbuf, rtoks⟩ := r
  simp only at hend
  subst hend
  simp [toRSt_none, mk, flush_eq]

end Genshi.Reader

/-
  Shared definitions for the proofs about the trace semantics (`Model/TfTrace.lean`):
  "every buffer is balanced whenever an item is yielded" (`BalAt`), and the injector loops with a
  content that varies from injection to injection (`runGoL`, `prependL`, `appendGoL`): what a
  link that reads a buffer lazily computes.
-/
import Genshi.Model.TfTrace
import Genshi.Lemmas.TfChains
import Genshi.Lemmas.TfLazyAgree
namespace Genshi.Tf

/-- all buffers hold balanced content -/
def BufFOk (b : BufF) : Prop := ∀ id, BalE (b id)

/-- along the action list `a`, started with the buffers `b`: whenever an item is yielded, and at
    the end of the list, every buffer holds balanced content -/
def BalAt : BufF → List Act → Prop
  | b, [] => BufFOk b
  | b, .out _ :: as => BufFOk b ∧ BalAt b as
  | b, .reset id :: as => BalAt (b.set id []) as
  | b, .app id x :: as => BalAt (b.set id (b id ++ [x])) as
  | b, .inj _ :: as => BalAt b as

/-- admissible varying content: unmarked and balanced -/
def VOk (c : MStream) : Prop := NoneMarked c ∧ Bal (unmark c)

/-- `runGo` (replace / before / after) with a content that varies: the k-th use of `pre` is the
    k-th element of `pres`, the k-th use of `post` the k-th element of `posts` (`[]` when the list
    is exhausted) -/
def runGoL (keep : Bool) : RunSt → List MStream → List MStream → MStream → MStream
  | .idle, _, _, [] => []
  | _, _, posts, [] => posts.headD []
  | .idle, pres, posts, (none, x) :: s => (none, x) :: runGoL keep .idle pres posts s
  | .idle, pres, posts, (some m, x) :: s =>
      pres.headD [] ++ ((if keep then [(some m, x)] else []) ++ runGoL keep (startSt m) pres.tail posts s)
  | .inEnter, pres, posts, (m, x) :: s =>
      (if keep then [(m, x)] else []) ++
        (if m = some .exit then posts.headD [] ++ runGoL keep .idle pres posts.tail s
         else runGoL keep .inEnter pres posts s)
  | .inRun m0, pres, posts, (m, x) :: s =>
      if m = some m0 then (if keep then [(m, x)] else []) ++ runGoL keep (.inRun m0) pres posts s
      else
        posts.headD [] ++ (match m with
          | none => (none, x) :: runGoL keep .idle pres posts.tail s
          | some m' => pres.headD [] ++ ((if keep then [(some m', x)] else []) ++
                        runGoL keep (startSt m') pres.tail posts.tail s))

/-- `prepend` with a varying content: one element of `cs` per ENTER -/
def prependL : List MStream → MStream → MStream
  | _, [] => []
  | cs, (m, x) :: s =>
      if m = some .enter then (m, x) :: (cs.headD [] ++ prependL cs.tail s) else (m, x) :: prependL cs s

/-- `append` with a varying content: one element of `cs` per injection (in front of an EXIT, or at
    the end of a stream that ends inside an element) -/
def appendGoL : List MStream → Option MItem → MStream → MStream
  | _, none, [] => []
  | cs, some last, [] => cs.headD [] ++ [last]
  | cs, none, (m, x) :: s => (m, x) :: appendGoL cs (if m = some .enter then some (m, x) else none) s
  | cs, some _, (m, x) :: s =>
      if m = some .exit then cs.headD [] ++ (m, x) :: appendGoL cs.tail none s
      else (m, x) :: appendGoL cs (some (m, x)) s

end Genshi.Tf

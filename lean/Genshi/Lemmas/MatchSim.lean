/-
  C12 — the filter does not look inside a matcher: two template lists whose matchers simulate each
  other (state types may differ) give the same output.  This is how a concrete matcher (the path
  model of C05/C17, whose states carry counters and a store) inherits the theorems proved for
  matchers that obey the law "an END undoes its START" literally: it is simulated by one.
-/
import Genshi.Lemmas.MatchNest
import Genshi.Model.MatchSpec
namespace Genshi.Match
open Genshi

variable {σ τ : Type}

/-- the events `_match` shows to a test closure -/
def SE (e : Event) : Prop := isStart e = true ∨ isEnd e = true

/-- template `b` simulates template `a`: some relation between their matcher states holds now, is
    kept by every step on a START or END event, and related states give the same verdict; everything
    the filter reads besides the matcher is equal -/
def TRel (a : MT σ) (b : MT τ) : Prop :=
  ∃ R : σ → τ → Prop,
    (∀ s t e u, SE e → R s t → R (a.step s e u).1 (b.step t e u).1 ∧ (a.step s e u).2 = (b.step t e u).2) ∧
    R a.st b.st ∧ a.body = b.body ∧ a.once = b.once ∧ a.recursive = b.recursive ∧ a.buffered = b.buffered ∧
    a.retired = b.retired ∧ a.hits = b.hits

inductive LRel : List (MT σ) → List (MT τ) → Prop
  | nil : LRel [] []
  | cons {a b A B} : TRel a b → LRel A B → LRel (a :: A) (b :: B)

inductive IRel : List (Item σ) → List (Item τ) → Prop
  | nil : IRel [] []
  | ev {X Y} (e : Event) : IRel X Y → IRel (.ev e :: X) (.ev e :: Y)
  | reg {a b X Y} : TRel a b → IRel X Y → IRel (.reg a :: X) (.reg b :: Y)

theorem test_rel {a : MT σ} {b : MT τ} (h : TRel a b) (e : Event) (he : SE e) (u : Bool) :
    TRel (a.test e u).1 (b.test e u).1 ∧ (a.test e u).2 = (b.test e u).2 := by
  obtain ⟨R, hstep, hst, hb, ho, hr, hbu, hre, hh⟩ := h
  unfold MT.test
  by_cases hret : a.retired = true
  · have hret' : b.retired = true := by rw [← hre]; exact hret
    rw [if_pos hret, if_pos hret']
    exact ⟨⟨R, hstep, hst, hb, ho, hr, hbu, hre, hh⟩, rfl⟩
  · have hret' : ¬ b.retired = true := by rw [← hre]; exact hret
    rw [if_neg hret, if_neg hret']
    obtain ⟨h1, h2⟩ := hstep a.st b.st e u he hst
    exact ⟨⟨R, hstep, h1, hb, ho, hr, hbu, hre, hh⟩, h2⟩

theorem trel_hit {a : MT σ} {b : MT τ} (h : TRel a b) :
    TRel { a with hits := a.hits + 1 } { b with hits := b.hits + 1 } := by
  obtain ⟨R, hstep, hst, hb, ho, hr, hbu, hre, hh⟩ := h
  exact ⟨R, hstep, hst, hb, ho, hr, hbu, hre, by simp [hh]⟩

theorem trel_retire {a : MT σ} {b : MT τ} (h : TRel a b) : TRel a.retire b.retire := by
  obtain ⟨R, hstep, hst, hb, ho, hr, hbu, hre, hh⟩ := h
  exact ⟨R, hstep, hst, hb, ho, hr, hbu, rfl, hh⟩

theorem sim_scan (e : Event) (he : SE e) (s : Nat) (en : Option Nat) :
    ∀ {A : List (MT σ)} {B : List (MT τ)}, LRel A B → ∀ i,
      LRel (scan e s en i A).1 (scan e s en i B).1 ∧ (scan e s en i A).2 = (scan e s en i B).2 := by
  intro A B h
  induction h with
  | nil => intro i; exact ⟨.nil, rfl⟩
  | @cons a b A B hab hAB ih =>
    intro i
    unfold scan
    by_cases hw : inWindow s en i = true
    · simp only [hw, ↓reduceIte]
      obtain ⟨h1, h2⟩ := test_rel hab e he false
      by_cases hf : (a.test e false).2 = true
      · have hf' : (b.test e false).2 = true := by rw [← h2]; exact hf
        rw [if_pos hf, if_pos hf']
        exact ⟨.cons (trel_hit h1) hAB, rfl⟩
      · have hf' : ¬ (b.test e false).2 = true := by rw [← h2]; exact hf
        rw [if_neg hf, if_neg hf']
        exact ⟨.cons h1 (ih (i + 1)).1, (ih (i + 1)).2⟩
    · simp only [hw, ↓reduceIte]
      exact ⟨.cons hab (ih (i + 1)).1, (ih (i + 1)).2⟩

theorem scanEnd_rel (e : Event) (he : SE e) (s : Nat) (en : Option Nat) :
    ∀ {A : List (MT σ)} {B : List (MT τ)}, LRel A B → ∀ i, LRel (scanEnd e s en i A) (scanEnd e s en i B) := by
  intro A B h
  induction h with
  | nil => intro i; exact .nil
  | @cons a b A B hab hAB ih =>
    intro i
    unfold scanEnd
    refine .cons ?_ (ih (i + 1))
    split
    · exact (test_rel hab e he false).1
    · exact hab

theorem updRange_rel (e : Event) (he : SE e) (lo hi : Nat) :
    ∀ {A : List (MT σ)} {B : List (MT τ)}, LRel A B → ∀ i, LRel (updRange e lo hi i A) (updRange e lo hi i B) := by
  intro A B h
  induction h with
  | nil => intro i; exact .nil
  | @cons a b A B hab hAB ih =>
    intro i
    unfold updRange
    refine .cons ?_ (ih (i + 1))
    split
    · exact (test_rel hab e he true).1
    · exact hab

theorem sim_retireAt : ∀ {A : List (MT σ)} {B : List (MT τ)}, LRel A B → ∀ i, LRel (retireAt i A) (retireAt i B) := by
  intro A B h
  induction h with
  | nil => intro i; cases i <;> exact .nil
  | @cons a b A B hab hAB ih =>
    intro i
    cases i with
    | zero => exact .cons (trel_retire hab) hAB
    | succ i => exact .cons hab (ih i)

theorem lrel_get : ∀ {A : List (MT σ)} {B : List (MT τ)}, LRel A B → ∀ i : Nat,
    (A[i]? = none ∧ B[i]? = none) ∨ ∃ a b, A[i]? = some a ∧ B[i]? = some b ∧ TRel a b := by
  intro A B h
  induction h with
  | nil => intro i; exact Or.inl ⟨rfl, rfl⟩
  | @cons a b A B hab hAB ih =>
    intro i
    cases i with
    | zero => exact Or.inr ⟨a, b, rfl, rfl, hab⟩
    | succ i => simpa using ih i

theorem lrel_snoc : ∀ {A : List (MT σ)} {B : List (MT τ)} {a : MT σ} {b : MT τ}, LRel A B → TRel a b →
    LRel (A ++ [a]) (B ++ [b]) := by
  intro A B a b h hab
  induction h with
  | nil => exact .cons hab .nil
  | cons h1 _ ih => exact .cons h1 ih

theorem lrel_length : ∀ {A : List (MT σ)} {B : List (MT τ)}, LRel A B → A.length = B.length := by
  intro A B h
  induction h with
  | nil => rfl
  | cons _ _ ih => simp [ih]

theorem irel_evItems (es : List Event) : IRel (evItems es : List (Item σ)) (evItems es : List (Item τ)) := by
  induction es with
  | nil => exact .nil
  | cons e es ih => exact .ev e ih

theorem irel_evs : ∀ {X : List (Item σ)} {Y : List (Item τ)}, IRel X Y → evs X = evs Y := by
  intro X Y h
  induction h with
  | nil => rfl
  | ev e _ ih => simp [ih]
  | reg _ _ ih => simp [ih]

/-- related results of `_strip` -/
def StripRel (x : Option (List (Item σ) × Event × List (Item σ))) (y : Option (List (Item τ) × Event × List (Item τ))) : Prop :=
  (x = none ∧ y = none) ∨
  ∃ a e b a' b', x = some (a, e, b) ∧ y = some (a', e, b') ∧ IRel a a' ∧ IRel b b'

theorem stripRel_map {x : Option (List (Item σ) × Event × List (Item σ))} {y : Option (List (Item τ) × Event × List (Item τ))}
    (h : StripRel x y) (i : Item σ) (j : Item τ) (hij : ∀ {a a'}, IRel a a' → IRel (i :: a) (j :: a')) :
    StripRel (x.map fun (a, e, b) => (i :: a, e, b)) (y.map fun (a, e, b) => (j :: a, e, b)) := by
  rcases h with ⟨rfl, rfl⟩ | ⟨a, e, b, a', b', rfl, rfl, h1, h2⟩
  · exact Or.inl ⟨rfl, rfl⟩
  · exact Or.inr ⟨_, e, b, _, b', rfl, rfl, hij h1, h2⟩

theorem strip_rel : ∀ {X : List (Item σ)} {Y : List (Item τ)}, IRel X Y → ∀ d, StripRel (strip d X) (strip d Y) := by
  intro X Y h
  induction h with
  | nil => intro d; exact Or.inl ⟨rfl, rfl⟩
  | @ev X Y e hXY ih =>
    intro d
    unfold strip
    by_cases hS : isStart e = true
    · simp only [hS, ↓reduceIte]
      exact stripRel_map (ih (d + 1)) _ _ (fun h => .ev e h)
    · simp only [hS, ↓reduceIte]
      by_cases hE : isEnd e = true
      · simp only [hE, ↓reduceIte]
        cases d with
        | zero => exact Or.inl ⟨rfl, rfl⟩
        | succ d' =>
          simp only
          by_cases hd : d' = 0
          · simp only [hd, ↓reduceIte]
            exact Or.inr ⟨[], e, X, [], Y, rfl, rfl, .nil, hXY⟩
          · simp only [hd, ↓reduceIte]
            exact stripRel_map (ih d') _ _ (fun h => .ev e h)
      · simp only [hE, ↓reduceIte]
        exact stripRel_map (ih d) _ _ (fun h => .ev e h)
  | @reg a b X Y hab hXY ih =>
    intro d
    unfold strip
    exact stripRel_map (ih d) _ _ (fun h => .reg hab h)

/-- related results of the filter: both fail, or both succeed with related lists and the same output -/
def ResRel (x : Option (List (MT σ) × List Event)) (y : Option (List (MT τ) × List Event)) : Prop :=
  (x = none ∧ y = none) ∨ ∃ A B o, x = some (A, o) ∧ y = some (B, o) ∧ LRel A B

theorem emit_rel {x : Option (List (MT σ) × List Event)} {y : Option (List (MT τ) × List Event)} (e : Event)
    (h : ResRel x y) : ResRel (emit e x) (emit e y) := by
  rcases h with ⟨rfl, rfl⟩ | ⟨A, B, o, rfl, rfl, h⟩
  · exact Or.inl ⟨rfl, rfl⟩
  · exact Or.inr ⟨A, B, e :: o, rfl, rfl, h⟩

theorem trel_preEnd {a : MT σ} {b : MT τ} (h : TRel a b) (idx : Nat) : preEnd a idx = preEnd b idx := by
  obtain ⟨R, _, _, _, ho, hr, _⟩ := h
  simp [preEnd, ho, hr]

theorem fired_rel {a : MT σ} {b : MT τ} (h : TRel a b) (idx : Nat) {A : List (MT σ)} {B : List (MT τ)}
    (hAB : LRel A B) : LRel (fired a idx A) (fired b idx B) := by
  obtain ⟨R, _, _, _, ho, _⟩ := h
  unfold fired
  rw [← ho]
  split
  · exact sim_retireAt hAB idx
  · exact hAB

/-- **Simulation.**  The filter over related item lists and related template lists: both runs fail, or
    both succeed with the same output and related template lists. -/
theorem run_rel : ∀ (f s : Nat) (en : Option Nat) {X : List (Item σ)} {Y : List (Item τ)} {A : List (MT σ)}
    {B : List (MT τ)}, IRel X Y → LRel A B → ResRel (run f s en X A) (run f s en Y B) := by
  intro f
  induction f with
  | zero => intro s en X Y A B _ _; exact Or.inl ⟨rfl, rfl⟩
  | succ f ih =>
    intro s en X Y A B hXY hAB
    cases hXY with
    | nil => exact Or.inr ⟨A, B, [], rfl, rfl, hAB⟩
    | @reg a b X Y hab hXY =>
      simp only [run]
      exact ih s en hXY (lrel_snoc hAB hab)
    | @ev X Y e hXY =>
      simp only [run]
      by_cases hS : isStart e = true
      · simp only [hS, ↓reduceIte]
        obtain ⟨h1, h2⟩ := sim_scan e (Or.inl hS) s en hAB 0
        revert h1 h2
        generalize scan e s en 0 A = sa
        generalize scan e s en 0 B = sb
        obtain ⟨A1, ia⟩ := sa
        obtain ⟨B1, ib⟩ := sb
        intro h1 h2
        simp only at h1 h2
        subst h2
        cases ia with
        | none => exact emit_rel e (ih s en hXY h1)
        | some idx =>
          simp only
          rcases lrel_get h1 idx with ⟨g1, g2⟩ | ⟨ta, tb, g1, g2, hab⟩
          · rw [g1, g2]; exact Or.inl ⟨rfl, rfl⟩
          · rw [g1, g2]
            simp only
            rcases strip_rel hXY 1 with ⟨e1, e2⟩ | ⟨inn, tl, rst, inn', rst', e1, e2, hin, hrst⟩
            · rw [e1, e2]; exact Or.inl ⟨rfl, rfl⟩
            · rw [e1, e2]
              simp only
              rw [trel_preEnd hab idx]
              rcases ih s (some (preEnd tb idx)) hin (fired_rel hab idx h1) with ⟨r1, r2⟩ | ⟨A3, B3, o3, r1, r2, h3⟩
              · rw [r1, r2]; exact Or.inl ⟨rfl, rfl⟩
              · rw [r1, r2]
                simp only
                have hbody : ta.body = tb.body := by obtain ⟨_, _, _, hb, _⟩ := hab; exact hb
                rw [hbody]
                rcases ih (idx + 1) en (irel_evItems (instantiate tb.body (e :: o3 ++ [tl]))) h3 with
                  ⟨q1, q2⟩ | ⟨A4, B4, o4, q1, q2, h4⟩
                · rw [q1, q2]; exact Or.inl ⟨rfl, rfl⟩
                · rw [q1, q2]
                  simp only
                  have htl : SE tl := Or.inr (strip_spec X 0 inn tl rst e1).2.1
                  rcases ih s en hrst (updRange_rel tl htl s (idx + 1) h4 0) with ⟨p1, p2⟩ | ⟨A5, B5, o5, p1, p2, h5⟩
                  · rw [p1, p2]; exact Or.inl ⟨rfl, rfl⟩
                  · rw [p1, p2]
                    exact Or.inr ⟨A5, B5, o4 ++ o5, rfl, rfl, h5⟩
      · simp only [hS, ↓reduceIte]
        by_cases hE : isEnd e = true
        · simp only [hE, ↓reduceIte]
          exact emit_rel e (ih s en hXY (scanEnd_rel e (Or.inr hE) s en hAB 0))
        · simp only [hE, ↓reduceIte]
          exact emit_rel e (ih s en hXY hAB)

/-- the firing condition of the tree specification is the same for a matcher and its simulation -/
theorem openSt_rel {a : MT σ} {b : MT τ} (R : σ → τ → Prop)
    (hstep : ∀ s t e u, SE e → R s t → R (a.step s e u).1 (b.step t e u).1 ∧ (a.step s e u).2 = (b.step t e u).2)
    {s0 : σ} {t0 : τ} (h0 : R s0 t0) : ∀ anc : List Open, R (openSt a.step s0 anc) (openSt b.step t0 anc) := by
  intro anc
  induction anc with
  | nil => exact h0
  | cons o anc ih => exact (hstep _ _ (.start o.1 o.2) false (Or.inl rfl) ih).1

end Genshi.Match

/-
  C12 — `once` as "replace the first match in document order" for the real matcher:
  `once_stage_is_onceList` carried through the simulation by the lawful abstraction.
-/
import Genshi.Lemmas.MatchRealOnce
import Genshi.Lemmas.MatchOnceTree
namespace Genshi.Match
open Genshi Genshi.Path

section
variable {σ τ : Type}

mutual
  theorem onceNode_sim {a : MT σ} {b : MT τ} (R : σ → τ → Prop)
      (hstep : ∀ s t e u, SE e → R s t → R (a.step s e u).1 (b.step t e u).1 ∧ (a.step s e u).2 = (b.step t e u).2)
      (hbody : a.body = b.body) {s0 : σ} {t0 : τ} (h0 : R s0 t0) :
      ∀ (n : Node) (anc : List Open), onceNode a s0 anc n = onceNode b t0 anc n
    | .leaf e, anc => rfl
    | .elem tg at_ kids, anc => by
        have hk := onceList_sim R hstep hbody h0 kids ((tg, at_) :: anc)
        have hv := (hstep _ _ (.start tg at_) false (Or.inl rfl) (openSt_rel (a := a) (b := b) R hstep h0 anc)).2
        simp only [onceNode, hv, hk, hbody]
  theorem onceList_sim {a : MT σ} {b : MT τ} (R : σ → τ → Prop)
      (hstep : ∀ s t e u, SE e → R s t → R (a.step s e u).1 (b.step t e u).1 ∧ (a.step s e u).2 = (b.step t e u).2)
      (hbody : a.body = b.body) {s0 : σ} {t0 : τ} (h0 : R s0 t0) :
      ∀ (ns : List Node) (anc : List Open), onceList a s0 anc ns = onceList b t0 anc ns
    | [], anc => rfl
    | n :: ns, anc => by
        simp only [onceList, onceNode_sim R hstep hbody h0 n anc, onceList_sim R hstep hbody h0 ns anc]
end

theorem onceList_trel {a : MT σ} {b : MT τ} (h : TRel a b) (ns : List Node) :
    onceList a a.st [] ns = onceList b b.st [] ns := by
  obtain ⟨R, hstep, hst, hb, _⟩ := h
  exact onceList_sim R hstep hb hst ns []

end

/-- **`once` = replace the first match, real matcher.**  Declarations without position tests, the
    declaration `d` of slot `i` with `once="true"`: on every forest the stage of slot `i` yields the
    forest in which the first element (document order) at which the real closure answers `True` — in the
    state reached along the element's ancestors — is replaced by the body, and nothing else. -/
theorem real_once_stage_is_onceList (ns : NsMap) (vs : Vars) (ds : List Decl) (hok : ∀ d ∈ ds, d.ok ns vs)
    (i : Nat) (d : Decl) (hd : ds[i]? = some d) (ho : d.hints.matchOnce = true)
    (f : Nat) (forest : List Node) (r : List (MT RSt) × List Event) (hns : okList forest = true)
    (h : run f i (some (i + 1)) (evItems (flattenList forest)) (ds.map (Decl.real ns vs)) = some r) :
    r.2 = (onceList (d.real ns vs) (d.real ns vs).st [] forest).1 := by
  have hL := decls_lrel ns vs ds hok
  have hdok := hok d (List.mem_of_getElem? hd)
  have htr : TRel (d.real ns vs) (d.abs ns vs) := real_trel ns vs d.paths d.body d.hints d.force hdok
  have hl : Lawful (d.abs ns vs) := abs_lawful ns vs d.paths d.body d.hints d.force hdok
  rcases run_rel f i (some (i + 1)) (irel_evItems (σ := RSt) (τ := List AM) (flattenList forest)) hL with
    ⟨h1, _⟩ | ⟨A, B, o, h1, h2, _⟩
  · rw [h1] at h; cases h
  · rw [h1] at h
    cases h
    have hslot : SlotAt i (d.abs ns vs) (d.abs ns vs).st [] (ds.map (Decl.abs ns vs)) :=
      ⟨d.abs ns vs, by rw [List.getElem?_map, hd]; rfl, Shape.refl _, rfl, rfl⟩
    have := (once_stage_is_onceList (d.abs ns vs) (d.abs ns vs).st i hl ho f forest [] _ (B, o) hns hslot h2).1
    simp only at this
    rw [this, onceList_trel htr forest]

end Genshi.Match

/-
  C04: failing renders, reverse direction — when the implementation model fails, the
  documentation semantics fails too (it terminates with an error).
-/
import Genshi.Lemmas.TmplSimRev
import Genshi.Lemmas.TmplDocErrRules
namespace Genshi.Tmpl

def RevE (m : Nat) (T : DTask) : Prop :=
  ∀ (loc : Env) (d : DSt) (st : St) (e : Err),
    run m (taskOf T) st = .error e → e ≠ .fuel → TaskWF T → loc = st.scopes.flatten → SimG d st →
    BindsPre T st → DErr T loc d

theorem run_err_pos {m : Nat} {t : ITask} {st : St} {e : Err} (h : run m t st = .error e) (he : e ≠ .fuel) :
    ∃ k, m = k + 1 := by
  cases m with
  | zero => simp [run] at h; exact absurd h.symm he
  | succ k => exact ⟨k, rfl⟩

theorem ev_start_no_err {t a} {m : Nat} {st : St} {e : Err}
    (h : run m (.ev (.start t a)) st = .error e) (he : e ≠ .fuel) : False := by
  obtain ⟨k, rfl⟩ := run_err_pos h he; simp [run] at h

theorem ev_end_no_err {t} {m : Nat} {st : St} {e : Err}
    (h : run m (.ev (.end_ t)) st = .error e) (he : e ≠ .fuel) : False := by
  obtain ⟨k, rfl⟩ := run_err_pos h he; simp [run] at h

theorem ev_text_no_err {s} {m : Nat} {st : St} {e : Err}
    (h : run m (.ev (.text s)) st = .error e) (he : e ≠ .fuel) : False := by
  obtain ⟨k, rfl⟩ := run_err_pos h he; simp [run] at h

theorem flat_nil_no_err {m : Nat} {st : St} {e : Err}
    (h : run m (.flat []) st = .error e) (he : e ≠ .fuel) : False := by
  obtain ⟨k, rfl⟩ := run_err_pos h he; simp [run] at h

theorem flat_single_err {c : CEv} {m : Nat} {st : St} {e : Err}
    (h : run (m + 1) (.flat [c]) st = .error e) (he : e ≠ .fuel) : run m (.ev c) st = .error e := by
  simp only [run, seq_err] at h
  rcases h with h | ⟨o1, s1, _, h2⟩
  · exact h
  · exact absurd h2 (fun h2 => flat_nil_no_err h2 he)

/-- splitting a failing flattened concatenation keeps the fuel -/
theorem flat_append_split_err {a b : List CEv} : ∀ {m : Nat} {st : St} {e : Err},
    run m (.flat (a ++ b)) st = .error e → e ≠ .fuel →
    run m (.flat a) st = .error e ∨
      ∃ o1 s1, run m (.flat a) st = .ok (o1, s1) ∧ run m (.flat b) s1 = .error e := by
  induction a with
  | nil =>
    intro m st e h he
    obtain ⟨k, rfl⟩ := run_err_pos h he
    exact Or.inr ⟨[], st, rfl, by simpa using h⟩
  | cons c a ih =>
    intro m st e h he
    obtain ⟨k, rfl⟩ := run_err_pos h he
    simp only [List.cons_append, run, seq_err] at h
    rcases h with h | ⟨o1, s1, h1, h2⟩
    · exact Or.inl (by simp only [run, seq_err]; exact Or.inl h)
    · rcases ih h2 he with h3 | ⟨p1, t1, h3, h4⟩
      · exact Or.inl (by simp only [run, seq_err]; exact Or.inr ⟨o1, s1, h1, h3⟩)
      · refine Or.inr ⟨o1 ++ p1, t1, ?_, IErr.lift h4 he (Nat.le_succ k)⟩
        simp only [run, seq_ok]
        exact ⟨o1, s1, p1, h1, h3, rfl⟩

theorem revFErr (m : Nat) (ih : ∀ k, k < m → ∀ T, RevE k T) :
    ∀ k, k < m → ∀ (t : Target) (loc : Env) (d : DSt) (st : St) (e : Err),
      run k (.flat (targetBody t)) st = .error e → e ≠ .fuel → wfNodes t.kids = true →
      loc = st.scopes.flatten → SimG d st → DErr (.dirs [] t) loc d := by
  intro k hk t loc d st e h he hwf hl hg
  cases t with
  | frag kids => exact DErr.dirs_nil_frag (ih k hk (.nodes kids) loc d st e h he hwf hl hg trivial)
  | elem tag attrs kids =>
    obtain ⟨j, rfl⟩ := run_err_pos h he
    simp only [targetBody, run, seq_err] at h
    rcases h with h | ⟨o1, s1, h1, h2⟩
    · exact absurd h (fun h => ev_start_no_err h he)
    · obtain ⟨rfl, rfl⟩ := ev_start_inv h1
      rcases flat_append_split_err h2 he with h3 | ⟨p1, t1, _, h4⟩
      · exact DErr.dirs_nil_elem (ih j (by omega) (.nodes kids) loc d s1 e h3 he hwf hl hg trivial)
      · obtain ⟨i, rfl⟩ := run_err_pos h4 he
        exact absurd (flat_single_err h4 he) (fun h => ev_end_no_err h he)

/-- after `py:replace`: a failure of the remaining pass-through directives is a failure of the
    single EXPR event -/
theorem passthrough_inv_err {x : XExpr} : ∀ (D : List Dir), StrictSorted D → (∀ d ∈ D, 8 < d.rank) →
    ∀ {k : Nat} {st : St} {e : Err},
    run (k + 1) (.apply (attach D [.xexpr x]).1 [.xexpr x]) st = .error e → e ≠ .fuel →
    ∃ j, j ≤ k ∧ run j (.ev (.xexpr x)) st = .error e := by
  have hflat : ∀ {k : Nat} {st : St} {e : Err},
      run k (.flat [.xexpr x]) st = .error e → e ≠ .fuel → ∃ j, j ≤ k ∧ run j (.ev (.xexpr x)) st = .error e := by
    intro k st e h he
    obtain ⟨i, rfl⟩ := run_err_pos h he
    exact ⟨i, by omega, flat_single_err h he⟩
  intro D
  induction D with
  | nil =>
    intro _ _ k st e h he
    simp only [attach, run] at h
    exact hflat h he
  | cons dd D ih =>
    intro hs hr k st e h he
    have hd := hr dd (List.mem_cons_self ..)
    cases dd <;> simp [Dir.rank] at hd
    · simp only [attach] at h
      exact ih hs.tail (fun y hy => hr y (List.mem_cons_of_mem _ hy)) h he
    · rcases sorted_after_attrs hs with rfl | ⟨c, rfl⟩
      · simp only [attach, run, attrsHead, bind, Except.bind] at h
        obtain ⟨j, hj, h2⟩ := hflat h he
        exact ⟨j, by omega, h2⟩
      · simp only [attach, run, attrsHead, stripBody, bind, Except.bind] at h
        obtain ⟨j, hj, h2⟩ := hflat h he
        exact ⟨j, by omega, h2⟩
    · rw [sorted_after_strip hs] at h
      simp only [attach, run, stripBody, bind, Except.bind] at h
      obtain ⟨j, hj, h2⟩ := hflat h he
      exact ⟨j, by omega, h2⟩

theorem revDirsErr (m : Nat) (ih : ∀ k, k < m → ∀ T, RevE k T) :
    ∀ (D : List Dir) (t : Target), RevE m (.dirs D t) := by
  intro D
  induction D with
  | nil =>
    intro t loc d st e h he hwf hl hg _
    have hdw : DirsWF [] t := hwf
    obtain ⟨k, rfl⟩ := run_err_pos h he
    simp only [taskOf, attach, run] at h
    exact revFErr (k + 1) ih k (by omega) t loc d st e h he hdw.wf hl hg
  | cons dd D ihD =>
    intro t loc d st e h he hwf hl hg _
    have hdw : DirsWF (dd :: D) t := hwf
    have hdt : DirsWF D t := hdw.tail
    have hlook := look_sim hl hg.glob
    obtain ⟨k, rfl⟩ := run_err_pos h he
    have hk : k < k + 1 := Nat.lt_succ_self k
    cases dd with
    | def_ name params =>
      simp [taskOf, attach_keep (.def_ name params) D _ (by simp [Dir.rank]), run] at h
    | when e0 =>
      simp only [taskOf, attach_keep (.when e0) D _ (by simp [Dir.rank]), run] at h
      cases hcs : st.choice with
      | nil =>
        have hch : d.ch = none := by rw [hg.ch, hcs]; rfl
        exact DErr.now (e := .runtime) (by simp [doc, hch]) (by simp)
      | cons c cs =>
        simp only [hcs] at h
        have hch : d.ch = some c := by rw [hg.ch, hcs]; rfl
        cases hm : c.matched with
        | true => simp [hm] at h
        | false =>
          simp only [hm, Bool.false_eq_true, if_false] at h
          split at h
          · -- neither choose nor when has a test
            rename_i htest
            have hw : whenMatches (dlook loc d) c e0 = .error .runtime := by
              simp only [Bool.and_eq_true, Bool.not_eq_true', Option.isNone_iff_eq_none] at htest
              simp [whenMatches, htest.1, htest.2]
            exact DErr.now (e := .runtime) (by simp [doc, hch, hm, hw, bind, Except.bind]) (by simp)
          · simp only [bind_err] at h
            rw [← hlook] at h
            rcases h with h | ⟨mm, hmm, h⟩
            · exact DErr.now (by simp [doc, hch, hm, h, bind, Except.bind]) he
            · cases mm with
              | true =>
                simp only [if_true] at h
                have r := ih k hk (.dirs D t) loc (d.setMatched c true) (st.setMatched c cs true) e h he hdt
                  (by simpa [St.setMatched] using hl) (hg.setMatched c cs true) trivial
                exact DErr.when_hit hch hm hmm r
              | false => simp [pure, Except.pure] at h
    | otherwise =>
      simp only [taskOf, attach_keep .otherwise D _ (by simp [Dir.rank]), run] at h
      cases hcs : st.choice with
      | nil =>
        have hch : d.ch = none := by rw [hg.ch, hcs]; rfl
        exact DErr.now (e := .runtime) (by simp [doc, hch]) (by simp)
      | cons c cs =>
        simp only [hcs] at h
        have hch : d.ch = some c := by rw [hg.ch, hcs]; rfl
        cases hm : c.matched with
        | true => simp [hm] at h
        | false =>
          simp only [hm, Bool.false_eq_true, if_false] at h
          have r := ih k hk (.dirs D t) loc (d.setMatched c true) (st.setMatched c cs true) e h he hdt
            (by simpa [St.setMatched] using hl) (hg.setMatched c cs true) trivial
          exact DErr.otherwise_hit hch hm r
    | for_ v e0 =>
      simp only [taskOf, attach_keep (.for_ v e0) D _ (by simp [Dir.rank]), run, bind_err] at h
      rw [← hlook] at h
      rcases h with h | ⟨it, hit, h | ⟨items, hitems, h⟩⟩
      · exact DErr.now (by simp [doc, h, bind, Except.bind]) he
      · exact DErr.now (by simp [doc, hit, h, bind, Except.bind]) he
      · exact DErr.for_ hit hitems (ih k hk (.loop v items D t) loc d st e h he hdt hl hg trivial)
    | if_ e0 =>
      simp only [taskOf, attach_keep (.if_ e0) D _ (by simp [Dir.rank]), run, bind_err] at h
      rw [← hlook] at h
      rcases h with h | ⟨v, hv, h⟩
      · exact DErr.now (by simp [doc, h, bind, Except.bind]) he
      · cases ht : v.truthy with
        | true =>
          simp only [ht, if_true] at h
          exact DErr.if_true hv ht (ih k hk (.dirs D t) loc d st e h he hdt hl hg trivial)
        | false => simp [ht, pure, Except.pure] at h
    | choose e0 =>
      simp only [taskOf, attach_keep (.choose e0) D _ (by simp [Dir.rank]), run, bind_err, mapSt_err] at h
      rw [← hlook] at h
      rcases h with h | ⟨v, hv, h⟩
      · exact DErr.now (by simp [doc, h, bind, Except.bind]) he
      · have hg0 : SimG { d with ch := some ⟨false, e0.isSome, v⟩ }
            { st with choice := ⟨false, e0.isSome, v⟩ :: st.choice } := ⟨hg.glob, rfl, hg.mlen, hg.macros⟩
        exact DErr.choose hv (ih k hk (.dirs D t) loc _ _ e h he hdt hl hg0 trivial)
    | with_ bs =>
      simp only [taskOf, attach_keep (.with_ bs) D _ (by simp [Dir.rank]), run, mapSt_err] at h
      exact DErr.with_ (ih k hk (.binds bs D t) loc d (st.push []) e h he hdt
        (by simp [St.push, hl]) (hg.of_same rfl rfl rfl) (by simp [BindsPre, St.push]))
    | replace x =>
      have hr : ∀ y ∈ D, 8 < y.rank := fun y hy => by simpa [Dir.rank] using hdw.sorted.head_lt y hy
      simp only [taskOf, attach] at h
      rw [attach_xexpr_snd x D hr] at h
      obtain ⟨j, hj, h2⟩ := passthrough_inv_err D hdt.sorted hr h he
      exact DErr.replace (ih j (by omega) (.xexpr x) loc d st e h2 he trivial hl hg trivial)
    | content x =>
      cases t with
      | frag kids =>
        have := hdw.tok (.content x) (List.mem_cons_self ..)
        simp [Dir.elemOnly] at this
      | elem tag attrs kids =>
        have hdt' : DirsWF D (.elem tag attrs [.expr x]) :=
          ⟨hdt.sorted, trivial, by simp [Target.kids, wfNodes, wfNode]⟩
        have h' : run (k + 1) (taskOf (.dirs D (.elem tag attrs [.expr x]))) st = .error e := by
          simp only [taskOf, targetBody, attach, getLast_body] at h ⊢
          simpa [compileNodes, compileNode] using h
        exact DErr.content_elem (ihD (.elem tag attrs [.expr x]) loc d st e h' he hdt' hl hg trivial)
    | attrs e0 =>
      cases t with
      | frag kids =>
        have := hdw.tok (.attrs e0) (List.mem_cons_self ..)
        simp [Dir.elemOnly] at this
      | elem tag attrs kids =>
        rcases sorted_after_attrs hdw.sorted with rfl | ⟨c, rfl⟩
        · simp only [taskOf, attach, targetBody, run, attrsHead, bind_err, pure, Except.pure] at h
          rw [← hlook] at h
          rcases h with (h | ⟨v, hv, h | ⟨ps, hps, h⟩⟩) | ⟨b, hb', h⟩
          · exact DErr.now (by simp [doc, h, bind, Except.bind]) he
          · exact DErr.now (by simp [doc, hv, h, bind, Except.bind]) he
          · cases h
          · simp only [bind_ok, Except.ok.injEq] at hb'
            obtain ⟨v, hv, ps, hps, rfl⟩ := hb'
            exact DErr.attrs_elem hv hps (revFErr (k + 1) ih k hk
              (.elem tag (Genshi.Escape.Attrs.or attrs ps) kids) loc d st e h he hdt.wf hl hg)
        · simp only [taskOf, attach, targetBody, run, attrsHead, bind_err, pure, Except.pure] at h
          rw [← hlook] at h
          rcases h with (h | ⟨v, hv, h | ⟨ps, hps, h⟩⟩) | ⟨b, hb', h⟩
          · exact DErr.now (by simp [doc, h, bind, Except.bind]) he
          · exact DErr.now (by simp [doc, hv, h, bind, Except.bind]) he
          · cases h
          · simp only [bind_ok, Except.ok.injEq] at hb'
            obtain ⟨v, hv, ps, hps, rfl⟩ := hb'
            refine DErr.attrs_elem hv hps ?_
            simp only [stripBody, bind_err, bind_ok] at h
            rcases h with (h | ⟨cond, hcond, h⟩) | ⟨b', ⟨cond, hcond, hb2⟩, h⟩
            · exact DErr.now (by simp [doc, h, bind, Except.bind]) he
            · cases cond with
              | true =>
                simp only [if_true] at h
                cases hck : compileNodes kids ++ [CEv.end_ tag] with
                | nil => exact absurd hck (body_ne_nil _ _)
                | cons c1 r1 => rw [hck] at h; simp [pure, Except.pure] at h
              | false => simp [pure, Except.pure] at h
            · cases cond with
              | true =>
                simp only [if_true] at hb2
                cases hck : compileNodes kids ++ [CEv.end_ tag] with
                | nil => exact absurd hck (body_ne_nil _ _)
                | cons c1 r1 =>
                  rw [hck] at hb2
                  simp only [pure, Except.pure, Except.ok.injEq] at hb2
                  have hdl : b' = compileNodes kids := by rw [← hb2, ← hck]; simp
                  subst hdl
                  refine DErr.strip_elem (b := true) hcond ?_
                  simpa using revFErr (k + 1) ih k hk (.frag kids) loc d st e h he hdt.wf hl hg
              | false =>
                simp only [Bool.false_eq_true, if_false, pure, Except.pure, Except.ok.injEq] at hb2
                subst hb2
                refine DErr.strip_elem (b := false) hcond ?_
                simpa using revFErr (k + 1) ih k hk (.elem tag (Genshi.Escape.Attrs.or attrs ps) kids)
                  loc d st e h he hdt.wf hl hg
    | strip c =>
      cases t with
      | frag kids =>
        have := hdw.tok (.strip c) (List.mem_cons_self ..)
        simp [Dir.elemOnly] at this
      | elem tag attrs kids =>
        have hnil := sorted_after_strip hdw.sorted
        subst hnil
        simp only [taskOf, attach, targetBody, run, bind_err] at h
        rcases h with h | ⟨b', hb', h⟩
        · simp only [stripBody, bind_err] at h
          rw [← hlook] at h
          rcases h with h | ⟨cond, hcond, h⟩
          · exact DErr.now (by simp [doc, h, bind, Except.bind]) he
          · cases cond with
            | true =>
              simp only [if_true] at h
              cases hck : compileNodes kids ++ [CEv.end_ tag] with
              | nil => exact absurd hck (body_ne_nil _ _)
              | cons c1 r1 => rw [hck] at h; simp [pure, Except.pure] at h
            | false => simp [pure, Except.pure] at h
        · simp only [stripBody, bind_ok] at hb'
          rw [← hlook] at hb'
          obtain ⟨cond, hcond, hb2⟩ := hb'
          cases cond with
          | true =>
            simp only [if_true] at hb2
            cases hck : compileNodes kids ++ [CEv.end_ tag] with
            | nil => exact absurd hck (body_ne_nil _ _)
            | cons c1 r1 =>
              rw [hck] at hb2
              simp only [pure, Except.pure, Except.ok.injEq] at hb2
              have hdl : b' = compileNodes kids := by rw [← hb2, ← hck]; simp
              subst hdl
              refine DErr.strip_elem (b := true) hcond ?_
              simpa using revFErr (k + 1) ih k hk (.frag kids) loc d st e h he hdt.wf hl hg
          | false =>
            simp only [Bool.false_eq_true, if_false, pure, Except.pure, Except.ok.injEq] at hb2
            subst hb2
            refine DErr.strip_elem (b := false) hcond ?_
            simpa using revFErr (k + 1) ih k hk (.elem tag attrs kids) loc d st e h he hdt.wf hl hg

theorem revElemBodyErr (m : Nat) (ih : ∀ k, k < m → ∀ T, RevE k T) (tag : Name) (attrs : List (Name × Str))
    (kids : List TNode) (loc : Env) (d : DSt) (st : St) (e : Err)
    (h : run m (.flat (targetBody (.elem tag attrs kids))) st = .error e) (he : e ≠ .fuel)
    (hwf : wfNodes kids = true) (hl : loc = st.scopes.flatten) (hg : SimG d st) :
    DErr (.dirs [] (.elem tag attrs kids)) loc d := by
  obtain ⟨j, rfl⟩ := run_err_pos h he
  simp only [targetBody, run, seq_err] at h
  rcases h with h | ⟨o1, s1, h1, h2⟩
  · exact absurd h (fun h => ev_start_no_err h he)
  · obtain ⟨rfl, rfl⟩ := ev_start_inv h1
    rcases flat_append_split_err h2 he with h3 | ⟨p1, t1, _, h4⟩
    · exact DErr.dirs_nil_elem (ih j (by omega) (.nodes kids) loc d s1 e h3 he hwf hl hg trivial)
    · obtain ⟨i, rfl⟩ := run_err_pos h4 he
      exact absurd (flat_single_err h4 he) (fun h => ev_end_no_err h he)

theorem revInlineErr (m : Nat) (ih : ∀ k, k < m → ∀ T, RevE k T) :
    ∀ (D : List Dir) (t : Target), DirsWF D t → (attach D (targetBody t)).1 = [] →
      (D = [] → ∃ tag attrs kids, t = .elem tag attrs kids) →
      ∀ (loc : Env) (d : DSt) (st : St) (e : Err),
      run m (.flat (attach D (targetBody t)).2) st = .error e → e ≠ .fuel →
      loc = st.scopes.flatten → SimG d st → DErr (.dirs D t) loc d := by
  intro D
  induction D with
  | nil =>
    intro t hdw _ hel loc d st e h he hl hg
    obtain ⟨tag, attrs, kids, rfl⟩ := hel rfl
    exact revElemBodyErr m ih tag attrs kids loc d st e (by simpa [attach] using h) he hdw.wf hl hg
  | cons dd D ihD =>
    intro t hdw hnil _ loc d st e h he hl hg
    have hdt := hdw.tail
    cases dd with
    | replace x =>
      have hr : ∀ y ∈ D, 8 < y.rank := fun y hy => by simpa [Dir.rank] using hdw.sorted.head_lt y hy
      simp only [attach] at h
      rw [attach_xexpr_snd x D hr] at h
      obtain ⟨k, rfl⟩ := run_err_pos h he
      exact DErr.replace (ih k (Nat.lt_succ_self k) (.xexpr x) loc d st e (flat_single_err h he) he trivial hl hg
        trivial)
    | content x =>
      cases t with
      | frag kids =>
        have := hdw.tok (.content x) (List.mem_cons_self ..)
        simp [Dir.elemOnly] at this
      | elem tag attrs kids =>
        have hdt' : DirsWF D (.elem tag attrs [.expr x]) :=
          ⟨hdt.sorted, trivial, by simp [Target.kids, wfNodes, wfNode]⟩
        have heq : attach (.content x :: D) (targetBody (.elem tag attrs kids)) =
            attach D (targetBody (.elem tag attrs [.expr x])) := by
          simp only [targetBody, attach, getLast_body]
          simp [compileNodes, compileNode]
        rw [heq] at h hnil
        exact DErr.content_elem (ihD _ hdt' hnil (fun _ => ⟨tag, attrs, [.expr x], rfl⟩) loc d st e h he hl hg)
    | def_ n ps => rw [attach_keep _ D _ (by simp [Dir.rank])] at hnil; simp at hnil
    | when e0 => rw [attach_keep _ D _ (by simp [Dir.rank])] at hnil; simp at hnil
    | otherwise => rw [attach_keep _ D _ (by simp [Dir.rank])] at hnil; simp at hnil
    | for_ v e0 => rw [attach_keep _ D _ (by simp [Dir.rank])] at hnil; simp at hnil
    | if_ e0 => rw [attach_keep _ D _ (by simp [Dir.rank])] at hnil; simp at hnil
    | choose e0 => rw [attach_keep _ D _ (by simp [Dir.rank])] at hnil; simp at hnil
    | with_ bs => rw [attach_keep _ D _ (by simp [Dir.rank])] at hnil; simp at hnil
    | attrs e0 => rw [attach_keep _ D _ (by simp [Dir.rank])] at hnil; simp at hnil
    | strip c => rw [attach_keep _ D _ (by simp [Dir.rank])] at hnil; simp at hnil

/-- the head node of a failing flattened node list: either the node itself fails, or it renders
    and the rest of the list fails -/
theorem revNodeHeadErr (m : Nat) (ih : ∀ k, k < m + 1 → ∀ T, RevE k T) (nd : TNode) (R : List CEv)
    (loc : Env) (d : DSt) (st : St) (e : Err)
    (h : run (m + 1) (.flat (compileNode nd ++ R)) st = .error e) (he : e ≠ .fuel)
    (hwf : wfNode nd = true) (hl : loc = st.scopes.flatten) (hg : SimG d st) :
    DErr (.node nd) loc d ∨
      ∃ o1 s1 d1, DOk (.node nd) loc d o1 d1 ∧ SimG d1 s1 ∧ s1.scopes = st.scopes ∧
        run m (.flat R) s1 = .error e := by
  have hrev : ∀ k, k < m + 1 → ∀ T, RevQ k T := fun k _ T => sim_rev k T
  have hsub : ∀ (D : List Dir) (t : Target), DirsWF D t →
      (D = [] → ∃ tag attrs kids, t = .elem tag attrs kids) →
      (∀ o1 d1, DOk (.dirs D t) loc d o1 d1 → DOk (.node nd) loc d o1 d1) →
      (DErr (.dirs D t) loc d → DErr (.node nd) loc d) →
      compileNode nd = mkSub (attach D (targetBody t)).1 (attach D (targetBody t)).2 →
      DErr (.node nd) loc d ∨
        ∃ o1 s1 d1, DOk (.node nd) loc d o1 d1 ∧ SimG d1 s1 ∧ s1.scopes = st.scopes ∧
          run m (.flat R) s1 = .error e := by
    intro D t hdw hel hnode hnodeE hc
    rw [hc] at h
    unfold mkSub at h
    split at h
    · rename_i hemp
      have hnil : (attach D (targetBody t)).1 = [] := by simpa using hemp
      have hbne : (attach D (targetBody t)).2 ≠ [] := by
        cases t with
        | elem tag attrs kids => exact attach_snd_ne_nil _ _ (by simp [targetBody])
        | frag kids =>
          cases D with
          | nil => obtain ⟨_, _, _, hh⟩ := hel rfl; cases hh
          | cons dd D' =>
            have htok := hdw.tok dd (List.mem_cons_self ..)
            cases dd with
            | replace x => simp only [attach]; exact attach_snd_ne_nil D' _ (by simp)
            | content x => simp [Dir.elemOnly] at htok
            | attrs e0 => simp [Dir.elemOnly] at htok
            | strip c => simp [Dir.elemOnly] at htok
            | def_ n ps => rw [attach_keep _ D' _ (by simp [Dir.rank])] at hnil; simp at hnil
            | when e0 => rw [attach_keep _ D' _ (by simp [Dir.rank])] at hnil; simp at hnil
            | otherwise => rw [attach_keep _ D' _ (by simp [Dir.rank])] at hnil; simp at hnil
            | for_ v e0 => rw [attach_keep _ D' _ (by simp [Dir.rank])] at hnil; simp at hnil
            | if_ e0 => rw [attach_keep _ D' _ (by simp [Dir.rank])] at hnil; simp at hnil
            | choose e0 => rw [attach_keep _ D' _ (by simp [Dir.rank])] at hnil; simp at hnil
            | with_ bs => rw [attach_keep _ D' _ (by simp [Dir.rank])] at hnil; simp at hnil
      cases hb : (attach D (targetBody t)).2 with
      | nil => exact absurd hb hbne
      | cons e1 b2 =>
        rw [hb] at h
        simp only [List.cons_append, run, seq_err] at h
        rcases h with h1 | ⟨p1, t1, h1, h23⟩
        · have hfull : run (m + 1) (.flat (attach D (targetBody t)).2) st = .error e := by
            rw [hb]; simp only [run, seq_err]; exact Or.inl h1
          exact Or.inl (hnodeE (revInlineErr (m + 1) ih D t hdw hnil hel loc d st e hfull he hl hg))
        · rcases flat_append_split_err h23 he with h2 | ⟨p2, t2, h2, h3⟩
          · have hfull : run (m + 1) (.flat (attach D (targetBody t)).2) st = .error e := by
              rw [hb]; simp only [run, seq_err]; exact Or.inr ⟨p1, t1, h1, h2⟩
            exact Or.inl (hnodeE (revInlineErr (m + 1) ih D t hdw hnil hel loc d st e hfull he hl hg))
          · have hfull : run (m + 1) (.flat (attach D (targetBody t)).2) st = .ok (p1 ++ p2, t2) := by
              rw [hb]; simp only [run, seq_ok]; exact ⟨p1, t1, p2, h1, h2, rfl⟩
            obtain ⟨d1, h4, g1⟩ := revInline (m + 1) hrev D t hdw hnil hel loc d st _ t2 hfull hl hg
            exact Or.inr ⟨p1 ++ p2, t2, d1, hnode _ _ h4, g1, run_scopes (m + 1) _ _ _ _ hfull, h3⟩
    · simp only [List.cons_append, List.nil_append, run, seq_err] at h
      rcases h with h1 | ⟨o1, s1, h1, h2⟩
      · obtain ⟨i, rfl⟩ := run_err_pos h1 he
        simp only [run] at h1
        exact Or.inl (hnodeE (ih i (by omega) (.dirs D t) loc d st e h1 he hdw hl hg trivial))
      · obtain ⟨i, rfl⟩ := run_pos h1
        simp only [run] at h1
        obtain ⟨d1, h3, g1⟩ := sim_rev i (.dirs D t) loc d st o1 s1 h1 hdw hl hg trivial
        exact Or.inr ⟨o1, s1, d1, hnode _ _ h3, g1, run_scopes i _ _ _ _ h1, h2⟩
  cases nd with
  | text s =>
    simp only [compileNode, List.cons_append, List.nil_append, run, seq_err] at h
    rcases h with h1 | ⟨o1, s1, h1, h2⟩
    · exact absurd h1 (fun h1 => ev_text_no_err h1 he)
    · obtain ⟨i, rfl⟩ := run_pos h1
      simp only [run, Except.ok.injEq, Prod.mk.injEq] at h1
      obtain ⟨rfl, rfl⟩ := h1
      exact Or.inr ⟨_, st, d, DOk.node_text s loc d, hg, rfl, h2⟩
  | expr x =>
    simp only [compileNode, List.cons_append, List.nil_append, run, seq_err] at h
    rcases h with h1 | ⟨o1, s1, h1, h2⟩
    · exact Or.inl (DErr.node_expr (ih m (Nat.lt_succ_self m) (.xexpr x) loc d st e h1 he trivial hl hg trivial))
    · obtain ⟨d1, h3, g1⟩ := sim_rev m (.xexpr x) loc d st o1 s1 h1 trivial hl hg trivial
      exact Or.inr ⟨o1, s1, d1, DOk.node_expr h3, g1, run_scopes m _ _ _ _ h1, h2⟩
  | elem tag attrs dirs kids =>
    have hw : wfNode (.elem tag attrs dirs kids) = true := hwf
    simp only [wfNode, Bool.and_eq_true, decide_eq_true_eq] at hw
    have hdw : DirsWF (sortBy Dir.docIdx dirs) (.elem tag attrs kids) :=
      ⟨sortBy_docIdx_strict dirs hw.1, trivial, hw.2⟩
    exact hsub _ _ hdw (fun _ => ⟨tag, attrs, kids, rfl⟩) (fun _ _ hh => DOk.node_elem hh) DErr.node_elem
      (by simp only [compileNode, implIdx_eq_docIdx, targetBody])
  | delem dd kids =>
    have hw : wfNode (.delem dd kids) = true := hwf
    simp only [wfNode, Bool.and_eq_true, Bool.not_eq_true'] at hw
    have hdw : DirsWF [dd] (.frag kids) :=
      ⟨by simp [StrictSorted], by intro x hx; simp at hx; subst hx; exact hw.1, hw.2⟩
    exact hsub _ _ hdw (by simp) (fun _ _ hh => DOk.node_delem hh) DErr.node_delem
      (by simp only [compileNode, targetBody])

theorem sim_rev_err : ∀ (m : Nat) (T : DTask), RevE m T := by
  intro m
  induction m using Nat.strongRecOn with
  | ind m ih =>
    intro T loc d st e h he hwf hl hg hb
    obtain ⟨k, rfl⟩ := run_err_pos h he
    have hk : k < k + 1 := Nat.lt_succ_self k
    have hlook := look_sim hl hg.glob
    cases T with
    | dirs D t => exact revDirsErr (k + 1) ih D t loc d st e h he hwf hl hg hb
    | nodes ns =>
      cases ns with
      | nil => simp [taskOf, compileNodes, run] at h
      | cons nd rest =>
        obtain ⟨w1, w2⟩ := wfNodes_cons hwf
        simp only [taskOf, compileNodes_cons] at h
        rcases revNodeHeadErr k ih nd _ loc d st e h he w1 hl hg with h1 | ⟨o1, s1, d1, h1, g1, hs1, h2⟩
        · exact DErr.nodes_left h1
        · exact DErr.nodes_right h1 (ih k hk (.nodes rest) loc d1 s1 e h2 he w2 (by rw [hs1]; exact hl) g1 trivial)
    | node nd =>
      have h' : run (k + 1) (.flat (compileNode nd ++ [])) st = .error e := by simpa [taskOf] using h
      rcases revNodeHeadErr k ih nd [] loc d st e h' he hwf hl hg with h1 | ⟨o1, s1, d1, _, _, _, h2⟩
      · exact h1
      · exact absurd h2 (fun h2 => flat_nil_no_err h2 he)
    | xexpr x =>
      cases x with
      | pure e0 =>
        simp only [taskOf, run, bind_err, pure, Except.pure] at h
        rw [← hlook] at h
        rcases h with h | ⟨v, hv, h | ⟨out, hout, h⟩⟩
        · exact DErr.now (by simp [doc, h, bind, Except.bind]) he
        · exact DErr.now (by simp [doc, hv, h, bind, Except.bind]) he
        · cases h
      | call f args =>
        simp only [taskOf, run, bind_err, mapSt_err] at h
        rcases h with h | ⟨fv, hfv, h | ⟨vs, hvs, h | ⟨mc, hmc, h | ⟨scope, hsc, h⟩⟩⟩⟩
        · rw [← hlook] at h
          exact DErr.now (by simp [doc, h, bind, Except.bind]) he
        · rw [← hlook] at h hfv
          exact DErr.now (by simp [doc, hfv, h, bind, Except.bind]) he
        · -- the callee is not a macro
          rw [← hlook] at hvs hfv
          have : getDMacro d fv = .error e := by
            cases fv with
            | «macro» i =>
              simp only [getMacro] at h
              simp only [getDMacro]
              cases hi : st.macros[i]? with
              | some mc => simp [hi] at h
              | none =>
                have : d.macros[i]? = none := by
                  rw [List.getElem?_eq_none_iff] at hi ⊢; rw [hg.mlen]; exact hi
                simp [hi] at h; simp [this, h]
            | atom a => simpa [getDMacro, getMacro] using h
            | list xs => simpa [getDMacro, getMacro] using h
            | dict kv => simpa [getDMacro, getMacro] using h
            | undef => simpa [getDMacro, getMacro] using h
          exact DErr.now (by simp [doc, hfv, hvs, this, bind, Except.bind]) he
        · obtain ⟨dm, hdm, ms⟩ := getMacro_sim_rev hg hmc
          obtain ⟨hp, _, _, _⟩ := ms
          rw [← hlook] at hvs hfv h
          exact DErr.now (by simp [doc, hfv, hvs, hdm, hp, h, bind, Except.bind]) he
        · obtain ⟨dm, hdm, ms⟩ := getMacro_sim_rev hg hmc
          obtain ⟨hp, hdw, hd1, hd2⟩ := ms
          rw [← hlook] at hvs hfv hsc
          rw [hd1, hd2] at h
          have r := ih k hk (.dirs dm.dirs dm.target) (scope ++ loc) d (st.push scope) e h he hdw
            (by simp [St.push, hl]) (hg.of_same rfl rfl rfl) trivial
          exact DErr.xexpr_call hfv hvs hdm (by rw [hp]; exact hsc) r
    | loop v items D t =>
      have hdw : DirsWF D t := hwf
      cases items with
      | nil => simp [taskOf, run] at h
      | cons item items =>
        simp only [taskOf, run, seq_err] at h
        rcases h with h1 | ⟨o1, s1, h1, h2⟩
        · exact DErr.loop_left (ih k hk (.dirs D t) ((v, item) :: loc) d (st.push [(v, item)]) e h1 he hdw
            (by simp [St.push, hl]) (hg.of_same rfl rfl rfl) trivial)
        · obtain ⟨d1, h3, g1⟩ := sim_rev k (.dirs D t) ((v, item) :: loc) d (st.push [(v, item)]) o1 s1 h1 hdw
            (by simp [St.push, hl]) (hg.of_same rfl rfl rfl) trivial
          have hs1 : s1.scopes = (st.push [(v, item)]).scopes := run_scopes k _ _ _ _ h1
          exact DErr.loop_right h3 (ih k hk (.loop v items D t) loc d1 s1.pop e h2 he hdw
            (by simp [St.pop, hs1, St.push, hl]) (g1.of_same rfl rfl rfl) trivial)
    | binds bs D t =>
      have hdw : DirsWF D t := hwf
      cases bs with
      | nil =>
        simp only [taskOf, run] at h
        exact DErr.binds_nil (ih k hk (.dirs D t) loc d st e h he hdw hl hg trivial)
      | cons p bs =>
        obtain ⟨x, e0⟩ := p
        simp only [taskOf, run, bind_err] at h
        rw [← hlook] at h
        rcases h with h | ⟨v, hv, h⟩
        · exact DErr.now (by simp [doc, h, bind, Except.bind]) he
        · have hne : st.scopes ≠ [] := hb
          obtain ⟨f, fs, hfs⟩ : ∃ f fs, st.scopes = f :: fs := by
            cases hsc : st.scopes with
            | nil => exact absurd hsc hne
            | cons f fs => exact ⟨f, fs, rfl⟩
          have hset : (st.setTop x v).scopes = ((x, v) :: f) :: fs := by simp [St.setTop, hfs]
          exact DErr.binds_cons hv (ih k hk (.binds bs D t) ((x, v) :: loc) d (st.setTop x v) e h he hdw
            (by rw [hset, hl, hfs]; simp)
            (hg.of_same (by simp [St.setTop, hfs]) (by simp [St.setTop, hfs]) (by simp [St.setTop, hfs]))
            (by show (st.setTop x v).scopes ≠ []; rw [hset]; simp))

end Genshi.Tmpl

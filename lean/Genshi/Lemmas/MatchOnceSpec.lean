/-
  C12 — `once` in the tree specification.  The stage of one template counts its replacements in the
  ghost counter exactly as the tree specification counts the elements at which the matcher fires
  (`countList`); with `once_hint_irrelevant` this puts the property's clause "the once hint does not
  change the output when at most one element matches" on trees.
-/
import Genshi.Lemmas.MatchSpec
import Genshi.Lemmas.MatchOnce
namespace Genshi.Match
open Genshi
variable {σ : Type}

mutual
  /-- the number of elements the tree rewrite of template `t` replaces in a node (the elements at which
      the matcher fires; below a replaced element only when the template is recursive) -/
  def countNode (t : MT σ) (b : σ) (anc : List Open) : Node → Nat
    | .leaf _ => 0
    | .elem tg at_ kids =>
      if (t.step (openSt t.step b anc) (.start tg at_) false).2 then
        1 + (if t.recursive then countList t b ((tg, at_) :: anc) kids else 0)
      else countList t b ((tg, at_) :: anc) kids
  def countList (t : MT σ) (b : σ) (anc : List Open) : List Node → Nat
    | [] => 0
    | n :: ns => countNode t b anc n + countList t b anc ns
end

/-- `SlotAt` with the ghost counter: slot `i` holds the live template in sync with the ancestors, having
    replaced `k` elements so far -/
def SlotAtH (i : Nat) (t : MT σ) (b : σ) (anc : List Open) (k : Nat) (M : List (MT σ)) : Prop :=
  ∃ t', M[i]? = some t' ∧ Shape t t' ∧ t'.retired = false ∧ t'.st = openSt t.step b anc ∧ t'.hits = k

/-- `stage_is_spec` with the ghost counter: the stage replaces exactly `countList` elements -/
theorem stage_is_spec_hits (t : MT σ) (b : σ) (i : Nat) (hl : Lawful t) (ho : t.once = false) :
    ∀ (f : Nat) (ns : List Node) (anc : List Open) (M : List (MT σ)) (r : List (MT σ) × List Event) (k : Nat),
    okList ns = true → SlotAtH i t b anc k M →
    run f i (some (i + 1)) (evItems (flattenList ns)) M = some r →
    r.2 = specList t b anc ns ∧ SlotAtH i t b anc (k + countList t b anc ns) r.1 := by
  intro f
  induction f with
  | zero => intro ns anc M r k _ _ h; simp [run] at h
  | succ f ih =>
    intro ns anc M r k hokl hslot h
    cases ns with
    | nil =>
      simp [flattenList, evItems, run] at h; subst h
      exact ⟨by simp [specList], by simpa [countList] using hslot⟩
    | cons n rest =>
      simp only [okList, Bool.and_eq_true] at hokl
      obtain ⟨hn, hrestok⟩ := hokl
      cases n with
      | leaf e =>
        have hse : e.isStartEnd = false := by simpa [Node.ok] using hn
        have h1 : isStart e = false := by cases e <;> simp_all [Event.isStartEnd, isStart]
        have h2 : isEnd e = false := by cases e <;> simp_all [Event.isStartEnd, isEnd]
        simp only [flattenList, Node.flatten, List.cons_append, List.nil_append, evItems_cons, run, h1, h2,
          Bool.false_eq_true, ↓reduceIte] at h
        obtain ⟨q, hq, rfl⟩ := emit_some h
        obtain ⟨e1, e2⟩ := ih rest anc M q k hrestok hslot hq
        exact ⟨by simp [specList, specNode, e1], by simpa [countList, countNode] using e2⟩
      | elem tg at_ kids =>
        have hkids : okList kids = true := by simpa [Node.ok] using hn
        obtain ⟨t', ht', hsh, hret, hst, hhits⟩ := hslot
        have hstep : t'.step = t.step := hsh.1
        have hitems : (evItems (flattenList (Node.elem tg at_ kids :: rest)) : List (Item σ)) =
            .ev (Event.start tg at_) :: (evItems (flattenList kids) ++ .ev (Event.end_ tg) :: evItems (flattenList rest)) := by
          simp [flattenList, Node.flatten, evItems]
        rw [hitems] at h
        have hclk : Closed (evs (evItems (flattenList kids) : List (Item σ))) := by
          simp only [evs_evItems]; exact closed_flattenList kids hkids
        have hstrip := strip_of_closed (evItems (flattenList kids) : List (Item σ)) 0 (Event.end_ tg)
          (evItems (flattenList rest)) hclk rfl rfl
        have hlive := test_live hret (Event.start tg at_) false
        rcases run_start_cases (show isStart (Event.start tg at_) = true from rfl) h with ⟨M1, p, hsc, hp, rfl⟩ |
          ⟨M1, idx, tf, inner, tail, rest', M3, innerOut, M4, outb, p, hsc, htf, hst', h3, h4, h5, rfl⟩
        · -- the matcher does not fire here
          have hnf : (t'.test (Event.start tg at_) false).2 = false := by
            have hq : (scanP (win i (some (i + 1))) (Event.start tg at_) M).2 = none := by
              have := scan_eq_scanP_win (Event.start tg at_) i (some (i + 1)) M
              rw [hsc] at this; simp only [Prod.mk.injEq] at this; exact this.2.symm
            exact scanP_none_nofire _ M _ hq i t' ht' ((win_single i i).mpr rfl)
          have hspec : (t.step (openSt t.step b anc) (Event.start tg at_) false).2 = false := by
            have h0 : (t'.step t'.st (Event.start tg at_) false).2 = false := by rw [← hlive.2.1]; exact hnf
            rw [hst, hstep] at h0; exact h0
          have hM1 : M1[i]? = some (t'.test (Event.start tg at_) false).1 := by
            have := scan_none_get (Event.start tg at_) i (some (i + 1)) 0 M (by rw [hsc]) i
            rw [hsc] at this; simp only [Nat.zero_add] at this
            rw [this, ht']; simp [(win_single i i).mpr rfl]
          have hslot1 : SlotAtH i t b ((tg, at_) :: anc) k M1 :=
            ⟨_, hM1, Shape.trans hsh (test_shape t' _ _), hlive.2.2, by rw [hlive.1, hst, hstep]; rfl,
             by rw [test_hits]; exact hhits⟩
          obtain ⟨r1, r2, hr1, hr2, hpe⟩ := run_append f i (some (i + 1)) (evItems (flattenList kids))
            (.ev (Event.end_ tg) :: evItems (flattenList rest)) 0 M1 p hclk hp
          obtain ⟨ek1, ek2⟩ := ih kids ((tg, at_) :: anc) M1 r1 k hkids hslot1 hr1
          obtain ⟨f0, rfl⟩ : ∃ f0, f = f0 + 1 := ⟨f - 1, by have := run_fuel_pos hr2; omega⟩
          simp only [run, isStart, isEnd, Bool.false_eq_true, ↓reduceIte] at hr2
          obtain ⟨q, hq, rfl⟩ := emit_some hr2
          have hq' := run_mono _ _ _ _ _ _ hq
          -- the END undoes the START
          obtain ⟨t1, ht1, hsh1, hret1, hst1, hhits1⟩ := ek2
          have hlive1 := test_live hret1 (Event.end_ tg) false
          have hslotE : SlotAtH i t b anc (k + countList t b ((tg, at_) :: anc) kids)
              (scanEnd (Event.end_ tg) i (some (i + 1)) 0 r1.1) := by
            refine ⟨(t1.test (Event.end_ tg) false).1, ?_, Shape.trans hsh1 (test_shape t1 _ _), hlive1.2.2, ?_, ?_⟩
            · rw [scanEnd_get, ht1]; simp [(win_single i i).mpr rfl]
            · rw [hlive1.1, hst1, hsh1.1]; simp only [openSt]; exact hl _ _ _ _ _
            · rw [test_hits]; exact hhits1
          obtain ⟨er1, er2⟩ := ih rest anc _ q _ hrestok hslotE hq'
          refine ⟨?_, by
            rw [hpe]
            have hc : countList t b anc (Node.elem tg at_ kids :: rest) =
                countList t b ((tg, at_) :: anc) kids + countList t b anc rest := by
              simp [countList, countNode, hspec]
            rw [hc, ← Nat.add_assoc]; exact er2⟩
          rw [hpe]
          simp only [specList, specNode, hspec, Bool.false_eq_true, ↓reduceIte, ek1, er1]
          simp
        · -- the matcher fires: the element is replaced
          rw [hstrip] at hst'
          simp only [Option.some.injEq, Prod.mk.injEq] at hst'
          obtain ⟨rfl, rfl, rfl⟩ := hst'
          obtain ⟨hwi, ⟨t0, ht0, hfire⟩, _⟩ := scan_first (Event.start tg at_) i (some (i + 1)) M idx (by rw [hsc])
          have hidx : idx = i := (win_single i idx).mp hwi
          subst hidx
          rw [ht'] at ht0; cases ht0
          have hspec : (t.step (openSt t.step b anc) (Event.start tg at_) false).2 = true := by
            have h0 : (t'.step t'.st (Event.start tg at_) false).2 = true := by rw [← hlive.2.1]; exact hfire
            rw [hst, hstep] at h0; exact h0
          obtain ⟨j, t0', hj, ht0', _, _, _, heq, _, _⟩ := scan_some_get (Event.start tg at_) idx (some (idx + 1)) 0 M idx (by rw [hsc])
          simp only [Nat.zero_add] at hj; subst hj
          rw [hsc] at heq; simp only at heq
          rw [ht'] at ht0'; cases ht0'
          rw [htf] at heq
          simp only [Option.some.injEq] at heq
          have hshf : Shape t tf := by
            rw [heq]
            exact Shape.trans hsh ⟨(test_shape t' _ false).1, (test_shape t' _ false).2.1, (test_shape t' _ false).2.2.1,
              (test_shape t' _ false).2.2.2.1, (test_shape t' _ false).2.2.2.2⟩
          have honce : tf.once = false := by rw [hshf.2.2.1]; exact ho
          have hfired : fired tf idx M1 = M1 := by unfold fired; simp [honce]
          rw [hfired] at h3
          have hslot1 : SlotAtH idx t b ((tg, at_) :: anc) (k + 1) M1 := by
            refine ⟨tf, htf, hshf, ?_, ?_, ?_⟩
            · rw [heq]; exact hlive.2.2
            · rw [heq]; simp only; rw [hlive.1, hst, hstep]; rfl
            · rw [heq]; simp only; rw [test_hits, hhits]
          -- the content
          have hinner : innerOut = (if t.recursive then specList t b ((tg, at_) :: anc) kids else flattenList kids) ∧
              SlotAtH idx t b ((tg, at_) :: anc)
                (k + 1 + (if t.recursive then countList t b ((tg, at_) :: anc) kids else 0)) M3 := by
            by_cases hrec : t.recursive = true
            · have hpe : preEnd tf idx = idx + 1 := by unfold preEnd; simp [hshf.2.2.2.1, hrec]
              rw [hpe] at h3
              obtain ⟨e1, e2⟩ := ih kids ((tg, at_) :: anc) M1 (M3, innerOut) (k + 1) hkids hslot1 h3
              simp only at e1 e2
              exact ⟨by simp [hrec, e1], by simpa [hrec] using e2⟩
            · have hrec' : t.recursive = false := by simpa using hrec
              have hpe : preEnd tf idx = idx := by unfold preEnd; simp [hshf.2.2.2.1, hrec', honce]
              rw [hpe] at h3
              have := run_empty_window _ _ _ _ _ _ (win_empty' idx) (noReg_evItems _) h3
              simp only [Prod.mk.injEq, evs_evItems] at this
              obtain ⟨hM3, hio⟩ := this
              rw [hM3]
              exact ⟨by simp [hrec', hio], by simpa [hrec'] using hslot1⟩
          obtain ⟨hio, hslot3⟩ := hinner
          -- the body is matched against no template of this stage
          have hb := run_empty_window _ _ _ _ _ _ (win_empty idx) (noReg_evItems _) h4
          simp only [Prod.mk.injEq, evs_evItems] at hb
          obtain ⟨hM4, houtb⟩ := hb
          rw [hM4] at h5
          -- the END undoes the START
          obtain ⟨t3, ht3, hsh3, hret3, hst3, hhits3⟩ := hslot3
          have hlive3 := test_live hret3 (Event.end_ tg) true
          have hslot5 : SlotAtH idx t b anc (k + 1 + (if t.recursive then countList t b ((tg, at_) :: anc) kids else 0))
              (updRange (Event.end_ tg) idx (idx + 1) 0 M3) := by
            refine ⟨(t3.test (Event.end_ tg) true).1, ?_, Shape.trans hsh3 (test_shape t3 _ _), hlive3.2.2, ?_, ?_⟩
            · rw [updRange_get, ht3]; simp
            · rw [hlive3.1, hst3, hsh3.1]; simp only [openSt]; exact hl _ _ _ _ _
            · rw [test_hits]; exact hhits3
          obtain ⟨er1, er2⟩ := ih rest anc _ p _ hrestok hslot5 h5
          refine ⟨?_, by
            have hc : countList t b anc (Node.elem tg at_ kids :: rest) =
                1 + (if t.recursive then countList t b ((tg, at_) :: anc) kids else 0) + countList t b anc rest := by
              simp [countList, countNode, hspec]
            rw [hc]
            have harith : ∀ x y : Nat, k + (1 + x + y) = k + 1 + x + y := by intro x y; omega
            rw [harith]; exact er2⟩
          simp only [specList, specNode, hspec, ↓reduceIte, er1, houtb, hshf.2.1, hio]
          simp


/-- **`once` on trees.**  The stage of a lawful template on a forest in which its matcher fires at
    most once (counted on the tree: `countList ≤ 1`): with `once="true"` set on the template the
    stage yields the same tree rewrite. -/
theorem once_stage_is_spec (t : MT σ) (i : Nat) (hl : Lawful t) (ho : t.once = false) (hr : t.retired = false)
    (f : Nat) (ns : List Node) (M : List (MT σ)) (r : List (MT σ) × List Event) (hns : okList ns = true)
    (ht : M[i]? = some t) (h : run f i (some (i + 1)) (evItems (flattenList ns)) M = some r)
    (hfew : countList t t.st [] ns ≤ 1) :
    ∃ c', run f i (some (i + 1)) (evItems (flattenList ns)) (M.set i (onceAt t)) = some (c', specList t t.st [] ns) := by
  have hslot : SlotAtH i t t.st [] t.hits M := ⟨t, ht, Shape.refl t, hr, rfl, rfl⟩
  obtain ⟨hout, t', ht', _, _, _, hh⟩ := stage_is_spec_hits t t.st i hl ho f ns [] M r t.hits hns hslot h
  have hi : i < M.length := (List.getElem?_eq_some_iff.mp ht).1
  have hrel := prel_set M 0 i t ht ho hr
  simp only [Nat.zero_add] at hrel
  have hbud : hitsAt i r.1 ≤ hitsAt i M + (if false = true then 0 else 1) := by
    simp only [hitsAt, ht', ht, hh]
    simp only [Bool.false_eq_true, if_false]
    omega
  obtain ⟨c', b', h1, _, _⟩ := run_once i f i (some (i + 1)) (some (i + 1)) _ M _ r false hrel hi (fun _ _ => rfl) h hbud
  exact ⟨c', by rw [h1, hout]⟩

end Genshi.Match

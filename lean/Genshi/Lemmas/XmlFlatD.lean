/-
  C02 — part D: the simulation between the flattener and the reader's namespace
  stage, and the round-trip theorem at the level of flattened events.
-/
import Genshi.Lemmas.XmlFlatC
namespace Genshi.Xml
open Genshi Genshi.Xml.Reader

inductive Frames : List Binding → List (Str × Nat) → List (Str × QName × Scope) → List (QName × Bool) → Prop
  | nil (bs : List Binding) : Frames bs [] [] []
  | cons {bs : List Binding} {name : Str} {n : Nat} {q : QName} {d : Bool}
      {elems : List (Str × Nat)} {open_ : List (Str × QName × Scope)} {stack : List (QName × Bool)} :
      LevelOK (bs.drop n) d → Frames (bs.drop n) elems open_ stack →
      Frames bs ((name, n) :: elems) ((name, q, scopeOf (bs.drop n)) :: open_) ((q, d) :: stack)

structure Inv (st : FSt) (rst : RSt) (ck : CkSt) : Prop where
  scope : rst.scope = scopeOf st.bindings
  frames : Frames st.bindings st.elems rst.open_ ck.stack
  level : LevelOK st.bindings ck.dTruthy
  pend : PendingOK st.pending
  pendD : ck.pendD = (List.lookup [] st.pending).map (fun u => !falsyUri u)
  root : rst.rootSeen = ck.rootSeen
  doct : rst.doctypeSeen = ck.doctypeSeen

theorem Frames.open_empty {bs : List Binding} {elems : List (Str × Nat)}
    {open_ : List (Str × QName × Scope)} {stack : List (QName × Bool)} (h : Frames bs elems open_ stack) :
    open_.isEmpty = stack.isEmpty := by
  cases h <;> rfl

/-! ### the start tag -/

theorem ckStartLike_parts {c : CkSt} {t : QName} {a : AttrList} {d' : Bool}
    (h : ckStartLike c t a = some d') :
    d' = c.pendD.getD c.dTruthy ∧ ¬ (c.stack.isEmpty = true ∧ c.rootSeen = true) ∧
    tagOK t = true ∧ attrsOK a = true ∧ (t.ns = [] → d' = false) := by
  unfold ckStartLike at h
  simp only at h
  split at h
  · cases h
  · rename_i hc
    simp only [Option.some.injEq] at h
    simp only [Bool.or_eq_true, Bool.and_eq_true, Bool.not_eq_true', not_or, not_and,
      Bool.not_eq_true, Bool.not_eq_false] at hc
    obtain ⟨⟨⟨h1, h2⟩, h3⟩, h4⟩ := hc
    refine ⟨h.symm, ?_, h2, h3, ?_⟩
    · intro ⟨x, y⟩; have := h1 x; rw [y] at this; cases this
    · intro hn
      have : t.ns.isEmpty = true := by simp [hn]
      have := h4 this
      rw [← h]; exact this

theorem attrsOK_parts {a : AttrList} (h : attrsOK a = true) :
    (∀ x ∈ a, attrOK x = true) ∧ nodupKeys a = true := by
  unfold attrsOK at h
  simp only [Bool.and_eq_true, List.all_eq_true] at h
  exact h

theorem nodupKeys_decls (ds : List (Str × Str)) (h : (ds.map Prod.fst).Nodup) :
    nodupKeys ds = true := by
  induction ds with
  | nil => rfl
  | cons d ds ih =>
    obtain ⟨k, v⟩ := d
    simp only [List.map_cons, List.nodup_cons] at h
    unfold nodupKeys
    simp only [Bool.and_eq_true, Bool.not_eq_true']
    exact ⟨by simpa using h.1, ih h.2⟩

theorem flatStart_spec (pref : List (Str × Str)) (hpref : prefOK pref = true)
    (st : FSt) (rst : RSt) (ck : CkSt) (inv : Inv st rst ck) (tag : QName) (attrs : AttrList)
    (d' : Bool) (hck : ckStartLike ck tag attrs = some d') :
    resolveTag rst.scope (flatStart pref st tag attrs).1 (normAttrs (flatStart pref st tag attrs).2.1) =
      some (tag, attrs, scopeOf (flatStart pref st tag attrs).2.2.bindings) ∧
    TagInv st.bindings (flatStart pref st tag attrs).2.2 ∧
    LevelOK (flatStart pref st tag attrs).2.2.bindings d' ∧
    ∃ plain, splitAttrs (normAttrs (flatStart pref st tag attrs).2.1) =
      some ((flatStart pref st tag attrs).2.2.declared.map (fun d => (d.1, normUri d.2)), plain) := by
  obtain ⟨hd', _, htag, hattrs, hdn⟩ := ckStartLike_parts hck
  obtain ⟨hattrs1, hattrs2⟩ := attrsOK_parts hattrs
  obtain ⟨lv1, lv2, lv3⟩ := inv.level
  -- the three stages
  have t0inv : TagInv st.bindings { bindings := st.bindings, declared := [], counter := st.counter } :=
    ⟨⟨[], rfl, rfl⟩, by simp, lv1, lv2⟩
  have i0 := takePending_inv st.bindings st.pending _ t0inv inv.pend (by simp)
  have hexp := takePending_explicit st.pending
    { bindings := st.bindings, declared := [], counter := st.counter } (by simp)
  have hd'' : ((List.lookup [] st.pending).map (fun u => !falsyUri u)).getD ck.dTruthy = d' := by
    rw [hd', inv.pendD]
  have hj0 : d' = false → JProp (takePending
      { bindings := st.bindings, declared := [], counter := st.counter } st.pending).bindings :=
    fun e => takePending_jprop st.pending inv.pend _ ck.dTruthy lv3 (by rw [hd'', e])
  obtain ⟨i1, r1, j1⟩ := flatTag_spec pref hpref st.bindings _ i0 tag htag
    (fun hn => hj0 (hdn hn)) hexp
  obtain ⟨i2, e2, r2⟩ := flatAttrs_spec pref hpref st.bindings attrs _ i1 hattrs1
  -- name the pieces
  unfold flatStart
  simp only
  generalize ht0 : takePending { bindings := st.bindings, declared := [], counter := st.counter }
    st.pending = t0 at *
  generalize ht1 : flatTag pref t0 tag = ft at *
  obtain ⟨name, t1⟩ := ft
  simp only at i1 r1 j1 i2 e2 r2 ⊢
  generalize ht2 : flatAttrs pref t1 attrs = fa at *
  obtain ⟨as, t2⟩ := fa
  simp only at i2 e2 r2 ⊢
  -- the reader
  obtain ⟨front, hb, hf⟩ := i2.front
  have ra := resolveAttrs_of_res i2.legal r2 hattrs1
  have hlegal : ∀ d ∈ t2.declared.map (fun d => (d.1, normUri d.2)), declLegal d.1 d.2 = true := by
    intro d hd
    simp only [List.mem_map] at hd
    obtain ⟨d0, hd0, rfl⟩ := hd
    have : d0 ∈ front.map rawProj := by rw [hf]; simpa using hd0
    simp only [List.mem_map] at this
    obtain ⟨b, hbm, rfl⟩ := this
    have := i2.legal b (by rw [hb]; simp [hbm])
    exact this
  have hsplit : splitAttrs (normAttrs (t2.declared.map (fun d => (nsAttrName d.1, d.2)) ++ as)) =
      some (t2.declared.map (fun d => (d.1, normUri d.2)), normAttrs as) := by
    have e : normAttrs (t2.declared.map (fun d => (nsAttrName d.1, d.2)) ++ as) =
        (t2.declared.map (fun d => (d.1, normUri d.2))).map (fun d => (nsAttrName d.1, d.2)) ++ normAttrs as := by
      simp [normAttrs, List.map_map, Function.comp_def]
    rw [e, splitAttrs_decls _ hlegal _ _ (splitAttrs_plain _ ra.2)]
    simp
  refine ⟨?_, i2, ⟨i2.legal, i2.xml, fun e => e2.jprop (j1 (hj0 e))⟩, ⟨_, hsplit⟩⟩
  have hscope : (t2.declared.map (fun d => (d.1, normUri d.2))).reverse ++ rst.scope = scopeOf t2.bindings := by
    rw [inv.scope, hb]
    simp only [scopeOf, List.map_append]
    congr 1
    rw [← List.map_reverse, ← hf]
    simp [List.map_map, Function.comp_def, rawProj, proj]
  have hnd : nodupKeys (t2.declared.map (fun d => (d.1, normUri d.2))) = true := by
    apply nodupKeys_decls
    simpa [List.map_map, Function.comp_def] using i2.nodup
  unfold resolveTag
  rw [hsplit]
  simp only [hnd, Bool.not_true, Bool.false_eq_true, if_false]
  rw [hscope, resolveElem_of_tagRes i2.legal (r1.ext e2) htag, ra.1]
  simp [hattrs2]

end Genshi.Xml

namespace Genshi.Xml
open Genshi Genshi.Xml.Reader

/-! ### pending declarations -/

theorem lookup_filter_ne (pending : List (Str × Str)) (p q : Str) (h : q ≠ p) :
    List.lookup q (pending.filter (fun d => d.1 ≠ p)) = List.lookup q pending := by
  induction pending with
  | nil => rfl
  | cons d ds ih =>
    obtain ⟨k, v⟩ := d
    rw [List.filter_cons]
    by_cases hk : k = p
    · subst hk
      have e : (q == k) = false := by simpa using h
      simp only [ne_eq, not_true_eq_false, decide_false, Bool.false_eq_true, if_false, List.lookup, e]
      exact ih
    · have e : decide ((k, v).1 ≠ p) = true := by simpa using hk
      rw [if_pos e]
      simp only [List.lookup]
      rw [ih]

theorem lookup_filter_self (pending : List (Str × Str)) (p : Str) :
    List.lookup p (pending.filter (fun d => d.1 ≠ p)) = none := by
  induction pending with
  | nil => rfl
  | cons d ds ih =>
    obtain ⟨k, v⟩ := d
    rw [List.filter_cons]
    by_cases hk : k = p
    · subst hk
      simp only [ne_eq, not_true_eq_false, decide_false, Bool.false_eq_true, if_false]
      exact ih
    · have e : decide ((k, v).1 ≠ p) = true := by simpa using hk
      have e2 : (p == k) = false := by simp; exact fun h => hk h.symm
      rw [if_pos e]
      simp only [List.lookup, e2]
      exact ih

theorem lookup_append_single (l : List (Str × Str)) (p q u : Str) :
    List.lookup q (l ++ [(p, u)]) = match List.lookup q l with
      | some v => some v
      | none => if q = p then some u else none := by
  induction l with
  | nil =>
    simp only [List.nil_append, List.lookup]
    by_cases e : q = p
    · subst e; simp
    · have : (q == p) = false := by simpa using e
      simp [this, e]
  | cons d ds ih =>
    obtain ⟨k, v⟩ := d
    simp only [List.cons_append, List.lookup]
    by_cases e : q = k
    · subst e; simp
    · have : (q == k) = false := by simpa using e
      simp only [this]
      exact ih

theorem PendingOK.filter {pending : List (Str × Str)} (h : PendingOK pending) (p : Str) :
    PendingOK (pending.filter (fun d => d.1 ≠ p)) := by
  refine ⟨?_, fun d hd => h.legal d (List.mem_filter.mp hd).1⟩
  have := h.nodup
  induction pending with
  | nil => simp
  | cons d ds ih =>
    simp only [List.map_cons, List.nodup_cons] at this
    by_cases e : decide (d.1 ≠ p) = true
    · simp only [List.filter, e, List.map_cons, List.nodup_cons]
      refine ⟨?_, ih ⟨this.2, fun x hx => h.legal x (by simp [hx])⟩ this.2⟩
      intro hm
      apply this.1
      simp only [List.mem_map] at hm ⊢
      obtain ⟨x, hx, hx2⟩ := hm
      exact ⟨x, (List.mem_filter.mp hx).1, hx2⟩
    · have e' : decide (d.1 ≠ p) = false := by simpa using e
      simp only [List.filter, e']
      exact ih ⟨this.2, fun x hx => h.legal x (by simp [hx])⟩ this.2

theorem PendingOK.request {pending : List (Str × Str)} (h : PendingOK pending) (p u : Str)
    (hl : nsDeclOK p u = true) : PendingOK (pending.filter (fun d => d.1 ≠ p) ++ [(p, u)]) := by
  have hf := h.filter p
  refine ⟨?_, ?_⟩
  · simp only [List.map_append, List.map_cons, List.map_nil]
    rw [List.nodup_append]
    refine ⟨hf.nodup, by simp, ?_⟩
    intro x hx y hy
    simp only [List.mem_singleton] at hy
    subst hy
    intro e; subst e
    simp only [List.mem_map] at hx
    obtain ⟨d, hd, hd2⟩ := hx
    have := (List.mem_filter.mp hd).2
    simp [hd2] at this
  · intro d hd
    rcases List.mem_append.mp hd with hd | hd
    · exact hf.legal d hd
    · simp only [List.mem_singleton] at hd; subst hd; exact hl

/-! ### one event -/

theorem map_id_opt {α : Type} (o : Option (List α)) : o.map (fun r => ([] : List α) ++ r) = o := by
  cases o <;> simp

theorem Inv.with_pending {st : FSt} {rst : RSt} {ck : CkSt} (inv : Inv st rst ck)
    (pend' : List (Str × Str)) (pd' : Option Bool) (h1 : PendingOK pend')
    (h2 : pd' = (List.lookup [] pend').map (fun u => !falsyUri u)) :
    Inv { st with pending := pend' } rst { ck with pendD := pd' } :=
  ⟨inv.scope, inv.frames, inv.level, h1, h2, inv.root, inv.doct⟩

theorem ck_eta (ck : CkSt) : { ck with pendD := ck.pendD } = ck := rfl

theorem step_sim (pref : List (Str × Str)) (hpref : prefOK pref = true)
    (st : FSt) (rst : RSt) (ck : CkSt) (inv : Inv st rst ck) (x : XEv) (ck' : CkSt)
    (hck : ckStep ck x = some ck') :
    ∃ rst', Inv (flatStep pref st x).1 rst' ck' ∧
      ∀ rest, resolveGo rst ((flatStep pref st x).2.map normF ++ rest) =
        (resolveGo rst' rest).map (canonXEv x ++ ·) := by
  have hopen := inv.frames.open_empty
  cases x with
  | empty tag attrs =>
    simp only [ckStep, Option.map_eq_some_iff] at hck
    obtain ⟨d', hd', rfl⟩ := hck
    obtain ⟨_, hroot, _, _, _⟩ := ckStartLike_parts hd'
    obtain ⟨rt, _, _⟩ := flatStart_spec pref hpref st rst ck inv tag attrs d' hd'
    refine ⟨{ rst with rootSeen := true }, ?_, ?_⟩
    · unfold flatStep
      exact ⟨inv.scope, inv.frames, inv.level, ⟨by simp, by simp⟩, by simp, by simp [inv.root], inv.doct⟩
    · intro rest
      unfold flatStep
      simp only [List.map_cons, List.map_nil, List.cons_append, List.nil_append, normF]
      rw [resolveGo]
      have hc : (rst.open_.isEmpty && rst.rootSeen) = false := by
        rw [hopen, inv.root]
        cases h1 : ck.stack.isEmpty <;> cases h2 : ck.rootSeen <;> simp_all
      simp only [hc, Bool.false_eq_true, if_false]
      rw [rt]
      simp [canonXEv]
  | ev e =>
    cases e with
    | start tag attrs =>
      simp only [ckStep, Option.map_eq_some_iff] at hck
      obtain ⟨d', hd', rfl⟩ := hck
      obtain ⟨_, hroot, _, _, _⟩ := ckStartLike_parts hd'
      obtain ⟨rt, ti, lv, _⟩ := flatStart_spec pref hpref st rst ck inv tag attrs d' hd'
      refine ⟨{ rst with open_ := ((flatStart pref st tag attrs).1, tag, rst.scope) :: rst.open_,
                         scope := scopeOf (flatStart pref st tag attrs).2.2.bindings, rootSeen := true }, ?_, ?_⟩
      · unfold flatStep
        obtain ⟨front, hb, hf⟩ := ti.front
        have hlen : front.length = (flatStart pref st tag attrs).2.2.declared.length := by
          have := congrArg List.length hf
          simpa using this
        have hdrop : (flatStart pref st tag attrs).2.2.bindings.drop
            (flatStart pref st tag attrs).2.2.declared.length = st.bindings := by
          rw [hb, ← hlen]; simp
        refine ⟨rfl, ?_, lv, ⟨by simp, by simp⟩, by simp, by simp, inv.doct⟩
        simp only
        have fr := @Frames.cons (flatStart pref st tag attrs).2.2.bindings (flatStart pref st tag attrs).1
          (flatStart pref st tag attrs).2.2.declared.length tag ck.dTruthy st.elems rst.open_ ck.stack
          (by rw [hdrop]; exact inv.level) (by rw [hdrop]; exact inv.frames)
        rw [hdrop, ← inv.scope] at fr
        exact fr
      · intro rest
        unfold flatStep
        simp only [List.map_cons, List.map_nil, List.cons_append, List.nil_append, normF]
        rw [resolveGo]
        have hc : (rst.open_.isEmpty && rst.rootSeen) = false := by
          rw [hopen, inv.root]
          cases h1 : ck.stack.isEmpty <;> cases h2 : ck.rootSeen <;> simp_all
        simp only [hc, Bool.false_eq_true, if_false]
        rw [rt]
        simp [canonXEv, canonEv]
    | end_ tag =>
      simp only [ckStep] at hck
      cases hs : ck.stack with
      | nil => rw [hs] at hck; cases hck
      | cons top rest' =>
        obtain ⟨t', d⟩ := top
        rw [hs] at hck
        simp only at hck
        by_cases ht : tag = t'
        · subst ht
          simp only [if_true, Option.some.injEq] at hck
          subst hck
          have fr := inv.frames
          rw [hs] at fr
          generalize hb : st.bindings = bs0 at fr
          generalize he : st.elems = elems0 at fr
          generalize ho : rst.open_ = open0 at fr
          cases fr with
          | @cons _ name n _ _ elems open_ _ lv fr' =>
            subst hb
            refine ⟨{ rst with open_ := open_, scope := scopeOf (st.bindings.drop n) }, ?_, ?_⟩
            · simp only [flatStep, he]
              exact ⟨rfl, fr', lv, inv.pend, inv.pendD, inv.root, inv.doct⟩
            · intro rest
              simp only [flatStep, he, List.map_cons, List.map_nil, List.cons_append, List.nil_append, normF]
              rw [resolveGo]
              simp only [ho]
              simp [canonXEv, canonEv]
        · simp [ht] at hck
    | startNs p u =>
      simp only [ckStep] at hck
      by_cases hl : nsDeclOK p u = true
      · simp only [hl, Bool.not_true, Bool.false_eq_true, if_false] at hck
        refine ⟨rst, ?_, ?_⟩
        · simp only [flatStep]
          by_cases hp : p = []
          · subst hp
            simp only [List.isEmpty_nil, if_true, Option.some.injEq] at hck
            subst hck
            apply inv.with_pending _ _ (inv.pend.request [] u hl)
            rw [lookup_append_single, lookup_filter_self]
            simp
          · have hpe : p.isEmpty = false := by simpa using hp
            simp only [hpe, Bool.false_eq_true, if_false, Option.some.injEq] at hck
            subst hck
            have := inv.with_pending _ ck.pendD (inv.pend.request p u hl) (by
              have hp' : ([] : Str) ≠ p := fun e => hp e.symm
              rw [lookup_append_single, lookup_filter_ne _ _ _ hp', inv.pendD]
              cases List.lookup [] st.pending <;> simp [hp'])
            exact this
        · intro rest
          simp [flatStep, canonXEv, canonEv, map_id_opt]
      · simp [hl] at hck
    | endNs p =>
      simp only [ckStep] at hck
      refine ⟨rst, ?_, ?_⟩
      · simp only [flatStep]
        by_cases hp : p = []
        · subst hp
          simp only [List.isEmpty_nil, if_true, Option.some.injEq] at hck
          subst hck
          apply inv.with_pending _ _ (inv.pend.filter [])
          rw [lookup_filter_self]
          simp
        · have hpe : p.isEmpty = false := by simpa using hp
          simp only [hpe, Bool.false_eq_true, if_false, Option.some.injEq] at hck
          subst hck
          have := inv.with_pending _ ck.pendD (inv.pend.filter p) (by
            have hp' : ([] : Str) ≠ p := fun e => hp e.symm
            rw [lookup_filter_ne _ _ _ hp', inv.pendD])
          exact this
      · intro rest
        simp [flatStep, canonXEv, canonEv, map_id_opt]
    | text s f =>
      simp only [ckStep] at hck
      by_cases hs : ck.stack.isEmpty = true
      · simp [hs] at hck
      · simp only [hs, Bool.false_eq_true, if_false, Option.some.injEq] at hck
        subst hck
        refine ⟨rst, by simp only [flatStep]; exact inv, ?_⟩
        intro rest
        simp only [flatStep]
        simp only [List.map_cons, List.map_nil, List.cons_append, List.nil_append, normF]
        rw [resolveGo]
        have : rst.open_.isEmpty = false := by rw [hopen]; simpa using hs
        simp [this, canonXEv, canonEv]
    | comment s =>
      simp only [ckStep, Option.some.injEq] at hck
      subst hck
      refine ⟨rst, by simp only [flatStep]; exact inv, ?_⟩
      intro rest
      simp only [flatStep]
      simp only [List.map_cons, List.map_nil, List.cons_append, List.nil_append, normF]
      rw [resolveGo]
      simp [canonXEv, canonEv]
    | pi t d =>
      simp only [ckStep, Option.some.injEq] at hck
      subst hck
      refine ⟨rst, by simp only [flatStep]; exact inv, ?_⟩
      intro rest
      simp only [flatStep]
      simp only [List.map_cons, List.map_nil, List.cons_append, List.nil_append, normF]
      rw [resolveGo]
      simp [canonXEv, canonEv]
    | startCdata =>
      simp only [ckStep] at hck
      by_cases hs : ck.stack.isEmpty = true
      · simp [hs] at hck
      · simp only [hs, Bool.false_eq_true, if_false, Option.some.injEq] at hck
        subst hck
        refine ⟨rst, by simp only [flatStep]; exact inv, ?_⟩
        intro rest
        simp only [flatStep]
        simp only [List.map_cons, List.map_nil, List.cons_append, List.nil_append, normF]
        rw [resolveGo]
        have : rst.open_.isEmpty = false := by rw [hopen]; simpa using hs
        simp [this, canonXEv, canonEv]
    | endCdata =>
      simp only [ckStep] at hck
      by_cases hs : ck.stack.isEmpty = true
      · simp [hs] at hck
      · simp only [hs, Bool.false_eq_true, if_false, Option.some.injEq] at hck
        subst hck
        refine ⟨rst, by simp only [flatStep]; exact inv, ?_⟩
        intro rest
        simp only [flatStep]
        simp only [List.map_cons, List.map_nil, List.cons_append, List.nil_append, normF]
        rw [resolveGo]
        simp [canonXEv, canonEv]
    | doctype n p s =>
      simp only [ckStep] at hck
      by_cases hc : (!ck.stack.isEmpty || ck.rootSeen || ck.doctypeSeen) = true
      · simp [hc] at hck
      · simp only [hc, Bool.false_eq_true, if_false, Option.some.injEq] at hck
        subst hck
        refine ⟨{ rst with doctypeSeen := true }, ?_, ?_⟩
        · simp only [flatStep]
          exact ⟨inv.scope, inv.frames, inv.level, inv.pend, inv.pendD, inv.root, rfl⟩
        · intro rest
          simp only [flatStep]
          simp only [List.map_cons, List.map_nil, List.cons_append, List.nil_append, normF]
          rw [resolveGo]
          have : (rst.rootSeen || rst.doctypeSeen || !rst.open_.isEmpty) = false := by
            rw [hopen, inv.root, inv.doct]
            cases h1 : ck.stack.isEmpty <;> cases h2 : ck.rootSeen <;> cases h3 : ck.doctypeSeen <;> simp_all
          simp [this, canonXEv, canonEv]
    | xmlDecl v e s => simp [ckStep] at hck

end Genshi.Xml

namespace Genshi.Xml
open Genshi Genshi.Xml.Reader

theorem sim_run (pref : List (Str × Str)) (hpref : prefOK pref = true) :
    ∀ (xs : List XEv) (st : FSt) (rst : RSt) (ck : CkSt), Inv st rst ck → docGo ck xs = true →
      resolveGo rst ((flatRun pref st xs).map normF) = some (canonX xs) := by
  intro xs
  induction xs with
  | nil =>
    intro st rst ck inv h
    simp only [docGo, Bool.and_eq_true] at h
    simp only [flatRun, List.map_nil, canonX, List.flatMap_nil]
    rw [resolveGo]
    rw [inv.frames.open_empty, inv.root, h.1, h.2]
    simp
  | cons x xs ih =>
    intro st rst ck inv h
    simp only [docGo] at h
    cases hck : ckStep ck x with
    | none => rw [hck] at h; cases h
    | some ck' =>
      rw [hck] at h
      simp only at h
      obtain ⟨rst', inv', heq⟩ := step_sim pref hpref st rst ck inv x ck' hck
      have : flatRun pref st (x :: xs) = (flatStep pref st x).2 ++ flatRun pref (flatStep pref st x).1 xs := by
        simp only [flatRun]
      rw [this, List.map_append, heq, ih _ _ _ inv' h]
      simp [canonX]

theorem inv_init : Inv FSt.init RSt.init CkSt.init := by
  have hx : normUri xmlNs = xmlNs := normUri_of_ne (by decide)
  refine ⟨?_, Frames.nil _, ⟨?_, ?_, fun _ => ?_⟩, ⟨by simp [FSt.init], by simp [FSt.init]⟩, rfl, rfl, rfl⟩
  · simp [RSt.init, FSt.init, baseScope, scopeOf, proj, hx]
  · intro b hb
    simp only [FSt.init, List.mem_singleton] at hb
    subst hb
    unfold legalB
    simp only [hx]
    decide
  · rfl
  · exact JProp.of_falsy (u := []) rfl (by decide)

/-- **the flattener is a right inverse of namespace resolution**: for every
    stream inside `docOK`, what an XML reader resolves from the flattened events
    is exactly what the stream denotes -/
theorem resolve_flatten (pref : List (Str × Str)) (hpref : prefOK pref = true) (xs : List XEv)
    (h : docOK xs = true) :
    resolve ((flatten pref xs).map normF) = some (canonX xs) := by
  unfold docOK at h
  split at h
  · rename_i v e s rest
    have := sim_run pref hpref rest _ _ _ inv_init h
    simp only [flatten, flatRun, flatStep, List.map_append, List.map_cons, List.map_nil, normF,
      List.cons_append, List.nil_append, resolve]
    unfold flatten at this
    rw [this]
    simp [canonX, canonXEv, canonEv]
  · rename_i hne
    have hr := sim_run pref hpref xs _ _ _ inv_init h
    unfold flatten
    unfold resolve
    split
    · rename_i v e s rest heq
      rw [heq, resolveGo] at hr
      cases hr
    · exact hr

end Genshi.Xml

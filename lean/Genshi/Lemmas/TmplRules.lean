/-
  C04: big-step rules of the implementation model, derived from the fuel-indexed
  `run` by monotonicity.  `IOk t st o st'`: with enough fuel task `t` renders `o`
  from state `st` and leaves `st'`.
-/
import Genshi.Lemmas.TmplMono
namespace Genshi.Tmpl

def IOk (t : ITask) (st : St) (o : List Event) (st' : St) : Prop :=
  ∃ m, run m t st = .ok (o, st')

theorem IOk.lift {t : ITask} {st : St} {o : List Event} {st' : St} {m k : Nat}
    (h : run m t st = .ok (o, st')) (hk : m ≤ k) : run k t st = .ok (o, st') :=
  run_mono h (by simp) hk

/-- a successful answer does not depend on the fuel -/
theorem IOk.unique {t : ITask} {st : St} {o o' : List Event} {s s' : St}
    (h1 : IOk t st o s) (h2 : IOk t st o' s') : o = o' ∧ s = s' := by
  obtain ⟨m1, h1⟩ := h1
  obtain ⟨m2, h2⟩ := h2
  have a := IOk.lift h1 (Nat.le_max_left m1 m2)
  have b := IOk.lift h2 (Nat.le_max_right m1 m2)
  rw [a] at b
  simp only [Except.ok.injEq, Prod.mk.injEq] at b
  exact b

theorem IOk.flat_nil (st : St) : IOk (.flat []) st [] st := ⟨1, rfl⟩

theorem IOk.flat_cons {e : CEv} {rest : List CEv} {st s1 s2 : St} {o1 o2 : List Event}
    (h1 : IOk (.ev e) st o1 s1) (h2 : IOk (.flat rest) s1 o2 s2) :
    IOk (.flat (e :: rest)) st (o1 ++ o2) s2 := by
  obtain ⟨m1, h1⟩ := h1
  obtain ⟨m2, h2⟩ := h2
  refine ⟨max m1 m2 + 1, ?_⟩
  simp only [run, seq_ok]
  exact ⟨o1, s1, o2, IOk.lift h1 (Nat.le_max_left _ _), IOk.lift h2 (Nat.le_max_right _ _), rfl⟩

theorem IOk.flat_cons_inv {e : CEv} {rest : List CEv} {st s2 : St} {o : List Event}
    (h : IOk (.flat (e :: rest)) st o s2) :
    ∃ o1 s1 o2, IOk (.ev e) st o1 s1 ∧ IOk (.flat rest) s1 o2 s2 ∧ o = o1 ++ o2 := by
  obtain ⟨m, h⟩ := h
  cases m with
  | zero => simp [run] at h
  | succ m =>
    simp only [run, seq_ok] at h
    obtain ⟨o1, s1, o2, h1, h2, rfl⟩ := h
    exact ⟨o1, s1, o2, ⟨m, h1⟩, ⟨m, h2⟩, rfl⟩

theorem IOk.flat_nil_inv {st s2 : St} {o : List Event} (h : IOk (.flat []) st o s2) :
    o = [] ∧ s2 = st := by
  obtain ⟨m, h⟩ := h
  cases m with
  | zero => simp [run] at h
  | succ m => simp [run] at h; exact ⟨h.1, h.2.symm⟩

theorem IOk.flat_append {a b : List CEv} : ∀ {st s1 s2 : St} {o1 o2 : List Event},
    IOk (.flat a) st o1 s1 → IOk (.flat b) s1 o2 s2 → IOk (.flat (a ++ b)) st (o1 ++ o2) s2 := by
  induction a with
  | nil =>
    intro st s1 s2 o1 o2 h1 h2
    obtain ⟨rfl, rfl⟩ := IOk.flat_nil_inv h1
    simpa using h2
  | cons e a ih =>
    intro st s1 s2 o1 o2 h1 h2
    obtain ⟨p1, t1, p2, he, ha, rfl⟩ := IOk.flat_cons_inv h1
    have := IOk.flat_cons he (ih ha h2)
    simpa [List.append_assoc] using this

theorem IOk.flat_append_inv {a b : List CEv} : ∀ {st s2 : St} {o : List Event},
    IOk (.flat (a ++ b)) st o s2 →
    ∃ o1 s1 o2, IOk (.flat a) st o1 s1 ∧ IOk (.flat b) s1 o2 s2 ∧ o = o1 ++ o2 := by
  induction a with
  | nil =>
    intro st s2 o h
    exact ⟨[], st, o, IOk.flat_nil st, by simpa using h, rfl⟩
  | cons e a ih =>
    intro st s2 o h
    obtain ⟨p1, t1, p2, he, ha, rfl⟩ := IOk.flat_cons_inv (by simpa using h)
    obtain ⟨q1, u1, q2, h3, h4, rfl⟩ := ih ha
    exact ⟨p1 ++ q1, u1, q2, IOk.flat_cons he h3, h4, by simp [List.append_assoc]⟩

theorem IOk.flat_single {e : CEv} {st s1 : St} {o : List Event} (h : IOk (.ev e) st o s1) :
    IOk (.flat [e]) st o s1 := by
  have := IOk.flat_cons h (IOk.flat_nil s1)
  simpa using this

theorem IOk.ev_start (t a) (st : St) : IOk (.ev (.start t a)) st [startEv t a] st := ⟨1, rfl⟩
theorem IOk.ev_end (t) (st : St) : IOk (.ev (.end_ t)) st [endEv t] st := ⟨1, rfl⟩
theorem IOk.ev_text (s) (st : St) : IOk (.ev (.text s)) st [tx s] st := ⟨1, rfl⟩

theorem IOk.ev_sub {ds body} {st s1 : St} {o : List Event} (h : IOk (.apply ds body) st o s1) :
    IOk (.ev (.sub ds body)) st o s1 := by
  obtain ⟨m, h⟩ := h
  exact ⟨m + 1, by simpa only [run] using h⟩

theorem IOk.apply_nil {body} {st s1 : St} {o : List Event} (h : IOk (.flat body) st o s1) :
    IOk (.apply [] body) st o s1 := by
  obtain ⟨m, h⟩ := h
  exact ⟨m + 1, by simpa only [run] using h⟩

theorem IOk.apply_nil_inv {body} {st s1 : St} {o : List Event} (h : IOk (.apply [] body) st o s1) :
    IOk (.flat body) st o s1 := by
  obtain ⟨m, h⟩ := h
  cases m with
  | zero => simp [run] at h
  | succ m => exact ⟨m, by simpa only [run] using h⟩

/-- `mkSub`: a SUB event, or the body inlined when no run-time directive is left -/
theorem IOk.mkSub {ds body} {st s1 : St} {o : List Event} (h : IOk (.apply ds body) st o s1) :
    IOk (.flat (mkSub ds body)) st o s1 := by
  unfold Genshi.Tmpl.mkSub
  split
  · rename_i he
    have : ds = [] := by simpa using he
    subst this
    exact IOk.apply_nil_inv h
  · exact IOk.flat_single (IOk.ev_sub h)

end Genshi.Tmpl

/-
  Trace semantics: the writer links.  On a `Good` input the `copy` / `cut` link yields items only
  at moments at which its buffer holds whole selections (balanced content): "every buffer is
  balanced whenever an item is yielded" (`BalAt`) is kept (`copy_balAt`, `cut_balAt`).
-/
import Genshi.Lemmas.TfTraceGen
namespace Genshi.Tf

/-! ### the head of a `Good` stream -/

theorem Good.head_cases {R : MStream} (h : Good R) :
    R = [] ∨ (∃ x R1, R = (none, x) :: R1 ∧ Good R1) ∨
    (∃ m p blk R1, R = (p :: blk) ++ R1 ∧ m ≠ Mark.enter ∧ m ≠ Mark.exit ∧ Uniform m (p :: blk) ∧
      Bal (unmark (p :: blk)) ∧ Good R1) ∨
    (∃ t a mid R1, R = (some Mark.enter, MEv.ev (.start t a)) :: (mid ++ (some Mark.exit, MEv.ev (.end_ t)) :: R1) ∧
      Flat mid ∧ Bal (unmark mid) ∧ Good R1) := by
  induction h with
  | nil => exact Or.inl rfl
  | plain x hs _ => exact Or.inr (Or.inl ⟨x, _, rfl, hs⟩)
  | block m blk hne hnx hu hb hs ih =>
    cases blk with
    | nil => simpa using ih
    | cons p blk => exact Or.inr (Or.inr (Or.inl ⟨m, p, blk, _, rfl, hne, hnx, hu, hb, hs⟩))
  | elem t a mid hf hb hs _ => exact Or.inr (Or.inr (Or.inr ⟨t, a, mid, _, rfl, hf, hb, hs⟩))

/-! ### the run detection shared by `copy` and `cut`, and its invariant -/

/-- state of the run detection and content of the link's buffer after the item `p` -/
def wNext (acc : Bool) : RunSt → List MEv → MItem → RunSt × List MEv
  | .idle, bid, (none, _) => (.idle, bid)
  | .idle, bid, (some m, x) => (startSt m, (if acc then bid else []) ++ [x])
  | .inEnter, bid, (m, x) => (if m = some .exit then .idle else .inEnter, bid ++ [x])
  | .inRun m0, bid, (m, x) =>
      if m = some m0 then (.inRun m0, bid ++ [x])
      else match m with
        | none => (.idle, bid)
        | some m' => (startSt m', (if acc then bid else []) ++ [x])

/-- the link's buffer `bid`, completed by what the rest `R` of the input will still append to it
    in the current selection, is balanced; after that selection the input is `Good` again -/
def WInv : RunSt → List MEv → MStream → Prop
  | .idle, bid, R => Good R ∧ BalE bid
  | .inRun m0, bid, R => m0 ≠ .enter ∧
      ∃ blk R', R = blk ++ R' ∧ Uniform m0 blk ∧ Good R' ∧ BalE (bid ++ blk.map (·.2))
  | .inEnter, bid, R =>
      ∃ mid x R', R = mid ++ (some .exit, x) :: R' ∧ NoExit mid ∧ Good R' ∧ BalE (bid ++ mid.map (·.2) ++ [x])

theorem BalE.acc (acc : Bool) {bid : List MEv} (h : BalE bid) : BalE (if acc then bid else []) := BalE.ite acc h

theorem balE_block {base : List MEv} {blk : MStream} (hb : BalE base) (h : Bal (unmark blk)) :
    BalE (base ++ blk.map (·.2)) := hb.append (BalE.ofBlock h)

theorem balE_elem {base : List MEv} (hb : BalE base) (t : QName) (a : AttrList) {mid : MStream}
    (h : Bal (unmark mid)) :
    BalE ((base ++ [MEv.ev (.start t a)]) ++ mid.map (·.2) ++ [MEv.ev (.end_ t)]) := by
  have h1 : BalE ([MEv.ev (.start t a)] ++ mid.map (·.2) ++ [MEv.ev (.end_ t)]) := by
    unfold BalE
    rw [evsOf_append, evsOf_append, evsOf_map_snd]
    exact bal_elem t a h
  have := hb.append h1
  simpa [List.append_assoc] using this

/-- starting a selection in the idle state (or after a run of another mark): the invariant of the new
    state, from `Good` of the stream that begins with the item -/
theorem wInv_start (acc : Bool) {bid : List MEv} (hb : BalE bid) {m : Mark} {x : MEv} {R1 : MStream}
    (hg : Good ((some m, x) :: R1)) : WInv (startSt m) ((if acc then bid else []) ++ [x]) R1 := by
  have hba := BalE.acc acc hb
  rcases hg.head_cases with h | ⟨y, R2, h, _⟩ | ⟨m', p, blk, R2, h, hne, hnx, hu, hbal, hg2⟩ | ⟨t, a, mid, R2, h, hf, hbal, hg2⟩
  · simp at h
  · simp at h
  · simp only [List.cons_append, List.cons.injEq] at h
    obtain ⟨rfl, rfl⟩ := h
    have hm : some m = some m' := hu (some m, x) (by simp)
    have hm' : m = m' := by injection hm
    subst hm'
    have hst : startSt m = .inRun m := by simp [startSt, hne]
    rw [hst]
    refine ⟨hne, blk, R2, rfl, fun q hq => hu q (by simp [hq]), hg2, ?_⟩
    have := balE_block hba hbal
    simpa [List.append_assoc] using this
  · simp only [List.cons.injEq, Prod.mk.injEq, Option.some.injEq] at h
    obtain ⟨⟨rfl, rfl⟩, rfl⟩ := h
    have hst : startSt Mark.enter = .inEnter := by simp [startSt]
    rw [hst]
    exact ⟨mid, _, R2, rfl, hf.noExit, hg2, balE_elem hba t a hbal⟩

/-- one step of the run detection keeps the invariant; when the step may yield BEFORE its effects
    (idle, or a run ended by another mark) the buffer is balanced at that moment -/
theorem wNext_inv (acc : Bool) (st : RunSt) (bid : List MEv) (p : MItem) (R1 : MStream)
    (h : WInv st bid (p :: R1)) :
    WInv (wNext acc st bid p).1 (wNext acc st bid p).2 R1 ∧
    ((st = .idle ∨ ∃ m0, st = .inRun m0 ∧ p.1 ≠ some m0) → BalE bid) := by
  obtain ⟨m, x⟩ := p
  cases st with
  | idle =>
    obtain ⟨hg, hb⟩ := h
    refine ⟨?_, fun _ => hb⟩
    cases m with
    | none =>
      rcases hg.head_cases with h | ⟨y, R2, h, hg2⟩ | ⟨m', p, blk, R2, h, hne, hnx, hu, hbal, hg2⟩ | ⟨t, a, mid, R2, h, hf, hbal, hg2⟩
      · simp at h
      · simp only [List.cons.injEq] at h
        obtain ⟨_, rfl⟩ := h
        exact ⟨hg2, hb⟩
      · simp only [List.cons_append, List.cons.injEq] at h
        obtain ⟨rfl, rfl⟩ := h
        have := hu (none, x) (by simp)
        simp at this
      · simp at h
    | some m => exact wInv_start acc hb hg
  | inEnter =>
    obtain ⟨mid, x', R', hR, hne, hg, hb⟩ := h
    refine ⟨?_, fun hc => by rcases hc with hc | ⟨m0, hc, _⟩ <;> simp at hc⟩
    cases mid with
    | nil =>
      simp only [List.nil_append, List.cons.injEq, Prod.mk.injEq] at hR
      obtain ⟨⟨rfl, rfl⟩, rfl⟩ := hR
      simp only [wNext, ↓reduceIte]
      exact ⟨hg, by simpa using hb⟩
    | cons q mid =>
      simp only [List.cons_append, List.cons.injEq] at hR
      obtain ⟨rfl, rfl⟩ := hR
      have hq : m ≠ some Mark.exit := hne (m, x) (by simp)
      simp only [wNext, hq, ↓reduceIte]
      exact ⟨mid, x', R', rfl, fun r hr => hne r (by simp [hr]), hg, by simpa [List.append_assoc] using hb⟩
  | inRun m0 =>
    obtain ⟨hm0, blk, R', hR, hu, hg, hb⟩ := h
    cases blk with
    | cons q blk =>
      simp only [List.cons_append, List.cons.injEq] at hR
      obtain ⟨rfl, rfl⟩ := hR
      have hq : m = some m0 := hu (m, x) (by simp)
      refine ⟨?_, fun hc => ?_⟩
      · simp only [wNext, hq, ↓reduceIte]
        exact ⟨hm0, blk, R', rfl, fun r hr => hu r (by simp [hr]), hg, by simpa [List.append_assoc] using hb⟩
      · rcases hc with hc | ⟨m1, hc, hne⟩
        · simp at hc
        · simp only [RunSt.inRun.injEq] at hc; subst hc; exact absurd hq hne
    | nil =>
      simp only [List.nil_append] at hR
      subst hR
      have hb' : BalE bid := by simpa using hb
      refine ⟨?_, fun _ => hb'⟩
      by_cases hq : m = some m0
      · -- the run continues into the next block of the same mark
        subst hq
        simp only [wNext, ↓reduceIte]
        rcases hg.head_cases with h | ⟨y, R2, h, _⟩ | ⟨m', p, blk, R2, h, hne, hnx, hu2, hbal, hg2⟩ | ⟨t, a, mid, R2, h, hf, hbal, hg2⟩
        · simp at h
        · simp at h
        · simp only [List.cons_append, List.cons.injEq] at h
          obtain ⟨rfl, rfl⟩ := h
          have hm : some m0 = some m' := hu2 (some m0, x) (by simp)
          have hm' : m0 = m' := by injection hm
          subst hm'
          refine ⟨hm0, blk, R2, rfl, fun r hr => hu2 r (by simp [hr]), hg2, ?_⟩
          have := balE_block hb' hbal
          simpa [List.append_assoc] using this
        · simp only [List.cons.injEq, Prod.mk.injEq, Option.some.injEq] at h
          exact absurd h.1.1 hm0
      · simp only [wNext, hq, ↓reduceIte]
        cases m with
        | none =>
          rcases hg.head_cases with h | ⟨y, R2, h, hg2⟩ | ⟨m', p, blk, R2, h, hne, hnx, hu2, hbal, hg2⟩ | ⟨t, a, mid, R2, h, hf, hbal, hg2⟩
          · simp at h
          · simp only [List.cons.injEq] at h
            obtain ⟨_, rfl⟩ := h
            exact ⟨hg2, hb'⟩
          · simp only [List.cons_append, List.cons.injEq] at h
            obtain ⟨rfl, rfl⟩ := h
            have := hu2 (none, x) (by simp)
            simp at this
          · simp at h
        | some m' => exact wInv_start acc hb' hg

/-! ### "balanced whenever an item is yielded", the link's own buffer left aside -/

def OthersOk (id : Nat) (b : BufF) : Prop := ∀ j, j ≠ id → BalE (b j)

def BalAtX (id : Nat) : BufF → List Act → Prop
  | b, [] => OthersOk id b
  | b, .out _ :: as => OthersOk id b ∧ BalAtX id b as
  | b, .reset i :: as => BalAtX id (b.set i []) as
  | b, .app i x :: as => BalAtX id (b.set i (b i ++ [x])) as
  | b, .inj _ :: as => BalAtX id b as

theorem BufF.set_ne (b : BufF) {i j : Nat} (v : List MEv) (h : j ≠ i) : (b.set i v) j = b j := by
  simp [BufF.set, h]

theorem balAtX_congr (id : Nat) : ∀ (a : List Act) (b b' : BufF), (∀ j, j ≠ id → b' j = b j) →
    BalAtX id b a → BalAtX id b' a
  | [], b, b', hj, h => fun j hne => by rw [hj j hne]; exact h j hne
  | .out _ :: as, b, b', hj, h => ⟨fun j hne => by rw [hj j hne]; exact h.1 j hne, balAtX_congr id as b b' hj h.2⟩
  | .inj _ :: as, b, b', hj, h => balAtX_congr id as b b' hj h
  | .reset i :: as, b, b', hj, h => by
    refine balAtX_congr id as (b.set i []) (b'.set i []) (fun j hne => ?_) h
    simp only [BufF.set]; split
    · rfl
    · exact hj j hne
  | .app i x :: as, b, b', hj, h => by
    by_cases hi : i = id
    · subst hi
      refine balAtX_congr i as (b.set i (b i ++ [x])) (b'.set i (b' i ++ [x])) (fun j hne => ?_) h
      rw [BufF.set_ne _ _ hne, BufF.set_ne _ _ hne]; exact hj j hne
    · refine balAtX_congr id as (b.set i (b i ++ [x])) (b'.set i (b' i ++ [x])) (fun j hne => ?_) h
      simp only [BufF.set]; split
      · rename_i hji; subst hji; rw [hj j hne]
      · exact hj j hne

theorem balAtX_of_balAt (id : Nat) : ∀ (a : List Act) (b : BufF), BalAt b a → BalAtX id b a
  | [], _, h => fun j _ => h j
  | .out _ :: as, b, h => ⟨fun j _ => h.1 j, balAtX_of_balAt id as b h.2⟩
  | .inj _ :: as, b, h => balAtX_of_balAt id as b h
  | .reset _ :: as, _, h => balAtX_of_balAt id as _ h
  | .app _ _ :: as, _, h => balAtX_of_balAt id as _ h

theorem bufFOk_of {id : Nat} {b : BufF} (ho : OthersOk id b) (hb : BalE (b id)) : BufFOk b := by
  intro j
  by_cases hj : j = id
  · subst hj; exact hb
  · exact ho j hj

theorem othersOk_set {id : Nat} {b : BufF} (ho : OthersOk id b) (v : List MEv) : OthersOk id (b.set id v) :=
  fun j hj => by rw [BufF.set_ne _ _ hj]; exact ho j hj

/-! ### copy -/

/-- the control state of the copy link follows the run detection -/
theorem copyStep_state (id : Nat) (acc : Bool) (st : RunSt) (pend : MStream) (p : MItem) (bid : List MEv) :
    ∃ pend', (copyStep id acc st pend p).1 = .copy (wNext acc st bid p).1 pend' := by
  obtain ⟨m, x⟩ := p
  cases st with
  | idle => cases m <;> exact ⟨_, rfl⟩
  | inEnter =>
    by_cases hm : m = some Mark.exit
    · simp only [copyStep, wNext, hm, ↓reduceIte]; exact ⟨_, rfl⟩
    · simp only [copyStep, wNext, hm, ↓reduceIte]; exact ⟨_, rfl⟩
  | inRun m0 =>
    by_cases hm : m = some m0
    · simp only [copyStep, wNext, hm, ↓reduceIte]; exact ⟨_, rfl⟩
    · cases m with
      | none => simp only [copyStep, wNext, hm, ↓reduceIte]; exact ⟨_, rfl⟩
      | some m' => simp only [copyStep, wNext, hm, ↓reduceIte]; exact ⟨_, rfl⟩

/-- the actions of one step of the copy link, followed by `rest` -/
theorem copyStep_balAt (id : Nat) (acc : Bool) (st : RunSt) (pend : MStream) (p : MItem) (b : BufF)
    (rest : List Act) (ho : OthersOk id b)
    (hpre : (st = .idle ∨ ∃ m0, st = .inRun m0 ∧ p.1 ≠ some m0) → BalE (b id))
    (hpost : (wNext acc st (b id) p).1 = .idle → BalE (wNext acc st (b id) p).2)
    (hrest : BalAt (b.set id (wNext acc st (b id) p).2) rest) :
    BalAt b ((copyStep id acc st pend p).2 ++ rest) := by
  obtain ⟨m, x⟩ := p
  cases st with
  | idle =>
    have hb := hpre (Or.inl rfl)
    cases m with
    | none =>
      simp only [wNext, BufF.set_self] at hrest
      exact ⟨bufFOk_of ho hb, hrest⟩
    | some m =>
      simp only [wNext] at hrest
      cases acc with
      | true => simpa [copyStep, newSel, BalAt] using hrest
      | false => simpa [copyStep, newSel, BalAt, BufF.set_set, BufF.set_get] using hrest
  | inEnter =>
    by_cases hm : m = some Mark.exit
    · subst hm
      simp only [wNext, ↓reduceIte] at hrest hpost
      simp only [copyStep, ↓reduceIte, List.cons_append, BalAt]
      exact balAt_outs_append _ (bufFOk_of (othersOk_set ho _) (by simpa [BufF.set_get] using hpost trivial)) hrest
    · simp only [wNext, hm, ↓reduceIte] at hrest
      simpa [copyStep, hm, BalAt] using hrest
  | inRun m0 =>
    by_cases hm : m = some m0
    · subst hm
      simp only [wNext, ↓reduceIte] at hrest
      simpa [copyStep, BalAt] using hrest
    · have hb := hpre (Or.inr ⟨m0, rfl, hm⟩)
      cases m with
      | none =>
        simp only [wNext, hm, ↓reduceIte, BufF.set_self] at hrest
        simp only [copyStep, hm, ↓reduceIte, List.append_assoc]
        exact balAt_outs_append _ (bufFOk_of ho hb) ⟨bufFOk_of ho hb, hrest⟩
      | some m' =>
        simp only [wNext, hm, ↓reduceIte] at hrest
        simp only [copyStep, hm, ↓reduceIte, List.append_assoc]
        refine balAt_outs_append _ (bufFOk_of ho hb) ?_
        cases acc with
        | true => simpa [newSel, BalAt] using hrest
        | false => simpa [newSel, BalAt, BufF.set_set, BufF.set_get] using hrest

theorem wInv_nil {st : RunSt} {bid : List MEv} (h : WInv st bid []) : BalE bid := by
  cases st with
  | idle => exact h.2
  | inRun m0 =>
    obtain ⟨_, blk, R', hR, _, _, hb⟩ := h
    have : blk = [] := by
      cases blk with
      | nil => rfl
      | cons q blk => simp at hR
    subst this
    simpa using hb
  | inEnter =>
    obtain ⟨mid, x, R', hR, _⟩ := h
    cases mid <;> simp at hR

theorem copy_balAt_aux (id : Nat) (acc : Bool) : ∀ (a : List Act) (st : RunSt) (pend : MStream) (b : BufF)
    (u : List Act), injFree a = true → (∀ x ∈ a, id ∉ x.wr) → BalAtX id b a → WInv st (b id) (outsOf a) →
    linkU (.copy id acc) (.copy st pend) a = some u → BalAt b u
  | [], st, pend, b, u, _, _, hx, hinv, h => by
    simp only [linkU, finOp, Option.some.injEq] at h
    subst h
    exact balAt_outs _ (bufFOk_of hx (wInv_nil hinv))
  | y :: as, st, pend, b, u, hf, hw, hx, hinv, h => by
    have hw' : ∀ z ∈ as, id ∉ z.wr := fun z hz => hw z (List.mem_cons_of_mem _ hz)
    cases y with
    | inj ct => simp [injFree] at hf
    | reset i =>
      have hi : i ≠ id := by
        intro hc; subst hc
        exact hw _ (List.mem_cons_self ..) (by simp [Act.wr])
      simp only [linkU, Option.map_eq_some_iff] at h
      obtain ⟨u2, h2, rfl⟩ := h
      simp only [BalAt]
      refine copy_balAt_aux id acc as st pend _ u2 (by simpa [injFree] using hf) hw' hx ?_ h2
      rw [BufF.set_ne _ _ (Ne.symm hi)]; exact hinv
    | app i z =>
      have hi : i ≠ id := by
        intro hc; subst hc
        exact hw _ (List.mem_cons_self ..) (by simp [Act.wr])
      simp only [linkU, Option.map_eq_some_iff] at h
      obtain ⟨u2, h2, rfl⟩ := h
      simp only [BalAt]
      refine copy_balAt_aux id acc as st pend _ u2 (by simpa [injFree] using hf) hw' hx ?_ h2
      rw [BufF.set_ne _ _ (Ne.symm hi)]; exact hinv
    | out p =>
      simp only [linkU, stepOp, Option.map_eq_some_iff] at h
      obtain ⟨u2, h2, rfl⟩ := h
      obtain ⟨hnext, hpre⟩ := wNext_inv acc st (b id) p (outsOf as) hinv
      have hpost : (wNext acc st (b id) p).1 = .idle → BalE (wNext acc st (b id) p).2 := by
        intro hidle
        rw [hidle] at hnext
        exact hnext.2
      obtain ⟨pend', hst⟩ := copyStep_state id acc st pend p (b id)
      rw [hst] at h2
      refine copyStep_balAt id acc st pend p b u2 hx.1 hpre hpost ?_
      refine copy_balAt_aux id acc as _ pend' _ u2 (by simpa [injFree] using hf) hw'
        (balAtX_congr id as b _ (fun j hj => BufF.set_ne _ _ hj) hx.2) ?_ h2
      rw [BufF.set_get]; exact hnext

theorem copy_balAt (id : Nat) (acc : Bool) (a : List Act) (b : BufF) (u : List Act)
    (hf : injFree a = true) (hw : ∀ x ∈ a, id ∉ x.wr) (hg : Good (outsOf a)) (hb : BalAt b a) (hbid : BalE (b id))
    (h : linkU (.copy id acc) (.copy .idle []) a = some u) : BalAt b u :=
  copy_balAt_aux id acc a .idle [] b u hf hw (balAtX_of_balAt id a b hb) ⟨hg, hbid⟩ h

/-! ### cut -/

theorem cutSel_balAt (id : Nat) (acc broken : Bool) (x : MEv) (b : BufF) (rest : List Act)
    (hb : BufFOk b) (hrest : BalAt (b.set id ((if acc then b id else []) ++ [x])) rest) :
    BalAt b (cutSel id acc broken x ++ rest) := by
  cases acc with
  | true => simpa [cutSel, BalAt] using hrest
  | false =>
    cases broken with
    | true => simpa [cutSel, BalAt, BufF.set_set, BufF.set_get] using hrest
    | false =>
      have : BalAt ((b.set id []).set id ((b.set id []) id ++ [x])) rest := by
        simpa [BufF.set_set, BufF.set_get] using hrest
      simpa [cutSel, BalAt] using And.intro hb this

/-- one step of the cut link: its control state follows the run detection, and its actions,
    followed by `rest`, keep the buffers balanced at every yield -/
theorem cutStep_spec (id : Nat) (acc : Bool) (st : RunSt) (br : Bool) (nm : List QName) (p : MItem) (b : BufF)
    (c' : Ctl) (acts : List Act) (h : cutStep id acc st br nm p = some (c', acts)) :
    (∃ br' nm', c' = .cut (wNext acc st (b id) p).1 br' nm') ∧
    ∀ (rest : List Act), OthersOk id b →
      ((st = .idle ∨ ∃ m0, st = .inRun m0 ∧ p.1 ≠ some m0) → BalE (b id)) →
      BalAt (b.set id (wNext acc st (b id) p).2) rest → BalAt b (acts ++ rest) := by
  obtain ⟨m, x⟩ := p
  cases st with
  | idle =>
    cases m with
    | none =>
      simp only [cutStep, Option.some.injEq, Prod.mk.injEq] at h
      obtain ⟨rfl, rfl⟩ := h
      refine ⟨⟨_, _, rfl⟩, fun rest ho hpre hrest => ?_⟩
      simp only [wNext, BufF.set_self] at hrest
      exact ⟨bufFOk_of ho (hpre (Or.inl rfl)), hrest⟩
    | some m =>
      simp only [cutStep, Option.some.injEq, Prod.mk.injEq] at h
      obtain ⟨rfl, rfl⟩ := h
      refine ⟨⟨_, _, rfl⟩, fun rest ho hpre hrest => ?_⟩
      exact cutSel_balAt id acc br x b rest (bufFOk_of ho (hpre (Or.inl rfl))) hrest
  | inEnter =>
    simp only [cutStep, Option.some.injEq, Prod.mk.injEq] at h
    obtain ⟨rfl, rfl⟩ := h
    refine ⟨⟨_, _, rfl⟩, fun rest ho hpre hrest => ?_⟩
    simpa [wNext, BalAt] using hrest
  | inRun m0 =>
    by_cases hm : m = some m0
    · subst hm
      simp only [cutStep, ↓reduceIte, Option.some.injEq, Prod.mk.injEq] at h
      obtain ⟨rfl, rfl⟩ := h
      refine ⟨by simp only [wNext, ↓reduceIte]; exact ⟨_, _, rfl⟩, fun rest ho hpre hrest => ?_⟩
      simpa [wNext, BalAt] using hrest
    · simp only [cutStep, hm, ↓reduceIte] at h
      split at h
      · simp at h
      · cases m with
        | none =>
          simp only [Option.some.injEq, Prod.mk.injEq] at h
          obtain ⟨rfl, rfl⟩ := h
          refine ⟨by simp only [wNext, hm, ↓reduceIte]; exact ⟨_, _, rfl⟩, fun rest ho hpre hrest => ?_⟩
          simp only [wNext, hm, ↓reduceIte, BufF.set_self] at hrest
          exact ⟨bufFOk_of ho (hpre (Or.inr ⟨m0, rfl, hm⟩)), hrest⟩
        | some m' =>
          simp only [Option.some.injEq, Prod.mk.injEq] at h
          obtain ⟨rfl, rfl⟩ := h
          refine ⟨by simp only [wNext, hm, ↓reduceIte]; exact ⟨_, _, rfl⟩, fun rest ho hpre hrest => ?_⟩
          simp only [wNext, hm, ↓reduceIte] at hrest
          exact cutSel_balAt id acc false x b rest (bufFOk_of ho (hpre (Or.inr ⟨m0, rfl, hm⟩))) hrest

theorem cut_balAt_aux (id : Nat) (acc : Bool) : ∀ (a : List Act) (st : RunSt) (br : Bool) (nm : List QName)
    (b : BufF) (u : List Act), injFree a = true → (∀ x ∈ a, id ∉ x.wr) → BalAtX id b a →
    WInv st (b id) (outsOf a) → linkU (.cut id acc) (.cut st br nm) a = some u → BalAt b u
  | [], st, br, nm, b, u, _, _, hx, hinv, h => by
    simp only [linkU, finOp, Option.some.injEq] at h
    subst h
    have hb := bufFOk_of hx (wInv_nil hinv)
    cases br
    · exact ⟨hb, hb⟩
    · exact hb
  | y :: as, st, br, nm, b, u, hf, hw, hx, hinv, h => by
    have hw' : ∀ z ∈ as, id ∉ z.wr := fun z hz => hw z (List.mem_cons_of_mem _ hz)
    cases y with
    | inj ct => simp [injFree] at hf
    | reset i =>
      have hi : i ≠ id := by
        intro hc; subst hc
        exact hw _ (List.mem_cons_self ..) (by simp [Act.wr])
      simp only [linkU, Option.map_eq_some_iff] at h
      obtain ⟨u2, h2, rfl⟩ := h
      simp only [BalAt]
      refine cut_balAt_aux id acc as st br nm _ u2 (by simpa [injFree] using hf) hw' hx ?_ h2
      rw [BufF.set_ne _ _ (Ne.symm hi)]; exact hinv
    | app i z =>
      have hi : i ≠ id := by
        intro hc; subst hc
        exact hw _ (List.mem_cons_self ..) (by simp [Act.wr])
      simp only [linkU, Option.map_eq_some_iff] at h
      obtain ⟨u2, h2, rfl⟩ := h
      simp only [BalAt]
      refine cut_balAt_aux id acc as st br nm _ u2 (by simpa [injFree] using hf) hw' hx ?_ h2
      rw [BufF.set_ne _ _ (Ne.symm hi)]; exact hinv
    | out p =>
      simp only [linkU, stepOp] at h
      cases hs : cutStep id acc st br nm p with
      | none => simp [hs] at h
      | some r =>
        obtain ⟨c', acts⟩ := r
        simp only [hs, Option.map_eq_some_iff] at h
        obtain ⟨u2, h2, rfl⟩ := h
        obtain ⟨hnext, hpre⟩ := wNext_inv acc st (b id) p (outsOf as) hinv
        obtain ⟨⟨br', nm', rfl⟩, hbal⟩ := cutStep_spec id acc st br nm p b c' acts hs
        refine hbal u2 hx.1 hpre ?_
        refine cut_balAt_aux id acc as _ br' nm' _ u2 (by simpa [injFree] using hf) hw'
          (balAtX_congr id as b _ (fun j hj => BufF.set_ne _ _ hj) hx.2) ?_ h2
        rw [BufF.set_get]; exact hnext

theorem cut_balAt (id : Nat) (acc : Bool) (a : List Act) (b : BufF) (u : List Act)
    (hf : injFree a = true) (hw : ∀ x ∈ a, id ∉ x.wr) (hg : Good (outsOf a)) (hb : BalAt b a) (hbid : BalE (b id))
    (h : linkU (.cut id acc) (.cut .idle false []) a = some u) : BalAt b u :=
  cut_balAt_aux id acc a .idle false [] b u hf hw (balAtX_of_balAt id a b hb) ⟨hg, hbid⟩ h

end Genshi.Tf

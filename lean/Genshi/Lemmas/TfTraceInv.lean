/-
  Trace semantics: the invariant of a chain, link by link.
  "well nested; `Good` — or, after `invert()`, free of ENTER/EXIT marks —; every buffer balanced
  whenever an item is yielded" is kept by every admissible link, also by a link that reads a buffer
  a link before it in the same segment writes (the buffer is balanced at every injection point).
-/
import Genshi.Lemmas.TfTraceW
import Genshi.Lemmas.TfTraceInj
import Genshi.Lemmas.TfVaryDirty
namespace Genshi.Tf

/-- the invariant between two links of a segment: `a` = the actions of the links so far, `b` = the
    buffers the segment started with, `w` = the buffers written so far in the segment -/
structure TInv (good : Bool) (w : List Nat) (b : BufF) (a : List Act) : Prop where
  inj : injFree a = true
  wn : WellNested (unmark (outsOf a))
  isGood : good = true → Good (outsOf a)
  isInner : good = false → Inner (outsOf a)
  bal : BalAt b a
  wr : ∀ x ∈ a, ∀ i ∈ x.wr, i ∈ w
  b0 : BufFOk b

/-- a link admitted after the buffers `w` were written in the segment: the operation is admitted on
    the marking (`OkGood` / `OkDirty` as for the stage-wise chain) and its buffer has no writer yet -/
def AdmOp (good : Bool) (w : List Nat) (op : Op) : Prop :=
  (if good then op.OkGood else op.OkDirty) ∧ (∀ i ∈ wrOp op, i ∉ w)

def admSeg : Bool → List Nat → List Op → Prop
  | _, _, [] => True
  | good, w, op :: ops => AdmOp good w op ∧ admSeg (op.next good) (wrOp op ++ w) ops

def goodAfter : Bool → List Op → Bool
  | good, [] => good
  | good, op :: ops => goodAfter (op.next good) ops

def AdmSegs : Bool → List (List Op) → Prop
  | _, [] => True
  | good, seg :: ss => admSeg good [] seg ∧ AdmSegs (goodAfter good seg) ss

/-! ### a link that reads nothing written in the segment: the stage-wise theorems apply -/

def bufsFor (op : Op) (b : BufF) : Bufs :=
  match readsOf op with
  | some id => Bufs.set [] id (b id)
  | none => []

theorem bufsFor_ok (op : Op) {b : BufF} (hb : BufFOk b) : BufsOk (bufsFor op b) := by
  unfold bufsFor
  cases readsOf op with
  | none => exact BufsOk.nil
  | some id => exact BufsOk.nil.set id (hb id)

theorem bufsFor_rd (op : Op) (b : BufF) : ∀ i ∈ rdOp op, ofBufs (bufsFor op b) i = b i := by
  intro i hi
  simp only [rdOp] at hi
  unfold bufsFor
  cases hr : readsOf op with
  | none => simp [hr] at hi
  | some id =>
    simp only [hr, Option.toList_some, List.mem_singleton] at hi
    subst hi
    simp [ofBufs, Bufs.get, Bufs.set]

theorem link_stage (op : Op) (good : Bool) (w : List Nat) (b : BufF) (a u : List Act) (inv : TInv good w b a)
    (hok : if good then op.OkGood else op.OkDirty) (hrd : ∀ i ∈ rdOp op, i ∉ w)
    (hsel : op.selOkAt (outsOf a) = true) (h : linkU op (initCtl op) a = some u) :
    WellNested (unmark (outsOf (resolve b u))) ∧ (op.next good = true → Good (outsOf (resolve b u))) ∧
    (op.next good = false → Inner (outsOf (resolve b u))) := by
  obtain ⟨u', h3, h4⟩ := linkU_proj op a (initCtl op) b u inv.inj
    (fun x hx i hi hr => hrd i hr (inv.wr x hx i hi)) h
  have hag := op_agree (bufsFor op b) op (outsOf a)
  have hbb := bufsFor_ok op inv.b0
  cases ha : applyOp (bufsFor op b) op (outsOf a) with
  | none => rw [hag.2 ha] at h3; simp at h3
  | some r =>
    obtain ⟨s1, b1⟩ := r
    obtain ⟨acts, h5, h6, _⟩ := hag.1 s1 b1 ha
    rw [h3] at h5
    simp only [Option.some.injEq] at h5
    subst h5
    have hs1 : outsOf (resolve b u) = s1 := by
      rw [h4, ← h6]
      exact (flat_congr (actsAll_fp op _ _ u' h3) (bufsFor_rd op b)).symm
    rw [hs1]
    have ci : ChainInv good (outsOf a) (bufsFor op b) := ⟨inv.wn, inv.isGood, inv.isInner, hbb⟩
    cases good with
    | true =>
      have := applyOp_good (bufsFor op b) op (by simpa using hok) ci hsel ha
      exact ⟨this.wn, this.isGood, this.isInner⟩
    | false =>
      have := applyOp_dirty (bufsFor op b) op (by simpa using hok) ci hsel ha
      exact ⟨this.wn, this.isGood, this.isInner⟩

/-! ### the writers yield no injection -/

theorem linkU_injFree (op : Op)
    (hs : ∀ c p c' acts, stepOp op c p = some (c', acts) → injFree acts = true)
    (hfin : ∀ c acts, finOp op c = some acts → injFree acts = true) :
    ∀ (a : List Act) (c : Ctl) (u : List Act), injFree a = true → linkU op c a = some u → injFree u = true
  | [], c, u, _, h => hfin c u (by simpa [linkU] using h)
  | y :: as, c, u, hf, h => by
    cases y with
    | inj ct => simp [injFree] at hf
    | reset id =>
      simp only [linkU, Option.map_eq_some_iff] at h
      obtain ⟨u2, h2, rfl⟩ := h
      simpa [injFree] using linkU_injFree op hs hfin as c u2 (by simpa [injFree] using hf) h2
    | app id z =>
      simp only [linkU, Option.map_eq_some_iff] at h
      obtain ⟨u2, h2, rfl⟩ := h
      simpa [injFree] using linkU_injFree op hs hfin as c u2 (by simpa [injFree] using hf) h2
    | out p =>
      simp only [linkU] at h
      cases hst : stepOp op c p with
      | none => simp [hst] at h
      | some r =>
        obtain ⟨c', a1⟩ := r
        simp only [hst, Option.map_eq_some_iff] at h
        obtain ⟨a2, h2, rfl⟩ := h
        exact injFree_append _ _ (hs c p c' a1 hst)
          (linkU_injFree op hs hfin as c' a2 (by simpa [injFree] using hf) h2)

theorem injFree_newSel (id : Nat) (acc : Bool) (x : MEv) : injFree (newSel id acc x) = true := by
  cases acc <;> rfl

theorem injFree_cutSel (id : Nat) (acc br : Bool) (x : MEv) : injFree (cutSel id acc br x) = true := by
  cases acc <;> cases br <;> rfl

theorem copy_injFree (id : Nat) (acc : Bool) (a : List Act) (c : Ctl) (u : List Act) (hf : injFree a = true)
    (h : linkU (.copy id acc) c a = some u) : injFree u = true := by
  refine linkU_injFree (.copy id acc) (fun c p c' acts hs => ?_) (fun c acts hfin => ?_) a c u hf h
  · cases c with
    | copy st pend =>
      simp only [stepOp, Option.some.injEq] at hs
      obtain ⟨m, x⟩ := p
      have : acts = (copyStep id acc st pend (m, x)).2 := by rw [hs]
      subst this
      cases st with
      | idle => cases m <;> simp [copyStep, injFree, injFree_newSel]
      | inEnter =>
        by_cases he : m = some Mark.exit
        · simp [copyStep, he, injFree, injFree_outs]
        · simp [copyStep, he, injFree]
      | inRun m0 =>
        by_cases he : m = some m0
        · simp [copyStep, he, injFree]
        · cases m with
          | none => simpa [copyStep, he] using injFree_append _ _ (injFree_outs pend) (by rfl : injFree [Act.out (none, x)] = true)
          | some m' => simpa [copyStep, he] using injFree_append _ _ (injFree_outs pend) (injFree_newSel id acc x)
    | _ => simp [stepOp] at hs
  · cases c with
    | copy st pend =>
      simp only [finOp, Option.some.injEq] at hfin
      subst hfin; exact injFree_outs _
    | _ => simp [finOp] at hfin

theorem cut_injFree (id : Nat) (acc : Bool) (a : List Act) (c : Ctl) (u : List Act) (hf : injFree a = true)
    (h : linkU (.cut id acc) c a = some u) : injFree u = true := by
  refine linkU_injFree (.cut id acc) (fun c p c' acts hs => ?_) (fun c acts hfin => ?_) a c u hf h
  · cases c with
    | cut st br nm =>
      simp only [stepOp] at hs
      obtain ⟨m, x⟩ := p
      cases st with
      | idle =>
        cases m with
        | none => simp only [cutStep, Option.some.injEq, Prod.mk.injEq] at hs; rw [← hs.2]; rfl
        | some m => simp only [cutStep, Option.some.injEq, Prod.mk.injEq] at hs; rw [← hs.2]; exact injFree_cutSel ..
      | inEnter => simp only [cutStep, Option.some.injEq, Prod.mk.injEq] at hs; rw [← hs.2]; rfl
      | inRun m0 =>
        by_cases he : m = some m0
        · simp only [cutStep, he, ↓reduceIte, Option.some.injEq, Prod.mk.injEq] at hs; rw [← hs.2]; rfl
        · simp only [cutStep, he, ↓reduceIte] at hs
          split at hs
          · simp at hs
          · cases m with
            | none => simp only [Option.some.injEq, Prod.mk.injEq] at hs; rw [← hs.2]; rfl
            | some m' => simp only [Option.some.injEq, Prod.mk.injEq] at hs; rw [← hs.2]; exact injFree_cutSel ..
    | _ => simp [stepOp] at hs
  · cases c with
    | cut st br nm =>
      simp only [finOp, Option.some.injEq] at hfin
      subst hfin; cases br <;> rfl
    | _ => simp [finOp] at hfin

/-! ### one link -/

theorem link_inv (op : Op) (good : Bool) (w : List Nat) (b : BufF) (a u : List Act) (inv : TInv good w b a)
    (hadm : AdmOp good w op) (hsel : op.selOkAt (outsOf a) = true) (h : linkU op (initCtl op) a = some u) :
    TInv (op.next good) (wrOp op ++ w) b (resolve b u) := by
  obtain ⟨hok, hwr⟩ := hadm
  -- the parts that do not depend on the kind of link
  have hinj : injFree (resolve b u) = true := injFree_resolve u b
  have hw : ∀ x ∈ resolve b u, ∀ i ∈ x.wr, i ∈ wrOp op ++ w :=
    resolve_wr u b _ (linkU_wr op a (initCtl op) u w inv.inj inv.wr h)
  -- balance of the buffers at every yield
  have hbal : BalAt b (resolve b u) := by
    by_cases hwo : wrOp op = []
    · exact linkU_balAt op hwo a (initCtl op) b u inv.inj inv.bal h
    · cases op with
      | copy id acc =>
        cases good with
        | false => simp [Op.OkDirty] at hok
        | true =>
          have hid : ∀ x ∈ a, id ∉ x.wr := fun x hx hc => hwr id (by simp [wrOp]) (inv.wr x hx id hc)
          rw [resolve_injFree u b (copy_injFree id acc a _ u inv.inj h)]
          exact copy_balAt id acc a b u inv.inj hid (inv.isGood rfl) inv.bal (inv.b0 id) h
      | cut id acc =>
        cases good with
        | false => simp [Op.OkDirty] at hok
        | true =>
          have hid : ∀ x ∈ a, id ∉ x.wr := fun x hx hc => hwr id (by simp [wrOp]) (inv.wr x hx id hc)
          rw [resolve_injFree u b (cut_injFree id acc a _ u inv.inj h)]
          exact cut_balAt id acc a b u inv.inj hid (inv.isGood rfl) inv.bal (inv.b0 id) h
      | _ => simp [wrOp] at hwo
  -- nesting and marking
  have hok0 := hok
  have stage : (∀ i ∈ rdOp op, i ∉ w) → TInv (op.next good) (wrOp op ++ w) b (resolve b u) := fun hrd => by
    obtain ⟨h1, h2, h3⟩ := link_stage op good w b a u inv hok0 hrd hsel h
    exact ⟨hinj, h1, h2, h3, hbal, hw, inv.b0⟩
  have mk : WellNested (unmark (outsOf (resolve b u))) → Good (outsOf (resolve b u)) → op.next good = true →
      TInv (op.next good) (wrOp op ++ w) b (resolve b u) := fun h1 h2 h3 =>
    ⟨hinj, h1, fun _ => h2, fun hc => by rw [h3] at hc; simp at hc, hbal, hw, inv.b0⟩
  have hvc : ∀ (c : Content), c.Ok → ∀ b', BufFOk b' →
      VOk (outsOf (resolve b' [.inj c])) ∧ VOk (outsOf (resolve b' [])) := fun c hc b' hb' => by
    refine ⟨?_, vok_nil⟩
    simpa [resolve, outsOf_append, outsOf_outs, outsOf] using vok_content hb' hc
  have hvc' : ∀ (c : Content), c.Ok → ∀ b', BufFOk b' →
      VOk (outsOf (resolve b' [])) ∧ VOk (outsOf (resolve b' [.inj c])) := fun c hc b' hb' =>
    ⟨(hvc c hc b' hb').2, (hvc c hc b' hb').1⟩
  cases good with
  | false =>
    -- after `invert()`: before / after keep every marked stream balanced, prepend / append find no element
    have hin := inv.isInner rfl
    simp only [Bool.false_eq_true, ↓reduceIte] at hok
    have mkI : WellNested (unmark (outsOf (resolve b u))) → Inner (outsOf (resolve b u)) → op.next false = false →
        TInv (op.next false) (wrOp op ++ w) b (resolve b u) := fun h1 h2 h3 =>
      ⟨hinj, h1, fun hc => by rw [h3] at hc; simp at hc, fun _ => h2, hbal, hw, inv.b0⟩
    cases op with
    | replace c => exact absurd hok (by simp [Op.OkDirty])
    | before c =>
      obtain ⟨pres, posts, p1, p2, p3⟩ := run_link (.before c) [.inj c] [] true (fun _ _ => rfl) (fun _ => rfl)
        (noWr_inj c) noWr_nil (hvc c hok) a .idle b u inv.inj inv.bal h
      exact mkI (by rw [p3]; exact runGoL_wellNested_any _ pres posts p1 p2 .idle inv.wn)
        (by rw [p3]; exact runGoL_inner _ hin pres posts p1 p2 .idle) rfl
    | after c =>
      obtain ⟨pres, posts, p1, p2, p3⟩ := run_link (.after c) [] [.inj c] true (fun _ _ => rfl) (fun _ => rfl)
        noWr_nil (noWr_inj c) (hvc' c hok) a .idle b u inv.inj inv.bal h
      exact mkI (by rw [p3]; exact runGoL_wellNested_any _ pres posts p1 p2 .idle inv.wn)
        (by rw [p3]; exact runGoL_inner _ hin pres posts p1 p2 .idle) rfl
    | prepend c =>
      obtain ⟨cs, p1, p3⟩ := prepend_link c hok a b u inv.inj inv.bal h
      rw [prependL_inner_id cs hin] at p3
      exact mkI (by rw [p3]; exact inv.wn) (by rw [p3]; exact hin) rfl
    | append c =>
      obtain ⟨cs, p1, p3⟩ := append_link c hok a none b u inv.inj inv.bal h
      rw [appendL_inner_id cs hin] at p3
      exact mkI (by rw [p3]; exact inv.wn) (by rw [p3]; exact hin) rfl
    | _ => exact stage (fun i hi => by simp [rdOp, readsOf] at hi)
  | true =>
    have hg := inv.isGood rfl
    simp only [↓reduceIte] at hok
    cases op with
    | replace c =>
      obtain ⟨pres, posts, p1, p2, p3⟩ := run_link (.replace c) [.inj c] [] false (fun _ _ => rfl) (fun _ => rfl)
        (noWr_inj c) noWr_nil (hvc c hok) a .idle b u inv.inj inv.bal h
      exact mk (by rw [p3]; exact runGoL_wellNested false hg pres posts p1 p2 inv.wn) (by rw [p3]; exact runGoL_good false hg pres posts p1 p2) rfl
    | before c =>
      obtain ⟨pres, posts, p1, p2, p3⟩ := run_link (.before c) [.inj c] [] true (fun _ _ => rfl) (fun _ => rfl)
        (noWr_inj c) noWr_nil (hvc c hok) a .idle b u inv.inj inv.bal h
      exact mk (by rw [p3]; exact runGoL_wellNested true hg pres posts p1 p2 inv.wn) (by rw [p3]; exact runGoL_good true hg pres posts p1 p2) rfl
    | after c =>
      obtain ⟨pres, posts, p1, p2, p3⟩ := run_link (.after c) [] [.inj c] true (fun _ _ => rfl) (fun _ => rfl)
        noWr_nil (noWr_inj c) (hvc' c hok) a .idle b u inv.inj inv.bal h
      exact mk (by rw [p3]; exact runGoL_wellNested true hg pres posts p1 p2 inv.wn) (by rw [p3]; exact runGoL_good true hg pres posts p1 p2) rfl
    | prepend c =>
      obtain ⟨cs, p1, p3⟩ := prepend_link c hok a b u inv.inj inv.bal h
      exact mk (by rw [p3]; exact prependL_wellNested hg cs p1 inv.wn) (by rw [p3]; exact prependL_good hg cs p1) rfl
    | append c =>
      obtain ⟨cs, p1, p3⟩ := append_link c hok a none b u inv.inj inv.bal h
      exact mk (by rw [p3]; exact appendL_wellNested hg cs p1 inv.wn) (by rw [p3]; exact appendL_good hg cs p1) rfl
    | _ => exact stage (fun i hi => by simp [rdOp, readsOf] at hi)

/-! ### a segment, a chain -/

theorem traceFrom_inv : ∀ (ops : List Op) (good : Bool) (w : List Nat) (b : BufF) (a t : List Act),
    TInv good w b a → admSeg good w ops → traceSelOkFrom ops b a = true →
    traceFrom ops (ops.map initCtl) b a = some t → ∃ w', TInv (goodAfter good ops) w' b t
  | [], good, w, b, a, t, inv, _, _, h => by
    simp only [traceFrom, Option.some.injEq] at h
    subst h
    exact ⟨w, inv⟩
  | op :: ops, good, w, b, a, t, inv, hadm, hsel, h => by
    simp only [List.map_cons, traceFrom] at h
    simp only [traceSelOkFrom, Bool.and_eq_true] at hsel
    cases hu : linkU op (initCtl op) a with
    | none => simp [hu] at h
    | some u =>
      simp only [hu] at h hsel
      exact traceFrom_inv ops (op.next good) _ b (resolve b u) t (link_inv op good w b a u inv hadm.1 hsel.1 hu)
        hadm.2 hsel.2 h

theorem effs_reset_ok {b : BufF} (hb : BufFOk b) (id : Nat) : BufFOk (b.set id []) := by
  intro j
  simp only [BufF.set]; split
  · exact BalE.nil
  · exact hb j

theorem proBufs_ok : ∀ (ops : List Op) {b : BufF}, BufFOk b → BufFOk (proBufs ops b)
  | [], _, hb => hb
  | op :: ops, b, hb => by
    have ih := proBufs_ok ops hb
    simp only [proBufs]
    cases op with
    | cut id acc => cases acc <;> simp [proOf, effs, effs_reset_ok ih, ih]
    | _ => simpa [proOf, effs] using ih

/-- what a segment needs and gives -/
structure SegInv (good : Bool) (s : MStream) (b : BufF) : Prop where
  wn : WellNested (unmark s)
  isGood : good = true → Good s
  isInner : good = false → Inner s
  bufs : BufFOk b

theorem traceSeg_inv (seg : List Op) (good : Bool) (b : BufF) (s s' : MStream) (b' : BufF)
    (inv : SegInv good s b) (hadm : admSeg good [] seg) (hsel : traceSelOkSeg seg b s = true)
    (h : traceSeg seg b s = some (s', b')) : SegInv (goodAfter good seg) s' b' := by
  simp only [traceSeg, Option.map_eq_some_iff, Prod.mk.injEq] at h
  obtain ⟨t, ht, rfl, rfl⟩ := h
  have hb0 := proBufs_ok seg inv.bufs
  have i0 : TInv good [] (proBufs seg b) (outs s) :=
    ⟨injFree_outs s, by rw [outsOf_outs]; exact inv.wn, fun h => by rw [outsOf_outs]; exact inv.isGood h,
     fun h => by rw [outsOf_outs]; exact inv.isInner h, balAt_outs s hb0,
     fun x hx i hi => by have := (ActsIn.outs [] [] s x hx).1 i hi; simp at this, hb0⟩
  obtain ⟨w', it⟩ := traceFrom_inv seg good [] _ (outs s) t i0 hadm hsel ht
  exact ⟨it.wn, it.isGood, it.isInner, BalAt.bufs t _ it.bal⟩

theorem traceSegs_inv : ∀ (ss : List (List Op)) (good : Bool) (b : BufF) (s s' : MStream) (b' : BufF),
    SegInv good s b → AdmSegs good ss → traceSelOk ss b s = true → traceSegs ss b s = some (s', b') →
    WellNested (unmark s')
  | [], good, b, s, s', b', inv, _, _, h => by
    simp only [traceSegs, Option.some.injEq, Prod.mk.injEq] at h
    rw [← h.1]; exact inv.wn
  | seg :: ss, good, b, s, s', b', inv, hadm, hsel, h => by
    simp only [traceSegs] at h
    simp only [traceSelOk, Bool.and_eq_true] at hsel
    cases hs : traceSeg seg b s with
    | none => simp [hs] at h
    | some r =>
      obtain ⟨s1, b1⟩ := r
      simp only [hs] at h hsel
      exact traceSegs_inv ss _ b1 s1 s' b' (traceSeg_inv seg good b s s1 b1 inv hadm.1 hsel.1 hs) hadm.2 hsel.2 h

/-- `chain_wellnested` for the trace semantics -/
theorem trace_chain_wellnested (ops : List Op) (s : Stream) (hs : WellNested s)
    (hadm : AdmSegs true (segs ops)) (hsel : traceSelOk (segs ops) (fun _ => []) (markAll s) = true)
    (out : MStream) (b : BufF) (h : runTrace ops (fun _ => []) (markAll s) = some (out, b)) :
    WellNested (unmark out) :=
  traceSegs_inv (segs ops) true (fun _ => []) (markAll s) out b
    ⟨by rw [unmark_markAll]; exact hs, fun _ => markAll_good hs, fun h => by simp at h, fun _ => BalE.nil⟩
    hadm hsel h

/-! ### the hypothesis, read like `Admissible` -/

/-- between two `buffer()` barriers every buffer has at most one writer (`w`: written so far) -/
def OneWriter : List Nat → List Op → Prop
  | _, [] => True
  | _, .buffer :: ops => OneWriter [] ops
  | w, op :: ops => (∀ i ∈ wrOp op, i ∉ w) ∧ OneWriter (wrOp op ++ w) ops

/-- `AdmSegs` is `Admissible` (the hypothesis of `chain_wellnested`) plus "one writer per buffer
    between two barriers" -/
theorem admSegs_of_admissible : ∀ (ops : List Op) (good : Bool) (w : List Nat),
    Admissible good ops → OneWriter w ops →
    ∃ s0 ss, segs ops = s0 :: ss ∧ admSeg good w s0 ∧ AdmSegs (goodAfter good s0) ss
  | [], good, w, _, _ => ⟨[], [], rfl, trivial, trivial⟩
  | op :: ops, good, w, hadm, hone => by
    obtain ⟨h1, h2⟩ := hadm
    by_cases hb : op = .buffer
    · subst hb
      obtain ⟨s0, ss, hs, ha, hr⟩ := admSegs_of_admissible ops good [] h2 hone
      exact ⟨[], s0 :: ss, by rw [segs_cons _ _ _ _ hs], trivial, ⟨ha, hr⟩⟩
    · have hone' : (∀ i ∈ wrOp op, i ∉ w) ∧ OneWriter (wrOp op ++ w) ops := by
        cases op <;> first | exact absurd rfl hb | exact hone
      obtain ⟨s0, ss, hs, ha, hr⟩ := admSegs_of_admissible ops (op.next good) (wrOp op ++ w) h2 hone'.2
      refine ⟨op :: s0, ss, ?_, ⟨⟨h1, hone'.1⟩, ha⟩, hr⟩
      rw [segs_cons _ _ _ _ hs]
      cases op <;> first | exact absurd rfl hb | rfl

theorem admSegs_admissible (ops : List Op) (hadm : Admissible true ops) (hone : OneWriter [] ops) :
    AdmSegs true (segs ops) := by
  obtain ⟨s0, ss, hs, ha, hr⟩ := admSegs_of_admissible ops true [] hadm hone
  rw [hs]; exact ⟨ha, hr⟩

end Genshi.Tf

/-
  C13 — every leaf token of a tree occurs in what the generator writes, in source order
  (`leaves e <+ gen e`, `leavesB ss <+ lineToks (genBody ind ss)`): structural induction over the
  tree that follows the visitors; no parser involved.
-/
import Genshi.Model.PyLeaves
namespace Genshi.Py
open Genshi.Gen List

theorem sub_wrapP (k : Str) {a A : List Tok} (h : a <+ A) : a <+ wrapP k A := by
  unfold wrapP
  split
  · exact (h.trans (sublist_append_left A [tRP])).cons _
  · exact h

theorem sub_snoc {a A : List Tok} (t : Tok) (h : a <+ A) : a <+ A ++ [t] :=
  h.trans (sublist_append_left A [t])

theorem sub_pre {a A : List Tok} (p : List Tok) (h : a <+ A) : a <+ p ++ A :=
  h.trans (sublist_append_right p A)

theorem signedNum_of_startsNum (t : Str) (h : startsNum t = true) : signedNum t = [.num t] := by
  cases t with
  | nil => simp [startsNum] at h
  | cons c r =>
    simp only [startsNum] at h
    have hc : c ≠ '-' := by
      rintro rfl
      revert h
      decide
    unfold signedNum
    split
    · rename_i heq
      cases heq
      exact absurd rfl hc
    · simp [wordNum, h]

theorem genConst_leaf (c : Const) (h : constLeafOK c = true) : genConst c = [constLeaf c] := by
  obtain ⟨k, t⟩ := c
  cases k <;> simp only [constLeafOK, Bool.and_eq_true, beq_iff_eq] at h <;> simp only [genConst, constLeaf]
  · exact signedNum_of_startsNum t h
  · rw [h.2]; exact signedNum_of_startsNum t h.1
  · rw [h.2]; exact signedNum_of_startsNum t h.1

/-! ### comma-separated pieces behind `write_possible_comma` (`.drop 1`) -/

/-- `a` is inside `A` without its first token, and `A` is empty only if `a` is -/
def Sub1 (a A : List Tok) : Prop := a <+ A.drop 1 ∧ (A = [] → a = [])

theorem Sub1.append {a A b B : List Tok} (h1 : Sub1 a A) (h2 : Sub1 b B) : Sub1 (a ++ b) (A ++ B) := by
  refine ⟨?_, ?_⟩
  · cases A with
    | nil =>
      rw [h1.2 rfl]
      exact h2.1
    | cons x A' =>
      have ha : a <+ A' := h1.1
      exact ha.append (h2.1.trans (drop_sublist 1 B))
  · intro h
    have := append_eq_nil_iff.mp h
    rw [h1.2 this.1, h2.2 this.2]
    rfl

theorem Sub1.nil (A : List Tok) : Sub1 [] A := ⟨nil_sublist _, fun _ => rfl⟩

theorem Sub1.sub {a A : List Tok} (h : Sub1 a A) : a <+ A.drop 1 := h.1

/-! ### the induction -/

theorem sub_varargToks {a : List Tok} (va : Option PyExpr) (ko : Bool) (h : a <+ genOpt [] va)
    (hn : va = none → a = []) :
    Sub1 a (varargToks (genOpt [tComma, tStar] va) va.isNone ko) := by
  cases va with
  | none => rw [hn rfl]; exact Sub1.nil _
  | some v =>
    simp only [genOpt, List.nil_append] at h
    simp only [varargToks, Option.isNone_some, Bool.not_false, if_true, genOpt]
    exact ⟨h.cons _, by simp⟩

theorem sub1_genOpt {a : List Tok} (t : Tok) (o : Option PyExpr) (h : a <+ genOpt [] o) (hn : o = none → a = []) :
    Sub1 a (genOpt [tComma, t] o) := by
  cases o with
  | none => rw [hn rfl]; exact Sub1.nil _
  | some v =>
    simp only [genOpt, List.nil_append] at h
    simp only [genOpt]
    exact ⟨h.cons _, by simp⟩

theorem and3 {a b c : Bool} (h : (a && b && c) = true) : a = true ∧ b = true ∧ c = true := by
  simp only [Bool.and_eq_true] at h; exact ⟨h.1.1, h.1.2, h.2⟩

theorem leavesO_nil_of_none {o : Option PyExpr} (h : o = none) : leavesO o = [] := by subst h; rfl

theorem gen_subscript_shape (v s : PyExpr) :
    ∃ A, gen (.subscript v s) = gen v ++ tLB :: (A ++ [tRB]) ∧ (leaves s <+ gen s → leaves s <+ A) := by
  cases s with
  | const c =>
    obtain ⟨k, t⟩ := c
    cases k
    case ellipsis => exact ⟨[tEllipsis], by simp [gen], fun _ => by simp [leaves, constLeaf]⟩
    all_goals exact ⟨_, by simp only [gen], id⟩
  | slice l u st => exact ⟨gen (.slice l u st), by simp [gen], id⟩
  | _ => exact ⟨_, by simp only [gen], id⟩

mutual
theorem leaves_sub : ∀ (e : PyExpr), leafOK e = true → leaves e <+ gen e
  | .name id, _ => by simp [leaves, gen]
  | .const c, h => by
      simp only [leafOK] at h
      simp [leaves, gen, genConst_leaf c h]
  | .boolOp op vs, h => by
      simp only [leafOK] at h
      cases vs with
      | nil => simp [leaves]
      | cons v rest =>
        simp only [leafOKL, Bool.and_eq_true] at h
        simp only [leaves, gen]
        apply sub_wrapP
        exact (leaves_sub v h.1).append (leavesL_sub _ _ [] rest h.2 (Sublist.refl _))
  | .binOp l op r, h => by
      simp only [leafOK, Bool.and_eq_true] at h
      simp only [leaves, gen, List.append_assoc]
      exact sub_wrapP _ ((leaves_sub l h.1).append ((Sublist.refl _).append (leaves_sub r h.2)))
  | .unaryOp op e, h => by
      simp only [leafOK] at h
      simp only [leaves, gen]
      exact sub_wrapP _ ((Sublist.refl _).append (leaves_sub e h))
  | .lambda po ar va ko ka body, h => by
      simp only [leafOK, Bool.and_eq_true] at h
      obtain ⟨⟨⟨⟨⟨h1, h2⟩, h3⟩, h4⟩, h5⟩, h6⟩ := h
      simp only [leaves, gen]
      apply sub_wrapP
      apply Sublist.cons_cons
      have hp : Sub1 (leavesL [] po ++ ([] ++ (leavesL [] ar ++ (leavesO va ++ (leavesL [] ko ++ leavesO ka)))))
          (genList [tComma] [] po ++ ((if po.isEmpty then [] else [tComma, tSlash]) ++ (genList [tComma] [] ar ++
            (varargToks (genOpt [tComma, tStar] va) va.isNone ko.isEmpty ++ (genList [tComma] [] ko ++
              genOpt [tComma, tDStar] ka))))) :=
        (leavesL_sub1 po h1).append ((Sub1.nil _).append ((leavesL_sub1 ar h2).append
          ((sub_varargToks va _ (leavesO_sub [] va h3) leavesO_nil_of_none).append
            ((leavesL_sub1 ko h4).append (sub1_genOpt _ ka (leavesO_sub [] ka h5) leavesO_nil_of_none)))))
      have hb := (leaves_sub body h6).cons tColon
      have := hp.sub.append hb
      simpa only [paramsToks, List.append_assoc, List.nil_append] using this
  | .ifExp t b o, h => by
      obtain ⟨h1, h2, h3⟩ := and3 (by simpa only [leafOK] using h)
      simp only [leaves, gen]
      exact sub_wrapP _ ((leaves_sub b h2).append (((leaves_sub t h1).append ((leaves_sub o h3).cons_cons _)).cons_cons _))
  | .dict items, h => by
      simp only [leafOK] at h
      simp only [leaves, gen]
      exact (sub_snoc _ (leavesL_sub [] [] [tComma] items h (Sublist.refl _))).cons _
  | .listComp elt gens, h => by
      simp only [leafOK, Bool.and_eq_true] at h
      simp only [leaves, gen]
      exact (sub_snoc _ ((leaves_sub elt h.1).append (leavesL_sub [] [] [] gens h.2 (Sublist.refl _)))).cons _
  | .genExp elt gens, h => by
      simp only [leafOK, Bool.and_eq_true] at h
      simp only [leaves, gen]
      exact (sub_snoc _ ((leaves_sub elt h.1).append (leavesL_sub [] [] [] gens h.2 (Sublist.refl _)))).cons _
  | .yield_ v, h => by
      simp only [leafOK] at h
      simp only [leaves, gen]
      exact sub_wrapP _ ((leavesO_sub [] v h).cons_cons _)
  | .compare l rest, h => by
      simp only [leafOK, Bool.and_eq_true] at h
      simp only [leaves, gen]
      exact sub_wrapP _ ((leaves_sub l h.1).append (leavesL_sub [] [] [] rest h.2 (Sublist.refl _)))
  | .call f args kws, h => by
      obtain ⟨h1, h2, h3⟩ := and3 (by simpa only [leafOK] using h)
      simp only [leaves, gen]
      exact (leaves_sub f h1).append ((sub_snoc _ ((leavesL_sub1 args h2).append (leavesL_sub1 kws h3)).sub).cons _)
  | .attribute v a, h => by
      simp only [leafOK, Bool.and_eq_true, Bool.not_eq_true'] at h
      have hv := leaves_sub v h.2
      have : gen (.attribute v a) = gen v ++ [tDot, .name a] := by
        cases v with
        | const c =>
          obtain ⟨k, t⟩ := c
          cases k <;> first | (simp [isIntLit] at h; done) | simp only [gen]
        | _ => simp only [gen]
      rw [this]
      simp only [leaves]
      exact hv.append ((Sublist.refl _).cons _)
  | .subscript v s, h => by
      simp only [leafOK, Bool.and_eq_true] at h
      have hv := leaves_sub v h.1
      have hs := leaves_sub s h.2
      simp only [leaves]
      obtain ⟨A, hg, hA⟩ := gen_subscript_shape v s
      rw [hg]
      exact hv.append ((sub_snoc _ (hA hs)).cons _)
  | .slice l u st, h => by
      obtain ⟨h1, h2, h3⟩ := and3 (by simpa only [leafOK] using h)
      simp only [leaves, gen]
      exact (leavesO_sub [] l h1).append (((leavesO_sub [] u h2).append (leavesO_sub [tColon] st h3)).cons _)
  | .starred e, h => by
      simp only [leafOK] at h
      simp only [leaves, gen]
      exact (leaves_sub e h).cons _
  | .list elts, h => by
      simp only [leafOK] at h
      simp only [leaves, gen]
      exact (sub_snoc _ (leavesL_sub [] [] [tComma] elts h (Sublist.refl _))).cons _
  | .tuple elts, h => by
      simp only [leafOK] at h
      simp only [leaves, gen]
      exact (sub_snoc _ (leavesL_sub [] [] [tComma] elts h (Sublist.refl _))).cons _
  | .unsupported _, _ => by simp [leaves]
  | .keyword none v, h => by
      simp only [leafOK] at h
      simp only [leaves, gen]
      exact (leaves_sub v h).cons _
  | .keyword (some n) v, h => by
      simp only [leafOK] at h
      simp only [leaves, gen]
      exact ((leaves_sub v h).cons _).cons_cons _
  | .comp t it ifs a, h => by
      obtain ⟨h1, h2, h3⟩ := and3 (by simpa only [leafOK] using h)
      simp only [leaves, gen]
      exact (Sublist.refl _).append (((leaves_sub t h1).append (((leaves_sub it h2).append
        (leavesL_sub _ _ [] ifs h3 (Sublist.refl _))).cons_cons _)).cons_cons _)
  | .param n ann d, h => by
      simp only [leafOK, Bool.and_eq_true] at h
      simp only [leaves, gen]
      exact ((leavesO_sub [tColon] ann h.1).append (leavesO_sub [tEq] d h.2)).cons_cons _
  | .dictItem k v, h => by
      simp only [leafOK, Bool.and_eq_true] at h
      simp only [leaves, gen]
      exact (leavesO_sub [] k h.1).append ((leaves_sub v h.2).cons _)
  | .cmpRhs op e, h => by
      simp only [leafOK] at h
      simp only [leaves, gen]
      exact (Sublist.refl _).append (leaves_sub e h)
theorem leavesL_sub : ∀ (pre gpre post : List Tok) (es : List PyExpr), leafOKL es = true → pre <+ gpre →
    leavesL pre es <+ genList gpre post es
  | _, _, _, [], _, _ => by simp [leavesL, genList]
  | pre, gpre, post, e :: es, h, hp => by
      simp only [leafOKL, Bool.and_eq_true] at h
      simp only [leavesL, genList, List.append_assoc]
      exact hp.append ((leaves_sub e h.1).append (sub_pre post (leavesL_sub pre gpre post es h.2 hp)))
theorem leavesL_sub1 : ∀ (es : List PyExpr), leafOKL es = true → Sub1 (leavesL [] es) (genList [tComma] [] es)
  | [], _ => Sub1.nil _
  | e :: es, h => by
      simp only [leafOKL, Bool.and_eq_true] at h
      simp only [leavesL, genList, List.append_assoc, List.nil_append]
      exact ⟨(leaves_sub e h.1).append (leavesL_sub [] [tComma] [] es h.2 (nil_sublist _)), by simp⟩
theorem leavesO_sub : ∀ (pre : List Tok) (o : Option PyExpr), leafOKO o = true → leavesO o <+ genOpt pre o
  | _, none, _ => by simp [leavesO, genOpt]
  | pre, some e, h => by
      simp only [leafOKO] at h
      simp only [leavesO, genOpt]
      exact sub_pre pre (leaves_sub e h)
end

/-! ### statements -/

theorem params_sub (po ar : List PyExpr) (va : Option PyExpr) (ko : List PyExpr) (ka : Option PyExpr)
    (h1 : leafOKL po = true) (h2 : leafOKL ar = true) (h3 : leafOKO va = true) (h4 : leafOKL ko = true)
    (h5 : leafOKO ka = true) :
    leavesL [] po ++ (leavesL [] ar ++ (leavesO va ++ (leavesL [] ko ++ leavesO ka))) <+ genParams po ar va ko ka := by
  have hp : Sub1 (leavesL [] po ++ ([] ++ (leavesL [] ar ++ (leavesO va ++ (leavesL [] ko ++ leavesO ka)))))
      (genList [tComma] [] po ++ ((if po.isEmpty then [] else [tComma, tSlash]) ++ (genList [tComma] [] ar ++
        (varargToks (genOpt [tComma, tStar] va) va.isNone ko.isEmpty ++ (genList [tComma] [] ko ++
          genOpt [tComma, tDStar] ka))))) :=
    (leavesL_sub1 po h1).append ((Sub1.nil _).append ((leavesL_sub1 ar h2).append
      ((sub_varargToks va _ (leavesO_sub [] va h3) leavesO_nil_of_none).append
        ((leavesL_sub1 ko h4).append (sub1_genOpt _ ka (leavesO_sub [] ka h5) leavesO_nil_of_none)))))
  simpa only [genParams, paramsToks, List.append_assoc, List.nil_append] using hp.sub

theorem classArgs_sub (bases kws : List PyExpr) (h1 : leafOKL bases = true) (h2 : leafOKL kws = true) :
    leavesL [] bases ++ leavesL [] kws <+ classArgs bases kws := by
  unfold classArgs
  split
  · rename_i he
    simp only [Bool.and_eq_true, List.isEmpty_iff] at he
    rw [he.1, he.2]
    simp [leavesL]
  · exact (sub_snoc _ ((leavesL_sub1 bases h1).append (leavesL_sub1 kws h2)).sub).cons _

theorem lineToks_append (a b : List Line) : lineToks (a ++ b) = lineToks a ++ lineToks b := by
  induction a with
  | nil => rfl
  | cons l r ih => simp [lineToks, ih]

theorem flat_sub_join {α : Type} (sep : List Tok) (f g : α → List Tok) (xs : List α) (h : ∀ x ∈ xs, g x <+ f x) :
    flatToks (xs.map g) <+ joinToks sep (xs.map f) := by
  induction xs with
  | nil => simp [flatToks, joinToks]
  | cons x r ih =>
    have hx := h x (by simp)
    have hr := ih (fun y hy => h y (by simp [hy]))
    cases r with
    | nil => simpa [flatToks, joinToks] using hx
    | cons y r' =>
      simp only [List.map_cons, flatToks, joinToks, List.append_assoc] at hr ⊢
      exact hx.append (sub_pre sep hr)

theorem dottedLeaves_sub (n : Str) : dottedLeaves n <+ dottedToks n := filter_sublist

theorem aliasLeaves_sub (p : Str × Option Str) : aliasLeaves p <+ aliasToks p := by
  obtain ⟨n, a⟩ := p
  cases a with
  | none => exact dottedLeaves_sub n
  | some a => exact (dottedLeaves_sub n).append (Sublist.refl _)

theorem fromAliasLeaves_sub (p : Str × Option Str) : fromAliasLeaves p <+ fromAliasToks p := by
  obtain ⟨n, a⟩ := p
  cases a with
  | none => simp only [fromAliasLeaves, fromAliasToks]; split <;> simp
  | some a => exact Sublist.refl _

theorem withItems_sub (items : List (PyExpr × Option PyExpr)) (h : leafOKItems items = true) :
    ∀ i ∈ items, withItemLeaves i <+ withItemToks i := by
  induction items with
  | nil => intro i hi; simp at hi
  | cons x r ih =>
    obtain ⟨c, v⟩ := x
    simp only [leafOKItems, Bool.and_eq_true] at h
    intro i hi
    simp only [List.mem_cons] at hi
    rcases hi with rfl | hi
    · cases v with
      | none => exact leaves_sub c h.1.1
      | some t => exact (leaves_sub c h.1.1).append ((leaves_sub t h.1.2).cons_cons _)
    · exact ih h.2 i hi

theorem decos_sub (ind : Nat) (decos : List PyExpr) (h : leafOKL decos = true) :
    leavesL [] decos <+ lineToks (decos.map fun d => (⟨ind, tAt :: gen d⟩ : Line)) := by
  induction decos with
  | nil => simp [leavesL, lineToks]
  | cons d r ih =>
    simp only [leafOKL, Bool.and_eq_true] at h
    simp only [leavesL, List.map_cons, lineToks, List.nil_append]
    exact ((leaves_sub d h.1).cons _).append (ih h.2)

mutual
theorem leavesS_sub : ∀ (s : PyStmt) (ind : Nat), leafOKS s = true → leavesS s <+ lineToks (genStmt ind s)
  | .expr e, ind, h => by
      simp only [leafOKS] at h
      simpa [leavesS, genStmt, lineToks] using leaves_sub e h
  | .assign ts v, ind, h => by
      simp only [leafOKS, Bool.and_eq_true] at h
      simp only [leavesS, genStmt, lineToks, List.append_nil]
      exact (leavesL_sub [] [] [tEq] ts h.1 (Sublist.refl _)).append (leaves_sub v h.2)
  | .augAssign t op v, ind, h => by
      simp only [leafOKS, Bool.and_eq_true] at h
      simp only [leavesS, genStmt, lineToks, List.append_nil, List.append_assoc]
      exact (leaves_sub t h.1).append ((Sublist.refl _).append (leaves_sub v h.2))
  | .return_ v, ind, h => by
      simp only [leafOKS] at h
      simp only [leavesS, genStmt, lineToks, List.append_nil]
      exact (leavesO_sub [] v h).cons_cons _
  | .delete ts, ind, h => by
      simp only [leafOKS] at h
      simp only [leavesS, genStmt, lineToks, List.append_nil]
      exact (leavesL_sub1 ts h).sub.cons_cons _
  | .pass_, _, _ => by simp [leavesS, genStmt, lineToks]
  | .break_, _, _ => by simp [leavesS, genStmt, lineToks]
  | .continue_, _, _ => by simp [leavesS, genStmt, lineToks]
  | .assert_ t m, ind, h => by
      simp only [leafOKS, Bool.and_eq_true] at h
      simp only [leavesS, genStmt, lineToks, List.append_nil]
      exact ((leaves_sub t h.1).append (leavesO_sub [tComma] m h.2)).cons_cons _
  | .raise_ e c, ind, h => by
      simp only [leafOKS, Bool.and_eq_true] at h
      simp only [leavesS, genStmt, lineToks, List.append_nil]
      apply Sublist.cons_cons
      cases e with
      | none => exact Sublist.refl _
      | some x =>
        simp only [leafOKO] at h
        simp only [genOpt, List.nil_append]
        refine (leaves_sub x h.1).append ?_
        cases c with
        | none => exact Sublist.refl _
        | some y => exact (leaves_sub y h.2).cons_cons _
  | .global_ ns, _, h => by simp [leafOKS] at h
  | .import_ ns, ind, _ => by
      simp only [leavesS, genStmt, lineToks, List.append_nil]
      exact (flat_sub_join _ _ _ ns (fun p _ => aliasLeaves_sub p)).cons_cons _
  | .importFrom m ns lvl, ind, _ => by
      simp only [leavesS, genStmt, lineToks, List.append_nil, List.append_assoc]
      apply Sublist.cons_cons
      apply sub_pre
      refine Sublist.append ?_ ((flat_sub_join _ _ _ ns (fun p _ => fromAliasLeaves_sub p)).cons_cons _)
      cases m with
      | none => exact Sublist.refl _
      | some mod => exact dottedLeaves_sub mod
  | .if_ t b o, ind, h => by
      obtain ⟨h1, h2, h3⟩ := and3 (by simpa only [leafOKS] using h)
      simp only [leavesS, genStmt, lineToks, lineToks_append]
      exact ((sub_snoc _ (leaves_sub t h1)).append ((leavesB_sub b _ h2).append (leavesElse_sub o ind h3))).cons_cons _
  | .while_ t b o, ind, h => by
      obtain ⟨h1, h2, h3⟩ := and3 (by simpa only [leafOKS] using h)
      simp only [leavesS, genStmt, lineToks, lineToks_append]
      exact ((sub_snoc _ (leaves_sub t h1)).append ((leavesB_sub b _ h2).append (leavesElse_sub o ind h3))).cons_cons _
  | .for_ t it b o, ind, h => by
      simp only [leafOKS, Bool.and_eq_true] at h
      obtain ⟨⟨⟨h1, h2⟩, h3⟩, h4⟩ := h
      simp only [leavesS, genStmt, lineToks, lineToks_append, List.append_assoc, List.cons_append]
      exact ((leaves_sub t h1).append (((leaves_sub it h2).append
        (((leavesB_sub b _ h3).append (leavesElse_sub o ind h4)).cons _)).cons_cons _)).cons_cons _
  | .with_ items b, ind, h => by
      simp only [leafOKS, Bool.and_eq_true] at h
      simp only [leavesS, genStmt, lineToks, List.append_assoc, List.cons_append]
      exact ((flat_sub_join _ _ _ items (withItems_sub items h.1)).append ((leavesB_sub b _ h.2).cons _)).cons_cons _
  | .try_ b hs o f, ind, h => by
      simp only [leafOKS, Bool.and_eq_true] at h
      obtain ⟨⟨⟨h1, h2⟩, h3⟩, h4⟩ := h
      simp only [leavesS, genStmt, lineToks, lineToks_append, List.append_assoc, List.cons_append, List.nil_append]
      refine ((((leavesB_sub b _ h1).append ((leavesB_sub hs _ h2).append ((leavesElse_sub o ind h3).append ?_))).cons _).cons_cons _)
      cases f with
      | nil => simp [lineToks]
      | cons s ss =>
        simp only [lineToks, List.cons_append, List.nil_append]
        exact ((leavesB_sub (s :: ss) _ h4).cons _).cons_cons _
  | .handler t n b, ind, h => by
      simp only [leafOKS, Bool.and_eq_true, Option.isNone_iff_eq_none] at h
      obtain ⟨⟨h1, h2⟩, h3⟩ := h
      subst h2
      simp only [leavesS, genStmt, lineToks, List.append_assoc, List.cons_append, List.nil_append]
      exact ((leavesO_sub [] t h1).append ((leavesB_sub b _ h3).cons _)).cons_cons _
  | .functionDef name po ar va ko ka body decos ret tp, ind, h => by
      simp only [leafOKS, Bool.and_eq_true] at h
      obtain ⟨⟨⟨⟨⟨⟨⟨h1, h2⟩, h3⟩, h4⟩, h5⟩, h6⟩, h7⟩, h8⟩ := h
      simp only [leavesS, genStmt, lineToks, lineToks_append, List.append_assoc, List.cons_append]
      refine (decos_sub ind decos h7).append (Sublist.cons_cons _ (Sublist.cons_cons _ (Sublist.cons _ ?_)))
      have hp := params_sub po ar va ko ka h1 h2 h3 h4 h5
      have := hp.append (((leavesO_sub [tArrow] ret h8).append ((leavesB_sub body (ind + 1) h6).cons tColon)).cons tRP)
      simpa only [List.append_assoc, List.cons_append, List.nil_append] using this
  | .classDef name bases kws body decos tp, ind, h => by
      simp only [leafOKS, Bool.and_eq_true] at h
      obtain ⟨⟨⟨h1, h2⟩, h3⟩, h4⟩ := h
      simp only [leavesS, genStmt, lineToks, lineToks_append, List.append_assoc, List.cons_append]
      refine (decos_sub ind decos h4).append (Sublist.cons_cons _ (Sublist.cons_cons _ ?_))
      have := (classArgs_sub bases kws h1 h2).append ((leavesB_sub body (ind + 1) h3).cons tColon)
      simpa only [List.append_assoc, List.cons_append, List.nil_append] using this
  | .unsupported _, _, _ => by simp [leavesS]
theorem leavesB_sub : ∀ (ss : List PyStmt) (ind : Nat), leafOKB ss = true → leavesB ss <+ lineToks (genBody ind ss)
  | [], _, _ => by simp [leavesB, genBody, lineToks]
  | s :: ss, ind, h => by
      simp only [leafOKB, Bool.and_eq_true] at h
      simp only [leavesB, genBody, lineToks_append]
      exact (leavesS_sub s ind h.1).append (leavesB_sub ss ind h.2)
theorem leavesElse_sub : ∀ (ss : List PyStmt) (ind : Nat), leafOKB ss = true → leavesElse ss <+ lineToks (genElse ind ss)
  | [], _, _ => by simp [leavesElse, genElse, lineToks]
  | s :: ss, ind, h => by
      simp only [leafOKB, Bool.and_eq_true] at h
      simp only [leavesElse, genElse, lineToks, lineToks_append, List.cons_append, List.nil_append]
      exact (((leavesS_sub s _ h.1).append (leavesB_sub ss _ h.2)).cons _).cons_cons _
end

end Genshi.Py

/-
  C04: fuel monotonicity.  `Approx r r'`: `r` is out of fuel or already the final
  answer `r'`.  More fuel never changes an answer that is not `Err.fuel`.
-/
import Genshi.Lemmas.Tmpl
namespace Genshi.Tmpl

def Approx {α : Type} (r r' : Except Err α) : Prop := r = .error .fuel ∨ r = r'

theorem Approx.refl {α : Type} (r : Except Err α) : Approx r r := Or.inr rfl
theorem Approx.fuel {α : Type} (r : Except Err α) : Approx (.error .fuel) r := Or.inl rfl

theorem Approx.trans {α : Type} {a b c : Except Err α} (h1 : Approx a b) (h2 : Approx b c) :
    Approx a c := by
  rcases h1 with rfl | rfl
  · exact Or.inl rfl
  · exact h2

theorem seq_approx {σ : Type} {r r' : Res σ} {k k' : σ → Res σ}
    (h : Approx r r') (hk : ∀ s, Approx (k s) (k' s)) : Approx (seq r k) (seq r' k') := by
  rcases h with rfl | rfl
  · exact Or.inl rfl
  · cases r with
    | error e => exact Or.inr rfl
    | ok p =>
      obtain ⟨o1, s1⟩ := p
      rcases hk s1 with h | h
      · left; simp [seq, h]
      · right; simp [seq, h]

theorem mapSt_approx {σ : Type} {f : σ → σ} {r r' : Res σ} (h : Approx r r') :
    Approx (mapSt f r) (mapSt f r') := by
  rcases h with rfl | rfl
  · exact Or.inl rfl
  · exact Or.inr rfl

theorem wrapOut_approx {σ : Type} {a b : Event} {r r' : Res σ} (h : Approx r r') :
    Approx (wrapOut a b r) (wrapOut a b r') := by
  rcases h with rfl | rfl
  · exact Or.inl rfl
  · exact Or.inr rfl

theorem bind_approx {α β : Type} (x : Except Err α) {f f' : α → Except Err β}
    (h : ∀ a, Approx (f a) (f' a)) : Approx (x >>= f) (x >>= f') := by
  cases x with
  | error e => exact Or.inr rfl
  | ok a => exact h a

theorem ite_approx {α : Type} (c : Prop) [Decidable c] {a a' b b' : Except Err α}
    (ha : Approx a a') (hb : Approx b b') : Approx (if c then a else b) (if c then a' else b') := by
  split
  · exact ha
  · exact hb

theorem run_approx : ∀ (n : Nat) (t : ITask) (st : St), Approx (run n t st) (run (n + 1) t st) := by
  intro n
  induction n with
  | zero => intro t st; exact Or.inl rfl
  | succ n ih =>
    intro t st
    cases t with
    | flat body =>
      cases body with
      | nil => exact Or.inr rfl
      | cons e rest =>
        simp only [run]
        exact seq_approx (ih _ _) (fun s => ih _ _)
    | ev e =>
      cases e with
      | start t a => exact Or.inr rfl
      | end_ t => exact Or.inr rfl
      | text s => exact Or.inr rfl
      | xexpr x =>
        cases x with
        | pure e => exact Or.inr rfl
        | call f args =>
          simp only [run]
          refine bind_approx _ (fun fv => bind_approx _ (fun vs => bind_approx _ (fun m => bind_approx _ (fun sc => ?_))))
          exact mapSt_approx (ih _ _)
      | sub ds body => simp only [run]; exact ih _ _
    | apply ds body =>
      cases ds with
      | nil => simp only [run]; exact ih _ _
      | cons d ds =>
        cases d with
        | def_ name params => exact Or.inr rfl
        | when e =>
          simp only [run]
          split
          · exact Or.inr rfl
          · refine ite_approx _ (Approx.refl _) (ite_approx _ (Approx.refl _) ?_)
            refine bind_approx _ (fun m => ?_)
            exact ite_approx _ (ih _ _) (Approx.refl _)
        | otherwise =>
          simp only [run]
          split
          · exact Or.inr rfl
          · exact ite_approx _ (Approx.refl _) (ih _ _)
        | for_ v e =>
          simp only [run]
          exact bind_approx _ (fun it => bind_approx _ (fun items => ih _ _))
        | if_ e =>
          simp only [run]
          exact bind_approx _ (fun v => ite_approx _ (ih _ _) (Approx.refl _))
        | choose e =>
          simp only [run]
          exact bind_approx _ (fun v => mapSt_approx (ih _ _))
        | with_ bs => simp only [run]; exact mapSt_approx (ih _ _)
        | replace x => exact Or.inr rfl
        | content x => exact Or.inr rfl
        | attrs e =>
          cases ds with
          | nil => simp only [run]; exact bind_approx _ (fun b => ih _ _)
          | cons d2 ds2 =>
            cases d2 <;> cases ds2 <;> simp only [run] <;> try (exact Or.inr rfl)
            exact bind_approx _ (fun b => bind_approx _ (fun b' => ih _ _))
        | strip c =>
          cases ds with
          | nil => simp only [run]; exact bind_approx _ (fun b => ih _ _)
          | cons d2 ds2 => exact Or.inr rfl
    | loop v items ds body =>
      cases items with
      | nil => exact Or.inr rfl
      | cons item items =>
        simp only [run]
        exact seq_approx (ih _ _) (fun s => ih _ _)
    | binds bs ds body =>
      cases bs with
      | nil => simp only [run]; exact ih _ _
      | cons p bs =>
        obtain ⟨x, e⟩ := p
        simp only [run]
        exact bind_approx _ (fun v => ih _ _)

/-- an answer other than "out of fuel" is final -/
theorem run_mono {n m : Nat} {t : ITask} {st : St} {r : IRes}
    (h : run n t st = r) (hr : r ≠ .error .fuel) (hm : n ≤ m) : run m t st = r := by
  induction hm with
  | refl => exact h
  | step _ ih =>
    rcases run_approx _ t st with h1 | h1
    · rw [ih] at h1; exact absurd h1 hr
    · rw [← h1]; exact ih

theorem doc_approx : ∀ (n : Nat) (t : DTask) (loc : Env) (st : DSt),
    Approx (doc n t loc st) (doc (n + 1) t loc st) := by
  intro n
  induction n with
  | zero => intro t loc st; exact Or.inl rfl
  | succ n ih =>
    intro t loc st
    cases t with
    | nodes ns =>
      cases ns with
      | nil => exact Or.inr rfl
      | cons nd rest => simp only [doc]; exact seq_approx (ih _ _ _) (fun s => ih _ _ _)
    | node nd =>
      cases nd with
      | text s => exact Or.inr rfl
      | expr x => simp only [doc]; exact ih _ _ _
      | elem tag attrs dirs kids => simp only [doc]; exact ih _ _ _
      | delem d kids => simp only [doc]; exact ih _ _ _
    | xexpr x =>
      cases x with
      | pure e => exact Or.inr rfl
      | call f args =>
        simp only [doc]
        exact bind_approx _ (fun fv => bind_approx _ (fun vs => bind_approx _ (fun m => bind_approx _ (fun sc => ih _ _ _))))
    | dirs ds t =>
      cases ds with
      | nil =>
        cases t with
        | elem tag attrs kids => simp only [doc]; exact wrapOut_approx (ih _ _ _)
        | frag kids => simp only [doc]; exact ih _ _ _
      | cons d ds =>
        cases d with
        | def_ name params => exact Or.inr rfl
        | when e =>
          simp only [doc]
          split
          · exact Or.inr rfl
          · refine ite_approx _ (Approx.refl _) ?_
            refine bind_approx _ (fun m => ?_)
            exact ite_approx _ (ih _ _ _) (Approx.refl _)
        | otherwise =>
          simp only [doc]
          split
          · exact Or.inr rfl
          · exact ite_approx _ (Approx.refl _) (ih _ _ _)
        | for_ v e =>
          simp only [doc]
          exact bind_approx _ (fun it => bind_approx _ (fun items => ih _ _ _))
        | if_ e =>
          simp only [doc]
          exact bind_approx _ (fun v => ite_approx _ (ih _ _ _) (Approx.refl _))
        | choose e =>
          simp only [doc]
          exact bind_approx _ (fun v => mapSt_approx (ih _ _ _))
        | with_ bs => simp only [doc]; exact ih _ _ _
        | replace x => simp only [doc]; exact ih _ _ _
        | content x => cases t <;> simp only [doc] <;> exact ih _ _ _
        | attrs e =>
          cases t with
          | elem tag attrs kids =>
            simp only [doc]
            exact bind_approx _ (fun v => bind_approx _ (fun ps => ih _ _ _))
          | frag kids => simp only [doc]; exact ih _ _ _
        | strip c =>
          cases t with
          | elem tag attrs kids =>
            simp only [doc]
            exact bind_approx _ (fun b => ih _ _ _)
          | frag kids => simp only [doc]; exact ih _ _ _
    | loop v items ds t =>
      cases items with
      | nil => exact Or.inr rfl
      | cons item items => simp only [doc]; exact seq_approx (ih _ _ _) (fun s => ih _ _ _)
    | binds bs ds t =>
      cases bs with
      | nil => simp only [doc]; exact ih _ _ _
      | cons p bs =>
        obtain ⟨x, e⟩ := p
        simp only [doc]
        exact bind_approx _ (fun v => ih _ _ _)

theorem doc_mono {n m : Nat} {t : DTask} {loc : Env} {st : DSt} {r : DRes}
    (h : doc n t loc st = r) (hr : r ≠ .error .fuel) (hm : n ≤ m) : doc m t loc st = r := by
  induction hm with
  | refl => exact h
  | step _ ih =>
    rcases doc_approx _ t loc st with h1 | h1
    · rw [ih] at h1; exact absurd h1 hr
    · rw [← h1]; exact ih

end Genshi.Tmpl

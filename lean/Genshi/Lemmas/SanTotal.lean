/-
  C06 — totality of the sanitizer model: none of the explicit failure points
  (`pyChr`, `pyIntHex`, `pyIntDec`) is reachable.
-/
import Genshi.Model.San
namespace Genshi.San
open Genshi.Gen

/-! ### `Except` helpers -/

instance {ε α} [DecidableEq ε] [DecidableEq α] : DecidableEq (Except ε α) := fun a b =>
  match a, b with
  | .ok x, .ok y => if h : x = y then isTrue (by rw [h]) else isFalse (by intro e; cases e; exact h rfl)
  | .error x, .error y => if h : x = y then isTrue (by rw [h]) else isFalse (by intro e; cases e; exact h rfl)
  | .ok _, .error _ => isFalse (by intro e; cases e)
  | .error _, .ok _ => isFalse (by intro e; cases e)

@[simp] theorem ok_bind {ε α β} (a : α) (f : α → Except ε β) : (Except.ok a >>= f) = f a := rfl
@[simp] theorem pure_eq_ok {ε α} (a : α) : (pure a : Except ε α) = .ok a := rfl
@[simp] theorem map_ok {ε α β} (f : α → β) (a : α) : (f <$> (Except.ok a : Except ε α)) = .ok (f a) := rfl
@[simp] theorem exists_ok_eq {ε α} (a : α) : ∃ r, (Except.ok a : Except ε α) = .ok r := ⟨a, rfl⟩

/-! ### entity table -/

theorem entities_valid : Entities.name2codepoint.all (fun e => Nat.isValidChar e.2) = true := by
  decide +kernel

theorem lookupEntity_valid {name : Str} {cp : Nat} (h : lookupEntity name = some cp) :
    Nat.isValidChar cp := by
  unfold lookupEntity at h
  split at h
  · rename_i e he
    have hm := List.mem_of_find?_eq_some he
    have := List.all_eq_true.mp entities_valid e hm
    simp at h; subst h; simpa using this
  · simp at h

theorem pyChr_ok {n : Nat} (h : Nat.isValidChar n) : pyChr n = .ok (Char.ofNat n) := by
  unfold pyChr; simp [h]

theorem namedRef_ok (name : Str) : ∃ r, namedRef name = .ok r := by
  unfold namedRef
  split
  · rename_i cp h
    rw [pyChr_ok (lookupEntity_valid h)]
    exact ⟨_, rfl⟩
  · exact ⟨_, rfl⟩

theorem matchRef_ok {rest : Str} {repl : Except Err Str} {rest' : Str}
    (h : matchRef rest = some (repl, rest')) : ∃ r, repl = .ok r := by
  unfold matchRef at h
  split at h
  · simp at h; exact ⟨_, h.1.symm⟩
  · unfold matchNamed at h
    simp only at h
    split at h
    · simp at h
    · split at h
      · simp at h; obtain ⟨h1, _⟩ := h; subst h1; exact namedRef_ok _
      · simp at h

theorem stripEntGo_ok (f : Nat) (s : Str) : ∃ r, stripEntGo f s = .ok r := by
  induction f generalizing s with
  | zero => exact ⟨s, rfl⟩
  | succ f ih =>
    cases s with
    | nil => exact ⟨[], rfl⟩
    | cons c cs =>
      unfold stripEntGo
      by_cases hc : c = '&'
      · simp only [hc, ↓reduceIte]
        cases hm : matchRef cs with
        | none =>
          obtain ⟨t, ht⟩ := ih cs
          simp [ht]
        | some pr =>
          obtain ⟨repl, rest⟩ := pr
          obtain ⟨r, hr⟩ := matchRef_ok hm
          obtain ⟨t, ht⟩ := ih rest
          subst hr
          simp [ht]
      · simp only [hc, ↓reduceIte]
        obtain ⟨t, ht⟩ := ih cs
        simp [ht]

theorem stripentities_ok (s : Str) : ∃ r, stripentities s = .ok r := stripEntGo_ok _ s

/-! ### CSS escapes -/

theorem takeUpTo_all (p : Char → Bool) (n : Nat) (s : Str) : ∀ c ∈ (takeUpTo p n s).1, p c = true := by
  induction n generalizing s with
  | zero => simp [takeUpTo]
  | succ n ih =>
    cases s with
    | nil => simp [takeUpTo]
    | cons c cs =>
      unfold takeUpTo
      by_cases hp : p c = true
      · simp only [hp, ↓reduceIte]
        intro d hd
        simp at hd
        rcases hd with rfl | hd
        · exact hp
        · exact ih cs d hd
      · simp [hp]

theorem escapeHex_hexVal : ∀ n ∈ SanClass.escapeHex, (hexVal? (Char.ofNat n)).isSome = true := by
  decide

theorem inClass_escapeHex_hexVal {c : Char} (h : inClass SanClass.escapeHex c = true) :
    (hexVal? c).isSome = true := by
  unfold inClass at h
  have hm : c.toNat ∈ SanClass.escapeHex := by simpa using h
  have := escapeHex_hexVal _ hm
  simpa [Char.ofNat_toNat] using this

theorem pyIntHex_fold_ok (s : Str) (acc : Nat) (h : ∀ c ∈ s, (hexVal? c).isSome = true) :
    ∃ n, s.foldl (fun acc c => do
      let a ← acc
      match hexVal? c with
      | some v => pure (a * 16 + v)
      | none => .error .valueError) (.ok acc : Except Err Nat) = .ok n := by
  induction s generalizing acc with
  | nil => exact ⟨acc, rfl⟩
  | cons c cs ih =>
    have hc := h c (by simp)
    cases hv : hexVal? c with
    | none => simp [hv] at hc
    | some v =>
      simp only [List.foldl_cons]
      have : (do let a ← (Except.ok acc : Except Err Nat)
                 match hexVal? c with
                 | some v => pure (a * 16 + v)
                 | none => Except.error Err.valueError) = Except.ok (acc * 16 + v) := by
        simp [hv]
      rw [this]
      exact ih _ (fun d hd => h d (by simp [hd]))

theorem pyIntHex_ok {s : Str} (hne : s ≠ []) (h : ∀ c ∈ s, (hexVal? c).isSome = true) :
    ∃ n, pyIntHex s = .ok n := by
  unfold pyIntHex
  have : s.isEmpty = false := by cases s <;> simp_all
  simp only [this, Bool.false_eq_true, ↓reduceIte]
  exact pyIntHex_fold_ok s 0 h

theorem isValidChar_of_guard {n : Nat} (h : ¬ (n > 0x10FFFF ∨ (0xD800 ≤ n ∧ n ≤ 0xDFFF))) :
    Nat.isValidChar n := by
  unfold Nat.isValidChar; omega

theorem cssHexRepl_ok {hs : Str} (hne : hs ≠ []) (h : ∀ c ∈ hs, inClass SanClass.escapeHex c = true) :
    ∃ r, cssHexRepl hs = .ok r := by
  obtain ⟨n, hn⟩ := pyIntHex_ok hne (fun c hc => inClass_escapeHex_hexVal (h c hc))
  unfold cssHexRepl
  rw [hn]
  simp only [ok_bind]
  by_cases h1 : n = 0x5C
  · simp [h1]
  · by_cases h2 : n > 0x10FFFF ∨ (0xD800 ≤ n ∧ n ≤ 0xDFFF)
    · simp only [h1, ↓reduceIte, h2]; exact ⟨_, rfl⟩
    · simp only [h1, ↓reduceIte, h2]
      rw [pyChr_ok (isValidChar_of_guard h2)]
      exact ⟨_, rfl⟩

theorem unescapeGo_ok (f : Nat) (s : Str) : ∃ r, unescapeGo f s = .ok r := by
  induction f generalizing s with
  | zero => exact ⟨s, rfl⟩
  | succ f ih =>
    cases s with
    | nil => exact ⟨[], rfl⟩
    | cons c cs =>
      unfold unescapeGo
      by_cases hc : c = '\\'
      · simp only [hc, ↓reduceIte]
        by_cases he : (takeUpTo (inClass SanClass.escapeHex) 6 cs).1.isEmpty = true
        · simp only [he, Bool.not_true, Bool.false_eq_true, ↓reduceIte]
          cases cs with
          | nil => exact ⟨_, rfl⟩
          | cons d r =>
            simp only
            by_cases hx : inClass SanClass.escapeExcluded d = true
            · simp only [hx, Bool.not_true, Bool.false_eq_true, ↓reduceIte]
              obtain ⟨t, ht⟩ := ih (d :: r)
              simp [ht]
            · simp only [hx, Bool.not_false, ↓reduceIte]
              obtain ⟨t, ht⟩ := ih r
              simp [ht]
        · simp only [he, Bool.not_false, ↓reduceIte]
          have hne : (takeUpTo (inClass SanClass.escapeHex) 6 cs).1 ≠ [] := by
            intro h0; simp [h0] at he
          obtain ⟨r, hr⟩ := cssHexRepl_ok hne (takeUpTo_all _ 6 cs)
          obtain ⟨t, ht⟩ := ih (dropOneSpace (takeUpTo (inClass SanClass.escapeHex) 6 cs).2)
          simp [hr, ht]
      · simp only [hc, ↓reduceIte]
        obtain ⟨t, ht⟩ := ih cs
        simp [ht]

theorem replaceUnicodeEscapes_ok (s : Str) : ∃ r, replaceUnicodeEscapes s = .ok r :=
  unescapeGo_ok _ _

theorem sanitizeCss_ok (cfg : Cfg) (s : Str) : ∃ r, sanitizeCss cfg s = .ok r := by
  obtain ⟨t, ht⟩ := replaceUnicodeEscapes_ok s
  unfold sanitizeCss
  simp [ht]

/-! ### the filter -/

theorem stripRefsFix_ok (f : Nat) : ∀ s, ∃ r, stripRefsFix f s = .ok r := by
  induction f with
  | zero => intro s; exact ⟨s, rfl⟩
  | succ f ih =>
    intro s
    obtain ⟨t, ht⟩ := stripentities_ok s
    unfold stripRefsFix
    simp only [ht, ok_bind]
    by_cases h : t = s
    · simp [h]
    · simp only [h, ↓reduceIte]; exact ih t

theorem stripRefs_ok (s : Str) : ∃ r, stripRefs s = .ok r := stripRefsFix_ok _ s

theorem sanAttr_ok (cfg : Cfg) (a : QName × Str) : ∃ r, sanAttr cfg a = .ok r := by
  obtain ⟨v, hv⟩ := stripRefs_ok a.2
  unfold sanAttr
  simp only [hv, ok_bind]
  by_cases h1 : cfg.safeAttrs.contains a.1.text = true
  · simp only [h1, Bool.not_true, Bool.false_eq_true, ↓reduceIte]
    by_cases h2 : cfg.uriAttrs.contains a.1.text = true
    · simp only [h2, ↓reduceIte]; exact ⟨_, rfl⟩
    · simp only [h2, Bool.false_eq_true, ↓reduceIte]
      by_cases h3 : (a.1.text == styleWord) = true
      · simp only [h3, ↓reduceIte]
        obtain ⟨d, hd⟩ := sanitizeCss_ok cfg v
        obtain ⟨bk, hbk⟩ := stripentities_ok (Genshi.Str.join declSep d)
        simp only [hd, ok_bind]
        by_cases he : d.isEmpty = true
        · simp only [he, ↓reduceIte]; exact ⟨_, rfl⟩
        · simp only [he, Bool.false_eq_true, ↓reduceIte, hbk, ok_bind]; exact ⟨_, rfl⟩
      · simp only [h3, Bool.false_eq_true, ↓reduceIte]; exact ⟨_, rfl⟩
  · simp only [h1, Bool.not_false, ↓reduceIte]; exact ⟨_, rfl⟩

theorem sanAttrs_ok (cfg : Cfg) (as : AttrList) : ∃ r, sanAttrs cfg as = .ok r := by
  induction as with
  | nil => exact ⟨[], rfl⟩
  | cons a as ih =>
    obtain ⟨r, hr⟩ := sanAttr_ok cfg a
    obtain ⟨t, ht⟩ := ih
    unfold sanAttrs
    simp [hr, ht]

theorem step_ok (cfg : Cfg) (st : St) (e : Event) : ∃ r, step cfg st e = .ok r := by
  cases e with
  | start tag attrs =>
    unfold step
    cases hw : st.waiting with
    | some w => exact ⟨_, rfl⟩
    | none =>
      simp only
      by_cases hs : isSafeElem cfg tag attrs = true
      · obtain ⟨as, has⟩ := sanAttrs_ok cfg attrs
        simp [hs, has]
      · simp [hs]
  | end_ tag =>
    unfold step
    cases hw : st.waiting with
    | some w => simp only; split <;> exact ⟨_, rfl⟩
    | none => exact ⟨_, rfl⟩
  | pi t d =>
    by_cases hgt : (List.contains t '>' || List.contains d '>') = true
    · exact ⟨_, by simp only [step, hgt, ↓reduceIte]; rfl⟩
    · exact ⟨_, by simp only [step, hgt, Bool.false_eq_true, ↓reduceIte]; rfl⟩
  | doctype n p s =>
    by_cases hgt : dtHasGt n p s = true
    · exact ⟨_, by simp only [step, hgt, ↓reduceIte]; rfl⟩
    · exact ⟨_, by simp only [step, hgt, Bool.false_eq_true, ↓reduceIte]; rfl⟩
  | _ => exact ⟨_, rfl⟩

theorem sanitizeFrom_ok (cfg : Cfg) (st : St) (s : Stream) : ∃ o, sanitizeFrom cfg st s = .ok o := by
  induction s generalizing st with
  | nil => exact ⟨[], rfl⟩
  | cons e es ih =>
    obtain ⟨r, hr⟩ := step_ok cfg st e
    obtain ⟨o, ho⟩ := ih r.1
    unfold sanitizeFrom
    simp [hr, ho]

end Genshi.San

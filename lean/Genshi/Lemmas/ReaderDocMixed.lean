/-
  Helper lemmas for C08: the html round trip over whole documents whose body MIXES namespaces —
  `bodyH_forestU` (Lemmas/ReaderDoc) transcribed from `forestFu u s` to `forestFm cur`
  (Lemmas/OutputTreeMixed): the hypotheses, the reader state and the pieces of the body's events in
  front of any rest.  Mathlib-free.
-/
import Genshi.Lemmas.ReaderTreeMixed
import Genshi.Lemmas.ReaderDocTop
namespace Genshi.Reader
open Genshi Genshi.Escape Genshi.Output

/-- raw-text children in front of the end tag of their element -/
theorem rawKids_bodyM (cur : Str) (t : Str) (ht : NameOk t) (ks : List Node) (h : rawKidsOk ks = true) :
    (∀ hd rest, HtmlOkAllP false hd rest → HtmlOkAllP true hd (forestFm cur ks ++ .end_ t :: rest)) ∧
    (∀ rest, rawEndP true (forestFm cur ks ++ .end_ t :: rest) = rawEndP false rest) ∧
    (∀ hd rest, evsPiecesH hd (forestFm cur ks ++ .end_ t :: rest) =
       forestPiecesP ks ++ .tok (.end_ t) :: evsPiecesH hd rest) := by
  induction ks with
  | nil =>
    refine ⟨?_, ?_, ?_⟩
    · intro hd rest hr
      simp only [forestFm, List.nil_append, HtmlOkAllP, HtmlOkP, HtmlOk, rawAfter, HtmlOkAllP.isDoctypeEv,
        Bool.or_false]
      exact ⟨ht, hr⟩
    · intro rest; simp [forestFm, rawEndP, rawAfter]
    · intro hd rest; simp [forestFm, forestPiecesP, evsPiecesH, evPieceH, evPieces, hdAfter]
  | cons k ks' ih =>
    cases k with
    | elem t' a kk => simp [rawKidsOk] at h
    | leaf e =>
      cases e with
      | text x f =>
        simp only [rawKidsOk, Bool.and_eq_true, Bool.not_eq_true'] at h
        obtain ⟨⟨hf, hs⟩, hr⟩ := h
        have ih' := ih hr
        subst hf
        refine ⟨?_, ?_, ?_⟩
        · intro hd rest hrest
          simp only [forestFm, treeFm, leafF, Option.toList_some, List.cons_append,
            HtmlOkAllP, HtmlOkP, HtmlOk, rawAfter, HtmlOkAllP.isDoctypeEv, Bool.or_false, true_and]
          exact ⟨fun _ => hs, ih'.1 hd rest hrest⟩
        · intro rest
          have := ih'.2.1 rest
          simpa [forestFm, treeFm, leafF, rawEndP, rawAfter] using this
        · intro hd rest
          have := ih'.2.2 hd rest
          simp [forestFm, treeFm, leafF, forestPiecesP, treePiecesP, evsPiecesH, evPieceH, evPieces, hdAfter, this]
      | _ => simp [rawKidsOk] at h

theorem nameOk_attrsM (cur v : Str) (a : AttrList) (ha : (fAttrs a).all (fun p => nameOkB p.1) = true) :
    ∀ p ∈ declM cur v ++ fAttrs a, NameOk p.1 := by
  intro p hp
  rcases List.mem_append.mp hp with h1 | h1
  · exact declM_names cur v p h1
  · exact nameOk_of_B (List.all_eq_true.mp ha p h1)

mutual
  theorem bodyH_treeM : ∀ (cur : Str) (n : Node), htmlTreeOkP n = true → BodyH (treeFm cur n) (treePiecesP n)
    | cur, .elem t a ks, h => by
        simp only [htmlTreeOkP, Bool.and_eq_true] at h
        obtain ⟨⟨ht, ha⟩, hk⟩ := h
        have hT := nameOk_of_B ht
        have hA := nameOk_attrsM cur t.ns a ha
        cases ks with
        | nil =>
          refine ⟨?_, ?_, ?_⟩
          · intro hd rest hr
            simp only [treeFm, List.isEmpty_nil, ↓reduceIte, List.singleton_append, HtmlOkAllP, HtmlOkP, HtmlOk,
              rawAfter, HtmlOkAllP.isDoctypeEv, Bool.or_false]
            exact ⟨⟨trivial, hT, hA⟩, hr⟩
          · intro rest; simp [treeFm, rawEndP, rawAfter]
          · intro hd rest
            simp only [treeFm, List.isEmpty_nil, ↓reduceIte, List.singleton_append, evsPiecesH, evPieceH, evPieces,
              hdAfter, treePiecesP, htmlAttrToks_declM]
            split <;> simp
        | cons k ks' =>
          by_cases hr : rawTextElems.contains t.loc = true
          · simp only [hr, ↓reduceIte] at hk
            have hkids := rawKids_bodyM t.ns t.loc hT (k :: ks') hk
            refine ⟨?_, ?_, ?_⟩
            · intro hd rest hrest
              simp only [treeFm, List.isEmpty_cons, Bool.false_eq_true, ↓reduceIte, List.cons_append,
                List.append_assoc, HtmlOkAllP, HtmlOkP, HtmlOk, rawAfter, hr,
                HtmlOkAllP.isDoctypeEv, Bool.or_false]
              exact ⟨⟨trivial, hT, hA⟩, hkids.1 hd rest hrest⟩
            · intro rest
              simp [treeFm, rawEndP, rawAfter]
            · intro hd rest
              have := hkids.2.2 hd rest
              simp only [treeFm, List.isEmpty_cons, Bool.false_eq_true, ↓reduceIte, List.cons_append,
                List.append_assoc, evsPiecesH, evPieceH, evPieces, hdAfter, treePiecesP,
                htmlAttrToks_declM]
              first | exact this | simp [this]
          · simp only [hr, Bool.false_eq_true, ↓reduceIte] at hk
            have hr' : rawTextElems.contains t.loc = false := by simpa using hr
            have hkids := bodyH_forestM t.ns (k :: ks') hk
            refine ⟨?_, ?_, ?_⟩
            · intro hd rest hrest
              simp only [treeFm, List.isEmpty_cons, Bool.false_eq_true, ↓reduceIte, List.cons_append,
                List.append_assoc, HtmlOkAllP, HtmlOkP, HtmlOk, rawAfter, hr',
                HtmlOkAllP.isDoctypeEv, Bool.or_false]
              refine ⟨⟨trivial, hT, hA⟩, hkids.ok hd _ ?_⟩
              simp only [HtmlOkAllP, HtmlOkP, HtmlOk, rawAfter, HtmlOkAllP.isDoctypeEv, Bool.or_false]
              exact ⟨hT, hrest⟩
            · intro rest
              have := hkids.raw (.end_ t.loc :: rest)
              simp only [treeFm, List.isEmpty_cons, Bool.false_eq_true, ↓reduceIte, List.cons_append,
                List.append_assoc]
              simp only [rawEndP, List.foldl_cons, rawAfter, hr'] at this ⊢
              exact this
            · intro hd rest
              have := hkids.pieces hd (.end_ t.loc :: rest)
              simp only [treeFm, List.isEmpty_cons, Bool.false_eq_true, ↓reduceIte, List.cons_append,
                List.append_assoc, evsPiecesH, evPieceH, evPieces, hdAfter, treePiecesP,
                htmlAttrToks_declM, List.nil_append] at this ⊢
              rw [this]
    | cur, .leaf e, h => by
        cases e <;> simp [htmlTreeOkP, leafOkH] at h <;>
          refine ⟨?_, ?_, ?_⟩ <;>
          simp [treeFm, leafF, HtmlOkAllP, HtmlOkP, HtmlOk, rawAfter, rawEndP, HtmlOkAllP.isDoctypeEv, evsPiecesH,
            evPieceH, evPieces, hdAfter, treePiecesP, h]
  theorem bodyH_forestM : ∀ (cur : Str) (ns : List Node), htmlForestOkP ns = true →
      BodyH (forestFm cur ns) (forestPiecesP ns)
    | cur, [], _ => by simpa [forestFm, forestPiecesP] using BodyH.nil
    | cur, n :: ns, h => by
        simp only [htmlForestOkP, Bool.and_eq_true] at h
        simp only [forestFm, forestPiecesP]
        exact (bodyH_treeM cur n h.1).append (bodyH_forestM cur ns h.2)
end

theorem forestFm_app (cur : Str) (a b : List Node) : forestFm cur (a ++ b) = forestFm cur a ++ forestFm cur b := by
  induction a with
  | nil => simp [forestFm]
  | cons n ns ih => simp [forestFm, ih]

theorem forestFm_doc (cur : Str) (decl : Option DeclT) (dt : Option DocTypeT) (body : List Node) :
    forestFm cur (docNodes decl dt body) = declF decl ++ (dtF dt ++ forestFm cur body) := by
  simp only [docNodes, forestFm_app]
  cases decl <;> cases dt <;> simp [declN, dtN, declF, dtF, forestFm, treeFm, leafF]

theorem forestMixedOk_app (a b : List Node) : forestMixedOk (a ++ b) = (forestMixedOk a && forestMixedOk b) := by
  induction a with
  | nil => simp [forestMixedOk]
  | cons n ns ih => simp [forestMixedOk, ih, Bool.and_assoc]

theorem mixedOk_doc (decl : Option DeclT) (dt : Option DocTypeT) (body : List Node)
    (h : forestMixedOk body = true) : forestMixedOk (docNodes decl dt body) = true := by
  simp only [docNodes, forestMixedOk_app, h, Bool.and_true]
  cases decl <;> cases dt <;> simp [declN, dtN, forestMixedOk, mixedOk, leafF]

theorem notXdHead_bodyHM (cur : Str) (ns : List Node) (h : htmlForestOkP ns = true) :
    notXdHead (forestFm cur ns) = true := by
  cases ns with
  | nil => rfl
  | cons n rest =>
    simp only [htmlForestOkP, Bool.and_eq_true] at h
    cases n with
    | elem t a ks => cases ks <;> simp [forestFm, treeFm, notXdHead]
    | leaf e => cases e <;> simp [htmlTreeOkP, leafOkH] at h <;> simp [forestFm, treeFm, leafF, notXdHead]

end Genshi.Reader

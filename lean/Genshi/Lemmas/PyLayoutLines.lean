/-
  C13 — the physical lines of the character model (`genStmtC`, blank lines removed) have the
  indentation sequence of the token-level lines (`genStmt`): the two models agree on the line
  structure, for every statement whose expression-statement / assignment lines are not empty.
-/
import Genshi.Lemmas.PyLayout
set_option linter.unusedSimpArgs false
namespace Genshi.Py
open Genshi.Gen

def nbLines (ls : List PLine) : List PLine := ls.filter (fun l => !l.blank)

mutual
/-- no expression statement / assignment writes an empty text (it never does for a tree a parser produces) -/
def textOKS : PyStmt → Bool
  | .expr e => !(genC e).isEmpty
  | .assign ts v => !(genListC [] cs!" = " ts ++ genC v).isEmpty
  | .if_ _ b o => textOKB b && textOKB o
  | .while_ _ b o => textOKB b && textOKB o
  | .for_ _ _ b o => textOKB b && textOKB o
  | .with_ _ b => textOKB b
  | .try_ b hs o f => textOKB b && textOKB hs && textOKB o && textOKB f
  | .handler _ _ b => textOKB b
  | .functionDef _ _ _ _ _ _ body _ _ _ => textOKB body
  | .classDef _ _ _ body _ _ => textOKB body
  | _ => true
def textOKB : List PyStmt → Bool
  | [] => true
  | s :: ss => textOKS s && textOKB ss
end

theorem nbLines_append (a b : List PLine) : nbLines (a ++ b) = nbLines a ++ nbLines b := by simp [nbLines]

theorem nbLines_cons_ne (i : Nat) (t : List Char) (r : List PLine) (h : t ≠ []) :
    nbLines (⟨i, t⟩ :: r) = ⟨i, t⟩ :: nbLines r := by
  cases t with
  | nil => exact absurd rfl h
  | cons c q => simp [nbLines, PLine.blank]

theorem nbLines_blank (i : Nat) (r : List PLine) : nbLines (⟨i, []⟩ :: r) = nbLines r := by simp [nbLines, PLine.blank]

theorem nbLines_nil : nbLines [] = [] := rfl

theorem genElse_cons (ind : Nat) (s : PyStmt) (ss : List PyStmt) :
    genElse ind (s :: ss) = ⟨ind, [kw cs!"else", tColon]⟩ :: genBody (ind + 1) (s :: ss) := by
  simp [genElse, genBody]

theorem nb_decos (ind : Nat) (decos : List PyExpr) :
    (nbLines (decos.map fun d => (⟨ind, '@' :: genC d⟩ : PLine))).map (·.indent)
      = (decos.map fun d => (⟨ind, tAt :: gen d⟩ : Line)).map (·.indent) := by
  induction decos with
  | nil => rfl
  | cons d r ih => rw [List.map_cons, nbLines_cons_ne _ _ _ (by simp)]; simpa using ih

mutual
theorem indents_stmt : ∀ (s : PyStmt) (ind : Nat), textOKS s = true →
    (nbLines (genStmtC ind s)).map (·.indent) = (genStmt ind s).map (·.indent)
  | .expr e, ind, h => by
      simp only [textOKS, Bool.not_eq_true', List.isEmpty_eq_false_iff] at h
      simp only [genStmtC, genStmt]; rw [nbLines_cons_ne _ _ _ h]; rfl
  | .assign ts v, ind, h => by
      simp only [textOKS, Bool.not_eq_true', List.isEmpty_eq_false_iff] at h
      simp only [genStmtC, genStmt]; rw [nbLines_cons_ne _ _ _ h]; rfl
  | .augAssign t op v, ind, _ => by
      simp only [genStmtC, genStmt]
      rw [nbLines_cons_ne _ _ _ (by simp [augOpC])]; rfl
  | .return_ v, ind, _ => by simp only [genStmtC, genStmt]; rw [nbLines_cons_ne _ _ _ (by simp)]; rfl
  | .delete ts, ind, _ => by simp only [genStmtC, genStmt]; rw [nbLines_cons_ne _ _ _ (by simp)]; rfl
  | .pass_, ind, _ => by simp only [genStmtC, genStmt]; rw [nbLines_cons_ne _ _ _ (by simp)]; rfl
  | .break_, ind, _ => by simp only [genStmtC, genStmt]; rw [nbLines_cons_ne _ _ _ (by simp)]; rfl
  | .continue_, ind, _ => by simp only [genStmtC, genStmt]; rw [nbLines_cons_ne _ _ _ (by simp)]; rfl
  | .assert_ t m, ind, _ => by simp only [genStmtC, genStmt]; rw [nbLines_cons_ne _ _ _ (by simp)]; rfl
  | .raise_ e c, ind, _ => by
      cases e <;> (simp only [genStmtC, genStmt]; rw [nbLines_cons_ne _ _ _ (by simp)]; rfl)
  | .global_ ns, ind, _ => by simp only [genStmtC, genStmt]; rw [nbLines_cons_ne _ _ _ (by simp)]; rfl
  | .import_ ns, ind, _ => by simp only [genStmtC, genStmt]; rw [nbLines_cons_ne _ _ _ (by simp)]; rfl
  | .importFrom m ns lvl, ind, _ => by simp only [genStmtC, genStmt]; rw [nbLines_cons_ne _ _ _ (by simp)]; rfl
  | .if_ t b o, ind, h => by
      simp only [textOKS, Bool.and_eq_true] at h
      simp only [genStmtC, genStmt]
      rw [nbLines_cons_ne _ _ _ (by simp), nbLines_append]
      simp [indents_body b (ind + 1) h.1, indents_else o ind h.2]
  | .while_ t b o, ind, h => by
      simp only [textOKS, Bool.and_eq_true] at h
      simp only [genStmtC, genStmt]
      rw [nbLines_cons_ne _ _ _ (by simp), nbLines_append]
      simp [indents_body b (ind + 1) h.1, indents_else o ind h.2]
  | .for_ t it b o, ind, h => by
      simp only [textOKS, Bool.and_eq_true] at h
      simp only [genStmtC, genStmt]
      rw [nbLines_cons_ne _ _ _ (by simp), nbLines_append]
      simp [indents_body b (ind + 1) h.1, indents_else o ind h.2]
  | .with_ items b, ind, h => by
      simp only [textOKS] at h
      simp only [genStmtC, genStmt]
      rw [nbLines_cons_ne _ _ _ (by simp)]
      simp [indents_body b (ind + 1) h]
  | .try_ b hs o f, ind, h => by
      simp only [textOKS, Bool.and_eq_true] at h
      obtain ⟨⟨⟨h1, h2⟩, h3⟩, h4⟩ := h
      have e1 := indents_body b (ind + 1) h1
      have e2 := indents_body hs ind h2
      cases o with
      | nil =>
        cases f with
        | nil =>
          simp only [genStmtC, genStmt, genElse]
          rw [nbLines_cons_ne _ _ _ (by simp), nbLines_append, nbLines_append, nbLines_append, nbLines_blank]
          simp only [List.map_append, List.map_cons, List.map_nil, e1, e2, nbLines_nil, List.append_nil]
        | cons f1 fr =>
          have e4 := indents_body (f1 :: fr) (ind + 1) h4
          simp only [genStmtC, genStmt, genElse]
          rw [nbLines_cons_ne _ _ _ (by simp), nbLines_append, nbLines_append, nbLines_append, nbLines_blank,
            nbLines_cons_ne _ _ _ (by simp)]
          simp only [List.map_append, List.map_cons, List.map_nil, e1, e2, e4, nbLines_nil, List.append_nil]
      | cons o1 orr =>
        have e3 := indents_body (o1 :: orr) (ind + 1) h3
        cases f with
        | nil =>
          simp only [genStmtC, genStmt]
          rw [genElse_cons, nbLines_cons_ne _ _ _ (by simp), nbLines_append, nbLines_append, nbLines_append,
            nbLines_cons_ne _ _ _ (by simp)]
          simp only [List.map_append, List.map_cons, List.map_nil, e1, e2, e3, nbLines_nil, List.append_nil]
        | cons f1 fr =>
          have e4 := indents_body (f1 :: fr) (ind + 1) h4
          simp only [genStmtC, genStmt]
          rw [genElse_cons, nbLines_cons_ne _ _ _ (by simp), nbLines_append, nbLines_append, nbLines_append,
            nbLines_cons_ne _ _ _ (by simp), nbLines_cons_ne _ _ _ (by simp)]
          simp only [List.map_append, List.map_cons, List.map_nil, e1, e2, e3, e4, List.append_nil]
  | .handler t n b, ind, h => by
      simp only [textOKS] at h
      simp only [genStmtC, genStmt]
      rw [nbLines_cons_ne _ _ _ (by simp)]
      simp [indents_body b (ind + 1) h]
  | .functionDef name po ar va ko ka body decos ret tp, ind, h => by
      simp only [textOKS] at h
      simp only [genStmtC, genStmt]
      rw [nbLines_append, nbLines_cons_ne _ _ _ (by simp)]
      simp only [List.map_append, List.map_cons, nb_decos, indents_body body (ind + 1) h]
  | .classDef name bases kws body decos tp, ind, h => by
      simp only [textOKS] at h
      simp only [genStmtC, genStmt]
      rw [nbLines_append, nbLines_cons_ne _ _ _ (by simp)]
      simp only [List.map_append, List.map_cons, nb_decos, indents_body body (ind + 1) h]
  | .unsupported _, ind, _ => rfl
theorem indents_body : ∀ (ss : List PyStmt) (ind : Nat), textOKB ss = true →
    (nbLines (genBodyC ind ss)).map (·.indent) = (genBody ind ss).map (·.indent)
  | [], _, _ => rfl
  | s :: ss, ind, h => by
      simp only [textOKB, Bool.and_eq_true] at h
      simp only [genBodyC, genBody, nbLines_append, List.map_append, indents_stmt s ind h.1, indents_body ss ind h.2]
theorem indents_else : ∀ (ss : List PyStmt) (ind : Nat), textOKB ss = true →
    (nbLines (genElseC ind ss)).map (·.indent) = (genElse ind ss).map (·.indent)
  | [], _, _ => rfl
  | s :: ss, ind, h => by
      simp only [textOKB, Bool.and_eq_true] at h
      simp only [genElseC, genElse]
      rw [nbLines_cons_ne _ _ _ (by simp), nbLines_append]
      simp [indents_stmt s (ind + 1) h.1, indents_body ss (ind + 1) h.2]
end

end Genshi.Py

/-
  The firing equation of `_match` (pipeline from idx+1), first-match-wins, select('.') and
  identity bodies.
-/
import Genshi.Lemmas.MatchRun
import Genshi.Lemmas.MatchPoint
namespace Genshi.Match
open Genshi
variable {σ : Type}

theorem isStart_false_of_isEnd {e : Event} (h : isEnd e = true) : isStart e = false := by
  cases e <;> simp_all [isStart, isEnd]

/-- **The firing equation.**  When template `idx` is the first of the window whose test accepts the
    START `e`, the output for the element is: the content (START, the inner events matched against the
    window `[start, pre_end)`, END) handed to the body, and the body's output matched *from index
    idx+1* (to the end of the same window); then the stream continues. -/
theorem run_fire {f start : Nat} {end_ : Option Nat} {e tail : Event} {inner rest' : List (Item σ)}
    {mts mts1 : List (MT σ)} {idx : Nat} {t : MT σ}
    (hS : isStart e = true) (hsc : scan e start end_ 0 mts = (mts1, some idx)) (ht : mts1[idx]? = some t)
    (hcl : Closed (evs inner)) (htail : isEnd tail = true) :
    run (f + 1) start end_ (.ev e :: (inner ++ .ev tail :: rest')) mts =
      (run f start (some (preEnd t idx)) inner (fired t idx mts1)).bind fun q3 =>
      (run f (idx + 1) end_ (evItems (instantiate t.body (e :: q3.2 ++ [tail]))) q3.1).bind fun q4 =>
      (run f start end_ rest' (updRange tail start (idx + 1) 0 q4.1)).map fun p => (p.1, q4.2 ++ p.2) := by
  have hstrip := strip_of_closed inner 0 tail rest' hcl (isStart_false_of_isEnd htail) htail
  simp only [run, hS, ↓reduceIte, hsc, ht, hstrip]
  cases h3 : run f start (some (preEnd t idx)) inner (fired t idx mts1) with
  | none => simp
  | some q3 =>
    obtain ⟨mts3, innerOut⟩ := q3
    simp only [Option.bind_some]
    cases h4 : run f (idx + 1) end_ (evItems (instantiate t.body (e :: innerOut ++ [tail]))) mts3 with
    | none => simp
    | some q4 =>
      obtain ⟨mts4, out⟩ := q4
      simp only [Option.bind_some]

/-- **Declaration order**: the template that fires is the first one of the window, in list
    (= declaration) order, whose test accepts the event; the earlier ones were asked and declined. -/
theorem scan_first (e : Event) (s : Nat) (en : Option Nat) (mts : List (MT σ)) (idx : Nat)
    (h : (scan e s en 0 mts).2 = some idx) :
    inWindow s en idx = true ∧ (∃ t, mts[idx]? = some t ∧ (t.test e false).2 = true) ∧
    ∀ i x, i < idx → mts[i]? = some x → inWindow s en i = true → (x.test e false).2 = false := by
  obtain ⟨j, t, hj, ht, hw, hf, _, _, _, h8⟩ := scan_some_get e s en 0 mts idx h
  simp only [Nat.zero_add] at hj; subst hj
  exact ⟨hw, ⟨t, ht, hf⟩, fun i x hi hx hwi => h8 i x hi hx (by simpa using hwi)⟩

/-! ### select('.') reproduces the element -/

theorem selM_copy (s : Sel) : ∀ (mid : List Event) (j j' d c : Nat) (rest : List Event),
    lvl j mid = some j' →
    selM s (d + j) (c + 1 + j) (mid ++ rest) = mid ++ selM s (d + j') (c + 1 + j') rest := by
  intro mid
  induction mid with
  | nil => intro j j' d c rest h; simp [lvl] at h; subst h; rfl
  | cons e es ih =>
    intro j j' d c rest h
    simp only [lvl] at h
    by_cases hs : isStart e = true
    · simp only [hs, ↓reduceIte] at h
      have := ih (j + 1) j' d c rest h
      rw [show c + 1 + j = (c + j) + 1 by omega]
      simp only [List.cons_append, selM, hs, ↓reduceIte]
      rw [show d + j + 1 = d + (j + 1) by omega, show c + j + 2 = c + 1 + (j + 1) by omega, this]
    · simp only [hs, Bool.false_eq_true, ↓reduceIte] at h
      by_cases he : isEnd e = true
      · simp only [he, ↓reduceIte] at h
        cases j with
        | zero => simp at h
        | succ j =>
          simp only at h
          have := ih j j' d c rest h
          rw [show c + 1 + (j + 1) = (c + 1 + j) + 1 by omega]
          simp only [List.cons_append, selM, hs, he, Bool.false_eq_true, ↓reduceIte]
          rw [show d + (j + 1) - 1 = d + j by omega, this]
      · simp only [he, Bool.false_eq_true, ↓reduceIte] at h
        have := ih j j' d c rest h
        rw [show c + 1 + j = (c + j) + 1 by omega]
        simp only [List.cons_append, selM, hs, he, Bool.false_eq_true, ↓reduceIte]
        rw [show c + j + 1 = c + 1 + j by omega, this]

/-- `select('.')` on the buffered content of a matched element yields the content itself -/
theorem select_self {e tail : Event} {mid : List Event} (hS : isStart e = true) (hE : isEnd tail = true)
    (hcl : Closed mid) : select .self (e :: mid ++ [tail]) = e :: mid ++ [tail] := by
  have hn : Sel.self.nodeTest e = true := by cases e <;> simp_all [isStart, Sel.nodeTest]
  simp only [select, selM, hS, ↓reduceIte, Sel.depth, hn, and_self, List.cons_append]
  have := selM_copy .self mid 0 0 1 0 [tail] hcl
  simp only [Nat.add_zero] at this
  rw [this]
  simp [selM, isStart_false_of_isEnd hE, hE]

/-- a template whose body is `${select('.')}` -/
def IdentityBody (t : MT σ) : Prop := t.body = [.sel .self]

theorem static_idOrNever : Static (fun t : MT σ => NeverFires t ∨ IdentityBody t) := by
  intro t t' hs h
  rcases h with h | h
  · exact Or.inl (static_neverFires t t' hs h)
  · exact Or.inr (by unfold IdentityBody at *; rw [hs.2.1]; exact h)

/-- **Identity bodies are identities** (no other template firing): the filter returns the
    stream unchanged whatever the paths, hints and matcher states of the identity templates. -/
theorem run_identity : ∀ (f start : Nat) (end_ : Option Nat) (items : List (Item σ)) (mts : List (MT σ))
    (r : List (MT σ) × List Event),
    (∀ t ∈ mts, NeverFires t ∨ IdentityBody t) → (∀ t, Item.reg t ∈ items → NeverFires t ∨ IdentityBody t) →
    run f start end_ items mts = some r → r.2 = evs items := by
  intro f
  induction f with
  | zero => intro start end_ items mts r _ _ h; simp [run] at h
  | succ f ih =>
    intro start end_ items mts r hm hi h
    cases items with
    | nil => simp [run] at h; subst h; rfl
    | cons it rest =>
      cases it with
      | reg t =>
        simp only [run] at h
        have := ih start end_ rest (mts ++ [t]) r
          (by intro x hx; simp at hx; rcases hx with hx | rfl
              · exact hm x hx
              · exact hi x (by simp))
          (by intro x hx; exact hi x (by simp [hx])) h
        simpa using this
      | ev e =>
        have hi' : ∀ t, Item.reg t ∈ rest → NeverFires t ∨ IdentityBody t := fun x hx => hi x (by simp [hx])
        by_cases hS : isStart e = true
        · rcases run_start_cases hS h with ⟨mts1, p, hsc, hp, rfl⟩ |
            ⟨mts1, idx, t, inner, tail, rest', mts3, innerOut, mts4, out, p, hsc, ht, hst, h3, h4, h5, rfl⟩
          · have h1 : ∀ t ∈ mts1, NeverFires t ∨ IdentityBody t := by
              have := scan_forall static_idOrNever e start end_ 0 mts hm; rw [hsc] at this; exact this
            simp [ih start end_ rest mts1 p h1 hi' hp]
          · have h1 : ∀ t ∈ mts1, NeverFires t ∨ IdentityBody t := by
              have := scan_forall static_idOrNever e start end_ 0 mts hm; rw [hsc] at this; exact this
            obtain ⟨hrest, htail, hcl⟩ := strip_spec rest 0 inner tail rest' hst
            have hin : ∀ t, Item.reg t ∈ inner → NeverFires t ∨ IdentityBody t :=
              fun x hx => hi' x (by rw [hrest]; simp [hx])
            have hre : ∀ t, Item.reg t ∈ rest' → NeverFires t ∨ IdentityBody t :=
              fun x hx => hi' x (by rw [hrest]; simp [hx])
            have h2 : ∀ x ∈ fired t idx mts1, NeverFires x ∨ IdentityBody x := by
              unfold fired; split
              · exact retireAt_forall static_idOrNever idx mts1 h1
              · exact h1
            have h3' := run_forall static_idOrNever _ _ _ _ _ _ h2 hin h3
            have hnb : ∀ x, Item.reg x ∈ (evItems (instantiate t.body (e :: innerOut ++ [tail])) : List (Item σ)) →
                NeverFires x ∨ IdentityBody x := by intro x hx; simp [evItems] at hx
            have h4' := run_forall static_idOrNever _ _ _ _ _ _ h3' hnb h4
            have h5' := updRange_forall static_idOrNever tail start (idx + 1) 0 mts4 h4'
            -- the template that fired is not a never-firing one
            have hfire : ¬ NeverFires t := by
              intro hnf
              obtain ⟨_, ⟨t0, ht0, hf⟩, _⟩ := scan_first e start end_ mts idx (by rw [hsc])
              obtain ⟨j, t0', hj, ht0', _, hf', _, heq, _, _⟩ := scan_some_get e start end_ 0 mts idx (by rw [hsc])
              simp only [Nat.zero_add] at hj; subst hj
              rw [hsc] at heq; simp only at heq
              rw [ht] at heq
              simp only [Option.some.injEq] at heq
              have hstep : t.step = t0'.step := by rw [heq]; exact (test_shape t0' e false).1
              have : NeverFires t0' := by intro st e' u; rw [← hstep]; exact hnf st e' u
              have := (test_neverFires this e false).1
              rw [this] at hf'; cases hf'
            have hid : IdentityBody t := by
              rcases h1 t (getElem?_mem_of ht) with hh | hh
              · exact absurd hh hfire
              · exact hh
            have e3 : innerOut = evs inner := ih _ _ _ _ _ h2 hin h3
            subst e3
            have hbody : instantiate t.body (e :: evs inner ++ [tail]) = e :: evs inner ++ [tail] := by
              rw [hid]
              simp only [instantiate, List.flatMap_cons, List.flatMap_nil, List.append_nil]
              exact select_self hS htail hcl
            rw [hbody] at h4
            have e4 : out = e :: evs inner ++ [tail] := by
              have := ih _ _ _ _ _ h3' (by intro x hx; simp [evItems] at hx) h4
              simpa using this
            have e5 : p.2 = evs rest' := ih _ _ _ _ _ h5' hre h5
            simp only [e4, e5, hrest, evs_ev, evs_append]
            simp
        · simp only [run, hS, Bool.false_eq_true, ↓reduceIte] at h
          by_cases hE : isEnd e = true
          · simp only [hE, ↓reduceIte] at h
            obtain ⟨q, hr, rfl⟩ := emit_some h
            simp [ih start end_ rest _ q (scanEnd_forall static_idOrNever _ start end_ 0 mts hm) hi' hr]
          · simp only [hE, Bool.false_eq_true, ↓reduceIte] at h
            obtain ⟨q, hr, rfl⟩ := emit_some h
            simp [ih start end_ rest mts q hm hi' hr]

end Genshi.Match

/-
  Helper lemmas for C09: the serializer main loop against the context-free
  `emit`, with and without the cache.
-/
import Genshi.Model.Output
import Genshi.Lemmas.Escape
namespace Genshi.Output
open Genshi Genshi.Escape

/-- the markup context a loop state stands for -/
def ctxOf (st : LoopSt) : Ctx := ⟨st.raw, st.haveDecl, st.haveDoctype⟩

/-- kinds of event the loops ever store -/
def cacheable : FEv → Bool
  | .start _ _ => true
  | .empty _ _ => true
  | .end_ _ => true
  | .text _ false => true
  | .comment _ => true
  | .pi _ _ => true
  | _ => false

/-- contexts in which the loop looks the event up in the cache -/
def lookedUp (c : Ctx) : FEv → Bool
  | .text _ true => false
  | .text _ false => !c.raw
  | _ => true

/-- THE cache invariant: every entry is the context-free `emit` of its key in every
    context in which that key can be looked up -/
def CacheOk (m : Method) (o : Opts) (cache : List (FEv × Str)) : Prop :=
  ∀ ev out, lookup cache ev = some out →
    cacheable ev = true ∧ ∀ c : Ctx, lookedUp c ev = true → emit m o c ev = [out]

theorem cacheOk_nil (m : Method) (o : Opts) : CacheOk m o [] := by
  intro ev out h; simp [lookup] at h

theorem lookup_cons (k : FEv) (v : Str) (c : List (FEv × Str)) (ev : FEv) :
    lookup ((k, v) :: c) ev = if k = ev then some v else lookup c ev := rfl

theorem cacheOk_cons {m : Method} {o : Opts} {cache : List (FEv × Str)} (h : CacheOk m o cache)
    (k : FEv) (v : Str) (hk : cacheable k = true)
    (hv : ∀ c : Ctx, lookedUp c k = true → emit m o c k = [v]) :
    CacheOk m o ((k, v) :: cache) := by
  intro ev out hl
  rw [lookup_cons] at hl
  by_cases hkev : k = ev
  · subst hkev; simp at hl; subst hl; exact ⟨hk, hv⟩
  · simp [hkev] at hl; exact h ev out hl

/-! ### one step without cache -/

theorem step_nocache (m : Method) (o : Opts) (st : LoopSt) (ev : FEv) :
    (step m o false st ev).2 = emit m o (ctxOf st) ev ∧
    ctxOf (step m o false st ev).1 = ctxAfter m o (ctxOf st) ev ∧
    (step m o false st ev).1.cache = st.cache := by
  cases ev with
  | start t a =>
    cases m <;> simp [step, miss, store, emit, ctxAfter, ctxOf] <;> split <;> simp_all
  | empty t a => cases m <;> simp [step, miss, store, emit, ctxAfter, ctxOf]
  | end_ t => cases m <;> simp [step, miss, store, emit, ctxAfter, ctxOf]
  | text s f =>
    cases f
    · by_cases hr : st.raw = true
      · simp [step, hr, emit, ctxAfter, ctxOf]
      · simp [step, hr, miss, store, emit, ctxAfter, ctxOf, escapePy_eq_spec]
    · simp [step, emit, ctxAfter, ctxOf]
  | comment s => cases m <;> simp [step, miss, store, emit, ctxAfter, ctxOf]
  | pi t d => cases m <;> simp [step, miss, store, emit, ctxAfter, ctxOf]
  | doctype n p s =>
    by_cases hd : st.haveDoctype = true <;> cases m <;>
      simp [step, miss, emit, ctxAfter, ctxOf, hd]
  | xmlDecl v e s =>
    cases m
    · by_cases hd : st.haveDecl = true <;> simp [step, miss, emit, ctxAfter, ctxOf, hd]
    · by_cases hd : st.haveDecl = true <;> cases hx : o.dropXmlDecl <;>
        simp [step, miss, emit, ctxAfter, ctxOf, hd, hx]
    · simp [step, miss, emit, ctxAfter, ctxOf]
  | startNs p u => cases m <;> simp [step, miss, emit, ctxAfter, ctxOf]
  | endNs p => cases m <;> simp [step, miss, emit, ctxAfter, ctxOf]
  | startCdata => cases m <;> simp [step, miss, emit, ctxAfter, ctxOf]
  | endCdata => cases m <;> simp [step, miss, emit, ctxAfter, ctxOf]

/-! ### one step with cache, under the invariant -/

theorem ctxOf_hitUpdate_raw (m : Method) (st : LoopSt) (ev : FEv) :
    (hitUpdate m st ev).cache = st.cache ∧ (hitUpdate m st ev).haveDecl = st.haveDecl ∧
    (hitUpdate m st ev).haveDoctype = st.haveDoctype := by
  cases m <;> simp [hitUpdate]
  split
  · simp
  · split <;> simp

theorem step_cache (m : Method) (o : Opts) (st : LoopSt) (ev : FEv) (h : CacheOk m o st.cache) :
    (step m o true st ev).2 = emit m o (ctxOf st) ev ∧
    ctxOf (step m o true st ev).1 = ctxAfter m o (ctxOf st) ev ∧
    CacheOk m o (step m o true st ev).1.cache := by
  cases ev with
  | start t a =>
    cases hl : lookup st.cache (.start t a) with
    | some out =>
      have hc := (h _ _ hl).2 (ctxOf st) rfl
      refine ⟨by simp [step, hl, hc], ?_, ?_⟩
      · cases m <;> simp [step, hl, hitUpdate, isNoescapeStart, ctxAfter, ctxOf]
        split <;> simp_all
      · simp only [step, hl, if_true]; rw [(ctxOf_hitUpdate_raw m st _).1]; exact h
    | none =>
      refine ⟨by simp [step, hl, miss, emit], ?_, ?_⟩
      · cases m <;> simp [step, hl, miss, store, ctxAfter, ctxOf] <;> split <;> simp_all
      · have : (step m o true st (.start t a)).1.cache = (.start t a, startOut m false t a) :: st.cache := by
          cases m <;> simp [step, hl, miss, store] <;> split <;> simp
        rw [this]
        exact cacheOk_cons h _ _ rfl (by intro c _; simp [emit])
  | empty t a =>
    cases hl : lookup st.cache (.empty t a) with
    | some out =>
      have hc := (h _ _ hl).2 (ctxOf st) rfl
      refine ⟨by simp [step, hl, hc], ?_, ?_⟩
      · cases m <;> simp [step, hl, hitUpdate, isNoescapeStart, ctxAfter, ctxOf]
      · simp only [step, hl, if_true]; rw [(ctxOf_hitUpdate_raw m st _).1]; exact h
    | none =>
      refine ⟨by simp [step, hl, miss, emit], by simp [step, hl, miss, store, ctxAfter, ctxOf], ?_⟩
      simp only [step, hl, miss, store]
      exact cacheOk_cons h _ _ rfl (by intro c _; simp [emit])
  | end_ t =>
    cases hl : lookup st.cache (.end_ t) with
    | some out =>
      have hc := (h _ _ hl).2 (ctxOf st) rfl
      refine ⟨by simp [step, hl, hc], ?_, ?_⟩
      · cases m <;> simp [step, hl, hitUpdate, isNoescapeStart, ctxAfter, ctxOf]
      · simp only [step, hl, if_true]; rw [(ctxOf_hitUpdate_raw m st _).1]; exact h
    | none =>
      refine ⟨by simp [step, hl, miss, emit], ?_, ?_⟩
      · cases m <;> simp [step, hl, miss, store, ctxAfter, ctxOf]
      · have : (step m o true st (.end_ t)).1.cache = (.end_ t, endTag t) :: st.cache := by
          cases m <;> simp [step, hl, miss, store]
        rw [this]
        exact cacheOk_cons h _ _ rfl (by intro c _; simp [emit])
  | text s f =>
    cases f
    · by_cases hr : st.raw = true
      · exact ⟨by simp [step, hr, emit, ctxOf], by simp [step, hr, ctxAfter], by simpa [step, hr] using h⟩
      · have hr' : st.raw = false := by simpa using hr
        cases hl : lookup st.cache (.text s false) with
        | some out =>
          have hc := (h _ _ hl).2 (ctxOf st) (by simp [lookedUp, ctxOf, hr'])
          refine ⟨by simp [step, hr', hl, hc], ?_, ?_⟩
          · cases m <;> simp [step, hr', hl, hitUpdate, isNoescapeStart, ctxAfter, ctxOf]
          · simp [step, hr', hl]; rw [(ctxOf_hitUpdate_raw m st _).1]; exact h
        | none =>
          refine ⟨by simp [step, hr', hl, miss, emit, ctxOf, escapePy_eq_spec],
                  by simp [step, hr', hl, miss, store, ctxAfter, ctxOf], ?_⟩
          simp only [step, hr', hl, miss, store]
          refine cacheOk_cons h _ _ rfl ?_
          intro c hc
          have : c.raw = false := by simpa [lookedUp] using hc
          simp [emit, this, escapePy_eq_spec]
    · exact ⟨by simp [step, emit], by simp [step, ctxAfter], by simpa [step] using h⟩
  | comment s =>
    cases hl : lookup st.cache (.comment s) with
    | some out =>
      have hc := (h _ _ hl).2 (ctxOf st) rfl
      refine ⟨by simp [step, hl, hc], ?_, ?_⟩
      · cases m <;> simp [step, hl, hitUpdate, isNoescapeStart, ctxAfter, ctxOf]
      · simp only [step, hl, if_true]; rw [(ctxOf_hitUpdate_raw m st _).1]; exact h
    | none =>
      refine ⟨by simp [step, hl, miss, emit], by simp [step, hl, miss, store, ctxAfter, ctxOf], ?_⟩
      simp only [step, hl, miss, store]
      exact cacheOk_cons h _ _ rfl (by intro c _; simp [emit])
  | pi t d =>
    cases hl : lookup st.cache (.pi t d) with
    | some out =>
      have hc := (h _ _ hl).2 (ctxOf st) rfl
      refine ⟨by simp [step, hl, hc], ?_, ?_⟩
      · cases m <;> simp [step, hl, hitUpdate, isNoescapeStart, ctxAfter, ctxOf]
      · simp only [step, hl, if_true]; rw [(ctxOf_hitUpdate_raw m st _).1]; exact h
    | none =>
      refine ⟨by simp [step, hl, miss, emit], by simp [step, hl, miss, store, ctxAfter, ctxOf], ?_⟩
      simp only [step, hl, miss, store]
      exact cacheOk_cons h _ _ rfl (by intro c _; simp [emit])
  | doctype n p s =>
    have hl : lookup st.cache (.doctype n p s) = none := by
      cases hl : lookup st.cache (.doctype n p s) with
      | none => rfl
      | some out => have := (h _ _ hl).1; simp [cacheable] at this
    by_cases hd : st.haveDoctype = true <;> cases m <;>
      simp [step, hl, miss, emit, ctxAfter, ctxOf, hd] <;> exact h
  | xmlDecl v e s =>
    have hl : lookup st.cache (.xmlDecl v e s) = none := by
      cases hl : lookup st.cache (.xmlDecl v e s) with
      | none => rfl
      | some out => have := (h _ _ hl).1; simp [cacheable] at this
    cases m
    · by_cases hd : st.haveDecl = true <;> simp [step, hl, miss, emit, ctxAfter, ctxOf, hd] <;> exact h
    · by_cases hd : st.haveDecl = true <;> cases hx : o.dropXmlDecl <;>
        simp [step, hl, miss, emit, ctxAfter, ctxOf, hd, hx] <;> exact h
    · simp [step, hl, miss, emit, ctxAfter, ctxOf]; exact h
  | startNs p u =>
    have hl : lookup st.cache (.startNs p u) = none := by
      cases hl : lookup st.cache (.startNs p u) with
      | none => rfl
      | some out => have := (h _ _ hl).1; simp [cacheable] at this
    cases m <;> simp [step, hl, miss, emit, ctxAfter, ctxOf] <;> exact h
  | endNs p =>
    have hl : lookup st.cache (.endNs p) = none := by
      cases hl : lookup st.cache (.endNs p) with
      | none => rfl
      | some out => have := (h _ _ hl).1; simp [cacheable] at this
    cases m <;> simp [step, hl, miss, emit, ctxAfter, ctxOf] <;> exact h
  | startCdata =>
    have hl : lookup st.cache .startCdata = none := by
      cases hl : lookup st.cache .startCdata with
      | none => rfl
      | some out => have := (h _ _ hl).1; simp [cacheable] at this
    cases m <;> simp [step, hl, miss, emit, ctxAfter, ctxOf] <;> exact h
  | endCdata =>
    have hl : lookup st.cache .endCdata = none := by
      cases hl : lookup st.cache .endCdata with
      | none => rfl
      | some out => have := (h _ _ hl).1; simp [cacheable] at this
    cases m <;> simp [step, hl, miss, emit, ctxAfter, ctxOf] <;> exact h

/-! ### the loops -/

theorem loop_nocache_eq_spec (m : Method) (o : Opts) (evs : List FEv) :
    ∀ st : LoopSt, loop m o false st evs = serSpec m o (ctxOf st) evs := by
  induction evs with
  | nil => intro st; rfl
  | cons ev rest ih =>
    intro st
    have hs := step_nocache m o st ev
    simp only [loop, serSpec]
    rw [hs.1, ih, hs.2.1]

theorem loop_cache_eq_spec (m : Method) (o : Opts) (evs : List FEv) :
    ∀ st : LoopSt, CacheOk m o st.cache → loop m o true st evs = serSpec m o (ctxOf st) evs := by
  induction evs with
  | nil => intro st _; rfl
  | cons ev rest ih =>
    intro st h
    have hs := step_cache m o st ev h
    simp only [loop, serSpec]
    rw [hs.1, ih _ hs.2.2, hs.2.1]

end Genshi.Output

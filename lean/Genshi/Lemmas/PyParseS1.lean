/-
  C13 — statement layer, part 1: expressions inside statement lines.
-/
import Genshi.Lemmas.PyGenOk
import Genshi.Model.PyParseS
namespace Genshi.Py
open Genshi.Gen

/-- every operator loop of the expression parser stops at the start of `rest` -/
def stopsAll (rest : List Tok) : Bool :=
  stopsTrailer rest && stopsPow rest && stopsBin rest && stopsCmp rest && stopsAnd rest && stopsOr rest && stopsIf rest

theorem stopsAll_closedE {r : List Tok} (h : closedE r = true) : stopsAll r = true := by
  have hd := closedE_D h
  have hb := closedD_belowBool hd
  simp [stopsAll, belowBool_trailer hb, belowBool_pow hb, belowBool_bin hb, belowBool_cmp hb, closedD_and hd,
    closedD_or hd, closedE_if h]

/-- the words a comparison operator can start with -/
def cmpFirstWords : List Str := [cs!"==", cs!"!=", cs!"<", cs!"<=", cs!">", cs!">=", cs!"is", cs!"in", cs!"not"]

theorem cmpFind_none_of_first (a : Str) (h : a ∉ cmpFirstWords) (ws : List Str) : cmpFind (a :: ws) Astgrammar.cmpOps = none := by
  simp only [cmpFirstWords, List.mem_cons, List.mem_nil_iff, or_false, not_or] at h
  obtain ⟨h1, h2, h3, h4, h5, h6, h7, h8, h9⟩ := h
  simp [cmpFind, Astgrammar.cmpOps, Ne.symm h1, Ne.symm h2, Ne.symm h3, Ne.symm h4, Ne.symm h5, Ne.symm h6,
    Ne.symm h7, Ne.symm h8, Ne.symm h9]

theorem stopsCmp_of_text (t : Tok) (a : Str) (r : List Tok) (ht : tokText t = some a) (h : a ∉ cmpFirstWords) :
    stopsCmp (t :: r) = true := by
  unfold stopsCmp cmpOp?
  cases r with
  | nil => simp [ht, cmpFind_none_of_first a h]
  | cons t2 r2 =>
    cases h2 : tokText t2 with
    | none => simp [ht, h2, cmpFind_none_of_first a h]
    | some b => simp [ht, h2, cmpFind_none_of_first a h]

/-- tokens that end an expression inside a statement line (besides the closers): `=`, `as`, `from`, `->`
    and the augmented assignment operators -/
theorem stopsAll_op (s : Str) (r : List Tok) (h1 : s ≠ ['.']) (h2 : s ≠ ['(']) (h3 : s ≠ ['[']) (h4 : s ≠ ['*', '*'])
    (h5 : binLevel? s Astgrammar.binLevels = none) (h6 : s ∉ cmpFirstWords) : stopsAll (Tok.op s :: r) = true := by
  have a1 : stopsTrailer (Tok.op s :: r) = true := by
    unfold stopsTrailer; split <;> simp_all
  have a2 : stopsPow (Tok.op s :: r) = true := by
    unfold stopsPow; split <;> simp_all
  have a3 : stopsBin (Tok.op s :: r) = true := by simp [stopsBin, h5]
  have a4 := stopsCmp_of_text (Tok.op s) s r rfl h6
  simp [stopsAll, a1, a2, a3, a4, stopsAnd, stopsOr, stopsIf]

theorem stopsAll_eq (r : List Tok) : stopsAll (tEq :: r) = true :=
  stopsAll_op ['='] r (by decide) (by decide) (by decide) (by decide) (by decide) (by decide)

theorem stopsAll_arrow (r : List Tok) : stopsAll (tArrow :: r) = true :=
  stopsAll_op ['-', '>'] r (by decide) (by decide) (by decide) (by decide) (by decide) (by decide)

theorem stopsAll_kw (s : Str) (r : List Tok) (h1 : s ≠ cs!"and") (h2 : s ≠ cs!"or") (h3 : s ≠ cs!"if")
    (h6 : s ∉ cmpFirstWords) : stopsAll (Tok.name s :: r) = true := by
  have a4 := stopsCmp_of_text (Tok.name s) s r rfl h6
  have a5 : stopsAnd (Tok.name s :: r) = true := by unfold stopsAnd; split <;> simp_all
  have a6 : stopsOr (Tok.name s :: r) = true := by unfold stopsOr; split <;> simp_all
  have a7 : stopsIf (Tok.name s :: r) = true := by unfold stopsIf; split <;> simp_all
  simp [stopsAll, stopsTrailer, stopsPow, stopsBin, a4, a5, a6, a7]

theorem stopsAll_as (r : List Tok) : stopsAll (kw cs!"as" :: r) = true :=
  stopsAll_kw _ r (by decide) (by decide) (by decide) (by decide)

theorem stopsAll_from (r : List Tok) : stopsAll (kw cs!"from" :: r) = true :=
  stopsAll_kw _ r (by decide) (by decide) (by decide) (by decide)

/-- the augmented assignment operators: `sym=` for every binary operator of the generator -/
theorem augTable_ok :
    ∀ p ∈ AstGen.binaryOperators,
      augOp? (p.2 ++ ['=']) AstGen.binaryOperators = some p.1 ∧ p.2 ++ ['='] ≠ ['='] ∧ p.2 ++ ['='] ≠ ['.'] ∧ p.2 ++ ['='] ≠ ['(']
      ∧ p.2 ++ ['='] ≠ ['['] ∧ p.2 ++ ['='] ≠ ['*', '*'] ∧ binLevel? (p.2 ++ ['=']) Astgrammar.binLevels = none
      ∧ p.2 ++ ['='] ∉ cmpFirstWords := by decide

theorem ExprGoal.expr' {e : PyExpr} (g : ExprGoal e) {M : Nat} (hM : need e ≤ M) (rest : List Tok)
    (hs : stopsAll rest = true) : exprF (knot M) (gen e ++ rest) = some (e, rest) := by
  simp only [stopsAll, Bool.and_eq_true] at hs
  obtain ⟨⟨⟨⟨⟨⟨s1, s2⟩, s3⟩, s4⟩, s5⟩, s6⟩, s7⟩ := hs
  have := need_ge e
  obtain ⟨n, rfl⟩ : ∃ n, M = n + 1 := ⟨M - 1, by omega⟩
  have hh := headOK_append rest g.head
  exact expr_of_disj _ _ _ _
    (disj_of_conj _ _ _ _
      (conj_of_inv _ _ _ _
        (inv_of_cmp _ _ _ _
          (cmp_of_bin _ _ _ _ (bin_of_unary _ _ _ _ _ (g.unary hM rest s1 s2) s3) s4) (headOK_not hh)) s5) s6)
    (headOK_lambda hh) s7

theorem parseFuel_mono (a b : List Tok) : parseFuel a ≤ parseFuel (a ++ b) := by
  simp only [parseFuel, List.length_append]; omega

/-- an expression at the start of a statement line -/
theorem exprP_gen (e : PyExpr) (h : Supported e) (rest : List Tok) (hs : stopsAll rest = true) :
    exprP (gen e ++ rest) = some (e, rest) := by
  obtain ⟨hwf, hex⟩ := h
  have g := goal_expr hex (main e hwf)
  have hsz := sz_le e hwf
  unfold exprP
  apply g.expr' _ rest hs
  have := parseFuel_mono (gen e) rest
  simp only [need, parseFuel] at *
  omega

/-- a target followed by `in` / `:` / `,` -/
theorem primaryP_gen (e : PyExpr) (h : Supported e) (rest : List Tok) (hs : stopsTrailer rest = true) :
    primaryP (gen e ++ rest) = some (e, rest) := by
  obtain ⟨hwf, hex⟩ := h
  have g := goal_expr hex (main e hwf)
  have hsz := sz_le e hwf
  unfold primaryP
  apply g.prim _ rest hs
  have := parseFuel_mono (gen e) rest
  simp only [need, parseFuel] at *
  omega

theorem supported_head (e : PyExpr) (h : Supported e) : headOK (gen e) = true :=
  (goal_expr h.2 (main e h.1)).head

end Genshi.Py

/-
  C07 — lemmas about the XML layer: the events of a tree traversal are the flattening
  of the tree.
-/
import Genshi.Model.ParseXml
import Genshi.Lemmas.Parse
namespace Genshi.Parse
open Genshi

/-- the events a handler call enqueues (nothing when it raises) -/
def evOf (c : XmlCb) : Stream :=
  match xmlStep () c with
  | .ok r => r.2
  | .error _ => []

/-- the handler call does not raise -/
def cbOk (c : XmlCb) : Bool :=
  match xmlStep () c with
  | .ok _ => true
  | .error _ => false

theorem xmlStep_ok (c : XmlCb) (h : cbOk c = true) : xmlStep () c = .ok ((), evOf c) := by
  unfold cbOk at h
  unfold evOf
  cases hs : xmlStep () c with
  | error e => simp [hs] at h
  | ok r => rfl

theorem handleOther_ignorable (s : Str) (l c : Int) (h : (s.head? != some '&') = true) :
    handleOther s l c = .ok [] := by
  unfold handleOther
  cases s with
  | nil => rfl
  | cons ch cs =>
    by_cases hc : ch = '&'
    · subst hc; simp at h
    · split
      · rename_i heq; simp only [List.cons.injEq] at heq; exact absurd heq.1 hc
      · rfl

theorem run_xml_ok : ∀ (cbs : List XmlCb), cbs.all cbOk = true →
    run xmlLayer () (cbs.map Item.cb) = .ok ((), cbs.flatMap evOf)
  | [], _ => rfl
  | c :: cs, h => by
      simp only [List.all_cons, Bool.and_eq_true] at h
      simp only [List.map_cons, run, xmlLayer, xmlStep_ok c h.1]
      have := run_xml_ok cs h.2
      simp only [xmlLayer] at this
      rw [this]
      simp

theorem flattenList_append : ∀ (a b : List Node), flattenList (a ++ b) = flattenList a ++ flattenList b
  | [], b => by simp [flattenList]
  | n :: a, b => by simp [flattenList, flattenList_append a b]

theorem flattenList_leaves {α : Type} (f : α → Event) : ∀ (l : List α),
    flattenList (l.map fun x => Node.leaf (f x)) = l.map f
  | [] => rfl
  | x :: l => by simp [flattenList, Node.flatten, flattenList_leaves f l]

theorem okList_append : ∀ (a b : List Node), okList (a ++ b) = (okList a && okList b)
  | [], b => by simp [okList]
  | n :: a, b => by simp [okList, okList_append a b, Bool.and_assoc]

theorem okList_leaves {α : Type} (f : α → Event) (hf : ∀ x, (f x).isStartEnd = false) : ∀ (l : List α),
    okList (l.map fun x => Node.leaf (f x)) = true
  | [] => rfl
  | x :: l => by simp [okList, Node.ok, hf, okList_leaves f hf l]

theorem all_append_map {α : Type} (p : XmlCb → Bool) (f : α → XmlCb) (hf : ∀ x, p (f x) = true) (l : List α) :
    (l.map f).all p = true := by
  simp [List.all_map, hf]

theorem cbOk_default_ignorable (s : Str) (l c : Int) (h : (s.head? != some '&') = true) :
    cbOk (.default_ s l c) = true := by
  simp [cbOk, xmlStep, handleOther_ignorable s l c h]

mutual
  theorem callbacks_allOk : ∀ (t : XNode), t.wf = true → t.callbacks.all cbOk = true
    | .elem name attrs decls kids, h => by
        have := callbacksList_allOk kids (by simpa [XNode.wf] using h)
        simp only [XNode.callbacks, List.all_append, List.all_cons, List.all_map, Bool.and_eq_true]
        refine ⟨by simp [cbOk, xmlStep], by simp [cbOk, xmlStep], this, by simp [cbOk, xmlStep], by simp [cbOk, xmlStep]⟩
    | .chars ps, _ => by simp [XNode.callbacks, List.all_map, cbOk, xmlStep]
    | .cdata ps, _ => by simp [XNode.callbacks, List.all_map, cbOk, xmlStep]
    | .comment s, _ => by simp [XNode.callbacks, cbOk, xmlStep]
    | .pi t d, _ => by simp [XNode.callbacks, cbOk, xmlStep]
    | .decl v e s, _ => by simp [XNode.callbacks, cbOk, xmlStep]
    | .doctype n sy pb h, _ => by simp [XNode.callbacks, cbOk, xmlStep]
    | .ignorable s l c, h => by
        simp only [XNode.wf] at h
        simp [XNode.callbacks, cbOk_default_ignorable s l c h]
  theorem callbacksList_allOk : ∀ (ts : List XNode), wfList ts = true → (callbacksList ts).all cbOk = true
    | [], _ => rfl
    | t :: ts, h => by
        simp only [wfList, Bool.and_eq_true] at h
        simp only [callbacksList, List.all_append, Bool.and_eq_true]
        exact ⟨callbacks_allOk t h.1, callbacksList_allOk ts h.2⟩
end

theorem flatMap_evOf_map {α : Type} (f : α → XmlCb) (g : α → Event) (h : ∀ x, evOf (f x) = [g x]) :
    ∀ (l : List α), (l.map f).flatMap evOf = l.map g
  | [] => rfl
  | x :: l => by simp [h, flatMap_evOf_map f g h l]

mutual
  /-- the events of the handler calls for a node are the flattening of the node -/
  theorem callbacks_events : ∀ (t : XNode), t.wf = true → t.callbacks.flatMap evOf = flattenList t.toNodes
    | .elem name attrs decls kids, h => by
        have ih := callbacksList_events kids (by simpa [XNode.wf] using h)
        simp only [XNode.callbacks, XNode.toNodes, List.flatMap_append, List.flatMap_cons, flattenList_append,
          flattenList, Node.flatten]
        rw [flatMap_evOf_map (fun d : Option Str × Option Str => XmlCb.startNs d.1 d.2)
              (fun d => Event.startNs (d.1.getD []) (d.2.getD [])) (fun _ => rfl),
            flatMap_evOf_map (fun d : Option Str × Option Str => XmlCb.endNs d.1)
              (fun d => Event.endNs (d.1.getD [])) (fun _ => rfl),
            flattenList_leaves (fun d : Option Str × Option Str => Event.startNs (d.1.getD []) (d.2.getD [])),
            flattenList_leaves (fun d : Option Str × Option Str => Event.endNs (d.1.getD [])),
            ih]
        simp [evOf, xmlStep]
    | .chars ps, _ => by
        simp only [XNode.callbacks, XNode.toNodes]
        rw [flatMap_evOf_map XmlCb.characterData (fun s => Event.text s false) (fun _ => rfl),
            flattenList_leaves (fun s => Event.text s false)]
    | .cdata ps, _ => by
        simp only [XNode.callbacks, XNode.toNodes, List.flatMap_cons, List.flatMap_append, flattenList,
          flattenList_append, Node.flatten]
        rw [flatMap_evOf_map XmlCb.characterData (fun s => Event.text s false) (fun _ => rfl),
            flattenList_leaves (fun s => Event.text s false)]
        simp [evOf, xmlStep, flattenList, Node.flatten]
    | .comment s, _ => by simp [XNode.callbacks, XNode.toNodes, evOf, xmlStep, flattenList, Node.flatten]
    | .pi t d, _ => by simp [XNode.callbacks, XNode.toNodes, evOf, xmlStep, flattenList, Node.flatten]
    | .decl v e s, _ => by simp [XNode.callbacks, XNode.toNodes, evOf, xmlStep, flattenList, Node.flatten]
    | .doctype n sy pb h, _ => by simp [XNode.callbacks, XNode.toNodes, evOf, xmlStep, flattenList, Node.flatten]
    | .ignorable s l c, h => by
        simp only [XNode.wf] at h
        simp [XNode.callbacks, XNode.toNodes, evOf, xmlStep, handleOther_ignorable s l c h, flattenList]
  theorem callbacksList_events : ∀ (ts : List XNode), wfList ts = true →
      (callbacksList ts).flatMap evOf = flattenList (toNodesList ts)
    | [], _ => rfl
    | t :: ts, h => by
        simp only [wfList, Bool.and_eq_true] at h
        simp only [callbacksList, toNodesList, List.flatMap_append, flattenList_append]
        rw [callbacks_events t h.1, callbacksList_events ts h.2]
end

mutual
  theorem toNodes_ok : ∀ (t : XNode), okList t.toNodes = true
    | .elem name attrs decls kids => by
        have ih := toNodesList_ok kids
        simp only [XNode.toNodes, okList_append, okList, Node.ok, Bool.and_eq_true]
        exact ⟨okList_leaves _ (fun _ => rfl) _, ih, okList_leaves _ (fun _ => rfl) _⟩
    | .chars ps => by simp only [XNode.toNodes]; exact okList_leaves _ (fun _ => rfl) _
    | .cdata ps => by
        simp only [XNode.toNodes, okList, okList_append, Node.ok, Bool.and_eq_true]
        exact ⟨rfl, okList_leaves _ (fun _ => rfl) _, rfl, trivial⟩
    | .comment s => rfl
    | .pi t d => rfl
    | .decl v e s => rfl
    | .doctype n sy pb h => rfl
    | .ignorable s l c => rfl
  theorem toNodesList_ok : ∀ (ts : List XNode), okList (toNodesList ts) = true
    | [] => rfl
    | t :: ts => by
        simp only [toNodesList, okList_append, Bool.and_eq_true]
        exact ⟨toNodes_ok t, toNodesList_ok ts⟩
end

theorem xmlReads_items (reads : List (List (Item XmlCb))) :
    ((reads.map XmlReadG.chunk).map XmlReadG.toRead).flatMap Read.toItems = reads.flatten := by
  induction reads with
  | nil => rfl
  | cons r rs ih =>
    simp only [List.map_cons, List.flatMap_cons, XmlReadG.toRead, Read.toItems, List.flatten_cons]
    rw [ih]

/-- the queue-free run of a whole forest traversal -/
theorem eager_xml_forest (doc : List XNode) (hwf : wfList doc = true) :
    eager xmlLayer () ((callbacksList doc).map Item.cb) = (flattenList (toNodesList doc), none) := by
  have h := run_xml_ok (callbacksList doc) (callbacksList_allOk doc hwf)
  have := eager_append_ok xmlLayer ((callbacksList doc).map Item.cb) [] () () _ h
  simp only [List.append_nil, eager, xmlLayer] at this
  simp only [xmlLayer]
  rw [this, callbacksList_events doc hwf]

/-- first failure of a sequence of items, as a position -/
def firstFailure : List (Item XmlCb) → Option PyExc
  | [] => none
  | .raise e :: _ => some e
  | .cb (.default_ s l c) :: rest =>
    match handleOther s l c with
    | .error e => some e
    | .ok _ => firstFailure rest
  | .cb _ :: rest => firstFailure rest

theorem eager_xml_error : ∀ (items : List (Item XmlCb)),
    (eager xmlLayer () items).2 = firstFailure items
  | [] => rfl
  | .raise e :: rest => rfl
  | .cb c :: rest => by
      cases c with
      | default_ s l c =>
        simp only [eager, xmlLayer, xmlStep, firstFailure]
        cases handleOther s l c with
        | error e => rfl
        | ok evs =>
          simp only
          have := eager_xml_error rest
          simp only [xmlLayer] at this
          exact this
      | _ =>
        simp only [eager, xmlLayer, xmlStep, firstFailure]
        have := eager_xml_error rest
        simp only [xmlLayer] at this
        exact this

/-- where a first failure comes from: a raise item of the batches, or `_handle_other`'s own `ExpatError` -/
theorem firstFailure_some : ∀ (items : List (Item XmlCb)) (e : PyExc), firstFailure items = some e →
    Item.raise e ∈ items ∨ ∃ l c, e = .expat l c
  | [], e, h => by simp [firstFailure] at h
  | .raise e' :: rest, e, h => by
      simp only [firstFailure, Option.some.injEq] at h
      subst h
      exact .inl (List.mem_cons_self ..)
  | .cb c :: rest, e, h => by
      have lift : (Item.raise e ∈ rest ∨ ∃ l c, e = .expat l c) →
          (Item.raise e ∈ Item.cb c :: rest ∨ ∃ l c, e = .expat l c) := fun h =>
        h.elim (fun m => .inl (List.mem_cons_of_mem _ m)) .inr
      cases c with
      | default_ s l col =>
        simp only [firstFailure] at h
        cases ho : handleOther s l col with
        | error e' =>
          simp only [ho, Option.some.injEq] at h
          subst h
          right
          unfold handleOther at ho
          split at ho
          · split at ho
            · cases ho
            · simp only [Except.error.injEq] at ho; exact ⟨l, col, ho.symm⟩
          · cases ho
        | ok evs =>
          simp only [ho] at h
          exact lift (firstFailure_some rest e h)
      | _ => simp only [firstFailure] at h; exact lift (firstFailure_some rest e h)

end Genshi.Parse

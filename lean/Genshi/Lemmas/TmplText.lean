/-
  C04: the token loop of the text templates builds the same SUB nesting as the
  template tree (and hence as the markup form of the same directives).
-/
import Genshi.Lemmas.TmplExtract
import Genshi.Model.TmplText
namespace Genshi.Tmpl

theorem textParseFrom_append (s : TSt) (a b : List TTok) :
    textParseFrom s (a ++ b) = textParseFrom (textParseFrom s a) b := by
  simp [textParseFrom, List.foldl_append]

theorem textParseFrom_cons (s : TSt) (e : TTok) (b : List TTok) :
    textParseFrom s (e :: b) = textParseFrom (textStep s e) b := rfl

theorem textParseFrom_nil (s : TSt) : textParseFrom s [] = s := rfl

def TKeysBelow (m : TDirMap) (depth : Int) : Prop := ∀ p ∈ m, p.1 < depth

theorem tget?_none {m : TDirMap} {d : Int} (h : TKeysBelow m d) : m.get? d = none := by
  induction m with
  | nil => rfl
  | cons p m ih =>
    obtain ⟨k, v⟩ := p
    have hk := h (k, v) (List.mem_cons_self ..)
    simp only [TDirMap.get?]
    rw [if_neg (by intro he; simp only at hk; omega)]
    exact ih (fun q hq => h q (List.mem_cons_of_mem _ hq))

theorem terase_of_below {m : TDirMap} {d : Int} (h : TKeysBelow m d) : m.erase d = m := by
  unfold TDirMap.erase
  rw [List.filter_eq_self]
  intro p hp
  have := h p hp
  simp only [ne_eq, decide_eq_true_eq]
  omega

theorem tget?_put (m : TDirMap) (k v) : (m.put k v).get? k = some v := by
  simp [TDirMap.put, TDirMap.get?]

theorem terase_put {m : TDirMap} {d : Int} (h : TKeysBelow m d) (v) : (m.put d v).erase d = m := by
  simp only [TDirMap.put, terase_of_below h]
  simp only [TDirMap.erase, List.filter_cons, ne_eq, not_true_eq_false, decide_false]
  exact terase_of_below h

theorem tkeys_put {m : TDirMap} {d : Int} (h : TKeysBelow m d) (v) : TKeysBelow (m.put d v) (d + 1) := by
  intro p hp
  simp only [TDirMap.put, List.mem_cons] at hp
  rcases hp with rfl | hp
  · show d < d + 1; omega
  · rw [terase_of_below h] at hp
    have := h p hp
    omega

mutual
  theorem text_node : ∀ (n : TNode), textNode n = true → ∀ (d : Int) (m : TDirMap) (out : List REv),
      TKeysBelow m d → textParseFrom ⟨d, m, out⟩ (toToks n) = ⟨d, m, out ++ extractTree n⟩
    | .text s, _, d, m, out, _ => by simp [toToks, extractTree, textParseFrom, textStep]
    | .expr x, _, d, m, out, _ => by simp [toToks, extractTree, textParseFrom, textStep]
    | .elem _ _ _ _, h, _, _, _, _ => by simp [textNode] at h
    | .delem dd kids, h, d, m, out, hk => by
        have hkids : textNodes kids = true := by
          simp only [textNode, Bool.and_eq_true] at h; exact h.2
        simp only [toToks, textParseFrom_cons, textParseFrom_append, textParseFrom_nil, textStep]
        rw [text_nodes kids hkids (d + 1) _ _ (tkeys_put hk _)]
        simp only [textStep, Int.add_sub_cancel, tget?_put, terase_put hk, extractTree]
        simp
  theorem text_nodes : ∀ (ns : List TNode), textNodes ns = true → ∀ (d : Int) (m : TDirMap) (out : List REv),
      TKeysBelow m d → textParseFrom ⟨d, m, out⟩ (toTokss ns) = ⟨d, m, out ++ extractTrees ns⟩
    | [], _, d, m, out, _ => by simp [toTokss, extractTrees, textParseFrom]
    | n :: ns, h, d, m, out, hk => by
        have h' : textNode n = true ∧ textNodes ns = true := by simpa [textNodes] using h
        simp only [toTokss, textParseFrom_append, extractTrees]
        rw [text_node n h'.1 d m out hk, text_nodes ns h'.2 d m _ hk]
        simp [List.append_assoc]
end

theorem textParse_eq_tree (ns : List TNode) (h : textNodes ns = true) :
    textParse (toTokss ns) = extractTrees ns := by
  unfold textParse
  rw [text_nodes ns h 0 [] [] (by intro p hp; simp at hp)]
  simp

/-- Text templates: the token loop followed by `_prepare` gives the prepared stream
    `compileNodes` — the same one the markup form of the directives (as directive elements)
    compiles to. -/
theorem compileText_eq_compile (ns : List TNode) (h : textNodes ns = true) :
    compileText ns = compileNodes ns := by
  unfold compileText
  rw [textParse_eq_tree ns h, prepare_nodes]

end Genshi.Tmpl

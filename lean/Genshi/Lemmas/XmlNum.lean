/-
  Decimal numerals (`'%d' % n`): printing then reading gives the number back,
  numerals are non-empty strings of digits, `'ns%d'` is injective.
-/
import Genshi.Model.XmlCore
namespace Genshi.Xml

theorem digitChar_toNat (d : Nat) : (digitChar d).toNat = 48 + d % 10 := by
  unfold digitChar
  have h : (48 + d % 10).isValidChar := by
    left; omega
  simp [Char.ofNat, h, Char.ofNatAux, Char.toNat]
  omega

theorem isDigit_digitChar (d : Nat) : isDigit (digitChar d) = true := by
  have h := digitChar_toNat d
  unfold isDigit
  have h0 : ('0' : Char).toNat = 48 := rfl
  have h9 : ('9' : Char).toNat = 57 := rfl
  simp only [Bool.and_eq_true, decide_eq_true_eq]
  constructor
  · show ('0' : Char).val ≤ (digitChar d).val
    have : ('0' : Char).val.toNat ≤ (digitChar d).val.toNat := by
      change ('0' : Char).toNat ≤ (digitChar d).toNat; omega
    exact UInt32.le_iff_toNat_le.mpr this
  · show (digitChar d).val ≤ ('9' : Char).val
    have : (digitChar d).val.toNat ≤ ('9' : Char).val.toNat := by
      change (digitChar d).toNat ≤ ('9' : Char).toNat; omega
    exact UInt32.le_iff_toNat_le.mpr this

theorem parseDec_append_digit (s : List Char) (d : Nat) :
    parseDec (s ++ [digitChar d]) = parseDec s * 10 + d % 10 := by
  unfold parseDec
  rw [List.foldl_append]
  simp [digitChar_toNat]

theorem parseDec_decF : ∀ (f n : Nat), n ≤ f → parseDec (decF f n) = n := by
  intro f
  induction f with
  | zero =>
    intro n hn
    have : n = 0 := by omega
    subst this
    decide
  | succ f ih =>
    intro n hn
    unfold decF
    by_cases h : n < 10
    · simp only [h, if_true]
      have := parseDec_append_digit [] n
      simp only [List.nil_append] at this
      rw [this]
      simp [parseDec]; omega
    · simp only [h, if_false]
      rw [parseDec_append_digit, ih (n / 10) (by omega)]
      omega

theorem parseDec_dec (n : Nat) : parseDec (dec n) = n := parseDec_decF n n (Nat.le_refl n)

theorem decF_all_digit : ∀ (f n : Nat), (decF f n).all isDigit = true := by
  intro f
  induction f with
  | zero => intro n; simp [decF, isDigit_digitChar]
  | succ f ih =>
    intro n
    unfold decF
    by_cases h : n < 10
    · simp [h, isDigit_digitChar]
    · simp only [h, if_false, List.all_append, ih, Bool.true_and]
      simp [isDigit_digitChar]

theorem dec_all_digit (n : Nat) : (dec n).all isDigit = true := decF_all_digit n n

theorem decF_ne_nil : ∀ (f n : Nat), decF f n ≠ [] := by
  intro f n
  cases f with
  | zero => simp [decF]
  | succ f => unfold decF; by_cases h : n < 10 <;> simp [h]

theorem dec_ne_nil (n : Nat) : dec n ≠ [] := decF_ne_nil n n

theorem dec_injective : Function.Injective dec := by
  intro a b h
  have := congrArg parseDec h
  rwa [parseDec_dec, parseDec_dec] at this

theorem nsName_injective : Function.Injective nsName := by
  intro a b h
  unfold nsName at h
  exact dec_injective (by simpa using h)

end Genshi.Xml

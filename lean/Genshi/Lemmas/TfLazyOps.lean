/-
  Every link of the lazy model, run on its own over a whole stream, yields what the stage-wise
  model of the operation (`Model/Tf.lean`) yields, and has its effect on the buffers.
-/
import Genshi.Lemmas.TfLazyPipe
import Genshi.Lemmas.TfBufBal
namespace Genshi.Tf

/-- all actions of a link on the input `s`, from the state `c` to its end (`none`: it raises) -/
def actsAll (op : Op) : Ctl → MStream → Option (List Act)
  | c, [] => finOp op c
  | c, x :: s =>
      match stepOp op c x with
      | none => none
      | some (c', a) => (actsAll op c' s).map (a ++ ·)

theorem actsAll_fp (op : Op) : ∀ (s : MStream) (c : Ctl) (acts : List Act),
    actsAll op c s = some acts → ActsIn (wrOp op) (rdOp op) acts
  | [], c, acts, h => finOp_fp op c acts h
  | x :: s, c, acts, h => by
    simp only [actsAll] at h
    cases hs : stepOp op c x with
    | none => simp [hs] at h
    | some r =>
      obtain ⟨c', a⟩ := r
      simp only [hs, Option.map_eq_some_iff] at h
      obtain ⟨as, h1, rfl⟩ := h
      exact (stepOp_fp op c c' x a hs).append (actsAll_fp op s c' as h1)

theorem outs_append (a b : MStream) : outs (a ++ b) = outs a ++ outs b := by simp [outs]
theorem outs_cons (x : MItem) (l : MStream) : outs (x :: l) = .out x :: outs l := rfl
@[simp] theorem outs_nil : outs [] = [] := rfl

theorem flat_outs (b : BufF) : ∀ (l : MStream), flat b (outs l) = l
  | [] => rfl
  | x :: l => by simp only [outs_cons, flat, flat_outs b l]

theorem ofBufs_set (b : Bufs) (id : Nat) (v : List MEv) : ofBufs (b.set id v) = (ofBufs b).set id v := by
  funext i; simp [ofBufs, BufF.set, Bufs.get_set]

theorem contentF_ofBufs (b : Bufs) (c : Content) : contentF (ofBufs b) c = content b c := by
  cases c <;> rfl

theorem effs_noWr {r : List Nat} {acts : List Act} (h : ActsIn [] r acts) (b : BufF) : effs acts b = b := by
  funext i; exact effs_out h i (by simp)

/-- `(if C then some (outs L) else none).map (A ++ ·)` -/
theorem map_ite_outs (C : Prop) [Decidable C] (A : MStream) (L : MStream) :
    Option.map (fun x => outs A ++ x) (if C then some (outs L) else none) =
      if C then some (outs (A ++ L)) else none := by
  split <;> simp [outs_append]

/-! ### one item in, one item out -/

theorem map_acts (op : Op) (g : MItem → MItem) (hstep : ∀ p, stepOp op .unit p = some (.unit, [.out (g p)]))
    (hfin : finOp op .unit = some []) : ∀ s : MStream, actsAll op .unit s = some (outs (s.map g))
  | [] => by simp [actsAll, hfin]
  | x :: s => by simp [actsAll, hstep, map_acts op g hstep hfin s, outs]

/-! ### unwrap, empty, remove -/

theorem unwrap_acts : ∀ s : MStream, actsAll .unwrap .unit s = some (outs (unwrap s))
  | [] => by simp [actsAll, finOp, unwrap]
  | (m, x) :: s => by
    simp only [actsAll, stepOp, unwrap_acts s, Option.map_some, unwrap, List.filter_cons]
    split <;> simp [outs, unwrap]

theorem empty_acts : ∀ (s : MStream) (fl : Bool), actsAll .empty (.flag fl) s = some (outs (emptyGo fl s))
  | [], fl => by simp [actsAll, finOp, emptyGo]
  | (m, x) :: s, false => by
    simp [actsAll, stepOp, empty_acts s, emptyGo, outs]
  | (m, x) :: s, true => by
    by_cases h : m = some .exit <;> simp [actsAll, stepOp, emptyGo, h, empty_acts s, outs]

theorem remove_acts : ∀ (s : MStream) (names : List QName),
    actsAll .remove (.names names) s = some (outs (removeGo names s))
  | [], names => by simp [actsAll, finOp, removeGo]
  | (none, x) :: s, names => by
    by_cases h : (!names.isEmpty && x.isStart) = true <;>
      simp [actsAll, stepOp, removeGo, h, remove_acts s, outs]
  | (some m, x) :: s, names => by
    cases m <;> simp [actsAll, stepOp, removeGo, remove_acts s]

/-! ### select -/

/-- one step of the select link against one step of `selectGo` / `selectFin` -/
theorem selStep_spec (d : Nat) (rs : List Res) (ok : Bool) (p : MItem) :
    ∃ (l : MStream) (d' : Nat) (rs' : List Res) (ok' : Bool),
      selStep d rs ok p = (.sel d' rs' ok', outs l) ∧
      ∀ s, selectFin d rs (p :: s) = selectFin d' rs' s ∧ selectGo d rs (p :: s) = l ++ selectGo d' rs' s := by
  obtain ⟨m, x⟩ := p
  cases d with
  | succ d =>
    by_cases h0 : subDepth d x = 0
    · exact ⟨[(some .exit, x)], 0, rs, ok, by simp [selStep, h0, outs], fun s => by simp [selectFin, selectGo, h0]⟩
    · exact ⟨[(some .inside, x)], subDepth d x, rs, ok, by simp [selStep, h0, outs],
        fun s => by simp [selectFin, selectGo, h0]⟩
  | zero =>
    cases m with
    | none => exact ⟨[(none, x)], 0, rs, ok, by simp [selStep, outs], fun s => by simp [selectFin, selectGo]⟩
    | some m =>
      have key : ∀ r : Res, rs.headD .none = r →
          ∃ (l : MStream) (d' : Nat) (rs' : List Res) (ok' : Bool),
            selStep 0 rs ok (some m, x) = (.sel d' rs' ok', outs l) ∧
            ∀ s, selectFin 0 rs ((some m, x) :: s) = selectFin d' rs' s ∧
              selectGo 0 rs ((some m, x) :: s) = l ++ selectGo d' rs' s := by
        intro r hr
        cases r with
        | hit =>
          by_cases hs : x.isStart = true
          · exact ⟨[(some .enter, x)], 1, rs.tail, _, by simp only [selStep, hr]; simp [hs, outs]; rfl,
              fun s => by simp only [selectFin, selectGo, hr]; simp [hs]⟩
          · exact ⟨[(some .outside, x)], 0, rs.tail, _, by simp only [selStep, hr]; simp [hs, outs]; rfl,
              fun s => by simp only [selectFin, selectGo, hr]; simp [hs]⟩
        | attrs a =>
          exact ⟨[(some .attr, .attr (attrTag x) a), (none, x)], 0, rs.tail, _, by simp only [selStep, hr]; simp [outs]; rfl,
            fun s => by simp only [selectFin, selectGo, hr]; simp⟩
        | self =>
          exact ⟨[(some .outside, x)], 0, rs.tail, _, by simp only [selStep, hr]; simp [outs]; rfl,
            fun s => by simp only [selectFin, selectGo, hr]; simp⟩
        | event e =>
          exact ⟨[(some .outside, e)], 0, rs.tail, _, by simp only [selStep, hr]; simp [outs]; rfl,
            fun s => by simp only [selectFin, selectGo, hr]; simp⟩
        | text t =>
          exact ⟨[(none, .ev (.text t false))], 0, rs.tail, _, by simp only [selStep, hr]; simp [outs]; rfl,
            fun s => by simp only [selectFin, selectGo, hr]; simp⟩
        | none =>
          exact ⟨[(none, x)], 0, rs.tail, _, by simp only [selStep, hr]; simp [outs]; rfl,
            fun s => by simp only [selectFin, selectGo, hr]; simp⟩
      exact key _ rfl

theorem select_acts (rs0 : List Res) : ∀ (s : MStream) (d : Nat) (rs : List Res) (ok : Bool),
    actsAll (.select rs0) (.sel d rs ok) s =
      if selectFin d rs s = 0 then some (outs (selectGo d rs s)) else none
  | [], d, rs, ok => by
    cases d <;> simp [actsAll, finOp, selectFin, selectGo]
  | p :: s, d, rs, ok => by
    obtain ⟨l, d', rs', ok', h1, h2⟩ := selStep_spec d rs ok p
    simp only [actsAll, stepOp, h1, select_acts rs0 s d' rs' ok', (h2 s).1, (h2 s).2]
    exact map_ite_outs _ l _


/-! ### filter -/

theorem filter_acts (f : List MEv → List MEv) : ∀ (s : MStream) (st : FilSt) (q : List MEv),
    actsAll (.filter f) (.fil st q) s = some (outs (filterGo f st q s))
  | [], st, q => by
    simp only [actsAll, finOp, filterGo]
    split <;> rfl
  | (m, x) :: s, .idle, q => by
    by_cases h1 : m = some .enter
    · simp [actsAll, stepOp, filStep, filterGo, h1, filter_acts f s]
    · by_cases h2 : m = some .outside
      · simp [actsAll, stepOp, filStep, filterGo, h1, h2, filter_acts f s]
      · simp [actsAll, stepOp, filStep, filterGo, h1, h2, filter_acts f s, outs]
  | (m, x) :: s, .inEnter, q => by
    by_cases h1 : m = some .exit
    · simp [actsAll, stepOp, filStep, filterGo, h1, filter_acts f s, outs]
    · simp [actsAll, stepOp, filStep, filterGo, h1, filter_acts f s]
  | (m, x) :: s, .inOutside, q => by
    by_cases h1 : m = some .outside
    · simp [actsAll, stepOp, filStep, filterGo, h1, filter_acts f s]
    · simp [actsAll, stepOp, filStep, filterGo, h1, filter_acts f s, outs]

/-! ### replace / before / after / wrap -/

theorem flat_keepAct (b : BufF) (keep : Bool) (p : MItem) : flat b (keepAct keep p) = if keep then [p] else [] := by
  cases keep <;> rfl

theorem run_acts (op : Op) (pre post : List Act) (keep : Bool)
    (hstep : ∀ c p, stepOp op c p = runStepC pre post keep c p) (hfin : ∀ c, finOp op c = runFinC post c)
    (bf : BufF) : ∀ (s : MStream) (st : RunSt),
    ∃ acts, actsAll op (.run st) s = some acts ∧ flat bf acts = runGo (flat bf pre) (flat bf post) keep st s
  | [], st => by
    refine ⟨runFin post st, by simp [actsAll, hfin, runFinC], ?_⟩
    cases st <;> simp [runFin, runGo, flat]
  | (m, x) :: s, st => by
    obtain ⟨acts', h1, h2⟩ := run_acts op pre post keep hstep hfin bf s (runStep pre post keep st (m, x)).1
    refine ⟨(runStep pre post keep st (m, x)).2 ++ acts', by simp [actsAll, hstep, runStepC, h1], ?_⟩
    rw [flat_append, h2]
    cases st with
    | idle =>
      cases m with
      | none => simp [runStep, runGo, flat]
      | some m => simp [runStep, runGo, flat_append, flat_keepAct]
    | inEnter =>
      by_cases he : m = some .exit
      · simp [runStep, runGo, he, flat_append, flat_keepAct]
      · simp [runStep, runGo, he, flat_keepAct]
    | inRun m0 =>
      by_cases he : m = some m0
      · simp [runStep, runGo, he, flat_keepAct]
      · cases m with
        | none => simp [runStep, runGo, flat_append, flat]
        | some m' =>
          have : ¬ m' = m0 := fun hc => he (by rw [hc])
          simp [runStep, runGo, this, flat_append, flat_keepAct]

/-! ### prepend / append -/

theorem prepend_acts (c : Content) (bf : BufF) : ∀ (s : MStream),
    ∃ acts, actsAll (.prepend c) .unit s = some acts ∧ flat bf acts = prepend (contentF bf c) s
  | [] => ⟨[], by simp [actsAll, finOp], rfl⟩
  | (m, x) :: s => by
    obtain ⟨acts', h1, h2⟩ := prepend_acts c bf s
    by_cases he : m = some .enter
    · exact ⟨[.out (m, x), .inj c] ++ acts', by simp [actsAll, stepOp, he, h1],
        by simp [flat, h2, prepend, he]⟩
    · exact ⟨[.out (m, x)] ++ acts', by simp [actsAll, stepOp, he, h1], by simp [flat, h2, prepend, he]⟩

theorem append_acts (c : Content) (bf : BufF) : ∀ (s : MStream) (last : Option MItem),
    ∃ acts, actsAll (.append c) (.last last) s = some acts ∧ flat bf acts = appendGo (contentF bf c) last s
  | [], none => ⟨[], by simp [actsAll, finOp], rfl⟩
  | [], some l => ⟨[.inj c, .out l], by simp [actsAll, finOp], by simp [flat, appendGo]⟩
  | (m, x) :: s, none => by
    obtain ⟨acts', h1, h2⟩ := append_acts c bf s (if m = some .enter then some (m, x) else none)
    exact ⟨[.out (m, x)] ++ acts', by simp [actsAll, stepOp, h1], by simp [flat, h2, appendGo]⟩
  | (m, x) :: s, some l => by
    by_cases he : m = some .exit
    · obtain ⟨acts', h1, h2⟩ := append_acts c bf s none
      exact ⟨[.inj c, .out (m, x)] ++ acts', by simp [actsAll, stepOp, he, h1], by simp [flat, h2, appendGo, he]⟩
    · obtain ⟨acts', h1, h2⟩ := append_acts c bf s (some (m, x))
      exact ⟨[.out (m, x)] ++ acts', by simp [actsAll, stepOp, he, h1], by simp [flat, h2, appendGo, he]⟩

/-! ### copy -/

theorem BufF.set_set (b : BufF) (id : Nat) (v w : List MEv) : (b.set id v).set id w = b.set id w := by
  funext i; simp only [BufF.set]; split <;> rfl

theorem BufF.set_self (b : BufF) (id : Nat) : b.set id (b id) = b := by
  funext i; simp only [BufF.set]; split
  · rename_i h; rw [h]
  · rfl

theorem BufF.set_get (b : BufF) (id : Nat) (v : List MEv) : (b.set id v) id = v := by simp [BufF.set]

theorem effs_newSel (id : Nat) (acc : Bool) (x : MEv) (as : List Act) (b : BufF) :
    effs (newSel id acc x ++ as) b = effs as (b.set id ((if acc then b id else []) ++ [x])) := by
  cases acc <;> simp [newSel, effs, BufF.set_set, BufF.set_get]

theorem effs_outs_append (l : MStream) (as : List Act) (b : BufF) : effs (outs l ++ as) b = effs as b := by
  induction l with
  | nil => rfl
  | cons x l ih => simpa [outs, effs] using ih

theorem flat_newSel (b : BufF) (id : Nat) (acc : Bool) (x : MEv) : flat b (newSel id acc x) = [] := by
  cases acc <;> rfl

theorem copy_acts (id : Nat) (acc : Bool) : ∀ (s : MStream) (st : RunSt) (pend : MStream) (bf : BufF),
    ∃ acts, actsAll (.copy id acc) (.copy st pend) s = some acts ∧ flat bf acts = copyGo st pend s ∧
      effs acts bf = bf.set id (copyBuf acc st (bf id) s)
  | [], st, pend, bf => by
    refine ⟨outs pend, by simp [actsAll, finOp], by simp [flat_outs, copyGo], ?_⟩
    have := effs_outs_append pend [] bf
    simp only [List.append_nil] at this
    rw [this]; simp [copyBuf, effs, BufF.set_self]
  | (m, x) :: s, st, pend, bf => by
    cases st with
    | idle =>
      cases m with
      | none =>
        obtain ⟨acts', h1, h2, h3⟩ := copy_acts id acc s .idle [] bf
        exact ⟨[.out (none, x)] ++ acts', by simp [actsAll, stepOp, copyStep, h1],
          by simp [flat, h2, copyGo], by simp [effs, h3, copyBuf]⟩
      | some m =>
        obtain ⟨acts', h1, h2, h3⟩ := copy_acts id acc s (startSt m) [(some m, x)]
          (bf.set id ((if acc then bf id else []) ++ [x]))
        refine ⟨newSel id acc x ++ acts', by simp [actsAll, stepOp, copyStep, h1],
          by rw [flat_append, flat_newSel, List.nil_append, flat_congr (w := [id]) (r := []) (b := bf)
              (actsAll_fp _ _ _ _ h1 |>.mono (by simp [wrOp]) (by simp [rdOp, readsOf])) (by simp)] at *; simp [h2, copyGo] , ?_⟩
        rw [effs_newSel, h3, BufF.set_set, BufF.set_get]; simp [copyBuf]
    | inEnter =>
      by_cases he : m = some .exit
      · obtain ⟨acts', h1, h2, h3⟩ := copy_acts id acc s .idle [] (bf.set id (bf id ++ [x]))
        refine ⟨(.app id x :: outs (pend ++ [(m, x)])) ++ acts', by simp [actsAll, stepOp, copyStep, he, h1], ?_, ?_⟩
        · have hf : flat bf acts' = flat (bf.set id (bf id ++ [x])) acts' :=
            (flat_congr (w := [id]) (r := []) (actsAll_fp _ _ _ _ h1 |>.mono (by simp [wrOp]) (by simp [rdOp, readsOf]))
              (by simp)).symm
          simp only [List.cons_append, flat, flat_append, flat_outs, hf, h2, copyGo, he, ↓reduceIte,
            List.append_assoc, List.cons_append, List.nil_append]
        · simp only [List.cons_append, effs, effs_outs_append, h3, BufF.set_set, BufF.set_get, copyBuf, he, ↓reduceIte]
      · obtain ⟨acts', h1, h2, h3⟩ := copy_acts id acc s .inEnter (pend ++ [(m, x)]) (bf.set id (bf id ++ [x]))
        refine ⟨[.app id x] ++ acts', by simp [actsAll, stepOp, copyStep, he, h1], ?_, ?_⟩
        · have hf : flat bf acts' = flat (bf.set id (bf id ++ [x])) acts' :=
            (flat_congr (w := [id]) (r := []) (actsAll_fp _ _ _ _ h1 |>.mono (by simp [wrOp]) (by simp [rdOp, readsOf]))
              (by simp)).symm
          simp only [List.cons_append, List.nil_append, flat, hf, h2, copyGo, he, ↓reduceIte]
        · simp only [List.cons_append, List.nil_append, effs, h3, BufF.set_set, BufF.set_get, copyBuf, he, ↓reduceIte]
    | inRun m0 =>
      by_cases he : m = some m0
      · subst he
        obtain ⟨acts', h1, h2, h3⟩ := copy_acts id acc s (.inRun m0) (pend ++ [(some m0, x)]) (bf.set id (bf id ++ [x]))
        refine ⟨[.app id x] ++ acts', by simp [actsAll, stepOp, copyStep, h1], ?_, ?_⟩
        · have hf : flat bf acts' = flat (bf.set id (bf id ++ [x])) acts' :=
            (flat_congr (w := [id]) (r := []) (actsAll_fp _ _ _ _ h1 |>.mono (by simp [wrOp]) (by simp [rdOp, readsOf]))
              (by simp)).symm
          simp only [List.cons_append, List.nil_append, flat, hf, h2, copyGo, ↓reduceIte]
        · simp only [List.cons_append, List.nil_append, effs, h3, BufF.set_set, BufF.set_get, copyBuf, ↓reduceIte]
      · cases m with
        | none =>
          obtain ⟨acts', h1, h2, h3⟩ := copy_acts id acc s .idle [] bf
          refine ⟨(outs pend ++ [.out (none, x)]) ++ acts', by simp [actsAll, stepOp, copyStep, he, h1], ?_, ?_⟩
          · simp [flat_append, flat_outs, flat, h2, copyGo]
          · simp only [List.append_assoc, effs_outs_append, List.cons_append, List.nil_append, effs, h3, copyBuf, he,
              ↓reduceIte]
        | some m' =>
          obtain ⟨acts', h1, h2, h3⟩ := copy_acts id acc s (startSt m') [(some m', x)]
            (bf.set id ((if acc then bf id else []) ++ [x]))
          refine ⟨(outs pend ++ newSel id acc x) ++ acts', by simp [actsAll, stepOp, copyStep, he, h1], ?_, ?_⟩
          · have hf : flat bf acts' = flat (bf.set id ((if acc then bf id else []) ++ [x])) acts' :=
              (flat_congr (w := [id]) (r := []) (actsAll_fp _ _ _ _ h1 |>.mono (by simp [wrOp]) (by simp [rdOp, readsOf]))
                (by simp)).symm
            have : ¬ m' = m0 := fun hc => he (by rw [hc])
            simp [flat_append, flat_outs, flat_newSel, hf, h2, copyGo, this]
          · have : ¬ m' = m0 := fun hc => he (by rw [hc])
            rw [List.append_assoc, effs_outs_append, effs_newSel, h3, BufF.set_set, BufF.set_get]
            simp [copyBuf, this]

/-! ### cut -/

/-- the cut link from a state on `s` against `cutGo` / `cutBuf` -/
def CutOk (id : Nat) (acc : Bool) (st : RunSt) (br : Bool) (nm : List QName) (s : MStream) : Prop :=
  (∀ (bf : BufF) (out : MStream), cutGo acc st br nm s = some out →
    ∃ acts, actsAll (.cut id acc) (.cut st br nm) s = some acts ∧ flat bf acts = out ∧
      effs acts bf = bf.set id (cutBuf acc st (bf id) s)) ∧
  (cutGo acc st br nm s = none → actsAll (.cut id acc) (.cut st br nm) s = none)

/-- one step: the link yields `fl`, turns its buffer `buf` into `nb buf` and goes on in `st' br' nm'` -/
theorem cut_lift (id : Nat) (acc : Bool) (c : Ctl) (p : MItem) (s : MStream) (st' : RunSt) (br' : Bool)
    (nm' : List QName) (a : List Act) (fl : MStream) (nb : List MEv → List MEv)
    (hs : stepOp (.cut id acc) c p = some (.cut st' br' nm', a))
    (hfl : ∀ bf, flat bf a = fl) (he : ∀ bf, effs a bf = bf.set id (nb (bf id)))
    (ih : CutOk id acc st' br' nm' s) :
    (∀ (bf : BufF) (out : MStream), ((fl ++ ·) <$> cutGo acc st' br' nm' s) = some out →
      ∃ acts, actsAll (.cut id acc) c (p :: s) = some acts ∧ flat bf acts = out ∧
        effs acts bf = bf.set id (cutBuf acc st' (nb (bf id)) s)) ∧
    (cutGo acc st' br' nm' s = none → actsAll (.cut id acc) c (p :: s) = none) := by
  refine ⟨fun bf out ho => ?_, fun hn => by simp [actsAll, hs, ih.2 hn]⟩
  cases hc : cutGo acc st' br' nm' s with
  | none => simp [hc] at ho
  | some out' =>
    simp only [hc, Option.map_eq_map, Option.map_some, Option.some.injEq] at ho
    obtain ⟨acts', h1, h2, h3⟩ := ih.1 (bf.set id (nb (bf id))) out' hc
    refine ⟨a ++ acts', by simp [actsAll, hs, h1], ?_, ?_⟩
    · have hf : flat bf acts' = flat (bf.set id (nb (bf id))) acts' :=
        (flat_congr (w := [id]) (r := []) (actsAll_fp _ _ _ _ h1 |>.mono (by simp [wrOp]) (by simp [rdOp, readsOf]))
          (by simp)).symm
      rw [flat_append, hfl, hf, h2, ← ho]
    · rw [effs_append, he, h3, BufF.set_set, BufF.set_get]

theorem effs_cutSel (id : Nat) (acc broken : Bool) (x : MEv) (b : BufF) :
    effs (cutSel id acc broken x) b = b.set id ((if acc then b id else []) ++ [x]) := by
  cases acc <;> cases broken <;> simp [cutSel, effs, BufF.set_set, BufF.set_get]

theorem flat_cutSel (b : BufF) (id : Nat) (acc broken : Bool) (x : MEv) :
    flat b (cutSel id acc broken x) = if !acc && !broken then [brkItem] else [] := by
  cases acc <;> cases broken <;> rfl

theorem cut_acts (id : Nat) (acc : Bool) : ∀ (s : MStream) (st : RunSt) (br : Bool) (nm : List QName),
    CutOk id acc st br nm s
  | [], st, br, nm => by
    refine ⟨fun bf out ho => ?_, fun hn => by simp [cutGo] at hn⟩
    simp only [cutGo, Option.some.injEq] at ho
    refine ⟨if br then [] else [.out brkItem], by simp [actsAll, finOp], ?_, ?_⟩
    · rw [← ho]; cases br <;> rfl
    · cases br <;> simp [effs, cutBuf, BufF.set_self]
  | (m, x) :: s, st, br, nm => by
    cases st with
    | idle =>
      cases m with
      | none =>
        have := cut_lift id acc (.cut .idle br nm) (none, x) s .idle true nm [.out (none, x)] [(none, x)] (fun buf => buf)
          (by simp [stepOp, cutStep]) (fun _ => rfl) (fun bf => by simp [effs, BufF.set_self])
          (cut_acts id acc s .idle true nm)
        simpa [CutOk, cutGo, cutBuf] using this
      | some m =>
        have := cut_lift id acc (.cut .idle br nm) (some m, x) s (startSt m) false
          (if m = .attr then nm ++ attrNames x else nm) (cutSel id acc br x)
          (if !acc && !br then [brkItem] else []) (fun buf => (if acc then buf else []) ++ [x])
          (by simp [stepOp, cutStep]) (fun bf => flat_cutSel bf id acc br x) (fun bf => effs_cutSel id acc br x bf)
          (cut_acts id acc s _ _ _)
        simpa [CutOk, cutGo, cutBuf] using this
    | inEnter =>
      have := cut_lift id acc (.cut .inEnter br nm) (m, x) s (if m = some .exit then .idle else .inEnter) false nm
        [.app id x] [] (fun buf => buf ++ [x])
        (by simp [stepOp, cutStep]) (fun _ => rfl) (fun bf => by simp [effs])
        (cut_acts id acc s _ _ _)
      simpa [CutOk, cutGo, cutBuf] using this
    | inRun m0 =>
      by_cases he : m = some m0
      · have := cut_lift id acc (.cut (.inRun m0) br nm) (m, x) s (.inRun m0) false
          (if m0 = .attr && m = some .attr then nm ++ attrNames x else nm)
          [.app id x] [] (fun buf => buf ++ [x])
          (by simp [stepOp, cutStep, he]) (fun _ => rfl) (fun bf => by simp [effs])
          (cut_acts id acc s _ _ _)
        simpa [CutOk, cutGo, cutBuf, he] using this
      · by_cases hassert : (m0 = .attr && !x.isStart) = true
        · refine ⟨fun bf out ho => ?_, fun _ => by simp [actsAll, stepOp, cutStep, he, hassert]⟩
          simp [cutGo, he, hassert] at ho
        · cases m with
          | none =>
            have := cut_lift id acc (.cut (.inRun m0) br nm) (none, x) s .idle true
              (if m0 = .attr then [] else (if m0 = .attr && (none : Option Mark) = some .attr then nm ++ attrNames x else nm))
              [.out (none, if m0 = .attr then
                stripAttrs (if m0 = .attr && (none : Option Mark) = some .attr then nm ++ attrNames x else nm) x else x)]
              [(none, if m0 = .attr then
                stripAttrs (if m0 = .attr && (none : Option Mark) = some .attr then nm ++ attrNames x else nm) x else x)] (fun buf => buf)
              (by simp [stepOp, cutStep, hassert]) (fun _ => rfl) (fun bf => by simp [effs, BufF.set_self])
              (cut_acts id acc s _ _ _)
            simpa [CutOk, cutGo, cutBuf, hassert] using this
          | some m' =>
            have hne : ¬ m' = m0 := fun hc => he (by rw [hc])
            have := cut_lift id acc (.cut (.inRun m0) br nm) (some m', x) s (startSt m') false _
              (cutSel id acc false x) (if !acc && !false then [brkItem] else [])
              (fun buf => (if acc then buf else []) ++ [x])
              (by simp only [stepOp, cutStep, he, hassert]; simp [hne]; rfl)
              (fun bf => flat_cutSel bf id acc false x) (fun bf => effs_cutSel id acc false x bf)
              (cut_acts id acc s _ _ _)
            simpa [CutOk, cutGo, cutBuf, hassert, hne] using this

end Genshi.Tf

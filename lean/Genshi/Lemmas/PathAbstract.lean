/-
  GenericStrategy without positional predicates: the counters never influence
  what is reported, the matcher is a machine over lists of candidate positions
  (`aStep`).  Simulation `sim_abstract`.
-/
import Genshi.Lemmas.PathStream
import Genshi.Lemmas.PathSingle
namespace Genshi.Path
open Genshi

section
variable (ns : NsMap) (vs : Vars)

/-- queue entries of the abstract machine: position, "came from the parent's list" -/
abbrev AEntry := Nat × Bool

def pushDescA (N : List Nat) (x : Nat) : List Nat :=
  match N.getLast? with
  | some l => if l == x then N else N ++ [x]
  | none => [x]

def pushSelfA (q : List AEntry) (x1 : Nat) : List AEntry :=
  match q with
  | [] => [(x1, false)]
  | (x', fp) :: q' => if x' > x1 then (x1, false) :: q else (x', fp) :: q'

structure AAcc where
  nextPos : List Nat
  matched : Bool

/-- node test and predicates of a step at an event (no predicate is a position test) -/
def hitE (st : Step) (e : Event) : Bool :=
  st.test.matches e ns && st.preds.all fun p => (p.eval e ns vs).truthy

def aLoop (S : List Step) (rlen : Nat) (e : Event) : Nat → List AEntry → AAcc → AAcc
  | 0, _, acc => acc
  | _, [], acc => acc
  | fuel + 1, (x, fp) :: q, acc =>
    match S[x]? with
    | none => acc
    | some st =>
      let N := if isDescLike st.axis && fp then pushDescA acc.nextPos x else acc.nextPos
      if !hitE ns vs st e then aLoop S rlen e fuel q ⟨N, acc.matched⟩
      else if x + 1 == rlen then aLoop S rlen e fuel q ⟨N, true⟩
      else
        let nextAxis := (S[x + 1]?.map Step.axis).getD .child
        let q := if nextAxis == .descendantOrSelf || nextAxis == .self then pushSelfA q (x + 1) else q
        let N := if nextAxis != .self then N ++ [x + 1] else N
        aLoop S rlen e fuel q ⟨N, acc.matched⟩

abbrev AState := List (List Nat)

def aStep (S : List Step) (F : Nat) (st : AState) (e : Event) : AState × Val :=
  if e.isEnd then (st.drop 1, .none)
  else if e.isNsOrCdata then (st, .none)
  else
    let q : List AEntry := (st.headD []).map fun x => (x, true)
    let acc := aLoop ns vs S (realLen S) e (2 * F + q.length + 2) q ⟨[], false⟩
    (if e.isStart then acc.nextPos :: st else st, if acc.matched then .bool true else .none)

/-- no predicate of any step is a position test (in the model's terms) -/
def NoPositional (S : List Step) : Prop :=
  ∀ s ∈ S, ∀ p ∈ s.preds, ∀ e : Event, (p.eval e ns vs).isNum = false

theorem gPreds_nonpos (e : Event) (cous : List Nat) (preds : List Expr)
    (h : ∀ p ∈ preds, (p.eval e ns vs).isNum = false) :
    ∀ (cnum : Nat) (missed : List Nat) (store : Store),
      gPreds e ns vs cous preds cnum missed store = (preds.all (fun p => (p.eval e ns vs).truthy), store) := by
  induction preds with
  | nil => intro cnum missed store; rfl
  | cons p ps ih =>
    intro cnum missed store
    have hp := h p List.mem_cons_self
    have ih := ih (fun q hq => h q (List.mem_cons_of_mem _ hq))
    simp only [gPreds, List.all_cons]
    cases hv : p.eval e ns vs with
    | num x => rw [hv] at hp; simp [Val.isNum] at hp
    | _ => simp only [ih] <;> split <;> simp_all

theorem pushDesc_map (np : List GPos) (x : Nat) (pc : List Nat) :
    (pushDesc np x pc).map GPos.x = pushDescA (np.map GPos.x) x := by
  unfold pushDesc pushDescA
  rw [List.getLast?_map]
  cases hl : np.getLast? with
  | none => simp
  | some last =>
    simp only [Option.map_some]
    by_cases h : (last.x == x) = true
    · simp only [h, if_true, List.map_append, List.map_cons, List.map_nil]
      have hx : last.x = x := by simpa using h
      have hne : np ≠ [] := by intro h'; simp [h'] at hl
      have hl' : np.getLast hne = last := by
        have := List.getLast?_eq_some_getLast hne
        rw [this] at hl; exact Option.some.inj hl
      have h2 := congrArg (List.map GPos.x) (List.dropLast_concat_getLast hne)
      rw [List.map_append, hl'] at h2
      simpa [hx] using h2
    · rw [if_neg h, if_neg h]; simp

theorem pushDesc_cous (np : List GPos) (x : Nat) (pc : List Nat) (hpc : pc ≠ [])
    (h : ∀ p ∈ np, p.cous ≠ []) : ∀ p ∈ pushDesc np x pc, p.cous ≠ [] := by
  unfold pushDesc
  cases hl : np.getLast? with
  | none => intro p hp; simp at hp; subst hp; exact hpc
  | some last =>
    simp only
    split
    · intro p hp
      rcases List.mem_append.mp hp with h1 | h1
      · exact h p (List.dropLast_subset _ h1)
      · simp at h1; subst h1; simp [hpc]
    · intro p hp
      rcases List.mem_append.mp hp with h1 | h1
      · exact h p h1
      · simp at h1; subst h1; exact hpc

def qAbs (t : QEntry) : AEntry := (t.1, !t.2.1.isEmpty)

theorem pushSelf_map (q : List QEntry) (x1 cc : Nat) :
    (pushSelf q x1 cc).map qAbs = pushSelfA (q.map qAbs) x1 := by
  cases q with
  | nil => simp [pushSelf, pushSelfA, qAbs]
  | cons t q' =>
    obtain ⟨x', p', m'⟩ := t
    simp only [pushSelf, pushSelfA, List.map_cons, qAbs]
    split <;> simp [qAbs]

theorem pushDescA_mem (N : List Nat) (x y : Nat) : y ∈ pushDescA N x ↔ (y ∈ N ∨ y = x) := by
  unfold pushDescA
  cases hl : N.getLast? with
  | none =>
    have : N = [] := List.getLast?_eq_none_iff.mp hl
    subst this; simp
  | some l =>
    simp only
    by_cases h : (l == x) = true
    · simp only [h, if_true]
      have hlx : l = x := by simpa using h
      have hmem : x ∈ N := hlx ▸ List.mem_of_getLast? hl
      constructor
      · exact Or.inl
      · rintro (h1 | h1)
        · exact h1
        · exact h1 ▸ hmem
    · simp [h]

theorem pushSelf_fst (q : List QEntry) (x1 cc : Nat) (t : QEntry) (h : t ∈ pushSelf q x1 cc) :
    t.1 = x1 ∨ ∃ t' ∈ q, t'.1 = t.1 := by
  cases q with
  | nil => simp [pushSelf] at h; subst h; exact Or.inl rfl
  | cons t0 q' =>
    obtain ⟨x', p', m'⟩ := t0
    simp only [pushSelf] at h
    split at h
    · rcases List.mem_cons.mp h with h1 | h1
      · subst h1; exact Or.inl rfl
      · exact Or.inr ⟨t, h1, rfl⟩
    · rcases List.mem_cons.mp h with h1 | h1
      · subst h1; exact Or.inr ⟨(x', p', m'), List.mem_cons_self, rfl⟩
      · exact Or.inr ⟨t, List.mem_cons_of_mem _ h1, rfl⟩

/-- what GenericStrategy returns where the position machine says "matched": `True`, or the
    value of the final attribute step when there is one and it is not empty -/
def gate (m v : Val) : Val :=
  match v with
  | .bool true => if m.truthy then m else .none
  | _ => .none

/-- accumulators of the two loops: same positions below `rlen`, every position carries a
    counter, and the result is the gated `matched` flag -/
structure AccRel (rlen : Nat) (m : Val) (g : GAcc) (a : AAcc) : Prop where
  pos : g.nextPos.map GPos.x = a.nextPos
  cous : ∀ p ∈ g.nextPos, p.cous ≠ []
  bound : ∀ y ∈ a.nextPos, y < rlen
  ret : g.retval = if a.matched && m.truthy then m else .none

theorem getElem?_take_lt (S : List Step) (rlen x : Nat) (h : x < rlen) : (S.take rlen)[x]? = S[x]? := by
  simp [List.getElem?_take, h]

/-- the loop of GenericStrategy on steps without position tests runs like the loop of the
    position machine on the real steps (`steps[:rlen]`: without a final attribute step) -/
theorem gLoop_abstract (S : List Step) (rlen : Nat) (e : Event)
    (hnp : NoPositional ns vs (S.take rlen)) :
    ∀ (fuel : Nat) (Qg : List QEntry) (g : GAcc) (a : AAcc), (∀ t ∈ Qg, t.1 < rlen) →
      AccRel rlen (lastResult S e ns) g a →
      AccRel rlen (lastResult S e ns) (gLoop S rlen e ns vs fuel Qg g)
        (aLoop ns vs (S.take rlen) rlen e fuel (Qg.map qAbs) a) := by
  intro fuel
  induction fuel with
  | zero => intro Qg g a _ h; simpa [gLoop, aLoop] using h
  | succ fuel ih =>
    intro Qg g a hQ h
    cases Qg with
    | nil => simpa [gLoop, aLoop] using h
    | cons t q =>
      obtain ⟨x, pcou, mcou⟩ := t
      have hx : x < rlen := hQ (x, pcou, mcou) List.mem_cons_self
      have hq' : ∀ t ∈ q, t.1 < rlen := fun t ht => hQ t (List.mem_cons_of_mem _ ht)
      have htk := getElem?_take_lt S rlen x hx
      cases hst : S[x]? with
      | none => simpa [gLoop, aLoop, qAbs, hst, htk] using h
      | some st =>
        have hmem : st ∈ S.take rlen := List.mem_of_getElem? (htk.trans hst)
        have hpre := gPreds_nonpos ns vs e (pcou ++ mcou) st.preds (fun p hp => hnp st hmem p hp e)
        simp only [gLoop, aLoop, List.map_cons, qAbs, htk, hst, hpre, hitE]
        -- the next_pos after the descendant bookkeeping
        have hN : AccRel rlen (lastResult S e ns)
            ⟨(if isDescLike st.axis && !pcou.isEmpty then pushDesc g.nextPos x pcou else g.nextPos), g.store, g.retval⟩
            ⟨(if isDescLike st.axis && !pcou.isEmpty then pushDescA a.nextPos x else a.nextPos), a.matched⟩ := by
          refine ⟨?_, ?_, ?_, h.ret⟩
          · split
            · rw [pushDesc_map, h.pos]
            · exact h.pos
          · split
            · rename_i hc
              have : pcou ≠ [] := by
                intro h0; simp [h0] at hc
              exact pushDesc_cous _ _ _ this h.cous
            · exact h.cous
          · simp only
            split
            · intro y hy
              rcases (pushDescA_mem _ _ _).mp hy with h1 | h1
              · exact h.bound y h1
              · omega
            · exact h.bound
        by_cases ht : st.test.matches e ns = true
        · simp only [ht, Bool.not_true, Bool.false_eq_true, if_false, Bool.true_and]
          by_cases hp : (st.preds.all fun p => (p.eval e ns vs).truthy) = true
          · simp only [hp, Bool.not_true, Bool.false_eq_true, if_false]
            by_cases hl : (x + 1 == rlen) = true
            · simp only [hl, if_true]
              refine ih q _ _ hq' ⟨hN.pos, hN.cous, hN.bound, ?_⟩
              have hr := hN.ret
              simp only at hr ⊢
              cases hm : (lastResult S e ns).truthy with
              | true => simp
              | false => simp [hr, hm]
            · simp only [hl, Bool.false_eq_true, if_false]
              have hx1 : x + 1 < rlen := by
                have : x + 1 ≠ rlen := by simpa using hl
                omega
              rw [getElem?_take_lt S rlen (x + 1) hx1, ← pushSelf_map]
              have hq : (if ((S[x + 1]?.map Step.axis).getD .child == Axis.descendantOrSelf ||
                            (S[x + 1]?.map Step.axis).getD .child == Axis.self) = true
                          then (pushSelf q (x + 1) g.store.length).map qAbs else q.map qAbs)
                      = (if ((S[x + 1]?.map Step.axis).getD .child == Axis.descendantOrSelf ||
                            (S[x + 1]?.map Step.axis).getD .child == Axis.self) = true
                          then pushSelf q (x + 1) g.store.length else q).map qAbs := by
                split <;> rfl
              rw [hq]
              refine ih _ _ _ ?_ ⟨?_, ?_, ?_, hN.ret⟩
              · intro t ht'
                split at ht'
                · rcases pushSelf_fst q (x + 1) _ t ht' with h1 | ⟨t', ht1, ht2⟩
                  · omega
                  · rw [← ht2]; exact hq' t' ht1
                · exact hq' t ht'
              · split
                · rw [List.map_append, hN.pos]; rfl
                · exact hN.pos
              · split
                · intro p hp'
                  rcases List.mem_append.mp hp' with h1 | h1
                  · exact hN.cous p h1
                  · simp at h1; subst h1; simp
                · exact hN.cous
              · simp only
                split
                · intro y hy
                  rcases List.mem_append.mp hy with h1 | h1
                  · exact hN.bound y h1
                  · simp at h1; omega
                · exact hN.bound
          · simp only [hp, Bool.not_false, if_true]
            exact ih q _ _ hq' hN
        · simp only [ht, Bool.not_false, if_true, Bool.false_and]
          exact ih q _ _ hq' hN

/-- states of GenericStrategy and of the position machine: same positions (all below `rlen`),
    and every position carries at least one counter (which is what the code uses as "came
    from the parent") -/
structure StRel (rlen : Nat) (g : GState) (a : AState) : Prop where
  pos : g.stack.map (fun l => l.map GPos.x) = a
  cous : ∀ l ∈ g.stack, ∀ p ∈ l, p.cous ≠ []
  bound : ∀ l ∈ g.stack, ∀ p ∈ l, p.x < rlen

theorem gStep_abstract (S : List Step) (hrl : realLen (S.take (realLen S)) = realLen S)
    (hnp : NoPositional ns vs (S.take (realLen S)))
    (g : GState) (a : AState) (h : StRel (realLen S) g a) (e : Event) :
    StRel (realLen S) (gStep S ns vs g e).1 (aStep ns vs (S.take (realLen S)) S.length a e).1 ∧
    (gStep S ns vs g e).2 = gate (lastResult S e ns) (aStep ns vs (S.take (realLen S)) S.length a e).2 := by
  obtain ⟨hpos, hcous, hbound⟩ := h
  subst hpos
  unfold gStep aStep
  by_cases he : e.isEnd = true
  · simp only [he, if_true]
    refine ⟨⟨by simp [List.map_drop], ?_, ?_⟩, rfl⟩
    · intro l hl
      exact hcous l (List.mem_of_mem_drop hl)
    · intro l hl
      exact hbound l (List.mem_of_mem_drop hl)
  · simp only [he, Bool.false_eq_true, if_false]
    by_cases hm : e.isNsOrCdata = true
    · simp only [hm, if_true]
      exact ⟨⟨rfl, hcous, hbound⟩, rfl⟩
    · simp only [hm, Bool.false_eq_true, if_false]
      -- the top of the stack
      obtain ⟨top, htopdef, htop, htopb⟩ : ∃ top, g.stack.headD [] = top ∧ (∀ p ∈ top, p.cous ≠ []) ∧
          (∀ p ∈ top, p.x < realLen S) := by
        refine ⟨_, rfl, ?_, ?_⟩
        · cases hst : g.stack with
          | nil => intro p hp; simp at hp
          | cons l ls => intro p hp; exact hcous l (by simp [hst]) p (by simpa using hp)
        · cases hst : g.stack with
          | nil => intro p hp; simp at hp
          | cons l ls => intro p hp; exact hbound l (by simp [hst]) p (by simpa using hp)
      have h1 : (g.stack.map fun l => l.map GPos.x).headD [] = top.map GPos.x := by
        rw [← htopdef]; cases g.stack <;> simp
      rw [h1, htopdef, hrl]
      have hq : (top.map fun p => ((p.x, p.cous, []) : QEntry)).map qAbs
          = (top.map GPos.x).map fun x => ((x, true) : AEntry) := by
        rw [List.map_map, List.map_map]
        apply List.map_congr_left
        intro p hp
        have := htop p hp
        simp [qAbs, Function.comp, this]
      have hacc := gLoop_abstract ns vs S (realLen S) e hnp
        (2 * S.length + (top.map fun p => ((p.x, p.cous, []) : QEntry)).length + 2)
        (top.map fun p => ((p.x, p.cous, []) : QEntry)) ⟨[], g.store, .none⟩ ⟨[], false⟩
        (by intro t ht; simp only [List.mem_map] at ht; obtain ⟨p, hp, rfl⟩ := ht; exact htopb p hp)
        ⟨rfl, by simp, by simp, by simp⟩
      rw [hq] at hacc
      simp only [List.length_map] at hacc ⊢
      refine ⟨⟨?_, ?_, ?_⟩, ?_⟩
      · simp only
        split
        · rw [List.map_cons, hacc.pos]
        · rfl
      · simp only
        split
        · intro l hl
          rcases List.mem_cons.mp hl with h1 | h1
          · subst h1; exact hacc.cous
          · exact hcous l h1
        · exact hcous
      · simp only
        split
        · intro l hl
          rcases List.mem_cons.mp hl with h1 | h1
          · subst h1
            intro p hp
            have : p.x ∈ (aLoop ns vs (S.take (realLen S)) (realLen S) e (2 * S.length + top.length + 2)
                (List.map (fun x => (x, true)) (List.map GPos.x top)) ⟨[], false⟩).nextPos := by
              rw [← hacc.pos]; exact List.mem_map_of_mem hp
            exact hacc.bound _ this
          · exact hbound l h1
        · exact hbound
      · rw [hacc.ret]
        cases (aLoop ns vs (S.take (realLen S)) (realLen S) e (2 * S.length + top.length + 2)
            (List.map (fun x => (x, true)) (List.map GPos.x top)) ⟨[], false⟩).matched <;> simp [gate]

/-- related runs deliver related results -/
theorem runOne_rel {σ τ : Type} (f : σ → Event → σ × Val) (g : τ → Event → τ × Val) (R : σ → τ → Prop)
    (φ : Event → Val → Val)
    (h : ∀ s t e, R s t → R (f s e).1 (g t e).1 ∧ (f s e).2 = φ e (g t e).2) :
    ∀ (es : List Event) (s : σ) (t : τ), R s t →
      (runOne f s es).1 = List.zipWith φ es (runOne g t es).1 := by
  intro es
  induction es with
  | nil => intro s t _; rfl
  | cons e es ih =>
    intro s t hr
    obtain ⟨h1, h2⟩ := h s t e hr
    simp only [runOne, h2, ih _ _ h1, List.zipWith_cons_cons]

/-- without position tests GenericStrategy reports what the position machine reports on the
    steps before a final attribute step, gated by the value of that step -/
theorem generic_eq_abstract (S : List Step) (hrl : realLen (S.take (realLen S)) = realLen S)
    (hnp : NoPositional ns vs (S.take (realLen S))) (h0 : 0 < realLen S) (es : List Event) :
    (runOne (gStep S ns vs) gInit es).1
      = List.zipWith (fun e v => gate (lastResult S e ns) v) es
          (runOne (aStep ns vs (S.take (realLen S)) S.length) [[0]] es).1 :=
  runOne_rel _ _ (StRel (realLen S)) _ (fun s t e hr => gStep_abstract ns vs S hrl hnp s t hr e) es gInit [[0]]
    ⟨rfl, by simp [gInit], by simp [gInit, h0]⟩

theorem aStep_out (S : List Step) (F : Nat) (st : AState) (e : Event) :
    (aStep ns vs S F st e).2 = .none ∨ (aStep ns vs S F st e).2 = .bool true := by
  unfold aStep
  split
  · exact Or.inl rfl
  · split
    · exact Or.inl rfl
    · simp only
      split
      · exact Or.inr rfl
      · exact Or.inl rfl

theorem zipWith_gate_true (S : List Step) (F : Nat) : ∀ (es : List Event) (st : AState),
    List.zipWith (fun (_ : Event) v => gate (.bool true) v) es (runOne (aStep ns vs S F) st es).1
      = (runOne (aStep ns vs S F) st es).1 := by
  intro es
  induction es with
  | nil => intro st; rfl
  | cons e es ih =>
    intro st
    simp only [runOne, List.zipWith_cons_cons, ih]
    rcases aStep_out ns vs S F st e with h | h <;> simp [h, gate, Val.truthy]

end
end Genshi.Path

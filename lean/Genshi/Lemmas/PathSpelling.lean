/-
  C17 spelling lemmas: an always-true, non-positional predicate anywhere in the
  predicate list of a step does not change what the matchers report.
-/
import Genshi.Lemmas.PathStream
namespace Genshi.Path
open Genshi

section
variable (ns : NsMap) (vs : Vars)

/-- `t` is true at every event and is not a position test -/
def AlwaysTrue (t : Expr) : Prop := ∀ e : Event, t.eval e ns vs = .bool true

theorem gPreds_insert (t : Expr) (ht : AlwaysTrue ns vs t) (e : Event) (cous : List Nat) (pre post : List Expr) :
    ∀ (cnum : Nat) (missed : List Nat) (store : Store),
      gPreds e ns vs cous (pre ++ t :: post) cnum missed store = gPreds e ns vs cous (pre ++ post) cnum missed store := by
  induction pre with
  | nil => intro cnum missed store; simp [gPreds, ht e, Val.truthy]
  | cons p ps ih =>
    intro cnum missed store
    simp only [List.cons_append, gPreds]
    cases p.eval e ns vs <;> simp only [ih] <;> split <;> simp [ih]

theorem sPreds_insert (t : Expr) (ht : AlwaysTrue ns vs t) (e : Event) (pre post : List Expr) :
    ∀ (cnum : Nat) (cs : List Nat),
      sPreds e ns vs (pre ++ t :: post) cnum cs = sPreds e ns vs (pre ++ post) cnum cs := by
  induction pre with
  | nil => intro cnum cs; simp [sPreds, ht e, Val.truthy]
  | cons p ps ih =>
    intro cnum cs
    simp only [List.cons_append, sPreds]
    cases p.eval e ns vs <;> simp only [ih]

/-- two steps the matchers cannot tell apart -/
def StepEq (s s' : Step) : Prop :=
  s.axis = s'.axis ∧ s.test = s'.test ∧
  (∀ e cous cnum missed store, gPreds e ns vs cous s.preds cnum missed store = gPreds e ns vs cous s'.preds cnum missed store) ∧
  (∀ e cnum cs, sPreds e ns vs s.preds cnum cs = sPreds e ns vs s'.preds cnum cs)

theorem StepEq.refl (s : Step) : StepEq ns vs s s := ⟨rfl, rfl, fun _ _ _ _ _ => rfl, fun _ _ _ => rfl⟩

/-- pointwise related lists -/
inductive All2 {α : Type} (R : α → α → Prop) : List α → List α → Prop
  | nil : All2 R [] []
  | cons {a b : α} {l l' : List α} : R a b → All2 R l l' → All2 R (a :: l) (b :: l')

theorem All2.length_eq {α : Type} {R : α → α → Prop} {l l' : List α} (h : All2 R l l') : l.length = l'.length := by
  induction h with
  | nil => rfl
  | cons _ _ ih => simp [ih]

theorem forall2_getElem? {α : Type} {R : α → α → Prop} {l l' : List α} (h : All2 R l l') (x : Nat) :
    (l[x]? = none ∧ l'[x]? = none) ∨ ∃ a b, l[x]? = some a ∧ l'[x]? = some b ∧ R a b := by
  induction h generalizing x with
  | nil => left; simp
  | cons hab _ ih =>
    cases x with
    | zero => right; exact ⟨_, _, rfl, rfl, hab⟩
    | succ x => simpa using ih x

theorem forall2_getLast? {α : Type} {R : α → α → Prop} {l l' : List α} (h : All2 R l l') :
    (l.getLast? = none ∧ l'.getLast? = none) ∨ ∃ a b, l.getLast? = some a ∧ l'.getLast? = some b ∧ R a b := by
  induction h with
  | nil => left; simp
  | @cons a b l l' hab hl ih =>
    right
    cases hl with
    | nil => exact ⟨a, b, rfl, rfl, hab⟩
    | cons hab' hl' =>
      rcases ih with ⟨h1, _⟩ | ⟨x, y, h1, h2, hr⟩
      · simp at h1
      · refine ⟨x, y, ?_, ?_, hr⟩
        · rw [List.getLast?_cons_cons]; exact h1
        · rw [List.getLast?_cons_cons]; exact h2

theorem gLoop_congr (steps steps' : List Step) (h : All2 (StepEq ns vs) steps steps')
    (rlen : Nat) (e : Event) :
    ∀ (fuel : Nat) (q : List QEntry) (acc : GAcc),
      gLoop steps rlen e ns vs fuel q acc = gLoop steps' rlen e ns vs fuel q acc := by
  intro fuel
  induction fuel with
  | zero => intro q acc; simp [gLoop]
  | succ fuel ih =>
    intro q acc
    cases q with
    | nil => simp [gLoop]
    | cons en q =>
      obtain ⟨x, pcou, mcou⟩ := en
      simp only [gLoop]
      rcases forall2_getElem? h x with ⟨h1, h2⟩ | ⟨a, b, h1, h2, hax, htest, hg, _⟩
      · simp [h1, h2]
      · simp only [h1, h2, hax, htest, hg]
        have hnext : (steps[x + 1]?.map Step.axis) = (steps'[x + 1]?.map Step.axis) := by
          rcases forall2_getElem? h (x + 1) with ⟨h3, h4⟩ | ⟨a', b', h3, h4, hax', _⟩
          · simp [h3, h4]
          · simp [h3, h4, hax']
        have hlast : lastResult steps e ns = lastResult steps' e ns := by
          unfold lastResult
          rcases forall2_getLast? h with ⟨h3, h4⟩ | ⟨a', b', h3, h4, hax', htest', _⟩
          · simp [h3, h4]
          · simp [h3, h4, hax', htest']
        simp only [ih]
        rw [hlast, hnext]

theorem realLen_congr (steps steps' : List Step) (h : All2 (StepEq ns vs) steps steps') :
    realLen steps = realLen steps' := by
  unfold realLen
  rcases forall2_getLast? h with ⟨h3, h4⟩ | ⟨a', b', h3, h4, hax', _⟩
  · simp [h3, h4]
  · simp [h3, h4, hax', h.length_eq]

theorem gStep_congr (steps steps' : List Step) (h : All2 (StepEq ns vs) steps steps')
    (st : GState) (e : Event) : gStep steps ns vs st e = gStep steps' ns vs st e := by
  unfold gStep
  simp only [realLen_congr ns vs steps steps' h, h.length_eq, gLoop_congr ns vs steps steps' h]

theorem sStep_congr (steps steps' : List Step) (h : All2 (StepEq ns vs) steps steps') (ic : Bool)
    (st : SState) (e : Event) : sStep steps ic ns vs st e = sStep steps' ic ns vs st e := by
  unfold sStep
  have hh : (steps.head? = none ∧ steps'.head? = none) ∨
      ∃ a b, steps.head? = some a ∧ steps'.head? = some b ∧ StepEq ns vs a b := by
    cases h with
    | nil => left; simp
    | cons hab _ => right; exact ⟨_, _, rfl, rfl, hab⟩
  rcases hh with ⟨h1, h2⟩ | ⟨a, b, h1, h2, hax, htest, _, hs⟩
  · simp [h1, h2]
  · rcases forall2_getLast? h with ⟨h3, h4⟩ | ⟨a', b', h3, h4, hax', htest', _⟩
    · simp [h3, h4]
    · simp only [h1, h2, h3, h4, hax, htest, hs, hax', htest']

/-! ## `./p` and `p`: the first step is only consulted for the context node -/

/-- two step lists that differ at most in their first element, which has the same axis in both -/
def TailEq (steps steps' : List Step) : Prop :=
  ∃ a b rest, steps = a :: rest ∧ steps' = b :: rest ∧ a.axis = b.axis ∧ rest ≠ []

theorem TailEq.getElem_succ {steps steps' : List Step} (h : TailEq steps steps') (x : Nat) :
    steps[x + 1]? = steps'[x + 1]? := by
  obtain ⟨a, b, rest, rfl, rfl, _, _⟩ := h; simp

theorem TailEq.getLast {steps steps' : List Step} (h : TailEq steps steps') :
    steps.getLast? = steps'.getLast? := by
  obtain ⟨a, b, rest, rfl, rfl, _, hne⟩ := h
  cases rest with
  | nil => exact absurd rfl hne
  | cons c r => simp [List.getLast?_cons_cons]

theorem TailEq.length {steps steps' : List Step} (h : TailEq steps steps') : steps.length = steps'.length := by
  obtain ⟨a, b, rest, rfl, rfl, _, _⟩ := h; simp

theorem mem_of_mem_dropLast {α : Type} {a : α} : ∀ {l : List α}, a ∈ l.dropLast → a ∈ l
  | [], h => by simp at h
  | [_], h => by simp at h
  | x :: y :: zs, h => by
      rw [List.dropLast_cons_cons] at h
      rcases List.mem_cons.mp h with h1 | h1
      · exact h1 ▸ List.mem_cons_self
      · exact List.mem_cons_of_mem _ (mem_of_mem_dropLast h1)

def qPos (q : List QEntry) : Prop := ∀ en ∈ q, 1 ≤ en.1
def posPos (l : List GPos) : Prop := ∀ p ∈ l, 1 ≤ p.x

theorem pushDesc_pos (np : List GPos) (x : Nat) (pc : List Nat) (h : posPos np) (hx : 1 ≤ x) :
    posPos (pushDesc np x pc) := by
  unfold pushDesc
  cases hl : np.getLast? with
  | none => intro p hp; simp at hp; subst hp; exact hx
  | some last =>
    simp only
    split
    · intro p hp
      rcases List.mem_append.mp hp with h1 | h1
      · exact h p (mem_of_mem_dropLast h1)
      · simp at h1; subst h1; exact hx
    · intro p hp
      rcases List.mem_append.mp hp with h1 | h1
      · exact h p h1
      · simp at h1; subst h1; exact hx

theorem pushSelf_pos (q : List QEntry) (x cc : Nat) (h : qPos q) (hx : 1 ≤ x) : qPos (pushSelf q x cc) := by
  unfold pushSelf
  cases q with
  | nil => intro en hen; simp at hen; subst hen; exact hx
  | cons en q' =>
    obtain ⟨x', p', m'⟩ := en
    simp only
    split
    · intro en hen
      rcases List.mem_cons.mp hen with h1 | h1
      · subst h1; exact hx
      · exact h en h1
    · intro en hen
      rcases List.mem_cons.mp hen with h1 | h1
      · subst h1; exact h (x', p', m') List.mem_cons_self
      · exact h en (List.mem_cons_of_mem _ h1)

/-- with every queued position ≥ 1 the first step is never looked at -/
theorem gLoop_tail (steps steps' : List Step) (h : TailEq steps steps') (rlen : Nat) (e : Event) :
    ∀ (fuel : Nat) (q : List QEntry) (acc : GAcc), qPos q → posPos acc.nextPos →
      gLoop steps rlen e ns vs fuel q acc = gLoop steps' rlen e ns vs fuel q acc ∧
      posPos (gLoop steps rlen e ns vs fuel q acc).nextPos := by
  intro fuel
  induction fuel with
  | zero => intro q acc _ hp; simp [gLoop, hp]
  | succ fuel ih =>
    intro q acc hq hp
    cases q with
    | nil => simp [gLoop, hp]
    | cons en q =>
      obtain ⟨x, pcou, mcou⟩ := en
      have hx : 1 ≤ x := hq (x, pcou, mcou) List.mem_cons_self
      have hq' : qPos q := fun en hen => hq en (List.mem_cons_of_mem _ hen)
      obtain ⟨x0, rfl⟩ : ∃ x0, x = x0 + 1 := ⟨x - 1, by omega⟩
      have hlast : lastResult steps e ns = lastResult steps' e ns := by
        unfold lastResult; rw [h.getLast]
      simp only [gLoop, ← h.getElem_succ, hlast]
      cases hsx : steps[x0 + 1]? with
      | none => exact ⟨rfl, hp⟩
      | some st =>
        simp only
        have hnp : posPos (if (isDescLike st.axis && !pcou.isEmpty) = true
            then pushDesc acc.nextPos (x0 + 1) pcou else acc.nextPos) := by
          split
          · exact pushDesc_pos _ _ _ hp hx
          · exact hp
        split
        · exact ih q _ hq' hnp
        · split
          · exact ih q _ hq' hnp
          · split
            · exact ih q _ hq' hnp
            · refine ih _ _ ?_ ?_
              · split
                · exact pushSelf_pos q _ _ hq' (by omega)
                · exact hq'
              · simp only
                split
                · intro p hpm
                  rcases List.mem_append.mp hpm with h1 | h1
                  · exact hnp p h1
                  · simp at h1; subst h1; simp
                · exact hnp

/-- same state; the `d` topmost stack levels hold positions ≥ 1 only -/
def RTail (d : Nat) (g g' : GState) : Prop :=
  g = g' ∧ ∃ upper base, g.stack = upper ++ base ∧ upper.length = d ∧ ∀ l ∈ upper, posPos l

theorem sim_tail (steps steps' : List Step) (h : TailEq steps steps') :
    Sim (gStep steps ns vs) (gStep steps' ns vs) RTail 1 := by
  have key : ∀ d, 1 ≤ d → ∀ g g' e, e.isEnd = false → RTail d g g' →
      (gStep steps ns vs g e).2 = (gStep steps' ns vs g' e).2 ∧
      RTail (if e.isStart then d + 1 else d) (gStep steps ns vs g e).1 (gStep steps' ns vs g' e).1 := by
    intro d hd g g' e hend ⟨hgg, upper, base, hst, hlen, hpos⟩
    subst hgg
    by_cases hmk : e.isNsOrCdata = true
    · have hs : e.isStart = false := by cases e <;> simp_all [Event.isNsOrCdata, Event.isStart]
      simp only [gStep, hend, hmk, Bool.false_eq_true, if_false, if_true, hs]
      exact ⟨trivial, rfl, upper, base, hst, hlen, hpos⟩
    · cases upper with
      | nil => simp at hlen; omega
      | cons top up =>
        have htop : posPos top := hpos top List.mem_cons_self
        have hq : qPos (top.map fun p => (p.x, p.cous, ([] : List Nat))) := by
          intro en hen
          obtain ⟨p, hp, rfl⟩ := List.mem_map.mp hen
          exact htop p hp
        have hl := gLoop_tail ns vs steps steps' h (realLen steps) e
          (2 * steps.length + (top.map fun p => (p.x, p.cous, ([] : List Nat))).length + 2)
          (top.map fun p => (p.x, p.cous, [])) ⟨[], g.store, .none⟩ hq (by intro p hp; simp at hp)
        have hrl : realLen steps = realLen steps' := by unfold realLen; rw [h.getLast, h.length]
        simp only [gStep, hend, hmk, Bool.false_eq_true, if_false, hst, List.cons_append, List.headD_cons]
        rw [← hrl, ← h.length, ← hl.1]
        refine ⟨rfl, rfl, ?_⟩
        by_cases hs : e.isStart = true
        · simp only [hs, if_true]
          refine ⟨_ :: top :: up, base, rfl, by simp at hlen ⊢; omega, ?_⟩
          intro l hl'
          rcases List.mem_cons.mp hl' with h1 | h1
          · subst h1; exact hl.2
          · exact hpos l h1
        · simp only [hs, Bool.false_eq_true, if_false]
          exact ⟨top :: up, base, rfl, hlen, hpos⟩
  refine ⟨?_, ?_, ?_⟩
  · intro d hd g g' tag attrs hr
    simpa [Event.isStart] using key d hd g g' (.start tag attrs) rfl hr
  · intro d hd g g' tag ⟨hgg, upper, base, hst, hlen, hpos⟩
    subst hgg
    simp only [gStep, Event.isEnd, if_true]
    refine ⟨trivial, rfl, ?_⟩
    cases upper with
    | nil => simp at hlen
    | cons top up =>
      refine ⟨up, base, by simp [hst], by simpa using hlen, fun l hl => hpos l (List.mem_cons_of_mem _ hl)⟩
  · intro d hd g g' e he hr
    have hend : e.isEnd = false := by cases e <;> simp_all [Event.isStartEnd, Event.isEnd]
    have hs : e.isStart = false := by cases e <;> simp_all [Event.isStartEnd, Event.isStart]
    simpa [hs] using key d hd g g' e hend hr

def dot : Step := ⟨.self, .node, []⟩

theorem gLoop_nil' (steps : List Step) (rlen : Nat) (e : Event) (fuel : Nat)
    (acc : GAcc) : gLoop steps rlen e ns vs fuel [] acc = acc := by
  cases fuel <;> simp [gLoop]

/-- one iteration of the position loop for the context node under a bare `self::` step -/
theorem gStep_unroll (s0 : Step) (p : LocPath) (g : GState) (rest : List (List GPos))
    (hst : g.stack = [⟨0, [0]⟩] :: rest) (tag : QName) (attrs : AttrList)
    (hax : s0.axis = .self) (hpr : s0.preds = []) (hm : s0.test.matches (.start tag attrs) ns = true)
    (q : List QEntry) (np : List GPos)
    (hq : q = if ((p[0]?.map Step.axis).getD .child == .descendantOrSelf
                    || (p[0]?.map Step.axis).getD .child == .self) = true
               then pushSelf [] 1 g.store.length else [])
    (hnp : np = if ((p[0]?.map Step.axis).getD .child != .self) = true then [⟨1, [g.store.length]⟩] else []) :
    gStep (s0 :: p) ns vs g (.start tag attrs) =
      (if 0 + 1 == realLen (s0 :: p) then
         (⟨[] :: g.stack, g.store⟩,
           if (lastResult (s0 :: p) (.start tag attrs) ns).truthy then lastResult (s0 :: p) (.start tag attrs) ns
           else .none)
       else
         (⟨(gLoop (s0 :: p) (realLen (s0 :: p)) (.start tag attrs) ns vs (2 * (s0 :: p).length + 2) q
              ⟨np, g.store ++ [[]], .none⟩).nextPos :: g.stack,
           (gLoop (s0 :: p) (realLen (s0 :: p)) (.start tag attrs) ns vs (2 * (s0 :: p).length + 2) q
              ⟨np, g.store ++ [[]], .none⟩).store⟩,
          (gLoop (s0 :: p) (realLen (s0 :: p)) (.start tag attrs) ns vs (2 * (s0 :: p).length + 2) q
              ⟨np, g.store ++ [[]], .none⟩).retval)) := by
  have hfuel : 2 * (s0 :: p).length + (0 + 1) + 2 = (2 * (s0 :: p).length + 2) + 1 := by omega
  subst hq hnp
  unfold gStep
  simp only [Event.isEnd, Event.isNsOrCdata, Bool.false_eq_true, if_false, hst, List.headD_cons,
    List.map_cons, List.map_nil, List.length_cons (a := (0, [0], ([] : List Nat))), List.length_nil,
    Event.isStart, if_true]
  rw [hfuel]
  simp only [gLoop, List.getElem?_cons_zero, hax, hpr, hm, isDescLike, gPreds, Bool.not_true,
    Bool.false_eq_true, if_false, List.getElem?_cons_succ]
  split <;> simp [gLoop_nil']

/-- the context node: `self::node()` and `self::*` both accept its START event -/
theorem gStep_root_tail (p : LocPath) (hp : p ≠ []) (g : GState) (rest : List (List GPos))
    (hst : g.stack = [⟨0, [0]⟩] :: rest) (tag : QName) (attrs : AttrList) :
    gStep (dot :: p) ns vs g (.start tag attrs) = gStep (dotSlash :: p) ns vs g (.start tag attrs) ∧
    RTail 1 (gStep (dot :: p) ns vs g (.start tag attrs)).1 (gStep (dotSlash :: p) ns vs g (.start tag attrs)).1 := by
  have hte : TailEq (dot :: p) (dotSlash :: p) := ⟨dot, dotSlash, p, rfl, rfl, rfl, hp⟩
  have hrl : realLen (dot :: p) = realLen (dotSlash :: p) := by
    unfold realLen; rw [hte.getLast, hte.length]
  have hlast : ∀ e, lastResult (dot :: p) e ns = lastResult (dotSlash :: p) e ns := by
    intro e; unfold lastResult; rw [hte.getLast]
  obtain ⟨q, hq⟩ : ∃ q, q = if ((p[0]?.map Step.axis).getD .child == .descendantOrSelf
        || (p[0]?.map Step.axis).getD .child == .self) = true then pushSelf [] 1 g.store.length else [] := ⟨_, rfl⟩
  obtain ⟨np, hnp⟩ : ∃ np : List GPos, np = if ((p[0]?.map Step.axis).getD .child != .self) = true
        then [⟨1, [g.store.length]⟩] else [] := ⟨_, rfl⟩
  have hqpos : qPos q := by
    rw [hq]; split
    · exact pushSelf_pos [] 1 _ (by intro en hen; simp at hen) (Nat.le_refl _)
    · intro en hen; simp at hen
  have hnppos : posPos np := by
    rw [hnp]; split
    · intro x hx; simp at hx; subst hx; simp
    · intro x hx; simp at hx
  rw [gStep_unroll ns vs dot p g rest hst tag attrs rfl rfl
        (by simp [dot, NodeTest.matches, NodeTest.apply, Val.truthy]) q np hq hnp,
      gStep_unroll ns vs dotSlash p g rest hst tag attrs rfl rfl
        (by simp [dotSlash, NodeTest.matches, NodeTest.apply, Val.truthy]) q np hq hnp]
  have hl := gLoop_tail ns vs (dot :: p) (dotSlash :: p) hte (realLen (dot :: p)) (.start tag attrs)
    (2 * (dot :: p).length + 2) q ⟨np, g.store ++ [[]], .none⟩ hqpos hnppos
  simp only [← hrl, hlast, ← hte.length]
  by_cases hr : (0 + 1 == realLen (dot :: p)) = true
  · simp only [hr, if_true]
    refine ⟨trivial, rfl, [[]], g.stack, rfl, rfl, ?_⟩
    intro l hl'; simp at hl'; subst hl'; intro x hx; simp at hx
  · simp only [hr, Bool.false_eq_true, if_false, ← hl.1]
    refine ⟨trivial, rfl, [_], g.stack, rfl, rfl, ?_⟩
    intro l hl'; simp at hl'; subst hl'; exact hl.2

end
end Genshi.Path

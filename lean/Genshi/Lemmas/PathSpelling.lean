/-
  C17 spelling lemmas: an always-true, non-positional predicate anywhere in the
  predicate list of a step does not change what the matchers report.
-/
import Genshi.Lemmas.PathStream
namespace Genshi.Path
open Genshi

section
variable (ns : NsMap) (vs : Vars)

/-- `t` is true at every event and is not a position test -/
def AlwaysTrue (t : Expr) : Prop := ∀ e : Event, t.eval e ns vs = .bool true

theorem gPreds_insert (t : Expr) (ht : AlwaysTrue ns vs t) (e : Event) (cous : List Nat) (pre post : List Expr) :
    ∀ (cnum : Nat) (missed : List Nat) (store : Store),
      gPreds e ns vs cous (pre ++ t :: post) cnum missed store = gPreds e ns vs cous (pre ++ post) cnum missed store := by
  induction pre with
  | nil => intro cnum missed store; simp [gPreds, ht e, Val.truthy]
  | cons p ps ih =>
    intro cnum missed store
    simp only [List.cons_append, gPreds]
    cases p.eval e ns vs <;> simp only [ih] <;> split <;> simp [ih]

theorem sPreds_insert (t : Expr) (ht : AlwaysTrue ns vs t) (e : Event) (pre post : List Expr) :
    ∀ (cnum : Nat) (cs : List Nat),
      sPreds e ns vs (pre ++ t :: post) cnum cs = sPreds e ns vs (pre ++ post) cnum cs := by
  induction pre with
  | nil => intro cnum cs; simp [sPreds, ht e, Val.truthy]
  | cons p ps ih =>
    intro cnum cs
    simp only [List.cons_append, sPreds]
    cases p.eval e ns vs <;> simp only [ih]

/-- two steps the matchers cannot tell apart -/
def StepEq (s s' : Step) : Prop :=
  s.axis = s'.axis ∧ s.test = s'.test ∧
  (∀ e cous cnum missed store, gPreds e ns vs cous s.preds cnum missed store = gPreds e ns vs cous s'.preds cnum missed store) ∧
  (∀ e cnum cs, sPreds e ns vs s.preds cnum cs = sPreds e ns vs s'.preds cnum cs)

theorem StepEq.refl (s : Step) : StepEq ns vs s s := ⟨rfl, rfl, fun _ _ _ _ _ => rfl, fun _ _ _ => rfl⟩

/-- pointwise related lists -/
inductive All2 {α : Type} (R : α → α → Prop) : List α → List α → Prop
  | nil : All2 R [] []
  | cons {a b : α} {l l' : List α} : R a b → All2 R l l' → All2 R (a :: l) (b :: l')

theorem All2.length_eq {α : Type} {R : α → α → Prop} {l l' : List α} (h : All2 R l l') : l.length = l'.length := by
  induction h with
  | nil => rfl
  | cons _ _ ih => simp [ih]

theorem forall2_getElem? {α : Type} {R : α → α → Prop} {l l' : List α} (h : All2 R l l') (x : Nat) :
    (l[x]? = none ∧ l'[x]? = none) ∨ ∃ a b, l[x]? = some a ∧ l'[x]? = some b ∧ R a b := by
  induction h generalizing x with
  | nil => left; simp
  | cons hab _ ih =>
    cases x with
    | zero => right; exact ⟨_, _, rfl, rfl, hab⟩
    | succ x => simpa using ih x

theorem forall2_getLast? {α : Type} {R : α → α → Prop} {l l' : List α} (h : All2 R l l') :
    (l.getLast? = none ∧ l'.getLast? = none) ∨ ∃ a b, l.getLast? = some a ∧ l'.getLast? = some b ∧ R a b := by
  induction h with
  | nil => left; simp
  | @cons a b l l' hab hl ih =>
    right
    cases hl with
    | nil => exact ⟨a, b, rfl, rfl, hab⟩
    | cons hab' hl' =>
      rcases ih with ⟨h1, _⟩ | ⟨x, y, h1, h2, hr⟩
      · simp at h1
      · refine ⟨x, y, ?_, ?_, hr⟩
        · rw [List.getLast?_cons_cons]; exact h1
        · rw [List.getLast?_cons_cons]; exact h2

theorem gLoop_congr (steps steps' : List Step) (h : All2 (StepEq ns vs) steps steps')
    (rlen : Nat) (e : Event) :
    ∀ (fuel : Nat) (q : List QEntry) (acc : GAcc),
      gLoop steps rlen e ns vs fuel q acc = gLoop steps' rlen e ns vs fuel q acc := by
  intro fuel
  induction fuel with
  | zero => intro q acc; simp [gLoop]
  | succ fuel ih =>
    intro q acc
    cases q with
    | nil => simp [gLoop]
    | cons en q =>
      obtain ⟨x, pcou, mcou⟩ := en
      simp only [gLoop]
      rcases forall2_getElem? h x with ⟨h1, h2⟩ | ⟨a, b, h1, h2, hax, htest, hg, _⟩
      · simp [h1, h2]
      · simp only [h1, h2, hax, htest, hg]
        have hnext : (steps[x + 1]?.map Step.axis) = (steps'[x + 1]?.map Step.axis) := by
          rcases forall2_getElem? h (x + 1) with ⟨h3, h4⟩ | ⟨a', b', h3, h4, hax', _⟩
          · simp [h3, h4]
          · simp [h3, h4, hax']
        have hlast : lastResult steps e ns = lastResult steps' e ns := by
          unfold lastResult
          rcases forall2_getLast? h with ⟨h3, h4⟩ | ⟨a', b', h3, h4, hax', htest', _⟩
          · simp [h3, h4]
          · simp [h3, h4, hax', htest']
        simp only [ih]
        rw [hlast, hnext]

theorem realLen_congr (steps steps' : List Step) (h : All2 (StepEq ns vs) steps steps') :
    realLen steps = realLen steps' := by
  unfold realLen
  rcases forall2_getLast? h with ⟨h3, h4⟩ | ⟨a', b', h3, h4, hax', _⟩
  · simp [h3, h4]
  · simp [h3, h4, hax', h.length_eq]

theorem gStep_congr (steps steps' : List Step) (h : All2 (StepEq ns vs) steps steps')
    (st : GState) (e : Event) : gStep steps ns vs st e = gStep steps' ns vs st e := by
  unfold gStep
  simp only [realLen_congr ns vs steps steps' h, h.length_eq, gLoop_congr ns vs steps steps' h]

theorem sStep_congr (steps steps' : List Step) (h : All2 (StepEq ns vs) steps steps') (ic : Bool)
    (st : SState) (e : Event) : sStep steps ic ns vs st e = sStep steps' ic ns vs st e := by
  unfold sStep
  have hh : (steps.head? = none ∧ steps'.head? = none) ∨
      ∃ a b, steps.head? = some a ∧ steps'.head? = some b ∧ StepEq ns vs a b := by
    cases h with
    | nil => left; simp
    | cons hab _ => right; exact ⟨_, _, rfl, rfl, hab⟩
  rcases hh with ⟨h1, h2⟩ | ⟨a, b, h1, h2, hax, htest, _, hs⟩
  · simp [h1, h2]
  · rcases forall2_getLast? h with ⟨h3, h4⟩ | ⟨a', b', h3, h4, hax', htest', _⟩
    · simp [h3, h4]
    · simp only [h1, h2, h3, h4, hax, htest, hs, hax', htest']

end
end Genshi.Path

/-
  C07 — facts about the real environment `realEnv` (`Genshi/Model/ParseEnv.lean`): `stripentities`
  (work package `san`'s model and its totality theorem, imported read-only) never raises, hence the
  hypothesis about `strip` in the layer theorems is discharged.
-/
import Genshi.Model.ParseEnv
import Genshi.Lemmas.SanTotal
import Genshi.Lemmas.ParseHtml
namespace Genshi.Parse
open Genshi

/-- `stripentities` never raises (san: `stripentities_ok`) -/
theorem stripReal_total (v : Str) : ∃ r, stripReal v = .ok r := by
  obtain ⟨r, hr⟩ := Genshi.San.stripentities_ok v
  exact ⟨r, by simp [stripReal, hr]⟩

theorem stripReal_noBase (v : Str) (e : PyExc) (h : stripReal v = .error e) : e.isBase = false := by
  obtain ⟨r, hr⟩ := stripReal_total v
  rw [hr] at h
  cases h

/-- `fixAttrs` in the real environment cannot fail -/
theorem fixAttrs_real_ok : ∀ (attrs : List (Str × Option Str)), ∃ r, fixAttrs realEnv attrs = .ok r
  | [] => ⟨[], rfl⟩
  | (n, v) :: rest => by
    obtain ⟨r, hr⟩ := stripReal_total (v.getD n)
    obtain ⟨rs, hrs⟩ := fixAttrs_real_ok rest
    refine ⟨(mkQName n, r) :: rs, ?_⟩
    simp only [fixAttrs, realEnv] at hrs ⊢
    simp only [hr, hrs]

end Genshi.Parse

/-
  Helper lemmas for C09: what `WhitespaceFilter` does apart from normalising
  white space (merging adjacent text, pre-escaping it, wrapping it in Markup,
  marking script/CDATA text raw) is unobservable in the serializer's output.
-/
import Genshi.Model.OutputPipeline
import Genshi.Lemmas.Output
namespace Genshi.Output
open Genshi Genshi.Escape

/-- the filter that only merges: no white-space normalisation at all -/
def idNorm (_ : Bool) (x : Str) : Str := x

/-- what a buffered piece of text will be written as -/
def pieceOut (p : Str × Bool) : Str := if p.2 then p.1 else escapePy false p.1

def bufOut (tb : List (Str × Bool)) : Str := tb.flatMap pieceOut

/-- flattener (no cache) then main loop (no cache) then `''.join` -/
def tailOut (m : Method) (o : Opts) (fst : FlatSt) (lst : LoopSt) (es : List QEv) : Option Str :=
  (flatten false fst es).map fun fs => (loop m o false lst fs).flatten

/-- the filter and the main loop agree on whether text is written raw -/
structure WsInv (m : Method) (wst : WsSt) (lst : LoopSt) : Prop where
  raw_eq : lst.raw = (wst.noescape || wst.inCdata)
  html_cd : m = .html → wst.inCdata = false
  xml_ne : m ≠ .html → wst.noescape = false

/-- hypothesis for html: the filter decides "script/style" on the qualified name, the main loop
    on the flattened one; they agree on the HTML vocabulary (no namespace, or XHTML) -/
def NoescapeAgree (m : Method) (ev : QEv) : Prop :=
  match ev with
  | .start t _ => m = .html → qInTable (noescapeElems .html) t = inTable (noescapeElems .html) t.loc
  | _ => True

theorem tailOut_nil (m : Method) (o : Opts) (fst : FlatSt) (lst : LoopSt) :
    tailOut m o fst lst [] = some [] := by simp [tailOut, flatten, loop]

theorem loop_append (m : Method) (o : Opts) (c : Bool) (a b : List FEv) :
    ∀ st : LoopSt, loop m o c st (a ++ b) =
      loop m o c st a ++ loop m o c (a.foldl (fun s e => (step m o c s e).1) st) b := by
  induction a with
  | nil => intro st; simp [loop]
  | cons e es ih => intro st; simp [loop, ih]

/-- a text event in front: the flattener passes it on, the loop writes it without changing state -/
theorem tailOut_text (m : Method) (o : Opts) (fst : FlatSt) (lst : LoopSt) (s : Str) (safe : Bool)
    (rest : List QEv) :
    tailOut m o fst lst (.text s safe :: rest) =
      (tailOut m o fst lst rest).map
        ((if safe then s else if lst.raw then s else escapePy false s) ++ ·) := by
  simp only [tailOut, flatten, flatStep]
  cases hf : flatten false fst rest with
  | none => simp
  | some fs =>
    simp only [Option.map_some, List.singleton_append, loop]
    cases safe
    · by_cases hr : lst.raw = true
      · simp [step, hr]
      · simp [step, hr, miss, store]
    · simp [step]

/-- the state of the main loop after the events the flattener passes on for one event -/
def loopAfter (m : Method) (o : Opts) (lst : LoopSt) (fs : List FEv) : LoopSt :=
  fs.foldl (fun s e => (step m o false s e).1) lst

theorem tailOut_cons (m : Method) (o : Opts) (fst : FlatSt) (lst : LoopSt) (ev : QEv) (rest : List QEv) :
    tailOut m o fst lst (ev :: rest) =
      match flatStep false fst ev with
      | none => none
      | some r =>
          (tailOut m o r.1 (loopAfter m o lst r.2) rest).map ((loop m o false lst r.2).flatten ++ ·) := by
  simp only [tailOut, flatten]
  cases hs : flatStep false fst ev with
  | none => simp
  | some r =>
    simp only
    cases hf : flatten false r.1 rest with
    | none => simp
    | some fs => simp [loop_append, loopAfter]

/-- what the flattener (no cache) passes on for one event, as far as the main loop's raw flag cares -/
theorem flatStep_shape (fst : FlatSt) (ev : QEv) (r : FlatSt × List FEv) (h : flatStep false fst ev = some r) :
    match ev with
    | .start t _ => ∃ fa, r.2 = [.start t.loc fa]
    | .empty t _ => ∃ fa, r.2 = [.empty t.loc fa]
    | .end_ _ => ∃ x, r.2 = [.end_ x]
    | .text s f => r.2 = [.text s f]
    | .comment s => r.2 = [.comment s]
    | .pi t d => r.2 = [.pi t d]
    | .doctype n p q => r.2 = [.doctype n p q]
    | .xmlDecl v e q => r.2 = [.xmlDecl v e q]
    | .startNs _ _ => r.2 = []
    | .endNs _ => r.2 = []
    | .startCdata => r.2 = [.startCdata]
    | .endCdata => r.2 = [.endCdata] := by
  cases ev with
  | start t a =>
    simp only [flatStep, Bool.false_and, Bool.false_eq_true, ↓reduceIte, flatStartMiss] at h
    cases hc : flatStartCore fst.bindings fst.pending t a with
    | none => simp [hc] at h
    | some x =>
      obtain ⟨d, tn, fa⟩ := x
      simp only [hc, Option.some.injEq] at h
      have htn : tn = t.loc := by
        unfold flatStartCore at hc
        cases h1 : flatD1 fst.bindings fst.pending with
        | none => simp [h1] at hc
        | some d1 =>
          simp only [h1] at hc
          cases h2 : flatD2 (d1 ++ fst.bindings) d1 t with
          | none => simp [h2] at hc
          | some d2 =>
            simp only [h2] at hc
            cases h3 : flatAttrs a with
            | none => simp [h3] at hc
            | some na => simp only [h3, Option.some.injEq, Prod.mk.injEq] at hc; exact hc.2.1.symm
      subst h; exact ⟨fa, by simp [htn]⟩
  | empty t a =>
    simp only [flatStep, Bool.false_and, Bool.false_eq_true, ↓reduceIte, flatEmptyMiss] at h
    cases hc : flatStartCore fst.bindings fst.pending t a with
    | none => simp [hc] at h
    | some x =>
      obtain ⟨d, tn, fa⟩ := x
      simp only [hc, Option.some.injEq] at h
      have htn : tn = t.loc := by
        unfold flatStartCore at hc
        cases h1 : flatD1 fst.bindings fst.pending with
        | none => simp [h1] at hc
        | some d1 =>
          simp only [h1] at hc
          cases h2 : flatD2 (d1 ++ fst.bindings) d1 t with
          | none => simp [h2] at hc
          | some d2 =>
            simp only [h2] at hc
            cases h3 : flatAttrs a with
            | none => simp [h3] at hc
            | some na => simp only [h3, Option.some.injEq, Prod.mk.injEq] at hc; exact hc.2.1.symm
      subst h; exact ⟨fa, by simp [htn]⟩
  | end_ t =>
    simp only [flatStep] at h
    cases he : fst.elems with
    | nil =>
      by_cases hx : t.ns = xmlNs
      · simp [he, hx] at h
      · simp [he, hx] at h; subst h; exact ⟨_, rfl⟩
    | cons x rest => obtain ⟨tn, c⟩ := x; simp [he] at h; subst h; exact ⟨_, rfl⟩
  | text s f => simp [flatStep] at h; subst h; rfl
  | comment s => simp [flatStep] at h; subst h; rfl
  | pi t d => simp [flatStep] at h; subst h; rfl
  | doctype n p q => simp [flatStep] at h; subst h; rfl
  | xmlDecl v e q => simp [flatStep] at h; subst h; rfl
  | startNs p u =>
    by_cases hp : p.isEmpty = true
    · simp [flatStep, hp] at h; subst h; rfl
    · simp [flatStep, hp] at h
  | endNs p =>
    by_cases hp : p.isEmpty = true
    · simp [flatStep, hp] at h; subst h; rfl
    · simp [flatStep, hp] at h; subst h; rfl
  | startCdata => simp [flatStep] at h; subst h; rfl
  | endCdata => simp [flatStep] at h; subst h; rfl

theorem loopAfter_single_raw (m : Method) (o : Opts) (lst : LoopSt) (e : FEv) :
    (loopAfter m o lst [e]).raw = (ctxAfter m o (ctxOf lst) e).raw := by
  have := (step_nocache m o lst e).2.1
  simp only [loopAfter, List.foldl_cons, List.foldl_nil]
  have h2 : (ctxOf (step m o false lst e).1).raw = (step m o false lst e).1.raw := rfl
  rw [← h2, this]

theorem wsCfg_facts (m : Method) :
    (m ≠ .html → (wsCfg m).noescape = [] ∧ (wsCfg m).cdata = true) ∧
    ((wsCfg .html).noescape = noescapeElems .html ∧ (wsCfg .html).cdata = false) := by
  refine ⟨fun h => ?_, rfl, rfl⟩
  cases m <;> simp_all [wsCfg]

theorem wsUpdate_start_flags (cfg : WsCfg) (wst : WsSt) (t : QName) (a : AttrList) :
    (wsUpdate cfg wst (.start t a)).noescape = (wst.noescape || qInTable cfg.noescape t) ∧
    (wsUpdate cfg wst (.start t a)).inCdata = wst.inCdata := by
  simp only [wsUpdate]
  by_cases hp : (wst.preserve != 0 || qInTable cfg.preserve t || attrGet a xmlSpaceQ == some preserveLit) = true
  · by_cases hn : wst.noescape = true <;> by_cases hq : qInTable cfg.noescape t = true <;> simp [hp, hn, hq]
  · by_cases hn : wst.noescape = true <;> by_cases hq : qInTable cfg.noescape t = true <;> simp [hp, hn, hq]

/-- the agreement is kept by every event that is not text -/
theorem wsInv_step (m : Method) (o : Opts) (wst : WsSt) (fst : FlatSt) (lst : LoopSt) (ev : QEv)
    (r : FlatSt × List FEv) (hinv : WsInv m wst lst) (hag : NoescapeAgree m ev)
    (hr : flatStep false fst ev = some r) :
    WsInv m (wsUpdate (wsCfg m) { wst with textbuf := [] } ev) (loopAfter m o lst r.2) := by
  have hshape := flatStep_shape fst ev r hr
  obtain ⟨hraw, hcd, hne⟩ := hinv
  cases ev with
  | start t a =>
    obtain ⟨fa, hfa⟩ := hshape
    rw [hfa]
    have hfl := wsUpdate_start_flags (wsCfg m) { wst with textbuf := [] } t a
    cases m with
    | html =>
      have hicd := hcd rfl
      have hag' := hag rfl
      refine ⟨?_, fun _ => by rw [hfl.2]; exact hicd, fun h => absurd rfl h⟩
      rw [loopAfter_single_raw, hfl.1, hfl.2]
      simp only [ctxAfter, ctxOf, wsCfg, ← hag']
      cases hq : qInTable (noescapeElems .html) t <;> cases hn : wst.noescape <;> simp [hraw, hn, hicd]
    | xml =>
      have hn0 := hne (by simp)
      refine ⟨?_, (fun h => nomatch h), fun _ => by rw [hfl.1]; simp [wsCfg, qInTable, hn0]⟩
      rw [loopAfter_single_raw, hfl.1, hfl.2]
      simp [ctxAfter, ctxOf, wsCfg, qInTable, hraw, hn0]
    | xhtml =>
      have hn0 := hne (by simp)
      refine ⟨?_, (fun h => nomatch h), fun _ => by rw [hfl.1]; simp [wsCfg, qInTable, hn0]⟩
      rw [loopAfter_single_raw, hfl.1, hfl.2]
      simp [ctxAfter, ctxOf, wsCfg, qInTable, hraw, hn0]
  | empty t a =>
    obtain ⟨fa, hfa⟩ := hshape
    rw [hfa]
    refine ⟨?_, fun h => by simpa [wsUpdate] using hcd h, fun h => by simpa [wsUpdate] using hne h⟩
    rw [loopAfter_single_raw]; simp [ctxAfter, ctxOf, wsUpdate, hraw]
  | end_ t =>
    obtain ⟨x, hx⟩ := hshape
    rw [hx]
    cases m with
    | html =>
      have hicd := hcd rfl
      refine ⟨?_, fun _ => by simp [wsUpdate, hicd], fun h => absurd rfl h⟩
      rw [loopAfter_single_raw]; simp [ctxAfter, ctxOf, wsUpdate, hicd]
    | xml =>
      refine ⟨?_, (fun h => nomatch h), fun _ => by simp [wsUpdate]⟩
      rw [loopAfter_single_raw]; simp [ctxAfter, ctxOf, wsUpdate, hraw, hne (by simp)]
    | xhtml =>
      refine ⟨?_, (fun h => nomatch h), fun _ => by simp [wsUpdate]⟩
      rw [loopAfter_single_raw]; simp [ctxAfter, ctxOf, wsUpdate, hraw, hne (by simp)]
  | text s f =>
    rw [hshape]
    refine ⟨?_, fun h => by simpa [wsUpdate] using hcd h, fun h => by simpa [wsUpdate] using hne h⟩
    rw [loopAfter_single_raw]; simp [ctxAfter, ctxOf, wsUpdate, hraw]
  | comment s =>
    rw [hshape]
    refine ⟨?_, fun h => by simpa [wsUpdate] using hcd h, fun h => by simpa [wsUpdate] using hne h⟩
    rw [loopAfter_single_raw]; simp [ctxAfter, ctxOf, wsUpdate, hraw]
  | pi t d =>
    rw [hshape]
    refine ⟨?_, fun h => by simpa [wsUpdate] using hcd h, fun h => by simpa [wsUpdate] using hne h⟩
    rw [loopAfter_single_raw]; simp [ctxAfter, ctxOf, wsUpdate, hraw]
  | doctype n p q =>
    rw [hshape]
    refine ⟨?_, fun h => by simpa [wsUpdate] using hcd h, fun h => by simpa [wsUpdate] using hne h⟩
    rw [loopAfter_single_raw]; simp [ctxAfter, ctxOf, wsUpdate, hraw]
  | xmlDecl v e q =>
    rw [hshape]
    refine ⟨?_, fun h => by simpa [wsUpdate] using hcd h, fun h => by simpa [wsUpdate] using hne h⟩
    rw [loopAfter_single_raw]
    simp only [ctxAfter, ctxOf, wsUpdate]
    split <;> simp [hraw]
  | startNs p u =>
    rw [hshape]
    exact ⟨by simpa [loopAfter, wsUpdate] using hraw, fun h => by simpa [wsUpdate] using hcd h,
      fun h => by simpa [wsUpdate] using hne h⟩
  | endNs p =>
    rw [hshape]
    exact ⟨by simpa [loopAfter, wsUpdate] using hraw, fun h => by simpa [wsUpdate] using hcd h,
      fun h => by simpa [wsUpdate] using hne h⟩
  | startCdata =>
    rw [hshape]
    cases m with
    | html =>
      refine ⟨?_, fun _ => by simp [wsUpdate, wsCfg], fun h => absurd rfl h⟩
      rw [loopAfter_single_raw]; simp [ctxAfter, ctxOf, wsUpdate, wsCfg, hraw, hcd rfl]
    | xml =>
      refine ⟨?_, (fun h => nomatch h), fun _ => by simpa [wsUpdate] using hne (by simp)⟩
      rw [loopAfter_single_raw]; simp [ctxAfter, ctxOf, wsUpdate, wsCfg]
    | xhtml =>
      refine ⟨?_, (fun h => nomatch h), fun _ => by simpa [wsUpdate] using hne (by simp)⟩
      rw [loopAfter_single_raw]; simp [ctxAfter, ctxOf, wsUpdate, wsCfg]
  | endCdata =>
    rw [hshape]
    cases m with
    | html =>
      refine ⟨?_, fun _ => by simp [wsUpdate], fun h => absurd rfl h⟩
      rw [loopAfter_single_raw]; simp [ctxAfter, ctxOf, wsUpdate, hraw, hcd rfl]
    | xml =>
      refine ⟨?_, (fun h => nomatch h), fun _ => by simpa [wsUpdate] using hne (by simp)⟩
      rw [loopAfter_single_raw]; simp [ctxAfter, ctxOf, wsUpdate, hne (by simp)]
    | xhtml =>
      refine ⟨?_, (fun h => nomatch h), fun _ => by simpa [wsUpdate] using hne (by simp)⟩
      rw [loopAfter_single_raw]; simp [ctxAfter, ctxOf, wsUpdate, hne (by simp)]

theorem wsUpdate_textbuf (cfg : WsCfg) (st : WsSt) (ev : QEv) :
    (wsUpdate cfg st ev).textbuf = st.textbuf := by
  cases ev <;> simp [wsUpdate]
  split <;> (split <;> rfl)

/-- the flushed buffer in front: one Markup text, written as it is -/
theorem tailOut_flush (m : Method) (o : Opts) (fst : FlatSt) (lst : LoopSt) (wst : WsSt) (X : List QEv) :
    tailOut m o fst lst (wsFlushG idNorm wst ++ X) =
      (tailOut m o fst lst X).map (bufOut wst.textbuf ++ ·) := by
  unfold wsFlushG
  by_cases he : wst.textbuf.isEmpty = true
  · have : wst.textbuf = [] := by simpa using he
    simp [he, this, bufOut]
  · simp only [he, Bool.false_eq_true, ↓reduceIte, idNorm, List.singleton_append, tailOut_text]
    rfl

/-- THE lemma: with the merge-only filter in front, the rest of the serializer writes what it
    writes without it (the pending buffer stands for text the unfiltered side has already written) -/
theorem wsMerge_tailOut (m : Method) (o : Opts) (es : List QEv) :
    ∀ (wst : WsSt) (fst : FlatSt) (lst : LoopSt), WsInv m wst lst → (∀ ev ∈ es, NoescapeAgree m ev) →
      tailOut m o fst lst (wsFilterG idNorm (wsCfg m) wst es) =
        (tailOut m o fst lst es).map (bufOut wst.textbuf ++ ·) := by
  induction es with
  | nil =>
    intro wst fst lst _ _
    have := tailOut_flush m o fst lst wst []
    simpa [wsFilterG] using this
  | cons ev rest ih =>
    intro wst fst lst hinv hag
    have hag_rest : ∀ e ∈ rest, NoescapeAgree m e := fun e he => hag e (by simp [he])
    have nontext : ∀ (hnt : ∀ s f, ev ≠ .text s f),
        wsFilterG idNorm (wsCfg m) wst (ev :: rest) =
          wsFlushG idNorm wst ++ ev :: wsFilterG idNorm (wsCfg m) (wsUpdate (wsCfg m) { wst with textbuf := [] } ev) rest →
        tailOut m o fst lst (wsFilterG idNorm (wsCfg m) wst (ev :: rest)) =
          (tailOut m o fst lst (ev :: rest)).map (bufOut wst.textbuf ++ ·) := by
      intro _ hunf
      rw [hunf, tailOut_flush, tailOut_cons, tailOut_cons]
      cases hs : flatStep false fst ev with
      | none => simp
      | some r =>
        simp only
        have hinv' := wsInv_step m o wst fst lst ev r hinv (hag ev (by simp)) hs
        rw [ih _ r.1 _ hinv' hag_rest, wsUpdate_textbuf]
        simp [bufOut, Option.map_map]
    cases ev with
    | text s safe =>
      simp only [wsFilterG]
      rw [ih { wst with textbuf := wst.textbuf ++ [(s, safe || wst.noescape || wst.inCdata)] } fst lst
        ⟨hinv.raw_eq, hinv.html_cd, hinv.xml_ne⟩ hag_rest, tailOut_text]
      simp only [Option.map_map]
      congr 1
      funext x
      simp only [Function.comp, bufOut, List.flatMap_append, List.flatMap_cons, List.flatMap_nil, List.append_nil,
        pieceOut, List.append_assoc]
      congr 1
      rw [hinv.raw_eq]
      cases safe <;> cases wst.noescape <;> cases wst.inCdata <;> simp
    | start t a => exact nontext (by intro s f h; cases h) (by simp [wsFilterG])
    | empty t a => exact nontext (by intro s f h; cases h) (by simp [wsFilterG])
    | end_ t => exact nontext (by intro s f h; cases h) (by simp [wsFilterG])
    | comment s => exact nontext (by intro s f h; cases h) (by simp [wsFilterG])
    | pi t d => exact nontext (by intro s f h; cases h) (by simp [wsFilterG])
    | doctype n p q => exact nontext (by intro s f h; cases h) (by simp [wsFilterG])
    | xmlDecl v e q => exact nontext (by intro s f h; cases h) (by simp [wsFilterG])
    | startNs p u => exact nontext (by intro s f h; cases h) (by simp [wsFilterG])
    | endNs p => exact nontext (by intro s f h; cases h) (by simp [wsFilterG])
    | startCdata => exact nontext (by intro s f h; cases h) (by simp [wsFilterG])
    | endCdata => exact nontext (by intro s f h; cases h) (by simp [wsFilterG])

/-! ### what the normalisation can delete -/

def wsChar (c : Char) : Bool := c == ' ' || c == '\t' || c == '\n'

theorem trimGo_sublist (s : Str) : ∀ pend : Str, (trimGo pend s).Sublist (pend ++ s) := by
  induction s with
  | nil => intro pend; simp [trimGo]
  | cons c cs ih =>
    intro pend
    simp only [trimGo]
    by_cases hb : isBlank c = true
    · simp only [hb, ↓reduceIte]
      have := ih (pend ++ [c]); simpa using this
    · simp only [hb, Bool.false_eq_true, ↓reduceIte]
      by_cases hn : (c == '\n') = true
      · simp only [hn, ↓reduceIte]
        have hc : c = '\n' := by simpa using hn
        subst hc
        exact List.Sublist.trans ((List.Sublist.cons_cons _ (by simpa using ih []))) (List.sublist_append_right _ _)
      · simp only [hn, Bool.false_eq_true, ↓reduceIte]
        exact List.Sublist.append_left (List.Sublist.cons_cons _ (by simpa using ih [])) _

theorem collapseGo_sublist (s : Str) : ∀ b : Bool, (collapseGo b s).Sublist s := by
  induction s with
  | nil => intro b; simp [collapseGo]
  | cons c cs ih =>
    intro b
    simp only [collapseGo]
    by_cases hn : (c == '\n') = true
    · have hc : c = '\n' := by simpa using hn
      subst hc
      cases b
      · simp; exact ih true
      · simp; exact List.Sublist.cons _ (ih true)
    · simp only [hn, Bool.false_eq_true, ↓reduceIte]
      exact List.Sublist.cons_cons _ (ih false)

theorem trimGo_filter (s : Str) :
    ∀ pend : Str, pend.all isBlank = true →
      (trimGo pend s).filter (fun c => !wsChar c) = s.filter (fun c => !wsChar c) := by
  induction s with
  | nil =>
    intro pend hp
    simp only [trimGo, List.filter_nil, List.filter_eq_nil_iff]
    intro c hc
    have := List.all_eq_true.mp hp c hc
    simp only [isBlank, Bool.or_eq_true] at this
    rcases this with h | h <;> simp [wsChar, h]
  | cons c cs ih =>
    intro pend hp
    have hpend : pend.filter (fun c => !wsChar c) = [] := by
      simp only [List.filter_eq_nil_iff]
      intro d hd
      have := List.all_eq_true.mp hp d hd
      simp only [isBlank, Bool.or_eq_true] at this
      rcases this with h | h <;> simp [wsChar, h]
    simp only [trimGo]
    by_cases hb : isBlank c = true
    · simp only [hb, ↓reduceIte]
      rw [ih (pend ++ [c]) (by simp [hp, hb])]
      have : wsChar c = true := by
        simp only [isBlank, Bool.or_eq_true] at hb
        rcases hb with h | h <;> simp [wsChar, h]
      simp [this]
    · simp only [hb, Bool.false_eq_true, ↓reduceIte]
      by_cases hn : (c == '\n') = true
      · have hc : c = '\n' := by simpa using hn
        subst hc
        have hw : wsChar '\n' = true := by decide
        simp [hw, ih [] (by simp)]
      · simp only [hn, Bool.false_eq_true, ↓reduceIte, List.filter_append, hpend, List.nil_append, List.filter_cons]
        rw [ih [] (by simp)]

theorem collapseGo_filter (s : Str) :
    ∀ b : Bool, (collapseGo b s).filter (fun c => !wsChar c) = s.filter (fun c => !wsChar c) := by
  induction s with
  | nil => intro b; simp [collapseGo]
  | cons c cs ih =>
    intro b
    simp only [collapseGo]
    by_cases hn : (c == '\n') = true
    · have hc : c = '\n' := by simpa using hn
      subst hc
      have hw : wsChar '\n' = true := by decide
      cases b <;> simp [hw, ih]
    · simp [hn, ih, List.filter_cons]

/-- The normal form is obtained by deleting characters, and only blanks, tabs and line feeds. -/
theorem wsNorm_deletes_only_ws (x : Str) :
    (wsNorm x).Sublist x ∧ (wsNorm x).filter (fun c => !wsChar c) = x.filter (fun c => !wsChar c) := by
  refine ⟨?_, ?_⟩
  · exact List.Sublist.trans (collapseGo_sublist _ false) (by simpa [trim] using trimGo_sublist x [])
  · simp only [wsNorm, collapse, trim]
    rw [collapseGo_filter, trimGo_filter x [] (by simp)]

end Genshi.Output

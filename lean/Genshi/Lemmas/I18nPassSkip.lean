/-
  C19 — the translation pass under the identity catalogue on the content of a message, with
  excluded elements (`ignore_tags`, literal `xml:lang`) anywhere: a tree-level reading of the
  skip counter.  Inside an excluded element the pass hands every event on untouched (SUB events
  with their directive lists included); everywhere else it re-orders the directive lists
  (`reorder`) and changes nothing.  On the forest of a message this is `reordXM`; every
  hypothesis of the identity theorem for `MsgDirective.__call__` is blind to it, which merges
  `identity_transparent_msg_sub` (no domain / ctxt, excluded elements allowed) and
  `identity_transparent_msg_reorder` (domain / ctxt, no excluded elements) into one statement.
-/
import Genshi.Lemmas.I18nPassReorder
namespace Genshi.I18n
open Genshi

theorem cleanList_append (cfg : Cfg) : ∀ (x y : List TEvent), cleanList cfg (x ++ y) = (cleanList cfg x && cleanList cfg y)
  | [], y => by simp [cleanList]
  | e :: x, y => by simp [cleanList, cleanList_append cfg x y, Bool.and_assoc]

mutual
  /-- the pass on a node of a message forest (skip counter 0 on entry) -/
  def MNode.reordX (cfg : Cfg) : MNode → MNode
    | .elem sd t a ks =>
        .elem (sd.map fun d => (reorder d).dirs) t a (if excluded cfg t a then ks else reordXM cfg ks)
    | n => n
  def reordXM (cfg : Cfg) : List MNode → List MNode
    | [] => []
    | n :: ns => n.reordX cfg :: reordXM cfg ns
end

/-! ### inside an excluded element: a forest passes untouched, the counter comes back -/

mutual
  theorem MNode.trList_skip (cfg : Cfg) (cat : Catalog) (ctx : Ctx) (tt ta : Bool) :
      ∀ (n : MNode) (k : Nat) (rest : List TEvent),
        trList cfg cat ctx tt ta (k + 1) (n.flatten ++ rest) = n.flatten ++ trList cfg cat ctx tt ta (k + 1) rest
    | .text s, k, rest => by simp [MNode.flatten, trList, skipStep]
    | .expr _ i cm, k, rest => by simp [MNode.flatten, trList, skipStep]
    | .elem (some ds) t a ks, k, rest => by simp [MNode.flatten, trList, skipStep]
    | .elem none t a ks, k, rest => by
        simp only [MNode.flatten, List.cons_append, List.append_assoc, trList, skipStep]
        rw [trListM_skip cfg cat ctx tt ta ks (k + 1)]
        simp [trList, skipStep]
  theorem trListM_skip (cfg : Cfg) (cat : Catalog) (ctx : Ctx) (tt ta : Bool) :
      ∀ (F : List MNode) (k : Nat) (rest : List TEvent),
        trList cfg cat ctx tt ta (k + 1) (flattenM F ++ rest) = flattenM F ++ trList cfg cat ctx tt ta (k + 1) rest
    | [], k, rest => by simp [flattenM]
    | n :: ns, k, rest => by
        simp only [flattenM, List.append_assoc]
        rw [MNode.trList_skip cfg cat ctx tt ta n k, trListM_skip cfg cat ctx tt ta ns k]
end

/-! ### skip counter 0: the identity catalogue re-orders outside excluded elements -/

mutual
  theorem MNode.trList_idX (cfg : Cfg) :
      ∀ (n : MNode), cleanList cfg n.flatten = true → ∀ (ctx : Ctx) (tt ta : Bool) (rest : List TEvent),
        trList cfg Catalog.id ctx tt ta 0 (n.flatten ++ rest) =
          (n.reordX cfg).flatten ++ trList cfg Catalog.id ctx tt ta 0 rest
    | .text s, _, ctx, tt, ta, rest => by
        simp [MNode.flatten, MNode.reordX, trList, gettextOf_id, trText_id]
    | .expr _ i cm, _, ctx, tt, ta, rest => by simp [MNode.flatten, MNode.reordX, trList]
    | .elem none t a ks, h, ctx, tt, ta, rest => by
        simp only [MNode.flatten, cleanList, cleanEv, cleanList_append, Bool.and_eq_true] at h
        by_cases hx : excluded cfg t a = true
        · simp only [MNode.flatten, MNode.reordX, Option.map_none, hx, ↓reduceIte, List.cons_append,
            List.append_assoc, trList]
          rw [trListM_skip cfg Catalog.id ctx tt ta ks 0]
          simp [trList, skipStep]
        · simp only [MNode.flatten, MNode.reordX, Option.map_none, hx, Bool.false_eq_true, ↓reduceIte,
            List.cons_append, List.append_assoc, trList]
          rw [gettextOf_id, trAttrs_id cfg ta a h.1, trListM_idX cfg ks h.2.1 ctx tt ta]
          simp [trList]
    | .elem (some ds) t a ks, h, ctx, tt, ta, rest => by
        simp only [MNode.flatten, cleanList, cleanEv, cleanList_append, Bool.and_eq_true] at h
        by_cases hx : excluded cfg t a = true
        · simp only [MNode.flatten, MNode.reordX, Option.map_some, hx, ↓reduceIte, List.cons_append,
            List.nil_append, trList, trSub]
          rw [trListM_skip cfg Catalog.id _ _ _ ks 0]
          simp [trList, skipStep]
        · simp only [MNode.flatten, MNode.reordX, Option.map_some, hx, Bool.false_eq_true, ↓reduceIte,
            List.cons_append, List.nil_append, trList, trSub]
          rw [gettextOf_id, trAttrs_id cfg _ a h.1.1, trListM_idX cfg ks h.1.2.1]
          simp [trList]
  theorem trListM_idX (cfg : Cfg) :
      ∀ (F : List MNode), cleanList cfg (flattenM F) = true → ∀ (ctx : Ctx) (tt ta : Bool) (rest : List TEvent),
        trList cfg Catalog.id ctx tt ta 0 (flattenM F ++ rest) =
          flattenM (reordXM cfg F) ++ trList cfg Catalog.id ctx tt ta 0 rest
    | [], _, ctx, tt, ta, rest => by simp [flattenM, reordXM]
    | n :: ns, h, ctx, tt, ta, rest => by
        simp only [flattenM, cleanList_append, Bool.and_eq_true] at h
        simp only [flattenM, reordXM, List.append_assoc]
        rw [MNode.trList_idX cfg n h.1, trListM_idX cfg ns h.2]
end

/-! ### every hypothesis of the identity theorem is blind to `reordXM` -/

mutual
  theorem MNode.clean_reordX (cfg : Cfg) : ∀ (n : MNode), (n.reordX cfg).clean = n.clean
    | .text _ => rfl
    | .expr _ _ _ => rfl
    | .elem sd t a ks => by
        by_cases hx : excluded cfg t a = true <;> simp [MNode.reordX, MNode.clean, hx, cleanM_reordX cfg ks]
  theorem cleanM_reordX (cfg : Cfg) : ∀ (F : List MNode), cleanM (reordXM cfg F) = cleanM F
    | [] => rfl
    | n :: ns => by simp only [reordXM, cleanM, MNode.clean_reordX cfg n, cleanM_reordX cfg ns]
end

theorem noAdjF_reordX (cfg : Cfg) : ∀ (p : Bool) (F : List MNode), noAdjF p (reordXM cfg F) = noAdjF p F
  | _, [] => rfl
  | p, .elem sd t a ks :: ns => by simp only [reordXM, MNode.reordX, noAdjF, noAdjF_reordX cfg true ns]
  | p, .text s :: ns => by simp only [reordXM, MNode.reordX, noAdjF, noAdjF_reordX cfg false ns]
  | p, .expr n i c :: ns => by simp only [reordXM, MNode.reordX, noAdjF, noAdjF_reordX cfg false ns]

mutual
  theorem MNode.deepNoAdj_reordX (cfg : Cfg) : ∀ (n : MNode), (n.reordX cfg).deepNoAdj = n.deepNoAdj
    | .text _ => rfl
    | .expr _ _ _ => rfl
    | .elem sd t a ks => by
        by_cases hx : excluded cfg t a = true <;>
          simp [MNode.reordX, MNode.deepNoAdj, hx, noAdjF_reordX, deepNoAdjM_reordX cfg ks]
  theorem deepNoAdjM_reordX (cfg : Cfg) : ∀ (F : List MNode), deepNoAdjM (reordXM cfg F) = deepNoAdjM F
    | [] => rfl
    | n :: ns => by simp only [reordXM, deepNoAdjM, MNode.deepNoAdj_reordX cfg n, deepNoAdjM_reordX cfg ns]
end

mutual
  theorem MNode.names_reordX (cfg : Cfg) : ∀ (n : MNode), (n.reordX cfg).names = n.names
    | .text _ => rfl
    | .expr _ _ _ => rfl
    | .elem sd t a ks => by
        by_cases hx : excluded cfg t a = true <;> simp [MNode.reordX, MNode.names, hx, namesM_reordX cfg ks]
  theorem namesM_reordX (cfg : Cfg) : ∀ (F : List MNode), namesM (reordXM cfg F) = namesM F
    | [] => rfl
    | n :: ns => by simp only [reordXM, namesM, MNode.names_reordX cfg n, namesM_reordX cfg ns]
end

mutual
  theorem MNode.subsOK_reordX (cfg : Cfg) : ∀ (n : MNode) (i : Bool), (n.reordX cfg).subsOK i = n.subsOK i
    | .text _, _ => rfl
    | .expr _ _ _, _ => rfl
    | .elem sd t a ks, i => by
        by_cases hx : excluded cfg t a = true <;>
          simp [MNode.reordX, MNode.subsOK, hx, Option.isSome_map, subsOKM_reordX cfg ks]
  theorem subsOKM_reordX (cfg : Cfg) : ∀ (F : List MNode) (i : Bool), subsOKM i (reordXM cfg F) = subsOKM i F
    | [], _ => rfl
    | n :: ns, i => by simp only [reordXM, subsOKM, MNode.subsOK_reordX cfg n, subsOKM_reordX cfg ns]
end

/-- without excluded elements `reordXM` is `reordM` -/
theorem reordXM_eq_reordM (cfg : Cfg) : ∀ (F : List MNode), noExclList cfg (flattenM F) = true →
    reordXM cfg F = reordM F
  | [], _ => rfl
  | .text s :: ns, h => by
      simp only [flattenM, MNode.flatten, List.cons_append, List.nil_append, noExclList, noExclEv, Bool.true_and] at h
      simp [reordXM, reordM, MNode.reordX, MNode.reord, reordXM_eq_reordM cfg ns h]
  | .expr n i c :: ns, h => by
      simp only [flattenM, MNode.flatten, List.cons_append, List.nil_append, noExclList, noExclEv, Bool.true_and] at h
      simp [reordXM, reordM, MNode.reordX, MNode.reord, reordXM_eq_reordM cfg ns h]
  | .elem none t a ks :: ns, h => by
      simp only [flattenM, MNode.flatten, List.cons_append, List.append_assoc, noExclList, noExclEv,
        noExclList_append, Bool.and_eq_true, Bool.not_eq_true'] at h
      simp [reordXM, reordM, MNode.reordX, MNode.reord, h.1, reordXM_eq_reordM cfg ks h.2.1,
        reordXM_eq_reordM cfg ns h.2.2.2.2]
  | .elem (some ds) t a ks :: ns, h => by
      simp only [flattenM, MNode.flatten, List.cons_append, List.nil_append, noExclList, noExclEv,
        noExclList_append, Bool.and_eq_true, Bool.not_eq_true'] at h
      simp [reordXM, reordM, MNode.reordX, MNode.reord, h.1.1, reordXM_eq_reordM cfg ks h.1.2.1,
        reordXM_eq_reordM cfg ns h.2]

/-- **identity_transparent, pass and directive together, one statement**: content with
    directive-carrying elements that may carry `i18n:domain` / `i18n:ctxt`, and with excluded
    elements (`ignore_tags`, literal `xml:lang`) anywhere: the pass re-orders the directive lists
    outside excluded elements and leaves everything inside them alone (`reordXM`), the message
    directive returns that content unchanged up to the white space at the edges of the message
    and the chunking of text. -/
theorem pass_then_msg_identity_skip (cfg : Cfg) (ctx : Ctx) (ta : Bool) (t : QName) (a : TAttrs) (F : List MNode)
    (extra : List Str) (hc : cleanM F = true) (hna : deepNoAdjM F = true) (hnd : (namesM F).Nodup)
    (hso : subsOKM false F = true)
    (hattr : cleanList cfg (.start t a :: (flattenM F ++ [.end_ t])) = true) :
    msgGenerate (namesM F ++ extra) (fun s => s)
        (trList cfg Catalog.id ctx false ta 0 (.start t a :: (flattenM F ++ [.end_ t]))) =
      .ok (.start t a :: (coalesce (flattenM (trimF (if excluded cfg t a then F else reordXM cfg F))) ++ [.end_ t])) := by
  have hpass : trList cfg Catalog.id ctx false ta 0 (.start t a :: (flattenM F ++ [.end_ t])) =
      .start t a :: (flattenM (if excluded cfg t a then F else reordXM cfg F) ++ [.end_ t]) := by
    have h := MNode.trList_idX cfg (.elem none t a F) (by simpa [MNode.flatten] using hattr) ctx false ta []
    simpa [MNode.flatten, MNode.reordX, trList] using h
  rw [hpass]
  by_cases hx : excluded cfg t a = true
  · simp only [hx, ↓reduceIte]
    exact msgGenerate_identity_attr t a F extra hc hna hnd hso
  · simp only [hx, Bool.false_eq_true, ↓reduceIte]
    have := msgGenerate_identity_attr t a (reordXM cfg F) extra (by rw [cleanM_reordX]; exact hc)
      (by rw [deepNoAdjM_reordX]; exact hna) (by rw [namesM_reordX]; exact hnd) (by rw [subsOKM_reordX]; exact hso)
    rw [namesM_reordX] at this
    exact this

end Genshi.I18n

/-
  Helper lemmas for C08: the filter chain (EmptyTagFilter, lite NamespaceFlattener) on a forest whose
  elements are in ARBITRARY namespaces (builder-style streams: no START_NS events), e.g. XHTML
  elements with un-namespaced children.  The repaired flattener keeps a stack of automatic
  default-namespace declarations and obeys "declare the element's namespace iff it differs from the
  default namespace in scope": `flatten_treeU` generalised with the current default namespace as a
  parameter (`treeFm cur`).  Mathlib-free.
-/
import Genshi.Lemmas.OutputTreeNs
namespace Genshi.Output
open Genshi

/-- the `xmlns` attribute an element of namespace `v` gets below default namespace `cur` -/
def declM (cur v : Str) : FAttrs := if v = cur then [] else [(xmlns, v)]

mutual
  /-- no element in the XML namespace, attributes without namespace or in the XML namespace,
      no namespace events -/
  def mixedOk : Node → Bool
    | .elem t a ks => (t.ns != xmlNs) && attrNsOk a && forestMixedOk ks
    | .leaf e => (leafF e).isSome
  def forestMixedOk : List Node → Bool
    | [] => true
    | n :: ns => mixedOk n && forestMixedOk ns
end

mutual
  /-- what reaches the main loop for a tree below default namespace `cur` -/
  def treeFm (cur : Str) : Node → List FEv
    | .elem t a ks =>
        if ks.isEmpty then [.empty t.loc (declM cur t.ns ++ fAttrs a)]
        else .start t.loc (declM cur t.ns ++ fAttrs a) :: (forestFm t.ns ks ++ [.end_ t.loc])
    | .leaf e => (leafF e).toList
  def forestFm (cur : Str) : List Node → List FEv
    | [] => []
    | n :: ns => treeFm cur n ++ forestFm cur ns
end

/-- flattener state on this domain: automatic declarations only, nothing pending, no cache -/
def mSt (B : List (Str × Bool)) (E : List (Str × Nat)) : FlatSt := ⟨B, none, E, []⟩

def allAuto (B : List (Str × Bool)) : Bool := B.all fun p => p.2

/-- the declaration (as a binding) the element needs -/
def bindM (cur v : Str) : List (Str × Bool) := if v = cur then [] else [(v, true)]

theorem flatStartCore_mixed (B : List (Str × Bool)) (hB : allAuto B = true) (t : QName) (a : AttrList)
    (ht : t.ns ≠ xmlNs) (ha : attrNsOk a = true) :
    flatStartCore B none t a =
      some (bindM (defaultNs B).1 t.ns, t.loc, declM (defaultNs B).1 t.ns ++ fAttrs a) := by
  have hx : ¬ (([] : Str) = xmlNs) := by decide
  by_cases he : t.ns = []
  · cases B with
    | nil => simp [flatStartCore, flatD1, flatD2, he, hx, defaultNs, declM, bindM, flatAttrs_nsOk a ha]
    | cons b B' =>
      have hb : b.2 = true := by simp [allAuto] at hB; exact hB.1
      by_cases hc : b.1 = []
      · simp [flatStartCore, flatD1, flatD2, he, hx, defaultNs, declM, bindM, flatAttrs_nsOk a ha, hc]
      · have hc' : ¬ ([] = b.1) := fun e => hc e.symm
        simp [flatStartCore, flatD1, flatD2, he, hx, defaultNs, declM, bindM, flatAttrs_nsOk a ha, hc, hc', hb]
  · by_cases hc : (defaultNs B).1 = t.ns
    · simp [flatStartCore, flatD1, flatD2, he, ht, declM, bindM, flatAttrs_nsOk a ha, hc]
    · have hc' : ¬ (t.ns = (defaultNs B).1) := fun e => hc e.symm
      simp [flatStartCore, flatD1, flatD2, he, ht, declM, bindM, flatAttrs_nsOk a ha, hc, hc']

theorem defaultNs_bindM (B : List (Str × Bool)) (v : Str) :
    (defaultNs ((bindM (defaultNs B).1 v).reverse ++ B)).1 = v := by
  by_cases h : v = (defaultNs B).1
  · simp only [bindM, h, ↓reduceIte, List.reverse_nil, List.nil_append]
  · generalize (defaultNs B).1 = cur at h ⊢
    simp only [bindM, h, ↓reduceIte, List.reverse_cons, List.reverse_nil, List.nil_append, List.singleton_append]
    rfl

theorem allAuto_bindM (B : List (Str × Bool)) (hB : allAuto B = true) (v : Str) :
    allAuto ((bindM (defaultNs B).1 v).reverse ++ B) = true := by
  by_cases h : v = (defaultNs B).1
  · simp only [bindM, h, ↓reduceIte, List.reverse_nil, List.nil_append]; exact hB
  · simp only [bindM, h, ↓reduceIte, List.reverse_cons, List.reverse_nil, List.nil_append, List.singleton_append]
    simpa [allAuto] using hB

theorem drop_bindM (B : List (Str × Bool)) (cur v : Str) :
    ((bindM cur v).reverse ++ B).drop (bindM cur v).length = B := by
  unfold bindM
  by_cases h : v = cur <;> simp [h]

mutual
  theorem flatten_treeM : ∀ (n : Node) (rest : List QEv) (B : List (Str × Bool)) (E : List (Str × Nat)),
      mixedOk n = true → allAuto B = true →
      flatten false (mSt B E) (treeQ n ++ rest) =
        (flatten false (mSt B E) rest).map (treeFm (defaultNs B).1 n ++ ·)
    | .elem t a ks, rest, B, E, h, hB => by
        simp only [mixedOk, Bool.and_eq_true, bne_iff_ne, ne_eq] at h
        obtain ⟨⟨ht, ha⟩, hk⟩ := h
        have hcore := flatStartCore_mixed B hB t a ht ha
        cases ks with
        | nil =>
          have hs : flatStep false (mSt B E) (.empty t a) =
              some (mSt B E, [.empty t.loc (declM (defaultNs B).1 t.ns ++ fAttrs a)]) := by
            simp [flatStep, flatEmptyMiss, mSt, hcore]
          simp only [treeQ, List.isEmpty_nil, ↓reduceIte, List.singleton_append, treeFm]
          rw [flatten_cons_some false _ _ _ _ hs]
          cases hf : flatten false (mSt B E) rest <;> simp [hf]
        | cons k ks' =>
          have hs : flatStep false (mSt B E) (.start t a) =
              some (mSt ((bindM (defaultNs B).1 t.ns).reverse ++ B) ((t.loc, (bindM (defaultNs B).1 t.ns).length) :: E),
                    [.start t.loc (declM (defaultNs B).1 t.ns ++ fAttrs a)]) := by
            simp only [flatStep, Bool.false_and, Bool.false_eq_true, ↓reduceIte, flatStartMiss, mSt, hcore]
            by_cases hd : (bindM (defaultNs B).1 t.ns).isEmpty = true <;> simp [hd]
          have he : flatStep false
              (mSt ((bindM (defaultNs B).1 t.ns).reverse ++ B) ((t.loc, (bindM (defaultNs B).1 t.ns).length) :: E))
              (.end_ t) = some (mSt B E, [.end_ t.loc]) := by
            simp only [flatStep, mSt, drop_bindM]
            by_cases hd : (bindM (defaultNs B).1 t.ns).length = 0 <;> simp [hd]
          simp only [treeQ, List.isEmpty_cons, Bool.false_eq_true, ↓reduceIte, List.cons_append, List.append_assoc,
            List.singleton_append, treeFm]
          rw [flatten_cons_some false _ _ _ _ hs,
            flatten_forestM (k :: ks') _ _ _ hk (allAuto_bindM B hB t.ns), defaultNs_bindM,
            flatten_cons_some false _ _ _ _ he]
          cases hf : flatten false (mSt B E) rest <;> simp [hf]
    | .leaf e, rest, B, E, h, _ => by
        cases e <;> simp [mixedOk, leafF] at h <;>
          simp [treeQ, treeFm, leafF, ofEvent, flatten, flatStep, mSt] <;>
          cases flatten false ⟨B, none, E, []⟩ rest <;> simp
  theorem flatten_forestM : ∀ (ns : List Node) (rest : List QEv) (B : List (Str × Bool)) (E : List (Str × Nat)),
      forestMixedOk ns = true → allAuto B = true →
      flatten false (mSt B E) (forestQ ns ++ rest) =
        (flatten false (mSt B E) rest).map (forestFm (defaultNs B).1 ns ++ ·)
    | [], rest, B, E, _, _ => by simp [forestQ, forestFm]
    | n :: ns, rest, B, E, h, hB => by
        simp only [forestMixedOk, Bool.and_eq_true] at h
        simp only [forestQ, forestFm, List.append_assoc]
        rw [flatten_treeM n _ B E h.1 hB, flatten_forestM ns rest B E h.2 hB]
        cases hf : flatten false (mSt B E) rest <;> simp [hf]
end

/-- the filter chain without whitespace filter on a forest that mixes namespaces -/
theorem filtered_forestM (m : Method) (dropd : Bool) (dopt : Option DocTypeT) (ns : List Node)
    (hok : okList ns = true) (hns : forestMixedOk ns = true) :
    filtered m { strip := false, cache := false, doctype := dopt, dropXmlDecl := dropd } (flattenList ns) =
      some (withDoctype dopt (forestFm [] ns)) := by
  have := flatten_forestM ns [] [] [] hns rfl
  simp only [List.append_nil, flatten, Option.map_some] at this
  have h0 : mSt [] [] = flatInit m := rfl
  rw [h0] at this
  simp [filtered, preFlat, emptyTag_flattenList ns hok, this, defaultNs]

/-! a forest in one namespace is a special case -/
mutual
  theorem mixedOk_of_uniform (u : Str) (hu : u ≠ xmlNs) : ∀ n : Node, uniformNs u n = true → mixedOk n = true
    | .elem t a ks, h => by
        simp only [uniformNs, Bool.and_eq_true, beq_iff_eq] at h
        have ht : t.ns ≠ xmlNs := by rw [h.1.1]; exact hu
        simp [mixedOk, ht, h.1.2, forestMixedOk_of_uniform u hu ks h.2]
    | .leaf e, h => by simpa [uniformNs, mixedOk] using h
  theorem forestMixedOk_of_uniform (u : Str) (hu : u ≠ xmlNs) : ∀ ns : List Node,
      forestUniformNs u ns = true → forestMixedOk ns = true
    | [], _ => rfl
    | n :: ns, h => by
        simp only [forestUniformNs, Bool.and_eq_true] at h
        simp [forestMixedOk, mixedOk_of_uniform u hu n h.1, forestMixedOk_of_uniform u hu ns h.2]
end

end Genshi.Output

/-
  Trace semantics, generic facts about one link run over an action list (`linkU`):
  * a link that does not read a buffer written earlier in the segment yields what it yields on the
    plain stream of items (`linkU_proj`), hence what the stage-wise model of its operation gives;
  * a link that writes no buffer keeps "every buffer is balanced whenever an item is yielded"
    (`linkU_balAt`).
-/
import Genshi.Lemmas.TfTrace
namespace Genshi.Tf

/-! ### `outsOf`, `resolve`, `BalAt`: algebra -/

theorem outsOf_append : ∀ (a1 a2 : List Act), outsOf (a1 ++ a2) = outsOf a1 ++ outsOf a2
  | [], _ => rfl
  | x :: a1, a2 => by
    cases x <;> simp only [List.cons_append, outsOf, outsOf_append a1 a2]

theorem outsOf_outs : ∀ l : MStream, outsOf (outs l) = l
  | [] => rfl
  | x :: l => by simp only [outs, List.map_cons, outsOf]; rw [← outs, outsOf_outs l]

theorem resolve_append : ∀ (a1 a2 : List Act) (b : BufF),
    resolve b (a1 ++ a2) = resolve b a1 ++ resolve (effs a1 b) a2
  | [], _, _ => rfl
  | x :: a1, a2, b => by
    cases x with
    | out y => simp only [List.cons_append, resolve, effs, resolve_append a1 a2 b]
    | reset id => simp only [List.cons_append, resolve, effs, resolve_append a1 a2 _]
    | app id y => simp only [List.cons_append, resolve, effs, resolve_append a1 a2 _]
    | inj c => simp only [List.cons_append, resolve, effs, resolve_append a1 a2 b, List.append_assoc]

theorem effs_resolve : ∀ (a : List Act) (b b0 : BufF), effs (resolve b0 a) b = effs a b
  | [], _, _ => rfl
  | x :: a, b, b0 => by
    cases x with
    | out y => simp only [resolve, effs, effs_resolve a]
    | reset id => simp only [resolve, effs, effs_resolve a]
    | app id y => simp only [resolve, effs, effs_resolve a]
    | inj c => simp only [resolve, effs, effs_append, effs_outs, effs_resolve a]

/-- actions that write nothing -/
def NoWr (a : List Act) : Prop := ∀ x ∈ a, x.wr = []

theorem NoWr.effs {a : List Act} (h : NoWr a) (b : BufF) : effs a b = b := by
  induction a generalizing b with
  | nil => rfl
  | cons x a ih =>
    have hx := h x (List.mem_cons_self ..)
    have ht : NoWr a := fun y hy => h y (List.mem_cons_of_mem _ hy)
    cases x with
    | out y => exact ih ht b
    | inj c => exact ih ht b
    | reset id => simp [Act.wr] at hx
    | app id y => simp [Act.wr] at hx

theorem noWr_of_actsIn {r : List Nat} {a : List Act} (h : ActsIn [] r a) : NoWr a := by
  intro x hx
  have := (h x hx).1
  cases x with
  | out y => rfl
  | inj c => rfl
  | reset id => exact absurd (this id (by simp [Act.wr])) (by simp)
  | app id y => exact absurd (this id (by simp [Act.wr])) (by simp)

theorem BalAt.bufs : ∀ (a : List Act) (b : BufF), BalAt b a → BufFOk (effs a b)
  | [], _, h => h
  | .out _ :: a, b, h => BalAt.bufs a b h.2
  | .reset id :: a, b, h => BalAt.bufs a (b.set id []) h
  | .app id x :: a, b, h => BalAt.bufs a (b.set id (b id ++ [x])) h
  | .inj _ :: a, b, h => BalAt.bufs a b h

theorem balAt_outs_append : ∀ (l : MStream) {b : BufF} {a : List Act}, BufFOk b → BalAt b a → BalAt b (outs l ++ a)
  | [], _, _, _, h => h
  | _ :: l, _, _, hb, h => ⟨hb, balAt_outs_append l hb h⟩

theorem balAt_outs (l : MStream) {b : BufF} (hb : BufFOk b) : BalAt b (outs l) := by
  have := balAt_outs_append l (a := []) hb hb
  simpa using this

/-- actions without writes, run while every buffer is balanced -/
theorem balAt_resolve_noWr : ∀ (a : List Act) {b : BufF} {rest : List Act}, NoWr a → BufFOk b → BalAt b rest →
    BalAt b (resolve b a ++ rest)
  | [], _, _, _, _, h => h
  | x :: a, b, rest, hn, hb, h => by
    have ht : NoWr a := fun y hy => hn y (List.mem_cons_of_mem _ hy)
    have hx := hn x (List.mem_cons_self ..)
    cases x with
    | out y => exact ⟨hb, balAt_resolve_noWr a ht hb h⟩
    | inj c =>
      simp only [resolve, List.append_assoc]
      exact balAt_outs_append _ hb (balAt_resolve_noWr a ht hb h)
    | reset id => simp [Act.wr] at hx
    | app id y => simp [Act.wr] at hx

/-! ### a link that reads nothing written earlier in the segment -/

/-- injections whose buffers the list itself does not write: resolving = expanding with the
    initial buffers -/
theorem outsOf_resolve_flat {w r : List Nat} (hwr : ∀ i ∈ w, i ∉ r) : ∀ (a : List Act) (b : BufF), ActsIn w r a →
    outsOf (resolve b a) = flat b a
  | [], _, _ => rfl
  | x :: a, b, h => by
    have ih := fun b => outsOf_resolve_flat hwr a b h.tail
    cases x with
    | out y => simp only [resolve, outsOf, flat, ih]
    | inj c => simp only [resolve, outsOf_append, outsOf_outs, flat, ih, contentAt_eq]
    | reset id =>
      have hid : id ∈ w := h.head.1 id (by simp [Act.wr])
      simp only [resolve, outsOf, flat, ih]
      exact flat_congr h.tail (fun i hi => by
        have : i ≠ id := by intro hc; subst hc; exact hwr i hid hi
        simp [BufF.set, this])
    | app id y =>
      have hid : id ∈ w := h.head.1 id (by simp [Act.wr])
      simp only [resolve, outsOf, flat, ih]
      exact flat_congr h.tail (fun i hi => by
        have : i ≠ id := by intro hc; subst hc; exact hwr i hid hi
        simp [BufF.set, this])

/-- When the effects passing through a link touch no buffer it reads, the link yields what it
    yields on the plain stream of items (`actsAll`, the link alone), injections read from the
    buffers the segment started with. -/
theorem linkU_proj (op : Op) : ∀ (a : List Act) (c : Ctl) (b : BufF) (u : List Act), injFree a = true →
    (∀ x ∈ a, ∀ i ∈ x.wr, i ∉ rdOp op) → linkU op c a = some u →
    ∃ u', actsAll op c (outsOf a) = some u' ∧ outsOf (resolve b u) = flat b u'
  | [], c, b, u, _, _, h => by
    simp only [linkU] at h
    exact ⟨u, by simpa [outsOf, actsAll] using h,
      outsOf_resolve_flat (wr_rd_disjoint op) u b (finOp_fp op c u h)⟩
  | x :: as, c, b, u, hf, hw, h => by
    have hw' : ∀ y ∈ as, ∀ i ∈ y.wr, i ∉ rdOp op := fun y hy => hw y (List.mem_cons_of_mem _ hy)
    cases x with
    | inj ct => simp [injFree] at hf
    | reset id =>
      simp only [linkU, Option.map_eq_some_iff] at h
      obtain ⟨u2, h2, rfl⟩ := h
      obtain ⟨u', h3, h4⟩ := linkU_proj op as c (b.set id []) u2 (by simpa [injFree] using hf) hw' h2
      refine ⟨u', by simpa [outsOf] using h3, ?_⟩
      simp only [resolve, outsOf, h4]
      exact flat_congr (actsAll_fp op _ c u' h3) (fun i hi => by
        have : i ≠ id := by
          intro hc; subst hc
          exact hw _ (List.mem_cons_self ..) i (by simp [Act.wr]) hi
        simp [BufF.set, this])
    | app id y =>
      simp only [linkU, Option.map_eq_some_iff] at h
      obtain ⟨u2, h2, rfl⟩ := h
      obtain ⟨u', h3, h4⟩ := linkU_proj op as c (b.set id (b id ++ [y])) u2 (by simpa [injFree] using hf) hw' h2
      refine ⟨u', by simpa [outsOf] using h3, ?_⟩
      simp only [resolve, outsOf, h4]
      exact flat_congr (actsAll_fp op _ c u' h3) (fun i hi => by
        have : i ≠ id := by
          intro hc; subst hc
          exact hw _ (List.mem_cons_self ..) i (by simp [Act.wr]) hi
        simp [BufF.set, this])
    | out y =>
      simp only [linkU] at h
      cases hs : stepOp op c y with
      | none => simp [hs] at h
      | some r =>
        obtain ⟨c', a1⟩ := r
        simp only [hs, Option.map_eq_some_iff] at h
        obtain ⟨a2, h2, rfl⟩ := h
        obtain ⟨u', h3, h4⟩ := linkU_proj op as c' (effs a1 b) a2 (by simpa [injFree] using hf) hw' h2
        have hfp := stepOp_fp op c c' y a1 hs
        refine ⟨a1 ++ u', by simp [outsOf, actsAll, hs, h3], ?_⟩
        rw [resolve_append, outsOf_append, h4, outsOf_resolve_flat (wr_rd_disjoint op) a1 b hfp, flat_append]
        congr 1
        exact flat_congr (actsAll_fp op _ c' u' h3) (fun i hi =>
          effs_out hfp i (fun hc => wr_rd_disjoint op i hc hi))

/-! ### a link that writes nothing -/

theorem linkU_balAt (op : Op) (hop : wrOp op = []) : ∀ (a : List Act) (c : Ctl) (b : BufF) (u : List Act),
    injFree a = true → BalAt b a → linkU op c a = some u → BalAt b (resolve b u)
  | [], c, b, u, _, hb, h => by
    simp only [linkU] at h
    have hn : NoWr u := noWr_of_actsIn (by have := finOp_fp op c u h; rwa [hop] at this)
    have := balAt_resolve_noWr u (rest := []) hn hb hb
    simpa using this
  | x :: as, c, b, u, hf, hb, h => by
    cases x with
    | inj ct => simp [injFree] at hf
    | reset id =>
      simp only [linkU, Option.map_eq_some_iff] at h
      obtain ⟨u2, h2, rfl⟩ := h
      exact linkU_balAt op hop as c _ u2 (by simpa [injFree] using hf) hb h2
    | app id y =>
      simp only [linkU, Option.map_eq_some_iff] at h
      obtain ⟨u2, h2, rfl⟩ := h
      exact linkU_balAt op hop as c _ u2 (by simpa [injFree] using hf) hb h2
    | out y =>
      simp only [linkU] at h
      cases hs : stepOp op c y with
      | none => simp [hs] at h
      | some r =>
        obtain ⟨c', a1⟩ := r
        simp only [hs, Option.map_eq_some_iff] at h
        obtain ⟨a2, h2, rfl⟩ := h
        have hn : NoWr a1 := noWr_of_actsIn (by have := stepOp_fp op c c' y a1 hs; rwa [hop] at this)
        rw [resolve_append, hn.effs]
        exact balAt_resolve_noWr a1 hn hb.1 (linkU_balAt op hop as c' b a2 (by simpa [injFree] using hf) hb.2 h2)

/-- the writes passing through a link are those of its input plus its own -/
theorem linkU_wr (op : Op) : ∀ (a : List Act) (c : Ctl) (u : List Act) (w : List Nat), injFree a = true →
    (∀ x ∈ a, ∀ i ∈ x.wr, i ∈ w) → linkU op c a = some u → ∀ x ∈ u, ∀ i ∈ x.wr, i ∈ wrOp op ++ w
  | [], c, u, w, _, _, h, x, hx, i, hi => by
    simp only [linkU] at h
    exact List.mem_append_left _ ((finOp_fp op c u h x hx).1 i hi)
  | y :: as, c, u, w, hf, hw, h, x, hx, i, hi => by
    have hw' : ∀ z ∈ as, ∀ i ∈ z.wr, i ∈ w := fun z hz => hw z (List.mem_cons_of_mem _ hz)
    cases y with
    | inj ct => simp [injFree] at hf
    | reset id =>
      simp only [linkU, Option.map_eq_some_iff] at h
      obtain ⟨u2, h2, rfl⟩ := h
      rcases List.mem_cons.mp hx with rfl | hx
      · exact List.mem_append_right _ (hw _ (List.mem_cons_self ..) i hi)
      · exact linkU_wr op as c u2 w (by simpa [injFree] using hf) hw' h2 x hx i hi
    | app id z =>
      simp only [linkU, Option.map_eq_some_iff] at h
      obtain ⟨u2, h2, rfl⟩ := h
      rcases List.mem_cons.mp hx with rfl | hx
      · exact List.mem_append_right _ (hw _ (List.mem_cons_self ..) i hi)
      · exact linkU_wr op as c u2 w (by simpa [injFree] using hf) hw' h2 x hx i hi
    | out z =>
      simp only [linkU] at h
      cases hs : stepOp op c z with
      | none => simp [hs] at h
      | some r =>
        obtain ⟨c', a1⟩ := r
        simp only [hs, Option.map_eq_some_iff] at h
        obtain ⟨a2, h2, rfl⟩ := h
        rcases List.mem_append.mp hx with hx | hx
        · exact List.mem_append_left _ ((stepOp_fp op c c' z a1 hs x hx).1 i hi)
        · exact linkU_wr op as c' a2 w (by simpa [injFree] using hf) hw' h2 x hx i hi

theorem resolve_wr : ∀ (a : List Act) (b : BufF) (w : List Nat), (∀ x ∈ a, ∀ i ∈ x.wr, i ∈ w) →
    ∀ x ∈ resolve b a, ∀ i ∈ x.wr, i ∈ w
  | [], _, _, _, x, hx, _, _ => by simp [resolve] at hx
  | y :: a, b, w, h, x, hx, i, hi => by
    have h' : ∀ z ∈ a, ∀ i ∈ z.wr, i ∈ w := fun z hz => h z (List.mem_cons_of_mem _ hz)
    cases y with
    | out z =>
      simp only [resolve] at hx
      rcases List.mem_cons.mp hx with rfl | hx
      · simp [Act.wr] at hi
      · exact resolve_wr a b w h' x hx i hi
    | reset id =>
      simp only [resolve] at hx
      rcases List.mem_cons.mp hx with rfl | hx
      · exact h _ (List.mem_cons_self ..) i hi
      · exact resolve_wr a _ w h' x hx i hi
    | app id z =>
      simp only [resolve] at hx
      rcases List.mem_cons.mp hx with rfl | hx
      · exact h _ (List.mem_cons_self ..) i hi
      · exact resolve_wr a _ w h' x hx i hi
    | inj c =>
      simp only [resolve] at hx
      rcases List.mem_append.mp hx with hx | hx
      · have := (ActsIn.outs [] [] (inj (contentAt b c)) x hx).1 i hi
        simp at this
      · exact resolve_wr a b w h' x hx i hi

end Genshi.Tf

/-
  C11: the simulation of `Lemmas/Incl.lean` (`simL`) for file sets that may contain ill-formed templates.
  Inline mode meets an ill-formed, statically named target while *preparing* (finding C11-eager-syntax):
  the relation between the two runs becomes "the inline run raised the syntax error, or the results are
  related as before" (`RRelW`).
-/
import Genshi.Lemmas.InclIll
namespace Genshi.Incl

/-- the inline run raised the syntax error (while preparing a template it loaded), or the two results are related -/
def RRelW (T : List Name) (files : Files) (x x' : R) : Prop :=
  x' = .err .syntaxErr ∨ RRel T files x x'

theorem RRelW.bind {T files} {x x' : R} {k k' : List Ev × St → R} (hx : RRelW T files x x')
    (hk : ∀ r r', r.1 = r'.1 → StRel T files r.2 r'.2 → RRelW T files (k r) (k' r')) :
    RRelW T files (x.bind k) (x'.bind k') := by
  rcases hx with hx | hx
  · subst hx; exact .inl rfl
  · cases x with
    | fuel => cases x' <;> simp_all [RRel, RRelW]
    | err e => cases x' <;> simp_all [RRel, RRelW]
    | ok r =>
      cases x' with
      | fuel => simp [RRel] at hx
      | err e => simp [RRel] at hx
      | ok r' =>
        simp only [RRel] at hx
        exact hk r r' hx.1 hx.2

theorem seq_relW {T files} {x x' : R} {k k' : St → R}
    (hx : RRelW T files x x') (hk : ∀ s s', StRel T files s s' → RRelW T files (k s) (k' s')) :
    RRelW T files (x.bind fun r1 => (k r1.2).bind fun r2 => .ok (r1.1 ++ r2.1, r2.2))
      (x'.bind fun r1 => (k' r1.2).bind fun r2 => .ok (r1.1 ++ r2.1, r2.2)) := by
  apply RRelW.bind hx
  intro r1 r1' ho hs
  apply RRelW.bind (hk _ _ hs)
  intro r2 r2' ho2 hs2
  exact .inr ⟨by rw [ho, ho2], hs2⟩

theorem loopItems_relW {T files} {k k' : St → R} (x : Name)
    (hk : ∀ s s', StRel T files s s' → RRelW T files (k s) (k' s')) :
    ∀ (vs : List Value) s s', StRel T files s s' → RRelW T files (loopItems k x vs s) (loopItems k' x vs s') := by
  intro vs
  induction vs with
  | nil => intro s s' h; exact .inr ⟨rfl, h⟩
  | cons v vs ih =>
    intro s s' h
    simp only [loopItems]
    apply RRelW.bind
    · apply hk
      exact { h with frames := by simp [h.frames] }
    · intro r1 r1' ho hs
      apply RRelW.bind
      · apply ih
        exact { hs with frames := by simp [hs.frames] }
      · intro r2 r2' ho2 hs2
        exact .inr ⟨by rw [ho, ho2], hs2⟩

def JRelW (T : List Name) (files : Files) (J J' : RJ) : Prop :=
  ∀ z rngR rngI raw prep s s', PrepL T files z raw prep → Coup T z rngR rngI raw → StRel T files s s' →
    RRelW T files (J rngR raw s) (J' rngI prep s')

theorem simLW {T files} (hload : LoadOKW T files) (htx : TextOK files) {J J' : RJ} (hJ : JRelW T files J J') :
    ∀ {z raw prep}, PrepL T files z raw prep → ∀ rR rI s s', Coup T z rR rI raw → StRel T files s s' →
      RRelW T files (renderL .runtime files J rR raw s) (renderL .inlineM files J' rI prep s') := by
  intro z raw prep hp
  induction hp with
  | nil => intro rR rI s s' _ h; exact .inr ⟨rfl, h⟩
  | text _ ih =>
    intro rR rI s s' hc h
    rw [renderL_cons, renderL_cons]
    exact seq_relW (by rw [renderN_text, renderN_text]; exact .inr ⟨rfl, h⟩) (fun s1 s1' h1 => ih rR rI s1 s1' hc.tail h1)
  | @var z x r r' _ ih =>
    intro rR rI s s' hc h
    rw [renderL_cons, renderL_cons]
    refine seq_relW ?_ (fun s1 s1' h1 => ih rR rI s1 s1' hc.tail h1)
    rw [renderN_var, renderN_var, ← h.lookup]
    cases s.lookup x with
    | none => exact .inr rfl
    | some v =>
      dsimp only
      cases v.text? with
      | none => exact .inr rfl
      | some t => exact .inr ⟨rfl, h⟩
  | @call m r r' _ ih =>
    intro rR rI s s' hc h
    rw [renderL_cons, renderL_cons]
    refine seq_relW ?_ (fun s1 s1' h1 => ih rR rI s1 s1' hc.tail h1)
    obtain ⟨he, hn, hf⟩ := hc.head_w (by simp [winfreeN])
    subst he
    rw [renderN_call, renderN_call]
    rcases lookup_rel h.macros m with ⟨h1, h2⟩ | ⟨b, b', h1, h2, hb⟩
    · rw [h1, h2, ← h.lookup]
      cases s.lookup m <;> exact .inr rfl
    · rw [h1, h2]
      exact hJ false rR rR b b' s s' hb (.inl ⟨rfl, hn, hf⟩) h
  | @select z r r' _ ih =>
    intro rR rI s s' hc h
    rw [renderL_cons, renderL_cons]
    refine seq_relW ?_ (fun s1 s1' h1 => ih rR rI s1 s1' hc.tail h1)
    obtain ⟨he, hn, hf⟩ := hc.head_w (by simp [winfreeN])
    subst he
    rw [renderN_select, renderN_select, ← h.sel]
    cases s.sel with
    | nil => exact .inr rfl
    | cons c _ =>
      exact hJ z rR rR _ _ s s' (prepL_of_plainL _ z (evsToNodes_plain c)) (.inl ⟨rfl, hn, hf⟩) h
  | @elem z t b b' r r' _ _ ihb ih =>
    intro rR rI s s' hc h
    rw [renderL_cons, renderL_cons]
    refine seq_relW ?_ (fun s1 s1' h1 => ih rR rI s1 s1' hc.tail h1)
    rw [renderN_elem, renderN_elem]
    by_cases htT : t ∈ T
    · obtain ⟨he, hn, hf⟩ := hc.head_w (by simp [winfreeN, htT])
      subst he
      rcases firstMatchFrom_rel (rng := rR) (tag := t) h.mts 0 with ⟨h1, h2⟩ | ⟨idx, mb, mb', h1, h2, hT, hmb⟩
      · simp only [firstMatch, h1, h2]
        apply RRelW.bind
        · apply ihb rR rR s s' _ h
          exact .inl ⟨rfl, hn, fun hzz => by simp [htT] at hzz⟩
        · intro r1 r1' ho hs
          exact .inr ⟨by rw [ho], hs⟩
      · simp only [firstMatch, h1, h2]
        apply RRelW.bind
        · apply ihb _ _ s s' _ h
          exact .inl ⟨rfl, rfl, fun hzz => by simp [hT] at hzz⟩
        · intro r1 r1' ho hs
          apply RRelW.bind
          · exact hJ true _ _ mb mb' _ _ hmb (.inl ⟨rfl, rfl, fun hzz => by cases hzz⟩)
              { hs with sel := by simp [ho, hs.sel] }
          · intro r2 r2' ho2 hs2
            exact .inr ⟨ho2, { hs2 with sel := by simp [hs2.sel] }⟩
    · obtain ⟨h1, h2⟩ := firstMatchFrom_none_of_notin (rng := rR) (rng' := rI) h.mts htT 0
      simp only [firstMatch, h1, h2]
      apply RRelW.bind
      · apply ihb rR rI s s' _ h
        exact hc.sub (by intro hz; simpa [htT] using hz) (by intro hw; simp only [winfreeN, Bool.and_eq_true] at hw; exact hw.2)
      · intro r1 r1' ho hs
        exact .inr ⟨by rw [ho], hs⟩
  | @cond z c b b' r r' _ _ ihb ih =>
    intro rR rI s s' hc h
    rw [renderL_cons, renderL_cons]
    refine seq_relW ?_ (fun s1 s1' h1 => ih rR rI s1 s1' hc.tail h1)
    rw [renderN_cond, renderN_cond, ← evalCond_rel h]
    cases evalCond s c with
    | fuel => exact .inr trivial
    | err e => exact .inr rfl
    | ok bb =>
      cases bb with
      | true => exact ihb rR rI s s' (hc.sub id (by simp [winfreeN])) h
      | false => exact .inr ⟨rfl, h⟩
  | @loop z x xs b b' r r' _ _ ihb ih =>
    intro rR rI s s' hc h
    rw [renderL_cons, renderL_cons]
    refine seq_relW ?_ (fun s1 s1' h1 => ih rR rI s1 s1' hc.tail h1)
    rw [renderN_loop, renderN_loop, ← h.lookup]
    cases s.lookup xs with
    | none => exact .inr rfl
    | some v => exact loopItems_relW x (fun s1 s1' h1 => ihb rR rI s1 s1' (hc.sub id (by simp [winfreeN])) h1) _ s s' h
  | @defn z m b b' r r' hb _ _ ih =>
    intro rR rI s s' hc h
    rw [renderL_cons, renderL_cons]
    refine seq_relW ?_ (fun s1 s1' h1 => ih rR rI s1 s1' hc.tail h1)
    rw [renderN_defn, renderN_defn]
    exact .inr ⟨rfl, { h with macros := .cons ⟨rfl, hb⟩ h.macros }⟩
  | @matchT z t b b' r r' hT hb _ _ ih =>
    intro rR rI s s' hc h
    rw [renderL_cons, renderL_cons]
    refine seq_relW ?_ (fun s1 s1' h1 => ih rR rI s1 s1' hc.tail h1)
    rw [renderN_matchT, renderN_matchT]
    exact .inr ⟨rfl, { h with mts := h.mts.snoc ⟨rfl, hT, hb⟩ }⟩
  | @inlined z b b' r r' hb _ _ ih =>
    intro rR rI s s' hc h
    rw [renderL_cons, renderL_cons]
    refine seq_relW ?_ (fun s1 s1' h1 => ih rR rI s1 s1' hc.tail h1)
    rw [renderN_inlined, renderN_inlined]
    exact hJ z rR rI b b' s s' hb (hc.sub id (by simp [winfreeN])) h
  | @keep z hr c hf fb fb' p r r' _ _ ihfb ih =>
    intro rR rI s s' hc h
    rw [renderL_cons, renderL_cons]
    refine seq_relW ?_ (fun s1 s1' h1 => ih rR rI s1 s1' hc.tail h1)
    rw [renderN_include, renderN_include, ← evalHref_rel h]
    cases evalHref s hr with
    | fuel => exact .inr trivial
    | err e => exact .inr rfl
    | ok hh =>
      simp only [Res.bind_ok]
      cases resolve p hh with
      | none => exact .inr rfl
      | some name =>
        simp only [loadT]
        have hl := hload name c s'.cache h.cache
        cases hraw : loadRaw files name c with
        | fuel => simp [hraw] at hl
        | err e =>
          simp only [hraw] at hl
          simp only [hl.1, Res.map_err]
          cases e with
          | notFound =>
            cases hf with
            | true =>
              refine ihfb _ _ s s' (hc.fresh ?_) h
              intro hw
              cases hr <;> simp only [winfreeN, Bool.and_eq_true] at hw
              · exact hw.2
              · exact hw
            | false => exact .inr rfl
          | syntaxErr => exact .inr rfl
          | undefined => exact .inr rfl
          | unmodelled => exact .inr rfl
        | ok body =>
          simp only [hraw] at hl
          cases hli : loadInl files name c s'.cache with
          | fuel => rw [hli] at hl; exact hl.elim
          | err e =>
            rw [hli] at hl
            obtain ⟨he, _⟩ := hl
            subst he
            exact .inl rfl
          | ok rr =>
            rw [hli] at hl
            obtain ⟨hpb, hc'⟩ := hl
            simp only [Res.map_ok]
            refine hJ false _ _ body rr.1 _ _ hpb (Coup.ofKind (loadRaw_text htx hraw) ?_) { h with cache := hc' }
            intro hk; subst hk; exact .inl rfl
  | @inlineFound z hh c hf fb p name body body' r r' hres hfind hw hb _ _ ih =>
    intro rR rI s s' hc h
    rw [renderL_cons, renderL_cons]
    refine seq_relW ?_ (fun s1 s1' h1 => ih rR rI s1 s1' hc.tail h1)
    rw [renderN_include, renderN_inlined]
    simp only [evalHref, Res.bind_ok, hres, loadT, loadRaw, hfind,
      ne_eq, not_true_eq_false, Res.map_ok]
    refine hJ false _ _ body body' s s' hb (Coup.ofKind ?_ ?_) h
    · intro hk; subst hk; exact htx name body hfind
    · intro hk
      subst hk
      cases z with
      | true => exact .inr (hw rfl)
      | false =>
        rcases hc with ⟨he, _, hfull⟩ | ht
        · exact .inl (he ▸ hfull rfl)
        · simp [winfreeL, winfreeN] at ht
  | @inlineMissing z hh c fb fb' p name r r' hres hfind hw _ _ ihfb ih =>
    intro rR rI s s' hc h
    rw [renderL_cons, renderL_append]
    refine seq_relW ?_ (fun s1 s1' h1 => ih rR rI s1 s1' hc.tail h1)
    rw [renderN_include]
    simp only [evalHref, Res.bind_ok, hres, loadT, loadRaw, hfind,
      Res.map_err, if_true]
    refine ihfb _ _ s s' ?_ h
    cases z with
    | true => exact .inr (hw rfl)
    | false =>
      rcases hc with ⟨he, hn, hfull⟩ | ht
      · subst he
        rw [Rng.fresh_of_nomt hn, hfull rfl]; exact .full
      · simp only [winfreeL, winfreeN, Bool.and_eq_true] at ht
        exact .inr ht.1.2

theorem textOK_of_inHW {T : List Name} {files : Files} (hH : inHW T files = true) : TextOK files := by
  intro name body hfind
  have hok := find_fileOkW hH hfind
  simp only [fileOkW, Bool.and_eq_true] at hok
  exact hok.2

/-- the simulation at every fuel -/
theorem simW {T : List Name} {files : Files} (hH : inHW T files = true) :
    ∀ f : Nat, JRelW T files (render .runtime files f) (render .inlineM files f)
  | 0 => by intro z rR rI raw prep s s' _ _ _; exact .inr True.intro
  | f + 1 => by
    intro z rR rI raw prep s s' hp hz h
    rw [render_succ, render_succ]
    exact simLW (loadOKW_of_inHW hH) (textOK_of_inHW hH) (simW hH f) hp rR rI s s' hz h

end Genshi.Incl

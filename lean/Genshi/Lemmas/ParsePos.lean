/-
  C07 — the positioned models (what the driver runs and the correspondence compares) project onto
  the position-free models (what the theorems are stated for): forgetting the positions commutes
  with `_coalesce`, with the `_generate` loop and with both layers.
-/
import Genshi.Lemmas.Parse
import Genshi.Model.ParseHtml
import Genshi.Model.ParseXml
namespace Genshi.Parse
open Genshi

theorem erase_flushBufP (buf : Option (Str × Pos)) : erase (flushBufP buf) = flushBuf (buf.map (·.1)) := by
  cases buf <;> simp [erase, flushBufP, flushBuf]

theorem erase_append (a b : PStream) : erase (a ++ b) = erase a ++ erase b := by simp [erase]

theorem erase_coalesceGoP (f : Bool) : ∀ (s : PStream) (buf : Option (Str × Pos)),
    erase (coalesceGoP f buf s) = coalesceGo f (buf.map (·.1)) (erase s)
  | [], buf => by
      cases f
      · simp [coalesceGoP, coalesceGo, erase]
      · simp only [coalesceGoP, ↓reduceIte, erase_flushBufP]; simp [erase, coalesceGo]
  | e :: es, buf => by
      obtain ⟨ev, p⟩ := e
      by_cases ht : isText ev = true
      · obtain ⟨s, b, rfl⟩ := (isText_iff ev).1 ht
        simp only [coalesceGoP, erase, List.map_cons]
        rw [coalesceGo_text]
        have ih := erase_coalesceGoP f es
        simp only [erase] at ih
        rw [ih]
        cases buf <;> simp
      · have h' : isText ev = false := by simpa using ht
        have hstep : coalesceGoP f buf ((ev, p) :: es) = flushBufP buf ++ (ev, p) :: coalesceGoP f none es := by
          cases ev <;> simp_all [coalesceGoP, isText]
        rw [hstep, erase_append, erase_flushBufP]
        have ih := erase_coalesceGoP f es none
        simp only [erase, List.map_cons, Option.map_none] at ih ⊢
        rw [ih, coalesceGo_nontext f _ ev _ h']

/-! ### simulation of the loop -/

section sim
variable {κ κ' cb cb' ε ε' : Type} (L : LayerG κ cb ε) (L' : LayerG κ' cb' ε')
  (π : κ → κ') (g : cb → cb') (fe : ε → ε')

/-- `L` (with positions) is simulated by `L'` (without) -/
def Simulates : Prop :=
  (∀ k c, L'.step (π k) (g c) = (match L.step k c with
      | .error e => .error e
      | .ok r => .ok (π r.1, r.2.map fe))) ∧
  (∀ k, L'.finish (π k) = (L.finish k).map fe)

theorem feed_sim (h : Simulates L L' π g fe) : ∀ (items : List (Item cb)) (k : κ) (q : List ε),
    feed L' (π k) (q.map fe) (items.map (Item.map g)) = (match feed L k q items with
      | .error e => .error e
      | .ok r => .ok (π r.1, r.2.map fe))
  | [], k, q => by simp [feed]
  | .raise e :: rest, k, q => by simp [feed, Item.map]
  | .cb c :: rest, k, q => by
      simp only [List.map_cons, Item.map, feed, h.1 k c]
      cases hs : L.step k c with
      | error e => simp
      | ok r =>
        obtain ⟨k1, evs⟩ := r
        simp only
        have := feed_sim h rest k1 (q ++ evs)
        simp only [List.map_append] at this
        rw [this]

theorem generate_sim (h : Simulates L L' π g fe) : ∀ (reads : List (Read cb)) (k : κ) (close : List (Item cb)),
    generate L' (π k) (reads.map (Read.map g)) (close.map (Item.map g)) =
      ((generate L k reads close).1.map fe, (generate L k reads close).2)
  | [], k, close => by
      simp only [List.map_nil, generate]
      have := feed_sim L L' π g fe h close k []
      simp only [List.map_nil] at this
      rw [this]
      cases feed L k [] close with
      | error e => simp
      | ok r => obtain ⟨k1, q⟩ := r; simp [h.2 k1]
  | .fail e :: rs, k, close => by simp [generate, Read.map]
  | .items l :: rs, k, close => by
      simp only [List.map_cons, Read.map, generate]
      have := feed_sim L L' π g fe h l k []
      simp only [List.map_nil] at this
      rw [this]
      cases feed L k [] l with
      | error e => simp
      | ok r =>
        obtain ⟨k1, q⟩ := r
        simp only
        rw [generate_sim h rs k1 close]
        simp
end sim

/-- forgetting positions commutes with `parse` -/
theorem parseP_erase {κ κ' cb cb' : Type} (L : LayerG κ cb PEvent) (L' : Layer κ' cb')
    (π : κ → κ') (g : cb → cb') (h : Simulates L L' π g (·.1)) (handler : PyExc → Raised) (k : κ)
    (reads : List (Read cb)) (close : List (Item cb)) :
    parse L' handler (π k) (reads.map (Read.map g)) (close.map (Item.map g)) =
      (erase (parseP L handler k reads close).1, (parseP L handler k reads close).2) := by
  unfold parse parseP
  rw [generate_sim L L' π g (·.1) h reads k close]
  cases hg : generate L k reads close with
  | mk evs err =>
    cases err with
    | none =>
      simp only
      have := erase_coalesceGoP true evs none
      simp only [erase, Option.map_none] at this ⊢
      rw [this]
    | some e =>
      simp only
      have := erase_coalesceGoP false evs none
      simp only [erase, Option.map_none] at this ⊢
      rw [this]

/-! ### the two layers -/

theorem html_simulates (env : Env) :
    Simulates (htmlLayerP env) (htmlLayer env) HStP.openTags Prod.fst (·.1) := by
  refine ⟨?_, ?_⟩
  · intro k c
    simp only [htmlLayerP, htmlLayer, htmlStepP]
    cases htmlStep env k.openTags c.1 with
    | error e => rfl
    | ok r => obtain ⟨o, evs⟩ := r; simp [Function.comp_def]
  · intro k
    simp [htmlLayerP, htmlLayer, closersP, closers, Function.comp_def]

theorem xml_simulates : Simulates xmlLayerP xmlLayer (fun _ => ()) Prod.fst (·.1) := by
  refine ⟨?_, ?_⟩
  · intro k c
    simp only [xmlLayerP, xmlLayer, xmlStepP]
    cases xmlStep () c.1 with
    | error e => rfl
    | ok r =>
      obtain ⟨u, evs⟩ := r
      simp only [List.map_map]
      have : (fun e => (stampXml c.2 e).1) = id := by
        funext e; cases e <;> simp [stampXml]
      simp [Function.comp_def, this]
  · intro k; simp [xmlLayerP, xmlLayer]

theorem htmlReads_map (reads : List HtmlReadP) :
    (reads.map (HtmlReadG.map Prod.fst)).map HtmlReadG.toRead = (reads.map HtmlReadG.toRead).map (Read.map Prod.fst) := by
  induction reads with
  | nil => rfl
  | cons r rs ih => cases r <;> simp [HtmlReadG.map, HtmlReadG.toRead, Read.map, Item.map, ih]

theorem xmlReads_map (reads : List XmlReadP) :
    (reads.map (XmlReadG.map Prod.fst)).map XmlReadG.toRead = (reads.map XmlReadG.toRead).map (Read.map Prod.fst) := by
  induction reads with
  | nil => rfl
  | cons r rs ih => cases r <;> simp [XmlReadG.map, XmlReadG.toRead, Read.map, Item.map, ih]

/-- what the driver computes, with the positions forgotten, is the position-free HTML model -/
theorem htmlParseP_erase (env : Env) (reads : List HtmlReadP) (close : List (Item (HtmlCb × Pos))) :
    htmlParse env (reads.map (HtmlReadG.map Prod.fst)) (close.map (Item.map Prod.fst)) =
      (erase (htmlParseP env reads close).1, (htmlParseP env reads close).2) := by
  unfold htmlParse htmlParseP
  rw [htmlReads_map]
  exact parseP_erase (htmlLayerP env) (htmlLayer env) HStP.openTags Prod.fst (html_simulates env) htmlHandler
    ⟨[], none⟩ _ close

theorem xmlParseP_erase (reads : List XmlReadP) (close : List (Item (XmlCb × Pos))) :
    xmlParse (reads.map (XmlReadG.map Prod.fst)) (close.map (Item.map Prod.fst)) =
      (erase (xmlParseP reads close).1, (xmlParseP reads close).2) := by
  unfold xmlParse xmlParseP
  rw [xmlReads_map]
  exact parseP_erase xmlLayerP xmlLayer (fun _ => ()) Prod.fst xml_simulates xmlHandler () _ close

end Genshi.Parse

namespace Genshi.Parse
open Genshi

/-! ### facts about the positions themselves -/

/-- `_coalesce` invents no position: every delivered position is the position of an incoming event -/
theorem coalesceGoP_positions (f : Bool) : ∀ (s : PStream) (buf : Option (Str × Pos)) (x : PEvent),
    x ∈ coalesceGoP f buf s → (∃ y ∈ s, y.2 = x.2) ∨ (∃ b, buf = some b ∧ b.2 = x.2)
  | [], buf, x, h => by
      cases f <;> cases buf <;> simp_all [coalesceGoP, flushBufP]
  | e :: es, buf, x, h => by
      obtain ⟨ev, p⟩ := e
      by_cases ht : isText ev = true
      · obtain ⟨s, b, rfl⟩ := (isText_iff ev).1 ht
        simp only [coalesceGoP] at h
        rcases coalesceGoP_positions f es _ x h with ⟨y, hy, hp⟩ | ⟨b', hb, hp⟩
        · exact Or.inl ⟨y, List.mem_cons_of_mem _ hy, hp⟩
        · cases buf with
          | none =>
            simp only [Option.some.injEq] at hb
            subst hb
            exact Or.inl ⟨_, List.mem_cons_self, hp⟩
          | some b0 =>
            simp only [Option.some.injEq] at hb
            subst hb
            exact Or.inr ⟨b0, rfl, hp⟩
      · have h' : isText ev = false := by simpa using ht
        have hstep : coalesceGoP f buf ((ev, p) :: es) = flushBufP buf ++ (ev, p) :: coalesceGoP f none es := by
          cases ev <;> simp_all [coalesceGoP, isText]
        rw [hstep] at h
        simp only [List.mem_append, List.mem_cons] at h
        rcases h with h | h | h
        · cases buf with
          | none => simp [flushBufP] at h
          | some b0 =>
            simp only [flushBufP, List.mem_singleton] at h
            subst h
            exact Or.inr ⟨b0, rfl, rfl⟩
        · subst h; exact Or.inl ⟨_, List.mem_cons_self, rfl⟩
        · rcases coalesceGoP_positions f es none x h with ⟨y, hy, hp⟩ | ⟨b', hb, _⟩
          · exact Or.inl ⟨y, List.mem_cons_of_mem _ hy, hp⟩
          · simp at hb

theorem getLast?_stamp (p : Pos) : ∀ (l : Stream), l ≠ [] →
    ∃ e, (l.map fun e => (e, p)).getLast? = some (e, p)
  | [], h => absurd rfl h
  | [e], _ => ⟨e, rfl⟩
  | e :: e' :: es, _ => by
      obtain ⟨x, hx⟩ := getLast?_stamp p (e' :: es) (by simp)
      exact ⟨x, by simpa [List.getLast?_cons_cons] using hx⟩

/-- the position a state remembers after a batch is the position of the last event of the batch -/
theorem run_html_last (env : Env) : ∀ (items : List (Item (HtmlCb × Pos))) (k k' : HStP) (q : PStream),
    run (htmlLayerP env) k items = .ok (k', q) →
    k'.last = (match q.getLast? with
      | some x => some x.2
      | none => k.last)
  | [], k, k', q, h => by
      simp only [run, Except.ok.injEq, Prod.mk.injEq] at h
      obtain ⟨rfl, rfl⟩ := h; rfl
  | .raise e :: rest, k, k', q, h => by simp [run] at h
  | .cb c :: rest, k, k', q, h => by
      rw [run] at h
      cases hs : (htmlLayerP env).step k c with
      | error e => simp [hs] at h
      | ok r =>
        obtain ⟨k1, evs1⟩ := r
        simp only [hs] at h
        cases hr : run (htmlLayerP env) k1 rest with
        | error e => simp [hr] at h
        | ok r' =>
          obtain ⟨k2, q2⟩ := r'
          have ih := run_html_last env rest k1 k2 q2 hr
          simp only [hr, Except.ok.injEq, Prod.mk.injEq] at h
          obtain ⟨rfl, rfl⟩ := h
          rw [ih]
          -- what the step did
          simp only [htmlLayerP, htmlStepP] at hs
          cases hh : htmlStep env k.openTags c.1 with
          | error e => simp [hh] at hs
          | ok r0 =>
            obtain ⟨o, evs⟩ := r0
            simp only [hh, Except.ok.injEq, Prod.mk.injEq] at hs
            obtain ⟨rfl, rfl⟩ := hs
            cases hq : q2.getLast? with
            | some x => simp [List.getLast?_append, hq]
            | none =>
              have : q2 = [] := by simpa using hq
              subst this
              cases evs with
              | nil => simp
              | cons e es =>
                obtain ⟨x, hx⟩ := getLast?_stamp c.2 (e :: es) (by simp)
                simp only [List.append_nil, hx]

end Genshi.Parse

/-
  Reference-level facts about the paths SimplePathStrategy supports, seen as a list of
  fragments: `first/descendant::F1…/descendant-or-self::F2…/…`.

  * unfolding `Ref.reach` one tree level for a fragment (`reach_selfFrag`, `reach_dosFrag`, …);
  * the DOMINATION lemma (`semIc_dom`): once a fragment is completed at a node `c`, whatever
    other ways there are to match that fragment at or below `c` select nothing that the
    rest of the path does not already select from `c` — because the rest starts with a
    descendant / descendant-or-self step (`Mono`);
  * `semIc_step`: the set "the start of the fragment anywhere below, or any matched prefix
    continued here" (`SemIc`) pushed one tree level down.
-/
import Genshi.Lemmas.PathReach
import Genshi.Lemmas.PathKmpRun
namespace Genshi.Path.Frags
open Genshi Genshi.Path Genshi.Path.Ref Genshi.Path.Kmp

/-! ## Induction over located nodes -/

mutual
  theorem lnInd (P : LNode → Prop) (h : ∀ c, (∀ k ∈ childrenOf c, P k) → P c) :
      ∀ (n : Node) (loc : List Nat), P ⟨loc, n⟩
    | .elem tg a ks, loc => h _ (by
        intro k hk
        exact lnIndList P h ks loc 0 k hk)
    | .leaf e, loc => h _ (by intro k hk; simp [childrenOf] at hk)
  theorem lnIndList (P : LNode → Prop) (h : ∀ c, (∀ k ∈ childrenOf c, P k) → P c) :
      ∀ (ks : List Node) (loc : List Nat) (i : Nat), ∀ k ∈ kidsAt ks loc i, P k
    | [], _, _ => by intro k hk; simp [kidsAt] at hk
    | x :: ks, loc, i => by
        intro k hk
        simp only [kidsAt, List.zipIdx_cons, List.map_cons, List.mem_cons] at hk
        rcases hk with rfl | hk
        · exact lnInd P h x (loc ++ [i])
        · exact lnIndList P h ks loc (i + 1) k hk
end

section
variable (ns : NsMap) (xvs : XVars)

theorem nonpos_nopreds (ax : Axis) (g : NodeTest) : NonPositional ns xvs ⟨ax, g, []⟩ := by
  intro p hp; simp at hp

theorem hitR_nopreds (ax : Axis) (g : NodeTest) (c : LNode) :
    hitR ns xvs ⟨ax, g, []⟩ c = testNode g c.node ns := by
  simp [hitR]

/-- `self::g/child::G…/R` -/
theorem reach_selfFrag (g : NodeTest) (G : List NodeTest) (R : LocPath) (c t : LNode) :
    reach ns xvs (fragPath .self (g :: G) ++ R) c t
      = (testNode g c.node ns && reach ns xvs (childChain G ++ R) c t) := by
  simp only [fragPath, List.cons_append]
  rw [reach_self ns xvs _ _ (nonpos_nopreds ns xvs _ _) rfl, hitR_nopreds]

/-- `child::g/child::G…/R` -/
theorem reach_chain_cons (g : NodeTest) (G : List NodeTest) (R : LocPath) (c t : LNode) :
    reach ns xvs (childChain (g :: G) ++ R) c t
      = (childrenOf c).any fun k => reach ns xvs (fragPath .self (g :: G) ++ R) k t := by
  simp only [childChain, List.map_cons, List.cons_append, fragPath]
  rw [reach_child ns xvs _ _ (nonpos_nopreds ns xvs _ _) rfl]
  rfl

/-- `descendant-or-self::g/child::G…/R` -/
theorem reach_dosFrag (g : NodeTest) (G : List NodeTest) (R : LocPath) (c t : LNode) :
    reach ns xvs (fragPath .descendantOrSelf (g :: G) ++ R) c t
      = ((testNode g c.node ns && reach ns xvs (childChain G ++ R) c t) ||
         (childrenOf c).any fun k => reach ns xvs (fragPath .descendantOrSelf (g :: G) ++ R) k t) := by
  simp only [fragPath, List.cons_append]
  rw [reach_dos ns xvs _ _ (nonpos_nopreds ns xvs _ _) rfl, hitR_nopreds]

/-- `descendant::g/child::G…/R` -/
theorem reach_descFrag (g : NodeTest) (G : List NodeTest) (R : LocPath) (c t : LNode) :
    reach ns xvs (fragPath .descendant (g :: G) ++ R) c t
      = (childrenOf c).any fun k => reach ns xvs (fragPath .descendantOrSelf (g :: G) ++ R) k t := by
  simp only [fragPath, List.cons_append]
  rw [reach_desc ns xvs _ _ (nonpos_nopreds ns xvs _ _) rfl]
  rfl

/-! ## Domination -/

/-- what a path selects from a child it selects from the parent (true of every path that
    starts with a descendant / descendant-or-self step) -/
def Mono (R : LocPath) (t : LNode) : Prop :=
  ∀ c : LNode, ∀ k ∈ childrenOf c, reach ns xvs R k t = true → reach ns xvs R c t = true

theorem mono_dos (g : NodeTest) (G : List NodeTest) (R : LocPath) (t : LNode) :
    Mono ns xvs (fragPath .descendantOrSelf (g :: G) ++ R) t := by
  intro c k hk h
  rw [reach_dosFrag]
  simp only [Bool.or_eq_true, List.any_eq_true]
  exact Or.inr ⟨k, hk, h⟩

theorem mono_desc (g : NodeTest) (G : List NodeTest) (R : LocPath) (t : LNode) :
    Mono ns xvs (fragPath .descendant (g :: G) ++ R) t := by
  intro c k hk h
  rw [reach_descFrag] at h ⊢
  simp only [List.any_eq_true] at h ⊢
  obtain ⟨k', hk', h'⟩ := h
  refine ⟨k, hk, ?_⟩
  rw [reach_dosFrag]
  simp only [Bool.or_eq_true, List.any_eq_true]
  exact Or.inr ⟨k', hk', h'⟩

/-- child steps in front of a monotone path add nothing -/
theorem chain_dom (R : LocPath) (t : LNode) (hm : Mono ns xvs R t) :
    ∀ (G : List NodeTest) (c : LNode), reach ns xvs (childChain G ++ R) c t = true → reach ns xvs R c t = true := by
  intro G
  induction G with
  | nil => intro c h; simpa [childChain] using h
  | cons g G ih =>
    intro c h
    rw [reach_chain_cons] at h
    simp only [List.any_eq_true] at h
    obtain ⟨k, hk, h⟩ := h
    rw [reach_selfFrag] at h
    simp only [Bool.and_eq_true] at h
    exact hm c k hk (ih k h.2)

/-- a descendant-or-self step in front of a path dominated by a monotone path -/
theorem dos_dom (g : NodeTest) (Y R : LocPath) (t : LNode) (hm : Mono ns xvs R t)
    (hY : ∀ c, reach ns xvs Y c t = true → reach ns xvs R c t = true) :
    ∀ c : LNode, reach ns xvs (⟨.descendantOrSelf, g, []⟩ :: Y) c t = true → reach ns xvs R c t = true := by
  intro c
  obtain ⟨loc, n⟩ := c
  refine lnInd (fun c => reach ns xvs (⟨.descendantOrSelf, g, []⟩ :: Y) c t = true → reach ns xvs R c t = true)
    ?_ n loc
  intro c ih h
  rw [reach_dos ns xvs _ _ (nonpos_nopreds ns xvs _ _) rfl] at h
  simp only [Bool.or_eq_true, Bool.and_eq_true, List.any_eq_true] at h
  rcases h with ⟨_, h⟩ | ⟨k, hk, h⟩
  · exact hY c h
  · exact hm c k hk (ih k hk h)

/-! ## The candidate set of a fragment that can start anywhere -/

/-- What a KMP fragment `F` (followed by the rest `R` of the path) still selects at or below a
    node `c`, when `rw` is the chain of events since the fragment became current: the fragment
    may start at `c` or anywhere below, or a prefix that matches the end of the chain is
    continued at `c`. -/
def SemIc (F : List NodeTest) (R : LocPath) (rw : List Event) (c t : LNode) : Prop :=
  reach ns xvs (fragPath .descendantOrSelf F ++ R) c t = true ∨
  ∃ b, 0 < b ∧ b < F.length ∧ Suf (Fof F) F.length (textOf ns rw) rw.length b ∧
       reach ns xvs (fragPath .self (F.drop b) ++ R) c t = true

theorem drop_Fof (F : List NodeTest) (b : Nat) (hb : b < F.length) : F.drop b = Fof F b :: F.drop (b + 1) := by
  rw [List.drop_eq_getElem_cons hb]
  congr 1
  have := getElem?_Fof F b hb
  rw [List.getElem?_eq_getElem hb] at this
  exact Option.some.inj this

/-- **domination**: whatever is still possible inside a fragment selects nothing that the rest
    of the path does not select from the same node -/
theorem semIc_dom (F : List NodeTest) (hF : F ≠ []) (R : LocPath) (rw : List Event) (t : LNode)
    (hm : Mono ns xvs R t) (c : LNode) (h : SemIc ns xvs F R rw c t) : reach ns xvs R c t = true := by
  rcases h with h | ⟨b, _, hb, _, h⟩
  · cases F with
    | nil => exact absurd rfl hF
    | cons g G =>
      simp only [fragPath, List.cons_append] at h
      exact dos_dom ns xvs g _ R t hm (chain_dom ns xvs R t hm G) c h
  · rw [drop_Fof F b hb, reach_selfFrag] at h
    simp only [Bool.and_eq_true] at h
    exact chain_dom ns xvs R t hm _ c h.2

/-- `self::F[b]/child::F[b+1]…/R` one level down -/
theorem reach_self_drop (F : List NodeTest) (R : LocPath) (b : Nat) (hb : b < F.length) (c t : LNode) :
    reach ns xvs (fragPath .self (F.drop b) ++ R) c t = true ↔
      testNode (Fof F b) c.node ns = true ∧
        ((b + 1 = F.length ∧ reach ns xvs R c t = true) ∨
         (b + 1 < F.length ∧ ∃ k ∈ childrenOf c, reach ns xvs (fragPath .self (F.drop (b + 1)) ++ R) k t = true)) := by
  rw [drop_Fof F b hb, reach_selfFrag]
  simp only [Bool.and_eq_true]
  by_cases hb1 : b + 1 < F.length
  · rw [drop_Fof F (b + 1) hb1, reach_chain_cons]
    simp only [List.any_eq_true]
    constructor
    · rintro ⟨h1, h2⟩; exact ⟨h1, Or.inr ⟨hb1, h2⟩⟩
    · rintro ⟨h1, ⟨h2, _⟩ | ⟨_, h2⟩⟩
      · omega
      · exact ⟨h1, h2⟩
  · have hnil : F.drop (b + 1) = [] := List.drop_eq_nil_of_le (by omega)
    rw [hnil]
    simp only [childChain, List.map_nil, List.nil_append]
    constructor
    · rintro ⟨h1, h2⟩; exact ⟨h1, Or.inl ⟨by omega, h2⟩⟩
    · rintro ⟨h1, ⟨_, h2⟩ | ⟨h2, _⟩⟩
      · exact ⟨h1, h2⟩
      · omega

/-- the candidate set pushed one tree level down: either the fragment is completed at `c`
    (then the rest of the path takes over from `c`), or a candidate lives on in a child -/
theorem semIc_step (F : List NodeTest) (hF : F ≠ []) (R : LocPath) (rw : List Event) (c t : LNode) (e : Event)
    (hmt : ∀ i, i < F.length → (Fof F i).matches e ns = testNode (Fof F i) c.node ns) :
    SemIc ns xvs F R rw c t ↔
      ((Suf (Fof F) F.length (textOf ns (e :: rw)) (rw.length + 1) F.length ∧ reach ns xvs R c t = true) ∨
       ∃ k ∈ childrenOf c, SemIc ns xvs F R (e :: rw) k t) := by
  have hn : 0 < F.length := by cases F <;> simp_all
  have hpush : ∀ b, Suf (Fof F) F.length (textOf ns (e :: rw)) (rw.length + 1) (b + 1) ↔
      (b < F.length ∧ testNode (Fof F b) c.node ns = true ∧ Suf (Fof F) F.length (textOf ns rw) rw.length b) := by
    intro b
    rw [textOf_cons, Suf_push]
    constructor
    · rintro ⟨h1, h2, h3⟩; exact ⟨h1, by rw [← hmt b h1]; exact h2, h3⟩
    · rintro ⟨h1, h2, h3⟩; exact ⟨h1, by rw [hmt b h1]; exact h2, h3⟩
  -- the first alternative of `SemIc`, unfolded: the fragment starts at `c` itself (prefix 0) or below
  have hdos : reach ns xvs (fragPath .descendantOrSelf F ++ R) c t = true ↔
      (reach ns xvs (fragPath .self (F.drop 0) ++ R) c t = true ∨
       ∃ k ∈ childrenOf c, reach ns xvs (fragPath .descendantOrSelf F ++ R) k t = true) := by
    cases F with
    | nil => exact absurd rfl hF
    | cons g G =>
      rw [reach_dosFrag, List.drop_zero, reach_selfFrag]
      simp only [Bool.or_eq_true, List.any_eq_true]
  constructor
  · rintro (h | ⟨b, hb0, hb, hsuf, h⟩)
    · rcases hdos.mp h with h | ⟨k, hk, h⟩
      · obtain ⟨h1, h2⟩ := (reach_self_drop ns xvs F R 0 hn c t).mp h
        have hs1 : Suf (Fof F) F.length (textOf ns (e :: rw)) (rw.length + 1) (0 + 1) :=
          (hpush 0).mpr ⟨hn, h1, Suf.zero _ _ _ _⟩
        rcases h2 with ⟨hl, h2⟩ | ⟨hl, k, hk, h2⟩
        · left; rw [hl] at hs1; exact ⟨hs1, h2⟩
        · right; exact ⟨k, hk, Or.inr ⟨0 + 1, by omega, hl, hs1, h2⟩⟩
      · right; exact ⟨k, hk, Or.inl h⟩
    · obtain ⟨h1, h2⟩ := (reach_self_drop ns xvs F R b hb c t).mp h
      have hs1 : Suf (Fof F) F.length (textOf ns (e :: rw)) (rw.length + 1) (b + 1) :=
        (hpush b).mpr ⟨hb, h1, hsuf⟩
      rcases h2 with ⟨hl, h2⟩ | ⟨hl, k, hk, h2⟩
      · left; rw [hl] at hs1; exact ⟨hs1, h2⟩
      · right; exact ⟨k, hk, Or.inr ⟨b + 1, by omega, hl, hs1, h2⟩⟩
  · rintro (⟨hsuf, h⟩ | ⟨k, hk, h | ⟨b', hb0, hb, hsuf, h⟩⟩)
    · obtain ⟨b, hb⟩ : ∃ b, F.length = b + 1 := ⟨F.length - 1, by omega⟩
      have hsuf' : Suf (Fof F) F.length (textOf ns (e :: rw)) (rw.length + 1) (b + 1) := by
        rw [← hb]; exact hsuf
      obtain ⟨g1, g2, g3⟩ := (hpush b).mp hsuf'
      have hr : reach ns xvs (fragPath .self (F.drop b) ++ R) c t = true :=
        (reach_self_drop ns xvs F R b g1 c t).mpr ⟨g2, Or.inl ⟨by omega, h⟩⟩
      by_cases hb0 : b = 0
      · subst hb0; exact Or.inl (hdos.mpr (Or.inl hr))
      · exact Or.inr ⟨b, by omega, g1, g3, hr⟩
    · exact Or.inl (hdos.mpr (Or.inr ⟨k, hk, h⟩))
    · obtain ⟨b, rfl⟩ : ∃ b, b' = b + 1 := ⟨b' - 1, by omega⟩
      obtain ⟨g1, g2, g3⟩ := (hpush b).mp hsuf
      have hr : reach ns xvs (fragPath .self (F.drop b) ++ R) c t = true :=
        (reach_self_drop ns xvs F R b g1 c t).mpr ⟨g2, Or.inr ⟨hb, k, hk, h⟩⟩
      by_cases hb0' : b = 0
      · subst hb0'; exact Or.inl (hdos.mpr (Or.inl hr))
      · exact Or.inr ⟨b, by omega, g1, g3, hr⟩

/-- at the start of a fragment (empty chain) only the first alternative is there -/
theorem semIc_nil (F : List NodeTest) (R : LocPath) (c t : LNode) :
    SemIc ns xvs F R [] c t ↔ reach ns xvs (fragPath .descendantOrSelf F ++ R) c t = true := by
  constructor
  · rintro (h | ⟨b, hb0, _, hsuf, _⟩)
    · exact h
    · have := hsuf.2.1; simp at this; omega
  · exact Or.inl

end
end Genshi.Path.Frags

/-
  C12 — the real matcher (`Path.test(ignore_context=True)` of the C05/C17 path model) against the
  matcher laws of the C12 theorems.

  * `FlagFree`: literally (no strategy reads `updateonly`).
  * `Lawful` (an END undoes its START): not literally — GenericStrategy's store of counter lists only
    grows — but the closure is *simulated* (`TRel`, Lemmas/MatchSim.lean) by a machine that is lawful
    for every state: per location path
      - GenericStrategy without position tests → the position machine `aStep` of C05
        (`gStep_abstract`), whose state is the stack of candidate positions only;
      - SingleStepStrategy (pattern mode keeps no depth) without position tests → itself: its
        counters never move;
      - SimplePathStrategy → itself: one stack entry pushed per START, one popped per END;
    and the union dispatcher `_multi` component by component.
  * With a position test the law fails: `real_positional_not_lawful` (Props/C12.lean).
-/
import Genshi.Lemmas.MatchSim
import Genshi.Lemmas.MatchMarks
import Genshi.Lemmas.MatchPipeline
import Genshi.Lemmas.PathNonPos
import Genshi.Model.MatchReal
namespace Genshi.Match
open Genshi Genshi.Path

/-- state of the simulating machine for one location path -/
inductive AM where
  | g (a : AState)
  | s (s : SState)
  | p (s : PState)

theorem isStart_eq (e : Event) : e.isStart = isStart e := by cases e <;> rfl
theorem isEnd_eq (e : Event) : e.isEnd = isEnd e := by cases e <;> rfl

section
variable (ns : NsMap) (vs : Vars)

def aMatcherStep (m : Matcher) (st : AM) (e : Event) : AM × Val :=
  match m, st with
  | .generic S, .g a =>
      (.g (aStep ns vs (S.take (realLen S)) S.length a e).1, (aStep ns vs (S.take (realLen S)) S.length a e).2)
  | .single steps ic, .s s => (.s (sStep steps ic ns vs s e).1, (sStep steps ic ns vs s e).2)
  | .simple frags ic, .p s => (.p (pStep frags ic ns s e).1, (pStep frags ic ns s e).2)
  | _, st => (st, .none)

/-- the static conditions under which the matcher of one location path is simulated by a lawful
    machine: no position tests; GenericStrategy's path does not end in an attribute step -/
def MatcherOk : Matcher → Prop
  | .generic S => realLen (S.take (realLen S)) = realLen S ∧ NoPositional ns vs (S.take (realLen S)) ∧
      0 < realLen S ∧ ∀ e, lastResult S e ns = .bool true
  | .single steps ic => ic = true ∧ ∀ s0, steps.head? = some s0 → ∀ p ∈ s0.preds, ∀ e, (p.eval e ns vs).isNum = false
  | .simple _ ic => ic = true

def MRel : Matcher → MState → AM → Prop
  | .generic S, .g g, .g a => StRel (realLen S) g a
  | .single _ _, .s s, .s s' => s = s'
  | .simple _ _, .p s, .p s' => s = s'
  | _, _, _ => False

theorem gate_true (v : Val) (h : v = .none ∨ v = .bool true) : gate (.bool true) v = v := by
  rcases h with rfl | rfl <;> simp [gate, Val.truthy]

theorem matcher_sim (m : Matcher) (hm : MatcherOk ns vs m) (s : MState) (a : AM) (h : MRel m s a) (e : Event) :
    MRel m (m.step ns vs s e).1 (aMatcherStep ns vs m a e).1 ∧ (m.step ns vs s e).2 = (aMatcherStep ns vs m a e).2 := by
  cases m with
  | generic S =>
    cases s <;> cases a <;> simp only [MRel] at h
    rename_i g a
    obtain ⟨hrl, hnp, _, hlast⟩ := hm
    obtain ⟨h1, h2⟩ := gStep_abstract ns vs S hrl hnp g a h e
    refine ⟨h1, ?_⟩
    show (gStep S ns vs g e).2 = _
    rw [h2, hlast e]
    exact gate_true _ (aStep_out ns vs _ _ a e)
  | single steps ic =>
    cases s <;> cases a <;> simp only [MRel] at h
    subst h
    exact ⟨rfl, rfl⟩
  | simple frags ic =>
    cases s <;> cases a <;> simp only [MRel] at h
    subst h
    exact ⟨rfl, rfl⟩

theorem sPreds_nonpos (e : Event) (preds : List Expr) (h : ∀ p ∈ preds, (p.eval e ns vs).isNum = false) :
    ∀ (cnum : Nat) (counters : List Nat),
      sPreds e ns vs preds cnum counters = (preds.all (fun p => (p.eval e ns vs).truthy), counters) := by
  induction preds with
  | nil => intro cnum counters; rfl
  | cons p ps ih =>
    intro cnum counters
    have hp := h p List.mem_cons_self
    have ih := ih (fun q hq => h q (List.mem_cons_of_mem _ hq))
    simp only [sPreds, List.all_cons]
    cases hv : p.eval e ns vs with
    | num x => rw [hv] at hp; simp [Val.isNum] at hp
    | _ => simp only [ih] <;> split <;> simp_all

/-- SingleStepStrategy in pattern mode without position tests never changes its state -/
theorem sStep_fixed (steps : List Step)
    (h : ∀ s0, steps.head? = some s0 → ∀ p ∈ s0.preds, ∀ e, (p.eval e ns vs).isNum = false)
    (st : SState) (e : Event) : (sStep steps true ns vs st e).1 = st := by
  unfold sStep
  by_cases he : e.isEnd = true
  · simp [he]
  · simp only [he, Bool.false_eq_true, if_false]
    by_cases hm : e.isNsOrCdata = true
    · simp [hm]
    · simp only [hm, Bool.false_eq_true, if_false]
      cases hh : steps.head? with
      | none => rfl
      | some s0 =>
        cases hl : steps.getLast? with
        | none => rfl
        | some sl =>
          simp only [Bool.not_true, Bool.false_and, if_false, Bool.false_eq_true]
          by_cases ht : s0.test.matches e ns = true
          · simp only [ht, Bool.not_true, Bool.false_eq_true, if_false]
            rw [sPreds_nonpos ns vs e s0.preds (fun p hp => h s0 hh p hp e)]
            simp only
            split <;> (try split) <;> rfl
          · simp [ht]

/-- SimplePathStrategy pushes exactly one stack entry per START -/
theorem pStep_start (frags : List Frag) (ic : Bool) (st : PState) (tg : QName) (at_ : AttrList) :
    ((pStep (some frags) ic ns st (.start tg at_)).1).drop 1 = st := by
  unfold pStep
  simp only [Event.isEnd, Event.isNsOrCdata, Event.isStart, Bool.false_eq_true, if_false, if_true]
  (repeat' split) <;> first | rfl | simp_all

/-- SimplePathStrategy leaves its stack alone on events that are neither START nor END -/
theorem pStep_leaf (frags : Option (List Frag)) (st : PState) (e : Event)
    (h1 : e.isStart = false) (h2 : e.isEnd = false) : (pStep frags true ns st e).1 = st := by
  unfold pStep
  cases frags with
  | none => rfl
  | some fr =>
    simp only [h1, h2, Bool.false_eq_true, if_false]
    (repeat' split) <;> first | rfl | (cases st <;> simp_all)

theorem matcher_lawful (m : Matcher) (hm : MatcherOk ns vs m) (a : AM) (tg : QName) (at_ : AttrList) :
    (aMatcherStep ns vs m (aMatcherStep ns vs m a (.start tg at_)).1 (.end_ tg)).1 = a := by
  cases m with
  | generic S =>
    cases a with
    | g a => simp [aMatcherStep, aStep, Event.isEnd, Event.isNsOrCdata, Event.isStart]
    | s _ => rfl
    | p _ => rfl
  | single steps ic =>
    cases a with
    | s s =>
      obtain ⟨rfl, h⟩ := hm
      simp only [aMatcherStep, sStep_fixed ns vs steps h]
    | g _ => rfl
    | p _ => rfl
  | simple frags ic =>
    cases a with
    | p s =>
      simp only [aMatcherStep]
      cases frags with
      | none => rfl
      | some fr =>
        have := pStep_start ns fr ic s tg at_
        simp only [pStep, Event.isEnd, if_true] at this ⊢
        rw [this]
    | g _ => rfl
    | s _ => rfl

theorem matcher_leafFree (m : Matcher) (hm : MatcherOk ns vs m) (a : AM) (e : Event)
    (h1 : e.isStart = false) (h2 : e.isEnd = false) : (aMatcherStep ns vs m a e).1 = a := by
  cases m with
  | generic S =>
    cases a with
    | g a =>
      simp only [aMatcherStep, aStep, h1, h2, Bool.false_eq_true, if_false]
      split <;> rfl
    | s _ => rfl
    | p _ => rfl
  | single steps ic =>
    cases a with
    | s s =>
      obtain ⟨rfl, h⟩ := hm
      simp only [aMatcherStep, sStep_fixed ns vs steps h]
    | g _ => rfl
    | p _ => rfl
  | simple frags ic =>
    cases a with
    | p s =>
      have hic : ic = true := hm
      subst hic
      simp only [aMatcherStep, pStep_leaf ns frags s e h1 h2]
    | g _ => rfl
    | s _ => rfl

/-! ### the union dispatcher -/

def aMulti : List Matcher → List AM → Event → List AM × Val
  | m :: ms, s :: ss, e =>
    ((aMatcherStep ns vs m s e).1 :: (aMulti ms ss e).1,
     if (aMatcherStep ns vs m s e).2.isNone then (aMulti ms ss e).2 else (aMatcherStep ns vs m s e).2)
  | [], ss, _ => (ss, .none)
  | _ :: _, [], _ => ([], .none)

/-- the simulating closure: `_multi` over the component machines, verdict `result is True` -/
def absStep (ms : List Matcher) (st : List AM) (e : Event) (_u : Bool) : List AM × Bool :=
  ((aMulti ns vs ms st e).1, (aMulti ns vs ms st e).2 == Val.bool true)

inductive LMRel : List Matcher → List MState → List AM → Prop
  | nil : LMRel [] [] []
  | cons {m s a ms ss as} : MRel m s a → LMRel ms ss as → LMRel (m :: ms) (s :: ss) (a :: as)

theorem foldl_keep (l : List Val) (acc : Val) (h : acc.isNone = false) :
    l.foldl (fun acc v => if acc.isNone then v else acc) acc = acc := by
  induction l with
  | nil => rfl
  | cons v l ih => simp [List.foldl, h, ih]

theorem isNone_eq {v : Val} (h : v.isNone = true) : v = .none := by
  cases v <;> simp_all [Val.isNone]

theorem multiStep_cons (m : Matcher) (ms : List Matcher) (s : MState) (ss : List MState) (e : Event) :
    multiStep (m :: ms) ns vs (s :: ss) e =
      ((m.step ns vs s e).1 :: (multiStep ms ns vs ss e).1,
       if (m.step ns vs s e).2.isNone then (multiStep ms ns vs ss e).2 else (m.step ns vs s e).2) := by
  simp only [multiStep, List.zip_cons_cons, List.map_cons, List.foldl_cons]
  congr 1
  by_cases hv : (m.step ns vs s e).2.isNone = true
  · rw [if_pos hv, isNone_eq hv]
    rfl
  · have hv' : (m.step ns vs s e).2.isNone = false := by simpa using hv
    rw [if_neg hv]
    have h0 : (Val.none).isNone = true := rfl
    rw [if_pos h0]
    exact foldl_keep _ _ hv'

theorem multi_sim : ∀ {ms : List Matcher} {ss : List MState} {as : List AM}, (∀ m ∈ ms, MatcherOk ns vs m) →
    LMRel ms ss as → ∀ e, LMRel ms (multiStep ms ns vs ss e).1 (aMulti ns vs ms as e).1 ∧
      (multiStep ms ns vs ss e).2 = (aMulti ns vs ms as e).2 := by
  intro ms ss as hok h
  induction h with
  | nil => intro e; exact ⟨.nil, rfl⟩
  | @cons m s a ms ss as hm hrest ih =>
    intro e
    obtain ⟨h1, h2⟩ := matcher_sim ns vs m (hok m List.mem_cons_self) s a hm e
    obtain ⟨i1, i2⟩ := ih (fun x hx => hok x (List.mem_cons_of_mem _ hx)) e
    rw [multiStep_cons]
    simp only [aMulti]
    exact ⟨.cons h1 i1, by rw [h2, i2]⟩

theorem multi_lawful : ∀ (ms : List Matcher), (∀ m ∈ ms, MatcherOk ns vs m) → ∀ (st : List AM) (tg : QName) (at_ : AttrList),
    (aMulti ns vs ms (aMulti ns vs ms st (.start tg at_)).1 (.end_ tg)).1 = st := by
  intro ms
  induction ms with
  | nil => intro _ st tg at_; rfl
  | cons m ms ih =>
    intro hok st tg at_
    cases st with
    | nil => rfl
    | cons s ss =>
      simp only [aMulti]
      rw [matcher_lawful ns vs m (hok m List.mem_cons_self), ih (fun x hx => hok x (List.mem_cons_of_mem _ hx))]

theorem multi_leafFree : ∀ (ms : List Matcher), (∀ m ∈ ms, MatcherOk ns vs m) → ∀ (st : List AM) (e : Event),
    e.isStart = false → e.isEnd = false → (aMulti ns vs ms st e).1 = st := by
  intro ms
  induction ms with
  | nil => intro _ st e _ _; rfl
  | cons m ms ih =>
    intro hok st e h1 h2
    cases st with
    | nil => rfl
    | cons s ss =>
      simp only [aMulti]
      rw [matcher_leafFree ns vs m (hok m List.mem_cons_self) s e h1 h2,
        ih (fun x hx => hok x (List.mem_cons_of_mem _ hx)) ss e h1 h2]

/-! ### the templates -/

def initA : Matcher → AM
  | .generic _ => .g [[0]]
  | .single _ _ => .s ⟨[], 0⟩
  | .simple _ _ => .p []

/-- the simulating template of `mkReal` -/
def mkAbs (paths : List LocPath) (body : List BItem) (h : Hints) (force : Option Strategy := none) : MT (List AM) :=
  MT.ofHints (absStep ns vs (pathTest paths true force).1) ((pathTest paths true force).1.map initA) body h

/-- every location path of the union is in the lawful (non-positional) subset -/
def PathsOk (paths : List LocPath) (force : Option Strategy := none) : Prop :=
  ∀ m ∈ (pathTest paths true force).1, MatcherOk ns vs m

theorem mk_rel (st : Strategy) (p : LocPath) (hm : MatcherOk ns vs (mkMatcher st p true).1) :
    MRel (mkMatcher st p true).1 (mkMatcher st p true).2 (initA (mkMatcher st p true).1) := by
  cases st with
  | generic =>
    simp only [mkMatcher, initA, MRel, MatcherOk] at hm ⊢
    exact ⟨rfl, by simp [gInit], by simp [gInit, hm.2.2.1]⟩
  | single => simp [mkMatcher, initA, MRel]
  | simple => simp [mkMatcher, initA, MRel]

theorem init_rel (paths : List LocPath) (force : Option Strategy) (hok : PathsOk ns vs paths force) :
    LMRel (pathTest paths true force).1 (pathTest paths true force).2 ((pathTest paths true force).1.map initA) := by
  unfold PathsOk at hok
  simp only [pathTest, List.map_map] at hok ⊢
  induction paths with
  | nil => exact .nil
  | cons p ps ih =>
    simp only [List.map_cons]
    refine .cons ?_ (ih (fun m hm => hok m (by simp only [List.map_cons]; exact List.mem_cons_of_mem _ hm)))
    have hm := hok _ (by simp only [List.map_cons]; exact List.mem_cons_self)
    exact mk_rel ns vs _ p hm

/-- the relation between the states of `mkReal` and of `mkAbs` -/
def RealRel (ms : List Matcher) (s : RSt) (a : List AM) : Prop := LMRel ms s a

theorem real_step_sim (ms : List Matcher) (hok : ∀ m ∈ ms, MatcherOk ns vs m) (s : RSt) (a : List AM) (e : Event) (u : Bool)
    (h : RealRel ms s a) :
    RealRel ms (realStep ms ns vs s e u).1 (absStep ns vs ms a e u).1 ∧
      (realStep ms ns vs s e u).2 = (absStep ns vs ms a e u).2 := by
  obtain ⟨h1, h2⟩ := multi_sim ns vs hok h e
  exact ⟨h1, by simp only [realStep, absStep, h2]⟩

/-- **the real matcher is simulated by its abstraction** -/
theorem real_trel (paths : List LocPath) (body : List BItem) (h : Hints) (force : Option Strategy)
    (hok : PathsOk ns vs paths force) : TRel (mkReal paths ns vs body h force) (mkAbs ns vs paths body h force) :=
  ⟨RealRel (pathTest paths true force).1,
   fun s t e u _ hr => real_step_sim ns vs _ hok s t e u hr,
   init_rel ns vs paths force hok, rfl, rfl, rfl, rfl, rfl, rfl⟩

theorem abs_lawful (paths : List LocPath) (body : List BItem) (h : Hints) (force : Option Strategy)
    (hok : PathsOk ns vs paths force) : Lawful (mkAbs ns vs paths body h force) := by
  intro st tg at_ u u'
  exact multi_lawful ns vs _ hok st tg at_

theorem abs_leafFree (paths : List LocPath) (body : List BItem) (h : Hints) (force : Option Strategy)
    (hok : PathsOk ns vs paths force) : LeafFree (mkAbs ns vs paths body h force) := by
  intro st e u h1 h2
  exact multi_leafFree ns vs _ hok st e (by rw [isStart_eq]; exact h1) (by rw [isEnd_eq]; exact h2)

theorem abs_flagFree (paths : List LocPath) (body : List BItem) (h : Hints) (force : Option Strategy) :
    FlagFree (mkAbs ns vs paths body h force) := fun _ _ _ _ => rfl

/-- **FlagFree, literally**: the closure of the path model does not read `updateonly` -/
theorem real_flagFree (paths : List LocPath) (body : List BItem) (h : Hints) (force : Option Strategy) :
    FlagFree (mkReal paths ns vs body h force) := fun _ _ _ _ => rfl

/-- the marks of the real matcher over any event list are the verdicts of `runTest` (C05/C17) -/
theorem real_marks (ms : List Matcher) : ∀ (es : List Event) (st : RSt),
    (marksOf (realStep ms ns vs) st es).1 = (runTest ms ns vs st es).map (· == Val.bool true) := by
  intro es
  induction es with
  | nil => intro st; rfl
  | cons e es ih => intro st; simp [marksOf, runTest, realStep, ih]

/-- related states give the same marks, over every kind of event -/
theorem marks_sim (ms : List Matcher) (hok : ∀ m ∈ ms, MatcherOk ns vs m) : ∀ (es : List Event) (s : RSt) (a : List AM),
    RealRel ms s a → (marksOf (realStep ms ns vs) s es).1 = (marksOf (absStep ns vs ms) a es).1 := by
  intro es
  induction es with
  | nil => intro s a _; rfl
  | cons e es ih =>
    intro s a h
    obtain ⟨h1, h2⟩ := real_step_sim ns vs ms hok s a e false h
    simp only [marksOf, h2, ih _ _ h1]

/-- a step list with the static hypotheses of C05 (`StepsOk`: no attribute step, well-formed tests,
    typed predicates, none of them a position test) is in the lawful subset under GenericStrategy -/
theorem matcherOk_generic (S : List Step) (h : StepsOk ns vs S) : MatcherOk ns vs (.generic S) := by
  have hrl := h.realLen ns vs
  have htake : S.take (realLen S) = S := by rw [hrl]; exact List.take_length
  refine ⟨by rw [htake], ?_, by rw [hrl]; exact h.ne, fun e => h.lastResult ns vs e⟩
  rw [htake]
  intro s hs q hq e
  rw [isNum_eval, h.nonpos s hs q hq]

/-- a single step without position tests is in the lawful subset under SingleStepStrategy (pattern mode) -/
theorem matcherOk_single (steps : List Step) (h : ∀ s0, steps.head? = some s0 → ∀ q ∈ s0.preds, q.numTyped vs = false) :
    MatcherOk ns vs (.single steps true) :=
  ⟨rfl, fun s0 hs q hq e => by rw [isNum_eval, h s0 hs q hq]⟩

end

end Genshi.Match

/-
  Footprints: the actions of a link touch only the buffer the link writes (`copy` / `cut`) or
  reads (an injector with a buffer as content).
-/
import Genshi.Lemmas.TfLazy
namespace Genshi.Tf

theorem actsIn_single_out (w r : List Nat) (x : MItem) : ActsIn w r [.out x] := by
  intro a h; simp at h; subst h; simp [Act.wr, Act.rd]

theorem actsIn_cons {w r : List Nat} {a : Act} {as : List Act}
    (ha : (∀ i ∈ a.wr, i ∈ w) ∧ (∀ i ∈ a.rd, i ∈ r)) (has : ActsIn w r as) : ActsIn w r (a :: as) := by
  intro x hx
  rcases List.mem_cons.mp hx with rfl | h
  · exact ha
  · exact has x h

theorem actsIn_keep (w r : List Nat) (keep : Bool) (p : MItem) : ActsIn w r (keepAct keep p) := by
  unfold keepAct; split
  · exact actsIn_single_out w r p
  · exact ActsIn.nil w r

theorem mapStep_fp (w r : List Nat) (g : MItem → MItem) (c c' : Ctl) (p : MItem) (acts : List Act)
    (h : mapStep g c p = some (c', acts)) : ActsIn w r acts := by
  cases c <;> simp [mapStep] at h
  obtain ⟨_, rfl⟩ := h
  exact actsIn_single_out w r _

theorem runStep_fp {w r : List Nat} {pre post : List Act} (hpre : ActsIn w r pre) (hpost : ActsIn w r post)
    (keep : Bool) (st : RunSt) (p : MItem) : ActsIn w r (runStep pre post keep st p).2 := by
  obtain ⟨m, x⟩ := p
  cases st with
  | idle =>
    cases m with
    | none => exact actsIn_single_out w r _
    | some m => exact hpre.append (actsIn_keep w r keep _)
  | inEnter =>
    simp only [runStep]
    split
    · exact (actsIn_keep w r keep _).append hpost
    · exact actsIn_keep w r keep _
  | inRun m0 =>
    simp only [runStep]
    split
    · exact actsIn_keep w r keep _
    · cases m with
      | none => exact hpost.append (actsIn_single_out w r _)
      | some m' => exact hpost.append (hpre.append (actsIn_keep w r keep _))

theorem runStepC_fp {w r : List Nat} {pre post : List Act} (hpre : ActsIn w r pre) (hpost : ActsIn w r post)
    (keep : Bool) (c c' : Ctl) (p : MItem) (acts : List Act)
    (h : runStepC pre post keep c p = some (c', acts)) : ActsIn w r acts := by
  cases c <;> simp [runStepC] at h
  obtain ⟨_, rfl⟩ := h
  exact runStep_fp hpre hpost keep _ p

theorem runFinC_fp {w r : List Nat} {post : List Act} (hpost : ActsIn w r post) (c : Ctl) (acts : List Act)
    (h : runFinC post c = some acts) : ActsIn w r acts := by
  cases c <;> simp [runFinC] at h
  subst h
  rename_i st
  cases st
  · exact ActsIn.nil w r
  · exact hpost
  · exact hpost

theorem actsIn_inj (w : List Nat) (c : Content) : ActsIn w (match c with | .buf id => [id] | _ => []) [.inj c] := by
  intro a h; simp at h; subst h
  cases c <;> simp [Act.wr, Act.rd]

theorem newSel_fp (id : Nat) (acc : Bool) (x : MEv) : ActsIn [id] [] (newSel id acc x) := by
  intro a h
  simp only [newSel, List.mem_append, List.mem_cons, List.not_mem_nil, or_false] at h
  rcases h with h | h
  · split at h
    · simp at h
    · simp at h; subst h; simp [Act.wr, Act.rd]
  · subst h; simp [Act.wr, Act.rd]

theorem actsIn_app (id : Nat) (x : MEv) : ActsIn [id] [] [.app id x] := by
  intro a h; simp at h; subst h; simp [Act.wr, Act.rd]

theorem copyStep_fp (id : Nat) (acc : Bool) (st : RunSt) (pend : MStream) (p : MItem) :
    ActsIn [id] [] (copyStep id acc st pend p).2 := by
  obtain ⟨m, x⟩ := p
  cases st with
  | idle =>
    cases m with
    | none => exact actsIn_single_out _ _ _
    | some m => exact newSel_fp id acc x
  | inEnter =>
    simp only [copyStep]
    split
    · exact actsIn_cons (by simp [Act.wr, Act.rd]) (ActsIn.outs _ _ _)
    · exact actsIn_app id x
  | inRun m0 =>
    simp only [copyStep]
    split
    · exact actsIn_app id x
    · cases m with
      | none => exact (ActsIn.outs _ _ _).append (actsIn_single_out _ _ _)
      | some m' => exact (ActsIn.outs _ _ _).append (newSel_fp id acc x)

theorem cutSel_fp (id : Nat) (acc broken : Bool) (x : MEv) : ActsIn [id] [] (cutSel id acc broken x) := by
  intro a h
  simp only [cutSel, List.mem_append, List.mem_cons, List.not_mem_nil, or_false] at h
  rcases h with h | h
  · split at h
    · simp at h
    · simp only [List.mem_append, List.mem_cons, List.not_mem_nil, or_false] at h
      rcases h with h | h
      · split at h
        · simp at h
        · simp at h; subst h; simp [Act.wr, Act.rd]
      · subst h; simp [Act.wr, Act.rd]
  · subst h; simp [Act.wr, Act.rd]

theorem cutStep_fp (id : Nat) (acc : Bool) (st : RunSt) (broken : Bool) (names : List QName) (p : MItem)
    (c' : Ctl) (acts : List Act) (h : cutStep id acc st broken names p = some (c', acts)) :
    ActsIn [id] [] acts := by
  obtain ⟨m, x⟩ := p
  cases st with
  | idle =>
    cases m with
    | none => simp [cutStep] at h; obtain ⟨_, rfl⟩ := h; exact actsIn_single_out _ _ _
    | some m => simp [cutStep] at h; obtain ⟨_, rfl⟩ := h; exact cutSel_fp id acc broken x
  | inEnter => simp [cutStep] at h; obtain ⟨_, rfl⟩ := h; exact actsIn_app id x
  | inRun m0 =>
    simp only [cutStep] at h
    split at h
    · simp at h; obtain ⟨_, rfl⟩ := h; exact actsIn_app id x
    · split at h
      · simp at h
      · cases m with
        | none => simp at h; obtain ⟨_, rfl⟩ := h; exact actsIn_single_out _ _ _
        | some m' => simp at h; obtain ⟨_, rfl⟩ := h; exact cutSel_fp id acc false x

theorem filStep_fp (w r : List Nat) (f : List MEv → List MEv) (st : FilSt) (q : List MEv) (p : MItem) :
    ActsIn w r (filStep f st q p).2 := by
  obtain ⟨m, x⟩ := p
  cases st with
  | idle =>
    simp only [filStep]
    split
    · exact ActsIn.nil w r
    · split
      · exact ActsIn.nil w r
      · exact actsIn_single_out w r _
  | inEnter =>
    simp only [filStep]
    split
    · exact ActsIn.outs w r _
    · exact ActsIn.nil w r
  | inOutside =>
    simp only [filStep]
    split
    · exact ActsIn.nil w r
    · exact (ActsIn.outs w r _).append (actsIn_single_out w r _)

theorem selStep_fp (w r : List Nat) (d : Nat) (rs : List Res) (ok : Bool) (p : MItem) :
    ActsIn w r (selStep d rs ok p).2 := by
  obtain ⟨m, x⟩ := p
  cases d with
  | zero =>
    cases m with
    | none => exact actsIn_single_out w r _
    | some m =>
      cases hh : rs.headD .none <;> simp only [selStep, hh] <;>
        first
          | exact actsIn_single_out w r _
          | (split <;> exact actsIn_single_out w r _)
          | exact actsIn_cons (by simp [Act.wr, Act.rd]) (actsIn_single_out w r _)
  | succ d =>
    simp only [selStep]
    split <;> exact actsIn_single_out w r _

theorem actsIn_inj_rd (w : List Nat) (op : Op) (c : Content) (h : ∀ id, c = .buf id → id ∈ rdOp op) :
    ActsIn w (rdOp op) [.inj c] := by
  intro a ha; simp at ha; subst ha
  cases c with
  | buf id => simp only [Act.wr, Act.rd, List.not_mem_nil, false_imp_iff, implies_true, List.mem_cons, or_false,
      forall_eq, true_and]; exact h id rfl
  | str s => simp [Act.wr, Act.rd]
  | evs s => simp [Act.wr, Act.rd]

theorem stepOp_fp (op : Op) (c c' : Ctl) (p : MItem) (acts : List Act)
    (h : stepOp op c p = some (c', acts)) : ActsIn (wrOp op) (rdOp op) acts := by
  obtain ⟨m, x⟩ := p
  cases op with
  | select rs =>
    cases c <;> simp only [stepOp, Option.some.injEq] at h <;> try simp at h
    have h2 := congrArg Prod.snd h
    simp only at h2
    rw [← h2]
    exact selStep_fp _ _ _ _ _ _
  | selectFail => simp [stepOp] at h
  | invert => exact mapStep_fp _ _ _ c c' _ acts h
  | endSel => exact mapStep_fp _ _ _ c c' _ acts h
  | rename n => exact mapStep_fp _ _ _ c c' _ acts h
  | attr n v => exact mapStep_fp _ _ _ c c' _ acts h
  | attrFn n f => exact mapStep_fp _ _ _ c c' _ acts h
  | mapBang all => exact mapStep_fp _ _ _ c c' _ acts h
  | subst pt r n => exact mapStep_fp _ _ _ c c' _ acts h
  | buffer => exact mapStep_fp _ _ _ c c' _ acts h
  | trace => exact mapStep_fp _ _ _ c c' _ acts h
  | mapText f => exact mapStep_fp _ _ _ c c' _ acts h
  | empty =>
    cases c <;> simp only [stepOp] at h <;> try simp at h
    rename_i b
    cases b
    · simp at h; obtain ⟨_, rfl⟩ := h; exact actsIn_single_out _ _ _
    · simp only at h
      split at h
      · simp at h; obtain ⟨_, rfl⟩ := h; exact actsIn_single_out _ _ _
      · simp at h; obtain ⟨_, rfl⟩ := h; exact ActsIn.nil _ _
  | remove =>
    cases c <;> simp only [stepOp] at h <;> try simp at h
    split at h
    · simp at h; obtain ⟨_, rfl⟩ := h; exact ActsIn.nil _ _
    · simp at h; obtain ⟨_, rfl⟩ := h; exact ActsIn.nil _ _
    · split at h
      · simp at h; obtain ⟨_, rfl⟩ := h; exact actsIn_single_out _ _ _
      · simp at h; obtain ⟨_, rfl⟩ := h; exact actsIn_single_out _ _ _
  | unwrap =>
    cases c <;> simp only [stepOp] at h <;> try simp at h
    obtain ⟨_, rfl⟩ := h
    split
    · exact actsIn_single_out _ _ _
    · exact ActsIn.nil _ _
  | prepend ct =>
    cases c <;> simp only [stepOp] at h <;> try simp at h
    obtain ⟨_, rfl⟩ := h
    split
    · exact actsIn_cons (by simp [Act.wr, Act.rd]) (actsIn_inj_rd _ _ ct (by intro id hc; subst hc; simp [rdOp, readsOf]))
    · exact actsIn_single_out _ _ _
  | append ct =>
    cases c <;> simp only [stepOp] at h <;> try simp at h
    rename_i l
    cases l with
    | none => simp at h; obtain ⟨_, rfl⟩ := h; exact actsIn_single_out _ _ _
    | some l =>
      simp only at h
      split at h
      · simp at h; obtain ⟨_, rfl⟩ := h
        exact (actsIn_inj_rd _ _ ct (by intro id hc; subst hc; simp [rdOp, readsOf])).append (actsIn_single_out _ _ _)
      · simp at h; obtain ⟨_, rfl⟩ := h; exact actsIn_single_out _ _ _
  | replace ct =>
    exact runStepC_fp (actsIn_inj_rd _ _ ct (by intro id hc; subst hc; simp [rdOp, readsOf])) (ActsIn.nil _ _) _ c c' _ acts h
  | before ct =>
    exact runStepC_fp (actsIn_inj_rd _ _ ct (by intro id hc; subst hc; simp [rdOp, readsOf])) (ActsIn.nil _ _) _ c c' _ acts h
  | after ct =>
    exact runStepC_fp (ActsIn.nil _ _) (actsIn_inj_rd _ _ ct (by intro id hc; subst hc; simp [rdOp, readsOf])) _ c c' _ acts h
  | wrap t a kids =>
    exact runStepC_fp (ActsIn.outs _ _ _) (actsIn_single_out _ _ _) _ c c' _ acts h
  | copy id acc =>
    cases c <;> simp only [stepOp, Option.some.injEq] at h <;> try simp at h
    have h2 := congrArg Prod.snd h
    simp only at h2
    rw [← h2]
    exact copyStep_fp id acc _ _ _
  | cut id acc =>
    cases c <;> simp only [stepOp] at h <;> try simp at h
    exact cutStep_fp id acc _ _ _ _ c' acts h
  | filter f =>
    cases c <;> simp only [stepOp, Option.some.injEq] at h <;> try simp at h
    have h2 := congrArg Prod.snd h
    simp only at h2
    rw [← h2]
    exact filStep_fp _ _ f _ _ _

theorem finOp_fp (op : Op) (c : Ctl) (acts : List Act) (h : finOp op c = some acts) :
    ActsIn (wrOp op) (rdOp op) acts := by
  cases op with
  | select rs =>
    cases c <;> simp [finOp] at h
    obtain ⟨_, rfl⟩ := h
    exact ActsIn.nil _ _
  | selectFail => simp [finOp] at h
  | append ct =>
    cases c <;> simp only [finOp] at h <;> try simp at h
    rename_i l
    cases l with
    | none => simp at h; subst h; exact ActsIn.nil _ _
    | some l =>
      simp at h; subst h
      exact (actsIn_inj_rd _ _ ct (by intro id hc; subst hc; simp [rdOp, readsOf])).append (actsIn_single_out _ _ _)
  | replace ct => exact runFinC_fp (ActsIn.nil _ _) c acts h
  | before ct => exact runFinC_fp (ActsIn.nil _ _) c acts h
  | after ct => exact runFinC_fp (actsIn_inj_rd _ _ ct (by intro id hc; subst hc; simp [rdOp, readsOf])) c acts h
  | wrap t a kids => exact runFinC_fp (actsIn_single_out _ _ _) c acts h
  | copy id acc =>
    cases c <;> simp [finOp] at h
    subst h; exact ActsIn.outs _ _ _
  | cut id acc =>
    cases c <;> simp [finOp] at h
    subst h
    split
    · exact ActsIn.nil _ _
    · exact actsIn_single_out _ _ _
  | filter f =>
    cases c <;> simp [finOp] at h
    subst h
    split
    · exact ActsIn.nil _ _
    · exact ActsIn.outs _ _ _
  | invert => simp [finOp] at h; subst h; exact ActsIn.nil _ _
  | endSel => simp [finOp] at h; subst h; exact ActsIn.nil _ _
  | empty => simp [finOp] at h; subst h; exact ActsIn.nil _ _
  | remove => simp [finOp] at h; subst h; exact ActsIn.nil _ _
  | unwrap => simp [finOp] at h; subst h; exact ActsIn.nil _ _
  | prepend ct => simp [finOp] at h; subst h; exact ActsIn.nil _ _
  | attr n v => simp [finOp] at h; subst h; exact ActsIn.nil _ _
  | rename n => simp [finOp] at h; subst h; exact ActsIn.nil _ _
  | attrFn n f => simp [finOp] at h; subst h; exact ActsIn.nil _ _
  | buffer => simp [finOp] at h; subst h; exact ActsIn.nil _ _
  | trace => simp [finOp] at h; subst h; exact ActsIn.nil _ _
  | mapText f => simp [finOp] at h; subst h; exact ActsIn.nil _ _
  | mapBang all => simp [finOp] at h; subst h; exact ActsIn.nil _ _
  | subst pt r n => simp [finOp] at h; subst h; exact ActsIn.nil _ _

theorem proOf_fp (op : Op) : ActsIn (wrOp op) (rdOp op) (proOf op) := by
  cases op with
  | cut id acc =>
    cases acc
    · intro a h; simp [proOf] at h; subst h; simp [Act.wr, Act.rd, wrOp]
    · exact ActsIn.nil _ _
  | _ => exact ActsIn.nil _ _

end Genshi.Tf

/-
  C13 — `parse_gen`: subscripts / slices and comprehensions.
-/
import Genshi.Lemmas.PyParseSeq
namespace Genshi.Py
open Genshi.Gen

/-! ### subscripts -/

def OptGoal (o : Option PyExpr) : Prop := ∀ x, o = some x → ExprGoal x

def SliceGoal (s : PyExpr) : Prop :=
  (isSlice s = false ∧ ExprGoal s) ∨ ∃ l u st, s = .slice l u st ∧ OptGoal l ∧ OptGoal u ∧ OptGoal st

def sliceToks : PyExpr → List Tok
  | .slice l u st => genOpt [] l ++ tColon :: (genOpt [] u ++ genOpt [tColon] st)
  | s => gen s

theorem gen_subscript (v s : PyExpr) : gen (.subscript v s) = gen v ++ tLB :: (sliceToks s ++ [tRB]) := by
  cases s with
  | const c =>
    obtain ⟨kind, t⟩ := c
    cases kind <;> rfl
  | _ => rfl

theorem head_facts {x : PyExpr} (g : ExprGoal x) (rest : List Tok) :
    ∃ t r, gen x ++ rest = t :: r ∧ atomStart t = true := headOK_cons_append rest g.head

theorem isSliceEnd_head {t : Tok} (h : atomStart t = true) (r : List Tok) : isSliceEnd (t :: r) = false := by
  unfold isSliceEnd
  split
  · rename_i heq; have := (List.cons.inj heq).1; subst this; simp [atomStart] at h
  · rename_i heq; have := (List.cons.inj heq).1; subst this; simp [atomStart] at h
  · simp at *
  · rfl

theorem sliceLower_opt (o : Option PyExpr) (go : OptGoal o) (m : Nat) (hm : szO o * 8 + 1 ≤ m) (r : List Tok) :
    sliceLower (knot m) (genOpt [] o ++ tColon :: r) = some (o, tColon :: r) := by
  cases o with
  | none => simp [genOpt, sliceLower, tColon]
  | some x =>
    have gx := go x rfl
    simp only [szO] at hm
    obtain ⟨t, r', h1, h2⟩ := head_facts gx (tColon :: r)
    have he := gx.kexpr (M := m) (by simp only [need]; omega) (tColon :: r) rfl
    simp only [genOpt, List.nil_append]
    rw [h1] at he ⊢
    unfold sliceLower
    split
    · rename_i heq; have := (List.cons.inj heq).1; subst this; simp [atomStart] at h2
    · simp [he]

theorem sliceUpper_opt (o : Option PyExpr) (go : OptGoal o) (m : Nat) (hm : szO o * 8 + 1 ≤ m) (r : List Tok)
    (hr : (∃ r', r = tColon :: r') ∨ (∃ r', r = tRB :: r')) :
    sliceUpper (knot m) (genOpt [] o ++ r) = some (o, r) := by
  cases o with
  | none =>
    rcases hr with ⟨r', rfl⟩ | ⟨r', rfl⟩ <;> simp [genOpt, sliceUpper, tColon, tRB, isSliceEnd]
  | some x =>
    have gx := go x rfl
    simp only [szO] at hm
    obtain ⟨t, r', h1, h2⟩ := head_facts gx r
    have hc : closedE r = true := by rcases hr with ⟨r', rfl⟩ | ⟨r', rfl⟩ <;> rfl
    have he := gx.kexpr (M := m) (by simp only [need]; omega) r hc
    simp only [genOpt, List.nil_append]
    rw [h1] at he ⊢
    unfold sliceUpper
    split
    · rename_i heq; have := (List.cons.inj heq).1; subst this; simp [atomStart] at h2
    · simp [isSliceEnd_head h2, he]

theorem sliceStep_some (x : PyExpr) (gx : ExprGoal x) (m : Nat) (hm : need x + 1 ≤ m) (r : List Tok) :
    sliceStep (knot m) (gen x ++ tRB :: r) = some (some x, tRB :: r) := by
  obtain ⟨t, r', h1, h2⟩ := head_facts gx (tRB :: r)
  have he := gx.kexpr (M := m) hm (tRB :: r) rfl
  rw [h1] at he ⊢
  simp [sliceStep, isSliceEnd_head h2, he]

theorem sliceF_ok (s : PyExpr) (h : SliceGoal s) (m : Nat) (hm : need s + 1 ≤ m) (rest : List Tok) :
    sliceF (knot m) (sliceToks s ++ tRB :: rest) = some (s, tRB :: rest)
      ∧ atCloser tRB (sliceToks s ++ tRB :: rest) = false := by
  rcases h with ⟨hns, gs⟩ | ⟨l, u, st, rfl, gl, gu, gst⟩
  · have hst : sliceToks s = gen s := by cases s <;> first | rfl | simp [isSlice] at hns
    obtain ⟨t, r', h1, h2⟩ := head_facts gs (tRB :: rest)
    have he := gs.kexpr (M := m) hm (tRB :: rest) rfl
    rw [hst, h1] at *
    constructor
    · unfold sliceF
      split
      · rename_i heq; have := (List.cons.inj heq).1; subst this; simp [atomStart] at h2
      · have hl : sliceLower (knot m) (t :: r') = some (some s, tRB :: rest) := by
          unfold sliceLower
          split
          · rename_i heq; have := (List.cons.inj heq).1; subst this; simp [atomStart] at h2
          · simp [he]
        simp [hl, tRB]
    · simp only [atCloser]
      simpa using fun e => by subst e; simp [atomStart, tRB] at h2
  · simp only [need, sz] at hm
    have hlow := sliceLower_opt l gl m (by omega) (genOpt [] u ++ genOpt [tColon] st ++ tRB :: rest)
    constructor
    · have hstart : ∀ r, genOpt [] l ++ tColon :: (genOpt [] u ++ genOpt [tColon] st ++ tRB :: rest) ≠ tStar :: r := by
        intro r e
        cases l with
        | none => simp [genOpt, tColon, tStar] at e
        | some x =>
          obtain ⟨t, r', h1, h2⟩ := head_facts (gl x rfl) (tColon :: (genOpt [] u ++ genOpt [tColon] st ++ tRB :: rest))
          simp only [genOpt, List.nil_append] at e
          rw [h1] at e
          have := (List.cons.inj e).1; subst this; simp [atomStart, tStar] at h2
      simp only [sliceToks, List.append_assoc, List.cons_append]
      simp only [List.append_assoc] at hlow hstart
      unfold sliceF
      split
      · rename_i r heq; exact absurd heq (hstart r)
      · cases st with
        | none =>
          have hup := sliceUpper_opt u gu m (by omega) (tRB :: rest) (Or.inr ⟨rest, rfl⟩)
          simp only [genOpt, List.nil_append, tColon, tRB] at hup hlow ⊢
          simp [hlow, hup]
        | some x =>
          have gx := gst x rfl
          simp only [szO] at hm
          have hup := sliceUpper_opt u gu m (by omega) (tColon :: (gen x ++ tRB :: rest)) (Or.inl ⟨_, rfl⟩)
          have hstp := sliceStep_some x gx m (by simp only [need]; omega) rest
          simp only [genOpt, List.cons_append, List.nil_append, List.append_assoc, tColon, tRB] at hup hlow hstp ⊢
          simp [hlow, hup, hstp]
    · cases l with
      | none => simp [sliceToks, genOpt, atCloser, tColon, tRB]
      | some x =>
        obtain ⟨t, r', h1, h2⟩ := head_facts (gl x rfl) (tColon :: (genOpt [] u ++ genOpt [tColon] st ++ tRB :: rest))
        simp only [sliceToks, genOpt, List.nil_append, List.append_assoc, List.cons_append] at h1 ⊢
        rw [h1]
        simp only [atCloser]
        simpa using fun e => by subst e; simp [atomStart, tRB] at h2

theorem trailersF_sub (k : Knot) (e : PyExpr) (r : List Tok) :
    trailersF k e (tLB :: r) = (k.items .slices tRB [] false r).bind fun y =>
      match y.2 with
      | .op [']'] :: r2 =>
          match y.1.1, y.1.2 with
          | [], _ => none
          | [x], false => if isStar x then k.trailers (.subscript e (.tuple [x])) r2 else k.trailers (.subscript e x) r2
          | _, _ => k.trailers (.subscript e (.tuple y.1.1)) r2
      | _ => none := rfl

theorem goal_subscript (v s : PyExpr) (gv : ExprGoal v) (hs : SliceGoal s) : ExprGoal (.subscript v s) := by
  have hg := gen_subscript v s
  refine ⟨?_, ?_, ?_⟩
  · intro M hM rest
    have h1 := need_ge v
    have h2 := cS_lt_sz v
    simp only [need, sz] at hM
    rw [hg, List.append_assoc, gv.spine M (by simp only [need]; omega)]
    obtain ⟨m, hm⟩ : ∃ m, M - cS v = m + 2 := ⟨M - cS v - 2, by omega⟩
    have hcs : M - cS (.subscript v s) = m + 1 := by simp only [cS]; omega
    rw [hm, hcs, knot_trailers]
    simp only [List.cons_append, List.append_assoc, List.nil_append]
    rw [trailersF_sub, knot_items]
    obtain ⟨hsl, hat⟩ := sliceF_ok s hs m (by simp only [need]; omega) rest
    have : itemsF (knot m) .slices tRB [] false (sliceToks s ++ tRB :: rest) = some (([s], false), tRB :: rest) := by
      have := itemsF_last (knot m) .slices tRB [] false (sliceToks s ++ tRB :: rest) s rest hat
        (by simpa [itemF] using hsl) (by decide)
      simpa using this
    rw [this]
    have hns : isStar s = false := by
      rcases hs with ⟨_, gs⟩ | ⟨l, u, st, rfl, _⟩
      · cases s with
        | starred x => have := gs.head; simp [gen, headOK, atomStart, tStar] at this
        | _ => rfl
      · rfl
    simp [tRB, hns]
  · rw [hg]; exact headOK_append _ gv.head
  · intro rest _
    rw [hg, List.append_assoc]
    exact gv.nokw _ rfl

/-! ### comprehensions -/

def CompGoal (c : PyExpr) : Prop :=
  ∃ t it ifs a, c = .comp t it ifs a ∧ ExprGoal t ∧ ExprGoal it ∧ ∀ x ∈ ifs, ExprGoal x

theorem gen_comp (t it : PyExpr) (ifs : List PyExpr) (a : Bool) :
    gen (.comp t it ifs a) = (if a then [kw cs!"async"] else []) ++
      kw cs!"for" :: (gen t ++ kw cs!"in" :: (gen it ++ genList [kw cs!"if"] [] ifs)) := by
  simp [gen]

theorem ifsF_if (k : Knot) (acc : List PyExpr) (r : List Tok) :
    ifsF k acc (.name ['i', 'f'] :: r) = (k.disj r).bind fun a => k.ifs (a.1 :: acc) a.2 := rfl

theorem ifsF_stop (k : Knot) (acc : List PyExpr) (toks : List Tok) (h : stopsIf toks = true) :
    ifsF k acc toks = some (acc.reverse, toks) := by
  unfold ifsF
  split
  · simp [stopsIf] at h
  · rfl

theorem closedD_ifList (xs : List PyExpr) (rest : List Tok) (h : closedE rest = true) :
    closedD (genList [kw cs!"if"] [] xs ++ rest) = true := by
  cases xs with
  | nil => simpa [genList_nil] using closedE_D h
  | cons x xs => simp [genList_cons]; rfl

theorem ifs_loop (xs : List PyExpr) (hx : ∀ x ∈ xs, ExprGoal x) :
    ∀ (acc : List PyExpr) (M : Nat), 8 * szL xs + 1 ≤ M → ∀ rest, closedE rest = true →
      (knot M).ifs acc (genList [kw cs!"if"] [] xs ++ rest) = some (acc.reverse ++ xs, rest) := by
  induction xs with
  | nil =>
    intro acc M hM rest hc
    obtain ⟨m, rfl⟩ : ∃ m, M = m + 1 := ⟨M - 1, by omega⟩
    simp [genList_nil, ifsF_stop _ _ _ (closedE_if hc)]
  | cons x xs ih =>
    intro acc M hM rest hc
    simp only [szL] at hM
    obtain ⟨m, rfl⟩ : ∃ m, M = m + 2 := ⟨M - 2, by omega⟩
    have gx := hx x (by simp)
    have hd := gx.disj (M := m) (by simp only [need]; omega) (genList [kw cs!"if"] [] xs ++ rest)
      (closedD_ifList xs rest hc)
    simp only [genList_cons, List.append_nil, List.append_assoc, List.cons_append, List.nil_append, kw, knot_ifs]
    rw [ifsF_if, knot_disj]
    simp only [kw] at hd
    rw [hd]
    simp only [Option.bind_some]
    have := ih (fun y hy => hx y (by simp [hy])) (x :: acc) (m + 1) (by omega) rest hc
    simp only [kw] at this
    rw [this]
    simp

theorem itemF_targets (k : Knot) (toks : List Tok) (h : ∀ r, toks ≠ tStar :: r) :
    itemF k .targets toks = primaryF k toks := by
  simp only [itemF]
  split
  · rename_i r; exact absurd rfl (h r)
  · rfl

theorem clauseF_def (k : Knot) (acc : List PyExpr) (isAsync : Bool) (r : List Tok) :
    clauseF k acc isAsync r = (k.items .targets (kw cs!"in") [] false r).bind fun y =>
      (match y.1.1, y.1.2 with
        | [], _ => none
        | [t], false => some t
        | ts, _ => some (.tuple ts)).bind fun target =>
      match y.2 with
      | .name ['i', 'n'] :: r2 => (k.disj r2).bind fun a => (k.ifs [] a.2).bind fun b =>
          k.comps (.comp target a.1 b.1 isAsync :: acc) b.2
      | _ => none := rfl

theorem clauseF_ok (t it : PyExpr) (ifs : List PyExpr) (a : Bool) (gt : ExprGoal t) (git : ExprGoal it)
    (gifs : ∀ x ∈ ifs, ExprGoal x) (m : Nat) (hm : 8 * sz (.comp t it ifs a) + 1 ≤ m) (acc : List PyExpr)
    (rest : List Tok) (hr : closedE rest = true) :
    clauseF (knot m) acc a (gen t ++ kw cs!"in" :: (gen it ++ (genList [kw cs!"if"] [] ifs ++ rest)))
      = (knot m).comps (.comp t it ifs a :: acc) rest := by
  simp only [sz] at hm
  obtain ⟨m', rfl⟩ : ∃ m', m = m' + 1 := ⟨m - 1, by omega⟩
  obtain ⟨t0, r0, h1, h2, h3⟩ := head_ne gt.head (kw cs!"in" :: (gen it ++ (genList [kw cs!"if"] [] ifs ++ rest)))
    (u := kw cs!"in") (by decide)
  have hns : ∀ r, gen t ++ kw cs!"in" :: (gen it ++ (genList [kw cs!"if"] [] ifs ++ rest)) ≠ tStar :: r := by
    intro r e
    rw [h1] at e
    have := (List.cons.inj e).1; subst this; simp [atomStart, tStar] at h3
  have hat : atCloser (kw cs!"in") (gen t ++ kw cs!"in" :: (gen it ++ (genList [kw cs!"if"] [] ifs ++ rest))) = false := by
    rw [h1]; simpa [atCloser] using h2
  have hp := gt.prim (M := m') (by simp only [need]; omega)
    (kw cs!"in" :: (gen it ++ (genList [kw cs!"if"] [] ifs ++ rest))) rfl
  have hitems : (knot (m'+1)).items .targets (kw cs!"in") [] false
      (gen t ++ kw cs!"in" :: (gen it ++ (genList [kw cs!"if"] [] ifs ++ rest)))
      = some (([t], false), kw cs!"in" :: (gen it ++ (genList [kw cs!"if"] [] ifs ++ rest))) := by
    rw [knot_items]
    have := itemsF_last (knot m') .targets (kw cs!"in") [] false _ t _ hat
      (by rw [itemF_targets _ _ hns]; exact hp) (by decide)
    simpa using this
  have hd := git.kdisj (M := m'+1) (by simp only [need]; omega) (genList [kw cs!"if"] [] ifs ++ rest)
    (closedD_ifList ifs rest hr)
  have hifs := ifs_loop ifs gifs [] (m'+1) (by omega) rest hr
  rw [clauseF_def, hitems]
  simp only [Option.bind_some, kw]
  simp only [kw] at hd hifs
  rw [hd]
  simp only [Option.bind_some]
  rw [hifs]
  simp

def compEnd (rest : List Tok) : Prop := (∃ r, rest = tRP :: r) ∨ (∃ r, rest = tRB :: r)

theorem closedE_compList (gens : List PyExpr) (hg : ∀ c ∈ gens, CompGoal c) (rest : List Tok) (he : compEnd rest) :
    closedE (genList [] [] gens ++ rest) = true := by
  cases gens with
  | nil => rcases he with ⟨r, rfl⟩ | ⟨r, rfl⟩ <;> rfl
  | cons c gens =>
    obtain ⟨t, it, ifs, a, rfl, _⟩ := hg c (by simp)
    cases a <;> simp [genList_cons, gen_comp] <;> rfl

theorem comps_loop (gens : List PyExpr) (hg : ∀ c ∈ gens, CompGoal c) :
    ∀ (acc : List PyExpr) (M : Nat), 8 * szL gens + 2 ≤ M → ∀ rest, compEnd rest →
      (knot M).comps acc (genList [] [] gens ++ rest) = some (acc.reverse ++ gens, rest) := by
  induction gens with
  | nil =>
    intro acc M hM rest he
    obtain ⟨m, rfl⟩ : ∃ m, M = m + 1 := ⟨M - 1, by omega⟩
    rcases he with ⟨r, rfl⟩ | ⟨r, rfl⟩ <;> simp [genList_nil, compsF, tRP, tRB]
  | cons c gens ih =>
    intro acc M hM rest he
    simp only [szL] at hM
    obtain ⟨m, rfl⟩ : ∃ m, M = m + 1 := ⟨M - 1, by omega⟩
    obtain ⟨t, it, ifs, a, rfl, gt, git, gifs⟩ := hg c (by simp)
    have hgs : ∀ c' ∈ gens, CompGoal c' := fun c' hc' => hg c' (by simp [hc'])
    have hcl := clauseF_ok t it ifs a gt git gifs m (by omega) acc (genList [] [] gens ++ rest)
      (closedE_compList gens hgs rest he)
    have hrec := ih hgs (.comp t it ifs a :: acc) m (by omega) rest he
    simp only [genList_cons, gen_comp, List.nil_append, List.append_nil, List.append_assoc, List.cons_append, knot_comps]
    cases a
    · simp only [Bool.false_eq_true, if_false, List.nil_append]
      show clauseF (knot m) acc false _ = _
      rw [hcl, hrec]; simp
    · simp only [if_true, List.cons_append, List.nil_append]
      show clauseF (knot m) acc true _ = _
      rw [hcl, hrec]; simp

theorem startsComp_compList (c : PyExpr) (gens : List PyExpr) (hc : CompGoal c) (rest : List Tok) :
    startsComp (genList [] [] (c :: gens) ++ rest) = true
      ∧ (∀ r, genList [] [] (c :: gens) ++ rest ≠ tRB :: r) ∧ (∀ r, genList [] [] (c :: gens) ++ rest ≠ tRP :: r)
      ∧ (∀ r, genList [] [] (c :: gens) ++ rest ≠ tComma :: r) := by
  obtain ⟨t, it, ifs, a, rfl, _⟩ := hc
  cases a <;> simp [genList_cons, gen_comp, startsComp, kw, tRB, tRP, tComma]

theorem bracketF_comp (k : Knot) (toks : List Tok) (first : PyExpr) (r : List Tok)
    (hne : ∀ r', toks ≠ tRB :: r') (h : eltF k toks = some (first, r))
    (h1 : ∀ r', r ≠ tRB :: r') (h2 : ∀ r', r ≠ tComma :: r') (h3 : startsComp r = true) :
    bracketF k toks = (k.comps [] r).bind fun g =>
      match g.2 with
      | .op [']'] :: r3 => some (.listComp first g.1, r3)
      | _ => none := by
  unfold bracketF
  split
  · rename_i rest; exact absurd rfl (hne rest)
  · simp only [h, Option.bind_eq_bind, Option.bind_some]
    split
    · exact absurd rfl (h1 _)
    · exact absurd rfl (h2 _)
    · simp [h3]; rfl

theorem parenF_comp (k : Knot) (toks : List Tok) (first : PyExpr) (r : List Tok)
    (hne : ∀ r', toks ≠ tRP :: r') (hny : ∀ r', toks ≠ kw cs!"yield" :: r') (h : eltF k toks = some (first, r))
    (h1 : ∀ r', r ≠ tRP :: r') (h2 : ∀ r', r ≠ tComma :: r') (h3 : startsComp r = true) :
    parenF k toks = (k.comps [] r).bind fun g =>
      match g.2 with
      | .op [')'] :: r3 => some (.genExp first g.1, r3)
      | _ => none := by
  unfold parenF
  split
  · rename_i rest; exact absurd rfl (hne rest)
  · rename_i rest; exact absurd rfl (hny rest)
  · simp only [h, Option.bind_eq_bind, Option.bind_some]
    split
    · exact absurd rfl (h1 _)
    · exact absurd rfl (h2 _)
    · simp [h3]; rfl

theorem goal_listComp (elt : PyExpr) (gens : List PyExpr) (ge : ExprGoal elt) (hne : gens ≠ [])
    (hg : ∀ c ∈ gens, CompGoal c) : ExprGoal (.listComp elt gens) := by
  have hgen : gen (.listComp elt gens) = tLB :: (gen elt ++ (genList [] [] gens ++ [tRB])) := by simp [gen]
  obtain ⟨c, gens', rfl⟩ : ∃ c gens', gens = c :: gens' := by
    cases gens with
    | nil => exact absurd rfl hne
    | cons a b => exact ⟨a, b, rfl⟩
  refine ⟨?_, ?_, ?_⟩
  · intro M hM rest
    rw [hgen]
    simp only [need, sz] at hM
    obtain ⟨m, rfl⟩ : ∃ m, M = m + 1 := ⟨M - 1, by omega⟩
    simp only [List.cons_append, List.append_assoc, List.nil_append, cS, Nat.sub_zero, primaryF_def, atomF, tLB]
    simp only [show (['['] : Str) ≠ ['.', '.', '.'] by decide, show (['['] : Str) ≠ ['('] by decide, if_false, if_true]
    have hce := closedE_compList (c :: gens') hg (tRB :: rest) (Or.inr ⟨rest, rfl⟩)
    obtain ⟨hs, hs1, _, hs3⟩ := startsComp_compList c gens' (hg c (by simp)) (tRB :: rest)
    have helt : eltF (knot (m+1)) (gen elt ++ (genList [] [] (c :: gens') ++ tRB :: rest))
        = some (elt, genList [] [] (c :: gens') ++ tRB :: rest) := by
      rw [eltF_expr _ _ (headOK_parenStart (headOK_append _ ge.head))]
      exact ge.kexpr (by simp only [need]; omega) _ hce
    have hne' : ∀ r, gen elt ++ (genList [] [] (c :: gens') ++ tRB :: rest) ≠ tRB :: r := by
      intro r e
      obtain ⟨t, r', ht, hn, _⟩ := head_ne ge.head (genList [] [] (c :: gens') ++ tRB :: rest) (u := tRB) rfl
      rw [ht] at e; exact hn (List.cons.inj e).1
    have hl := comps_loop (c :: gens') hg [] (m+1) (by omega) (tRB :: rest) (Or.inr ⟨rest, rfl⟩)
    rw [bracketF_comp _ _ _ _ hne' helt hs1 hs3 hs, hl]
    simp [tRB]
  · rw [hgen]; rfl
  · intro rest _; rw [hgen]; rfl

theorem goal_genExp (elt : PyExpr) (gens : List PyExpr) (ge : ExprGoal elt) (hne : gens ≠ [])
    (hg : ∀ c ∈ gens, CompGoal c) : ExprGoal (.genExp elt gens) := by
  have hgen : gen (.genExp elt gens) = tLP :: (gen elt ++ (genList [] [] gens ++ [tRP])) := by simp [gen]
  obtain ⟨c, gens', rfl⟩ : ∃ c gens', gens = c :: gens' := by
    cases gens with
    | nil => exact absurd rfl hne
    | cons a b => exact ⟨a, b, rfl⟩
  refine ⟨?_, ?_, ?_⟩
  · intro M hM rest
    rw [hgen]
    simp only [need, sz] at hM
    obtain ⟨m, rfl⟩ : ∃ m, M = m + 1 := ⟨M - 1, by omega⟩
    simp only [List.cons_append, List.append_assoc, List.nil_append, cS, Nat.sub_zero, primaryF_def, atomF, tLP]
    simp only [show (['('] : Str) ≠ ['.', '.', '.'] by decide, if_false, if_true]
    have hce := closedE_compList (c :: gens') hg (tRP :: rest) (Or.inl ⟨rest, rfl⟩)
    obtain ⟨hs, _, hs2, hs3⟩ := startsComp_compList c gens' (hg c (by simp)) (tRP :: rest)
    have helt : eltF (knot (m+1)) (gen elt ++ (genList [] [] (c :: gens') ++ tRP :: rest))
        = some (elt, genList [] [] (c :: gens') ++ tRP :: rest) := by
      rw [eltF_expr _ _ (headOK_parenStart (headOK_append _ ge.head))]
      exact ge.kexpr (by simp only [need]; omega) _ hce
    have hne' : ∀ r, gen elt ++ (genList [] [] (c :: gens') ++ tRP :: rest) ≠ tRP :: r := by
      intro r e
      obtain ⟨t, r', ht, hn, _⟩ := head_ne ge.head (genList [] [] (c :: gens') ++ tRP :: rest) (u := tRP) rfl
      rw [ht] at e; exact hn (List.cons.inj e).1
    have hny : ∀ r, gen elt ++ (genList [] [] (c :: gens') ++ tRP :: rest) ≠ kw cs!"yield" :: r := by
      intro r e
      obtain ⟨t, r', ht, hn, _⟩ := head_ne ge.head (genList [] [] (c :: gens') ++ tRP :: rest)
        (u := kw cs!"yield") (by decide)
      rw [ht] at e; exact hn (List.cons.inj e).1
    have hl := comps_loop (c :: gens') hg [] (m+1) (by omega) (tRP :: rest) (Or.inl ⟨rest, rfl⟩)
    rw [parenF_comp _ _ _ _ hne' hny helt hs2 hs3 hs, hl]
    simp [tRP]
  · rw [hgen]; rfl
  · intro rest _; rw [hgen]; rfl

end Genshi.Py

/-
  Nesting lemmas for the match model: the stack of open START events (`track`), depth-closed
  segments (`lvl`), what `_strip` returns, and that `select` / body instantiation keep nesting.
-/
import Genshi.Lemmas.Match
import Genshi.Model.MatchSpec
namespace Genshi.Match
open Genshi

variable {σ : Type}

/-- the stack of open START events after a list of events; `none` on an END that closes nothing
    or the wrong tag -/
def track : List Open → List Event → Option (List Open)
  | st, [] => some st
  | st, e :: es =>
    match e with
    | .start t a => track ((t, a) :: st) es
    | .end_ t =>
      match st with
      | [] => none
      | o :: st' => if t = o.1 then track st' es else none
    | _ => track st es

/-- a segment that leaves every stack as it found it -/
def Neutral (l : List Event) : Prop := ∀ st, track st l = some st

theorem track_append (st : List Open) (a b : List Event) :
    track st (a ++ b) = (track st a).bind fun s => track s b := by
  induction a generalizing st with
  | nil => simp [track]
  | cons e es ih =>
    cases e with
    | start t at_ => simp [track, ih]
    | end_ t =>
      cases st with
      | nil => simp [track]
      | cons o st => by_cases h : t = o.1 <;> simp [track, h, ih]
    | _ => simp [track, ih]

theorem track_other (e : Event) (hs : isStart e = false) (he : isEnd e = false) (st : List Open) (es : List Event) :
    track st (e :: es) = track st es := by
  cases e <;> simp_all [isStart, isEnd, track]

theorem neutral_nil : Neutral [] := fun _ => rfl

theorem neutral_append {a b : List Event} (ha : Neutral a) (hb : Neutral b) : Neutral (a ++ b) := by
  intro st; rw [track_append, ha st]; exact hb st

theorem neutral_wrap {mid : List Event} (t : QName) (a : AttrList) (h : Neutral mid) :
    Neutral (.start t a :: (mid ++ [.end_ t])) := by
  intro st
  simp only [track]
  rw [track_append, h]
  simp [track]

theorem neutral_single (e : Event) (hs : isStart e = false) (he : isEnd e = false) : Neutral [e] := by
  intro st; rw [track_other e hs he]; rfl

/-- `track` and Core's `balance` agree (the latter forgets the attributes) -/
theorem balance_of_track : ∀ (l : List Event) (st : List Open),
    balance (st.map (·.1)) l = (track st l).map (·.map (·.1)) := by
  intro l
  induction l with
  | nil => intro st; simp [balance, track]
  | cons e es ih =>
    intro st
    cases e with
    | start t a => simp only [balance, track]; exact ih ((t, a) :: st)
    | end_ t =>
      cases st with
      | nil => simp [balance, track]
      | cons o st =>
        simp only [List.map_cons, balance, track]
        by_cases h : t = o.1
        · simp only [h, ↓reduceIte]; exact ih st
        · simp [h]
    | text s f => rw [balance_skip _ rfl]; simp only [track]; exact ih st
    | comment s => rw [balance_skip _ rfl]; simp only [track]; exact ih st
    | pi t d => rw [balance_skip _ rfl]; simp only [track]; exact ih st
    | doctype n p s => rw [balance_skip _ rfl]; simp only [track]; exact ih st
    | xmlDecl v e s => rw [balance_skip _ rfl]; simp only [track]; exact ih st
    | startNs p u => rw [balance_skip _ rfl]; simp only [track]; exact ih st
    | endNs p => rw [balance_skip _ rfl]; simp only [track]; exact ih st
    | startCdata => rw [balance_skip _ rfl]; simp only [track]; exact ih st
    | endCdata => rw [balance_skip _ rfl]; simp only [track]; exact ih st

theorem wellNested_iff_track (l : List Event) : WellNested l ↔ track [] l = some [] := by
  unfold WellNested
  have := balance_of_track l []
  simp only [List.map_nil] at this
  rw [this]
  cases track [] l with
  | none => simp
  | some s => cases s <;> simp

/-! ### depth-closed segments -/

/-- nesting depth after the events, starting from `d`; `none` if it would drop below zero -/
def lvl : Nat → List Event → Option Nat
  | d, [] => some d
  | d, e :: es =>
    if isStart e then lvl (d + 1) es
    else if isEnd e then (match d with | 0 => none | d' + 1 => lvl d' es)
    else lvl d es

/-- a segment in which every END closes a START of the segment -/
def Closed (l : List Event) : Prop := lvl 0 l = some 0

theorem lvl_append (d : Nat) (a b : List Event) : lvl d (a ++ b) = (lvl d a).bind fun k => lvl k b := by
  induction a generalizing d with
  | nil => simp [lvl]
  | cons e es ih =>
    simp only [List.cons_append, lvl]
    by_cases hs : isStart e = true
    · simp [hs, ih]
    · simp only [hs]
      by_cases he : isEnd e = true
      · simp only [he, ↓reduceIte]
        cases d with
        | zero => simp
        | succ d => simp [ih]
      · simp [he, ih]

theorem lvl_mono : ∀ (l : List Event) (d k m : Nat), lvl d l = some k → lvl (d + m) l = some (k + m) := by
  intro l
  induction l with
  | nil => intro d k m h; simp [lvl] at h ⊢; omega
  | cons e es ih =>
    intro d k m h
    simp only [lvl] at h ⊢
    by_cases hs : isStart e = true
    · simp only [hs, ↓reduceIte] at h ⊢
      have := ih (d + 1) k m h
      rw [show d + m + 1 = d + 1 + m by omega]; exact this
    · simp only [hs] at h ⊢
      by_cases he : isEnd e = true
      · simp only [he, ↓reduceIte] at h ⊢
        cases d with
        | zero => simp at h
        | succ d =>
          simp only at h
          rw [show d + 1 + m = (d + m) + 1 by omega]
          exact ih d k m h
      · simp only [he] at h ⊢
        exact ih d k m h

/-- a tracked segment that starts at depth `|cur|` never looks below `cur`: the rest of the
    stack can be exchanged -/
theorem track_lvl : ∀ (l : List Event) (cur st : List Open) (k : Nat) (st' : List Open),
    lvl cur.length l = some k → track (cur ++ st) l = some st' →
    ∃ pre, pre.length = k ∧ st' = pre ++ st ∧ ∀ st2, track (cur ++ st2) l = some (pre ++ st2) := by
  intro l
  induction l with
  | nil =>
    intro cur st k st' hl ht
    simp [lvl] at hl; simp [track] at ht
    exact ⟨cur, hl, ht.symm, fun _ => rfl⟩
  | cons e es ih =>
    intro cur st k st' hl ht
    cases e with
    | start t a =>
      simp only [lvl, isStart, ↓reduceIte] at hl
      simp only [track] at ht
      obtain ⟨pre, h1, h2, h3⟩ := ih ((t, a) :: cur) st k st' (by simpa using hl) (by simpa using ht)
      exact ⟨pre, h1, h2, fun st2 => by simp only [track]; simpa using h3 st2⟩
    | end_ t =>
      simp only [lvl, isStart, isEnd, ↓reduceIte] at hl
      cases cur with
      | nil => simp at hl
      | cons o cur =>
        simp only [List.length_cons] at hl
        simp only [List.cons_append, track] at ht
        by_cases h : t = o.1
        · simp only [h, ↓reduceIte] at ht
          obtain ⟨pre, h1, h2, h3⟩ := ih cur st k st' hl ht
          exact ⟨pre, h1, h2, fun st2 => by simp only [List.cons_append, track, h, ↓reduceIte]; exact h3 st2⟩
        · simp [h] at ht
    | text s f =>
      simp only [lvl, isStart, isEnd] at hl; simp only [track] at ht
      obtain ⟨pre, h1, h2, h3⟩ := ih cur st k st' (by simpa using hl) ht
      exact ⟨pre, h1, h2, fun st2 => by simp only [track]; exact h3 st2⟩
    | comment s =>
      simp only [lvl, isStart, isEnd] at hl; simp only [track] at ht
      obtain ⟨pre, h1, h2, h3⟩ := ih cur st k st' (by simpa using hl) ht
      exact ⟨pre, h1, h2, fun st2 => by simp only [track]; exact h3 st2⟩
    | pi a b =>
      simp only [lvl, isStart, isEnd] at hl; simp only [track] at ht
      obtain ⟨pre, h1, h2, h3⟩ := ih cur st k st' (by simpa using hl) ht
      exact ⟨pre, h1, h2, fun st2 => by simp only [track]; exact h3 st2⟩
    | doctype a b c =>
      simp only [lvl, isStart, isEnd] at hl; simp only [track] at ht
      obtain ⟨pre, h1, h2, h3⟩ := ih cur st k st' (by simpa using hl) ht
      exact ⟨pre, h1, h2, fun st2 => by simp only [track]; exact h3 st2⟩
    | xmlDecl a b c =>
      simp only [lvl, isStart, isEnd] at hl; simp only [track] at ht
      obtain ⟨pre, h1, h2, h3⟩ := ih cur st k st' (by simpa using hl) ht
      exact ⟨pre, h1, h2, fun st2 => by simp only [track]; exact h3 st2⟩
    | startNs a b =>
      simp only [lvl, isStart, isEnd] at hl; simp only [track] at ht
      obtain ⟨pre, h1, h2, h3⟩ := ih cur st k st' (by simpa using hl) ht
      exact ⟨pre, h1, h2, fun st2 => by simp only [track]; exact h3 st2⟩
    | endNs a =>
      simp only [lvl, isStart, isEnd] at hl; simp only [track] at ht
      obtain ⟨pre, h1, h2, h3⟩ := ih cur st k st' (by simpa using hl) ht
      exact ⟨pre, h1, h2, fun st2 => by simp only [track]; exact h3 st2⟩
    | startCdata =>
      simp only [lvl, isStart, isEnd] at hl; simp only [track] at ht
      obtain ⟨pre, h1, h2, h3⟩ := ih cur st k st' (by simpa using hl) ht
      exact ⟨pre, h1, h2, fun st2 => by simp only [track]; exact h3 st2⟩
    | endCdata =>
      simp only [lvl, isStart, isEnd] at hl; simp only [track] at ht
      obtain ⟨pre, h1, h2, h3⟩ := ih cur st k st' (by simpa using hl) ht
      exact ⟨pre, h1, h2, fun st2 => by simp only [track]; exact h3 st2⟩

/-- a closed segment that tracks on one stack is neutral on every stack -/
theorem neutral_of_closed {l : List Event} {st st' : List Open} (hc : Closed l)
    (ht : track st l = some st') : st' = st ∧ Neutral l := by
  obtain ⟨pre, h1, h2, h3⟩ := track_lvl l [] st 0 st' hc (by simpa using ht)
  have : pre = [] := List.length_eq_zero_iff.mp h1
  subst this
  exact ⟨by simpa using h2, fun st2 => by simpa using h3 st2⟩

/-- a neutral segment is closed -/
theorem track_some_lvl : ∀ (l : List Event) (st st' : List Open), track st l = some st' →
    ∃ k, lvl st.length l = some k ∧ st'.length = k := by
  intro l
  induction l with
  | nil => intro st st' h; simp [track] at h; subst h; exact ⟨_, rfl, rfl⟩
  | cons e es ih =>
    intro st st' h
    cases e with
    | start t a =>
      simp only [track] at h
      obtain ⟨k, h1, h2⟩ := ih _ _ h
      exact ⟨k, by simpa [lvl, isStart] using h1, h2⟩
    | end_ t =>
      cases st with
      | nil => simp [track] at h
      | cons o st =>
        simp only [track] at h
        by_cases ht : t = o.1
        · simp only [ht, ↓reduceIte] at h
          obtain ⟨k, h1, h2⟩ := ih _ _ h
          exact ⟨k, by simpa [lvl, isStart, isEnd] using h1, h2⟩
        · simp [ht] at h
    | _ =>
      simp only [track] at h
      obtain ⟨k, h1, h2⟩ := ih _ _ h
      exact ⟨k, by simpa [lvl, isStart, isEnd] using h1, h2⟩

theorem closed_of_neutral {l : List Event} (h : Neutral l) : Closed l := by
  obtain ⟨k, h1, h2⟩ := track_some_lvl l [] [] (h [])
  simp at h2; subst h2; exact h1

end Genshi.Match

namespace Genshi.Match
open Genshi
variable {σ : Type}

/-! ### `_strip` -/

/-- what `_strip` returns: the items split at the END that closes the element, the part before it
    being closed relative to the `d` elements opened above the stripped one -/
theorem strip_spec : ∀ (items : List (Item σ)) (d : Nat) (inner : List (Item σ)) (tail : Event)
    (rest' : List (Item σ)), strip (d + 1) items = some (inner, tail, rest') →
    items = inner ++ .ev tail :: rest' ∧ isEnd tail = true ∧ lvl d (evs inner) = some 0 := by
  intro items
  induction items with
  | nil => intro d inner tail rest' h; simp [strip] at h
  | cons it rest ih =>
    intro d inner tail rest' h
    cases it with
    | reg t =>
      simp only [strip, Option.map_eq_some_iff] at h
      obtain ⟨⟨a, x, b⟩, h1, h2⟩ := h
      simp only [Prod.mk.injEq] at h2
      obtain ⟨rfl, rfl, rfl⟩ := h2
      obtain ⟨e1, e2, e3⟩ := ih d a x b h1
      exact ⟨by simp [e1], e2, by simpa using e3⟩
    | ev e =>
      by_cases hs : isStart e = true
      · simp only [strip, hs, ↓reduceIte, Option.map_eq_some_iff] at h
        obtain ⟨⟨a, x, b⟩, h1, h2⟩ := h
        simp only [Prod.mk.injEq] at h2
        obtain ⟨rfl, rfl, rfl⟩ := h2
        obtain ⟨e1, e2, e3⟩ := ih (d + 1) a x b h1
        exact ⟨by simp [e1], e2, by simpa [lvl, hs] using e3⟩
      · by_cases he : isEnd e = true
        · cases d with
          | zero =>
            simp only [strip, hs, he, Bool.false_eq_true, ↓reduceIte, Option.some.injEq, Prod.mk.injEq] at h
            obtain ⟨rfl, rfl, rfl⟩ := h
            exact ⟨by simp, he, by simp [lvl]⟩
          | succ d =>
            simp only [strip, hs, he, Bool.false_eq_true, ↓reduceIte, Nat.add_eq_zero_iff, Nat.succ_ne_self,
              and_false, Option.map_eq_some_iff] at h
            obtain ⟨⟨a, x, b⟩, h1, h2⟩ := h
            simp only [Prod.mk.injEq] at h2
            obtain ⟨rfl, rfl, rfl⟩ := h2
            obtain ⟨e1, e2, e3⟩ := ih d a x b h1
            exact ⟨by simp [e1], e2, by simpa [lvl, hs, he] using e3⟩
        · simp only [strip, hs, he, Bool.false_eq_true, ↓reduceIte, Option.map_eq_some_iff] at h
          obtain ⟨⟨a, x, b⟩, h1, h2⟩ := h
          simp only [Prod.mk.injEq] at h2
          obtain ⟨rfl, rfl, rfl⟩ := h2
          obtain ⟨e1, e2, e3⟩ := ih d a x b h1
          exact ⟨by simp [e1], e2, by simpa [lvl, hs, he] using e3⟩

/-- conversely, `_strip` finds the END after a segment that is closed relative to depth `d` -/
theorem strip_of_closed : ∀ (inner : List (Item σ)) (d : Nat) (tail : Event) (rest' : List (Item σ)),
    lvl d (evs inner) = some 0 → isStart tail = false → isEnd tail = true →
    strip (d + 1) (inner ++ .ev tail :: rest') = some (inner, tail, rest') := by
  intro inner
  induction inner with
  | nil =>
    intro d tail rest' h hs he
    simp [lvl] at h; subst h
    simp [strip, hs, he]
  | cons it rest ih =>
    intro d tail rest' h hs he
    cases it with
    | reg t =>
      simp only [evs_reg] at h
      simp [strip, ih d tail rest' h hs he]
    | ev e =>
      simp only [evs_ev, lvl] at h
      simp only [List.cons_append]
      by_cases hs' : isStart e = true
      · simp only [hs', ↓reduceIte] at h
        simp [strip, hs', ih (d + 1) tail rest' h hs he]
      · simp only [hs'] at h
        by_cases he' : isEnd e = true
        · simp only [he', ↓reduceIte] at h
          cases d with
          | zero => simp at h
          | succ d =>
            simp only at h
            simp [strip, hs', he', ih d tail rest' h hs he]
        · simp only [he'] at h
          simp [strip, hs', he', ih d tail rest' h hs he]

end Genshi.Match

namespace Genshi.Match
open Genshi
variable {σ : Type}

/-! ### `select` and body instantiation keep nesting -/

/-- the output of the select machine is tracked by the copy part of the input's stack -/
theorem selM_track (s : Sel) : ∀ (es : List Event) (d c : Nat) (cop rin sin' : List Open),
    cop.length = c → track (cop ++ rin) es = some sin' →
    ∃ cop' rin', sin' = cop' ++ rin' ∧ ∀ rout, track (cop ++ rout) (selM s d c es) = some (cop' ++ rout) := by
  intro es
  induction es with
  | nil =>
    intro d c cop rin sin' _ h
    simp [track] at h
    exact ⟨cop, rin, h.symm, fun rout => by simp [selM, track]⟩
  | cons e es ih =>
    intro d c cop rin sin' hc h
    cases c with
    | zero =>
      have hcop : cop = [] := List.length_eq_zero_iff.mp hc
      subst hcop
      simp only [List.nil_append] at h ⊢
      cases e with
      | start t a =>
        simp only [track] at h
        simp only [selM, isStart, ↓reduceIte]
        by_cases hsel : d = s.depth ∧ s.nodeTest (.start t a) = true
        · rw [if_pos hsel]
          obtain ⟨cop', rin', h1, h2⟩ := ih (d + 1) 1 [(t, a)] rin sin' rfl (by simpa using h)
          exact ⟨cop', rin', h1, fun rout => by simp only [track]; simpa using h2 rout⟩
        · rw [if_neg hsel]
          obtain ⟨cop', rin', h1, h2⟩ := ih (d + 1) 0 [] ((t, a) :: rin) sin' rfl (by simpa using h)
          exact ⟨cop', rin', h1, fun rout => by simpa using h2 rout⟩
      | end_ t =>
        cases rin with
        | nil => simp [track] at h
        | cons o rin =>
          simp only [track] at h
          by_cases ht : t = o.1
          · simp only [ht, ↓reduceIte] at h
            simp only [selM, isStart, isEnd, Bool.false_eq_true, ↓reduceIte]
            obtain ⟨cop', rin', h1, h2⟩ := ih (d - 1) 0 [] rin sin' rfl (by simpa using h)
            exact ⟨cop', rin', h1, fun rout => by simpa using h2 rout⟩
          · simp [ht] at h
      | text x y =>
        simp only [track] at h
        obtain ⟨cop', rin', h1, h2⟩ := ih d 0 [] rin sin' rfl (by simpa using h)
        refine ⟨cop', rin', h1, fun rout => ?_⟩
        simp only [selM, isStart, isEnd, Bool.false_eq_true, ↓reduceIte]
        split
        · simp only [track]; simpa using h2 rout
        · simpa using h2 rout
      | comment x =>
        simp only [track] at h
        obtain ⟨cop', rin', h1, h2⟩ := ih d 0 [] rin sin' rfl (by simpa using h)
        refine ⟨cop', rin', h1, fun rout => ?_⟩
        simp only [selM, isStart, isEnd, Bool.false_eq_true, ↓reduceIte]
        split
        · simp only [track]; simpa using h2 rout
        · simpa using h2 rout
      | pi x y =>
        simp only [track] at h
        obtain ⟨cop', rin', h1, h2⟩ := ih d 0 [] rin sin' rfl (by simpa using h)
        refine ⟨cop', rin', h1, fun rout => ?_⟩
        simp only [selM, isStart, isEnd, Bool.false_eq_true, ↓reduceIte]
        split
        · simp only [track]; simpa using h2 rout
        · simpa using h2 rout
      | doctype x y z =>
        simp only [track] at h
        obtain ⟨cop', rin', h1, h2⟩ := ih d 0 [] rin sin' rfl (by simpa using h)
        refine ⟨cop', rin', h1, fun rout => ?_⟩
        simp only [selM, isStart, isEnd, Bool.false_eq_true, ↓reduceIte]
        split
        · simp only [track]; simpa using h2 rout
        · simpa using h2 rout
      | xmlDecl x y z =>
        simp only [track] at h
        obtain ⟨cop', rin', h1, h2⟩ := ih d 0 [] rin sin' rfl (by simpa using h)
        refine ⟨cop', rin', h1, fun rout => ?_⟩
        simp only [selM, isStart, isEnd, Bool.false_eq_true, ↓reduceIte]
        split
        · simp only [track]; simpa using h2 rout
        · simpa using h2 rout
      | startNs x y =>
        simp only [track] at h
        obtain ⟨cop', rin', h1, h2⟩ := ih d 0 [] rin sin' rfl (by simpa using h)
        refine ⟨cop', rin', h1, fun rout => ?_⟩
        simp only [selM, isStart, isEnd, Bool.false_eq_true, ↓reduceIte]
        split
        · simp only [track]; simpa using h2 rout
        · simpa using h2 rout
      | endNs x =>
        simp only [track] at h
        obtain ⟨cop', rin', h1, h2⟩ := ih d 0 [] rin sin' rfl (by simpa using h)
        refine ⟨cop', rin', h1, fun rout => ?_⟩
        simp only [selM, isStart, isEnd, Bool.false_eq_true, ↓reduceIte]
        split
        · simp only [track]; simpa using h2 rout
        · simpa using h2 rout
      | startCdata =>
        simp only [track] at h
        obtain ⟨cop', rin', h1, h2⟩ := ih d 0 [] rin sin' rfl (by simpa using h)
        refine ⟨cop', rin', h1, fun rout => ?_⟩
        simp only [selM, isStart, isEnd, Bool.false_eq_true, ↓reduceIte]
        split
        · simp only [track]; simpa using h2 rout
        · simpa using h2 rout
      | endCdata =>
        simp only [track] at h
        obtain ⟨cop', rin', h1, h2⟩ := ih d 0 [] rin sin' rfl (by simpa using h)
        refine ⟨cop', rin', h1, fun rout => ?_⟩
        simp only [selM, isStart, isEnd, Bool.false_eq_true, ↓reduceIte]
        split
        · simp only [track]; simpa using h2 rout
        · simpa using h2 rout
    | succ c =>
      cases e with
      | start t a =>
        simp only [track] at h
        simp only [selM, isStart, ↓reduceIte]
        obtain ⟨cop', rin', h1, h2⟩ := ih (d + 1) (c + 2) ((t, a) :: cop) rin sin' (by simp [hc]) (by simpa using h)
        exact ⟨cop', rin', h1, fun rout => by simp only [track]; simpa using h2 rout⟩
      | end_ t =>
        cases cop with
        | nil => simp at hc
        | cons o cop =>
          simp only [List.cons_append, track] at h
          by_cases ht : t = o.1
          · simp only [ht, ↓reduceIte] at h
            simp only [selM, isStart, isEnd, Bool.false_eq_true, ↓reduceIte]
            obtain ⟨cop', rin', h1, h2⟩ := ih (d - 1) c cop rin sin' (by simpa using hc) h
            exact ⟨cop', rin', h1, fun rout => by simp only [List.cons_append, track, ht, ↓reduceIte]; exact h2 rout⟩
          · simp [ht] at h
      | text x y =>
        simp only [track] at h
        obtain ⟨cop', rin', h1, h2⟩ := ih d (c + 1) cop rin sin' hc h
        exact ⟨cop', rin', h1, fun rout => by simp only [selM, isStart, isEnd, Bool.false_eq_true, ↓reduceIte, track]; exact h2 rout⟩
      | comment x =>
        simp only [track] at h
        obtain ⟨cop', rin', h1, h2⟩ := ih d (c + 1) cop rin sin' hc h
        exact ⟨cop', rin', h1, fun rout => by simp only [selM, isStart, isEnd, Bool.false_eq_true, ↓reduceIte, track]; exact h2 rout⟩
      | pi x y =>
        simp only [track] at h
        obtain ⟨cop', rin', h1, h2⟩ := ih d (c + 1) cop rin sin' hc h
        exact ⟨cop', rin', h1, fun rout => by simp only [selM, isStart, isEnd, Bool.false_eq_true, ↓reduceIte, track]; exact h2 rout⟩
      | doctype x y z =>
        simp only [track] at h
        obtain ⟨cop', rin', h1, h2⟩ := ih d (c + 1) cop rin sin' hc h
        exact ⟨cop', rin', h1, fun rout => by simp only [selM, isStart, isEnd, Bool.false_eq_true, ↓reduceIte, track]; exact h2 rout⟩
      | xmlDecl x y z =>
        simp only [track] at h
        obtain ⟨cop', rin', h1, h2⟩ := ih d (c + 1) cop rin sin' hc h
        exact ⟨cop', rin', h1, fun rout => by simp only [selM, isStart, isEnd, Bool.false_eq_true, ↓reduceIte, track]; exact h2 rout⟩
      | startNs x y =>
        simp only [track] at h
        obtain ⟨cop', rin', h1, h2⟩ := ih d (c + 1) cop rin sin' hc h
        exact ⟨cop', rin', h1, fun rout => by simp only [selM, isStart, isEnd, Bool.false_eq_true, ↓reduceIte, track]; exact h2 rout⟩
      | endNs x =>
        simp only [track] at h
        obtain ⟨cop', rin', h1, h2⟩ := ih d (c + 1) cop rin sin' hc h
        exact ⟨cop', rin', h1, fun rout => by simp only [selM, isStart, isEnd, Bool.false_eq_true, ↓reduceIte, track]; exact h2 rout⟩
      | startCdata =>
        simp only [track] at h
        obtain ⟨cop', rin', h1, h2⟩ := ih d (c + 1) cop rin sin' hc h
        exact ⟨cop', rin', h1, fun rout => by simp only [selM, isStart, isEnd, Bool.false_eq_true, ↓reduceIte, track]; exact h2 rout⟩
      | endCdata =>
        simp only [track] at h
        obtain ⟨cop', rin', h1, h2⟩ := ih d (c + 1) cop rin sin' hc h
        exact ⟨cop', rin', h1, fun rout => by simp only [selM, isStart, isEnd, Bool.false_eq_true, ↓reduceIte, track]; exact h2 rout⟩

/-- **select keeps nesting**: whatever `select(p)` extracts from a neutral content is neutral -/
theorem select_neutral (s : Sel) {content : List Event} (h : Neutral content) : Neutral (select s content) := by
  obtain ⟨cop', rin', h1, h2⟩ := selM_track s content 0 0 [] [] [] rfl (by simpa using h [])
  have : cop' = [] := by
    have := congrArg List.length h1
    simp at this
    exact List.length_eq_zero_iff.mp (by omega)
  subst this
  intro st
  simpa [select] using h2 st

/-- nesting of a body with every `${select(…)}` counted as neutral -/
def trackB : List Open → List BItem → Option (List Open)
  | st, [] => some st
  | st, .sel _ :: bs => trackB st bs
  | st, .ev e :: bs => (track st [e]).bind fun s => trackB s bs

/-- a body that is well nested on its own (it comes out of the XML parser) -/
def BodyOK (body : List BItem) : Prop := ∀ st, trackB st body = some st

theorem instantiate_track {content : List Event} (hc : Neutral content) :
    ∀ (body : List BItem) (st st' : List Open), trackB st body = some st' →
      track st (instantiate body content) = some st' := by
  intro body
  induction body with
  | nil => intro st st' h; simpa [trackB, instantiate, track] using h
  | cons b bs ih =>
    intro st st' h
    cases b with
    | sel s =>
      simp only [trackB] at h
      have := ih st st' h
      simp only [instantiate, List.flatMap_cons] at this ⊢
      rw [track_append, select_neutral s hc st]
      exact this
    | ev e =>
      simp only [trackB] at h
      cases h1 : track st [e] with
      | none => simp [h1] at h
      | some s1 =>
        simp only [h1, Option.bind_some] at h
        have := ih s1 st' h
        simp only [instantiate, List.flatMap_cons] at this ⊢
        rw [track_append, h1]
        exact this

theorem instantiate_neutral {body : List BItem} {content : List Event} (hb : BodyOK body)
    (hc : Neutral content) : Neutral (instantiate body content) :=
  fun st => instantiate_track hc body st st (hb st)

end Genshi.Match

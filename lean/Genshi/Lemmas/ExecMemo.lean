/-
  C14 (wave 4) — the bounded-cache model with `_prepared` memoisation (`Genshi/Model/ExecMemo.lean`):
  whatever the bound, whatever was evicted, re-parsed, prepared as part of another template and
  kept, a loader whose flag is off never holds an object with a code block — neither in its parsed
  items nor in its memoised prepared stream — and nothing it renders moves the sentinel.
-/
import Genshi.Model.ExecMemo
import Genshi.Lemmas.ExecLru
namespace Genshi.Exec

def PItem.isCode : PItem → Bool
  | .code _ _ => true
  | _ => false

/-- the prepared stream holds no code block -/
def pNoCode (ps : List PItem) : Bool := ps.all fun it => !it.isCode

/-- a template object without code: its parsed items and, if it is prepared, its prepared stream -/
def OClean (o : MT) : Prop := noCode o.t.items = true ∧ ∀ ps, o.prep = some ps → pNoCode ps = true

/-- the cache entry is the parse of the file of its name -/
def FaithE (fs : FS) (e : (Nat × Bool) × MT) : Prop :=
  ∃ f, fs.lookup e.1.1 = some f ∧ e.2.t.items = f.items

/-- the flag is off, every object in the cache is clean, and every entry is the parse of the file
    of its name -/
def MCleanM (fs : FS) (st : MSt) : Prop := st.flag = false ∧ ∀ e ∈ st.cache, OClean e.2 ∧ FaithE fs e

theorem pNoCode_append (a b : List PItem) : pNoCode (a ++ b) = (pNoCode a && pNoCode b) := by
  simp [pNoCode, List.all_append]

theorem pNoCode_snoc (ps : List PItem) (it : PItem) (h : pNoCode ps = true) (hi : it.isCode = false) :
    pNoCode (ps ++ [it]) = true := by
  rw [pNoCode_append, h]
  simp [pNoCode, hi]

theorem loadM_clean (cap : Nat) (fs : FS) (st st' : MSt) (name : Nat) (c : Cls) (abs : Bool) (o : MT)
    (hc : MCleanM fs st) (h : loadM cap fs st name c abs = .ok (st', o)) :
    MCleanM fs st' ∧ OClean o ∧ st'.sentinel = st.sentinel := by
  unfold loadM at h
  cases hl : st.cache.lookup (name, abs) with
  | some o0 =>
      rw [hl] at h
      simp only [Except.ok.injEq, Prod.mk.injEq] at h
      obtain ⟨rfl, rfl⟩ := h
      have ho := hc.2 _ (lookup_mem hl)
      refine ⟨⟨hc.1, ?_⟩, ho.1, rfl⟩
      intro e he
      simp only [List.mem_cons, List.mem_filter] at he
      rcases he with rfl | ⟨he, _⟩
      · exact ho
      · exact hc.2 e he
  | none =>
      rw [hl] at h
      cases hf : fs.lookup name with
      | none => rw [hf] at h; cases h
      | some f =>
          rw [hf] at h
          simp only at h
          cases hp : parseFile c st.flag name f with
          | error e => rw [hp] at h; cases h
          | ok t1 =>
              rw [hp] at h
              simp only [Except.ok.injEq, Prod.mk.injEq] at h
              obtain ⟨rfl, rfl⟩ := h
              have hflag : st.flag = false := hc.1
              rw [hflag] at hp
              have ht := parse_off_clean c name f _ hp
              have hi := (parse_items c false name f _ hp).1
              have ho : OClean ⟨st.next, t1, none⟩ := ⟨ht, fun ps hps => by cases hps⟩
              refine ⟨⟨hc.1, ?_⟩, ho, rfl⟩
              intro e he
              have he' := List.mem_of_mem_take he
              simp only [List.mem_cons, List.mem_filter] at he'
              rcases he' with rfl | ⟨he', _⟩
              · exact ⟨ho, f, hf, hi⟩
              · exact hc.2 e he'

theorem writeBack_clean (fs : FS) (st : MSt) (o : MT) (hc : MCleanM fs st) (ho : OClean o) :
    MCleanM fs (writeBack st o) ∧ (writeBack st o).sentinel = st.sentinel := by
  refine ⟨⟨hc.1, ?_⟩, rfl⟩
  intro e he
  simp only [writeBack, List.mem_map] at he
  obtain ⟨e0, he0, rfl⟩ := he
  obtain ⟨h0, hf0⟩ := hc.2 e0 he0
  by_cases hid : (e0.2.oid == o.oid) = true
  · rw [if_pos hid]
    exact ⟨⟨h0.1, fun ps h => ho.2 ps h⟩, hf0⟩
  · rw [if_neg hid]; exact ⟨h0, hf0⟩

/-- what a clean preparation leaves behind: still clean, sentinel untouched, a code-free stream -/
def KeepsP (fs : FS) (s0 : List Nat) (r : PRes) : Prop :=
  MCleanM fs r.1 ∧ r.1.sentinel = s0 ∧ ∀ ps, r.2 = .ok ps → pNoCode ps = true

theorem prepM_clean (cap : Nat) (fuel : Nat) (fs : FS) :
    ∀ (stack : List Nat) (o : MT) (st : MSt), MCleanM fs st → OClean o →
      KeepsP fs st.sentinel (prepM cap fuel fs stack o st) := by
  induction fuel with
  | zero => intro stack o st hc _; exact ⟨hc, rfl, fun ps h => by cases h⟩
  | succ fuel ih =>
      intro stack o st hc ho
      unfold prepM
      cases hp : o.prep with
      | some ps => exact ⟨hc, rfl, fun ps' h => by cases h; exact ho.2 ps hp⟩
      | none =>
          simp only
          have hfold : KeepsP fs st.sentinel (o.t.items.foldl (fun (acc : PRes) it =>
            match acc with
            | (st, .error e) => (st, .error e)
            | (st, .ok ps) =>
                match it with
                | .text i => (st, .ok (ps ++ [.text i]))
                | .expr i => (st, .ok (ps ++ [.expr i]))
                | .code i m => (st, .ok (ps ++ [.code i m]))
                | .incl n p dyn =>
                    let c := childCls o.t.cls p
                    if dyn || st.autoReload then (st, .ok (ps ++ [.rt n c o.t.absHrefs]))
                    else
                      match loadM cap fs st n c o.t.absHrefs with
                      | .error (.notFound _) => (st, .ok (ps ++ [.rt n c o.t.absHrefs]))
                      | .error e => (st, .error e)
                      | .ok (st', o') =>
                          if stack.contains o'.t.name then (st', .ok (ps ++ [.rt n c o.t.absHrefs]))
                          else
                            match prepM cap fuel fs (o'.t.name :: stack) o' st' with
                            | (st'', .error e) => (st'', .error e)
                            | (st'', .ok sub) => (st'', .ok (ps ++ sub))) (st, .ok [])) := by
            apply foldl_inv (KeepsP fs st.sentinel)
            · exact ⟨hc, rfl, fun ps h => by cases h; rfl⟩
            · intro acc it hit hacc
              obtain ⟨sa, ea⟩ := acc
              cases ea with
              | error e => exact hacc
              | ok ps =>
                  obtain ⟨hca, hsa, hpa⟩ := hacc
                  have hps : pNoCode ps = true := hpa ps rfl
                  have hitc : it.isCode = false := by
                    have := ho.1
                    simp only [noCode, List.all_eq_true] at this
                    simpa using this it hit
                  cases it with
                  | text i => exact ⟨hca, hsa, fun ps' h => by cases h; exact pNoCode_snoc _ _ hps rfl⟩
                  | expr i => exact ⟨hca, hsa, fun ps' h => by cases h; exact pNoCode_snoc _ _ hps rfl⟩
                  | code i m => simp [Item.isCode] at hitc
                  | incl n p dyn =>
                      simp only
                      have hrt : pNoCode (ps ++ [.rt n (childCls o.t.cls p) o.t.absHrefs]) = true :=
                        pNoCode_snoc _ _ hps rfl
                      by_cases hd : (dyn || sa.autoReload) = true
                      · rw [if_pos hd]; exact ⟨hca, hsa, fun ps' h => by cases h; exact hrt⟩
                      · rw [if_neg hd]
                        cases hl : loadM cap fs sa n (childCls o.t.cls p) o.t.absHrefs with
                        | error e =>
                            cases e <;> first
                              | exact ⟨hca, hsa, fun ps' h => by cases h; exact hrt⟩
                              | exact ⟨hca, hsa, fun ps' h => by cases h⟩
                        | ok pr =>
                            obtain ⟨st', o'⟩ := pr
                            obtain ⟨hc', ho', hs'⟩ := loadM_clean cap fs sa st' n _ _ o' hca hl
                            simp only
                            by_cases hk : stack.contains o'.t.name = true
                            · rw [if_pos hk]
                              exact ⟨hc', hs'.trans hsa, fun ps' h => by cases h; exact hrt⟩
                            · rw [if_neg hk]
                              obtain ⟨hc'', hs'', hp''⟩ := ih (o'.t.name :: stack) o' st' hc' ho'
                              cases hr : prepM cap fuel fs (o'.t.name :: stack) o' st' with
                              | mk st'' res =>
                                  rw [hr] at hc'' hs'' hp''
                                  cases res with
                                  | error e => exact ⟨hc'', hs''.trans (hs'.trans hsa), fun ps' h => by cases h⟩
                                  | ok sub =>
                                      refine ⟨hc'', hs''.trans (hs'.trans hsa), fun ps' h => ?_⟩
                                      cases h
                                      rw [pNoCode_append, hps, hp'' sub rfl]; rfl
          generalize o.t.items.foldl _ (st, Except.ok []) = r at hfold
          obtain ⟨st', res⟩ := r
          obtain ⟨hc', hs', hp'⟩ := hfold
          cases res with
          | error e => exact ⟨hc', hs', fun ps h => by cases h⟩
          | ok ps =>
              have hps := hp' ps rfl
              have ho2 : OClean { o with prep := some ps } := ⟨ho.1, fun ps' h => by cases h; exact hps⟩
              obtain ⟨hw, hws⟩ := writeBack_clean fs st' _ hc' ho2
              exact ⟨hw, hws.trans hs', fun ps' h => by cases h; exact hps⟩

def KeepsM (fs : FS) (s0 : List Nat) (r : MRes) : Prop := MCleanM fs r.1 ∧ r.1.sentinel = s0

theorem genM_clean (cap : Nat) (fuel pf : Nat) (fs : FS) :
    ∀ (o : MT) (st : MSt), MCleanM fs st → OClean o → KeepsM fs st.sentinel (genM cap fuel pf fs o st) := by
  induction fuel with
  | zero => intro o st hc _; exact ⟨hc, rfl⟩
  | succ fuel ih =>
      intro o st hc ho
      unfold genM
      obtain ⟨hc1, hs1, hp1⟩ := prepM_clean cap pf fs [o.t.name] o st hc ho
      cases hr : prepM cap pf fs [o.t.name] o st with
      | mk st1 res =>
          rw [hr] at hc1 hs1 hp1
          cases res with
          | error e => exact ⟨hc1, hs1⟩
          | ok ps =>
              have hps := hp1 ps rfl
              simp only
              apply foldl_inv (KeepsM fs st.sentinel)
              · exact ⟨hc1, hs1⟩
              · intro acc it hit hacc
                obtain ⟨sa, ea⟩ := acc
                cases ea with
                | some e => exact hacc
                | none =>
                    obtain ⟨hca, hsa⟩ := hacc
                    have hitc : it.isCode = false := by
                      have := hps
                      simp only [pNoCode, List.all_eq_true] at this
                      simpa using this it hit
                    cases it with
                    | text i => exact ⟨⟨hca.1, hca.2⟩, hsa⟩
                    | expr i => exact ⟨⟨hca.1, hca.2⟩, hsa⟩
                    | code i m => simp [PItem.isCode] at hitc
                    | rt n c abs =>
                        simp only
                        cases hl : loadM cap fs sa n c abs with
                        | error e => exact ⟨hca, hsa⟩
                        | ok pr =>
                            obtain ⟨st', o'⟩ := pr
                            obtain ⟨hc', ho', hs'⟩ := loadM_clean cap fs sa st' n c abs o' hca hl
                            obtain ⟨hc'', hs''⟩ := ih o' st' hc' ho'
                            exact ⟨hc'', hs''.trans (hs'.trans hsa)⟩

theorem histStepM_clean (cap fuel pf : Nat) (fs : FS) (st : MSt) (name : Nat) (c : Cls) (hc : MCleanM fs st) :
    MCleanM fs (histStepM cap fuel pf fs st name c).1 ∧
      (histStepM cap fuel pf fs st name c).1.sentinel = st.sentinel := by
  unfold histStepM
  cases hl : loadM cap fs st name c false with
  | error e => exact ⟨hc, rfl⟩
  | ok pr =>
      obtain ⟨st', o⟩ := pr
      obtain ⟨hc', ho', hs'⟩ := loadM_clean cap fs st st' name c false o hc hl
      have hc2 : MCleanM fs { st' with out := [] } := ⟨hc'.1, hc'.2⟩
      obtain ⟨h1, h2⟩ := genM_clean cap fuel pf fs o { st' with out := [] } hc2 ho'
      exact ⟨h1, h2.trans hs'⟩

/-- a history of load-and-render calls through one loader (any names, asked for in any class) -/
def runHistoryM (cap fuel pf : Nat) (fs : FS) (st : MSt) (hist : List (Nat × Cls)) : MSt :=
  hist.foldl (fun st nc => (histStepM cap fuel pf fs st nc.1 nc.2).1) st

theorem runHistoryM_clean (cap fuel pf : Nat) (fs : FS) (hist : List (Nat × Cls)) (st : MSt) (hc : MCleanM fs st) :
    MCleanM fs (runHistoryM cap fuel pf fs st hist) ∧ (runHistoryM cap fuel pf fs st hist).sentinel = st.sentinel := by
  unfold runHistoryM
  induction hist generalizing st with
  | nil => exact ⟨hc, rfl⟩
  | cons nc rest ih =>
      simp only [List.foldl_cons]
      obtain ⟨h1, h2⟩ := histStepM_clean cap fuel pf fs st nc.1 nc.2 hc
      obtain ⟨h3, h4⟩ := ih _ h1
      exact ⟨h3, h4.trans h2⟩

theorem mst0_clean (fs : FS) (ar : Bool) : MCleanM fs (mst0 false ar) := ⟨rfl, fun e he => by cases he⟩

/-- with the invariant, loading a file that holds a code block fails — never a cached object —
    and asked for in the language it is written in, with that file's syntax error -/
theorem loadM_code_fails (cap : Nat) (fs : FS) (st : MSt) (name : Nat) (c : Cls) (abs : Bool) (f : File)
    (hc : MCleanM fs st) (hf : fs.lookup name = some f) (hcode : noCode f.items = false) :
    ∃ e, loadM cap fs st name c abs = .error e ∧ (f.syn = c → e = .syntax name) := by
  unfold loadM
  cases hl : st.cache.lookup (name, abs) with
  | some o0 =>
      exfalso
      have hm := lookup_mem hl
      obtain ⟨f', hf', hi⟩ := (hc.2 _ hm).2
      simp only at hf'
      rw [hf] at hf'
      cases hf'
      have := (hc.2 _ hm).1.1
      simp only at this
      rw [hi, hcode] at this
      cases this
  | none =>
      simp only [hf]
      have hflag : st.flag = false := hc.1
      cases hp : parseFile c st.flag name f with
      | ok t =>
          exfalso
          rw [hflag] at hp
          have h1 := parse_off_clean c name f t hp
          have h2 := (parse_items c false name f t hp).1
          rw [h2, hcode] at h1
          cases h1
      | error e =>
          refine ⟨e, rfl, ?_⟩
          intro hsyn
          unfold parseFile at hp
          simp only [hsyn, ne_eq, not_true_eq_false, if_false, hcode, Bool.false_eq_true, hflag] at hp
          cases c <;> simp at hp <;> exact hp.symm

end Genshi.Exec

/-
  C01 — non-interference: the element / attribute skeleton of what a template renders to does
  not depend on the *contents* of the strings substituted into it.
-/
import Genshi.Lemmas.SubstTmpl
namespace Genshi.Subst
open Genshi.Escape Genshi.Str

/-! ### replacing the text of every value that is not marked safe -/

def Scalar.retext (f : List Char → List Char) : Scalar → Scalar
  | .str s => .str (f s)
  | .obj s h => .obj (f s) h
  | x => x

def Val.retext (f : List Char → List Char) : Val → Val
  | .one x => .one (x.retext f)
  | .many xs => .many (xs.map (·.retext f))

def Atom.retext (f : List Char → List Char) : Atom → Atom
  | .lit x => .lit (x.retext f)
  | .var i => .var i

def VExpr.retext (f : List Char → List Char) : VExpr → VExpr
  | .val v => .val (v.retext f)
  | .var i => .var i
  | .listOf items => .listOf (items.map (·.retext f))

def APart.retext (f : List Char → List Char) : APart → APart
  | .lit s => .lit s
  | .expr e => .expr (e.retext f)

def AttrSpec.retext (f : List Char → List Char) : AttrSpec → AttrSpec
  | .static s => .static s
  | .interp ps => .interp (ps.map (·.retext f))

def FArgs.retext (f : List Char → List Char) : FArgs → FArgs
  | .one a => .one (a.retext f)
  | .tup as => .tup (as.map (·.retext f))
  | .map kvs => .map (kvs.map fun p => (p.1, p.2.retext f))

mutual
  def BKid.retext (f : List Char → List Char) : BKid → BKid
    | .arg e => .arg (e.retext f)
    | .el t attrs kids => .el t (attrs.map fun p => (p.1, p.2.retext f)) (BKid.retextList f kids)
  def BKid.retextList (f : List Char → List Char) : List BKid → List BKid
    | [] => []
    | k :: ks => k.retext f :: BKid.retextList f ks
end

def SExpr.retext (f : List Char → List Char) : SExpr → SExpr
  | .v e => .v (e.retext f)
  | .add m a => .add m (a.retext f)
  | .radd m a => .radd m (a.retext f)
  | .join sep items => .join sep (items.map (·.retext f))
  | .esc a q => .esc (a.retext f) q
  | .fmt fm args => .fmt fm (args.retext f)
  | .fmtp ps as => .fmtp ps (as.map (·.retext f))
  | .build b => .build (b.retext f)
  | .frag kids => .frag (BKid.retextList f kids)

mutual
  def Node.retext (f : List Char → List Char) : Node → Node
    | .lit s => .lit s
    | .site e => .site (e.retext f)
    | .el t attrs pa kids =>
        .el t (attrs.map fun p => (p.1, p.2.retext f))
          (pa.map fun items => items.map fun p => (p.1, p.2.retext f)) (Node.retextList f kids)
    | .loop e kids => .loop (e.retext f) (Node.retextList f kids)
    | .bind a kids => .bind (a.retext f) (Node.retextList f kids)
    | .cond b kids => .cond b (Node.retextList f kids)
  def Node.retextList (f : List Char → List Char) : List Node → List Node
    | [] => []
    | n :: ns => n.retext f :: Node.retextList f ns
end

/-! ### the skeleton of a stream -/

inductive Sk where
  | start (tag : Name) (attrs : List Name)
  | end_ (tag : Name)
  | text
  deriving Repr, DecidableEq

def Ev.sk : Ev → Sk
  | .start t a => .start t (a.map (·.1))
  | .end_ t => .end_ t
  | .text _ _ => .text

def skelOf (evs : List Ev) : List Sk := evs.map Ev.sk

theorem skelOf_append (a b : List Ev) : skelOf (a ++ b) = skelOf a ++ skelOf b := by simp [skelOf]

/-! ### evaluation commutes with retexting -/

variable (f : List Char → List Char)

theorem evalAtom_retext (env : Env) (a : Atom) :
    evalAtom (env.map (·.retext f)) (a.retext f) = (evalAtom env a).retext f := by
  cases a with
  | lit x => rfl
  | var i =>
    simp only [Atom.retext, evalAtom, List.getD_eq_getElem?_getD, List.getElem?_map]
    cases env[i]? <;> rfl

theorem evalV_retext (env : Env) (e : VExpr) :
    evalV (env.map (·.retext f)) (e.retext f) = (evalV env e).retext f := by
  cases e with
  | val v => rfl
  | var i =>
    simp only [VExpr.retext, evalV, Val.retext, List.getD_eq_getElem?_getD, List.getElem?_map, Val.one.injEq]
    cases env[i]? <;> rfl
  | listOf items =>
    simp only [VExpr.retext, evalV, Val.retext, List.map_map, Val.many.injEq]
    apply List.map_congr_left
    intro a _
    exact evalAtom_retext f env a

theorem itemsOf_retext (v : Val) : itemsOf (v.retext f) = (itemsOf v).map (·.retext f) := by
  cases v <;> rfl

/-- the shape of a value: what decides how many events / attribute parts it yields -/
theorem flattenVal_retext_len (v : Val) : (flattenVal (v.retext f)).length = (flattenVal v).length := by
  cases v with
  | one x => cases x <;> rfl
  | many xs => simp [Val.retext, flattenVal]

/-! ### `Attrs.__or__` is parametric in the values -/

section Param
variable {α β : Type}

/-- two lists related element by element -/
def LR (R : α → β → Prop) : List α → List β → Prop
  | [], [] => True
  | a :: as, b :: bs => R a b ∧ LR R as bs
  | _, _ => False

theorem LR.nil (R : α → β → Prop) : LR R [] [] := trivial

theorem LR.append {R : α → β → Prop} : ∀ {a : List α} {b : List β} {c : List α} {d : List β},
    LR R a b → LR R c d → LR R (a ++ c) (b ++ d)
  | [], [], _, _, _, h => h
  | x :: xs, y :: ys, _, _, h1, h2 => ⟨h1.1, LR.append h1.2 h2⟩
  | [], _ :: _, _, _, h, _ => h.elim
  | _ :: _, [], _, _, h, _ => h.elim

end Param

section Or
variable {α β : Type} (R : α → β → Prop)

/-- same name, related values -/
def PR (p : Name × α) (q : Name × β) : Prop := p.1 = q.1 ∧ R p.2 q.2

/-- same name, both `None` or related values -/
def OR (p : Name × Option α) (q : Name × Option β) : Prop :=
  p.1 = q.1 ∧ match p.2, q.2 with
    | none, none => True
    | some a, some b => R a b
    | _, _ => False

theorem hasName_LR : ∀ {a : List (Name × α)} {b : List (Name × β)}, LR (PR R) a b → ∀ n, hasName a n = hasName b n
  | [], [], _, _ => rfl
  | x :: xs, y :: ys, h, n => by
      have := hasName_LR h.2 n
      simp only [hasName, List.any_cons] at this ⊢
      rw [h.1.1, this]
  | [], _ :: _, h, _ => h.elim
  | _ :: _, [], h, _ => h.elim

theorem gRemove_LR : ∀ {a : List (Name × Option α)} {b : List (Name × Option β)}, LR (OR R) a b →
    gRemove a = gRemove b
  | [], [], _ => rfl
  | (n, x) :: xs, (n', y) :: ys, h => by
      have ih := gRemove_LR h.2
      obtain ⟨hn, hv⟩ := h.1
      simp only at hn
      subst hn
      simp only [gRemove, List.filterMap_cons] at ih ⊢
      cases x <;> cases y <;> simp_all
  | [], _ :: _, h => h.elim
  | _ :: _, [], h => h.elim

theorem gRepl_cons_some (self : List (Name × α)) (n : Name) (v : α) (xs : List (Name × Option α)) :
    gRepl self ((n, some v) :: xs) = if hasName self n then (n, v) :: gRepl self xs else gRepl self xs := by
  simp only [gRepl, List.filterMap_cons]
  split <;> simp_all

theorem gRepl_cons_none (self : List (Name × α)) (n : Name) (xs : List (Name × Option α)) :
    gRepl self ((n, none) :: xs) = gRepl self xs := by
  simp [gRepl, List.filterMap_cons]

theorem gRepl_LR {self : List (Name × α)} {self' : List (Name × β)} (hs : LR (PR R) self self') :
    ∀ {a : List (Name × Option α)} {b : List (Name × Option β)}, LR (OR R) a b →
    LR (PR R) (gRepl self a) (gRepl self' b)
  | [], [], _ => trivial
  | (n, x) :: xs, (n', y) :: ys, h => by
      have ih := gRepl_LR hs h.2
      obtain ⟨hn, hv⟩ := h.1
      simp only at hn
      subst hn
      cases x with
      | none => cases y with
        | none => rw [gRepl_cons_none, gRepl_cons_none]; exact ih
        | some b => exact hv.elim
      | some a => cases y with
        | none => exact hv.elim
        | some b =>
          rw [gRepl_cons_some, gRepl_cons_some, hasName_LR R hs n]
          by_cases hh : hasName self' n = true
          · simp only [hh, ↓reduceIte]; exact ⟨⟨rfl, hv⟩, ih⟩
          · simp only [hh, Bool.false_eq_true, ↓reduceIte]; exact ih
  | [], _ :: _, h => h.elim
  | _ :: _, [], h => h.elim

/-- the relation `gLastVal` results stand in -/
def OptR : Option α → Option β → Prop
  | none, none => True
  | some x, some y => R x y
  | _, _ => False

theorem gLastVal_LR (n : Name) : ∀ {a : List (Name × α)} {b : List (Name × β)}, LR (PR R) a b →
    OptR R (gLastVal n a) (gLastVal n b)
  | [], [], _ => trivial
  | (k, x) :: xs, (k', y) :: ys, h => by
      have ih := gLastVal_LR n h.2
      obtain ⟨hn, hv⟩ := h.1
      simp only at hn
      subst hn
      simp only [gLastVal]
      cases h1 : gLastVal n xs with
      | none =>
        cases h2 : gLastVal n ys with
        | none =>
          by_cases hk : k = n
          · simp only [hk, ↓reduceIte]; exact hv
          · simp only [hk, ↓reduceIte]; trivial
        | some w => rw [h1, h2] at ih; exact ih.elim
      | some v =>
        cases h2 : gLastVal n ys with
        | none => rw [h1, h2] at ih; exact ih.elim
        | some w => rw [h1, h2] at ih; exact ih
  | [], _ :: _, h => h.elim
  | _ :: _, [], h => h.elim

theorem getD_OptR {o : Option α} {o' : Option β} {x : α} {y : β} (h : OptR R o o') (hxy : R x y) :
    R (o.getD x) (o'.getD y) := by
  cases o <;> cases o' <;> simp_all [OptR]

theorem gKept_LR {items : List (Name × Option α)} {items' : List (Name × Option β)}
    (hi : LR (OR R) items items') {self0 : List (Name × α)} {self0' : List (Name × β)}
    (hs0 : LR (PR R) self0 self0') :
    ∀ {self : List (Name × α)} {self' : List (Name × β)}, LR (PR R) self self' →
    LR (PR R)
      (self.filterMap fun p => if (gRemove items).contains p.1 then none
        else some (p.1, (gLastVal p.1 (gRepl self0 items)).getD p.2))
      (self'.filterMap fun p => if (gRemove items').contains p.1 then none
        else some (p.1, (gLastVal p.1 (gRepl self0' items')).getD p.2))
  | [], [], _ => trivial
  | (k, x) :: xs, (k', y) :: ys, h => by
      have ih := gKept_LR hi hs0 h.2
      obtain ⟨hn, hv⟩ := h.1
      simp only at hn
      subst hn
      rw [gRemove_LR R hi] at ih ⊢
      simp only [List.filterMap_cons]
      by_cases hc : (gRemove items').contains k = true
      · simp only [hc, ↓reduceIte]; exact ih
      · simp only [hc, Bool.false_eq_true, ↓reduceIte]
        exact ⟨⟨rfl, getD_OptR R (gLastVal_LR R k (gRepl_LR R hs0 hi)) hv⟩, ih⟩
  | [], _ :: _, h => h.elim
  | _ :: _, [], h => h.elim

theorem gUpsert_LR (n : Name) {v : α} {w : β} (hv : R v w) :
    ∀ {a : List (Name × α)} {b : List (Name × β)}, LR (PR R) a b → LR (PR R) (gUpsert n v a) (gUpsert n w b)
  | [], [], _ => ⟨⟨rfl, hv⟩, trivial⟩
  | (k, x) :: xs, (k', y) :: ys, h => by
      have ih := gUpsert_LR n hv h.2
      obtain ⟨hn, hxy⟩ := h.1
      simp only at hn
      subst hn
      simp only [gUpsert]
      split
      · exact ⟨⟨rfl, hv⟩, h.2⟩
      · exact ⟨⟨rfl, hxy⟩, ih⟩
  | [], _ :: _, h => h.elim
  | _ :: _, [], h => h.elim

theorem gNew_LR {self : List (Name × α)} {self' : List (Name × β)} (hs : LR (PR R) self self')
    (remove : List Name) :
    ∀ {a : List (Name × Option α)} {b : List (Name × Option β)}, LR (OR R) a b →
    ∀ {acc : List (Name × α)} {acc' : List (Name × β)}, LR (PR R) acc acc' →
    LR (PR R) (a.foldl (gNewStep self remove) acc) (b.foldl (gNewStep self' remove) acc')
  | [], [], _, _, _, hacc => hacc
  | (n, x) :: xs, (n', y) :: ys, h, acc, acc', hacc => by
      obtain ⟨hn, hv⟩ := h.1
      simp only at hn
      subst hn
      simp only [List.foldl_cons]
      apply gNew_LR hs remove h.2
      unfold gNewStep
      cases x with
      | none => cases y with
        | none => exact hacc
        | some b => exact hv.elim
      | some a => cases y with
        | none => exact hv.elim
        | some b =>
          simp only [hasName_LR R hs n]
          split
          · exact hacc
          · exact gUpsert_LR R n hv hacc
  | [], _ :: _, h, _, _, _ => h.elim
  | _ :: _, [], h, _, _, _ => h.elim

/-- `Attrs.__or__` treats values as opaque: related operands give related results -/
theorem gOr_LR {self : List (Name × α)} {self' : List (Name × β)} (hs : LR (PR R) self self')
    {items : List (Name × Option α)} {items' : List (Name × Option β)} (hi : LR (OR R) items items') :
    LR (PR R) (gOr self items) (gOr self' items') := by
  unfold gOr
  apply LR.append
  · exact gKept_LR R hi hs hs
  · unfold gNew
    rw [gRemove_LR R hi]
    exact gNew_LR R hs _ hi trivial

end Or

/-! ### attributes -/

section Attrs
variable (f : List Char → List Char)

theorem textData_flatten_len (v : Val) : ((flattenVal v).filterMap textData).length = (flattenVal v).length := by
  have h := flattenVal_allText v
  generalize flattenVal v = evs at h
  induction evs with
  | nil => rfl
  | cons e es ih =>
    obtain ⟨s, g, rfl⟩ := h e (by simp)
    simp [textData, ih fun x hx => h x (List.mem_cons_of_mem _ hx)]

theorem partValues_retext_len (env : Env) (p : APart) :
    (partValues (env.map (·.retext f)) (p.retext f)).length = (partValues env p).length := by
  cases p with
  | lit s => rfl
  | expr e =>
    simp only [APart.retext, partValues, evalV_retext, textData_flatten_len, flattenVal_retext_len]

theorem flatMap_len_congr {γ δ ε : Type} (g : γ → List δ) (g' : γ → List ε) (l : List γ)
    (h : ∀ x ∈ l, (g x).length = (g' x).length) : (l.flatMap g).length = (l.flatMap g').length := by
  induction l with
  | nil => rfl
  | cons x xs ih =>
    simp only [List.flatMap_cons, List.length_append]
    rw [h x (by simp), ih fun y hy => h y (List.mem_cons_of_mem _ hy)]

theorem attrValue_retext_isSome (env : Env) (a : AttrSpec) :
    (attrValue (env.map (·.retext f)) (a.retext f)).isSome = (attrValue env a).isSome := by
  cases a with
  | static s => rfl
  | interp parts =>
    simp only [AttrSpec.retext, attrValue, List.flatMap_map]
    have hl : (parts.flatMap fun p => partValues (env.map (·.retext f)) (p.retext f)).length
        = (parts.flatMap (partValues env)).length :=
      flatMap_len_congr _ _ parts fun p _ => partValues_retext_len f env p
    have e1 : ∀ {γ : Type} (l : List γ), l.isEmpty = decide (l.length = 0) := by
      intro γ l; cases l <;> simp
    rw [e1, e1, hl]
    split <;> rfl

/-- attribute specifications that yield a value under the same circumstances -/
def SR (env env' : Env) (a b : AttrSpec) : Prop := (attrValue env a).isSome = (attrValue env' b).isSome

theorem evalAttrs_names_LR (env env' : Env) :
    ∀ {a b : List (Name × AttrSpec)}, LR (PR (SR env env')) a b →
    (evalAttrs env a).map (·.1) = (evalAttrs env' b).map (·.1)
  | [], [], _ => rfl
  | (n, x) :: xs, (n', y) :: ys, h => by
      have ih := evalAttrs_names_LR env env' h.2
      obtain ⟨hn, hv⟩ := h.1
      simp only at hn
      subst hn
      simp only [evalAttrs, List.filterMap_cons] at ih ⊢
      unfold SR at hv
      cases h1 : attrValue env x <;> cases h2 : attrValue env' y <;> simp_all
  | [], _ :: _, h => h.elim
  | _ :: _, [], h => h.elim

theorem attrs_retext_LR (env : Env) : ∀ (attrs : List (Name × AttrSpec)),
    LR (PR (SR env (env.map (·.retext f)))) attrs (attrs.map fun p => (p.1, p.2.retext f))
  | [] => trivial
  | p :: ps => ⟨⟨rfl, (attrValue_retext_isSome f env p.2).symm⟩, attrs_retext_LR env ps⟩

/-- whether `py:attrs` keeps a value does not depend on its text (only `None` removes) -/
theorem stripValue_retext (x : Scalar) :
    (stripValue (x.retext f)).isSome = (stripValue x).isSome := by
  cases x <;> rfl

theorem items_retext_LR (env : Env) : ∀ (items : List (Name × Atom)),
    LR (OR (SR env (env.map (·.retext f))))
      (items.map fun p => (p.1, (stripValue (evalAtom env p.2)).map AttrSpec.static))
      ((items.map fun p => (p.1, p.2.retext f)).map fun p =>
        (p.1, (stripValue (evalAtom (env.map (·.retext f)) p.2)).map AttrSpec.static))
  | [] => trivial
  | p :: ps => by
      refine ⟨⟨rfl, ?_⟩, items_retext_LR env ps⟩
      have h := stripValue_retext f (evalAtom env p.2)
      simp only [evalAtom_retext]
      cases h1 : stripValue (evalAtom env p.2) <;> cases h2 : stripValue ((evalAtom env p.2).retext f) <;>
        simp_all [SR, attrValue]

theorem applyPyAttrs_eq (env : Env) (attrib : List (Name × AttrSpec)) (items : List (Name × Atom)) :
    applyPyAttrs env attrib items =
      if items.isEmpty then attrib
      else gOr attrib (items.map fun p => (p.1, (stripValue (evalAtom env p.2)).map AttrSpec.static)) := by
  unfold applyPyAttrs
  split
  · rfl
  · congr 1

theorem applyPyAttrs_retext_LR (env : Env) (attrs : List (Name × AttrSpec))
    (items : List (Name × Atom)) :
    LR (PR (SR env (env.map (·.retext f)))) (applyPyAttrs env attrs items)
      (applyPyAttrs (env.map (·.retext f)) (attrs.map fun p => (p.1, p.2.retext f))
        (items.map fun p => (p.1, p.2.retext f))) := by
  rw [applyPyAttrs_eq, applyPyAttrs_eq]
  cases items with
  | nil => exact attrs_retext_LR f env attrs
  | cons i is =>
    have h1 : (i :: is).isEmpty = false := rfl
    have h2 : ((i :: is).map fun p => (p.1, p.2.retext f)).isEmpty = false := rfl
    rw [h1, h2]
    simp only [Bool.false_eq_true, ↓reduceIte]
    have hA := attrs_retext_LR f env attrs
    have hI := items_retext_LR f env (i :: is)
    exact gOr_LR _ hA hI

theorem applyPyAttrs_retext_names (env : Env) (attrs : List (Name × AttrSpec))
    (items : List (Name × Atom)) :
    (evalAttrs (env.map (·.retext f))
        (applyPyAttrs (env.map (·.retext f)) (attrs.map fun p => (p.1, p.2.retext f))
          (items.map fun p => (p.1, p.2.retext f)))).map (·.1)
      = (evalAttrs env (applyPyAttrs env attrs items)).map (·.1) :=
  (evalAttrs_names_LR env _ (applyPyAttrs_retext_LR f env attrs items)).symm

end Attrs

/-! ### the builder's attributes -/

section Builder
variable (f : List Char → List Char)

theorem lastVal_eq (n : Name) (l : List (Name × List Char)) : lastVal n l = gLastVal n l := by
  induction l with
  | nil => rfl
  | cons p ps ih => obtain ⟨k, v⟩ := p; simp only [lastVal, gLastVal, ih]; cases gLastVal n ps <;> rfl

theorem upsert_eq (n : Name) (v : List Char) (l : Attrs) : upsert n v l = gUpsert n v l := by
  induction l with
  | nil => rfl
  | cons p ps ih => obtain ⟨k, w⟩ := p; simp only [upsert, gUpsert, ih]

theorem attrsOr_eq_gOr (self : Attrs) (attrs : List (Name × Option (List Char))) :
    Attrs.or self attrs = gOr self attrs := by
  have hhas : ∀ n, Attrs.has self n = hasName self n := fun _ => rfl
  have hrem : orRemove attrs = gRemove attrs := rfl
  have hrepl : orRepl self attrs = gRepl self attrs := by
    simp only [orRepl, gRepl]; congr 1; funext p; cases p.2 <;> rfl
  have hkept : orKept self attrs = gKept self attrs := by
    simp only [orKept, gKept, hrem, hrepl, lastVal_eq]
  have hstep : orNewStep self (orRemove attrs) = gNewStep self (gRemove attrs) := by
    funext acc p
    simp only [orNewStep, gNewStep, hrem, upsert_eq]
    cases p.2 <;> rfl
  have hnew : orNew self attrs = gNew self attrs := by
    simp only [orNew, gNew, hstep]
  simp only [Attrs.or, gOr, hkept, hnew]

theorem retext_isNone (x : Scalar) : (x.retext f = .none) ↔ (x = .none) := by
  cases x <;> simp [Scalar.retext]

theorem kwAttrs_retext_LR (env : Env) : ∀ (attrs : List (Name × Atom)) (seen : List Name),
    LR (OR fun (_ _ : List Char) => True) (kwAttrs env attrs seen)
      (kwAttrs (env.map (·.retext f)) (attrs.map fun p => (p.1, p.2.retext f)) seen)
  | [], _ => trivial
  | (n, a) :: rest, seen => by
      have ih1 := kwAttrs_retext_LR env rest seen
      have ih2 := kwAttrs_retext_LR env rest (n :: seen)
      simp only [List.map_cons, kwAttrs, evalAtom_retext]
      cases hx : evalAtom env a with
      | none => simpa [Scalar.retext] using ih1
      | str s =>
        simp only [Scalar.retext]
        split
        · exact ih1
        · exact ⟨⟨rfl, trivial⟩, ih2⟩
      | markup s =>
        simp only [Scalar.retext]
        split
        · exact ih1
        · exact ⟨⟨rfl, trivial⟩, ih2⟩
      | num s =>
        simp only [Scalar.retext]
        split
        · exact ih1
        · exact ⟨⟨rfl, trivial⟩, ih2⟩
      | obj s h =>
        simp only [Scalar.retext]
        split
        · exact ih1
        · exact ⟨⟨rfl, trivial⟩, ih2⟩

theorem names_of_LR {α β : Type} {R : α → β → Prop} : ∀ {a : List (Name × α)} {b : List (Name × β)},
    LR (PR R) a b → a.map (·.1) = b.map (·.1)
  | [], [], _ => rfl
  | x :: xs, y :: ys, h => by simp [h.1.1, names_of_LR h.2]
  | [], _ :: _, h => h.elim
  | _ :: _, [], h => h.elim

theorem builderAttrs_retext_names (env : Env) (attrs : List (Name × Atom)) :
    (Attrs.or [] (kwAttrs (env.map (·.retext f)) (attrs.map fun p => (p.1, p.2.retext f)) [])).map (·.1)
      = (Attrs.or [] (kwAttrs env attrs [])).map (·.1) := by
  rw [attrsOr_eq_gOr, attrsOr_eq_gOr]
  have hk := kwAttrs_retext_LR f env attrs []
  have hnil : LR (PR fun (_ _ : List Char) => True) ([] : List (Name × List Char)) [] := trivial
  exact (names_of_LR (gOr_LR _ hnil hk)).symm

end Builder

/-! ### `%`: whether it raises does not depend on the operands' text -/

theorem map_isOk {ε α β : Type} (g : α → β) (x : Except ε α) : (x.map g).isOk = x.isOk := by
  cases x <;> rfl

theorem fmtPos_isOk : ∀ (ps : List Piece) (a b : List (List Char)), a.length = b.length →
    (fmtPos ps a).isOk = (fmtPos ps b).isOk := by
  intro ps
  induction ps with
  | nil => intro a b h; cases a <;> cases b <;> simp_all [fmtPos, Except.isOk, Except.toBool]
  | cons p ps ih =>
    intro a b h
    cases p with
    | lit l => simp only [fmtPos, map_isOk]; exact ih a b h
    | pct => simp only [fmtPos, map_isOk]; exact ih a b h
    | arg =>
      cases a with
      | nil => cases b with
        | nil => rfl
        | cons y ys => simp at h
      | cons x xs => cases b with
        | nil => simp at h
        | cons y ys => simp only [fmtPos, map_isOk]; exact ih xs ys (by simpa using h)
    | key k => cases a <;> cases b <;> rfl

theorem lookupKey_isSome (k : List Char) : ∀ (a b : List (List Char × List Char)), a.map (·.1) = b.map (·.1) →
    (lookupKey k a).isSome = (lookupKey k b).isSome
  | [], [], _ => rfl
  | (k1, v1) :: xs, (k2, v2) :: ys, h => by
      simp only [List.map_cons, List.cons.injEq] at h
      obtain ⟨rfl, h2⟩ := h
      simp only [lookupKey]
      split
      · rfl
      · exact lookupKey_isSome k xs ys h2
  | [], _ :: _, h => by simp at h
  | _ :: _, [], h => by simp at h

theorem fmtMap_isOk : ∀ (ps : List Piece) (a b : List (List Char × List Char)), a.map (·.1) = b.map (·.1) →
    (fmtMap ps a).isOk = (fmtMap ps b).isOk := by
  intro ps
  induction ps with
  | nil => intro a b _; rfl
  | cons p ps ih =>
    intro a b h
    cases p with
    | lit l => simp only [fmtMap, map_isOk]; exact ih a b h
    | pct => simp only [fmtMap, map_isOk]; exact ih a b h
    | arg => rfl
    | key k =>
      have hk := lookupKey_isSome k a b h
      simp only [fmtMap]
      cases h1 : lookupKey k a with
      | none =>
        cases h2 : lookupKey k b with
        | none => rfl
        | some w => rw [h1, h2] at hk; simp at hk
      | some v =>
        cases h2 : lookupKey k b with
        | none => rw [h1, h2] at hk; simp at hk
        | some w => simp only [map_isOk]; exact ih a b h

theorem specMod_isOk (f : List Char → List Char) (env : Env) (fm : List Char) (args : FArgs) :
    (mMod (fun _ s => s) fm (specFArgs (env.map (·.retext f)) (args.retext f))).isOk
      = (mMod (fun _ s => s) fm (specFArgs env args)).isOk := by
  unfold mMod
  cases parseFmt (fm.length + 1) fm [] with
  | none => rfl
  | some ps =>
    cases args with
    | one a => exact fmtPos_isOk ps _ _ rfl
    | tup as => exact fmtPos_isOk ps _ _ (by simp [FArgs.retext, specFArgs])
    | map kvs => exact fmtMap_isOk ps _ _ (by simp [FArgs.retext, specFArgs, List.map_map, Function.comp_def])

/-! ### the skeleton of the expected stream -/

section Main
variable (f : List Char → List Char)

mutual
  theorem bkid_skel (env : Env) : ∀ b : BKid,
      skelOf (expectedB (env.map (·.retext f)) (b.retext f)) = skelOf (expectedB env b)
    | .arg e => by simp [BKid.retext, expectedB, skelOf, Ev.sk]
    | .el t attrs kids => by
        have hk := bkids_skel env kids
        have ha := builderAttrs_retext_names f env attrs
        simp only [BKid.retext, expectedB, skelOf, List.map_cons, List.map_append, List.map_nil, Ev.sk] at hk ⊢
        rw [ha, hk]
  theorem bkids_skel (env : Env) : ∀ bs : List BKid,
      skelOf (expectedBs (env.map (·.retext f)) (BKid.retextList f bs)) = skelOf (expectedBs env bs)
    | [] => rfl
    | b :: bs => by
        simp only [BKid.retextList, expectedBs, skelOf_append]
        rw [bkid_skel env b, bkids_skel env bs]
end

theorem fillAttrs_len : ∀ (attrs : List (Name × FAttr)) (a b : List (List Char)), a.length = b.length →
    match fillAttrs attrs a, fillAttrs attrs b with
    | none, none => True
    | some r, some r' => r.1.map (·.1) = r'.1.map (·.1) ∧ r.2.length = r'.2.length
    | _, _ => False
  | [], a, b, h => ⟨rfl, h⟩
  | (n, .lit v) :: rest, a, b, h => by
      have ih := fillAttrs_len rest a b h
      simp only [fillAttrs]
      cases h1 : fillAttrs rest a <;> cases h2 : fillAttrs rest b <;> simp_all
  | (n, .hole) :: rest, [], [], _ => trivial
  | (n, .hole) :: rest, [], _ :: _, h => by simp at h
  | (n, .hole) :: rest, _ :: _, [], h => by simp at h
  | (n, .hole) :: rest, x :: xs, y :: ys, h => by
      have ih := fillAttrs_len rest xs ys (by simpa using h)
      simp only [fillAttrs]
      cases h1 : fillAttrs rest xs <;> cases h2 : fillAttrs rest ys <;> simp_all

/-- the skeleton of the filled pieces depends on the number of operands only -/
theorem fillEvents_skel : ∀ (ps : List FPiece) (a b : List (List Char)), a.length = b.length →
    (fillEvents ps a).map skelOf = (fillEvents ps b).map skelOf
  | [], [], [], _ => rfl
  | [], [], _ :: _, h => by simp at h
  | [], _ :: _, [], h => by simp at h
  | [], _ :: _, _ :: _, _ => rfl
  | .text s :: rest, a, b, h => by
      have ih := fillEvents_skel rest a b h
      simp only [fillEvents, Option.map_map]
      cases h1 : fillEvents rest a <;> cases h2 : fillEvents rest b <;> simp_all [skelOf, Ev.sk]
  | .hole :: rest, [], [], _ => rfl
  | .hole :: rest, [], _ :: _, h => by simp at h
  | .hole :: rest, _ :: _, [], h => by simp at h
  | .hole :: rest, x :: xs, y :: ys, h => by
      have ih := fillEvents_skel rest xs ys (by simpa using h)
      simp only [fillEvents, Option.map_map]
      cases h1 : fillEvents rest xs <;> cases h2 : fillEvents rest ys <;> simp_all [skelOf, Ev.sk]
  | .open t attrs :: rest, a, b, h => by
      have ha := fillAttrs_len attrs a b h
      simp only [fillEvents]
      cases h1 : fillAttrs attrs a with
      | none =>
        cases h2 : fillAttrs attrs b with
        | none => rfl
        | some r' => simp [h1, h2] at ha
      | some r =>
        cases h2 : fillAttrs attrs b with
        | none => simp [h1, h2] at ha
        | some r' =>
          simp only [h1, h2] at ha
          have ih := fillEvents_skel rest r.2 r'.2 ha.2
          simp only [Option.map_map]
          cases h3 : fillEvents rest r.2 <;> cases h4 : fillEvents rest r'.2 <;>
            simp_all [skelOf, Ev.sk]
  | .close t :: rest, a, b, h => by
      have ih := fillEvents_skel rest a b h
      simp only [fillEvents, Option.map_map]
      cases h1 : fillEvents rest a <;> cases h2 : fillEvents rest b <;> simp_all [skelOf, Ev.sk]

theorem site_skel (env : Env) (e : SExpr) :
    skelOf (expectedSite (env.map (·.retext f)) (e.retext f)) = skelOf (expectedSite env e) := by
  cases e with
  | v e => simp [SExpr.retext, expectedSite, skelOf, Ev.sk]
  | add m a => simp [SExpr.retext, expectedSite, skelOf, Ev.sk]
  | radd m a => simp [SExpr.retext, expectedSite, skelOf, Ev.sk]
  | join sep items => simp [SExpr.retext, expectedSite, skelOf, Ev.sk]
  | esc a q => simp [SExpr.retext, expectedSite, skelOf, Ev.sk]
  | fmt fm args =>
    have h := specMod_isOk f env fm args
    simp only [SExpr.retext, expectedSite]
    cases h1 : mMod (fun _ s => s) fm (specFArgs (env.map (·.retext f)) (args.retext f)) <;>
      cases h2 : mMod (fun _ s => s) fm (specFArgs env args) <;>
      simp_all [Except.isOk, Except.toBool, skelOf, Ev.sk]
  | fmtp ps as =>
    have h := fillEvents_skel ps ((as.map (·.retext f)).map fun a => opndText (evalAtom (env.map (·.retext f)) a))
      (as.map fun a => opndText (evalAtom env a)) (by simp)
    simp only [SExpr.retext, expectedSite]
    cases h1 : fillEvents ps ((as.map (·.retext f)).map fun a => opndText (evalAtom (env.map (·.retext f)) a)) <;>
      cases h2 : fillEvents ps (as.map fun a => opndText (evalAtom env a)) <;> simp_all
  | build b => simpa [SExpr.retext, expectedSite] using bkid_skel f env b
  | frag kids => simpa [SExpr.retext, expectedSite] using bkids_skel f env kids

theorem map_cons_retext (x : Scalar) (env : Env) :
    (x :: env).map (·.retext f) = x.retext f :: env.map (·.retext f) := rfl

theorem flatMap_skel (xs : List Scalar) (g g' : Scalar → List Ev)
    (h : ∀ x ∈ xs, skelOf (g' (x.retext f)) = skelOf (g x)) :
    skelOf ((xs.map (·.retext f)).flatMap g') = skelOf (xs.flatMap g) := by
  induction xs with
  | nil => rfl
  | cons x xs ih =>
    simp only [List.map_cons, List.flatMap_cons, skelOf_append]
    rw [h x (by simp), ih fun y hy => h y (List.mem_cons_of_mem _ hy)]

mutual
  theorem node_skel : ∀ (n : Node) (env : Env),
      skelOf (expectedNode (env.map (·.retext f)) (n.retext f)) = skelOf (expectedNode env n)
    | .lit s, env => rfl
    | .site e, env => by simpa [Node.retext, expectedNode] using site_skel f env e
    | .el t attrs pa kids, env => by
        have hk := list_skel kids env
        cases pa with
        | none =>
          have ha := (evalAttrs_names_LR env _ (attrs_retext_LR f env attrs)).symm
          simp only [Node.retext, Option.map_none, expectedNode, skelOf, List.map_cons, List.map_append,
            List.map_nil, Ev.sk] at hk ⊢
          rw [ha, hk]
        | some items =>
          have ha := applyPyAttrs_retext_names f env attrs items
          simp only [Node.retext, Option.map_some, expectedNode, skelOf, List.map_cons, List.map_append,
            List.map_nil, Ev.sk] at hk ⊢
          rw [ha, hk]
    | .loop e kids, env => by
        simp only [Node.retext, expectedNode, evalV_retext, itemsOf_retext]
        apply flatMap_skel
        intro x _
        have := list_skel kids (x :: env)
        simpa [map_cons_retext] using this
    | .bind a kids, env => by
        have := list_skel kids (evalAtom env a :: env)
        simpa [Node.retext, expectedNode, evalAtom_retext, map_cons_retext] using this
    | .cond b kids, env => by
        cases b with
        | false => simp [Node.retext, expectedNode]
        | true => simpa [Node.retext, expectedNode] using list_skel kids env
  theorem list_skel : ∀ (ns : List Node) (env : Env),
      skelOf (expectedList (env.map (·.retext f)) (Node.retextList f ns)) = skelOf (expectedList env ns)
    | [], _ => rfl
    | n :: ns, env => by
        simp only [Node.retextList, expectedList, skelOf_append]
        rw [node_skel n env, list_skel ns env]
end

end Main

/-! ### the hypotheses of `structure_preserved_partial` do not depend on the text either -/

section Domain
variable (f : List Char → List Char)

theorem scalarOkB_retext (x : Scalar) : scalarOkB (x.retext f) = scalarOkB x := by
  cases x with
  | obj s h => cases h <;> rfl
  | _ => rfl

theorem opndOk_retext (x : Scalar) : opndOk (x.retext f) = opndOk x := by
  cases x with
  | obj s h => cases h <;> rfl
  | _ => rfl

theorem atomOkB_retext (a : Atom) : atomOkB (a.retext f) = atomOkB a := by
  cases a with
  | lit x => exact scalarOkB_retext f x
  | var i => rfl

theorem all_map_congr {γ : Type} (l : List γ) (r : γ → γ) (p : γ → Bool) (h : ∀ x, p (r x) = p x) :
    (l.map r).all p = l.all p := by
  induction l with
  | nil => rfl
  | cons x xs ih => simp [h x, ih]

theorem vexprOkB_retext (e : VExpr) : vexprOkB (e.retext f) = vexprOkB e := by
  cases e with
  | val v =>
    cases v with
    | one x => exact scalarOkB_retext f x
    | many xs => exact all_map_congr xs _ _ (scalarOkB_retext f)
  | var i => rfl
  | listOf items => exact all_map_congr items _ _ (atomOkB_retext f)

theorem fargsOkB_retext (a : FArgs) : fargsOkB (a.retext f) = fargsOkB a := by
  cases a with
  | one a => exact atomOkB_retext f a
  | tup as => exact all_map_congr as _ _ (atomOkB_retext f)
  | map kvs =>
    simp only [FArgs.retext, fargsOkB, List.all_map]
    congr 1
    funext p
    exact atomOkB_retext f p.2

theorem attrsB_retext (m : Method) (attrs : List (Name × Atom)) :
    (attrs.map fun p => (p.1, p.2.retext f)).all (fun p => attrNameOkB m p.1 && atomOkB p.2)
      = attrs.all (fun p => attrNameOkB m p.1 && atomOkB p.2) := by
  simp only [List.all_map]
  congr 1
  funext p
  simp [atomOkB_retext]

mutual
  theorem bkidOkB_retext (m : Method) : ∀ b : BKid, bkidOkB m (b.retext f) = bkidOkB m b
    | .arg e => vexprOkB_retext f e
    | .el t attrs kids => by
        have hk := bkidsOkB_retext m kids
        have hempty : (BKid.retextList f kids).isEmpty = kids.isEmpty := by cases kids <;> rfl
        simp only [BKid.retext, bkidOkB, attrsB_retext, hk, hempty]
  theorem bkidsOkB_retext (m : Method) : ∀ bs : List BKid, bkidsOkB m (BKid.retextList f bs) = bkidsOkB m bs
    | [] => rfl
    | b :: bs => by simp only [BKid.retextList, bkidsOkB, bkidOkB_retext m b, bkidsOkB_retext m bs]
end

theorem sexprOkB_retext (m : Method) (e : SExpr) : sexprOkB m (e.retext f) = sexprOkB m e := by
  cases e with
  | v e => exact vexprOkB_retext f e
  | add mk a => simp [SExpr.retext, sexprOkB, atomOkB_retext]
  | radd mk a => simp [SExpr.retext, sexprOkB, atomOkB_retext]
  | join sep items => simp only [SExpr.retext, sexprOkB, all_map_congr items _ _ (atomOkB_retext f)]
  | esc a q => exact atomOkB_retext f a
  | fmt fm args => simp [SExpr.retext, sexprOkB, fargsOkB_retext]
  | fmtp ps as => rfl
  | build b => exact bkidOkB_retext f m b
  | frag kids => exact bkidsOkB_retext f m kids

theorem attrSpecOkB_retext (a : AttrSpec) : attrSpecOkB (a.retext f) = attrSpecOkB a := by
  cases a with
  | static s => rfl
  | interp parts =>
    simp only [AttrSpec.retext, attrSpecOkB, List.all_map]
    congr 1
    funext p
    cases p with
    | lit s => rfl
    | expr e => exact vexprOkB_retext f e

mutual
  theorem nodeOkB_retext (m : Method) : ∀ n : Node, nodeOkB m (n.retext f) = nodeOkB m n
    | .lit s => rfl
    | .site e => sexprOkB_retext f m e
    | .el t attrs pa kids => by
        have hk := nodesOkB_retext m kids
        have hempty : (Node.retextList f kids).isEmpty = kids.isEmpty := by cases kids <;> rfl
        have hattrs : (attrs.map fun p => (p.1, p.2.retext f)).all (fun p => attrNameOkB m p.1 && attrSpecOkB p.2)
            = attrs.all (fun p => attrNameOkB m p.1 && attrSpecOkB p.2) := by
          simp only [List.all_map]
          congr 1
          funext p
          simp [attrSpecOkB_retext]
        cases pa with
        | none => simp only [Node.retext, Option.map_none, nodeOkB, hattrs, hk, hempty]
        | some items => simp only [Node.retext, Option.map_some, nodeOkB, hattrs, hk, hempty, attrsB_retext]
    | .loop e kids => by simp only [Node.retext, nodeOkB, vexprOkB_retext, nodesOkB_retext m kids]
    | .bind a kids => by simp only [Node.retext, nodeOkB, atomOkB_retext, nodesOkB_retext m kids]
    | .cond b kids => by simp only [Node.retext, nodeOkB, nodesOkB_retext m kids]
  theorem nodesOkB_retext (m : Method) : ∀ ns : List Node, nodesOkB m (Node.retextList f ns) = nodesOkB m ns
    | [] => rfl
    | n :: ns => by simp only [Node.retextList, nodesOkB, nodeOkB_retext m n, nodesOkB_retext m ns]
end

theorem atomOk_retext (env : Env) (a : Atom) :
    atomOk (env.map (·.retext f)) (a.retext f) = atomOk env a := by
  simp only [atomOk, evalAtom_retext, opndOk_retext]

theorem escMod_isOk (env : Env) (fm : List Char) (args : FArgs) :
    (mMod escapePy fm (evalFArgs (env.map (·.retext f)) (args.retext f))).isOk
      = (mMod escapePy fm (evalFArgs env args)).isOk := by
  unfold mMod
  cases parseFmt (fm.length + 1) fm [] with
  | none => rfl
  | some ps =>
    cases args with
    | one a => exact fmtPos_isOk ps _ _ rfl
    | tup as => exact fmtPos_isOk ps _ _ (by simp [FArgs.retext, evalFArgs])
    | map kvs => exact fmtMap_isOk ps _ _ (by simp [FArgs.retext, evalFArgs, List.map_map, Function.comp_def])

theorem siteOk_retext (env : Env) (e : SExpr) :
    siteOk (env.map (·.retext f)) (e.retext f) = siteOk env e := by
  cases e with
  | v e => rfl
  | add mk a => exact atomOk_retext f env a
  | radd mk a => exact atomOk_retext f env a
  | join sep items =>
    simp only [SExpr.retext, siteOk, List.all_map]
    congr 1
    funext a
    exact atomOk_retext f env a
  | esc a q => exact atomOk_retext f env a
  | fmt fm args =>
    have h1 : fargsAtomsOk (env.map (·.retext f)) (args.retext f) = fargsAtomsOk env args := by
      cases args with
      | one a => exact atomOk_retext f env a
      | tup as =>
        simp only [FArgs.retext, fargsAtomsOk, List.all_map]
        congr 1; funext a; exact atomOk_retext f env a
      | map kvs =>
        simp only [FArgs.retext, fargsAtomsOk, List.all_map]
        congr 1; funext p; exact atomOk_retext f env p.2
    have h2 := escMod_isOk f env fm args
    simp only [SExpr.retext, siteOk, h1]
    congr 1
    cases h3 : mMod escapePy fm (evalFArgs (env.map (·.retext f)) (args.retext f)) <;>
      cases h4 : mMod escapePy fm (evalFArgs env args) <;> simp_all [Except.isOk, Except.toBool]
  | fmtp ps as =>
    have h1 : (as.map (·.retext f)).all (atomOk (env.map (·.retext f))) = as.all (atomOk env) := by
      simp only [List.all_map]; congr 1; funext a; exact atomOk_retext f env a
    have h2 : (mMod escapePy (fmtString ps) (.tup ((as.map (·.retext f)).map fun a =>
          toOpnd (evalAtom (env.map (·.retext f)) a)))).isOk
        = (mMod escapePy (fmtString ps) (.tup (as.map fun a => toOpnd (evalAtom env a)))).isOk := by
      unfold mMod
      cases parseFmt ((fmtString ps).length + 1) (fmtString ps) [] with
      | none => rfl
      | some pcs => exact fmtPos_isOk pcs _ _ (by simp)
    simp only [SExpr.retext, siteOk, h1]
    congr 1
    cases h3 : mMod escapePy (fmtString ps) (.tup ((as.map (·.retext f)).map fun a =>
          toOpnd (evalAtom (env.map (·.retext f)) a))) <;>
      cases h4 : mMod escapePy (fmtString ps) (.tup (as.map fun a => toOpnd (evalAtom env a))) <;>
      simp_all [Except.isOk, Except.toBool]
  | build b => rfl
  | frag kids => rfl

mutual
  theorem nodeOk_retext : ∀ (n : Node) (env : Env), nodeOk (env.map (·.retext f)) (n.retext f) = nodeOk env n
    | .lit s, _ => rfl
    | .site e, env => siteOk_retext f env e
    | .el t attrs pa kids, env => by simp only [Node.retext, nodeOk, listOk_retext kids env]
    | .loop e kids, env => by
        simp only [Node.retext, nodeOk, evalV_retext, itemsOf_retext, List.all_map]
        congr 1
        funext x
        have := listOk_retext kids (x :: env)
        simpa [map_cons_retext] using this
    | .bind a kids, env => by
        have := listOk_retext kids (evalAtom env a :: env)
        simpa [Node.retext, nodeOk, evalAtom_retext, map_cons_retext] using this
    | .cond b kids, env => by
        cases b with
        | false => rfl
        | true => simpa [Node.retext, nodeOk] using listOk_retext kids env
  theorem listOk_retext : ∀ (ns : List Node) (env : Env),
      listOk (env.map (·.retext f)) (Node.retextList f ns) = listOk env ns
    | [], _ => rfl
    | n :: ns, env => by simp only [Node.retextList, listOk, nodeOk_retext n env, listOk_retext ns env]
end

theorem envOk_retext (env : Env) (h : EnvOk env) : EnvOk (env.map (·.retext f)) := by
  intro x hx
  obtain ⟨y, hy, rfl⟩ := List.mem_map.mp hx
  rw [scalarOkB_retext]; exact h y hy

end Domain

/-! ### tags of a re-read stream -/

def tagsOf (evs : List Ev) : List Sk := (skelOf evs).filter (· != .text)

theorem tagsOf_flushData (pend : List Char) : tagsOf (flushData pend) = [] := by
  unfold flushData; split <;> rfl

theorem tagsOf_append (a b : List Ev) : tagsOf (a ++ b) = tagsOf a ++ tagsOf b := by
  simp [tagsOf, skelOf]

theorem tagsOf_coalesceWith (fl : Nat → List Char → List Ev) (hfl : ∀ p pend, tagsOf (fl p pend) = [])
    (pres : List Name) (evs : List Ev) : ∀ p pend, tagsOf (coalesceWith fl pres p pend evs) = tagsOf evs := by
  induction evs with
  | nil => intro p pend; simp only [coalesceWith, hfl]; rfl
  | cons e es ih =>
    intro p pend
    cases e with
    | text s g => simpa [coalesceWith, tagsOf, skelOf, Ev.sk] using ih p (pend ++ textValue s g)
    | start t a =>
      simp only [coalesceWith, tagsOf_append, hfl, List.nil_append]
      have := ih (presStep pres p t) []
      simp only [tagsOf, skelOf, List.map_cons, Ev.sk] at this ⊢
      simp [this]
    | end_ t =>
      simp only [coalesceWith, tagsOf_append, hfl, List.nil_append]
      have := ih (p - 1) []
      simp only [tagsOf, skelOf, List.map_cons, Ev.sk] at this ⊢
      simp [this]

theorem tagsOf_coalesce (evs : List Ev) : tagsOf (coalesce evs) = tagsOf evs := by
  unfold coalesce
  rw [coalesceGo_eq_with [] [] evs 0]
  exact tagsOf_coalesceWith _ (fun _ pend => tagsOf_flushData pend) [] evs 0 []

theorem tagsOf_coalesceStrip (m : Method) (evs : List Ev) : tagsOf (coalesceStrip m evs) = tagsOf evs := by
  unfold coalesceStrip
  rw [coalesceStripGo_eq_with]
  exact tagsOf_coalesceWith _ (fun p pend => by unfold flushDataP; exact tagsOf_flushData _) _ evs 0 []

end Genshi.Subst

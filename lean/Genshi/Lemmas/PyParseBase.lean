/-
  C13 — infrastructure for `parse_gen`: where the loops of `pyParse` stop, how a parse result
  is lifted through the precedence layers, and the facts about the generated operator tables
  the proof needs (each a `decide` over the table, so a changed table re-checks them).
-/
import Genshi.Model.PyParse
namespace Genshi.Py
open Genshi.Gen

/-! ### projections of `knot (n+1)` -/

@[simp] theorem knot_expr (n : Nat) : (knot (n+1)).expr = exprF (knot n) := rfl
@[simp] theorem knot_disj (n : Nat) : (knot (n+1)).disj = disjF (knot n) := rfl
@[simp] theorem knot_conj (n : Nat) : (knot (n+1)).conj = conjF (knot n) := rfl
@[simp] theorem knot_inv (n : Nat) : (knot (n+1)).inv = invF (knot n) := rfl
@[simp] theorem knot_bin (n : Nat) : (knot (n+1)).bin = binF (knot n) := rfl
@[simp] theorem knot_unary (n : Nat) : (knot (n+1)).unary = unaryF (knot n) := rfl
@[simp] theorem knot_trailers (n : Nat) : (knot (n+1)).trailers = trailersF (knot n) := rfl
@[simp] theorem knot_binl (n : Nat) : (knot (n+1)).binl = binlF (knot n) := rfl
@[simp] theorem knot_cmpl (n : Nat) : (knot (n+1)).cmpl = cmplF (knot n) := rfl
@[simp] theorem knot_andl (n : Nat) : (knot (n+1)).andl = andlF (knot n) := rfl
@[simp] theorem knot_orl (n : Nat) : (knot (n+1)).orl = orlF (knot n) := rfl
@[simp] theorem knot_items (n : Nat) : (knot (n+1)).items = itemsF (knot n) := rfl
@[simp] theorem knot_comps (n : Nat) : (knot (n+1)).comps = compsF (knot n) := rfl
@[simp] theorem knot_ifs (n : Nat) : (knot (n+1)).ifs = ifsF (knot n) := rfl

/-! ### tokens at which a loop stops -/

def stopsTrailer : List Tok → Bool
  | .op ['.'] :: _ => false
  | .op ['('] :: _ => false
  | .op ['['] :: _ => false
  | _ => true

def stopsPow : List Tok → Bool
  | .op ['*', '*'] :: _ => false
  | _ => true

def stopsBin : List Tok → Bool
  | .op s :: _ => (binLevel? s Astgrammar.binLevels).isNone
  | _ => true

def stopsCmp (toks : List Tok) : Bool := (cmpOp? toks).isNone

def stopsAnd : List Tok → Bool
  | .name ['a', 'n', 'd'] :: _ => false
  | _ => true

def stopsOr : List Tok → Bool
  | .name ['o', 'r'] :: _ => false
  | _ => true

def stopsIf : List Tok → Bool
  | .name ['i', 'f'] :: _ => false
  | _ => true

theorem trailers_stop (k : Knot) (e : PyExpr) (toks : List Tok) (h : stopsTrailer toks = true) :
    trailersF k e toks = some (e, toks) := by
  unfold trailersF
  split <;> first | rfl | (simp [stopsTrailer] at h)

theorem binl_stop (k : Knot) (lvl : Nat) (lhs : PyExpr) (toks : List Tok) (h : stopsBin toks = true) :
    binlF k lvl lhs toks = some (lhs, toks) := by
  unfold binlF
  split
  · rename_i s r
    simp [stopsBin] at h
    simp [h]
  · rfl

theorem cmpl_stop (k : Knot) (l : PyExpr) (toks : List Tok) (h : stopsCmp toks = true) :
    cmplF k l [] toks = some (l, toks) := by
  simp [stopsCmp] at h
  simp [cmplF, h]

theorem andl_stop (k : Knot) (acc : List PyExpr) (toks : List Tok) (h : stopsAnd toks = true) :
    andlF k acc toks = some (mkBool cs!"And" acc.reverse, toks) := by
  unfold andlF
  split
  · simp [stopsAnd] at h
  · rfl

theorem orl_stop (k : Knot) (acc : List PyExpr) (toks : List Tok) (h : stopsOr toks = true) :
    orlF k acc toks = some (mkBool cs!"Or" acc.reverse, toks) := by
  unfold orlF
  split
  · simp [stopsOr] at h
  · rfl

/-! ### closers: the tokens that follow a complete sub-expression in regenerated source -/

def closersD : List Tok :=
  [tRP, tRB, tRC, tComma, tColon, kw cs!"for", kw cs!"async", kw cs!"if", kw cs!"else"]

/-- the rest of the input starts with a closer (or is empty): every operator loop stops -/
def closedD : List Tok → Bool
  | [] => true
  | t :: _ => closersD.contains t

/-- … and it is not `if` (so a conditional expression does not continue) -/
def closedE : List Tok → Bool
  | [] => true
  | t :: _ => closersD.contains t && t != kw cs!"if"

theorem closer_elim (t : Tok) (h : t ∈ closersD) :
    t = tRP ∨ t = tRB ∨ t = tRC ∨ t = tComma ∨ t = tColon ∨ t = kw cs!"for" ∨ t = kw cs!"async"
      ∨ t = kw cs!"if" ∨ t = kw cs!"else" := by
  simpa [closersD] using h

theorem closedE_D {r : List Tok} (h : closedE r = true) : closedD r = true := by
  cases r with
  | nil => rfl
  | cons t r => simp [closedE] at h; simp [closedD, h.1]

theorem closedE_if {r : List Tok} (h : closedE r = true) : stopsIf r = true := by
  cases r with
  | nil => rfl
  | cons t r =>
    simp [closedE] at h
    rcases closer_elim t h.1 with rfl | rfl | rfl | rfl | rfl | rfl | rfl | rfl | rfl <;>
      first | rfl | (exfalso; exact h.2 rfl)

/-- `and`, `or` and the closers: nothing below the boolean layer continues -/
def belowBool : List Tok → Bool
  | [] => true
  | t :: _ => closersD.contains t || t = kw cs!"and" || t = kw cs!"or"

theorem belowBool_elim (t : Tok) (r : List Tok) (h : belowBool (t :: r) = true) :
    t = tRP ∨ t = tRB ∨ t = tRC ∨ t = tComma ∨ t = tColon ∨ t = kw cs!"for" ∨ t = kw cs!"async"
      ∨ t = kw cs!"if" ∨ t = kw cs!"else" ∨ t = kw cs!"and" ∨ t = kw cs!"or" := by
  simp [belowBool] at h
  rcases h with (h | h) | h
  · rcases closer_elim t h with h | h | h | h | h | h | h | h | h <;> simp [h]
  · simp [h]
  · simp [h]

theorem closedD_belowBool {r : List Tok} (h : closedD r = true) : belowBool r = true := by
  cases r with
  | nil => rfl
  | cons t r => simp [closedD] at h; simp [belowBool, h]

theorem belowBool_trailer {r : List Tok} (h : belowBool r = true) : stopsTrailer r = true := by
  cases r with
  | nil => rfl
  | cons t r =>
    rcases belowBool_elim t r h with rfl | rfl | rfl | rfl | rfl | rfl | rfl | rfl | rfl | rfl | rfl <;> rfl

theorem belowBool_pow {r : List Tok} (h : belowBool r = true) : stopsPow r = true := by
  cases r with
  | nil => rfl
  | cons t r =>
    rcases belowBool_elim t r h with rfl | rfl | rfl | rfl | rfl | rfl | rfl | rfl | rfl | rfl | rfl <;> rfl

theorem belowBool_bin {r : List Tok} (h : belowBool r = true) : stopsBin r = true := by
  cases r with
  | nil => rfl
  | cons t r =>
    rcases belowBool_elim t r h with rfl | rfl | rfl | rfl | rfl | rfl | rfl | rfl | rfl | rfl | rfl <;> rfl

theorem belowBool_cmp {r : List Tok} (h : belowBool r = true) : stopsCmp r = true := by
  cases r with
  | nil => rfl
  | cons t r =>
    rcases belowBool_elim t r h with rfl | rfl | rfl | rfl | rfl | rfl | rfl | rfl | rfl | rfl | rfl <;>
      (cases r with
       | nil => rfl
       | cons t2 r2 =>
         cases t2 <;>
           simp [stopsCmp, cmpOp?, tokText, cmpFind, Astgrammar.cmpOps, tRP, tRB, tRC, tComma, tColon, kw])

theorem closedD_and {r : List Tok} (h : closedD r = true) : stopsAnd r = true := by
  cases r with
  | nil => rfl
  | cons t r =>
    simp [closedD] at h
    rcases closer_elim t h with rfl | rfl | rfl | rfl | rfl | rfl | rfl | rfl | rfl <;> rfl

theorem closedD_or {r : List Tok} (h : closedD r = true) : stopsOr r = true := by
  cases r with
  | nil => rfl
  | cons t r =>
    simp [closedD] at h
    rcases closer_elim t h with rfl | rfl | rfl | rfl | rfl | rfl | rfl | rfl | rfl <;> rfl

/-! ### the first token of an operand -/

/-- tokens a (well-formed) regenerated expression can start with -/
def atomStart : Tok → Bool
  | .name s => !isKeyword s || s = cs!"True" || s = cs!"False" || s = cs!"None"
  | .num _ => true
  | .str _ => true
  | .op s => s = ['('] || s = ['['] || s = ['{'] || s = ['.', '.', '.']

def headOK : List Tok → Bool
  | [] => false
  | t :: _ => atomStart t

theorem headOK_append {a : List Tok} (b : List Tok) (h : headOK a = true) : headOK (a ++ b) = true := by
  cases a with
  | nil => simp [headOK] at h
  | cons t r => simpa [headOK] using h

theorem headOK_cons_append {a : List Tok} (b : List Tok) (h : headOK a = true) :
    ∃ t r, a ++ b = t :: r ∧ atomStart t = true := by
  cases a with
  | nil => simp [headOK] at h
  | cons t r => exact ⟨t, r ++ b, rfl, by simpa [headOK] using h⟩

/-! ### lifting a result through the precedence layers -/

theorem power_of_primary (k : Knot) (toks : List Tok) (e : PyExpr) (r : List Tok)
    (h : primaryF k toks = some (e, r)) (hp : stopsPow r = true) : powerF k toks = some (e, r) := by
  unfold powerF
  simp only [h, Option.bind_eq_bind, Option.bind_some]
  split
  · simp [stopsPow] at hp
  · rfl

theorem atomStart_not_unary (t : Tok) (h : atomStart t = true) :
    ∀ s, t = .op s → unarySym? s Astgrammar.unaryOps = none := by
  intro s hs
  subst hs
  simp [atomStart] at h
  rcases h with ((h | h) | h) | h <;> subst h <;> rfl

theorem unary_of_power (k : Knot) (toks : List Tok) (e : PyExpr) (r : List Tok)
    (h : powerF k toks = some (e, r)) (hh : headOK toks = true) : unaryF k toks = some (e, r) := by
  cases toks with
  | nil => simp [headOK] at hh
  | cons t rest =>
    simp [headOK] at hh
    unfold unaryF
    split
    · rename_i s r' heq
      have := atomStart_not_unary t hh s (by simpa using (List.cons.inj heq).1)
      simp [this, h]
    · exact h

theorem bin_of_unary (n lvl : Nat) (toks : List Tok) (e : PyExpr) (r : List Tok)
    (h : unaryF (knot (n+1)) toks = some (e, r)) (hb : stopsBin r = true) :
    binF (knot (n+1)) lvl toks = some (e, r) := by
  simp [binF, h, binl_stop _ _ _ _ hb]

theorem cmp_of_bin (n : Nat) (toks : List Tok) (e : PyExpr) (r : List Tok)
    (h : binF (knot (n+1)) 0 toks = some (e, r)) (hc : stopsCmp r = true) :
    cmpF (knot (n+1)) toks = some (e, r) := by
  simp [cmpF, h, cmpl_stop _ _ _ hc]

theorem atomStart_not (t : Tok) (h : atomStart t = true) (s : Str) (hs : isKeyword s = true)
    (h1 : s ≠ cs!"True") (h2 : s ≠ cs!"False") (h3 : s ≠ cs!"None") : t ≠ .name s := by
  intro e
  subst e
  simp [atomStart, hs, h1, h2, h3] at h

/-- the input does not start with the keyword `s` -/
def notKwHead (s : Str) : List Tok → Bool
  | .name s' :: _ => s' != s
  | _ => true

theorem headOK_notKw {toks : List Tok} (h : headOK toks = true) (s : Str) (hs : isKeyword s = true)
    (h1 : s ≠ cs!"True") (h2 : s ≠ cs!"False") (h3 : s ≠ cs!"None") : notKwHead s toks = true := by
  cases toks with
  | nil => rfl
  | cons t r =>
    simp [headOK] at h
    unfold notKwHead
    split
    · rename_i s' _ heq
      have := (List.cons.inj heq).1
      subst this
      simp only [bne_iff_ne, ne_eq]
      intro e; subst e
      simp [atomStart, hs, h1, h2, h3] at h
    · rfl

theorem headOK_not {toks : List Tok} (h : headOK toks = true) : notKwHead cs!"not" toks = true :=
  headOK_notKw h _ (by decide) (by decide) (by decide) (by decide)

theorem headOK_lambda {toks : List Tok} (h : headOK toks = true) : notKwHead cs!"lambda" toks = true :=
  headOK_notKw h _ (by decide) (by decide) (by decide) (by decide)

theorem inv_of_cmp (k : Knot) (toks : List Tok) (e : PyExpr) (r : List Tok)
    (h : cmpF k toks = some (e, r)) (hn : notKwHead cs!"not" toks = true) : invF k toks = some (e, r) := by
  unfold invF
  split
  · simp [notKwHead] at hn
  · exact h

theorem conj_of_inv (n : Nat) (toks : List Tok) (e : PyExpr) (r : List Tok)
    (h : invF (knot (n+1)) toks = some (e, r)) (ha : stopsAnd r = true) :
    conjF (knot (n+1)) toks = some (e, r) := by
  simp [conjF, h, andl_stop _ _ _ ha, mkBool]

theorem disj_of_conj (n : Nat) (toks : List Tok) (e : PyExpr) (r : List Tok)
    (h : conjF (knot (n+1)) toks = some (e, r)) (ho : stopsOr r = true) :
    disjF (knot (n+1)) toks = some (e, r) := by
  simp [disjF, h, orl_stop _ _ _ ho, mkBool]

theorem expr_of_disj (k : Knot) (toks : List Tok) (e : PyExpr) (r : List Tok)
    (h : disjF k toks = some (e, r)) (hl : notKwHead cs!"lambda" toks = true) (hi : stopsIf r = true) :
    exprF k toks = some (e, r) := by
  unfold exprF
  split
  · simp [notKwHead] at hl
  · simp only [h, Option.bind_eq_bind, Option.bind_some]
    split
    · simp [stopsIf] at hi
    · rfl

/-- from the inversion (`not`) layer to a full expression, when the rest is closed -/
theorem expr_of_inv (n : Nat) (toks : List Tok) (e : PyExpr) (r : List Tok)
    (h : invF (knot (n+1)) toks = some (e, r)) (hl : notKwHead cs!"lambda" toks = true) (hc : closedE r = true) :
    exprF (knot (n+1)) toks = some (e, r) := by
  have hd := closedE_D hc
  exact expr_of_disj _ _ _ _
    (disj_of_conj _ _ _ _ (conj_of_inv _ _ _ _ h (closedD_and hd)) (closedD_or hd)) hl (closedE_if hc)

/-- from the unary layer to a full expression, when the rest is closed -/
theorem expr_of_unary (n : Nat) (toks : List Tok) (e : PyExpr) (r : List Tok)
    (h : unaryF (knot (n+1)) toks = some (e, r)) (hn : notKwHead cs!"not" toks = true)
    (hl : notKwHead cs!"lambda" toks = true) (hc : closedE r = true) :
    exprF (knot (n+1)) toks = some (e, r) := by
  have hb := closedD_belowBool (closedE_D hc)
  exact expr_of_inv _ _ _ _
    (inv_of_cmp _ _ _ _
      (cmp_of_bin _ _ _ _ (bin_of_unary _ _ _ _ _ h (belowBool_bin hb)) (belowBool_cmp hb)) hn) hl hc

theorem disj_of_unary (n : Nat) (toks : List Tok) (e : PyExpr) (r : List Tok)
    (h : unaryF (knot (n+1)) toks = some (e, r)) (hn : notKwHead cs!"not" toks = true) (hd : closedD r = true) :
    disjF (knot (n+1)) toks = some (e, r) := by
  have hb := closedD_belowBool hd
  exact disj_of_conj _ _ _ _
      (conj_of_inv _ _ _ _
        (inv_of_cmp _ _ _ _
          (cmp_of_bin _ _ _ _ (bin_of_unary _ _ _ _ _ h (belowBool_bin hb)) (belowBool_cmp hb)) hn)
        (closedD_and hd))
      (closedD_or hd)

/-! ### unfolding steps -/

theorem binF_def (k : Knot) (lvl : Nat) (toks : List Tok) :
    binF k lvl toks = (unaryF k toks).bind fun x => k.binl lvl x.1 x.2 := rfl

theorem binl_step (k : Knot) (lvl : Nat) (lhs : PyExpr) (s : Str) (r : List Tok) (cls : Str) (l : Nat)
    (h : binLevel? s Astgrammar.binLevels = some (cls, l)) (hl : lvl ≤ l) :
    binlF k lvl lhs (.op s :: r) = (k.bin (l + 1) r).bind fun x => k.binl lvl (.binOp lhs cls x.1) x.2 := by
  simp [binlF, h, hl]

theorem cmpF_def (k : Knot) (toks : List Tok) :
    cmpF k toks = (binF k 0 toks).bind fun x => k.cmpl x.1 [] x.2 := rfl

theorem conjF_def (k : Knot) (toks : List Tok) :
    conjF k toks = (invF k toks).bind fun x => k.andl [x.1] x.2 := rfl

theorem disjF_def (k : Knot) (toks : List Tok) :
    disjF k toks = (conjF k toks).bind fun x => k.orl [x.1] x.2 := rfl

theorem primaryF_def (k : Knot) (toks : List Tok) :
    primaryF k toks = (atomF k toks).bind fun x => k.trailers x.1 x.2 := rfl

end Genshi.Py

/-
  C06 — the two rules of the sanitizer that the whitelist theorems do not mention:
  `is_safe_elem`'s password rule and `is_safe_css`'s negative-margin rule, and the single
  `cssOk` statement for a whole emitted style value.
-/
import Genshi.Lemmas.SanCssSafe
import Genshi.Lemmas.SanCssUrl
import Genshi.Lemmas.SanFilter
set_option linter.unusedSimpArgs false
namespace Genshi.San
open Genshi.Gen Genshi.San.Spec

/-! ### the negative-margin rule -/

/-- every declaration `sanitize_css` appends passed `is_safe_css` on its (stripped, lower-cased)
    property name and its stripped value -/
theorem cssDecl_isSafeCss {cfg : Cfg} {piece d : Str} (h : cssDecl cfg piece = some d) :
    ∃ pn value, split1 ':' d = (pn, some value) ∧
      isSafeCss cfg (pyLower (pyStrip pn)) (pyStrip value) = true := by
  unfold cssDecl at h
  simp only at h
  split at h
  · cases h
  · split at h
    · cases h
    · rename_i pn value hsp
      split at h
      · cases h
      · rename_i hsafe
        split at h
        · cases h
        · split at h
          · cases h
          · simp at h; subst h
            rw [pyStrip_idem]
            refine ⟨pn, value, hsp, ?_⟩
            cases hc : isSafeCss cfg (pyLower (pyStrip pn)) (pyStrip value) with
            | true => rfl
            | false => rw [hc] at hsafe; simp at hsafe

theorem sanitizeCss_isSafeCss {cfg : Cfg} {x : Str} {decls : List Str} (h : sanitizeCss cfg x = .ok decls) :
    ∀ d ∈ decls, ∃ pn value, split1 ':' d = (pn, some value) ∧
      isSafeCss cfg (pyLower (pyStrip pn)) (pyStrip value) = true := by
  unfold sanitizeCss at h
  cases ht : replaceUnicodeEscapes x with
  | error e => simp [ht] at h; cases h
  | ok t =>
    simp only [ht, ok_bind, pure_eq_ok, Except.ok.injEq] at h
    subst h
    intro d hd
    obtain ⟨piece, _, hdecl⟩ := List.mem_filterMap.mp hd
    exact cssDecl_isSafeCss hdecl

/-- what `is_safe_css` = True says -/
theorem isSafeCss_true {cfg : Cfg} {pn v : Str} (h : isSafeCss cfg pn v = true) :
    pn ∈ cfg.safeCss ∧ ¬ (marginWord.isPrefixOf pn = true ∧ '-' ∈ v) := by
  unfold isSafeCss at h
  simp only [Bool.and_eq_true, Bool.not_eq_true', Bool.and_eq_false_iff] at h
  refine ⟨by simpa using h.1, ?_⟩
  rintro ⟨hp, hm⟩
  rcases h.2 with h2 | h2
  · rw [hp] at h2; cases h2
  · have : List.contains v '-' = true := by simpa using hm
    rw [this] at h2; cases h2

/-! ### the password rule -/

theorem stripRefs_of_stable {s : Str} (h : stripentities s = .ok s) : stripRefs s = .ok s := by
  unfold stripRefs stripRefsFix
  simp [h]

theorem attrGet_cons_eq {a : QName × Str} {as : AttrList} {n : Str} (h : a.1.text = n) :
    attrGet (a :: as) n = a.2 := by
  unfold attrGet
  rw [List.find?_cons]
  have : (a.1.text == n) = true := by simp [h]
  simp only [this]

theorem attrGet_cons_ne {a : QName × Str} {as : AttrList} {n : Str} (h : a.1.text ≠ n) :
    attrGet (a :: as) n = attrGet as n := by
  unfold attrGet
  rw [List.find?_cons]
  have : (a.1.text == n) = false := by simp [h]
  simp only [this]

theorem typeWord_ne_style : (typeWord == styleWord) = false := by decide

theorem stripRefsD_eq {s v : Str} (h : stripRefs s = .ok v) : stripRefsD s = v := by
  unfold stripRefsD; rw [h]

/-- `attrs.get('type')` after the attribute loop, when `type` is not configured as a URI
    attribute: the decoded value of the input's (first) `type` attribute if `type` is a safe
    attribute, nothing otherwise — exactly the text `is_safe_elem` compares since wave 4 -/
theorem sanAttrs_attrGet_type {cfg : Cfg} (hu : cfg.uriAttrs.contains typeWord = false) :
    ∀ (as r : AttrList), sanAttrs cfg as = .ok r →
      (∀ a ∈ as, a.1.text ≠ typeWord) ∧ attrGet r typeWord = [] ∨
      (∃ a ∈ as, a.1.text = typeWord) ∧
        attrGet r typeWord = if cfg.safeAttrs.contains typeWord then stripRefsD (attrGet as typeWord) else [] := by
  intro as
  induction as with
  | nil =>
    intro r h
    simp [sanAttrs] at h; subst h
    left; simp [attrGet]
  | cons a as ih =>
    intro r h
    obtain ⟨x, hx⟩ := sanAttr_ok cfg a
    obtain ⟨t, ht⟩ := sanAttrs_ok cfg as
    have iht := ih t ht
    unfold sanAttrs at h
    simp only [hx, ht, ok_bind, pure_eq_ok] at h
    by_cases hn : a.1.text = typeWord
    · -- the first `type` attribute
      right
      refine ⟨⟨a, by simp, hn⟩, ?_⟩
      obtain ⟨v, hv⟩ := stripRefs_ok a.2
      unfold sanAttr at hx
      simp only [hv, ok_bind, hn, hu, typeWord_ne_style, Bool.false_eq_true, ↓reduceIte] at hx
      by_cases hs : cfg.safeAttrs.contains typeWord = true
      · simp only [hs, Bool.not_true, Bool.false_eq_true, ↓reduceIte, pure_eq_ok, Except.ok.injEq] at hx
        subst hx
        simp at h; subst h
        rw [if_pos hs, attrGet_cons_eq (by exact hn), attrGet_cons_eq hn, stripRefsD_eq hv]
      · simp only [hs, Bool.not_false, ↓reduceIte, pure_eq_ok, Except.ok.injEq] at hx
        subst hx
        simp at h; subst h
        rw [if_neg hs]
        rcases iht with ⟨_, h0⟩ | ⟨_, h1⟩
        · exact h0
        · rw [h1, if_neg hs]
    · -- another name: dropped or kept under the same name
      have hskip : attrGet (a :: as) typeWord = attrGet as typeWord := attrGet_cons_ne hn
      have hr : attrGet r typeWord = attrGet t typeWord := by
        cases x with
        | none => simp at h; subst h; rfl
        | some b =>
          simp at h; subst h
          have hb := (sanAttr_some hx).name
          exact attrGet_cons_ne (by rw [hb]; exact hn)
      rw [hr, hskip]
      rcases iht with ⟨h0, h1⟩ | ⟨⟨b, hb, hbn⟩, h1⟩
      · left
        refine ⟨?_, h1⟩
        intro c hc
        simp only [List.mem_cons] at hc
        rcases hc with rfl | hc
        · exact hn
        · exact h0 c hc
      · right
        exact ⟨⟨b, by simp [hb], hbn⟩, h1⟩

theorem attrGet_none {as : AttrList} {n : Str} (h : ∀ a ∈ as, a.1.text ≠ n) : attrGet as n = [] := by
  induction as with
  | nil => simp [attrGet]
  | cons a as ih =>
    rw [attrGet_cons_ne (h a (by simp))]
    exact ih (fun b hb => h b (by simp [hb]))

theorem stripRefsD_nil : stripRefsD [] = [] := by decide

theorem pyLower_nil_ne_password : pyLower [] ≠ passwordWord := by decide

end Genshi.San

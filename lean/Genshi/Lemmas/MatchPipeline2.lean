/-
  The pipeline theorem: one pass over the window [s, e) = a pass over [s, m) followed by a pass
  over [m, e) on its output.
-/
import Genshi.Lemmas.MatchPipeline
namespace Genshi.Match
open Genshi
variable {σ : Type}

theorem agree_trans_pt {w : Nat → Bool} {A B C : List (MT σ)} (hl : C.length = A.length)
    (h1 : ∀ j, w j = true → A[j]? = B[j]?) (h2 : ∀ j, w j = true → B[j]? = C[j]?) : AgreeOn w A C :=
  ⟨hl, fun j hj => (h1 j hj).trans (h2 j hj)⟩

/-- **The pipeline theorem.**  Over a well-nested, registration-free stream the filter with window
    `[s, e)` equals the filter with window `[s, m)` followed by the filter with window `[m, e)` applied
    to its output — the same final output, and the same final template states (low slots from the
    first pass, high slots from the second).  `P`, `T`: the lists the two passes start from need to
    agree with `M` only on their own halves. -/
theorem pipeline_split : ∀ (f s : Nat) (e : Option Nat) (items : List (Item σ)) (M M' : List (MT σ))
    (out : List Event) (m : Nat),
    NoReg items → Neutral (evs items) → (∀ t ∈ M, OKt t) → s ≤ m → (∀ n, e = some n → m ≤ n) →
    run f s e items M = some (M', out) →
    ∀ P T, (∀ t ∈ P, OKt t) → (∀ t ∈ T, OKt t) → AgreeOn (win s (some m)) M P → AgreeOn (win m e) M T →
    ∃ f' out1 L H, run f' s (some m) items P = some (L, out1) ∧ run f' m e (evItems out1) T = some (H, out) ∧
      AgreeOn (win s (some m)) M' L ∧ AgreeOn (win m e) M' H := by
  intro f
  induction f with
  | zero => intro s e items M M' out m _ _ _ _ _ h; simp [run] at h
  | succ f ih =>
    intro s e items M M' out m hnr hneu hok hsm hme h P T hokP hokT haP haT
    cases items with
    | nil =>
      simp [run] at h
      obtain ⟨rfl, rfl⟩ := h
      exact ⟨1, [], P, T, by simp [run], by simp [run, evItems], haP, haT⟩
    | cons it rest =>
      cases it with
      | reg t => exact absurd (by simp) (hnr t)
      | ev x =>
        have hnr' : NoReg rest := fun y hy => hnr y (by simp [hy])
        simp only [evs_ev] at hneu
        by_cases hS : isStart x = true
        · cases x with
          | start tg at_ =>
            have hcl := closed_of_neutral hneu
            have hl1 : lvl 1 (evs rest) = some 0 := by simpa [Closed, lvl, isStart] using hcl
            obtain ⟨inner, tail, a'', hst, _, _⟩ := strip_append rest 0 0 ([] : List (Item σ)) (by simpa using hl1)
            obtain ⟨hrest, hnin, htail, hnre⟩ := neutral_start_split hneu hst
            subst htail
            have hnoin : NoReg inner := fun y hy => hnr' y (by rw [hrest]; simp [hy])
            have hnore : NoReg a'' := fun y hy => hnr' y (by rw [hrest]; simp [hy])
            have hlP := haP.1
            have hlT := haT.1
            rcases run_start_cases hS h with ⟨Ms, p, hsc, hp, hpe⟩ |
              ⟨Ms, idx, t, inner', tail', rest', M3, innerOut, M4, outb, p, hsc, ht, hst', h3, h4, h5, hpe⟩
            · ------------------------------------------------------------------ nothing fires
              simp only [Prod.mk.injEq] at hpe
              obtain ⟨rfl, rfl⟩ := hpe
              have hlMs : Ms.length = M.length := by have := scan_length (Event.start tg at_) s e 0 M; rw [hsc] at this; exact this
              have hsplit := scan_split_high (x := Event.start tg at_) (M := M) hsm hme (by intro idx hidx; rw [hsc] at hidx; cases hidx)
              rw [hsc] at hsplit
              obtain ⟨hs1, hs2, hs3, hs4⟩ := hsplit
              simp only at hs2 hs3 hs4
              obtain ⟨hP1a, hP1b, _⟩ := scan_agree (e := Event.start tg at_) haP
              obtain ⟨hT1a, hT1b, _⟩ := scan_agree (e := Event.start tg at_) haT
              rw [hs1] at hP1a
              rw [hs2] at hT1a
              generalize hscP : scan (Event.start tg at_) s (some m) 0 P = scP at hP1a hP1b
              obtain ⟨P1, hitP⟩ := scP
              generalize hscT : scan (Event.start tg at_) m e 0 T = scT at hT1a hT1b
              obtain ⟨T1, hitT⟩ := scT
              simp only at hP1a hP1b hT1a hT1b
              subst hP1a hT1a
              have haP1 : AgreeOn (win s (some m)) Ms P1 := agree_trans_pt (by rw [hP1b.1, scan_length, hlMs]) hs3 hP1b.2
              have haT1 : AgreeOn (win m e) Ms T1 := agree_trans_pt (by rw [hT1b.1, scan_length, hlMs]) hs4 hT1b.2
              have hokMs : ∀ t ∈ Ms, OKt t := by
                have := scan_forall static_okt (Event.start tg at_) s e 0 M hok; rw [hsc] at this; exact this
              have hokP1 : ∀ t ∈ P1, OKt t := by
                have := scan_forall static_okt (Event.start tg at_) s (some m) 0 P hokP; rw [hscP] at this; exact this
              have hokT1 : ∀ t ∈ T1, OKt t := by
                have := scan_forall static_okt (Event.start tg at_) m e 0 T hokT; rw [hscT] at this; exact this
              -- the content and the rest of the one-pass run
              rw [hrest] at hp
              obtain ⟨r1, r2, hr1, hr2, hpe⟩ := run_append f s e inner (.ev (Event.end_ tg) :: a'') 0 Ms p
                (closed_of_neutral hnin) hp
              obtain ⟨f0, rfl⟩ : ∃ f0, f = f0 + 1 := ⟨f - 1, by have := run_fuel_pos hr2; omega⟩
              simp only [run, isStart, isEnd, Bool.false_eq_true, ↓reduceIte] at hr2
              obtain ⟨q, hq, rfl⟩ := emit_some hr2
              have hq' := run_mono _ _ _ _ _ _ hq
              obtain ⟨r1m, r1o⟩ := r1
              obtain ⟨qm, qo⟩ := q
              simp only at hpe hq hq'
              obtain ⟨fi, oi1, Li, Hi, hLi, hHi, haLi, haHi⟩ := ih s e inner Ms r1m r1o m hnoin hnin hokMs hsm hme hr1
                P1 T1 hokP1 hokT1 haP1 haT1
              have hokr1 := run_forall static_okt _ _ _ _ _ _ hokMs (fun y hy => absurd hy (hnoin y)) hr1
              have hokLi := run_forall static_okt _ _ _ _ _ _ hokP1 (fun y hy => absurd hy (hnoin y)) hLi
              have hokHi := run_forall static_okt _ _ _ _ _ _ hokT1 (fun y hy => absurd hy (noReg_evItems _ y)) hHi
              have hokE := scanEnd_forall static_okt (Event.end_ tg) s e 0 r1m hokr1
              have hokPE := scanEnd_forall static_okt (Event.end_ tg) s (some m) 0 Li hokLi
              have hokTE := scanEnd_forall static_okt (Event.end_ tg) m e 0 Hi hokHi
              obtain ⟨fa, oa1, La, Ha, hLa, hHa, haLa, haHa⟩ := ih s e a'' _ qm qo m hnore hnre hokE hsm hme hq'
                _ _ hokPE hokTE (scanEnd_agree_lo hme haLi) (scanEnd_agree_hi hsm haHi)
              -- assemble
              have hoi1 : Neutral oi1 := fun s2 =>
                run_track _ _ _ _ _ _ (fun y hy => (hokP1 y hy).1) (fun y hy => absurd hy (hnoin y)) hLi s2 s2 (hnin s2)
              refine ⟨(fi + (fa + 1)) + 1, Event.start tg at_ :: oi1 ++ Event.end_ tg :: oa1, La, Ha, ?_, ?_, ?_, ?_⟩
              · have hend : run (fa + 1) s (some m) (.ev (Event.end_ tg) :: a'') Li = some (La, Event.end_ tg :: oa1) := by
                  simp only [run, isStart, isEnd, Bool.false_eq_true, ↓reduceIte, hLa, emit, Option.map_some]
                have hj := run_append_join fi (fa + 1) s (some m) inner (.ev (Event.end_ tg) :: a'') 0 P1 _ _
                  (closed_of_neutral hnin) hLi hend
                simp only [run, isStart, ↓reduceIte, hscP, hrest, hj, emit, Option.map_some, List.cons_append]
              · have hend : run (fa + 1) m e (.ev (Event.end_ tg) :: evItems oa1) Hi = some (Ha, Event.end_ tg :: qo) := by
                  simp only [run, isStart, isEnd, Bool.false_eq_true, ↓reduceIte, hHa, emit, Option.map_some]
                have hj := run_append_join fi (fa + 1) m e (evItems oi1) (.ev (Event.end_ tg) :: evItems oa1) 0 T1 _ _
                  (by simp only [evs_evItems]; exact closed_of_neutral hoi1) hHi hend
                simp only [List.cons_append, evItems_cons, evItems_append, run, isStart, ↓reduceIte, hscT, hj, emit,
                  Option.map_some]
                rw [hpe]
              · rw [hpe]; exact haLa
              · rw [hpe]; exact haHa
            · ------------------------------------------------------------------ template idx fires
              simp only [Prod.mk.injEq] at hpe
              obtain ⟨rfl, rfl⟩ := hpe
              rw [hst] at hst'
              simp only [Option.some.injEq, Prod.mk.injEq] at hst'
              obtain ⟨rfl, rfl, rfl⟩ := hst'
              have hlMs : Ms.length = M.length := by have := scan_length (Event.start tg at_) s e 0 M; rw [hsc] at this; exact this
              obtain ⟨hwi, _, _⟩ := scan_first (Event.start tg at_) s e M idx (by rw [hsc])
              have hsidx : s ≤ idx := ((inWindow_iff _ _ _).mp hwi).1
              have hidxe : ∀ n, e = some n → idx < n := ((inWindow_iff _ _ _).mp hwi).2
              have hpe := preEnd_le t idx
              have hokMs : ∀ t ∈ Ms, OKt t := by
                have := scan_forall static_okt (Event.start tg at_) s e 0 M hok; rw [hsc] at this; exact this
              have htok : OKt t := hokMs t (getElem?_mem_of ht)
              have hokM2 : ∀ y ∈ fired t idx Ms, OKt y := by
                unfold fired; split
                · exact retireAt_forall static_okt idx Ms hokMs
                · exact hokMs
              have hokM3 := run_forall static_okt _ _ _ _ _ _ hokM2 (fun y hy => absurd hy (hnoin y)) h3
              have hokM4 := run_forall static_okt _ _ _ _ _ _ hokM3 (fun y hy => absurd hy (noReg_evItems _ y)) h4
              have hokM5 := updRange_forall static_okt (Event.end_ tg) s (idx + 1) 0 M4 hokM4
              have hio : Neutral innerOut := fun s2 =>
                run_track _ _ _ _ _ _ (fun y hy => (hokM2 y hy).1) (fun y hy => absurd hy (hnoin y)) h3 s2 s2 (hnin s2)
              have hcont : Neutral (Event.start tg at_ :: innerOut ++ [Event.end_ tg]) := neutral_wrap tg at_ hio
              have hbody : Neutral (instantiate t.body (Event.start tg at_ :: innerOut ++ [Event.end_ tg])) :=
                instantiate_neutral htok.1 hcont
              have hlM2 := fired_length t idx Ms
              have hlM3 := run_len hnoin h3
              have hlM4 := run_len (noReg_evItems _) h4
              have hlM5 := updRange_length (Event.end_ tg) s (idx + 1) 0 M4
              by_cases hlow : idx < m
              · -------------------------------------------------------------- a template of the low half
                have hscl := scan_split_low (x := Event.start tg at_) (M := M) hme (by rw [hsc]) hlow
                rw [hsc] at hscl
                obtain ⟨hP1a, hP1b, hP1c⟩ := scan_agree (e := Event.start tg at_) haP
                rw [hscl] at hP1a hP1b
                generalize hscP : scan (Event.start tg at_) s (some m) 0 P = scP at hP1a hP1b hP1c
                obtain ⟨P1, hitP⟩ := scP
                simp only at hP1a hP1b hP1c
                subst hP1a
                have hokP1 : ∀ t ∈ P1, OKt t := by
                  have := scan_forall static_okt (Event.start tg at_) s (some m) 0 P hokP; rw [hscP] at this; exact this
                have hloidx : win s (some m) idx = true := by simp only [win]; rw [inWindow_iff]; exact ⟨hsidx, fun n hn => by cases hn; exact hlow⟩
                have htP : P1[idx]? = some t := by rw [← hP1b.2 idx hloidx]; exact ht
                have haP2 : AgreeOn (win s (some m)) (fired t idx Ms) (fired t idx P1) := fired_agree t idx hP1b
                have hokP2 : ∀ y ∈ fired t idx P1, OKt y := by
                  unfold fired; split
                  · exact retireAt_forall static_okt idx P1 hokP1
                  · exact hokP1
                -- the high half has not been touched yet
                have hMsM : ∀ j, m ≤ j → Ms[j]? = M[j]? := by
                  intro j hj
                  obtain ⟨j0, t0, hj0, _, _, _, _, _, hgt, _⟩ := scan_some_get (Event.start tg at_) s e 0 M idx (by rw [hsc])
                  simp only [Nat.zero_add] at hj0; subst hj0
                  rw [hsc] at hgt
                  exact hgt j (by omega)
                have haT2 : AgreeOn (win m e) (fired t idx Ms) T := by
                  refine ⟨by rw [hlT, hlM2, hlMs], ?_⟩
                  intro j hj
                  have hjm : m ≤ j := by
                    by_cases hjm : j < m
                    · rw [win_hi_false hjm] at hj; cases hj
                    · omega
                  rw [fired_outside t idx Ms j (by omega), hMsM j hjm]
                  exact haT.2 j hj
                -- the content: entirely a matter of the low half
                have hwisub : ∀ j, win s (some (preEnd t idx)) j = true → win s (some m) j = true :=
                  win_sub_of (Nat.le_refl s) (fun n hn => ⟨preEnd t idx, rfl, by cases hn; omega⟩)
                obtain ⟨P3, hP3, haP3w, hP3out⟩ := run_agree hnoin (haP2.sub hwisub) h3
                have hlP3 := run_len hnoin hP3
                have haP3 : AgreeOn (win s (some m)) M3 P3 :=
                  AgreeOn.widen haP2 haP3w (fun j _ hj => run_outside hnoin h3 j hj) (fun j _ hj => hP3out j hj)
                have hokP3 := run_forall static_okt _ _ _ _ _ _ hokP2 (fun y hy => absurd hy (hnoin y)) hP3
                have hwidisj : ∀ j, win m e j = true → win s (some (preEnd t idx)) j = false := by
                  intro j hj
                  have hjm : m ≤ j := by
                    by_cases hjm : j < m
                    · rw [win_hi_false hjm] at hj; cases hj
                    · omega
                  exact win_lo_false (by omega)
                have haT3 : AgreeOn (win m e) M3 T := by
                  refine ⟨by rw [haT2.1, hlM3], ?_⟩
                  intro j hj
                  rw [run_outside hnoin h3 j (hwidisj j hj)]
                  exact haT2.2 j hj
                -- the body: split at m by induction
                have hwbsub : ∀ j, win (idx + 1) (some m) j = true → win s (some m) j = true :=
                  win_sub_of (by omega) (fun n hn => ⟨m, rfl, by cases hn; omega⟩)
                obtain ⟨fb, ob1, Lb, Hb, hLb, hHb, haLbw, haHb⟩ := ih (idx + 1) e _ M3 M4 outb m (noReg_evItems _)
                  (by simpa using hbody) hokM3 (by omega) hme h4 P3 T hokP3 hokT (haP3.sub hwbsub) haT3
                have hlLb := run_len (noReg_evItems _) hLb
                have hlHb := run_len (noReg_evItems _) hHb
                have haLb : AgreeOn (win s (some m)) M4 Lb := by
                  apply AgreeOn.widen haP3 haLbw
                  · intro j hj hj2
                    apply run_outside (noReg_evItems _) h4 j
                    have hjm : j < m := ((inWindow_iff _ _ _).mp hj).2 m rfl
                    cases hh : win (idx + 1) e j with
                    | false => rfl
                    | true =>
                      exfalso
                      have h1 := ((inWindow_iff _ _ _).mp hh).1
                      have : win (idx + 1) (some m) j = true := by
                        simp only [win]; rw [inWindow_iff]; exact ⟨h1, fun n hn => by cases hn; exact hjm⟩
                      rw [this] at hj2; cases hj2
                  · intro j _ hj2
                    exact run_outside (noReg_evItems _) hLb j hj2
                have hokLb := run_forall static_okt _ _ _ _ _ _ hokP3 (fun y hy => absurd hy (noReg_evItems _ y)) hLb
                have hokHb := run_forall static_okt _ _ _ _ _ _ hokT (fun y hy => absurd hy (noReg_evItems _ y)) hHb
                -- the END, shown to the low half only
                have haP5 : AgreeOn (win s (some m)) (updRange (Event.end_ tg) s (idx + 1) 0 M4)
                    (updRange (Event.end_ tg) s (idx + 1) 0 Lb) := updRange_agree_in _ _ _ haLb
                have haT5 : AgreeOn (win m e) (updRange (Event.end_ tg) s (idx + 1) 0 M4) Hb := by
                  refine ⟨by rw [haHb.1, hlM5], ?_⟩
                  intro j hj
                  have hjm : m ≤ j := by
                    by_cases hjm : j < m
                    · rw [win_hi_false hjm] at hj; cases hj
                    · omega
                  rw [updRange_outside _ _ _ _ j (by omega)]
                  exact haHb.2 j hj
                have hokP5 := updRange_forall static_okt (Event.end_ tg) s (idx + 1) 0 Lb hokLb
                obtain ⟨fa, oa1, La, Ha, hLa, hHa, haLa, haHa⟩ := ih s e a'' _ p.1 p.2 m hnore hnre hokM5 hsm hme h5
                  _ Hb hokP5 hokHb haP5 haT5
                have hob1 : Neutral ob1 := fun s2 =>
                  run_track _ _ _ _ _ _ (fun y hy => (hokP3 y hy).1) (fun y hy => absurd hy (noReg_evItems _ y)) hLb s2 s2
                    (by simpa using hbody s2)
                refine ⟨f + fb + fa + 1, ob1 ++ oa1, La, Ha, ?_, ?_, haLa, haHa⟩
                · have e3 := run_mono_le hP3 (show f ≤ f + fb + fa by omega)
                  have e4 := run_mono_le hLb (show fb ≤ f + fb + fa by omega)
                  have e5 := run_mono_le hLa (show fa ≤ f + fb + fa by omega)
                  simp only [run, isStart, ↓reduceIte, hscP, htP, hst, e3, e4, e5, Option.map_some]
                · have hj := run_append_join fb fa m e (evItems ob1) (evItems oa1) 0 T _ _
                    (by simp only [evs_evItems]; exact closed_of_neutral hob1) hHb hHa
                  rw [evItems_append]
                  exact run_mono_le hj (by omega)
              · -------------------------------------------------------------- a template of the high half
                have hhigh : m ≤ idx := by omega
                have hsplit := scan_split_high (x := Event.start tg at_) (M := M) hsm hme
                  (by intro i2 hi2; rw [hsc] at hi2; simp only [Option.some.injEq] at hi2; omega)
                rw [hsc] at hsplit
                obtain ⟨hs1, hs2, hs3, hs4⟩ := hsplit
                simp only at hs2 hs3 hs4
                obtain ⟨hP1a, hP1b, _⟩ := scan_agree (e := Event.start tg at_) haP
                obtain ⟨hT1a, hT1b, _⟩ := scan_agree (e := Event.start tg at_) haT
                rw [hs1] at hP1a
                rw [hs2] at hT1a
                generalize hscP : scan (Event.start tg at_) s (some m) 0 P = scP at hP1a hP1b
                obtain ⟨P1, hitP⟩ := scP
                generalize hscT : scan (Event.start tg at_) m e 0 T = scT at hT1a hT1b
                obtain ⟨T1, hitT⟩ := scT
                simp only at hP1a hP1b hT1a hT1b
                subst hP1a hT1a
                have haP1 : AgreeOn (win s (some m)) Ms P1 := agree_trans_pt (by rw [hP1b.1, scan_length, hlMs]) hs3 hP1b.2
                have haT1 : AgreeOn (win m e) Ms T1 := agree_trans_pt (by rw [hT1b.1, scan_length, hlMs]) hs4 hT1b.2
                have hokP1 : ∀ t ∈ P1, OKt t := by
                  have := scan_forall static_okt (Event.start tg at_) s (some m) 0 P hokP; rw [hscP] at this; exact this
                have hokT1 : ∀ t ∈ T1, OKt t := by
                  have := scan_forall static_okt (Event.start tg at_) m e 0 T hokT; rw [hscT] at this; exact this
                have hhiidx : win m e idx = true := by
                  simp only [win]; rw [inWindow_iff]; exact ⟨hhigh, hidxe⟩
                have htT : T1[idx]? = some t := by rw [← haT1.2 idx hhiidx]; exact ht
                have haT2 : AgreeOn (win m e) (fired t idx Ms) (fired t idx T1) := fired_agree t idx haT1
                have hokT2 : ∀ y ∈ fired t idx T1, OKt y := by
                  unfold fired; split
                  · exact retireAt_forall static_okt idx T1 hokT1
                  · exact hokT1
                have haP2 : AgreeOn (win s (some m)) (fired t idx Ms) P1 := by
                  refine ⟨by rw [haP1.1, hlM2], ?_⟩
                  intro j hj
                  have hjm : j < m := ((inWindow_iff _ _ _).mp hj).2 m rfl
                  rw [fired_outside t idx Ms j (by omega)]
                  exact haP1.2 j hj
                -- the content: split at m by induction
                obtain ⟨fi, oi1, Li, Hi, hLi, hHi, haLi, haHiw⟩ := ih s (some (preEnd t idx)) inner _ M3 innerOut m hnoin hnin
                  hokM2 hsm (by intro n hn; cases hn; omega) h3 P1 (fired t idx T1) hokP1 hokT2 haP2
                  (haT2.sub (win_sub_of (Nat.le_refl m) (fun n hn => ⟨preEnd t idx, rfl, by have := hidxe n hn; omega⟩)))
                have hlLi := run_len hnoin hLi
                have hlHi := run_len (noReg_evItems _) hHi
                have haHi : AgreeOn (win m e) M3 Hi := by
                  apply AgreeOn.widen haT2 haHiw
                  · intro j hj hj2
                    apply run_outside hnoin h3 j
                    have hjm : m ≤ j := by
                      by_cases hjm : j < m
                      · rw [win_hi_false hjm] at hj; cases hj
                      · omega
                    cases hh : win s (some (preEnd t idx)) j with
                    | false => rfl
                    | true =>
                      exfalso
                      have h1 := ((inWindow_iff _ _ _).mp hh).2 _ rfl
                      have : win m (some (preEnd t idx)) j = true := by
                        simp only [win]; rw [inWindow_iff]; exact ⟨hjm, fun n hn => by cases hn; exact h1⟩
                      rw [this] at hj2; cases hj2
                  · intro j _ hj2
                    exact run_outside (noReg_evItems _) hHi j hj2
                have hokLi := run_forall static_okt _ _ _ _ _ _ hokP1 (fun y hy => absurd hy (hnoin y)) hLi
                have hokHi := run_forall static_okt _ _ _ _ _ _ hokT2 (fun y hy => absurd hy (noReg_evItems _ y)) hHi
                have hoi1 : Neutral oi1 := fun s2 =>
                  run_track _ _ _ _ _ _ (fun y hy => (hokP1 y hy).1) (fun y hy => absurd hy (hnoin y)) hLi s2 s2 (hnin s2)
                -- the body: entirely a matter of the high half
                have hwbsub : ∀ j, win (idx + 1) e j = true → win m e j = true :=
                  win_sub_of (by omega) (fun n hn => ⟨n, hn, Nat.le_refl n⟩)
                obtain ⟨T4, hT4, haT4w, hT4out⟩ := run_agree (noReg_evItems _) (haHi.sub hwbsub) h4
                have hlT4 := run_len (noReg_evItems _) hT4
                have haT4 : AgreeOn (win m e) M4 T4 :=
                  AgreeOn.widen haHi haT4w (fun j _ hj => run_outside (noReg_evItems _) h4 j hj) (fun j _ hj => hT4out j hj)
                have hokT4 := run_forall static_okt _ _ _ _ _ _ hokHi (fun y hy => absurd hy (noReg_evItems _ y)) hT4
                have haLi4 : AgreeOn (win s (some m)) M4 Li := by
                  refine ⟨by rw [haLi.1, hlM4], ?_⟩
                  intro j hj
                  have hjm : j < m := ((inWindow_iff _ _ _).mp hj).2 m rfl
                  have : win (idx + 1) e j = false := by
                    cases hh : win (idx + 1) e j with
                    | false => rfl
                    | true => have := ((inWindow_iff _ _ _).mp hh).1; omega
                  rw [run_outside (noReg_evItems _) h4 j this]
                  exact haLi.2 j hj
                -- the END: the low half by the first pass (as an unmatched END), the high half by the second
                have haP5 : AgreeOn (win s (some m)) (updRange (Event.end_ tg) s (idx + 1) 0 M4)
                    (scanEnd (Event.end_ tg) s (some m) 0 Li) := by
                  refine ⟨by rw [scanEnd_length, hlM5, haLi4.1], ?_⟩
                  intro j hj
                  have hj' := (inWindow_iff _ _ _).mp hj
                  have hjm : j < m := hj'.2 m rfl
                  rw [updRange_get, scanEnd_get, ← haLi4.2 j hj]
                  simp only [Nat.zero_add]
                  have h1 : inWindow s (some m) j = true := hj
                  have h2 : (decide (s ≤ j) && decide (j < idx + 1)) = true := by simp; exact ⟨hj'.1, by omega⟩
                  rw [h1, h2]
                  cases hM4j : M4[j]? with
                  | none => rfl
                  | some y =>
                    simp only [Option.map_some, ↓reduceIte]
                    rw [test_flagFree (hokM4 y (getElem?_mem_of hM4j)).2 _ true false]
                have haT5 : AgreeOn (win m e) (updRange (Event.end_ tg) s (idx + 1) 0 M4)
                    (updRange (Event.end_ tg) m (idx + 1) 0 T4) := by
                  refine ⟨by rw [updRange_length, hlM5, haT4.1], ?_⟩
                  intro j hj
                  have hj' := (inWindow_iff _ _ _).mp hj
                  rw [updRange_get, updRange_get, ← haT4.2 j hj]
                  simp only [Nat.zero_add]
                  have : decide (s ≤ j) = decide (m ≤ j) := by
                    have h1 : s ≤ j := by omega
                    simp [h1, hj'.1]
                  rw [this]
                have hokP5 := scanEnd_forall static_okt (Event.end_ tg) s (some m) 0 Li hokLi
                have hokT5 := updRange_forall static_okt (Event.end_ tg) m (idx + 1) 0 T4 hokT4
                obtain ⟨fa, oa1, La, Ha, hLa, hHa, haLa, haHa⟩ := ih s e a'' _ p.1 p.2 m hnore hnre hokM5 hsm hme h5
                  _ _ hokP5 hokT5 haP5 haT5
                refine ⟨(fi + (fa + 1)) + f + 1, Event.start tg at_ :: oi1 ++ Event.end_ tg :: oa1, La, Ha, ?_, ?_, haLa, haHa⟩
                · have hend : run (fa + 1) s (some m) (.ev (Event.end_ tg) :: a'') Li = some (La, Event.end_ tg :: oa1) := by
                    simp only [run, isStart, isEnd, Bool.false_eq_true, ↓reduceIte, hLa, emit, Option.map_some]
                  have hj := run_append_join fi (fa + 1) s (some m) inner (.ev (Event.end_ tg) :: a'') 0 P1 _ _
                    (closed_of_neutral hnin) hLi hend
                  have hj' := run_mono_le hj (show fi + (fa + 1) ≤ (fi + (fa + 1)) + f by omega)
                  simp only [run, isStart, ↓reduceIte, hscP, hrest, hj', emit, Option.map_some, List.cons_append]
                · have hstrip : strip 1 (evItems oi1 ++ .ev (Event.end_ tg) :: evItems oa1 : List (Item σ)) =
                      some (evItems oi1, Event.end_ tg, evItems oa1) :=
                    strip_of_closed (evItems oi1) 0 (Event.end_ tg) (evItems oa1) (by simp only [evs_evItems]; exact closed_of_neutral hoi1) rfl rfl
                  have e3 := run_mono_le hHi (show fi ≤ (fi + (fa + 1)) + f by omega)
                  have e4 := run_mono_le hT4 (show f ≤ (fi + (fa + 1)) + f by omega)
                  have e5 := run_mono_le hHa (show fa ≤ (fi + (fa + 1)) + f by omega)
                  simp only [List.cons_append, evItems_cons, evItems_append, run, isStart, ↓reduceIte, hscT, htT, hstrip]
                  simp only [List.cons_append] at e4
                  rw [e3]; simp only
                  rw [e4]; simp only
                  rw [e5]; simp
          | _ => simp [isStart] at hS
        · by_cases hE : isEnd x = true
          · exfalso
            have := hneu []
            cases x with
            | end_ tg => simp [track] at this
            | _ => simp [isEnd] at hE
          · simp only [run, hS, Bool.false_eq_true, ↓reduceIte, hE] at h
            obtain ⟨q, hr, hq⟩ := emit_some h
            simp only [Prod.mk.injEq] at hq
            obtain ⟨rfl, rfl⟩ := hq
            have hneu' : Neutral (evs rest) := by
              intro st
              have := hneu st
              rw [track_other x (by simpa using hS) (by simpa using hE)] at this
              exact this
            obtain ⟨f1, o1, L, H, hL, hH, haL, haH⟩ := ih s e rest M q.1 q.2 m hnr' hneu' hok hsm hme hr P T hokP hokT haP haT
            refine ⟨f1 + 1, x :: o1, L, H, ?_, ?_, haL, haH⟩
            · simp only [run, hS, Bool.false_eq_true, ↓reduceIte, hE, hL, emit, Option.map_some]
            · simp only [evItems_cons, run, hS, Bool.false_eq_true, ↓reduceIte, hE, hH, emit, Option.map_some]

end Genshi.Match

namespace Genshi.Match
open Genshi
variable {σ : Type}

/-- **The pipeline, sequentially**: the filter with window `[s, e)` is the filter with window `[s, m)`
    followed, on its output and from the template list it leaves, by the filter with window `[m, e)`:
    same output, same final template list. -/
theorem pipeline_seq (f s : Nat) (e : Option Nat) (items : List (Item σ)) (M M' : List (MT σ)) (out : List Event)
    (m : Nat) (hnr : NoReg items) (hneu : Neutral (evs items)) (hok : ∀ t ∈ M, OKt t) (hsm : s ≤ m)
    (hme : ∀ n, e = some n → m ≤ n) (h : run f s e items M = some (M', out)) :
    ∃ f' out1 L, run f' s (some m) items M = some (L, out1) ∧ run f' m e (evItems out1) L = some (M', out) := by
  obtain ⟨f', out1, L, H, hL, hH, haL, haH⟩ := pipeline_split f s e items M M' out m hnr hneu hok hsm hme h M M hok hok
    (AgreeOn.refl _ M) (AgreeOn.refl _ M)
  have hlL := run_len hnr hL
  have hlH := run_len (noReg_evItems _) hH
  have hlM' := run_len hnr h
  -- the first pass leaves the high half alone
  have haML : AgreeOn (win m e) M L := by
    refine ⟨hlL, ?_⟩
    intro j hj
    have hjm : m ≤ j := by
      by_cases hjm : j < m
      · rw [win_hi_false hjm] at hj; cases hj
      · omega
    exact (run_outside hnr hL j (win_lo_false hjm)).symm
  obtain ⟨H', hH', haH', hH'out⟩ := run_agree (noReg_evItems _) haML hH
  refine ⟨f', out1, L, hL, ?_⟩
  have : H' = M' := by
    apply list_ext_get; intro j
    by_cases hhi : win m e j = true
    · rw [← haH'.2 j hhi]; exact (haH.2 j hhi).symm
    · have hhi' : win m e j = false := by simpa using hhi
      rw [hH'out j hhi']
      by_cases hlo : win s (some m) j = true
      · exact (haL.2 j hlo).symm
      · have hlo' : win s (some m) j = false := by simpa using hlo
        rw [run_outside hnr hL j hlo']
        have : win s e j = false := by
          by_cases hjm : j < m
          · rw [← win_lo_eq hme hjm]; exact hlo'
          · rw [← win_hi_eq (e := e) hsm (by omega)]; exact hhi'
        exact (run_outside hnr h j this).symm
  rw [← this]; exact hH'

end Genshi.Match

/-
  C11: the loads a request performs (`logN/logL/logR`), and hence the loader's state after the request, do not
  depend on the fuel as long as the request does not run out of it.
-/
import Genshi.Lemmas.InclSeq
namespace Genshi.Incl

theorem Le.eq_of_ne {α : Type} {x x' : Res α} (h : Le x x') (hx : x ≠ .fuel) : x = x' := by
  rcases h with h | h
  · exact absurd h hx
  · exact h

theorem bind_ne_fuel_left {α β : Type} {x : Res α} {k : α → Res β} (h : x.bind k ≠ .fuel) : x ≠ .fuel := by
  intro hx; rw [hx] at h; exact h rfl

/-- the logs of entering a stream agree wherever the stream is rendered without running out of fuel -/
def LRel (J : RJ) (L L' : LJ) : Prop :=
  ∀ rng ns st, J rng ns st ≠ .fuel → L rng ns st = L' rng ns st

section unfoldLog
variable (m : Mode) (files : Files) (J : RJ) (L : LJ) (rng : Rng) (st : St)
theorem logL_nil : logL m files J L rng [] st = [] := rfl
theorem logL_cons (n : Node) (ns : List Node) :
    logL m files J L rng (n :: ns) st =
      logN m files J L rng n st ++
        (match renderN m files J rng n st with
         | .ok r => logL m files J L rng ns r.2
         | _ => []) := rfl
theorem logN_elem (tag : Name) (body : List Node) :
    logN m files J L rng (.elem tag body) st =
      (match firstMatch st.mts rng tag with
       | none => logL m files J L rng body st
       | some (idx, mb) =>
         logL m files J L ⟨rng.lo, some (idx + 1), false⟩ body st ++
           (match renderL m files J ⟨rng.lo, some (idx + 1), false⟩ body st with
            | .ok r => L ⟨idx + 1, rng.hi, false⟩ mb { r.2 with sel := r.1 :: r.2.sel }
            | _ => [])) := rfl
theorem logN_cond (c : Cond) (body : List Node) :
    logN m files J L rng (.cond c body) st =
      (match evalCond st c with
       | .ok true => logL m files J L rng body st
       | _ => []) := rfl
theorem logN_loop (x xs : Name) (body : List Node) :
    logN m files J L rng (.loop x xs body) st =
      (match st.lookup xs with
       | none => []
       | some v => logItems (fun st' => renderL m files J rng body st') (fun st' => logL m files J L rng body st') x v.items st) := rfl
theorem logN_call (mn : Name) :
    logN m files J L rng (.call mn) st =
      (match st.macros.lookup mn with
       | some body => L rng body st
       | none => []) := rfl
theorem logN_select :
    logN m files J L rng .select st =
      (match st.sel with
       | [] => []
       | c :: _ => L rng (evsToNodes c) st) := rfl
theorem logN_include (href : Href) (cls : Kind) (hasFb : Bool) (fb : List Node) (pos : Name) :
    logN m files J L rng (.include href cls hasFb fb pos) st =
      (match evalHref st href with
       | .ok h =>
         (match resolve pos h with
          | none => []
          | some name =>
            match loadT m files name cls st with
            | .ok (body, st1) => (name, cls) :: L (.ofKind cls) body st1
            | .err .notFound => if hasFb then logL m files J L rng.fresh fb st else []
            | _ => [(name, cls)])
       | _ => []) := rfl
theorem logN_inlined (body : List Node) : logN m files J L rng (.inlined body) st = L rng body st := rfl
end unfoldLog

theorem logItems_eq {k k' : St → R} {lk lk' : St → List Load} (x : Name)
    (hk : ∀ s, Le (k s) (k' s)) (hlk : ∀ s, k s ≠ .fuel → lk s = lk' s) :
    ∀ (vs : List Value) (s : St), loopItems k x vs s ≠ .fuel → logItems k lk x vs s = logItems k' lk' x vs s
  | [], _, _ => rfl
  | v :: vs, s, h => by
    simp only [loopItems] at h
    have h1 := bind_ne_fuel_left h
    have he := (hk _).eq_of_ne h1
    simp only [logItems]
    rw [hlk _ h1, ← he]
    cases hr : k { s with frames := (x, v) :: s.frames } with
    | fuel => exact absurd hr h1
    | err e => rfl
    | ok r1 =>
      simp only
      rw [hr] at h
      simp only [Res.bind_ok] at h
      rw [logItems_eq x hk hlk vs _ (bind_ne_fuel_left h)]

mutual
theorem logN_eq (m : Mode) (files : Files) {J J' : RJ} {L L' : LJ} (hJ : JLe J J') (hL : LRel J L L') :
    ∀ (n : Node) (rng : Rng) (st : St), renderN m files J rng n st ≠ .fuel →
      logN m files J L rng n st = logN m files J' L' rng n st
  | .text _, _, _, _ => rfl
  | .var _, _, _, _ => rfl
  | .defn _ _, _, _, _ => rfl
  | .matchT _ _, _, _, _ => rfl
  | .elem tag body, rng, st, h => by
    rw [renderN_elem] at h
    rw [logN_elem, logN_elem]
    cases hfm : firstMatch st.mts rng tag with
    | none =>
      simp only [hfm] at h ⊢
      exact logL_eq m files hJ hL body rng st (bind_ne_fuel_left h)
    | some p =>
      obtain ⟨idx, mb⟩ := p
      simp only [hfm] at h ⊢
      have h1 := bind_ne_fuel_left h
      rw [logL_eq m files hJ hL body _ st h1, ← (renderL_le m files hJ body _ st).eq_of_ne h1]
      cases hr : renderL m files J ⟨rng.lo, some (idx + 1), false⟩ body st with
      | fuel => exact absurd hr h1
      | err e => rfl
      | ok r =>
        simp only
        rw [hr] at h
        simp only [Res.bind_ok] at h
        rw [hL _ _ _ (bind_ne_fuel_left h)]
  | .cond c body, rng, st, h => by
    rw [renderN_cond] at h
    rw [logN_cond, logN_cond]
    cases hc : evalCond st c with
    | fuel => rfl
    | err e => rfl
    | ok b =>
      cases b with
      | true =>
        simp only [hc, Res.bind_ok, if_true] at h ⊢
        exact logL_eq m files hJ hL body rng st h
      | false => rfl
  | .loop x xs body, rng, st, h => by
    rw [renderN_loop] at h
    rw [logN_loop, logN_loop]
    cases hl : st.lookup xs with
    | none => rfl
    | some v =>
      simp only [hl] at h ⊢
      exact logItems_eq x (fun s => renderL_le m files hJ body rng s)
        (fun s hs => logL_eq m files hJ hL body rng s hs) _ st h
  | .call mn, rng, st, h => by
    rw [renderN_call] at h
    rw [logN_call, logN_call]
    cases hm : st.macros.lookup mn with
    | none => rfl
    | some body =>
      simp only [hm] at h ⊢
      exact hL _ _ _ h
  | .select, rng, st, h => by
    rw [renderN_select] at h
    rw [logN_select, logN_select]
    cases hs : st.sel with
    | nil => rfl
    | cons c _ =>
      simp only [hs] at h ⊢
      exact hL _ _ _ h
  | .include href cls hasFb fb pos, rng, st, h => by
    rw [renderN_include] at h
    rw [logN_include, logN_include]
    cases he : evalHref st href with
    | fuel => rfl
    | err e => rfl
    | ok hh =>
      simp only [he, Res.bind_ok] at h ⊢
      cases hres : resolve pos hh with
      | none => rfl
      | some name =>
        simp only [hres] at h ⊢
        cases hl : loadT m files name cls st with
        | fuel => rfl
        | ok p =>
          obtain ⟨body, st1⟩ := p
          simp only [hl] at h ⊢
          rw [hL _ _ _ h]
        | err e =>
          cases e with
          | notFound =>
            cases hasFb with
            | true =>
              simp only [hl, if_true] at h ⊢
              exact logL_eq m files hJ hL fb rng.fresh st h
            | false => rfl
          | syntaxErr => rfl
          | undefined => rfl
          | unmodelled => rfl
  | .inlined body, rng, st, h => by
    rw [renderN_inlined] at h
    rw [logN_inlined, logN_inlined]
    exact hL _ _ _ h
termination_by structural n => n
theorem logL_eq (m : Mode) (files : Files) {J J' : RJ} {L L' : LJ} (hJ : JLe J J') (hL : LRel J L L') :
    ∀ (ns : List Node) (rng : Rng) (st : St), renderL m files J rng ns st ≠ .fuel →
      logL m files J L rng ns st = logL m files J' L' rng ns st
  | [], _, _, _ => rfl
  | n :: ns, rng, st, h => by
    rw [renderL_cons] at h
    have h1 := bind_ne_fuel_left h
    rw [logL_cons, logL_cons, logN_eq m files hJ hL n rng st h1, ← (renderN_le m files hJ n rng st).eq_of_ne h1]
    cases hr : renderN m files J rng n st with
    | fuel => exact absurd hr h1
    | err e => rfl
    | ok r =>
      simp only
      rw [hr] at h
      simp only [Res.bind_ok] at h
      rw [logL_eq m files hJ hL ns rng r.2 (bind_ne_fuel_left h)]
termination_by structural ns => ns
end

theorem logR_eq (m : Mode) (files : Files) : ∀ {f g : Nat}, f ≤ g → LRel (render m files f) (logR m files f) (logR m files g)
  | 0, _, _ => fun _ _ _ h => absurd rfl h
  | f + 1, 0, h => by omega
  | f + 1, g + 1, h => fun rng ns st hne => by
    rw [render_succ] at hne
    show logL m files (render m files f) (logR m files f) rng ns st = logL m files (render m files g) (logR m files g) rng ns st
    exact logL_eq m files (render_le m files (by omega)) (logR_eq m files (by omega)) ns rng st hne

/-- a request that does not run out of fuel leaves the loader in a state that does not depend on the fuel:
outcome and prepared templates afterwards are those of any larger fuel — failed renders included -/
theorem renderOnF_fuel_indep (m : Mode) (files : Files) {f g : Nat} (hfg : f ≤ g) (c : Cache) (q : Req)
    (h : (renderOn m files f c q).1 ≠ .fuel) : renderOnF m files g c q = renderOnF m files f c q := by
  have hle := runOn_le m files hfg c q
  have hne : runOn m files f c q ≠ .fuel := by
    intro hx; apply h; rw [renderOn_fst, hx]; rfl
  have heq := hle.eq_of_ne hne
  have hon : renderOn m files g c q = renderOn m files f c q := by rw [renderOn_def, renderOn_def, heq]
  unfold renderOnF
  rw [hon]
  cases hx : (renderOn m files f c q).1 with
  | ok evs => rfl
  | fuel => exact absurd hx h
  | err e =>
    simp only
    congr 1
    -- the caches after the failure: the same loads are replayed
    cases m with
    | runtime => rfl
    | inlineM =>
      simp only [cacheAfterFail]
      cases hl : loadT .inlineM files q.1 q.2.1 { St.init q.2.2 with cache := c } with
      | fuel => rfl
      | err e' => rfl
      | ok p =>
        obtain ⟨body, st1⟩ := p
        simp only
        have hr : renderL .inlineM files (render .inlineM files f) (.ofKind q.2.1) body st1 ≠ .fuel := by
          have := hne; simp only [runOn, hl, Res.bind_ok] at this; exact this
        rw [logL_eq .inlineM files (render_le .inlineM files hfg) (logR_eq .inlineM files hfg) body _ st1 hr]
    | inlineU =>
      simp only [cacheAfterFail]
      cases hl : loadT .inlineU files q.1 q.2.1 { St.init q.2.2 with cache := c } with
      | fuel => rfl
      | err e' => rfl
      | ok p =>
        obtain ⟨body, st1⟩ := p
        simp only
        have hr : renderL .inlineU files (render .inlineU files f) (.ofKind q.2.1) body st1 ≠ .fuel := by
          have := hne; simp only [runOn, hl, Res.bind_ok] at this; exact this
        rw [logL_eq .inlineU files (render_le .inlineU files hfg) (logR_eq .inlineU files hfg) body _ st1 hr]

end Genshi.Incl

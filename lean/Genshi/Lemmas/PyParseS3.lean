/-
  C13 — statement layer, part 3: compound statements and blocks.
-/
import Genshi.Lemmas.PyParseS2
namespace Genshi.Py
open Genshi.Gen

/-! ### fuel measure of the statement reader -/

mutual
def szS : PyStmt → Nat
  | .if_ _ b o => 2 + szSL b + szSL o
  | .while_ _ b o => 2 + szSL b + szSL o
  | .for_ _ _ b o => 2 + szSL b + szSL o
  | .with_ _ b => 2 + szSL b
  | .try_ b hs o f => 2 + szSL b + szSL hs + szSL o + szSL f
  | .handler _ _ b => 1 + szSL b
  | .functionDef _ _ _ _ _ _ body _ _ _ => 2 + szSL body
  | .classDef _ _ _ body _ _ => 2 + szSL body
  | .expr _ => 1
  | .assign _ _ => 1
  | .augAssign _ _ _ => 1
  | .return_ _ => 1
  | .delete _ => 1
  | .pass_ => 1
  | .break_ => 1
  | .continue_ => 1
  | .assert_ _ _ => 1
  | .raise_ _ _ => 1
  | .global_ _ => 1
  | .import_ _ => 1
  | .importFrom _ _ _ => 1
  | .unsupported _ => 1
def szSL : List PyStmt → Nat
  | [] => 1
  | s :: ss => 1 + szS s + szSL ss
end

theorem szSL_pos (ss : List PyStmt) : 1 ≤ szSL ss := by
  cases ss <;> simp [szSL]; omega

/-! ### what may follow a statement / a block -/

/-- the first of the following lines (if any) is indented less than `ind`, or equally and satisfies `P` -/
def Next (ind : Nat) (P : Line → Prop) (rest : List Line) : Prop :=
  ∀ l r, rest = l :: r → l.indent < ind ∨ (l.indent = ind ∧ P l)

/-- a block at indentation `ind` ends here -/
def Ends (ind : Nat) (rest : List Line) : Prop := ∀ l r, rest = l :: r → l.indent < ind

def notClause (l : Line) : Prop := isClauseLine l = false
def notElse (l : Line) : Prop := l.toks ≠ [kw cs!"else", tColon]
def notFinally (l : Line) : Prop := l.toks ≠ [kw cs!"finally", tColon]
def notExcept (l : Line) : Prop := ∀ ts, l.toks ≠ kw cs!"except" :: ts

theorem Next.mono {ind : Nat} {P Q : Line → Prop} {rest : List Line} (h : Next ind P rest) (hpq : ∀ l, P l → Q l) :
    Next ind Q rest := by
  intro l r e
  rcases h l r e with h1 | ⟨h1, h2⟩
  · exact Or.inl h1
  · exact Or.inr ⟨h1, hpq l h2⟩

theorem Next.ends {ind : Nat} {P : Line → Prop} {rest : List Line} (h : Next ind P rest) : Ends (ind + 1) rest := by
  intro l r e
  rcases h l r e with h1 | ⟨h1, _⟩ <;> omega

theorem next_cons (ind : Nat) (P : Line → Prop) (ts : List Tok) (r : List Line) (h : P ⟨ind, ts⟩) :
    Next ind P (⟨ind, ts⟩ :: r) := by
  intro l r' e
  obtain ⟨rfl, _⟩ := List.cons.inj e
  exact Or.inr ⟨rfl, h⟩

theorem ends_cons (ind : Nat) (ts : List Tok) (r : List Line) : Ends (ind + 1) (⟨ind, ts⟩ :: r) := by
  intro l r' e
  obtain ⟨rfl, _⟩ := List.cons.inj e
  exact Nat.lt_succ_self _

theorem notClause_else {l : Line} (h : notClause l) : notElse l := by
  intro e; simp [notClause, isClauseLine, e, kw] at h

theorem notClause_finally {l : Line} (h : notClause l) : notFinally l := by
  intro e; simp [notClause, isClauseLine, e, kw] at h

theorem notClause_except {l : Line} (h : notClause l) : notExcept l := by
  intro ts e; simp [notClause, isClauseLine, e, kw] at h

def BlockOK (ss : List PyStmt) : Prop :=
  ∀ ind fuel, szSL ss ≤ fuel → ∀ rest, Ends ind rest → parseBlock fuel ind (genBody ind ss ++ rest) = some (ss, rest)

def StmtOK (s : PyStmt) : Prop :=
  ∀ ind fuel, szS s ≤ fuel → ∀ rest, Next ind notClause rest →
    parseStmt fuel ind (genStmt ind s ++ rest) = some (s, rest)

def HandlersOK (hs : List PyStmt) : Prop :=
  ∀ ind fuel, szSL hs ≤ fuel → ∀ rest, Next ind notExcept rest →
    parseHandlers fuel ind (genBody ind hs ++ rest) = some (hs, rest)

/-! ### `else:` / `finally:` -/

theorem genElse_cons (ind : Nat) (s : PyStmt) (ss : List PyStmt) :
    genElse ind (s :: ss) = ⟨ind, [kw cs!"else", tColon]⟩ :: genBody (ind + 1) (s :: ss) := by
  simp [genElse, genBody]

theorem else_ok (o : List PyStmt) (ho : BlockOK o) (ind fuel : Nat) (hf : szSL o + 1 ≤ fuel) (rest : List Line)
    (hr : Next ind notElse rest) : parseElse fuel ind (genElse ind o ++ rest) = some (o, rest) := by
  obtain ⟨f, rfl⟩ : ∃ f, fuel = f + 1 := ⟨fuel - 1, by have := szSL_pos o; omega⟩
  cases o with
  | nil =>
    simp only [genElse, List.nil_append]
    unfold parseElse
    split
    · rename_i h; simp at h
    · rename_i ind' _ _ _ f' i rest' heq
      rcases hr _ _ rfl with hlt | ⟨_, hne⟩
      · have : ¬ i = ind' := by simp at hlt; omega
        simp [this]
      · exact absurd rfl hne
    · rfl
  | cons s ss =>
    rw [genElse_cons]
    simp only [List.cons_append, parseElse, kw, tColon, if_true]
    exact ho (ind + 1) f (by omega) rest hr.ends

theorem ends_else (ind : Nat) (o : List PyStmt) (rest : List Line) (hr : Next ind notElse rest) :
    Ends (ind + 1) (genElse ind o ++ rest) := by
  cases o with
  | nil => exact hr.ends
  | cons s ss => rw [genElse_cons]; exact ends_cons _ _ _

/-! ### `if` / `while` / `for` -/

theorem headerEnd_colon : headerEnd [tColon] = true := by simp [headerEnd]

theorem if_ok (t : PyExpr) (b o : List PyStmt) (ht : Supported t) (hb : BlockOK b) (ho : BlockOK o) :
    StmtOK (.if_ t b o) := by
  intro ind fuel hf rest hr
  simp only [szS] at hf
  obtain ⟨f, rfl⟩ : ∃ f, fuel = f + 1 := ⟨fuel - 1, by omega⟩
  have hne := hr.mono (fun _ => notClause_else)
  have hex := exprP_gen t ht [tColon] (stopsAll_closedE rfl)
  have hbody := hb (ind + 1) f (by omega) (genElse ind o ++ rest) (ends_else ind o rest hne)
  have helse := else_ok o ho ind f (by omega) rest hne
  simp only [genStmt, List.cons_append, List.append_assoc, kw]
  simp only [parseStmt, hex, headerEnd_colon, Option.bind_eq_bind, Option.bind_some, if_true, hbody, helse]

theorem while_ok (t : PyExpr) (b o : List PyStmt) (ht : Supported t) (hb : BlockOK b) (ho : BlockOK o) :
    StmtOK (.while_ t b o) := by
  intro ind fuel hf rest hr
  simp only [szS] at hf
  obtain ⟨f, rfl⟩ : ∃ f, fuel = f + 1 := ⟨fuel - 1, by omega⟩
  have hne := hr.mono (fun _ => notClause_else)
  have hex := exprP_gen t ht [tColon] (stopsAll_closedE rfl)
  have hbody := hb (ind + 1) f (by omega) (genElse ind o ++ rest) (ends_else ind o rest hne)
  have helse := else_ok o ho ind f (by omega) rest hne
  simp only [genStmt, List.cons_append, List.append_assoc, kw]
  simp only [parseStmt, hex, headerEnd_colon, Option.bind_eq_bind, Option.bind_some, if_true, hbody, helse]

theorem stopsTrailer_name (s : Str) (r : List Tok) : stopsTrailer (Tok.name s :: r) = true := rfl

theorem for_ok (t it : PyExpr) (b o : List PyStmt) (ht : Supported t) (hit : Supported it) (hb : BlockOK b)
    (ho : BlockOK o) : StmtOK (.for_ t it b o) := by
  intro ind fuel hf rest hr
  simp only [szS] at hf
  obtain ⟨f, rfl⟩ : ∃ f, fuel = f + 1 := ⟨fuel - 1, by omega⟩
  have hne := hr.mono (fun _ => notClause_else)
  have hpt := primaryP_gen t ht (kw cs!"in" :: (gen it ++ [tColon])) (stopsTrailer_name _ _)
  have hex := exprP_gen it hit [tColon] (stopsAll_closedE rfl)
  have hbody := hb (ind + 1) f (by omega) (genElse ind o ++ rest) (ends_else ind o rest hne)
  have helse := else_ok o ho ind f (by omega) rest hne
  simp only [kw] at hpt
  simp only [genStmt, List.cons_append, List.append_assoc, kw]
  simp only [parseStmt, hpt, hex, headerEnd_colon, Option.bind_eq_bind, Option.bind_some, if_true, hbody, helse]

/-! ### `with` -/

theorem withItems_loop : ∀ (items : List (PyExpr × Option PyExpr)) (x : PyExpr × Option PyExpr),
    (∀ i ∈ x :: items, Supported i.1 ∧ SupportedO i.2) → ∀ fuel, items.length + 1 ≤ fuel →
      withItemsP fuel (joinToks [tComma] ((x :: items).map withItemToks) ++ [tColon]) = some (x :: items)
  | [], (c, none), h, fuel, hf => by
    obtain ⟨f, rfl⟩ : ∃ f, fuel = f + 1 := ⟨fuel - 1, by omega⟩
    have hc := exprP_gen c (h (c, none) (by simp)).1 [tColon] (stopsAll_closedE rfl)
    simp only [tColon] at hc
    simp [joinToks, withItemToks, withItemsP, hc, tColon]
  | [], (c, some v), h, fuel, hf => by
    obtain ⟨f, rfl⟩ : ∃ f, fuel = f + 1 := ⟨fuel - 1, by omega⟩
    have hc := exprP_gen c (h (c, some v) (by simp)).1 (kw cs!"as" :: (gen v ++ [tColon])) (stopsAll_as _)
    have hv := primaryP_gen v ((h (c, some v) (by simp)).2 v rfl) [tColon] rfl
    simp only [tColon, kw] at hc hv
    simp [joinToks, withItemToks, withItemsP, hc, hv, tColon, kw]
  | y :: ys, (c, none), h, fuel, hf => by
    obtain ⟨f, rfl⟩ : ∃ f, fuel = f + 1 := ⟨fuel - 1, by omega⟩
    have ih := withItems_loop ys y (fun i hi => h i (by simp at hi ⊢; exact Or.inr hi)) f (by simp at hf; omega)
    rw [List.map_cons, joinToks_cons_ne _ _ _ (by simp)]
    simp only [List.append_assoc, List.cons_append, List.nil_append]
    generalize joinToks [tComma] (List.map withItemToks (y :: ys)) ++ [tColon] = R at ih ⊢
    have hc := exprP_gen c (h (c, none) (by simp)).1 (tComma :: R) (stopsAll_closedE rfl)
    simp only [tComma] at hc
    simp [withItemToks, withItemsP, hc, ih, tComma]
  | y :: ys, (c, some v), h, fuel, hf => by
    obtain ⟨f, rfl⟩ : ∃ f, fuel = f + 1 := ⟨fuel - 1, by omega⟩
    have ih := withItems_loop ys y (fun i hi => h i (by simp at hi ⊢; exact Or.inr hi)) f (by simp at hf; omega)
    rw [List.map_cons, joinToks_cons_ne _ _ _ (by simp)]
    simp only [withItemToks, List.append_assoc, List.cons_append, List.nil_append]
    generalize joinToks [tComma] (List.map withItemToks (y :: ys)) ++ [tColon] = R at ih ⊢
    have hc := exprP_gen c (h (c, some v) (by simp)).1 (kw cs!"as" :: (gen v ++ tComma :: R)) (stopsAll_as _)
    have hv := primaryP_gen v ((h (c, some v) (by simp)).2 v rfl) (tComma :: R) rfl
    simp only [tComma, kw] at hc hv
    simp [withItemsP, hc, hv, ih, tComma, kw]

theorem with_ok (items : List (PyExpr × Option PyExpr)) (b : List PyStmt) (hne : items ≠ [])
    (hi : ∀ i ∈ items, Supported i.1 ∧ SupportedO i.2) (hb : BlockOK b) : StmtOK (.with_ items b) := by
  intro ind fuel hf rest hr
  simp only [szS] at hf
  obtain ⟨f, rfl⟩ : ∃ f, fuel = f + 1 := ⟨fuel - 1, by omega⟩
  obtain ⟨x, xs, rfl⟩ : ∃ x xs, items = x :: xs := by
    cases items with
    | nil => exact absurd rfl hne
    | cons a b => exact ⟨a, b, rfl⟩
  have hbody := hb (ind + 1) f (by omega) rest hr.ends
  have hloop := withItems_loop xs x hi ((joinToks [tComma] ((x :: xs).map withItemToks) ++ [tColon]).length + 1)
    (by
      have : xs.length ≤ (joinToks [tComma] ((x :: xs).map withItemToks)).length := by
        clear hbody hi hne hf
        induction xs generalizing x with
        | nil => simp
        | cons y ys ih => have := ih y; simp [joinToks] at this ⊢; omega
      simp only [List.length_append, List.length_cons, List.length_nil]; omega)
  simp only [genStmt, List.cons_append, kw]
  simp only [parseStmt, hloop, Option.bind_eq_bind, Option.bind_some, hbody]

/-! ### heads of line groups -/

def HeadIs (ind : Nat) (P : Line → Prop) (A : List Line) : Prop := ∀ l r, A = l :: r → l.indent = ind ∧ P l

theorem next_app {ind : Nat} {P : Line → Prop} {A rest : List Line} (hA : HeadIs ind P A) (hr : Next ind P rest) :
    Next ind P (A ++ rest) := by
  cases A with
  | nil => simpa using hr
  | cons a A' =>
    intro l r e
    simp only [List.cons_append] at e
    obtain ⟨rfl, _⟩ := List.cons.inj e
    exact Or.inr (hA _ _ rfl)

theorem head_else (ind : Nat) (P : Line → Prop) (o : List PyStmt) (h : P ⟨ind, [kw cs!"else", tColon]⟩) :
    HeadIs ind P (genElse ind o) := by
  cases o with
  | nil => intro l r e; simp [genElse] at e
  | cons s ss =>
    rw [genElse_cons]
    intro l r e
    obtain ⟨rfl, _⟩ := List.cons.inj e
    exact ⟨rfl, h⟩

def finLines (ind : Nat) (f : List PyStmt) : List Line :=
  match f with
  | [] => []
  | _ :: _ => ⟨ind, [kw cs!"finally", tColon]⟩ :: genBody (ind + 1) f

theorem head_fin (ind : Nat) (P : Line → Prop) (f : List PyStmt) (h : P ⟨ind, [kw cs!"finally", tColon]⟩) :
    HeadIs ind P (finLines ind f) := by
  cases f with
  | nil => intro l r e; simp [finLines] at e
  | cons s ss =>
    intro l r e
    obtain ⟨rfl, _⟩ := List.cons.inj e
    exact ⟨rfl, h⟩

theorem head_handlers (ind : Nat) (P : Line → Prop) (hs : List PyStmt) (h : ∀ ts, P ⟨ind, kw cs!"except" :: ts⟩)
    (hall : hs.all isHandler = true) : HeadIs ind P (genBody ind hs) := by
  cases hs with
  | nil => intro l r e; simp [genBody] at e
  | cons x xs =>
    cases x <;> simp [isHandler] at hall
    intro l r e
    simp only [genBody, genStmt, List.cons_append] at e
    obtain ⟨rfl, _⟩ := List.cons.inj e
    exact ⟨rfl, h _⟩

/-! ### `try` -/

theorem finally_ok (f : List PyStmt) (hf0 : BlockOK f) (ind fuel : Nat) (hf : szSL f + 1 ≤ fuel) (rest : List Line)
    (hr : Next ind notFinally rest) : parseFinally fuel ind (finLines ind f ++ rest) = some (f, rest) := by
  obtain ⟨n, rfl⟩ : ∃ n, fuel = n + 1 := ⟨fuel - 1, by have := szSL_pos f; omega⟩
  cases f with
  | nil =>
    simp only [finLines, List.nil_append]
    unfold parseFinally
    split
    · rename_i h; simp at h
    · rename_i ind' _ _ _ f' i rest' heq
      rcases hr _ _ rfl with hlt | ⟨_, hne⟩
      · have : ¬ i = ind' := by simp at hlt; omega
        simp [this]
      · exact absurd rfl hne
    · rfl
  | cons s ss =>
    simp only [finLines, List.cons_append, parseFinally, kw, tColon, if_true]
    exact hf0 (ind + 1) n (by omega) rest hr.ends

theorem handlers_nil : HandlersOK [] := by
  intro ind fuel hf rest hr
  obtain ⟨n, rfl⟩ : ∃ n, fuel = n + 1 := ⟨fuel - 1, by simp [szSL] at hf; omega⟩
  simp only [genBody, List.nil_append]
  unfold parseHandlers
  split
  · rename_i h; simp at h
  · rename_i ind' _ _ _ f' i ts rest' heq
    rcases hr _ _ rfl with hlt | ⟨_, hne⟩
    · have : ¬ i = ind' := by simp at hlt; omega
      simp [this]
    · exact absurd rfl (hne ts)
  · rfl

theorem handlers_cons (t : Option PyExpr) (b hs : List PyStmt) (ht : SupportedO t) (hb : BlockOK b)
    (hhs : HandlersOK hs) (hall : hs.all isHandler = true) : HandlersOK (.handler t none b :: hs) := by
  intro ind fuel hf rest hr
  simp only [szSL, szS] at hf
  obtain ⟨n, rfl⟩ : ∃ n, fuel = n + 1 := ⟨fuel - 1, by omega⟩
  have hr' : Next ind (fun _ => True) (genBody ind hs ++ rest) :=
    next_app (head_handlers ind _ hs (fun _ => trivial) hall) (hr.mono (fun _ _ => trivial))
  have hbody := hb (ind + 1) n (by omega) (genBody ind hs ++ rest) hr'.ends
  have hrec := hhs ind n (by omega) rest hr
  cases t with
  | none =>
    simp only [genBody, genStmt, genOpt, List.cons_append, List.append_assoc, List.nil_append, kw, tColon]
    simp only [parseHandlers, if_true, Option.bind_eq_bind, Option.bind_some, hbody, hrec]
  | some e =>
    obtain ⟨t1, r, hg, hat⟩ := gen_ne_nil e (ht e rfl)
    have hex := exprP_gen e (ht e rfl) [tColon] (stopsAll_closedE rfl)
    simp only [genBody, genStmt, genOpt, List.cons_append, List.append_assoc, List.nil_append, kw]
    rw [hg] at hex ⊢
    simp only [List.cons_append] at hex ⊢
    rw [parseHandlers]
    · simp only [if_true, hex, headerEnd_colon, Option.bind_eq_bind, Option.bind_some, hbody, hrec]
    · intro heq
      have := (List.cons.inj heq).1
      subst this
      simp [atomStart] at hat

theorem try_ok (b hs o f : List PyStmt) (hb : BlockOK b) (hhs : HandlersOK hs) (hall : hs.all isHandler = true)
    (ho : BlockOK o) (hf0 : BlockOK f) : StmtOK (.try_ b hs o f) := by
  intro ind fuel hf rest hr
  simp only [szS] at hf
  obtain ⟨n, rfl⟩ : ∃ n, fuel = n + 1 := ⟨fuel - 1, by omega⟩
  have hr1 : Next ind notFinally rest := hr.mono (fun _ => notClause_finally)
  have hr2 : Next ind notElse (finLines ind f ++ rest) :=
    next_app (head_fin ind _ f (by simp [notElse, kw])) (hr.mono (fun _ => notClause_else))
  have hr3 : Next ind notExcept (genElse ind o ++ (finLines ind f ++ rest)) :=
    next_app (head_else ind _ o (by simp [notExcept, kw]))
      (next_app (head_fin ind _ f (by simp [notExcept, kw])) (hr.mono (fun _ => notClause_except)))
  have hr4 : Next ind (fun _ => True) (genBody ind hs ++ (genElse ind o ++ (finLines ind f ++ rest))) :=
    next_app (head_handlers ind _ hs (fun _ => trivial) hall)
      (next_app (head_else ind _ o trivial) (next_app (head_fin ind _ f trivial) (hr.mono (fun _ _ => trivial))))
  have h1 := hb (ind + 1) n (by omega) _ hr4.ends
  have h2 := hhs ind n (by omega) _ hr3
  have h3 := else_ok o ho ind n (by omega) _ hr2
  have h4 := finally_ok f hf0 ind n (by omega) _ hr1
  have hgen : genStmt ind (.try_ b hs o f) ++ rest = ⟨ind, [kw cs!"try", tColon]⟩ ::
      (genBody (ind + 1) b ++ (genBody ind hs ++ (genElse ind o ++ (finLines ind f ++ rest)))) := by
    cases f <;> simp [genStmt, finLines]
  rw [hgen]
  simp only [parseStmt, kw, tColon, Option.bind_eq_bind, Option.bind_some, h1, h2, h3, h4]

/-! ### blocks -/

theorem block_nil : BlockOK [] := by
  intro ind fuel hf rest hr
  obtain ⟨n, rfl⟩ : ∃ n, fuel = n + 1 := ⟨fuel - 1, by simp [szSL] at hf; omega⟩
  simp only [genBody, List.nil_append]
  cases rest with
  | nil => simp [parseBlock]
  | cons l r => have := hr l r rfl; simp [parseBlock, this]

theorem block_cons (s : PyStmt) (ss : List PyStmt) (hs : StmtOK s) (hss : BlockOK ss)
    (hhead : ∀ ind, ∃ toks ls, genStmt ind s = ⟨ind, toks⟩ :: ls ∧ notClause ⟨ind, toks⟩)
    (hnext : ∀ ind, HeadIs ind notClause (genBody ind ss)) : BlockOK (s :: ss) := by
  intro ind fuel hf rest hr
  simp only [szSL] at hf
  obtain ⟨n, rfl⟩ : ∃ n, fuel = n + 1 := ⟨fuel - 1, by omega⟩
  have hr' : Next ind notClause rest := fun l r e => Or.inl (hr l r e)
  have h1 := hs ind n (by omega) (genBody ind ss ++ rest) (next_app (hnext ind) hr')
  have h2 := hss ind n (by omega) rest hr
  obtain ⟨toks, ls, hg, hcl⟩ := hhead ind
  simp only [genBody, List.append_assoc]
  rw [hg] at h1 ⊢
  simp only [List.cons_append] at h1 ⊢
  simp only [notClause] at hcl
  simp [parseBlock, hcl, h1, h2]

/-- the first line of a statement -/
theorem genStmt_head (s : PyStmt) (h : WFS s) (hh : isHandler s = false) (ind : Nat) :
    ∃ toks ls, genStmt ind s = ⟨ind, toks⟩ :: ls ∧ notClause ⟨ind, toks⟩ := by
  by_cases hs : isSimple s = true
  · obtain ⟨toks, hg, _, t, r, rfl, ht⟩ := simple_ok s h hs ind
    refine ⟨_, [], hg, ?_⟩
    rcases ht with ht | rfl | rfl | rfl | rfl | rfl | rfl | rfl | rfl | rfl
    · cases t with
      | name s' =>
        have e1 := atomStart_not_stmtKw ht cs!"else" (by decide)
        have e2 := atomStart_not_stmtKw ht cs!"except" (by decide)
        have e3 := atomStart_not_stmtKw ht cs!"finally" (by decide)
        simp only [notClause, isClauseLine, Bool.or_eq_false_iff, decide_eq_false_iff_not]
        exact ⟨⟨fun e => e1 (by rw [e]), fun e => e2 (by rw [e])⟩, fun e => e3 (by rw [e])⟩
      | num _ => rfl
      | str _ => rfl
      | op _ => rfl
    all_goals simp [notClause, isClauseLine, kw]
  · cases s with
    | if_ t b o => exact ⟨_, _, by simp only [genStmt]; rfl, by simp [notClause, isClauseLine, kw]⟩
    | while_ t b o => exact ⟨_, _, by simp only [genStmt]; rfl, by simp [notClause, isClauseLine, kw]⟩
    | for_ t it b o => exact ⟨_, _, by simp only [genStmt]; rfl, by simp [notClause, isClauseLine, kw]⟩
    | with_ items b => exact ⟨_, _, by simp only [genStmt]; rfl, by simp [notClause, isClauseLine, kw]⟩
    | try_ b hs o f => exact ⟨_, _, by simp only [genStmt]; rfl, by simp [notClause, isClauseLine, kw]⟩
    | functionDef name po ar va ko ka body decos ret tp =>
      cases decos with
      | nil => exact ⟨_, _, by simp only [genStmt, List.map_nil, List.nil_append]; rfl, by simp [notClause, isClauseLine, kw]⟩
      | cons d ds =>
        exact ⟨_, _, by simp only [genStmt, List.map_cons, List.cons_append]; rfl, by simp [notClause, isClauseLine, tAt]⟩
    | classDef name bases kws body decos tp =>
      cases decos with
      | nil => exact ⟨_, _, by simp only [genStmt, List.map_nil, List.nil_append]; rfl, by simp [notClause, isClauseLine, kw]⟩
      | cons d ds =>
        exact ⟨_, _, by simp only [genStmt, List.map_cons, List.cons_append]; rfl, by simp [notClause, isClauseLine, tAt]⟩
    | handler t n b => simp [isHandler] at hh
    | global_ _ => simp [WFS] at h
    | unsupported _ => simp [WFS] at h
    | _ => simp [isSimple] at hs

theorem head_body (ind : Nat) (ss : List PyStmt) (h : WFSL ss) (hh : noHandlers ss = true) :
    HeadIs ind notClause (genBody ind ss) := by
  cases ss with
  | nil => intro l r e; simp [genBody] at e
  | cons s ss' =>
    simp only [WFSL] at h
    simp only [noHandlers, List.all_cons, Bool.and_eq_true, Bool.not_eq_true'] at hh
    obtain ⟨toks, ls, hg, hcl⟩ := genStmt_head s h.1 hh.1 ind
    intro l r e
    simp only [genBody, hg, List.cons_append] at e
    obtain ⟨rfl, _⟩ := List.cons.inj e
    exact ⟨rfl, hcl⟩

/-- one-line statements inside a block -/
theorem simple_stmt_ok (s : PyStmt) (h : WFS s) (hs : isSimple s = true) : StmtOK s := by
  intro ind fuel hf rest hr
  obtain ⟨n, rfl⟩ : ∃ n, fuel = n + 1 := ⟨fuel - 1, by cases s <;> simp [szS, isSimple] at hf hs <;> omega⟩
  obtain ⟨toks, hg, hp, t, r, rfl, ht⟩ := simple_ok s h hs ind
  rw [hg]
  simp only [List.cons_append, List.nil_append]
  unfold parseStmt
  split <;> first
    | (rename_i heq
       have := (List.cons.inj heq).1
       subst this
       rcases ht with ht | ht | ht | ht | ht | ht | ht | ht | ht | ht <;> exact absurd ht (by decide))
    | simp [hp]

end Genshi.Py
